/- Canonical storage of the documents left by the slot-level deserializers `JDDF.run` (filtered, AJ/Model/JDDF.lean) and,
   through the `AllowAll` filter, `JDD.run`.  These are the side conditions of the memory comparison of AJ/Props/C11Mem.lean:
   * `Kept c d` (cell-global, every path, failures included, any start document): every integer stored inline fits 32 bits
     (`AllV inlineSmallV`), no string is linked (`AllV notLinkedV`: the parser copies every string), and the per-node overhead
     `strOverhead` is the one of the start document.  Pushed through `parseVariant / parseElems / parseMembers` by an induction
     on the fuel that only looks at the document (`kept_all`), like `bn_all` of AJ/Lemmas/JddfExact.lean.
   * `ExtBig d F'` (an extension slot is spent only on an integer that needs one) is NOT cell-global (it reads the payload
     of the extension slot a value refers to, so it needs to know that this slot is not reused or released behind its back):
     it is pushed through the `Built`-based induction of AJ/Lemmas/JddfExact.lean as an extra component `ES`, next to the
     component `TS` for `Tight`, so that both hold FOR THE SAME LAYOUT of the result (`run_canon`).  `ES` is unconditional
     (no hypothesis on the allocator: a failed allocation stores nothing), `TS` needs "no allocation failed". -/
import AJ.Lemmas.JddfExact
import AJ.Lemmas.DocSize
namespace JDDF
open DL JDD
open JD (Byte Code Cfg Flt cur mv skipSpaces skipKeyword skipVariant skipElems skipMembers skipQuoted skipNumeric)
open DocSize (AllV PColl inlineSmallV notLinkedV extBigV ExtBig InlineSmall NoLinked pcoll_inlineSmall pcoll_notLinked)

/-! ## Part 1: the cell-global facts -/

/-- what holds of every cell of a document under deserialization, and of its string overhead `c` -/
structure Kept (c : Nat) (d : Doc) : Prop where
  small : AllV inlineSmallV d
  nolink : AllV notLinkedV d
  ovh : d.strOverhead = c

theorem Kept.of_cells {c : Nat} {d d' : Doc} (hc : d'.cells = d.cells) (hr : d'.root = d.root)
    (ho : d'.strOverhead = d.strOverhead) (k : Kept c d) : Kept c d' :=
  ⟨k.small.of_cells hc hr, k.nolink.of_cells hc hr, ho.trans k.ovh⟩

theorem Kept.pleq {c : Nat} {d d' : Doc} (h : PlEq d d') (k : Kept c d) : Kept c d' := k.of_cells h.cells h.root h.ovh

theorem Kept.set {c : Nat} {d : Doc} (k : Kept c d) (l : Loc) {v : VData} (h1 : inlineSmallV v = true)
    (h2 : notLinkedV v = true) : Kept c (d.set l v) :=
  ⟨k.small.set l h1, k.nolink.set l h2, (set_strOverhead _ _ _).trans k.ovh⟩

theorem Kept.save {c : Nat} {x : S} (k : Kept c x.d) (bytes : List Byte) : Kept c (save x bytes).2.d :=
  k.of_cells (save_spec x bytes).cells (save_spec x bytes).root (save_spec x bytes).ovh

theorem addElement_ovh (d : Doc) (l : Loc) : (d.addElement l).2.strOverhead = d.strOverhead := by
  have h := mem_allocVariant_ovh d
  simp only [Doc.addElement]
  generalize d.allocVariant = r at h
  obtain ⟨m, d1⟩ := r
  cases m
  · exact h
  · exact (mem_P_appendOne d1 l _).ovh.trans h

theorem Kept.addElement {c : Nat} {d : Doc} (k : Kept c d) (l : Loc) : Kept c (d.addElement l).2 :=
  ⟨k.small.addElement pcoll_inlineSmall l, k.nolink.addElement pcoll_notLinked l, (addElement_ovh d l).trans k.ovh⟩

theorem Kept.clearV {c : Nat} {d : Doc} (k : Kept c d) (l : Loc) : Kept c (d.clearV l) :=
  ⟨k.small.clearV pcoll_inlineSmall l, k.nolink.clearV pcoll_notLinked l, (mem_P_clearV d l).ovh.trans k.ovh⟩

theorem Kept.allocVariant {c : Nat} {d : Doc} (k : Kept c d) : Kept c d.allocVariant.2 :=
  ⟨k.small.allocVariant pcoll_inlineSmall, k.nolink.allocVariant pcoll_notLinked, (mem_allocVariant_ovh d).trans k.ovh⟩

theorem Kept.appendPair {c : Nat} {d : Doc} (k : Kept c d) (l : Loc) (a b : Nat) : Kept c (d.appendPair l a b) :=
  ⟨k.small.appendPair pcoll_inlineSmall l a b, k.nolink.appendPair pcoll_notLinked l a b,
    (mem_P_appendPair d l a b).ovh.trans k.ovh⟩

theorem Kept.addMemberNode {c : Nat} {d : Doc} (k : Kept c d) (l : Loc) (node : Nat) : Kept c (addMemberNode d l node).2 := by
  rcases addMemberNode_cases d l node with ⟨d1, hal1, e⟩ | ⟨a, d1, d2, hal1, hal2, e⟩ | ⟨a, d1, v, d2, hal1, hal2, e⟩
  · rw [e]; have := k.allocVariant; rw [hal1] at this; exact this
  · rw [e]
    have h1 := k.allocVariant; rw [hal1] at h1
    have h2 := h1.allocVariant; rw [hal2] at h2
    exact h2
  · rw [e]
    have h1 := k.allocVariant; rw [hal1] at h1
    have h2 := h1.allocVariant; rw [hal2] at h2
    exact (h2.set (.slot a) (v := .owned node) rfl rfl).appendPair l a v

theorem setArg_num_ovh (d : Doc) (l : Loc) {a : Arg} (ha : isNum a) : (d.setArg l a).2.strOverhead = d.strOverhead := by
  rcases setArg_num_shape d l ha with ⟨v, e⟩ | ⟨p, x, d1, v, hal, e⟩ | ⟨p, d1, hal, e⟩
  · rw [e]; exact set_strOverhead _ _ _
  · rw [e]; have := mem_allocExt_ovh d p; rw [hal] at this; exact (set_strOverhead _ _ _).trans this
  · rw [e]; have := mem_allocExt_ovh d p; rw [hal] at this; exact this

theorem Kept.setArg_num {c : Nat} {d : Doc} (k : Kept c d) (l : Loc) {a : Arg} (ha : isNum a) : Kept c (d.setArg l a).2 :=
  ⟨k.small.setArg_inlineSmall l a, k.nolink.setArg_notLinked l a (fun s e => by subst e; exact ha),
    (setArg_num_ovh d l ha).trans k.ovh⟩

/-- the step `d → d'` keeps `Kept` -/
def KS (c : Nat) (d d' : Doc) : Prop := Kept c d → Kept c d'

theorem KS.refl (c : Nat) (d : Doc) : KS c d d := fun h => h
theorem KS.trans {c : Nat} {d d1 d2 : Doc} (h1 : KS c d d1) (h2 : KS c d1 d2) : KS c d d2 := fun h => h2 (h1 h)
theorem KS.pleq {c : Nat} {d d' : Doc} (h : PlEq d d') : KS c d d' := fun k => k.pleq h
theorem KS.set (c : Nat) (d : Doc) (l : Loc) {v : VData} (h1 : inlineSmallV v = true) (h2 : notLinkedV v = true) :
    KS c d (d.set l v) := fun k => k.set l h1 h2
theorem KS.save (c : Nat) (x : S) (bytes : List Byte) : KS c x.d (save x bytes).2.d := fun k => k.save bytes

theorem ks_numeric (c : Nat) (cfg : Cfg) (l : Loc) (x : S) : KS c x.d (numeric cfg l x).2.d := by
  unfold numeric
  simp only
  split
  · exact fun h => h.setArg_num l trivial
  · exact fun h => h.setArg_num l trivial
  · exact fun h => h.setArg_num l trivial
  · exact fun h => h.setArg_num l trivial
  · exact KS.refl _ _
  · exact KS.refl _ _

theorem ks_memberSlot (c : Nat) (x : S) (l : Loc) (key : List Byte) : KS c x.d (memberSlot x l key).2.d := by
  unfold memberSlot
  cases x.d.findKey l key with
  | some p => obtain ⟨a, v⟩ := p; exact fun k => k.clearV (.slot v)
  | none =>
    simp only
    refine (KS.save c x key).trans ?_
    have : KS c (save x key).2.d (addMemberNode (save x key).2.d l (save x key).1).2 := fun k => k.addMemberNode l _
    generalize addMemberNode (save x key).2.d l (save x key).1 = r at this
    obtain ⟨o, d2⟩ := r
    cases o <;> exact this

def KVs (c : Nat) (cfg : Cfg) (fuel : Nat) : Prop := ∀ (limit : Nat) (flt : Flt) (l : Loc) (x : S),
  KS c x.d (parseVariant cfg fuel limit flt l x).2.d
def KEs (c : Nat) (cfg : Cfg) (fuel : Nat) : Prop := ∀ (limit : Nat) (flt : Flt) (l : Loc) (x : S),
  KS c x.d (parseElems cfg fuel limit flt l x).2.d
def KMs (c : Nat) (cfg : Cfg) (fuel : Nat) : Prop := ∀ (limit : Nat) (flt : Flt) (l : Loc) (x : S),
  KS c x.d (parseMembers cfg fuel limit flt l x).2.d

theorem kv_succ (c : Nat) (cfg : Cfg) (f : Nat) (ihE : KEs c cfg f) (ihM : KMs c cfg f) : KVs c cfg (f+1) := by
  intro limit flt l x
  simp only [parseVariant]
  split
  · rename_i s1 heq
    split
    · split
      · have fx' : KS c x.d (x.d.set l (.arr x.d.null x.d.null)) := KS.set _ _ _ rfl rfl
        split
        · exact fx'
        · split
          · split
            · exact fx'
            · exact fx'.trans (ihE _ _ l ⟨_, _, _⟩)
          · exact fx'
      · split
        · exact KS.refl _ _
        · exact KS.refl _ _
    · split
      · split
        · have fx' : KS c x.d (x.d.set l (.obj x.d.null x.d.null)) := KS.set _ _ _ rfl rfl
          split
          · exact fx'
          · split
            · split
              · exact fx'
              · exact fx'.trans (ihM _ _ l ⟨_, _, _⟩)
            · exact fx'
        · split
          · exact KS.refl _ _
          · split
            · split
              · exact KS.refl _ _
              · exact KS.refl _ _
            · exact KS.refl _ _
      · split
        · split
          · have hq := quoted_spec cfg (f+1) (cur s1).1 { s := mv (cur s1).2, d := x.d, b := x.b }
            split
            · rename_i bytes x1 heq2
              rw [heq2] at hq
              exact (KS.pleq hq.1.bop.pleq).trans ((KS.save c x1 bytes).trans (KS.set _ _ _ rfl rfl))
            · rename_i e bytes x1 hne heq2
              rw [heq2] at hq
              exact KS.pleq hq.1.bop.pleq
          · exact KS.refl _ _
        · split
          · split
            · exact KS.set _ _ _ rfl rfl
            · exact KS.refl _ _
          · split
            · split
              · exact KS.set _ _ _ rfl rfl
              · exact KS.refl _ _
            · split
              · exact KS.refl _ _
              · split
                · exact ks_numeric c cfg l { s := (cur s1).2, d := x.d, b := x.b }
                · exact KS.refl _ _
  · exact KS.refl _ _

/-- what follows an element -/
theorem ke_tail (c : Nat) (cfg : Cfg) (f : Nat) (ihE : KEs c cfg f) {limit : Nat} {ef : Flt} {l : Loc} {d : Doc} {x2 : S}
    (h02 : KS c d x2.d) :
    KS c d
      (match skipSpaces cfg (f+1) x2.s with
      | (.ok, s) =>
        if ((cur s).1 == 0x5D) = true then (Code.ok, { x2 with s := mv (cur s).2 })
        else if ((cur s).1 == 0x2C) = true then parseElems cfg f limit ef l { x2 with s := mv (cur s).2 }
        else (.invalid, { x2 with s := (cur s).2 })
      | (e, s) => (e, { x2 with s := s })).2.d := by
  split
  · split
    · exact h02
    · split
      · exact fun hb => ihE limit ef l _ (h02 hb)
      · exact h02
  · exact h02

theorem ke_succ (c : Nat) (cfg : Cfg) (f : Nat) (ihV : KVs c cfg f) (ihE : KEs c cfg f) : KEs c cfg (f+1) := by
  intro limit ef l x
  simp only [parseElems]
  cases ha : ef.allow with
  | true =>
    simp only [if_true]
    have h01 : KS c x.d (x.d.addElement l).2 := fun h => h.addElement l
    split
    · rename_i x2 heq
      split at heq
      · cases heq
      · rename_i id d1 heq1
        rw [heq1] at h01
        have sp := ihV limit ef (.slot id) { s := x.s, d := d1, b := x.b }
        rw [heq] at sp
        exact ke_tail c cfg f ihE (h01.trans sp)
    · rename_i r hne
      split
      · rename_i d1 heq1
        rw [heq1] at h01; exact h01
      · rename_i id d1 heq1
        rw [heq1] at h01
        exact h01.trans (ihV limit ef (.slot id) { s := x.s, d := d1, b := x.b })
  | false =>
    simp only [Bool.false_eq_true, if_false]
    split
    · rename_i x2 heq
      simp only [Prod.mk.injEq] at heq
      obtain ⟨_, rfl⟩ := heq
      exact ke_tail c cfg f ihE (x2 := { s := (skipVariant cfg f limit x.s).2, d := x.d, b := x.b }) (KS.refl _ _)
    · exact KS.refl _ _

/-- what follows a member -/
theorem km_tail (c : Nat) (cfg : Cfg) (f : Nat) (ihM : KMs c cfg f) {limit : Nat} {flt : Flt} {l : Loc} {d : Doc} {x3 : S}
    (h03 : KS c d x3.d) :
    KS c d
      (match skipSpaces cfg (f+1) x3.s with
      | (.ok, s) =>
        if ((cur s).1 == 0x7D) = true then (Code.ok, { x3 with s := mv (cur s).2 })
        else if ((cur s).1 == 0x2C) = true then
          match skipSpaces cfg (f+1) (mv (cur s).2) with
          | (.ok, s) => parseMembers cfg f limit flt l { x3 with s := s }
          | (e, s) => (e, { x3 with s := s })
        else (.invalid, { x3 with s := (cur s).2 })
      | (e, s) => (e, { x3 with s := s })).2.d := by
  split
  · split
    · exact h03
    · split
      · split
        · exact fun hb => ihM limit flt l _ (h03 hb)
        · exact h03
      · exact h03
  · exact h03

theorem km_succ (c : Nat) (cfg : Cfg) (f : Nat) (ihV : KVs c cfg f) (ihM : KMs c cfg f) : KMs c cfg (f+1) := by
  intro limit flt l x
  simp only [parseMembers]
  have hkey : ∀ (kr : Code × List Byte × S), kr = (if ((cur x.s).fst == 34 || (cur x.s).fst == 39) = true then
        quoted cfg (f + 1) (cur x.s).fst { s := mv (cur x.s).snd, d := x.d, b := x.b }
      else
        if JD.inUnquoted (cur x.s).fst = true then unquoted cfg (f + 1) { s := (cur x.s).snd, d := x.d, b := x.b }
        else (Code.invalid, [], startString { s := (cur x.s).snd, d := x.d, b := x.b })) →
      PlEq x.d kr.2.2.d := by
    intro kr hkr
    split at hkr
    · rw [hkr]; exact (quoted_spec cfg (f+1) (cur x.s).1 { s := mv (cur x.s).2, d := x.d, b := x.b }).1.bop.pleq
    · split at hkr
      · rw [hkr]; exact (unquoted_spec cfg (f+1) { s := (cur x.s).2, d := x.d, b := x.b }).1.bop.pleq
      · rw [hkr]; exact (startString_spec { s := (cur x.s).2, d := x.d, b := x.b }).1.pleq
  have hk := hkey _ rfl
  generalize (if ((cur x.s).fst == 34 || (cur x.s).fst == 39) = true then
        quoted cfg (f + 1) (cur x.s).fst { s := mv (cur x.s).snd, d := x.d, b := x.b }
      else
        if JD.inUnquoted (cur x.s).fst = true then unquoted cfg (f + 1) { s := (cur x.s).snd, d := x.d, b := x.b }
        else (Code.invalid, [], startString { s := (cur x.s).snd, d := x.d, b := x.b })) = kr at hk ⊢
  clear hkey
  obtain ⟨kc, key, x1⟩ := kr
  simp only at hk
  have h01 : KS c x.d x1.d := KS.pleq hk
  cases kc <;> simp only <;> try exact h01
  split
  · rename_i s2 heq2
    split
    · exact h01
    · cases ha : (flt.subKey key).allow with
      | true =>
        simp only [if_true]
        have hsl := ks_memberSlot c ⟨mv (cur s2).2, x1.d, x1.b⟩ l key
        change KS c x.d
          (match (match memberSlot ⟨mv (cur s2).2, x1.d, x1.b⟩ l key with
              | (none, x) => (Code.noMemory, x)
              | (some v, x) => parseVariant cfg f limit (flt.subKey key) (.slot v) x) with
            | (.ok, x) => _
            | r => r).2.d
        generalize memberSlot ⟨mv (cur s2).2, x1.d, x1.b⟩ l key = ms at hsl ⊢
        obtain ⟨o, x2⟩ := ms
        have h02 : KS c x.d x2.d := h01.trans hsl
        cases o with
        | none => exact h02
        | some v =>
          simp only
          have sp := ihV limit (flt.subKey key) (.slot v) x2
          split
          · rename_i x3 heq4
            rw [heq4] at sp
            exact km_tail c cfg f ihM (h02.trans sp)
          · exact h02.trans sp
      | false =>
        simp only [Bool.false_eq_true, if_false]
        split
        · rename_i x3 heq
          simp only [Prod.mk.injEq] at heq
          obtain ⟨_, rfl⟩ := heq
          exact km_tail c cfg f ihM (x3 := { s := (skipVariant cfg f limit (mv (cur s2).2)).2, d := x1.d, b := x1.b }) h01
        · exact h01
  · exact h01

/-- `Kept` through the whole mutual block: every fuel, filter, location, state, allocator schedule -/
theorem kept_all (c : Nat) (cfg : Cfg) : ∀ fuel, KVs c cfg fuel ∧ KEs c cfg fuel ∧ KMs c cfg fuel := by
  intro fuel
  induction fuel with
  | zero =>
    refine ⟨?_, ?_, ?_⟩ <;> intro limit flt l x
    · simp only [parseVariant]; exact KS.refl _ _
    · simp only [parseElems]; exact KS.refl _ _
    · simp only [parseMembers]; exact KS.refl _ _
  | succ f ih =>
    obtain ⟨ihV, ihE, ihM⟩ := ih
    exact ⟨kv_succ c cfg f ihE ihM, ke_succ c cfg f ihV ihE, km_succ c cfg f ihV ihM⟩

theorem clearAll_kept (d : Doc) : Kept d.strOverhead d.clearAll :=
  ⟨AllV.clearAll pcoll_inlineSmall d, AllV.clearAll pcoll_notLinked d, rfl⟩

/-- EVERY run, from any document, under any filter and allocator schedule: the document left stores every inline integer in
    32 bits, holds no linked string, and has the string overhead of the start document -/
theorem run_kept (cfg : Cfg) (limit : Nat) (flt : Flt) (d : Doc) (input : List Byte) :
    Kept d.strOverhead (run cfg limit flt d input).2.1 := by
  have h := (kept_all d.strOverhead cfg (2 * input.length + 4)).1 limit flt .root (start d input) (clearAll_kept d)
  have h1 : Kept d.strOverhead (stop cfg limit flt d input).2.d := h
  have h2 := h1.pleq (preShrink_pleq cfg limit flt d input).1
  rw [run_eq]
  exact Kept.of_cells (d := preShrink cfg limit flt d input) rfl rfl rfl h2

/-! ## Part 2: `ExtBig` along the document operations of the deserializer -/

/-- `extBigV` only reads the payload of the extension slot of the value -/
theorem extBigV_congr {d d' : Doc} {v : VData} (h : ∀ e ∈ extOfV v, d'.extOf e = d.extOf e) : extBigV d' v = extBigV d v := by
  cases v <;> first | rfl | skip
  case i64 s => simp only [extBigV, h s (by simp [extOfV])]
  case u64 s => simp only [extBigV, h s (by simp [extOfV])]

theorem extBigV_cells {d d' : Doc} {v : VData} (h : ∀ e ∈ extOfV v, d'.cell e = d.cell e) : extBigV d' v = extBigV d v :=
  extBigV_congr (fun e he => extOf_of_cell (h e he))

/-- … hence only the scalar read in the cell -/
theorem extBigV_scalar {d d' : Doc} {v : VData} (h : d'.scalar v = d.scalar v) : extBigV d' v = extBigV d v := by
  cases v <;> first | rfl | skip
  case i64 s =>
    simp only [Doc.scalar, JD.Val.num.injEq, JD.Num.sint.injEq] at h
    simp only [extBigV, h]
  case u64 s =>
    simp only [Doc.scalar, JD.Val.num.injEq, JD.Num.uint.injEq] at h
    simp only [extBigV, h]

theorem extBigV_coll {d : Doc} {v : VData} (h : isColl v) : extBigV d v = true := by
  cases v <;> first | rfl | exact h.elim

/-- the general step: every holder of the new layout is an old holder that reads the same, or is canonical anyway -/
theorem ExtBig.transfer {d d' : Doc} {G G' : Forest}
    (h : ∀ l ∈ holders G', (l ∈ holders G ∧ d'.get l = d.get l ∧ extBigV d' (d.get l) = extBigV d (d.get l)) ∨
      extBigV d' (d'.get l) = true) (e : ExtBig d G) : ExtBig d' G' := by
  intro l hl
  rcases h l hl with ⟨h1, h2, h3⟩ | h1
  · rw [h2, h3]; exact e l h1
  · exact h1

/-- allocator traffic is not seen -/
theorem ExtBig.pleq {d d' : Doc} {G : Forest} (h : PlEq d d') (e : ExtBig d G) : ExtBig d' G :=
  ExtBig.transfer (fun l hl => Or.inl ⟨hl, h.get l, extBigV_cells (fun x _ => h.cell x)⟩) e

/-- nor is a change of the pools that keeps the cells -/
theorem ExtBig.of_cells {d d' : Doc} {G : Forest} (hc : d'.cells = d.cells) (hr : d'.root = d.root) (e : ExtBig d G) :
    ExtBig d' G :=
  ExtBig.transfer (fun l hl => Or.inl ⟨hl, DocSize.get_of_cells hc hr l,
    extBigV_cells (fun x _ => by simp only [Doc.cell, hc])⟩) e

/-- the pool grew (or an allocation failed): the live cells are the same -/
theorem ExtBig.grow {d d' : Doc} {G : Forest} (w : WFG d G) (h : Grow d d') (e : ExtBig d G) : ExtBig d' G := by
  refine ExtBig.transfer (fun l hl => Or.inl ⟨hl, ?_, extBigV_cells (fun x hx => h.cells x (w.ext l hl x hx).2.1)⟩) e
  rcases mem_holders.1 hl with e' | ⟨x, hx, e'⟩
  · subst e'; exact h.root
  · subst e'; exact get_of_cell (h.cells x (w.live x hx))

/-- the root of a document that has slots is a collection -/
theorem root_isColl {d : Doc} {G : Forest} (w : WFG d G) {i : Nat} (hi : i ∈ G.ids) : isColl d.root := by
  have hne : G ≠ .nil := by intro e; subst e; cases hi
  obtain ⟨_, _, _, hc⟩ := VOK_coll_of_ne_nil w.root hne
  exact hc

/-- storing `v` at the location `l`, possibly after allocator traffic / an allocation (`d → d1`) that keeps what the
    other holders read -/
theorem ExtBig.set_gen {d d1 : Doc} {G : Forest} {l : Loc} {v : VData} (w : WFG d G) (hl : isLoc G l)
    (hget : ∀ l0 ∈ holders G, l0 ≠ l → d1.get l0 = d.get l0)
    (hsc : ∀ l0 ∈ holders G, l0 ≠ l → ∀ x ∈ extOfV (d.get l0), d1.cell x = d.cell x)
    (hv : extBigV (d1.set l v) v = true) (e : ExtBig d G) : ExtBig (d1.set l v) G := by
  refine ExtBig.transfer (fun l0 h0 => ?_) e
  by_cases e' : l0 = l
  · subst e'; exact Or.inr (by rw [get_set_self]; exact hv)
  · refine Or.inl ⟨h0, by rw [get_set_ne e']; exact hget l0 h0 e', extBigV_cells (fun x hx => ?_)⟩
    have hxl : Loc.slot x ≠ l := by
      intro e2
      obtain ⟨⟨p, hp⟩, _, _⟩ := w.ext l0 h0 x hx
      exact ext_ne_var hp (w.isVar x (isLoc_ids (e2 ▸ hl))) rfl
    rw [cell_set_ne hxl]; exact hsc l0 h0 e' x hx

/-- a value without extension slot -/
theorem ExtBig.set_plain {d : Doc} {G : Forest} {l : Loc} {v : VData} (w : WFG d G) (hl : isLoc G l)
    (hv : extOfV v = []) (e : ExtBig d G) : ExtBig (d.set l v) G :=
  ExtBig.set_gen w hl (fun _ _ _ => rfl) (fun _ _ _ _ _ => rfl)
    (by cases v <;> first | rfl | (simp [extOfV] at hv)) e

/-- a string value: `save`, then the node is stored -/
theorem ExtBig.save_set {x : S} {G : Forest} {l : Loc} (bytes : List Byte) (w : WFG x.d G) (hl : isLoc G l)
    (e : ExtBig x.d G) : ExtBig ((save x bytes).2.d.set l (.owned (save x bytes).1)) G := by
  have sv := save_spec x bytes
  exact ExtBig.set_gen w hl (fun l0 _ _ => DocSize.get_of_cells sv.cells sv.root l0)
    (fun _ _ _ y _ => by simp only [Doc.cell, sv.cells]) rfl e

theorem ExtBig.save {x : S} {G : Forest} (bytes : List Byte) (e : ExtBig x.d G) : ExtBig (save x bytes).2.d G :=
  ExtBig.of_cells (save_spec x bytes).cells (save_spec x bytes).root e

/-- `parseNumericValue`'s store: an extension slot is allocated only for an integer outside the 32-bit range (or for a
    double), and a failed allocation stores nothing -/
theorem ExtBig.setArg_num {d : Doc} {G : Forest} {l : Loc} {a : Arg} (w : WFG d G) (hl : isLoc G l)
    (gok : PL.GeoOK d.g) (ha : isNum a) (e : ExtBig d G) : ExtBig (d.setArg l a).2 G := by
  have inplace : ∀ v, extOfV v = [] → ExtBig (d.set l v) G := fun v hv => ExtBig.set_plain w hl hv e
  have ext : ∀ (p : Int) (k : Nat → VData), (∀ (d' : Doc) (s : Nat), d'.extOf s = p → extBigV d' (k s) = true) →
      ExtBig (match d.allocExt p with | (some s, d) => (true, d.set l (k s)) | (none, d) => (false, d)).2 G := by
    intro p k hk
    generalize hal : d.allocExt p = r
    obtain ⟨m, d1⟩ := r
    cases m with
    | none => exact ExtBig.grow w (allocExt_none gok w.pool hal).1 e
    | some s =>
      obtain ⟨hg, _, hc, hnl, _⟩ := allocExt_some gok w.pool hal
      refine ExtBig.set_gen w hl (fun l0 h0 _ => ?_) (fun l0 h0 _ y hy => hg.cells y (w.ext l0 h0 y hy).2.1) ?_ e
      · rcases mem_holders.1 h0 with e' | ⟨y, hy, e'⟩
        · subst e'; exact hg.root
        · subst e'; exact get_of_cell (hg.cells y (w.live y hy))
      · refine hk _ s ?_
        have hsl : Loc.slot s ≠ l := fun e2 => hnl (w.live s (isLoc_ids (e2 ▸ hl)))
        simp only [Doc.extOf, cell_set_ne hsl, hc]
  cases a with
  | uint v =>
    simp only [Doc.setArg]
    split
    · exact inplace _ rfl
    · rename_i hc
      refine ext v .u64 (fun d' s hs => ?_)
      simp only [extBigV, hs, Int.toNat_natCast, Bool.not_eq_true', decide_eq_false_iff_not]
      exact hc
  | sint v =>
    simp only [Doc.setArg]
    split
    · exact inplace _ rfl
    · rename_i hc
      refine ext v .i64 (fun d' s hs => ?_)
      simp only [extBigV, hs, Bool.not_eq_true', decide_eq_false_iff_not]
      exact hc
  | f32 b => exact inplace _ rfl
  | f64 b =>
    simp only [Doc.setArg]
    split
    · exact inplace _ rfl
    · exact ext b .f64 (fun _ _ _ => rfl)
  | null => exact absurd ha (fun h => h)
  | bool _ => exact absurd ha (fun h => h)
  | strLinked _ => exact absurd ha (fun h => h)
  | strCopied _ => exact absurd ha (fun h => h)
  | raw _ => exact absurd ha (fun h => h)

/-! ### steps inside the collection being built at `l` -/

/-- the general step inside the collection at `l`: the slots of the new layout of `l` are old ones that read the same, or
    canonical anyway; so is `l` -/
theorem ExtBig.built_step {d0 d d' : Doc} {F : Forest} {l : Loc} {s s' : Forest} (C : Ctx d0 F l) (B : Built d0 F l d s)
    (B' : Built d0 F l d' s')
    (hs : ∀ j ∈ s'.ids, (j ∈ s.ids ∧ d'.get (.slot j) = d.get (.slot j) ∧
        d'.scalar (d.get (.slot j)) = d.scalar (d.get (.slot j))) ∨ extBigV d' (d'.get (.slot j)) = true)
    (hl : extBigV d' (d'.get l) = true) (e : ExtBig d (replaceAt F l s)) : ExtBig d' (replaceAt F l s') := by
  refine ExtBig.transfer (fun l0 h0 => ?_) e
  by_cases e' : l0 = l
  · subst e'; exact Or.inr hl
  · rcases mem_holders.1 h0 with e1 | ⟨x, hx, e1⟩
    · subst e1
      -- the root, when `l` is a slot: a collection
      right
      cases l with
      | root => exact absurd rfl e'
      | slot i =>
        have hi : i ∈ (replaceAt F (.slot i) s').ids := (C.mem_ids s' i).2 (Or.inl (isLoc_ids C.loc))
        exact extBigV_coll (root_isColl B'.wf hi)
    · subst e1
      rcases (C.mem_ids s' x).1 hx with hF | hS
      · refine Or.inl ⟨mem_holders.2 (Or.inr ⟨x, (C.mem_ids s x).2 (Or.inl hF), rfl⟩), ?_, extBigV_scalar ?_⟩
        · exact get_of_cell ((B'.cells x hF e').trans (B.cells x hF e').symm)
        · rw [B.get_old hF e', B'.scal x hF e', B.scal x hF e']
      · rcases hs x hS with ⟨h1, h2, h3⟩ | h1
        · exact Or.inl ⟨mem_holders.2 (Or.inr ⟨x, (C.mem_ids s x).2 (Or.inr h1), rfl⟩), h2, extBigV_scalar h3⟩
        · exact Or.inr h1

/-- a null element appended to the array being built at `l` -/
theorem ExtBig.addElement {d0 d d1 : Doc} {F : Forest} {l : Loc} {s : Forest} {h t id : Nat} (C : Ctx d0 F l)
    (B : Built d0 F l d s) (hv : d.get l = .arr h t) (he : d.addElement l = (some id, d1))
    (e : ExtBig d (replaceAt F l s)) : ExtBig d1 (replaceAt F l (s.snoc none id)) := by
  obtain ⟨B1, hgn, ⟨h', hgl⟩, _, _, _, _, _, hsame⟩ := B.addElement_some C hv he
  refine ExtBig.built_step C B B1 (fun j hj => ?_) (by rw [hgl]; rfl) e
  rw [Forest.ids_snoc] at hj
  simp only [Forest.keyL, List.nil_append, List.mem_append, List.mem_singleton] at hj
  rcases hj with hj | hj
  · exact Or.inl ⟨hj, (hsame j hj).1, (hsame j hj).2⟩
  · subst hj; exact Or.inr (by rw [hgn]; rfl)

theorem addElement_none_grow {d d1 : Doc} {l : Loc} (gok : PL.GeoOK d.g) (hp : PL.Inv d.g d.pl)
    (h : d.addElement l = (none, d1)) : Grow d d1 := by
  simp only [Doc.addElement] at h
  generalize hal : d.allocVariant = r at h
  obtain ⟨m, da⟩ := r
  cases m with
  | some id => simp at h
  | none =>
    simp only [Prod.mk.injEq, true_and] at h; subst h
    exact (allocVariant_none gok hp hal).1

theorem addMemberNode_none_grow {d : Doc} {l : Loc} {node : Nat} (gok : PL.GeoOK d.g) (hp : PL.Inv d.g d.pl)
    (h : (addMemberNode d l node).1 = none) : Grow d (addMemberNode d l node).2 := by
  rcases addMemberNode_cases d l node with ⟨d1, hal1, e⟩ | ⟨k, d1, d2, hal1, hal2, e⟩ | ⟨k, d1, v, d2, hal1, hal2, e⟩
  · rw [e]; exact (allocVariant_none gok hp hal1).1
  · rw [e]
    obtain ⟨hg1, _⟩ := allocVariant_some gok hp hal1
    have gok1 : PL.GeoOK d1.g := by rw [hg1.g]; exact gok
    exact hg1.trans (allocVariant_none gok1 hg1.pool hal2).1
  · rw [e] at h; cases h

/-- the member `(key, null)` appended to the object being built at `l`: from the state after `save` to the state after
    `addMember` succeeded -/
theorem ExtBig.addMemberNode {d0 d d2 : Doc} {F : Forest} {l : Loc} {s : Forest} {v k0 node : Nat} (C : Ctx d0 F l)
    (B : Built d0 F l d s) (B2 : Built d0 F l d2 (s.snoc (some k0) v)) (hgv : d2.get (.slot v) = .null)
    (hgl : ∃ h', d2.get l = .obj h' v) (hsame : SameV d d2 s.ids) (hgk : d2.get (.slot k0) = .owned node)
    (e : ExtBig d (replaceAt F l s)) : ExtBig d2 (replaceAt F l (s.snoc (some k0) v)) := by
  obtain ⟨h', hgl⟩ := hgl
  refine ExtBig.built_step C B B2 (fun j hj => ?_) (by rw [hgl]; rfl) e
  rw [Forest.ids_snoc] at hj
  simp only [Forest.keyL, List.cons_append, List.nil_append, List.mem_append, List.mem_cons, List.not_mem_nil,
    or_false] at hj
  rcases hj with hj | hj | hj
  · exact Or.inl ⟨hj, (hsame j hj).1, (hsame j hj).2⟩
  · subst hj; exact Or.inr (by rw [hgk]; rfl)
  · subst hj; exact Or.inr (by rw [hgv]; rfl)

/-! ### `clearV` (an existing member is cleared before it is parsed again) -/

theorem ExtBig.clearV {d : Doc} {G : Forest} {l : Loc} (w : WFG d G) (hs : StrOK d (d.strRefs G)) (hl : isLoc G l)
    (e : ExtBig d G) : ExtBig (d.clearV l) (replaceAt G l .nil) := by
  obtain ⟨gn, _, gr, gc, _⟩ := clearV_good w hs hl
  obtain ⟨w', _, _, _⟩ := clearV_spec w hs hl
  refine ExtBig.transfer (fun l0 h0 => ?_) e
  by_cases e' : l0 = l
  · subst e'; exact Or.inr (by rw [gn]; rfl)
  · rcases mem_holders.1 h0 with e1 | ⟨x, hx, e1⟩
    · subst e1
      right
      cases l with
      | root => exact absurd rfl e'
      | slot i =>
        have hi : i ∈ (replaceAt G (.slot i) .nil).ids :=
          (mem_ids_cleared w.nodup hl i).2 ⟨isLoc_ids hl, self_notin_layoutAt w.nodup i⟩
        exact extBigV_coll (root_isColl w' hi)
    · subst e1
      obtain ⟨hxG, hxs⟩ := (mem_ids_cleared w.nodup hl x).1 hx
      have hg := gc x hxG e' hxs
      exact Or.inl ⟨mem_holders.2 (Or.inr ⟨x, hxG, rfl⟩), get_of_cell hg.1, extBigV_scalar hg.2⟩

/-- clearing the member value slot `v` of the object being built at `l` -/
theorem ExtBig.clear_member {d0 d : Doc} {F : Forest} {l : Loc} {s : Forest} {v : Nat} (C : Ctx d0 F l)
    (B : Built d0 F l d s) (hv : v ∈ s.locs) (e : ExtBig d (replaceAt F l s)) :
    ExtBig (d.clearV (.slot v)) (replaceAt F l (s.replaceSub v .nil)) := by
  have hvF : v ∉ F.ids := B.fresh v (s.locs_sub_ids v hv)
  have hlv : isLoc (replaceAt F l s) (.slot v) := isLoc_replaceAt_new C.loc hv
  have := ExtBig.clearV B.wf B.str hlv e
  rw [replaceAt_nest s .nil hvF] at this
  exact this

theorem clearAll_extBig (d : Doc) : ExtBig d.clearAll .nil := by
  intro l hl
  have : l = .root := by simpa [holders, Forest.ids] using hl
  subst this; rfl

/-! ## Part 3: the parser-level induction (`Tight` and `ExtBig` for the same layout) -/

/-- the step `(d, G) → (d', G')` keeps `ExtBig` - unconditionally -/
def ES (d : Doc) (G : Forest) (d' : Doc) (G' : Forest) : Prop := ExtBig d G → ExtBig d' G'

theorem ES.refl (d : Doc) (G : Forest) : ES d G d G := fun e => e
theorem ES.trans {d d1 d2 : Doc} {G G1 G2 : Forest} (h1 : ES d G d1 G1) (h2 : ES d1 G1 d2 G2) : ES d G d2 G2 :=
  fun e => h2 (h1 e)

/-- result of a parsing routine started in `x` (where the layout `sin` had been built at `l`): `RX` of
    AJ/Lemmas/JddfExact.lean with the step for `ExtBig` -/
structure RE (d0 : Doc) (F : Forest) (l : Loc) (x : S) (sin : Forest) (r : Code × S) : Prop where
  built : ∃ s, Built d0 F l r.2.d s ∧ TS x.d (replaceAt F l sin) r.2.d (replaceAt F l s) ∧
    ES x.d (replaceAt F l sin) r.2.d (replaceAt F l s)
  fx : Fx x.d x.b r.2.d r.2.b r.1

theorem RE.exit {d0 : Doc} {F : Forest} {l : Loc} {x x' : S} {sin s : Forest} {c : Code} (B : Built d0 F l x'.d s)
    (fx : Fx x.d x.b x'.d x'.b c) (ts : TS x.d (replaceAt F l sin) x'.d (replaceAt F l s))
    (es : ES x.d (replaceAt F l sin) x'.d (replaceAt F l s)) :
    RE d0 F l x sin (c, x') := ⟨⟨s, B, ts, es⟩, fx⟩

theorem RE.of_eq {d0 : Doc} {F : Forest} {l : Loc} {x x' : S} {sin : Forest} {r : Code × S} (hd : x'.d = x.d)
    (hb : x'.b = x.b) (h : RE d0 F l x' sin r) : RE d0 F l x sin r :=
  ⟨by rw [← hd]; exact h.built, by rw [← hd, ← hb]; exact h.fx⟩

theorem RE.step {d0 : Doc} {F : Forest} {l : Loc} {x x1 : S} {sin s1 : Forest} {r : Code × S}
    (fx : Fx x.d x.b x1.d x1.b .ok) (ts : TS x.d (replaceAt F l sin) x1.d (replaceAt F l s1))
    (es : ES x.d (replaceAt F l sin) x1.d (replaceAt F l s1))
    (h : RE d0 F l x1 s1 r) : RE d0 F l x sin r := by
  obtain ⟨s, B, ts2, es2⟩ := h.built
  exact ⟨⟨s, B, ts.trans ts2 h.fx.ovs, es.trans es2⟩, fx.trans h.fx⟩

/-- `parseNumericValue` -/
theorem numeric_e (cfg : Cfg) {d0 : Doc} {F : Forest} {l : Loc} {x : S} (C : Ctx d0 F l) (B : Built d0 F l x.d .nil)
    (hn : x.d.get l = .null) : RE d0 F l x .nil (numeric cfg l x) := by
  obtain ⟨w, hs⟩ := B.get_nil C
  have store : ∀ (s : JD.St) (a : Arg), isNum a →
      RE d0 F l x .nil ((if (x.d.setArg l a).1 = true then Code.ok else Code.noMemory),
        ({ s := s, d := (x.d.setArg l a).2, b := x.b } : S)) := by
    intro s a ha
    obtain ⟨b1, b2, b3, b4, b5, b6⟩ := B.setArg_num C hn ha
    refine RE.exit b1 ⟨(fun h => by rw [LBd_iff] at h ⊢; rw [b2]; exact h), b5, fun e => ?_, fun e => ?_,
      fun h => h.elim b6 (fun o => Or.inr (b5 o))⟩ ?_ ?_
    · cases hh : (x.d.setArg l a).1 with
      | true => exact b3 hh
      | false => rw [hh] at e; simp at e
    · cases hh : (x.d.setArg l a).1 with
      | true => rw [hh] at e; simp at e
      | false => exact b4 hh
    · intro ho t
      have hok : (x.d.setArg l a).1 = true := by
        cases hh : (x.d.setArg l a).1 with
        | true => rfl
        | false => have := b4 hh; rw [show (x.d.setArg l a).2.overflowed = false from ho] at this; cases this
      rw [C.replace_nil] at t ⊢
      exact Tight.setArg_num w hs C.loc hn (B.gok C) ha hok t
    · intro e
      rw [C.replace_nil] at e ⊢
      exact ExtBig.setArg_num w C.loc (B.gok C) ha e
  unfold numeric
  simp only
  split
  · exact store _ _ trivial
  · exact store _ _ trivial
  · exact store _ _ trivial
  · exact store _ _ trivial
  · exact RE.exit B ((Fx.refl _ _).code (by simp)) (TS.refl _ _) (ES.refl _ _)
  · exact RE.exit B ((Fx.refl _ _).code (by simp)) (TS.refl _ _) (ES.refl _ _)

def EVs (cfg : Cfg) (fuel : Nat) : Prop := ∀ (limit : Nat) (flt : Flt) (l : Loc) (x : S) (d0 : Doc) (F : Forest),
  Ctx d0 F l → Built d0 F l x.d .nil → x.d.get l = .null → RE d0 F l x .nil (parseVariant cfg fuel limit flt l x)

def EEs (cfg : Cfg) (fuel : Nat) : Prop := ∀ (limit : Nat) (flt : Flt) (l : Loc) (x : S) (d0 : Doc) (F s : Forest) (h t : Nat),
  Ctx d0 F l → Built d0 F l x.d s → x.d.get l = .arr h t → RE d0 F l x s (parseElems cfg fuel limit flt l x)

def EMs (cfg : Cfg) (fuel : Nat) : Prop := ∀ (limit : Nat) (flt : Flt) (l : Loc) (x : S) (d0 : Doc) (F s : Forest) (h t : Nat),
  Ctx d0 F l → Built d0 F l x.d s → x.d.get l = .obj h t → RE d0 F l x s (parseMembers cfg fuel limit flt l x)

/-- parsing into the fresh slot `v` of the collection being built at `l` -/
theorem sub_parse_e {cfg : Cfg} {f : Nat} (ihV : EVs cfg f) {d0 : Doc} {F : Forest} {l : Loc} {x : S} {s : Forest}
    {v : Nat} (limit : Nat) (flt : Flt) (C : Ctx d0 F l) (B : Built d0 F l x.d s) (hv : v ∈ s.locs)
    (hn : x.d.get (.slot v) = .null) :
    (∃ s', Built d0 F l (parseVariant cfg f limit flt (.slot v) x).2.d s' ∧
      TS x.d (replaceAt F l s) (parseVariant cfg f limit flt (.slot v) x).2.d (replaceAt F l s') ∧
      ES x.d (replaceAt F l s) (parseVariant cfg f limit flt (.slot v) x).2.d (replaceAt F l s')) ∧
    (parseVariant cfg f limit flt (.slot v) x).2.d.get l = x.d.get l ∧
    Fx x.d x.b (parseVariant cfg f limit flt (.slot v) x).2.d (parseVariant cfg f limit flt (.slot v) x).2.b
      (parseVariant cfg f limit flt (.slot v) x).1 := by
  have C1 := B.ctx_in C hv hn
  have R := ihV limit flt (.slot v) x x.d (replaceAt F l s) C1 (built_start B.wf B.str C1) hn
  obtain ⟨s2, B2, ts, es⟩ := R.built
  obtain ⟨a, b⟩ := B.nest C hv B2
  have hvF : v ∉ F.ids := B.fresh v (s.locs_sub_ids v hv)
  rw [C1.replace_nil, replaceAt_nest s s2 hvF] at ts es
  exact ⟨⟨_, a, ts, es⟩, b, R.fx⟩

theorem ev_zero (cfg : Cfg) : EVs cfg 0 := by
  intro limit flt l x d0 F C B hn
  simp only [parseVariant]
  exact RE.exit B ((Fx.refl _ _).code (by simp)) (TS.refl _ _) (ES.refl _ _)

theorem ee_zero (cfg : Cfg) : EEs cfg 0 := by
  intro limit flt l x d0 F s h t C B hn
  simp only [parseElems]
  exact RE.exit B ((Fx.refl _ _).code (by simp)) (TS.refl _ _) (ES.refl _ _)

theorem em_zero (cfg : Cfg) : EMs cfg 0 := by
  intro limit flt l x d0 F s h t C B hn
  simp only [parseMembers]
  exact RE.exit B ((Fx.refl _ _).code (by simp)) (TS.refl _ _) (ES.refl _ _)

theorem ev_succ (cfg : Cfg) (f : Nat) (ihE : EEs cfg f) (ihM : EMs cfg f) : EVs cfg (f+1) := by
  intro limit flt l x d0 F C B hn
  obtain ⟨w, hs⟩ := B.get_nil C
  have tsPlain : ∀ v, strOfV v = [] → TS x.d (replaceAt F l .nil) (x.d.set l v) (replaceAt F l .nil) := by
    intro v hv _ t
    rw [C.replace_nil] at t ⊢
    exact t.set_plain w C.loc hn hv
  have esPlain : ∀ v, extOfV v = [] → ES x.d (replaceAt F l .nil) (x.d.set l v) (replaceAt F l .nil) := by
    intro v hv e
    rw [C.replace_nil] at e ⊢
    exact ExtBig.set_plain w C.loc hv e
  simp only [parseVariant]
  have hs0 := skipSpaces_nm cfg (f+1) x.s
  split
  · rename_i s1 heq
    split
    · -- '['
      split
      · -- variant.toArray()
        have B' : Built d0 F l (x.d.set l (.arr x.d.null x.d.null)) .nil := B.set_coll C hn false
        have fx' : Fx x.d x.b (x.d.set l (.arr x.d.null x.d.null)) x.b .ok := Fx.set _ _ _ _
        have ts' := tsPlain (.arr x.d.null x.d.null) rfl
        have es' := esPlain (.arr x.d.null x.d.null) rfl
        split
        · exact RE.exit B' (fx'.code (by simp)) ts' es'
        · have hs1 := skipSpaces_nm cfg (f+1) (mv (cur s1).2)
          split
          · split
            · exact RE.exit B' fx' ts' es'
            · exact RE.step fx' ts' es' (ihE _ _ l _ d0 F .nil _ _ C B' (get_set_self _ _ _))
          · rename_i e s2 hne heq2
            rw [heq2] at hs1
            exact RE.exit B' (fx'.code hs1) ts' es'
      · -- the array is skipped
        split
        · exact RE.exit B ((Fx.refl _ _).code (by simp)) (TS.refl _ _) (ES.refl _ _)
        · exact RE.exit B ((Fx.refl _ _).code (skipElems_nm _ _ _ _)) (TS.refl _ _) (ES.refl _ _)
    · split
      · -- '{'
        split
        · -- variant.toObject()
          have B' : Built d0 F l (x.d.set l (.obj x.d.null x.d.null)) .nil := B.set_coll C hn true
          have fx' : Fx x.d x.b (x.d.set l (.obj x.d.null x.d.null)) x.b .ok := Fx.set _ _ _ _
          have ts' := tsPlain (.obj x.d.null x.d.null) rfl
          have es' := esPlain (.obj x.d.null x.d.null) rfl
          split
          · exact RE.exit B' (fx'.code (by simp)) ts' es'
          · have hs1 := skipSpaces_nm cfg (f+1) (mv (cur s1).2)
            split
            · split
              · exact RE.exit B' fx' ts' es'
              · exact RE.step fx' ts' es' (ihM _ _ l _ d0 F .nil _ _ C B' (get_set_self _ _ _))
            · rename_i e s2 hne heq2
              rw [heq2] at hs1
              exact RE.exit B' (fx'.code hs1) ts' es'
        · -- the object is skipped
          split
          · exact RE.exit B ((Fx.refl _ _).code (by simp)) (TS.refl _ _) (ES.refl _ _)
          · have hs1 := skipSpaces_nm cfg (f+1) (mv (cur s1).2)
            split
            · split
              · exact RE.exit B (Fx.refl _ _) (TS.refl _ _) (ES.refl _ _)
              · exact RE.exit B ((Fx.refl _ _).code (skipMembers_nm _ _ _ _)) (TS.refl _ _) (ES.refl _ _)
            · rename_i e s2 hne heq2
              rw [heq2] at hs1
              exact RE.exit B ((Fx.refl _ _).code hs1) (TS.refl _ _) (ES.refl _ _)
      · split
        · split
          · -- a string: through the builder, then saved and stored
            have hq := quoted_spec cfg (f+1) (cur s1).1 { s := mv (cur s1).2, d := x.d, b := x.b }
            split
            · rename_i bytes x1 heq2
              rw [heq2] at hq
              obtain ⟨tk, hok, hnm⟩ := hq
              have fx1 : Fx x.d x.b x1.d x1.b .ok := Fx.tok tk rfl rfl hok hnm
              have B1 : Built d0 F l x1.d .nil := B.pleq tk.bop.pleq
              have hn1 : x1.d.get l = .null := (tk.bop.pleq.get l).trans hn
              have sv := save_spec x1 bytes
              obtain ⟨w1, hs1'⟩ := B1.get_nil C
              refine RE.exit (B1.set_owned C hn1 sv) (fx1.trans (Fx.save_set sv (hok rfl) _ _)) ?_ ?_
              · intro _ t
                rw [C.replace_nil] at t ⊢
                exact Tight.save_set bytes w1 hs1' C.loc hn1 (t.pleq tk.bop.pleq)
              · intro e
                rw [C.replace_nil] at e ⊢
                exact ExtBig.save_set bytes w1 C.loc (ExtBig.pleq tk.bop.pleq e)
            · rename_i e bytes x1 hne heq2
              rw [heq2] at hq
              obtain ⟨tk, hok, hnm⟩ := hq
              exact RE.exit (B.pleq tk.bop.pleq) (Fx.tok tk rfl rfl hok hnm) (fun _ t => t.pleq tk.bop.pleq)
                (fun e => ExtBig.pleq tk.bop.pleq e)
          · -- a skipped string
            exact RE.exit B ((Fx.refl _ _).code (skipQuoted_nm _ _ _)) (TS.refl _ _) (ES.refl _ _)
        · split
          · -- true
            split
            · exact RE.exit (B.set_plain C hn (v := .bool true) (fun h => h) rfl rfl)
                ((Fx.set _ _ _ _).code (skipKeyword_nm _ _)) (tsPlain (.bool true) rfl) (esPlain (.bool true) rfl)
            · exact RE.exit B ((Fx.refl _ _).code (skipKeyword_nm _ _)) (TS.refl _ _) (ES.refl _ _)
          · split
            · -- false
              split
              · exact RE.exit (B.set_plain C hn (v := .bool false) (fun h => h) rfl rfl)
                  ((Fx.set _ _ _ _).code (skipKeyword_nm _ _)) (tsPlain (.bool false) rfl) (esPlain (.bool false) rfl)
              · exact RE.exit B ((Fx.refl _ _).code (skipKeyword_nm _ _)) (TS.refl _ _) (ES.refl _ _)
            · split
              · -- null
                exact RE.exit B ((Fx.refl _ _).code (skipKeyword_nm _ _)) (TS.refl _ _) (ES.refl _ _)
              · split
                · exact RE.of_eq (x' := { s := (cur s1).2, d := x.d, b := x.b }) rfl rfl (numeric_e cfg C B hn)
                · exact RE.exit B (Fx.refl _ _) (TS.refl _ _) (ES.refl _ _)
  · rename_i e s1 hne heq
    rw [heq] at hs0
    exact RE.exit B ((Fx.refl _ _).code hs0) (TS.refl _ _) (ES.refl _ _)

/-- what follows an element: `]`, or `,` and the remaining elements -/
theorem ee_tail (cfg : Cfg) (f : Nat) (ihE : EEs cfg f) {limit : Nat} {ef : Flt} {l : Loc} {x x2 : S} {d0 : Doc}
    {F sin s2 : Forest} {h t : Nat} (C : Ctx d0 F l) (B2 : Built d0 F l x2.d s2) (hv2 : x2.d.get l = .arr h t)
    (fx02 : Fx x.d x.b x2.d x2.b .ok) (ts02 : TS x.d (replaceAt F l sin) x2.d (replaceAt F l s2))
    (es02 : ES x.d (replaceAt F l sin) x2.d (replaceAt F l s2)) :
    RE d0 F l x sin
      (match skipSpaces cfg (f+1) x2.s with
      | (.ok, s) =>
        if ((cur s).1 == 0x5D) = true then (.ok, { x2 with s := mv (cur s).2 })
        else if ((cur s).1 == 0x2C) = true then parseElems cfg f limit ef l { x2 with s := mv (cur s).2 }
        else (.invalid, { x2 with s := (cur s).2 })
      | (e, s) => (e, { x2 with s := s })) := by
  have hs1 := skipSpaces_nm cfg (f+1) x2.s
  split
  · rename_i s3 heq3
    split
    · exact RE.exit B2 fx02 ts02 es02
    · split
      · exact RE.step (x1 := ⟨mv (cur s3).2, x2.d, x2.b⟩) fx02 ts02 es02
          (ihE limit ef l ⟨mv (cur s3).2, x2.d, x2.b⟩ d0 F s2 _ _ C B2 hv2)
      · exact RE.exit B2 (fx02.code (by simp)) ts02 es02
  · rename_i e s3 hne heq3
    rw [heq3] at hs1
    exact RE.exit B2 (fx02.code hs1) ts02 es02

theorem ee_succ (cfg : Cfg) (f : Nat) (ihV : EVs cfg f) (ihE : EEs cfg f) : EEs cfg (f+1) := by
  intro limit ef l x d0 F s h t C B hv
  simp only [parseElems]
  cases ha : ef.allow with
  | true =>
    simp only [if_true]
    split
    · rename_i x2 heq
      split at heq
      · cases heq
      · rename_i id d1 heq1
        obtain ⟨B1, hgn, ⟨h', hgl⟩, hov, hnl, _, _, hbk, _⟩ := B.addElement_some C hv heq1
        have hloc : id ∈ (s.snoc none id).locs := by rw [Forest.locs_snoc]; simp
        have fx01 : Fx x.d x.b d1 x.b .ok := Fx.doc _ hnl hov hbk
        have ts01 : TS x.d (replaceAt F l s) d1 (replaceAt F l (s.snoc none id)) :=
          fun _ t => Tight.addElement C B hv heq1 t
        have es01 : ES x.d (replaceAt F l s) d1 (replaceAt F l (s.snoc none id)) :=
          fun e => ExtBig.addElement C B hv heq1 e
        have sp := sub_parse_e ihV limit ef C (x := { s := x.s, d := d1, b := x.b }) B1 hloc hgn
        rw [heq] at sp
        obtain ⟨⟨s2, B2, ts12, es12⟩, hg2, fx2⟩ := sp
        exact ee_tail cfg f ihE C B2 (hg2.trans hgl) (fx01.trans fx2) (ts01.trans ts12 fx2.ovs) (es01.trans es12)
    · rename_i r hne
      split
      · rename_i d1 heq1
        obtain ⟨b1, ho, hnl⟩ := B.addElement_none C heq1
        exact RE.exit b1 (Fx.doc_fail _ hnl ho) (TS.of_ov ho)
          (fun e => ExtBig.grow B.wf (addElement_none_grow (B.gok C) B.wf.pool heq1) e)
      · rename_i id d1 heq1
        obtain ⟨B1, hgn, ⟨h', hgl⟩, hov, hnl, _, _, hbk, _⟩ := B.addElement_some C hv heq1
        have hloc : id ∈ (s.snoc none id).locs := by rw [Forest.locs_snoc]; simp
        have fx01 : Fx x.d x.b d1 x.b .ok := Fx.doc _ hnl hov hbk
        have ts01 : TS x.d (replaceAt F l s) d1 (replaceAt F l (s.snoc none id)) :=
          fun _ t => Tight.addElement C B hv heq1 t
        have es01 : ES x.d (replaceAt F l s) d1 (replaceAt F l (s.snoc none id)) :=
          fun e => ExtBig.addElement C B hv heq1 e
        obtain ⟨⟨s2, B2, ts12, es12⟩, _, fx2⟩ :=
          sub_parse_e ihV limit ef C (x := { s := x.s, d := d1, b := x.b }) B1 hloc hgn
        exact ⟨⟨s2, B2, ts01.trans ts12 fx2.ovs, es01.trans es12⟩, fx01.trans fx2⟩
  | false =>
    simp only [Bool.false_eq_true, if_false]
    have hsk := skipVariant_nm cfg f limit x.s
    split
    · rename_i x2 heq
      simp only [Prod.mk.injEq] at heq
      obtain ⟨_, rfl⟩ := heq
      exact ee_tail cfg f ihE (x2 := { s := (skipVariant cfg f limit x.s).2, d := x.d, b := x.b }) C B hv (Fx.refl _ _)
        (TS.refl _ _) (ES.refl _ _)
    · exact RE.exit B ((Fx.refl _ _).code hsk) (TS.refl _ _) (ES.refl _ _)

/-- `object.getMember(key)` / `addMember`: `memberSlot_x` of AJ/Lemmas/JddfExact.lean with the step for `ExtBig` -/
theorem memberSlot_e {d0 : Doc} {F : Forest} {l : Loc} {x : S} {s : Forest} {h t : Nat} (C : Ctx d0 F l)
    (B : Built d0 F l x.d s) (hv : x.d.get l = .obj h t) (hb : x.b.isSome = true) (key : List Byte) :
    ((memberSlot x l key).1 = none →
      (∃ s', Built d0 F l (memberSlot x l key).2.d s' ∧
        ES x.d (replaceAt F l s) (memberSlot x l key).2.d (replaceAt F l s')) ∧
      Fx x.d x.b (memberSlot x l key).2.d (memberSlot x l key).2.b .noMemory) ∧
    (∀ v, (memberSlot x l key).1 = some v →
      ∃ s', Built d0 F l (memberSlot x l key).2.d s' ∧ v ∈ s'.locs ∧
        (memberSlot x l key).2.d.get (.slot v) = .null ∧ (∃ h' t', (memberSlot x l key).2.d.get l = .obj h' t') ∧
        Fx x.d x.b (memberSlot x l key).2.d (memberSlot x l key).2.b .ok ∧
        (Tight x.d (replaceAt F l s) → Tight (memberSlot x l key).2.d (replaceAt F l s')) ∧
        ES x.d (replaceAt F l s) (memberSlot x l key).2.d (replaceAt F l s')) := by
  unfold memberSlot
  cases hf : x.d.findKey l key with
  | some p =>
    obtain ⟨k, v⟩ := p
    simp only
    have hvl : v ∈ s.locs := by
      have := findKey_loc B.wf (C.loc' s) hv hf
      rw [C.lay] at this; exact this
    obtain ⟨b1, b2, b3, b4, b5, b6, b7, _⟩ := B.clear_member C hvl
    refine ⟨(fun e => by cases e), fun v' e => ?_⟩
    simp only [Option.some.injEq] at e
    subst e
    exact ⟨_, b1, b6, b2, ⟨h, t, b3.trans hv⟩, Fx.doc _ b5 b4 (fun hb => Or.inl (AllB_of_pools b7 hb)),
      (fun t' => Tight.clear_member C B hvl t'), fun e => ExtBig.clear_member C B hvl e⟩
  | none =>
    simp only
    have sv := save_spec x key
    obtain ⟨B', hp, hget⟩ := B.save C sv
    have hv' : (save x key).2.d.get l = .obj h t := (hget l).trans hv
    have fx1 : Fx x.d x.b (save x key).2.d (save x key).2.b .ok := Fx.save sv hb
    have es1 : ES x.d (replaceAt F l s) (save x key).2.d (replaceAt F l s) := fun e => ExtBig.save key e
    obtain ⟨m1, m2, m3, m4⟩ := B'.addMemberNode C hp hv'
    have tam := fun (v k0 : Nat) (d2 : Doc) => Tight.addMember (v := v) (k0 := k0) (d2 := d2) key C B hv
    have eam := fun (v k0 : Nat) (d2 : Doc) =>
      ExtBig.addMemberNode (d := (save x key).2.d) (d2 := d2) (v := v) (k0 := k0) (node := (save x key).1) C B'
    have gam := addMemberNode_none_grow (d := (save x key).2.d) (l := l) (node := (save x key).1) (B'.gok C) B'.wf.pool
    generalize addMemberNode (save x key).2.d l (save x key).1 = r at m1 m2 m3 m4 tam gam
    obtain ⟨o, d2⟩ := r
    cases o with
    | none =>
      simp only
      obtain ⟨a1, a2⟩ := m1 rfl
      exact ⟨fun _ => ⟨⟨_, a1, es1.trans (fun e => ExtBig.grow B'.wf (gam rfl) e)⟩, fx1.trans (Fx.doc_fail _ m3 a2)⟩,
        fun v e => by cases e⟩
    | some v =>
      simp only
      obtain ⟨k, a1, a2, ⟨h', a3⟩, a4, a5, a6, a7, a8, a9⟩ := m2 v rfl
      refine ⟨(fun e => by cases e), fun v' e => ?_⟩
      simp only [Option.some.injEq] at e
      subst e
      refine ⟨_, a1, ?_, a2, ⟨h', _, a3⟩, fx1.trans (Fx.doc _ m3 a4 m4), (fun t' => ?_), ?_⟩
      · rw [Forest.locs_snoc]; simp
      · exact tam v k d2 rfl a1 a2 ⟨h', a3⟩ a5 a6 a7 a8 a9 t'
      · exact es1.trans (fun e => eam v k d2 a1 a2 ⟨h', a3⟩ a5 a6 e)

/-- what follows a member: `}`, or `,` and the remaining members -/
theorem em_tail (cfg : Cfg) (f : Nat) (ihM : EMs cfg f) {limit : Nat} {flt : Flt} {l : Loc} {x x3 : S} {d0 : Doc}
    {F sin s3 : Forest} {h t : Nat} (C : Ctx d0 F l) (B3 : Built d0 F l x3.d s3) (hv3 : x3.d.get l = .obj h t)
    (fx03 : Fx x.d x.b x3.d x3.b .ok) (ts03 : TS x.d (replaceAt F l sin) x3.d (replaceAt F l s3))
    (es03 : ES x.d (replaceAt F l sin) x3.d (replaceAt F l s3)) :
    RE d0 F l x sin
      (match skipSpaces cfg (f+1) x3.s with
      | (.ok, s) =>
        if ((cur s).1 == 0x7D) = true then (.ok, { x3 with s := mv (cur s).2 })
        else if ((cur s).1 == 0x2C) = true then
          match skipSpaces cfg (f+1) (mv (cur s).2) with
          | (.ok, s) => parseMembers cfg f limit flt l { x3 with s := s }
          | (e, s) => (e, { x3 with s := s })
        else (.invalid, { x3 with s := (cur s).2 })
      | (e, s) => (e, { x3 with s := s })) := by
  have hs3 := skipSpaces_nm cfg (f+1) x3.s
  split
  · rename_i s4 heq5
    split
    · exact RE.exit B3 fx03 ts03 es03
    · split
      · have hs5 := skipSpaces_nm cfg (f+1) (mv (cur s4).2)
        split
        · rename_i s5 heq6
          exact RE.step (x1 := ⟨s5, x3.d, x3.b⟩) fx03 ts03 es03
            (ihM limit flt l ⟨s5, x3.d, x3.b⟩ d0 F s3 _ _ C B3 hv3)
        · rename_i e s5 hne heq6
          rw [heq6] at hs5
          exact RE.exit B3 (fx03.code hs5) ts03 es03
      · exact RE.exit B3 (fx03.code (by simp)) ts03 es03
  · rename_i e s4 hne heq5
    rw [heq5] at hs3
    exact RE.exit B3 (fx03.code hs3) ts03 es03

theorem em_succ (cfg : Cfg) (f : Nat) (ihV : EVs cfg f) (ihM : EMs cfg f) : EMs cfg (f+1) := by
  intro limit flt l x d0 F s h t C B hv
  simp only [parseMembers]
  -- the key, through the builder (kept or not)
  have hkey : ∀ (kr : Code × List Byte × S), kr = (if ((cur x.s).fst == 34 || (cur x.s).fst == 39) = true then
        quoted cfg (f + 1) (cur x.s).fst { s := mv (cur x.s).snd, d := x.d, b := x.b }
      else
        if JD.inUnquoted (cur x.s).fst = true then unquoted cfg (f + 1) { s := (cur x.s).snd, d := x.d, b := x.b }
        else (Code.invalid, [], startString { s := (cur x.s).snd, d := x.d, b := x.b })) →
      Fx x.d x.b kr.2.2.d kr.2.2.b kr.1 ∧ PlEq x.d kr.2.2.d ∧ (kr.1 = .ok → kr.2.2.b.isSome = true) := by
    intro kr hkr
    split at hkr
    · obtain ⟨tk, hok, hnm⟩ := quoted_spec cfg (f+1) (cur x.s).1 { s := mv (cur x.s).2, d := x.d, b := x.b }
      rw [hkr]
      exact ⟨Fx.tok tk rfl rfl hok hnm, tk.bop.pleq, hok⟩
    · split at hkr
      · obtain ⟨tk, hok, hnm, _⟩ := unquoted_spec cfg (f+1) { s := (cur x.s).2, d := x.d, b := x.b }
        rw [hkr]
        exact ⟨Fx.tok tk rfl rfl hok hnm, tk.bop.pleq, hok⟩
      · obtain ⟨bo, _, _⟩ := startString_spec { s := (cur x.s).2, d := x.d, b := x.b }
        rw [hkr]
        exact ⟨⟨bo.bal, bo.ovs, (fun e => by cases e), (fun e => by cases e), Blk.of_pleq bo.pleq.pools bo.ovs⟩, bo.pleq,
          fun e => by cases e⟩
  have hk := hkey _ rfl
  generalize (if ((cur x.s).fst == 34 || (cur x.s).fst == 39) = true then
        quoted cfg (f + 1) (cur x.s).fst { s := mv (cur x.s).snd, d := x.d, b := x.b }
      else
        if JD.inUnquoted (cur x.s).fst = true then unquoted cfg (f + 1) { s := (cur x.s).snd, d := x.d, b := x.b }
        else (Code.invalid, [], startString { s := (cur x.s).snd, d := x.d, b := x.b })) = kr at hk ⊢
  clear hkey
  obtain ⟨kc, key, x1⟩ := kr
  obtain ⟨fx1, hpl, hb1⟩ := hk
  simp only at fx1 hpl hb1
  have B1 : Built d0 F l x1.d s := B.pleq hpl
  have ts1 : TS x.d (replaceAt F l s) x1.d (replaceAt F l s) := fun _ t => t.pleq hpl
  have es1 : ES x.d (replaceAt F l s) x1.d (replaceAt F l s) := fun e => ExtBig.pleq hpl e
  cases kc <;> simp only <;> try exact RE.exit B1 fx1 ts1 es1
  -- the key was read
  have hb1 := hb1 rfl
  have hv1 : x1.d.get l = .obj h t := (hpl.get l).trans hv
  have hs1 := skipSpaces_nm cfg (f+1) x1.s
  split
  · rename_i s2 heq2
    split
    · exact RE.exit B1 (fx1.code (by simp)) ts1 es1
    · cases ha : (flt.subKey key).allow with
      | true =>
        simp only [if_true]
        -- the value slot of the member
        have hsl := memberSlot_e C (x := ⟨mv (cur s2).2, x1.d, x1.b⟩) B1 hv1 hb1 key
        change RE d0 F l x s
          (match (match memberSlot ⟨mv (cur s2).2, x1.d, x1.b⟩ l key with
              | (none, x) => (Code.noMemory, x)
              | (some v, x) => parseVariant cfg f limit (flt.subKey key) (.slot v) x) with
            | (.ok, x) => _
            | r => r)
        generalize memberSlot ⟨mv (cur s2).2, x1.d, x1.b⟩ l key = ms at hsl ⊢
        obtain ⟨o, x2⟩ := ms
        cases o with
        | none =>
          simp only
          obtain ⟨⟨s', b', es2⟩, fx2⟩ := hsl.1 rfl
          exact RE.exit b' (fx1.trans fx2) (TS.of_ov (fx2.nomem rfl)) (es1.trans es2)
        | some v =>
          simp only
          obtain ⟨s', b', hvl, hnull, ⟨h', t', hobj⟩, fx2, tt2, es2⟩ := hsl.2 v rfl
          have fx02 : Fx x.d x.b x2.d x2.b .ok := fx1.trans fx2
          have ts02 : TS x.d (replaceAt F l s) x2.d (replaceAt F l s') := ts1.trans (fun _ t => tt2 t) fx2.ovs
          have es02 : ES x.d (replaceAt F l s) x2.d (replaceAt F l s') := es1.trans es2
          have sp := sub_parse_e ihV limit (flt.subKey key) C (x := x2) b' hvl hnull
          split
          · rename_i x3 heq4
            rw [heq4] at sp
            obtain ⟨⟨s3, B3, ts23, es23⟩, hg3, fx3⟩ := sp
            exact em_tail cfg f ihM C B3 (hg3.trans hobj) (fx02.trans fx3) (ts02.trans ts23 fx3.ovs) (es02.trans es23)
          · rename_i r hne
            obtain ⟨⟨s3, B3, ts23, es23⟩, _, fx3⟩ := sp
            exact ⟨⟨s3, B3, ts02.trans ts23 fx3.ovs, es02.trans es23⟩, fx02.trans fx3⟩
      | false =>
        simp only [Bool.false_eq_true, if_false]
        have hsk := skipVariant_nm cfg f limit (mv (cur s2).2)
        split
        · rename_i x3 heq
          simp only [Prod.mk.injEq] at heq
          obtain ⟨_, rfl⟩ := heq
          exact em_tail cfg f ihM (x3 := { s := (skipVariant cfg f limit (mv (cur s2).2)).2, d := x1.d, b := x1.b })
            C B1 hv1 fx1 ts1 es1
        · exact RE.exit B1 (fx1.code hsk) ts1 es1
  · rename_i e s2 hne heq2
    rw [heq2] at hs1
    exact RE.exit B1 (fx1.code hs1) ts1 es1

/-- the invariant with both components through the whole mutual block, for every fuel and every filter -/
theorem e_all (cfg : Cfg) : ∀ fuel, EVs cfg fuel ∧ EEs cfg fuel ∧ EMs cfg fuel := by
  intro fuel
  induction fuel with
  | zero => exact ⟨ev_zero cfg, ee_zero cfg, em_zero cfg⟩
  | succ f ih =>
    obtain ⟨ihV, ihE, ihM⟩ := ih
    exact ⟨ev_succ cfg f ihE ihM, ee_succ cfg f ihV ihE, em_succ cfg f ihV ihM⟩

/-! ### `run` -/

/-- MAIN: for every input, filter, start document and allocator schedule the document `run` leaves has a layout `F'` for
    which it is well-formed and `ExtBig` (no extension slot is spent on an integer that fits 32 bits); when no allocation
    failed it is `Tight` for the same layout (exact reference counts, no leaked slot) -/
theorem run_canon (cfg : Cfg) (limit : Nat) (flt : Flt) {d : Doc} (input : List Byte) (gok : PL.GeoOK d.g)
    (hp : PL.Inv d.g d.pl) :
    ∃ F', WFG (run cfg limit flt d input).2.1 F' ∧
      StrOK (run cfg limit flt d input).2.1 ((run cfg limit flt d input).2.1.strRefs F') ∧
      ExtBig (run cfg limit flt d input).2.1 F' ∧
      ((run cfg limit flt d input).2.1.overflowed = false → Tight (run cfg limit flt d input).2.1 F') := by
  obtain ⟨w, hs, hg, _, hr⟩ := clearAll_wf gok hp
  have C : Ctx d.clearAll .nil .root := ⟨List.nodup_nil, trivial, rfl, by rw [hg]; exact gok⟩
  have R := (e_all cfg (2 * input.length + 4)).1 limit flt .root (start d input) d.clearAll .nil C (built_start w hs C) hr
  obtain ⟨s, B, ts, es⟩ := R.built
  have e1 : ExtBig (stop cfg limit flt d input).2.d (replaceAt .nil .root s) :=
    es (by rw [C.replace_nil]; exact clearAll_extBig d)
  obtain ⟨w1, s1, _⟩ := (preShrink_pleq cfg limit flt d input).1.wfg B.wf B.str
  have e2 := ExtBig.pleq (preShrink_pleq cfg limit flt d input).1 e1
  rw [run_overflowed, run_eq]
  obtain ⟨w2, s2⟩ := shrink_wf w1 s1
  refine ⟨_, w2, s2, ExtBig.of_cells (d := preShrink cfg limit flt d input) rfl rfl e2, fun hov => ?_⟩
  have t1 : Tight (stop cfg limit flt d input).2.d (replaceAt .nil .root s) :=
    ts hov (by rw [C.replace_nil]; exact clearAll_tight d)
  exact (t1.pleq (preShrink_pleq cfg limit flt d input).1).shrink w1.pool

end JDDF
