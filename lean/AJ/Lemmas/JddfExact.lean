/- Stronger invariants of the slot-level deserializers `JDDF.run` (filtered, AJ/Model/JDDF.lean) and, through the `AllowAll`
   filter, `JDD.run`:
   * `run_bytes_nodup`: no two nodes of the string table hold the same bytes (on every path, failures included);
   * `run_exact`: when no allocation failed, every stored string's reference count is the number of references to it, and ≥ 1;
   * `run_no_leak`: when no allocation failed, every slot that is live in the pools belongs to the layout of the document or
     is an extension slot of one of its values.
   Same induction on the fuel as AJ/Lemmas/JddfInv.lean. -/
import AJ.Lemmas.JddfInv
import AJ.Lemmas.JddMem
import AJ.Lemmas.DocReuse
namespace JDDF
open DL JDD
open JD (Byte Code Cfg Flt cur mv skipSpaces skipKeyword skipVariant skipElems skipMembers skipQuoted skipNumeric)

/-! ## (b) distinct nodes hold distinct byte strings -/

/-- the step `d → d'` keeps "no two string nodes with the same bytes" -/
def BN (d d' : Doc) : Prop := BytesNodup d → BytesNodup d'

theorem BN.refl (d : Doc) : BN d d := fun h => h
theorem BN.trans {d d1 d2 : Doc} (h1 : BN d d1) (h2 : BN d1 d2) : BN d d2 := fun h => h2 (h1 h)

theorem BN.of_strings {d d' : Doc} (h : d'.strings = d.strings) : BN d d' := fun hb => by
  unfold BytesNodup at *; rw [h]; exact hb

theorem BN.of_sub {d d' : Doc} (h : (d'.strings.map (·.bytes)).Sublist (d.strings.map (·.bytes))) : BN d d' :=
  fun hb => List.Nodup.sublist h hb

theorem BN.set (d : Doc) (l : Loc) (v : VData) : BN d (d.set l v) := BN.of_strings (set_strings _ _ _)
theorem BN.pleq {d d' : Doc} (h : PlEq d d') : BN d d' := BN.of_strings h.strings

theorem BN.save (x : S) (bytes : List Byte) : BN x.d (save x bytes).2.d := by
  intro h
  have h' : BytesNodup (calm x.d bytes.length) := h
  have := saveString_bytesNodup (s := bytes) h'
  cases hf : x.d.strings.find? (·.bytes == bytes) with
  | some y =>
    have hf' : (calm x.d bytes.length).strings.find? (·.bytes == bytes) = some y := hf
    rw [saveString_found hf'] at this
    rw [save_eq_found hf]; exact this
  | none =>
    have hf' : (calm x.d bytes.length).strings.find? (·.bytes == bytes) = none := hf
    rw [saveString_short hf' (Nat.le_refl _), calm_failsAt] at this
    simp only [Bool.false_eq_true, if_false] at this
    rw [save_eq_new hf]; exact this

theorem appendPair_strs (d : Doc) (l : Loc) (k v : Nat) : (d.appendPair l k v).strings = d.strings := by
  simp only [Doc.appendPair]
  split
  · split
    · rw [set_strings, setNext_strings, setNext_strings]
    · rw [set_strings, setNext_strings]
  · rw [setNext_strings]

theorem addMemberNode_strings (d : Doc) (l : Loc) (node : Nat) : (addMemberNode d l node).2.strings = d.strings := by
  rcases addMemberNode_cases d l node with ⟨d1, hal1, e⟩ | ⟨k, d1, d2, hal1, hal2, e⟩ | ⟨k, d1, v, d2, hal1, hal2, e⟩
  · rw [e]; have := (allocVariant_pl_s d).2; rw [hal1] at this; exact this
  · rw [e]
    have h1 := (allocVariant_pl_s d).2; rw [hal1] at h1
    have h2 := (allocVariant_pl_s d1).2; rw [hal2] at h2
    exact h2.trans h1
  · rw [e]
    have h1 := (allocVariant_pl_s d).2; rw [hal1] at h1
    have h2 := (allocVariant_pl_s d1).2; rw [hal2] at h2
    rw [appendPair_strs, set_strings]
    exact h2.trans h1

theorem bn_numeric (cfg : Cfg) (l : Loc) (x : S) : BN x.d (numeric cfg l x).2.d := by
  unfold numeric
  simp only
  split
  · exact fun h => setArg_bytesNodup l _ h
  · exact fun h => setArg_bytesNodup l _ h
  · exact fun h => setArg_bytesNodup l _ h
  · exact fun h => setArg_bytesNodup l _ h
  · exact BN.refl _
  · exact BN.refl _

theorem bn_memberSlot (x : S) (l : Loc) (key : List Byte) : BN x.d (memberSlot x l key).2.d := by
  unfold memberSlot
  cases x.d.findKey l key with
  | some p => exact BN.of_sub (DL.mem_P_clearV _ _).strs
  | none =>
    simp only
    refine (BN.save x key).trans ?_
    have := addMemberNode_strings (save x key).2.d l (save x key).1
    generalize addMemberNode (save x key).2.d l (save x key).1 = r at this
    obtain ⟨o, d2⟩ := r
    cases o <;> exact BN.of_strings this

def BVs (cfg : Cfg) (fuel : Nat) : Prop := ∀ (limit : Nat) (flt : Flt) (l : Loc) (x : S),
  BN x.d (parseVariant cfg fuel limit flt l x).2.d
def BEs (cfg : Cfg) (fuel : Nat) : Prop := ∀ (limit : Nat) (flt : Flt) (l : Loc) (x : S),
  BN x.d (parseElems cfg fuel limit flt l x).2.d
def BMs (cfg : Cfg) (fuel : Nat) : Prop := ∀ (limit : Nat) (flt : Flt) (l : Loc) (x : S),
  BN x.d (parseMembers cfg fuel limit flt l x).2.d

theorem bv_succ (cfg : Cfg) (f : Nat) (ihE : BEs cfg f) (ihM : BMs cfg f) : BVs cfg (f+1) := by
  intro limit flt l x
  simp only [parseVariant]
  split
  · rename_i s1 heq
    split
    · split
      · have fx' : BN x.d (x.d.set l (.arr x.d.null x.d.null)) := BN.set _ _ _
        split
        · exact fx'
        · split
          · split
            · exact fx'
            · exact fx'.trans (ihE _ _ l ⟨_, _, _⟩)
          · exact fx'
      · split
        · exact BN.refl _
        · exact BN.refl _
    · split
      · split
        · have fx' : BN x.d (x.d.set l (.obj x.d.null x.d.null)) := BN.set _ _ _
          split
          · exact fx'
          · split
            · split
              · exact fx'
              · exact fx'.trans (ihM _ _ l ⟨_, _, _⟩)
            · exact fx'
        · split
          · exact BN.refl _
          · split
            · split
              · exact BN.refl _
              · exact BN.refl _
            · exact BN.refl _
      · split
        · split
          · have hq := quoted_spec cfg (f+1) (cur s1).1 { s := mv (cur s1).2, d := x.d, b := x.b }
            split
            · rename_i bytes x1 heq2
              rw [heq2] at hq
              exact (BN.pleq hq.1.bop.pleq).trans ((BN.save x1 bytes).trans (BN.set _ _ _))
            · rename_i e bytes x1 hne heq2
              rw [heq2] at hq
              exact BN.pleq hq.1.bop.pleq
          · exact BN.refl _
        · split
          · split
            · exact BN.set _ _ _
            · exact BN.refl _
          · split
            · split
              · exact BN.set _ _ _
              · exact BN.refl _
            · split
              · exact BN.refl _
              · split
                · exact bn_numeric cfg l { s := (cur s1).2, d := x.d, b := x.b }
                · exact BN.refl _
  · exact BN.refl _

/-- what follows an element -/
theorem be_tail (cfg : Cfg) (f : Nat) (ihE : BEs cfg f) {limit : Nat} {ef : Flt} {l : Loc} {d : Doc} {x2 : S}
    (h02 : BN d x2.d) :
    BN d
      (match skipSpaces cfg (f+1) x2.s with
      | (.ok, s) =>
        if ((cur s).1 == 0x5D) = true then (Code.ok, { x2 with s := mv (cur s).2 })
        else if ((cur s).1 == 0x2C) = true then parseElems cfg f limit ef l { x2 with s := mv (cur s).2 }
        else (.invalid, { x2 with s := (cur s).2 })
      | (e, s) => (e, { x2 with s := s })).2.d := by
  split
  · split
    · exact h02
    · split
      · exact fun hb => ihE limit ef l _ (h02 hb)
      · exact h02
  · exact h02

theorem be_succ (cfg : Cfg) (f : Nat) (ihV : BVs cfg f) (ihE : BEs cfg f) : BEs cfg (f+1) := by
  intro limit ef l x
  simp only [parseElems]
  cases ha : ef.allow with
  | true =>
    simp only [if_true]
    have h01 : BN x.d (x.d.addElement l).2 := fun h => addElement_bytesNodup l h
    split
    · rename_i x2 heq
      split at heq
      · cases heq
      · rename_i id d1 heq1
        rw [heq1] at h01
        have sp := ihV limit ef (.slot id) { s := x.s, d := d1, b := x.b }
        rw [heq] at sp
        exact be_tail cfg f ihE (h01.trans sp)
    · rename_i r hne
      split
      · rename_i d1 heq1
        rw [heq1] at h01; exact h01
      · rename_i id d1 heq1
        rw [heq1] at h01
        exact h01.trans (ihV limit ef (.slot id) { s := x.s, d := d1, b := x.b })
  | false =>
    simp only [Bool.false_eq_true, if_false]
    split
    · rename_i x2 heq
      simp only [Prod.mk.injEq] at heq
      obtain ⟨_, rfl⟩ := heq
      exact be_tail cfg f ihE (x2 := { s := (skipVariant cfg f limit x.s).2, d := x.d, b := x.b }) (BN.refl _)
    · exact BN.refl _

/-- what follows a member -/
theorem bm_tail (cfg : Cfg) (f : Nat) (ihM : BMs cfg f) {limit : Nat} {flt : Flt} {l : Loc} {d : Doc} {x3 : S}
    (h03 : BN d x3.d) :
    BN d
      (match skipSpaces cfg (f+1) x3.s with
      | (.ok, s) =>
        if ((cur s).1 == 0x7D) = true then (Code.ok, { x3 with s := mv (cur s).2 })
        else if ((cur s).1 == 0x2C) = true then
          match skipSpaces cfg (f+1) (mv (cur s).2) with
          | (.ok, s) => parseMembers cfg f limit flt l { x3 with s := s }
          | (e, s) => (e, { x3 with s := s })
        else (.invalid, { x3 with s := (cur s).2 })
      | (e, s) => (e, { x3 with s := s })).2.d := by
  split
  · split
    · exact h03
    · split
      · split
        · exact fun hb => ihM limit flt l _ (h03 hb)
        · exact h03
      · exact h03
  · exact h03

theorem bm_succ (cfg : Cfg) (f : Nat) (ihV : BVs cfg f) (ihM : BMs cfg f) : BMs cfg (f+1) := by
  intro limit flt l x
  simp only [parseMembers]
  have hkey : ∀ (kr : Code × List Byte × S), kr = (if ((cur x.s).fst == 34 || (cur x.s).fst == 39) = true then
        quoted cfg (f + 1) (cur x.s).fst { s := mv (cur x.s).snd, d := x.d, b := x.b }
      else
        if JD.inUnquoted (cur x.s).fst = true then unquoted cfg (f + 1) { s := (cur x.s).snd, d := x.d, b := x.b }
        else (Code.invalid, [], startString { s := (cur x.s).snd, d := x.d, b := x.b })) →
      PlEq x.d kr.2.2.d := by
    intro kr hkr
    split at hkr
    · rw [hkr]; exact (quoted_spec cfg (f+1) (cur x.s).1 { s := mv (cur x.s).2, d := x.d, b := x.b }).1.bop.pleq
    · split at hkr
      · rw [hkr]; exact (unquoted_spec cfg (f+1) { s := (cur x.s).2, d := x.d, b := x.b }).1.bop.pleq
      · rw [hkr]; exact (startString_spec { s := (cur x.s).2, d := x.d, b := x.b }).1.pleq
  have hk := hkey _ rfl
  generalize (if ((cur x.s).fst == 34 || (cur x.s).fst == 39) = true then
        quoted cfg (f + 1) (cur x.s).fst { s := mv (cur x.s).snd, d := x.d, b := x.b }
      else
        if JD.inUnquoted (cur x.s).fst = true then unquoted cfg (f + 1) { s := (cur x.s).snd, d := x.d, b := x.b }
        else (Code.invalid, [], startString { s := (cur x.s).snd, d := x.d, b := x.b })) = kr at hk ⊢
  clear hkey
  obtain ⟨kc, key, x1⟩ := kr
  simp only at hk
  have h01 : BN x.d x1.d := BN.pleq hk
  cases kc <;> simp only <;> try exact h01
  split
  · rename_i s2 heq2
    split
    · exact h01
    · cases ha : (flt.subKey key).allow with
      | true =>
        simp only [if_true]
        have hsl := bn_memberSlot ⟨mv (cur s2).2, x1.d, x1.b⟩ l key
        change BN x.d
          (match (match memberSlot ⟨mv (cur s2).2, x1.d, x1.b⟩ l key with
              | (none, x) => (Code.noMemory, x)
              | (some v, x) => parseVariant cfg f limit (flt.subKey key) (.slot v) x) with
            | (.ok, x) => _
            | r => r).2.d
        generalize memberSlot ⟨mv (cur s2).2, x1.d, x1.b⟩ l key = ms at hsl ⊢
        obtain ⟨o, x2⟩ := ms
        have h02 : BN x.d x2.d := h01.trans hsl
        cases o with
        | none => exact h02
        | some v =>
          simp only
          have sp := ihV limit (flt.subKey key) (.slot v) x2
          split
          · rename_i x3 heq4
            rw [heq4] at sp
            exact bm_tail cfg f ihM (h02.trans sp)
          · exact h02.trans sp
      | false =>
        simp only [Bool.false_eq_true, if_false]
        split
        · rename_i x3 heq
          simp only [Prod.mk.injEq] at heq
          obtain ⟨_, rfl⟩ := heq
          exact bm_tail cfg f ihM (x3 := { s := (skipVariant cfg f limit (mv (cur s2).2)).2, d := x1.d, b := x1.b }) h01
        · exact h01
  · exact h01

theorem bn_all (cfg : Cfg) : ∀ fuel, BVs cfg fuel ∧ BEs cfg fuel ∧ BMs cfg fuel := by
  intro fuel
  induction fuel with
  | zero =>
    refine ⟨?_, ?_, ?_⟩ <;> intro limit flt l x
    · simp only [parseVariant]; exact BN.refl _
    · simp only [parseElems]; exact BN.refl _
    · simp only [parseMembers]; exact BN.refl _
  | succ f ih =>
    obtain ⟨ihV, ihE, ihM⟩ := ih
    exact ⟨bv_succ cfg f ihE ihM, be_succ cfg f ihV ihE, bm_succ cfg f ihV ihM⟩

/-- (b) for EVERY run (failures included): no two entries of the string table of the result have the same bytes -/
theorem run_bytes_nodup (cfg : Cfg) (limit : Nat) (flt : Flt) (d : Doc) (input : List Byte) :
    ((run cfg limit flt d input).2.1.strings.map (·.bytes)).Nodup := by
  have h := (bn_all cfg (2 * input.length + 4)).1 limit flt .root (start d input)
  have h0 : BytesNodup (start d input).d := by
    show (d.clearAll.strings.map (·.bytes)).Nodup
    rw [(clearAll_spec d).2.2.2.2.2.1]; exact List.nodup_nil
  have h1 : BytesNodup (stop cfg limit flt d input).2.d := h h0
  rw [run_eq]
  show ((preShrink cfg limit flt d input).strings.map (·.bytes)).Nodup
  rw [(preShrink_pleq cfg limit flt d input).1.strings]
  exact h1

/-! ## (a), (c): exact reference counts, no leaked slot - the invariant `Tight` -/

/-- every slot that is live in the pools belongs to the layout, or is an extension slot of a value of the document -/
def NoLeak (d : Doc) (G : Forest) : Prop :=
  ∀ i, PL.live d.g d.pl i → i ∈ G.ids ∨ ∃ l0 ∈ holders G, i ∈ extOfV (d.get l0)

/-- the string table holds exactly the strings in use, with exact counters; no slot is leaked -/
structure Tight (d : Doc) (G : Forest) : Prop where
  exact : Exact d (d.strRefs G)
  noleak : NoLeak d G

/-- the general step: the references grow by `extra`, the new live slots are accounted for, the old ones stay so -/
theorem Tight.transfer {d d' : Doc} {G G' : Forest} {extra : List Nat}
    (hstr : Exact d (d.strRefs G) → Exact d' (extra ++ d.strRefs G))
    (hperm : List.Perm (d'.strRefs G') (extra ++ d.strRefs G))
    (hlive : ∀ x, PL.live d'.g d'.pl x →
      PL.live d.g d.pl x ∨ x ∈ G'.ids ∨ ∃ l0 ∈ holders G', x ∈ extOfV (d'.get l0))
    (hids : ∀ x ∈ G.ids, x ∈ G'.ids)
    (hext : ∀ l0 ∈ holders G, ∀ e ∈ extOfV (d.get l0), ∃ l1 ∈ holders G', e ∈ extOfV (d'.get l1))
    (t : Tight d G) : Tight d' G' := by
  refine ⟨Exact_perm hperm.symm (hstr t.exact), fun i hi => ?_⟩
  rcases hlive i hi with h | h | h
  · rcases t.noleak i h with h1 | ⟨l0, h0, he⟩
    · exact Or.inl (hids i h1)
    · exact Or.inr (hext l0 h0 i he)
  · exact Or.inl h
  · exact Or.inr h

/-- allocator traffic is not seen -/
theorem Tight.pleq {d d' : Doc} {G : Forest} (h : PlEq d d') (t : Tight d G) : Tight d' G := by
  refine ⟨?_, fun i hi => ?_⟩
  · rw [h.strRefs]; exact Exact_congr h.strings t.exact
  · rcases t.noleak i ((h.live i).1 hi) with h1 | ⟨l0, h0, he⟩
    · exact Or.inl h1
    · exact Or.inr ⟨l0, h0, by rw [h.get]; exact he⟩

/-- storing a value without resources on an empty location -/
theorem Tight.set_plain {d : Doc} {G : Forest} {l : Loc} {v : VData} (w : WFG d G) (hl : isLoc G l)
    (hnull : d.get l = .null) (hst : strOfV v = []) (t : Tight d G) : Tight (d.set l v) G := by
  refine ⟨?_, fun i hi => ?_⟩
  · exact set_gen_exact (d1 := d) w hl (by rw [hnull]; rfl) rfl (fun _ _ => rfl) (by rw [hst]; exact t.exact)
  · rw [set_g, set_pl] at hi
    rcases t.noleak i hi with h1 | ⟨l0, h0, he⟩
    · exact Or.inl h1
    · by_cases e : l0 = l
      · subst e; rw [hnull] at he; cases he
      · exact Or.inr ⟨l0, h0, by rw [get_set_ne e]; exact he⟩

/-- `save` keeps exact counts exact, with one more reference to the node it returns -/
theorem save_exact (x : S) (bytes : List Byte) {rs : List Nat} (hs : StrOK x.d rs) (he : Exact x.d rs) :
    Exact (save x bytes).2.d ((save x bytes).1 :: rs) := by
  have hs' : StrOK (calm x.d bytes.length) rs := StrOK_congr (d := x.d) (d' := calm x.d bytes.length) rfl rfl hs
  have he' : Exact (calm x.d bytes.length) rs := he
  cases hf : x.d.strings.find? (·.bytes == bytes) with
  | some y =>
    have hf' : (calm x.d bytes.length).strings.find? (·.bytes == bytes) = some y := hf
    have := saveString_exact hs' he' (saveString_found hf')
    rw [save_eq_found hf]; exact this
  | none =>
    have hf' : (calm x.d bytes.length).strings.find? (·.bytes == bytes) = none := hf
    have hsv := saveString_short hf' (Nat.le_refl _)
    rw [calm_failsAt] at hsv
    simp only [Bool.false_eq_true, if_false] at hsv
    have := saveString_exact hs' he' hsv
    rw [save_eq_new hf]; exact this

/-- a string value: `save`, then the node is stored on the empty location -/
theorem Tight.save_set {x : S} {G : Forest} {l : Loc} (bytes : List Byte) (w : WFG x.d G)
    (hs : StrOK x.d (x.d.strRefs G)) (hl : isLoc G l) (hnull : x.d.get l = .null) (t : Tight x.d G) :
    Tight ((save x bytes).2.d.set l (.owned (save x bytes).1)) G := by
  have sv := save_spec x bytes
  have hc : ∀ j, (save x bytes).2.d.cell j = x.d.cell j := fun j => by simp only [Doc.cell, sv.cells]
  refine ⟨?_, fun i hi => ?_⟩
  · exact set_gen_exact (d1 := (save x bytes).2.d) w hl (by rw [hnull]; rfl) sv.root (fun j _ => hc j)
      (save_exact x bytes hs t.exact)
  · rw [set_g, set_pl, sv.g] at hi
    have hi' : PL.live x.d.g x.d.pl i := (live_congr sv.pools sv.free i).1 hi
    rcases t.noleak i hi' with h1 | ⟨l0, h0, he⟩
    · exact Or.inl h1
    · by_cases e : l0 = l
      · subst e; rw [hnull] at he; cases he
      · refine Or.inr ⟨l0, h0, ?_⟩
        rw [get_set_ne e]
        cases l0 with
        | root => show i ∈ extOfV (save x bytes).2.d.root; rw [sv.root]; exact he
        | slot j => rw [get_of_cell (hc j)]; exact he

/-! ### numbers -/

theorem allocExt_live {d d1 : Doc} {p : Int} {e : Nat} (gok : PL.GeoOK d.g) (hp : PL.Inv d.g d.pl)
    (h : d.allocExt p = (some e, d1)) : ∀ x, PL.live d1.g d1.pl x ↔ PL.live d.g d.pl x ∨ x = e := by
  simp only [Doc.allocExt] at h
  split at h
  · rename_i id' pl heq
    simp only [Prod.mk.injEq, Option.some.injEq] at h
    obtain ⟨rfl, rfl⟩ := h
    exact (C19.alloc_fresh gok hp heq).2.2.1
  · simp only [Prod.mk.injEq] at h; exact absurd h.1 (by simp)

/-- a successful `setArg` of a number: the document is `d1.set l v` where `d1` is `d` or `d` after one extension slot was
    handed out, which `v` references -/
theorem setArg_num_cases (d : Doc) (l : Loc) {a : Arg} (ha : isNum a) (gok : PL.GeoOK d.g) (hp : PL.Inv d.g d.pl)
    (hok : (d.setArg l a).1 = true) :
    ∃ d1 v, (d.setArg l a).2 = d1.set l v ∧ Grow d d1 ∧
      (∀ x, PL.live d1.g d1.pl x → PL.live d.g d.pl x ∨ x ∈ extOfV v) := by
  have inplace : ∀ v, ∃ d1 v', d.set l v = d1.set l v' ∧ Grow d d1 ∧
      (∀ x, PL.live d1.g d1.pl x → PL.live d.g d.pl x ∨ x ∈ extOfV v') :=
    fun v => ⟨d, v, rfl, Grow.refl hp, fun x hx => Or.inl hx⟩
  have ext : ∀ (p : Int) (k : Nat → VData), (∀ e, extOfV (k e) = [e]) →
      (match d.allocExt p with | (some s, d) => (true, d.set l (k s)) | (none, d) => (false, d)).1 = true →
      ∃ d1 v, (match d.allocExt p with | (some s, d) => (true, d.set l (k s)) | (none, d) => (false, d)).2 = d1.set l v ∧
        Grow d d1 ∧ (∀ x, PL.live d1.g d1.pl x → PL.live d.g d.pl x ∨ x ∈ extOfV v) := by
    intro p k hk hok'
    generalize hal : d.allocExt p = r at hok' ⊢
    obtain ⟨m, d1⟩ := r
    cases m with
    | none => simp at hok'
    | some e =>
      refine ⟨d1, k e, rfl, (allocExt_some gok hp hal).1, fun x hx => ?_⟩
      rcases (allocExt_live gok hp hal x).1 hx with h | h
      · exact Or.inl h
      · exact Or.inr (by rw [hk e, h]; exact List.mem_singleton.2 rfl)
  cases a with
  | uint v =>
    simp only [Doc.setArg] at hok ⊢
    split
    · exact inplace _
    · rename_i hc; rw [if_neg hc] at hok; exact ext v .u64 (fun _ => rfl) hok
  | sint v =>
    simp only [Doc.setArg] at hok ⊢
    split
    · exact inplace _
    · rename_i hc; rw [if_neg hc] at hok; exact ext v .i64 (fun _ => rfl) hok
  | f32 b => exact inplace _
  | f64 b =>
    simp only [Doc.setArg] at hok ⊢
    split
    · exact inplace _
    · rename_i hc
      split at hok
      · rename_i f hf; exact absurd hf (hc f)
      · exact ext b .f64 (fun _ => rfl) hok
  | null => exact absurd ha (fun h => h)
  | bool _ => exact absurd ha (fun h => h)
  | strLinked _ => exact absurd ha (fun h => h)
  | strCopied _ => exact absurd ha (fun h => h)
  | raw _ => exact absurd ha (fun h => h)

/-- `parseNumericValue`'s store, when it succeeds -/
theorem Tight.setArg_num {d : Doc} {G : Forest} {l : Loc} {a : Arg} (w : WFG d G) (hs : StrOK d (d.strRefs G))
    (hl : isLoc G l) (hnull : d.get l = .null) (gok : PL.GeoOK d.g) (ha : isNum a) (hok : (d.setArg l a).1 = true)
    (t : Tight d G) : Tight (d.setArg l a).2 G := by
  refine ⟨setArg_exact w hs t.exact hl hnull gok hok, fun i hi => ?_⟩
  obtain ⟨d1, v, e, hg, hlv⟩ := setArg_num_cases d l ha gok w.pool hok
  rw [e] at hi ⊢
  rw [set_g, set_pl] at hi
  have hget : ∀ l0 ∈ holders G, l0 ≠ l → (d1.set l v).get l0 = d.get l0 := by
    intro l0 h0 hne
    rw [get_set_ne hne]
    rcases mem_holders.1 h0 with e' | ⟨x, hx, e'⟩
    · subst e'; exact hg.root
    · subst e'; exact get_of_cell (hg.cells x (w.live x hx))
  rcases hlv i hi with h | h
  · rcases t.noleak i h with h1 | ⟨l0, h0, he⟩
    · exact Or.inl h1
    · by_cases e' : l0 = l
      · subst e'; rw [hnull] at he; cases he
      · exact Or.inr ⟨l0, h0, by rw [hget l0 h0 e']; exact he⟩
  · exact Or.inr ⟨l, loc_mem_holders hl, by rw [get_set_self]; exact h⟩

/-! ### steps inside the collection being built at `l` (vocabulary of AJ/Lemmas/JddOps.lean) -/

/-- the values held outside `l` are the same in two documents built from the same reference point -/
theorem built_same {d0 d d' : Doc} {F : Forest} {l : Loc} {s s' : Forest} (C : Ctx d0 F l) (B : Built d0 F l d s)
    (B' : Built d0 F l d' s') (hs : ∀ j ∈ s.ids, d'.get (.slot j) = d.get (.slot j)) :
    ∀ l0 ∈ holders (replaceAt F l s), l0 ≠ l → d'.get l0 = d.get l0 := by
  intro l0 h0 hne
  rcases mem_holders.1 h0 with e | ⟨x, hx, e⟩
  · subst e
    show d'.root = d.root
    rw [B'.root (Ne.symm hne), B.root (Ne.symm hne)]
  · subst e
    rcases (C.mem_ids s x).1 hx with hF | hS
    · exact get_of_cell ((B'.cells x hF hne).trans (B.cells x hF hne).symm)
    · exact hs x hS

/-- the slots of the layout after new slots `new` were linked into the collection at `l` -/
theorem built_ids_perm {d0 d d' : Doc} {F : Forest} {l : Loc} {s s' : Forest} (C : Ctx d0 F l) (B : Built d0 F l d s)
    (B' : Built d0 F l d' s') {new : List Nat} (hnd : new.Nodup) (hmem : ∀ x, x ∈ s'.ids ↔ x ∈ s.ids ∨ x ∈ new)
    (hdis : ∀ x ∈ new, x ∉ s.ids) :
    List.Perm (replaceAt F l s').ids (new ++ (replaceAt F l s).ids) := by
  have hdisj : ∀ x ∈ new, x ∉ (replaceAt F l s).ids := by
    intro x hx m
    rcases (C.mem_ids s x).1 m with hF | hS
    · exact B'.fresh x ((hmem x).2 (Or.inr hx)) hF
    · exact hdis x hx hS
  refine (List.perm_ext_iff_of_nodup B'.wf.nodup ?_).2 ?_
  · exact List.nodup_append.2 ⟨hnd, B.wf.nodup, fun a ha b hb e => hdisj a ha (e ▸ hb)⟩
  · intro x
    rw [C.mem_ids s' x, hmem x, List.mem_append, C.mem_ids s x]
    constructor
    · rintro (h | h | h)
      · exact Or.inr (Or.inl h)
      · exact Or.inr (Or.inr h)
      · exact Or.inl h
    · rintro (h | h | h)
      · exact Or.inr (Or.inr h)
      · exact Or.inl h
      · exact Or.inr (Or.inl h)

theorem holders_perm_app {G G' : Forest} {new : List Nat} (hp : List.Perm G'.ids (new ++ G.ids)) :
    List.Perm (holders G') (new.map Loc.slot ++ holders G) := by
  have h1 : List.Perm (holders G') (Loc.root :: (new.map Loc.slot ++ G.ids.map Loc.slot)) :=
    List.Perm.cons _ (by simpa using hp.map Loc.slot)
  exact h1.trans List.perm_middle.symm

/-- the references after new slots `new` were linked into the collection at `l` -/
theorem built_strRefs_perm {d0 d d' : Doc} {F : Forest} {l : Loc} {s s' : Forest} (C : Ctx d0 F l) (B : Built d0 F l d s)
    (B' : Built d0 F l d' s') (hs : ∀ j ∈ s.ids, d'.get (.slot j) = d.get (.slot j))
    {new : List Nat} (hnd : new.Nodup) (hmem : ∀ x, x ∈ s'.ids ↔ x ∈ s.ids ∨ x ∈ new)
    (hdis : ∀ x ∈ new, x ∉ s.ids) (hl : strOfV (d'.get l) = strOfV (d.get l)) :
    List.Perm (d'.strRefs (replaceAt F l s'))
      (new.flatMap (fun j => strOfV (d'.get (.slot j))) ++ d.strRefs (replaceAt F l s)) := by
  have hp := (holders_perm_app (built_ids_perm C B B' hnd hmem hdis)).flatMap_right (fun l0 => strOfV (d'.get l0))
  have e1 : (new.map Loc.slot ++ holders (replaceAt F l s)).flatMap (fun l0 => strOfV (d'.get l0)) =
      new.flatMap (fun j => strOfV (d'.get (.slot j))) ++ d.strRefs (replaceAt F l s) := by
    rw [List.flatMap_append, List.flatMap_map]
    congr 1
    refine flatMap_congr' _ (fun l0 h0 => ?_)
    by_cases e : l0 = l
    · subst e; exact hl
    · rw [built_same C B B' hs l0 h0 e]
  rw [e1] at hp
  exact hp

/-- the general step inside the collection at `l` (which holds no resource itself) -/
theorem Tight.built_step {d0 d d' : Doc} {F : Forest} {l : Loc} {s s' : Forest} (C : Ctx d0 F l) (B : Built d0 F l d s)
    (B' : Built d0 F l d' s') (hs : ∀ j ∈ s.ids, d'.get (.slot j) = d.get (.slot j))
    {new : List Nat} (hnd : new.Nodup) (hmem : ∀ x, x ∈ s'.ids ↔ x ∈ s.ids ∨ x ∈ new)
    (hdis : ∀ x ∈ new, x ∉ s.ids) (hl : strOfV (d'.get l) = strOfV (d.get l)) (hle : extOfV (d.get l) = [])
    {extra : List Nat} (hextra : new.flatMap (fun j => strOfV (d'.get (.slot j))) = extra)
    (t : Tight d (replaceAt F l s))
    (hstr : Exact d' (extra ++ d.strRefs (replaceAt F l s)))
    (hlive : ∀ x, PL.live d'.g d'.pl x → PL.live d.g d.pl x ∨ x ∈ new) :
    Tight d' (replaceAt F l s') := by
  have hids : ∀ x ∈ (replaceAt F l s).ids, x ∈ (replaceAt F l s').ids := by
    intro x hx
    rcases (C.mem_ids s x).1 hx with h | h
    · exact (C.mem_ids s' x).2 (Or.inl h)
    · exact (C.mem_ids s' x).2 (Or.inr ((hmem x).2 (Or.inl h)))
  refine Tight.transfer (extra := extra) (fun _ => hstr) ?_ ?_ hids ?_ t
  · rw [← hextra]; exact built_strRefs_perm C B B' hs hnd hmem hdis hl
  · intro x hx
    rcases hlive x hx with h | h
    · exact Or.inl h
    · exact Or.inr (Or.inl ((C.mem_ids s' x).2 (Or.inr ((hmem x).2 (Or.inr h)))))
  · intro l0 h0 e he
    by_cases e' : l0 = l
    · subst e'; rw [hle] at he; cases he
    · refine ⟨l0, ?_, by rw [built_same C B B' hs l0 h0 e']; exact he⟩
      rcases mem_holders.1 h0 with e1 | ⟨x, hx, e1⟩
      · exact mem_holders.2 (Or.inl e1)
      · exact mem_holders.2 (Or.inr ⟨x, hids x hx, e1⟩)

/-! ### `clearV` (an existing member is cleared before it is parsed again) -/

theorem Tight.clearV {d : Doc} {G : Forest} {l : Loc} (w : WFG d G) (hs : StrOK d (d.strRefs G)) (hl : isLoc G l)
    (t : Tight d G) : Tight (d.clearV l) (replaceAt G l .nil) := by
  refine ⟨(clearV_exact w hs hl).2.2.2.2 t.exact, fun i hi => ?_⟩
  obtain ⟨dm, hdm, hex, _, hin, _⟩ := clearV_x w hs hl
  obtain ⟨_, _, gr, gc, _⟩ := clearV_good w hs hl
  have hi' : PL.live d.g d.pl i ∧ i ∉ relSlots d G l := by
    rw [hdm, set_g, set_pl] at hi
    exact (hex.eff.live i).1 hi
  obtain ⟨hlive, hnot⟩ := hi'
  have hsub : ∀ j ∈ (layoutAt G l).ids, ∀ e ∈ extOfV (d.get (.slot j)), e ∈ relSlots d G l := by
    intro j hj e he
    exact List.mem_append.2 (Or.inr ((mem_fpF d _ e).2 (Or.inr ⟨j, hj, he⟩)))
  rcases t.noleak i hlive with h1 | ⟨l0, h0, he⟩
  · by_cases hin' : i ∈ (layoutAt G l).ids
    · exact absurd (hin i hin') hnot
    · exact Or.inl ((mem_ids_cleared w.nodup hl i).2 ⟨h1, hin'⟩)
  · by_cases e' : l0 = l
    · subst e'
      exact absurd (List.mem_append.2 (Or.inl he)) hnot
    · rcases mem_holders.1 h0 with e1 | ⟨x, hx, e1⟩
      · subst e1
        refine Or.inr ⟨.root, mem_holders.2 (Or.inl rfl), ?_⟩
        cases l with
        | root => exact absurd rfl e'
        | slot j =>
          show i ∈ extOfV (d.clearV (.slot j)).root
          rw [(gr j rfl).2]; exact he
      · subst e1
        by_cases hxin : x ∈ (layoutAt G l).ids
        · exact absurd (hsub x hxin i he) hnot
        · refine Or.inr ⟨.slot x, mem_holders.2 (Or.inr ⟨x, (mem_ids_cleared w.nodup hl x).2 ⟨hx, hxin⟩, rfl⟩), ?_⟩
          rw [get_of_cell (gc x hx e' hxin).1]; exact he

/-- clearing the member value slot `v` of the object being built at `l` -/
theorem Tight.clear_member {d0 d : Doc} {F : Forest} {l : Loc} {s : Forest} {v : Nat} (C : Ctx d0 F l)
    (B : Built d0 F l d s) (hv : v ∈ s.locs) (t : Tight d (replaceAt F l s)) :
    Tight (d.clearV (.slot v)) (replaceAt F l (s.replaceSub v .nil)) := by
  have hvF : v ∉ F.ids := B.fresh v (s.locs_sub_ids v hv)
  have hlv : isLoc (replaceAt F l s) (.slot v) := isLoc_replaceAt_new C.loc hv
  have := Tight.clearV B.wf B.str hlv t
  rw [replaceAt_nest s .nil hvF] at this
  exact this

/-! ### `addElement` -/

theorem addElement_live {d d1 : Doc} {l : Loc} {id : Nat} (gok : PL.GeoOK d.g) (hp : PL.Inv d.g d.pl)
    (h : d.addElement l = (some id, d1)) : ∀ x, PL.live d1.g d1.pl x ↔ PL.live d.g d.pl x ∨ x = id := by
  simp only [Doc.addElement] at h
  generalize hal : d.allocVariant = r at h
  obtain ⟨m, da⟩ := r
  cases m with
  | none => simp at h
  | some j =>
    simp only [Prod.mk.injEq, Option.some.injEq] at h
    obtain ⟨rfl, rfl⟩ := h
    rw [appendOne_g, DL.appendOne_pl]
    exact (allocVariant_some gok hp hal).2.2.2.2.2.2

/-- a null element appended to the array being built at `l` -/
theorem Tight.addElement {d0 d d1 : Doc} {F : Forest} {l : Loc} {s : Forest} {h t id : Nat} (C : Ctx d0 F l)
    (B : Built d0 F l d s) (hv : d.get l = .arr h t) (he : d.addElement l = (some id, d1))
    (t' : Tight d (replaceAt F l s)) : Tight d1 (replaceAt F l (s.snoc none id)) := by
  obtain ⟨B1, hgn, ⟨h', hgl⟩, _, _, _, hids, _, hsame⟩ := B.addElement_some C hv he
  have hstrings : d1.strings = d.strings := by
    have := (addElement_strRefs B.wf B.str (B.gok C) (C.loc' s) hv).1
    rw [he] at this; exact this
  refine Tight.built_step C B B1 (fun j hj => (hsame j hj).1) (new := [id]) (by simp) ?_ ?_ ?_ ?_
    (extra := []) ?_ t' (Exact_congr hstrings t'.exact) ?_
  · intro x
    rw [Forest.ids_snoc]
    simp only [Forest.keyL, List.nil_append, List.mem_append, List.mem_singleton]
  · intro x hx; rw [List.mem_singleton.1 hx]; exact hids
  · rw [hgl, hv]; rfl
  · rw [hv]; rfl
  · simp only [List.flatMap_cons, List.flatMap_nil, hgn, strOfV, List.append_nil]
  · intro x hx
    rcases (addElement_live (B.gok C) B.wf.pool he x).1 hx with h1 | h1
    · exact Or.inl h1
    · exact Or.inr (List.mem_singleton.2 h1)

/-! ### a new member: `save` the key, then `addMember(StringNode*)` -/

theorem addMemberNode_live {d d' : Doc} {l : Loc} {node v : Nat} (gok : PL.GeoOK d.g) (hp : PL.Inv d.g d.pl)
    (h : addMemberNode d l node = (some v, d')) :
    ∃ k, k ≠ v ∧ ∀ x, PL.live d.g d'.pl x ↔ PL.live d.g d.pl x ∨ x = k ∨ x = v := by
  rcases addMemberNode_cases d l node with ⟨d1, _, e⟩ | ⟨k, d1, d2, _, _, e⟩ | ⟨k, d1, v', d2, hal1, hal2, e⟩
  · rw [e] at h; simp at h
  · rw [e] at h; simp at h
  · rw [e] at h
    simp only [Prod.mk.injEq, Option.some.injEq] at h
    obtain ⟨rfl, rfl⟩ := h
    obtain ⟨hg1, _, _, _, _, _, hlv1⟩ := allocVariant_some gok hp hal1
    have gok1 : PL.GeoOK d1.g := by rw [hg1.g]; exact gok
    obtain ⟨hg2, _, _, _, hnv, _, hlv2⟩ := allocVariant_some gok1 hg1.pool hal2
    refine ⟨k, fun e' => hnv (e' ▸ (hlv1 k).2 (Or.inr rfl)), fun x => ?_⟩
    rw [DL.appendPair_pl, set_pl]
    have h2 := hlv2 x
    have h1 := hlv1 x
    rw [hg2.g, hg1.g] at h2
    rw [hg1.g] at h1
    rw [h2, h1, or_assoc]

/-- the member `(key, null)` appended to the object being built at `l`: from the state before `save` to the state after
    `addMember` succeeded -/
theorem Tight.addMember {d0 : Doc} {F : Forest} {l : Loc} {s : Forest} {x : S} {h t v k0 : Nat} {d2 : Doc}
    (key : List Byte) (C : Ctx d0 F l) (B : Built d0 F l x.d s) (hv : x.d.get l = .obj h t)
    (ham : addMemberNode (save x key).2.d l (save x key).1 = (some v, d2))
    (B2 : Built d0 F l d2 (s.snoc (some k0) v)) (hgv : d2.get (.slot v) = .null) (hgl : ∃ h', d2.get l = .obj h' v)
    (hsame : SameV (save x key).2.d d2 s.ids) (hgk : d2.get (.slot k0) = .owned (save x key).1)
    (hstr : d2.strings = (save x key).2.d.strings) (hk0 : k0 ∉ s.ids) (hv0 : v ∉ s.ids)
    (t' : Tight x.d (replaceAt F l s)) : Tight d2 (replaceAt F l (s.snoc (some k0) v)) := by
  have sv := save_spec x key
  obtain ⟨B', _, hget⟩ := B.save C sv
  obtain ⟨h', hgl⟩ := hgl
  have hs : ∀ j ∈ s.ids, d2.get (.slot j) = x.d.get (.slot j) := fun j hj => (hsame j hj).1.trans (hget (.slot j))
  have hmem : ∀ y, y ∈ (s.snoc (some k0) v).ids ↔ y ∈ s.ids ∨ y ∈ [k0, v] := by
    intro y
    rw [Forest.ids_snoc]
    simp only [Forest.keyL, List.cons_append, List.nil_append, List.mem_append, List.mem_cons, List.not_mem_nil, or_false]
  have hnd2 : (s.snoc (some k0) v).ids.Nodup := by
    have := layoutAt_nodup B2.wf.nodup (C.loc' (s.snoc (some k0) v)); rw [C.lay] at this; exact this
  have hk0v : k0 ≠ v := by
    rw [Forest.ids_snoc] at hnd2
    have := (List.nodup_append.1 hnd2).2.1
    simp only [Forest.keyL, List.cons_append, List.nil_append, List.nodup_cons, List.mem_singleton] at this
    exact this.1
  have hle : extOfV (x.d.get l) = [] := by rw [hv]; rfl
  have hk0G2 : k0 ∈ (replaceAt F l (s.snoc (some k0) v)).ids :=
    (C.mem_ids _ k0).2 (Or.inr ((hmem k0).2 (Or.inr (by simp))))
  -- the allocator: two new live slots
  have gS : (save x key).2.d.g = x.d.g := sv.g
  have g2 : d2.g = x.d.g := B2.g.trans B.g.symm
  obtain ⟨k, hkv, hlv⟩ := addMemberNode_live (B'.gok C) B'.wf.pool ham
  have hlv' : ∀ y, PL.live d2.g d2.pl y ↔ PL.live x.d.g x.d.pl y ∨ y = k ∨ y = v := by
    intro y
    have := hlv y
    rw [gS] at this
    rw [g2, this, live_congr sv.pools sv.free y]
  -- the key slot of the layout is the first of them
  have hkk : k0 = k := by
    rcases (hlv' k0).1 (B2.wf.live k0 hk0G2) with h1 | h1 | h1
    · exfalso
      rcases t'.noleak k0 h1 with h2 | ⟨l0, h0, he⟩
      · rcases (C.mem_ids s k0).1 h2 with h3 | h3
        · exact B2.fresh k0 ((hmem k0).2 (Or.inr (by simp))) h3
        · exact hk0 h3
      · by_cases e' : l0 = l
        · subst e'; rw [hle] at he; cases he
        · have hg0 := built_same C B B2 hs l0 h0 e'
          have h0' : l0 ∈ holders (replaceAt F l (s.snoc (some k0) v)) := by
            rcases mem_holders.1 h0 with e1 | ⟨y, hy, e1⟩
            · exact mem_holders.2 (Or.inl e1)
            · refine mem_holders.2 (Or.inr ⟨y, ?_, e1⟩)
              rcases (C.mem_ids s y).1 hy with h3 | h3
              · exact (C.mem_ids _ y).2 (Or.inl h3)
              · exact (C.mem_ids _ y).2 (Or.inr ((hmem y).2 (Or.inl h3)))
          obtain ⟨⟨p, hp⟩, _, _⟩ := B2.wf.ext l0 h0' k0 (by rw [hg0]; exact he)
          exact ext_ne_var hp (B2.wf.isVar k0 hk0G2) rfl
    · exact h1
    · exact absurd h1 hk0v
  refine Tight.built_step C B B2 hs (new := [k0, v]) ?_ hmem ?_ ?_ hle (extra := [(save x key).1]) ?_ t'
    (Exact_congr hstr (save_exact x key B.str t'.exact)) ?_
  · simp [hk0v]
  · intro y hy
    simp only [List.mem_cons, List.not_mem_nil, or_false] at hy
    rcases hy with rfl | rfl
    · exact hk0
    · exact hv0
  · rw [hgl, hv]; rfl
  · simp only [List.flatMap_cons, List.flatMap_nil, hgk, hgv, strOfV, List.append_nil]
  · intro y hy
    rcases (hlv' y).1 hy with h1 | h1 | h1
    · exact Or.inl h1
    · exact Or.inr (by rw [h1, ← hkk]; simp)
    · exact Or.inr (by rw [h1]; simp)

/-! ### the parser-level induction -/

/-- the step `(d, G) → (d', G')` keeps `Tight`, provided no allocation failed up to `d'` -/
def TS (d : Doc) (G : Forest) (d' : Doc) (G' : Forest) : Prop := d'.overflowed = false → Tight d G → Tight d' G'

theorem TS.refl (d : Doc) (G : Forest) : TS d G d G := fun _ t => t

theorem TS.of_ov {d d' : Doc} {G G' : Forest} (h : d'.overflowed = true) : TS d G d' G' :=
  fun ho => by rw [h] at ho; cases ho

theorem TS.trans {d d1 d2 : Doc} {G G1 G2 : Forest} (h1 : TS d G d1 G1) (h2 : TS d1 G1 d2 G2)
    (ovs : d1.overflowed = true → d2.overflowed = true) : TS d G d2 G2 := by
  intro ho t
  have h1o : d1.overflowed = false := by
    cases hx : d1.overflowed with
    | false => rfl
    | true => rw [ovs hx] at ho; cases ho
  exact h2 ho (h1 h1o t)

/-- result of a parsing routine started in `x` (where the layout `sin` had been built at `l`) -/
structure RX (d0 : Doc) (F : Forest) (l : Loc) (x : S) (sin : Forest) (r : Code × S) : Prop where
  built : ∃ s, Built d0 F l r.2.d s ∧ TS x.d (replaceAt F l sin) r.2.d (replaceAt F l s)
  fx : Fx x.d x.b r.2.d r.2.b r.1

theorem RX.exit {d0 : Doc} {F : Forest} {l : Loc} {x x' : S} {sin s : Forest} {c : Code} (B : Built d0 F l x'.d s)
    (fx : Fx x.d x.b x'.d x'.b c) (ts : TS x.d (replaceAt F l sin) x'.d (replaceAt F l s)) :
    RX d0 F l x sin (c, x') := ⟨⟨s, B, ts⟩, fx⟩

theorem RX.of_eq {d0 : Doc} {F : Forest} {l : Loc} {x x' : S} {sin : Forest} {r : Code × S} (hd : x'.d = x.d)
    (hb : x'.b = x.b) (h : RX d0 F l x' sin r) : RX d0 F l x sin r :=
  ⟨by rw [← hd]; exact h.built, by rw [← hd, ← hb]; exact h.fx⟩

theorem RX.step {d0 : Doc} {F : Forest} {l : Loc} {x x1 : S} {sin s1 : Forest} {r : Code × S}
    (fx : Fx x.d x.b x1.d x1.b .ok) (ts : TS x.d (replaceAt F l sin) x1.d (replaceAt F l s1))
    (h : RX d0 F l x1 s1 r) : RX d0 F l x sin r := by
  obtain ⟨s, B, ts2⟩ := h.built
  exact ⟨⟨s, B, ts.trans ts2 h.fx.ovs⟩, fx.trans h.fx⟩

/-- `parseNumericValue` -/
theorem numeric_x (cfg : Cfg) {d0 : Doc} {F : Forest} {l : Loc} {x : S} (C : Ctx d0 F l) (B : Built d0 F l x.d .nil)
    (hn : x.d.get l = .null) : RX d0 F l x .nil (numeric cfg l x) := by
  obtain ⟨w, hs⟩ := B.get_nil C
  have store : ∀ (s : JD.St) (a : Arg), isNum a →
      RX d0 F l x .nil ((if (x.d.setArg l a).1 = true then Code.ok else Code.noMemory),
        ({ s := s, d := (x.d.setArg l a).2, b := x.b } : S)) := by
    intro s a ha
    obtain ⟨b1, b2, b3, b4, b5, b6⟩ := B.setArg_num C hn ha
    refine RX.exit b1 ⟨(fun h => by rw [LBd_iff] at h ⊢; rw [b2]; exact h), b5, fun e => ?_, fun e => ?_,
      fun h => h.elim b6 (fun o => Or.inr (b5 o))⟩ ?_
    · cases hh : (x.d.setArg l a).1 with
      | true => exact b3 hh
      | false => rw [hh] at e; simp at e
    · cases hh : (x.d.setArg l a).1 with
      | true => rw [hh] at e; simp at e
      | false => exact b4 hh
    · intro ho t
      have hok : (x.d.setArg l a).1 = true := by
        cases hh : (x.d.setArg l a).1 with
        | true => rfl
        | false => have := b4 hh; rw [show (x.d.setArg l a).2.overflowed = false from ho] at this; cases this
      rw [C.replace_nil] at t ⊢
      exact Tight.setArg_num w hs C.loc hn (B.gok C) ha hok t
  unfold numeric
  simp only
  split
  · exact store _ _ trivial
  · exact store _ _ trivial
  · exact store _ _ trivial
  · exact store _ _ trivial
  · exact RX.exit B ((Fx.refl _ _).code (by simp)) (TS.refl _ _)
  · exact RX.exit B ((Fx.refl _ _).code (by simp)) (TS.refl _ _)

def XVs (cfg : Cfg) (fuel : Nat) : Prop := ∀ (limit : Nat) (flt : Flt) (l : Loc) (x : S) (d0 : Doc) (F : Forest),
  Ctx d0 F l → Built d0 F l x.d .nil → x.d.get l = .null → RX d0 F l x .nil (parseVariant cfg fuel limit flt l x)

def XEs (cfg : Cfg) (fuel : Nat) : Prop := ∀ (limit : Nat) (flt : Flt) (l : Loc) (x : S) (d0 : Doc) (F s : Forest) (h t : Nat),
  Ctx d0 F l → Built d0 F l x.d s → x.d.get l = .arr h t → RX d0 F l x s (parseElems cfg fuel limit flt l x)

def XMs (cfg : Cfg) (fuel : Nat) : Prop := ∀ (limit : Nat) (flt : Flt) (l : Loc) (x : S) (d0 : Doc) (F s : Forest) (h t : Nat),
  Ctx d0 F l → Built d0 F l x.d s → x.d.get l = .obj h t → RX d0 F l x s (parseMembers cfg fuel limit flt l x)

/-- parsing into the fresh slot `v` of the collection being built at `l` -/
theorem sub_parse_x {cfg : Cfg} {f : Nat} (ihV : XVs cfg f) {d0 : Doc} {F : Forest} {l : Loc} {x : S} {s : Forest}
    {v : Nat} (limit : Nat) (flt : Flt) (C : Ctx d0 F l) (B : Built d0 F l x.d s) (hv : v ∈ s.locs)
    (hn : x.d.get (.slot v) = .null) :
    (∃ s', Built d0 F l (parseVariant cfg f limit flt (.slot v) x).2.d s' ∧
      TS x.d (replaceAt F l s) (parseVariant cfg f limit flt (.slot v) x).2.d (replaceAt F l s')) ∧
    (parseVariant cfg f limit flt (.slot v) x).2.d.get l = x.d.get l ∧
    Fx x.d x.b (parseVariant cfg f limit flt (.slot v) x).2.d (parseVariant cfg f limit flt (.slot v) x).2.b
      (parseVariant cfg f limit flt (.slot v) x).1 := by
  have C1 := B.ctx_in C hv hn
  have R := ihV limit flt (.slot v) x x.d (replaceAt F l s) C1 (built_start B.wf B.str C1) hn
  obtain ⟨s2, B2, ts⟩ := R.built
  obtain ⟨a, b⟩ := B.nest C hv B2
  have hvF : v ∉ F.ids := B.fresh v (s.locs_sub_ids v hv)
  rw [C1.replace_nil, replaceAt_nest s s2 hvF] at ts
  exact ⟨⟨_, a, ts⟩, b, R.fx⟩

theorem xv_zero (cfg : Cfg) : XVs cfg 0 := by
  intro limit flt l x d0 F C B hn
  simp only [parseVariant]
  exact RX.exit B ((Fx.refl _ _).code (by simp)) (TS.refl _ _)

theorem xe_zero (cfg : Cfg) : XEs cfg 0 := by
  intro limit flt l x d0 F s h t C B hn
  simp only [parseElems]
  exact RX.exit B ((Fx.refl _ _).code (by simp)) (TS.refl _ _)

theorem xm_zero (cfg : Cfg) : XMs cfg 0 := by
  intro limit flt l x d0 F s h t C B hn
  simp only [parseMembers]
  exact RX.exit B ((Fx.refl _ _).code (by simp)) (TS.refl _ _)

theorem xv_succ (cfg : Cfg) (f : Nat) (ihE : XEs cfg f) (ihM : XMs cfg f) : XVs cfg (f+1) := by
  intro limit flt l x d0 F C B hn
  obtain ⟨w, hs⟩ := B.get_nil C
  have tsPlain : ∀ v, strOfV v = [] → TS x.d (replaceAt F l .nil) (x.d.set l v) (replaceAt F l .nil) := by
    intro v hv _ t
    rw [C.replace_nil] at t ⊢
    exact t.set_plain w C.loc hn hv
  simp only [parseVariant]
  have hs0 := skipSpaces_nm cfg (f+1) x.s
  split
  · rename_i s1 heq
    split
    · -- '['
      split
      · -- variant.toArray()
        have B' : Built d0 F l (x.d.set l (.arr x.d.null x.d.null)) .nil := B.set_coll C hn false
        have fx' : Fx x.d x.b (x.d.set l (.arr x.d.null x.d.null)) x.b .ok := Fx.set _ _ _ _
        have ts' := tsPlain (.arr x.d.null x.d.null) rfl
        split
        · exact RX.exit B' (fx'.code (by simp)) ts'
        · have hs1 := skipSpaces_nm cfg (f+1) (mv (cur s1).2)
          split
          · split
            · exact RX.exit B' fx' ts'
            · exact RX.step fx' ts' (ihE _ _ l _ d0 F .nil _ _ C B' (get_set_self _ _ _))
          · rename_i e s2 hne heq2
            rw [heq2] at hs1
            exact RX.exit B' (fx'.code hs1) ts'
      · -- the array is skipped
        split
        · exact RX.exit B ((Fx.refl _ _).code (by simp)) (TS.refl _ _)
        · exact RX.exit B ((Fx.refl _ _).code (skipElems_nm _ _ _ _)) (TS.refl _ _)
    · split
      · -- '{'
        split
        · -- variant.toObject()
          have B' : Built d0 F l (x.d.set l (.obj x.d.null x.d.null)) .nil := B.set_coll C hn true
          have fx' : Fx x.d x.b (x.d.set l (.obj x.d.null x.d.null)) x.b .ok := Fx.set _ _ _ _
          have ts' := tsPlain (.obj x.d.null x.d.null) rfl
          split
          · exact RX.exit B' (fx'.code (by simp)) ts'
          · have hs1 := skipSpaces_nm cfg (f+1) (mv (cur s1).2)
            split
            · split
              · exact RX.exit B' fx' ts'
              · exact RX.step fx' ts' (ihM _ _ l _ d0 F .nil _ _ C B' (get_set_self _ _ _))
            · rename_i e s2 hne heq2
              rw [heq2] at hs1
              exact RX.exit B' (fx'.code hs1) ts'
        · -- the object is skipped
          split
          · exact RX.exit B ((Fx.refl _ _).code (by simp)) (TS.refl _ _)
          · have hs1 := skipSpaces_nm cfg (f+1) (mv (cur s1).2)
            split
            · split
              · exact RX.exit B (Fx.refl _ _) (TS.refl _ _)
              · exact RX.exit B ((Fx.refl _ _).code (skipMembers_nm _ _ _ _)) (TS.refl _ _)
            · rename_i e s2 hne heq2
              rw [heq2] at hs1
              exact RX.exit B ((Fx.refl _ _).code hs1) (TS.refl _ _)
      · split
        · split
          · -- a string: through the builder, then saved and stored
            have hq := quoted_spec cfg (f+1) (cur s1).1 { s := mv (cur s1).2, d := x.d, b := x.b }
            split
            · rename_i bytes x1 heq2
              rw [heq2] at hq
              obtain ⟨tk, hok, hnm⟩ := hq
              have fx1 : Fx x.d x.b x1.d x1.b .ok := Fx.tok tk rfl rfl hok hnm
              have B1 : Built d0 F l x1.d .nil := B.pleq tk.bop.pleq
              have hn1 : x1.d.get l = .null := (tk.bop.pleq.get l).trans hn
              have sv := save_spec x1 bytes
              obtain ⟨w1, hs1'⟩ := B1.get_nil C
              refine RX.exit (B1.set_owned C hn1 sv) (fx1.trans (Fx.save_set sv (hok rfl) _ _)) ?_
              intro _ t
              rw [C.replace_nil] at t ⊢
              exact Tight.save_set bytes w1 hs1' C.loc hn1 (t.pleq tk.bop.pleq)
            · rename_i e bytes x1 hne heq2
              rw [heq2] at hq
              obtain ⟨tk, hok, hnm⟩ := hq
              exact RX.exit (B.pleq tk.bop.pleq) (Fx.tok tk rfl rfl hok hnm) (fun _ t => t.pleq tk.bop.pleq)
          · -- a skipped string
            exact RX.exit B ((Fx.refl _ _).code (skipQuoted_nm _ _ _)) (TS.refl _ _)
        · split
          · -- true
            split
            · exact RX.exit (B.set_plain C hn (v := .bool true) (fun h => h) rfl rfl)
                ((Fx.set _ _ _ _).code (skipKeyword_nm _ _)) (tsPlain (.bool true) rfl)
            · exact RX.exit B ((Fx.refl _ _).code (skipKeyword_nm _ _)) (TS.refl _ _)
          · split
            · -- false
              split
              · exact RX.exit (B.set_plain C hn (v := .bool false) (fun h => h) rfl rfl)
                  ((Fx.set _ _ _ _).code (skipKeyword_nm _ _)) (tsPlain (.bool false) rfl)
              · exact RX.exit B ((Fx.refl _ _).code (skipKeyword_nm _ _)) (TS.refl _ _)
            · split
              · -- null
                exact RX.exit B ((Fx.refl _ _).code (skipKeyword_nm _ _)) (TS.refl _ _)
              · split
                · exact RX.of_eq (x' := { s := (cur s1).2, d := x.d, b := x.b }) rfl rfl (numeric_x cfg C B hn)
                · exact RX.exit B (Fx.refl _ _) (TS.refl _ _)
  · rename_i e s1 hne heq
    rw [heq] at hs0
    exact RX.exit B ((Fx.refl _ _).code hs0) (TS.refl _ _)

/-- what follows an element: `]`, or `,` and the remaining elements -/
theorem xe_tail (cfg : Cfg) (f : Nat) (ihE : XEs cfg f) {limit : Nat} {ef : Flt} {l : Loc} {x x2 : S} {d0 : Doc}
    {F sin s2 : Forest} {h t : Nat} (C : Ctx d0 F l) (B2 : Built d0 F l x2.d s2) (hv2 : x2.d.get l = .arr h t)
    (fx02 : Fx x.d x.b x2.d x2.b .ok) (ts02 : TS x.d (replaceAt F l sin) x2.d (replaceAt F l s2)) :
    RX d0 F l x sin
      (match skipSpaces cfg (f+1) x2.s with
      | (.ok, s) =>
        if ((cur s).1 == 0x5D) = true then (.ok, { x2 with s := mv (cur s).2 })
        else if ((cur s).1 == 0x2C) = true then parseElems cfg f limit ef l { x2 with s := mv (cur s).2 }
        else (.invalid, { x2 with s := (cur s).2 })
      | (e, s) => (e, { x2 with s := s })) := by
  have hs1 := skipSpaces_nm cfg (f+1) x2.s
  split
  · rename_i s3 heq3
    split
    · exact RX.exit B2 fx02 ts02
    · split
      · exact RX.step (x1 := ⟨mv (cur s3).2, x2.d, x2.b⟩) fx02 ts02
          (ihE limit ef l ⟨mv (cur s3).2, x2.d, x2.b⟩ d0 F s2 _ _ C B2 hv2)
      · exact RX.exit B2 (fx02.code (by simp)) ts02
  · rename_i e s3 hne heq3
    rw [heq3] at hs1
    exact RX.exit B2 (fx02.code hs1) ts02

theorem xe_succ (cfg : Cfg) (f : Nat) (ihV : XVs cfg f) (ihE : XEs cfg f) : XEs cfg (f+1) := by
  intro limit ef l x d0 F s h t C B hv
  simp only [parseElems]
  cases ha : ef.allow with
  | true =>
    simp only [if_true]
    split
    · rename_i x2 heq
      split at heq
      · cases heq
      · rename_i id d1 heq1
        obtain ⟨B1, hgn, ⟨h', hgl⟩, hov, hnl, _, _, hbk, _⟩ := B.addElement_some C hv heq1
        have hloc : id ∈ (s.snoc none id).locs := by rw [Forest.locs_snoc]; simp
        have fx01 : Fx x.d x.b d1 x.b .ok := Fx.doc _ hnl hov hbk
        have ts01 : TS x.d (replaceAt F l s) d1 (replaceAt F l (s.snoc none id)) :=
          fun _ t => Tight.addElement C B hv heq1 t
        have sp := sub_parse_x ihV limit ef C (x := { s := x.s, d := d1, b := x.b }) B1 hloc hgn
        rw [heq] at sp
        obtain ⟨⟨s2, B2, ts12⟩, hg2, fx2⟩ := sp
        exact xe_tail cfg f ihE C B2 (hg2.trans hgl) (fx01.trans fx2) (ts01.trans ts12 fx2.ovs)
    · rename_i r hne
      split
      · rename_i d1 heq1
        obtain ⟨b1, ho, hnl⟩ := B.addElement_none C heq1
        exact RX.exit b1 (Fx.doc_fail _ hnl ho) (TS.of_ov ho)
      · rename_i id d1 heq1
        obtain ⟨B1, hgn, ⟨h', hgl⟩, hov, hnl, _, _, hbk, _⟩ := B.addElement_some C hv heq1
        have hloc : id ∈ (s.snoc none id).locs := by rw [Forest.locs_snoc]; simp
        have fx01 : Fx x.d x.b d1 x.b .ok := Fx.doc _ hnl hov hbk
        have ts01 : TS x.d (replaceAt F l s) d1 (replaceAt F l (s.snoc none id)) :=
          fun _ t => Tight.addElement C B hv heq1 t
        obtain ⟨⟨s2, B2, ts12⟩, _, fx2⟩ := sub_parse_x ihV limit ef C (x := { s := x.s, d := d1, b := x.b }) B1 hloc hgn
        exact ⟨⟨s2, B2, ts01.trans ts12 fx2.ovs⟩, fx01.trans fx2⟩
  | false =>
    simp only [Bool.false_eq_true, if_false]
    have hsk := skipVariant_nm cfg f limit x.s
    split
    · rename_i x2 heq
      simp only [Prod.mk.injEq] at heq
      obtain ⟨_, rfl⟩ := heq
      exact xe_tail cfg f ihE (x2 := { s := (skipVariant cfg f limit x.s).2, d := x.d, b := x.b }) C B hv (Fx.refl _ _)
        (TS.refl _ _)
    · exact RX.exit B ((Fx.refl _ _).code hsk) (TS.refl _ _)

/-- `object.getMember(key)` / `addMember`: `JDD.memberSlot_spec` with the tightness of the step -/
theorem memberSlot_x {d0 : Doc} {F : Forest} {l : Loc} {x : S} {s : Forest} {h t : Nat} (C : Ctx d0 F l)
    (B : Built d0 F l x.d s) (hv : x.d.get l = .obj h t) (hb : x.b.isSome = true) (key : List Byte) :
    ((memberSlot x l key).1 = none →
      (∃ s', Built d0 F l (memberSlot x l key).2.d s') ∧
      Fx x.d x.b (memberSlot x l key).2.d (memberSlot x l key).2.b .noMemory) ∧
    (∀ v, (memberSlot x l key).1 = some v →
      ∃ s', Built d0 F l (memberSlot x l key).2.d s' ∧ v ∈ s'.locs ∧
        (memberSlot x l key).2.d.get (.slot v) = .null ∧ (∃ h' t', (memberSlot x l key).2.d.get l = .obj h' t') ∧
        Fx x.d x.b (memberSlot x l key).2.d (memberSlot x l key).2.b .ok ∧
        (Tight x.d (replaceAt F l s) → Tight (memberSlot x l key).2.d (replaceAt F l s'))) := by
  unfold memberSlot
  cases hf : x.d.findKey l key with
  | some p =>
    obtain ⟨k, v⟩ := p
    simp only
    have hvl : v ∈ s.locs := by
      have := findKey_loc B.wf (C.loc' s) hv hf
      rw [C.lay] at this; exact this
    obtain ⟨b1, b2, b3, b4, b5, b6, b7, _⟩ := B.clear_member C hvl
    refine ⟨(fun e => by cases e), fun v' e => ?_⟩
    simp only [Option.some.injEq] at e
    subst e
    exact ⟨_, b1, b6, b2, ⟨h, t, b3.trans hv⟩, Fx.doc _ b5 b4 (fun hb => Or.inl (AllB_of_pools b7 hb)),
      fun t' => Tight.clear_member C B hvl t'⟩
  | none =>
    simp only
    have sv := save_spec x key
    obtain ⟨B', hp, hget⟩ := B.save C sv
    have hv' : (save x key).2.d.get l = .obj h t := (hget l).trans hv
    have fx1 : Fx x.d x.b (save x key).2.d (save x key).2.b .ok := Fx.save sv hb
    obtain ⟨m1, m2, m3, m4⟩ := B'.addMemberNode C hp hv'
    have tam := fun (v k0 : Nat) (d2 : Doc) => Tight.addMember (v := v) (k0 := k0) (d2 := d2) key C B hv
    generalize addMemberNode (save x key).2.d l (save x key).1 = r at m1 m2 m3 m4 tam
    obtain ⟨o, d2⟩ := r
    cases o with
    | none =>
      simp only
      obtain ⟨a1, a2⟩ := m1 rfl
      exact ⟨fun _ => ⟨⟨_, a1⟩, fx1.trans (Fx.doc_fail _ m3 a2)⟩, fun v e => by cases e⟩
    | some v =>
      simp only
      obtain ⟨k, a1, a2, ⟨h', a3⟩, a4, a5, a6, a7, a8, a9⟩ := m2 v rfl
      refine ⟨(fun e => by cases e), fun v' e => ?_⟩
      simp only [Option.some.injEq] at e
      subst e
      refine ⟨_, a1, ?_, a2, ⟨h', _, a3⟩, fx1.trans (Fx.doc _ m3 a4 m4), fun t' => ?_⟩
      · rw [Forest.locs_snoc]; simp
      · exact tam v k d2 rfl a1 a2 ⟨h', a3⟩ a5 a6 a7 a8 a9 t'

/-- what follows a member: `}`, or `,` and the remaining members -/
theorem xm_tail (cfg : Cfg) (f : Nat) (ihM : XMs cfg f) {limit : Nat} {flt : Flt} {l : Loc} {x x3 : S} {d0 : Doc}
    {F sin s3 : Forest} {h t : Nat} (C : Ctx d0 F l) (B3 : Built d0 F l x3.d s3) (hv3 : x3.d.get l = .obj h t)
    (fx03 : Fx x.d x.b x3.d x3.b .ok) (ts03 : TS x.d (replaceAt F l sin) x3.d (replaceAt F l s3)) :
    RX d0 F l x sin
      (match skipSpaces cfg (f+1) x3.s with
      | (.ok, s) =>
        if ((cur s).1 == 0x7D) = true then (.ok, { x3 with s := mv (cur s).2 })
        else if ((cur s).1 == 0x2C) = true then
          match skipSpaces cfg (f+1) (mv (cur s).2) with
          | (.ok, s) => parseMembers cfg f limit flt l { x3 with s := s }
          | (e, s) => (e, { x3 with s := s })
        else (.invalid, { x3 with s := (cur s).2 })
      | (e, s) => (e, { x3 with s := s })) := by
  have hs3 := skipSpaces_nm cfg (f+1) x3.s
  split
  · rename_i s4 heq5
    split
    · exact RX.exit B3 fx03 ts03
    · split
      · have hs5 := skipSpaces_nm cfg (f+1) (mv (cur s4).2)
        split
        · rename_i s5 heq6
          exact RX.step (x1 := ⟨s5, x3.d, x3.b⟩) fx03 ts03 (ihM limit flt l ⟨s5, x3.d, x3.b⟩ d0 F s3 _ _ C B3 hv3)
        · rename_i e s5 hne heq6
          rw [heq6] at hs5
          exact RX.exit B3 (fx03.code hs5) ts03
      · exact RX.exit B3 (fx03.code (by simp)) ts03
  · rename_i e s4 hne heq5
    rw [heq5] at hs3
    exact RX.exit B3 (fx03.code hs3) ts03

theorem xm_succ (cfg : Cfg) (f : Nat) (ihV : XVs cfg f) (ihM : XMs cfg f) : XMs cfg (f+1) := by
  intro limit flt l x d0 F s h t C B hv
  simp only [parseMembers]
  -- the key, through the builder (kept or not)
  have hkey : ∀ (kr : Code × List Byte × S), kr = (if ((cur x.s).fst == 34 || (cur x.s).fst == 39) = true then
        quoted cfg (f + 1) (cur x.s).fst { s := mv (cur x.s).snd, d := x.d, b := x.b }
      else
        if JD.inUnquoted (cur x.s).fst = true then unquoted cfg (f + 1) { s := (cur x.s).snd, d := x.d, b := x.b }
        else (Code.invalid, [], startString { s := (cur x.s).snd, d := x.d, b := x.b })) →
      Fx x.d x.b kr.2.2.d kr.2.2.b kr.1 ∧ PlEq x.d kr.2.2.d ∧ (kr.1 = .ok → kr.2.2.b.isSome = true) := by
    intro kr hkr
    split at hkr
    · obtain ⟨tk, hok, hnm⟩ := quoted_spec cfg (f+1) (cur x.s).1 { s := mv (cur x.s).2, d := x.d, b := x.b }
      rw [hkr]
      exact ⟨Fx.tok tk rfl rfl hok hnm, tk.bop.pleq, hok⟩
    · split at hkr
      · obtain ⟨tk, hok, hnm, _⟩ := unquoted_spec cfg (f+1) { s := (cur x.s).2, d := x.d, b := x.b }
        rw [hkr]
        exact ⟨Fx.tok tk rfl rfl hok hnm, tk.bop.pleq, hok⟩
      · obtain ⟨bo, _, _⟩ := startString_spec { s := (cur x.s).2, d := x.d, b := x.b }
        rw [hkr]
        exact ⟨⟨bo.bal, bo.ovs, (fun e => by cases e), (fun e => by cases e), Blk.of_pleq bo.pleq.pools bo.ovs⟩, bo.pleq,
          fun e => by cases e⟩
  have hk := hkey _ rfl
  generalize (if ((cur x.s).fst == 34 || (cur x.s).fst == 39) = true then
        quoted cfg (f + 1) (cur x.s).fst { s := mv (cur x.s).snd, d := x.d, b := x.b }
      else
        if JD.inUnquoted (cur x.s).fst = true then unquoted cfg (f + 1) { s := (cur x.s).snd, d := x.d, b := x.b }
        else (Code.invalid, [], startString { s := (cur x.s).snd, d := x.d, b := x.b })) = kr at hk ⊢
  clear hkey
  obtain ⟨kc, key, x1⟩ := kr
  obtain ⟨fx1, hpl, hb1⟩ := hk
  simp only at fx1 hpl hb1
  have B1 : Built d0 F l x1.d s := B.pleq hpl
  have ts1 : TS x.d (replaceAt F l s) x1.d (replaceAt F l s) := fun _ t => t.pleq hpl
  cases kc <;> simp only <;> try exact RX.exit B1 fx1 ts1
  -- the key was read
  have hb1 := hb1 rfl
  have hv1 : x1.d.get l = .obj h t := (hpl.get l).trans hv
  have hs1 := skipSpaces_nm cfg (f+1) x1.s
  split
  · rename_i s2 heq2
    split
    · exact RX.exit B1 (fx1.code (by simp)) ts1
    · cases ha : (flt.subKey key).allow with
      | true =>
        simp only [if_true]
        -- the value slot of the member
        have hsl := memberSlot_x C (x := ⟨mv (cur s2).2, x1.d, x1.b⟩) B1 hv1 hb1 key
        change RX d0 F l x s
          (match (match memberSlot ⟨mv (cur s2).2, x1.d, x1.b⟩ l key with
              | (none, x) => (Code.noMemory, x)
              | (some v, x) => parseVariant cfg f limit (flt.subKey key) (.slot v) x) with
            | (.ok, x) => _
            | r => r)
        generalize memberSlot ⟨mv (cur s2).2, x1.d, x1.b⟩ l key = ms at hsl ⊢
        obtain ⟨o, x2⟩ := ms
        cases o with
        | none =>
          simp only
          obtain ⟨⟨s', b'⟩, fx2⟩ := hsl.1 rfl
          exact RX.exit b' (fx1.trans fx2) (TS.of_ov (fx2.nomem rfl))
        | some v =>
          simp only
          obtain ⟨s', b', hvl, hnull, ⟨h', t', hobj⟩, fx2, tt2⟩ := hsl.2 v rfl
          have fx02 : Fx x.d x.b x2.d x2.b .ok := fx1.trans fx2
          have ts02 : TS x.d (replaceAt F l s) x2.d (replaceAt F l s') := ts1.trans (fun _ t => tt2 t) fx2.ovs
          have sp := sub_parse_x ihV limit (flt.subKey key) C (x := x2) b' hvl hnull
          split
          · rename_i x3 heq4
            rw [heq4] at sp
            obtain ⟨⟨s3, B3, ts23⟩, hg3, fx3⟩ := sp
            exact xm_tail cfg f ihM C B3 (hg3.trans hobj) (fx02.trans fx3) (ts02.trans ts23 fx3.ovs)
          · rename_i r hne
            obtain ⟨⟨s3, B3, ts23⟩, _, fx3⟩ := sp
            exact ⟨⟨s3, B3, ts02.trans ts23 fx3.ovs⟩, fx02.trans fx3⟩
      | false =>
        simp only [Bool.false_eq_true, if_false]
        have hsk := skipVariant_nm cfg f limit (mv (cur s2).2)
        split
        · rename_i x3 heq
          simp only [Prod.mk.injEq] at heq
          obtain ⟨_, rfl⟩ := heq
          exact xm_tail cfg f ihM (x3 := { s := (skipVariant cfg f limit (mv (cur s2).2)).2, d := x1.d, b := x1.b })
            C B1 hv1 fx1 ts1
        · exact RX.exit B1 (fx1.code hsk) ts1
  · rename_i e s2 hne heq2
    rw [heq2] at hs1
    exact RX.exit B1 (fx1.code hs1) ts1

/-- the strengthened invariant through the whole mutual block, for every fuel and every filter -/
theorem x_all (cfg : Cfg) : ∀ fuel, XVs cfg fuel ∧ XEs cfg fuel ∧ XMs cfg fuel := by
  intro fuel
  induction fuel with
  | zero => exact ⟨xv_zero cfg, xe_zero cfg, xm_zero cfg⟩
  | succ f ih =>
    obtain ⟨ihV, ihE, ihM⟩ := ih
    exact ⟨xv_succ cfg f ihE ihM, xe_succ cfg f ihV ihE, xm_succ cfg f ihV ihM⟩

/-! ### `run` -/

/-- the cleared document owns nothing: it is tight -/
theorem clearAll_tight (d : Doc) : Tight d.clearAll .nil := by
  obtain ⟨_, _, hpools, _, _, hstr, _⟩ := clearAll_spec d
  refine ⟨(fun n hn => by rw [hstr] at hn; cases hn), fun i hi => ?_⟩
  obtain ⟨⟨j, p, hj, _⟩, _⟩ := hi
  rw [hpools] at hj
  simp at hj

/-- shrinking the pools is not seen -/
theorem Tight.shrink {d : Doc} {G : Forest} (hp : PL.Inv d.g d.pl) (t : Tight d G) :
    Tight { d with pl := PL.shrink d.g d.pl } G := by
  refine ⟨t.exact, fun i hi => ?_⟩
  exact t.noleak i (((PL.shrink_ok hp).2.1 i).1 hi)

/-- (a)+(c) with the well-formedness, for one and the same layout: when no allocation failed, the document `run` returns is
    well-formed, its reference counts are exact and none of its slots is leaked -/
theorem run_tight (cfg : Cfg) (limit : Nat) (flt : Flt) {d : Doc} (input : List Byte) (gok : PL.GeoOK d.g)
    (hp : PL.Inv d.g d.pl) (hov : (run cfg limit flt d input).2.1.overflowed = false) :
    ∃ F', WFG (run cfg limit flt d input).2.1 F' ∧
      StrOK (run cfg limit flt d input).2.1 ((run cfg limit flt d input).2.1.strRefs F') ∧
      Tight (run cfg limit flt d input).2.1 F' := by
  obtain ⟨w, hs, hg, _, hr⟩ := clearAll_wf gok hp
  have C : Ctx d.clearAll .nil .root := ⟨List.nodup_nil, trivial, rfl, by rw [hg]; exact gok⟩
  have R := (x_all cfg (2 * input.length + 4)).1 limit flt .root (start d input) d.clearAll .nil C (built_start w hs C) hr
  obtain ⟨s, B, ts⟩ := R.built
  rw [run_overflowed] at hov
  have t1 : Tight (stop cfg limit flt d input).2.d (replaceAt .nil .root s) := ts hov (by rw [C.replace_nil]; exact clearAll_tight d)
  obtain ⟨w1, s1, _⟩ := (preShrink_pleq cfg limit flt d input).1.wfg B.wf B.str
  have t2 := t1.pleq (preShrink_pleq cfg limit flt d input).1
  rw [run_eq]
  obtain ⟨w2, s2⟩ := shrink_wf w1 s1
  exact ⟨_, w2, s2, t2.shrink w1.pool⟩

/-- (a) runs without allocation failure: every stored string's reference count is the number of references to it, and ≥ 1 -/
theorem run_exact (cfg : Cfg) (limit : Nat) (flt : Flt) {d : Doc} (input : List Byte) (gok : PL.GeoOK d.g)
    (hp : PL.Inv d.g d.pl) (hov : (run cfg limit flt d input).2.1.overflowed = false) :
    ∃ F', WFG (run cfg limit flt d input).2.1 F' ∧
      StrOK (run cfg limit flt d input).2.1 ((run cfg limit flt d input).2.1.strRefs F') ∧
      Exact (run cfg limit flt d input).2.1 ((run cfg limit flt d input).2.1.strRefs F') := by
  obtain ⟨F', a, b, c⟩ := run_tight cfg limit flt input gok hp hov
  exact ⟨F', a, b, c.exact⟩

/-- (c) runs without allocation failure: no leaked slot - every slot that is live in the pools is a slot of the layout of the
    document, or an extension slot (64-bit integer / double payload) of one of its values -/
theorem run_no_leak (cfg : Cfg) (limit : Nat) (flt : Flt) {d : Doc} (input : List Byte) (gok : PL.GeoOK d.g)
    (hp : PL.Inv d.g d.pl) (hov : (run cfg limit flt d input).2.1.overflowed = false) :
    ∃ F', WFG (run cfg limit flt d input).2.1 F' ∧
      ∀ i, PL.live (run cfg limit flt d input).2.1.g (run cfg limit flt d input).2.1.pl i →
        i ∈ F'.ids ∨ ∃ l0 ∈ holders F', i ∈ extOfV ((run cfg limit flt d input).2.1.get l0) := by
  obtain ⟨F', a, _, c⟩ := run_tight cfg limit flt input gok hp hov
  exact ⟨F', a, c.noleak⟩

/-- a consequence of (a): a string node exists exactly when some value or key of the document references it -/
theorem run_node_iff_referenced (cfg : Cfg) (limit : Nat) (flt : Flt) {d : Doc} (input : List Byte) (gok : PL.GeoOK d.g)
    (hp : PL.Inv d.g d.pl) (hov : (run cfg limit flt d input).2.1.overflowed = false) :
    ∃ F', WFG (run cfg limit flt d input).2.1 F' ∧ ∀ m,
      (∃ n ∈ (run cfg limit flt d input).2.1.strings, n.id = m) ↔ m ∈ (run cfg limit flt d input).2.1.strRefs F' := by
  obtain ⟨F', a, b, c⟩ := run_tight cfg limit flt input gok hp hov
  exact ⟨F', a, fun m => node_iff_referenced b c.exact m⟩

end JDDF
