/- The invariant of AJ/Lemmas/JddOps.lean pushed through the FILTERED slot-level deserializer
   `JDDF.parseVariant / parseElems / parseMembers` (AJ/Model/JDDF.lean) and through `JDDF.run`, for every filter: the same
   development as AJ/Lemmas/JddInv.lean (whose operation-level lemmas, `Res`, `Fx`, `numeric_res`, `memberSlot_spec`,
   `sub_parse`-style nesting are re-used as they are), with the extra branches in which a value is skipped on the reader only.
   Used by AJ/Props/C03FDoc.lean and AJ/Props/C05FDeser.lean. -/
import AJ.Model.JDDF
import AJ.Lemmas.JddInv
namespace JDDF
open DL JDD
open JD (Byte Code Cfg Flt cur mv skipSpaces skipKeyword skipVariant skipElems skipMembers skipQuoted skipNumeric)

/-! ## The skipping routines never report NoMemory -/

theorem skipQuoted_nm (stop : Byte) : ∀ fuel s, (skipQuoted stop fuel s).1 ≠ .noMemory := by
  intro fuel
  induction fuel with
  | zero => intro s; simp [skipQuoted]
  | succ f ih =>
    intro s
    simp only [skipQuoted]
    split
    · simp
    · split
      · simp
      · split
        · split
          · exact ih _
          · exact ih _
        · exact ih _

theorem skip_nm (cfg : Cfg) : ∀ fuel,
    (∀ limit s, (skipVariant cfg fuel limit s).1 ≠ .noMemory) ∧
    (∀ limit s, (skipElems cfg fuel limit s).1 ≠ .noMemory) ∧
    (∀ limit s, (skipMembers cfg fuel limit s).1 ≠ .noMemory) := by
  intro fuel
  induction fuel with
  | zero =>
    refine ⟨?_, ?_, ?_⟩ <;> intro limit s
    · simp [skipVariant]
    · simp [skipElems]
    · simp [skipMembers]
  | succ f ih =>
    obtain ⟨ihV, ihE, ihM⟩ := ih
    refine ⟨?_, ?_, ?_⟩
    · intro limit s
      simp only [skipVariant]
      have hs0 := skipSpaces_nm cfg (f+1) s
      split
      · rename_i s1 heq
        split
        · split
          · simp
          · exact ihE _ _
        · split
          · split
            · simp
            · have hs1 := skipSpaces_nm cfg (f+1) (mv (cur s1).2)
              split
              · split
                · simp
                · exact ihM _ _
              · exact hs1
          · split
            · exact skipQuoted_nm _ _ _
            · split
              · exact skipKeyword_nm _ _
              · split
                · exact skipKeyword_nm _ _
                · split
                  · exact skipKeyword_nm _ _
                  · simp
      · exact hs0
    · intro limit s
      simp only [skipElems]
      have hv := ihV limit s
      split
      · rename_i s1 heq
        have hs1 := skipSpaces_nm cfg (f+1) s1
        split
        · split
          · simp
          · split
            · exact ihE _ _
            · simp
        · exact hs1
      · exact hv
    · intro limit s
      simp only [skipMembers]
      have hk : ∀ (kr : Code × JD.St), kr = (if ((cur s).1 == 34 || (cur s).1 == 39) = true then
            skipQuoted (cur s).1 (f + 1) (mv (cur s).2) else (Code.ok, JD.skipUnquoted (f + 1) (cur s).2)) →
          kr.1 ≠ .noMemory := by
        intro kr hkr
        split at hkr
        · rw [hkr]; exact skipQuoted_nm _ _ _
        · rw [hkr]; simp
      have hk' := hk _ rfl
      generalize (if ((cur s).1 == 34 || (cur s).1 == 39) = true then
            skipQuoted (cur s).1 (f + 1) (mv (cur s).2) else (Code.ok, JD.skipUnquoted (f + 1) (cur s).2)) = kr at hk' ⊢
      clear hk
      obtain ⟨kc, s1⟩ := kr
      simp only at hk' ⊢
      split
      · exact hk'
      · have hs1 := skipSpaces_nm cfg (f+1) s1
        split
        · rename_i s2 heq2
          split
          · simp
          · have hv := ihV limit (mv (cur s2).2)
            split
            · rename_i s3 heq3
              have hs3 := skipSpaces_nm cfg (f+1) s3
              split
              · rename_i s4 heq4
                split
                · simp
                · split
                  · have hs5 := skipSpaces_nm cfg (f+1) (mv (cur s4).2)
                    split
                    · exact ihM _ _
                    · exact hs5
                  · simp
              · exact hs3
            · exact hv
        · exact hs1

theorem skipVariant_nm (cfg : Cfg) (fuel limit : Nat) (s : JD.St) : (skipVariant cfg fuel limit s).1 ≠ .noMemory :=
  (skip_nm cfg fuel).1 limit s
theorem skipElems_nm (cfg : Cfg) (fuel limit : Nat) (s : JD.St) : (skipElems cfg fuel limit s).1 ≠ .noMemory :=
  (skip_nm cfg fuel).2.1 limit s
theorem skipMembers_nm (cfg : Cfg) (fuel limit : Nat) (s : JD.St) : (skipMembers cfg fuel limit s).1 ≠ .noMemory :=
  (skip_nm cfg fuel).2.2 limit s

/-! ## The statements, by fuel (for every filter) -/

def PVs (cfg : Cfg) (fuel : Nat) : Prop := ∀ (limit : Nat) (flt : Flt) (l : Loc) (x : S) (d0 : Doc) (F : Forest),
  Ctx d0 F l → Built d0 F l x.d .nil → x.d.get l = .null → Res d0 F l x (parseVariant cfg fuel limit flt l x)

def PEs (cfg : Cfg) (fuel : Nat) : Prop := ∀ (limit : Nat) (flt : Flt) (l : Loc) (x : S) (d0 : Doc) (F s : Forest) (h t : Nat),
  Ctx d0 F l → Built d0 F l x.d s → x.d.get l = .arr h t → Res d0 F l x (parseElems cfg fuel limit flt l x)

def PMs (cfg : Cfg) (fuel : Nat) : Prop := ∀ (limit : Nat) (flt : Flt) (l : Loc) (x : S) (d0 : Doc) (F s : Forest) (h t : Nat),
  Ctx d0 F l → Built d0 F l x.d s → x.d.get l = .obj h t → Res d0 F l x (parseMembers cfg fuel limit flt l x)

/-- parsing into the fresh slot `v` of the collection being built at `l` -/
theorem sub_parse {cfg : Cfg} {f : Nat} (ihV : PVs cfg f) {d0 : Doc} {F : Forest} {l : Loc} {x : S} {s : Forest}
    {v : Nat} (limit : Nat) (flt : Flt) (C : Ctx d0 F l) (B : Built d0 F l x.d s) (hv : v ∈ s.locs)
    (hn : x.d.get (.slot v) = .null) :
    (∃ s', Built d0 F l (parseVariant cfg f limit flt (.slot v) x).2.d s') ∧
    (parseVariant cfg f limit flt (.slot v) x).2.d.get l = x.d.get l ∧
    Fx x.d x.b (parseVariant cfg f limit flt (.slot v) x).2.d (parseVariant cfg f limit flt (.slot v) x).2.b
      (parseVariant cfg f limit flt (.slot v) x).1 := by
  have C1 := B.ctx_in C hv hn
  have R := ihV limit flt (.slot v) x x.d (replaceAt F l s) C1 (built_start B.wf B.str C1) hn
  obtain ⟨s2, B2⟩ := R.built
  obtain ⟨a, b⟩ := B.nest C hv B2
  exact ⟨⟨_, a⟩, b, R.fx⟩

theorem pv_zero (cfg : Cfg) : PVs cfg 0 := by
  intro limit flt l x d0 F C B hn
  simp only [parseVariant]
  exact Res.exit B ((Fx.refl _ _).code (by simp))

theorem pe_zero (cfg : Cfg) : PEs cfg 0 := by
  intro limit flt l x d0 F s h t C B hn
  simp only [parseElems]
  exact Res.exit B ((Fx.refl _ _).code (by simp))

theorem pm_zero (cfg : Cfg) : PMs cfg 0 := by
  intro limit flt l x d0 F s h t C B hn
  simp only [parseMembers]
  exact Res.exit B ((Fx.refl _ _).code (by simp))

theorem pv_succ (cfg : Cfg) (f : Nat) (ihE : PEs cfg f) (ihM : PMs cfg f) : PVs cfg (f+1) := by
  intro limit flt l x d0 F C B hn
  simp only [parseVariant]
  have hs0 := skipSpaces_nm cfg (f+1) x.s
  split
  · rename_i s1 heq
    split
    · -- '['
      split
      · -- variant.toArray()
        have B' : Built d0 F l (x.d.set l (.arr x.d.null x.d.null)) .nil := B.set_coll C hn false
        have fx' : Fx x.d x.b (x.d.set l (.arr x.d.null x.d.null)) x.b .ok := Fx.set _ _ _ _
        split
        · exact Res.exit B' (fx'.code (by simp))
        · have hs1 := skipSpaces_nm cfg (f+1) (mv (cur s1).2)
          split
          · split
            · exact Res.exit B' fx'
            · exact Res.step fx' (ihE _ _ l _ d0 F .nil _ _ C B' (get_set_self _ _ _))
          · rename_i e s2 hne heq2
            rw [heq2] at hs1
            exact Res.exit B' (fx'.code hs1)
      · -- the array is skipped
        split
        · exact Res.exit B ((Fx.refl _ _).code (by simp))
        · exact Res.exit B ((Fx.refl _ _).code (skipElems_nm _ _ _ _))
    · split
      · -- '{'
        split
        · -- variant.toObject()
          have B' : Built d0 F l (x.d.set l (.obj x.d.null x.d.null)) .nil := B.set_coll C hn true
          have fx' : Fx x.d x.b (x.d.set l (.obj x.d.null x.d.null)) x.b .ok := Fx.set _ _ _ _
          split
          · exact Res.exit B' (fx'.code (by simp))
          · have hs1 := skipSpaces_nm cfg (f+1) (mv (cur s1).2)
            split
            · split
              · exact Res.exit B' fx'
              · exact Res.step fx' (ihM _ _ l _ d0 F .nil _ _ C B' (get_set_self _ _ _))
            · rename_i e s2 hne heq2
              rw [heq2] at hs1
              exact Res.exit B' (fx'.code hs1)
        · -- the object is skipped
          split
          · exact Res.exit B ((Fx.refl _ _).code (by simp))
          · have hs1 := skipSpaces_nm cfg (f+1) (mv (cur s1).2)
            split
            · split
              · exact Res.exit B (Fx.refl _ _)
              · exact Res.exit B ((Fx.refl _ _).code (skipMembers_nm _ _ _ _))
            · rename_i e s2 hne heq2
              rw [heq2] at hs1
              exact Res.exit B ((Fx.refl _ _).code hs1)
      · split
        · split
          · -- a string: through the builder, then saved and stored
            have hq := quoted_spec cfg (f+1) (cur s1).1 { s := mv (cur s1).2, d := x.d, b := x.b }
            split
            · rename_i bytes x1 heq2
              rw [heq2] at hq
              obtain ⟨tk, hok, hnm⟩ := hq
              have fx1 : Fx x.d x.b x1.d x1.b .ok := Fx.tok tk rfl rfl hok hnm
              have B1 : Built d0 F l x1.d .nil := B.pleq tk.bop.pleq
              have hn1 : x1.d.get l = .null := (tk.bop.pleq.get l).trans hn
              have sv := save_spec x1 bytes
              exact Res.exit (B1.set_owned C hn1 sv) (fx1.trans (Fx.save_set sv (hok rfl) _ _))
            · rename_i e bytes x1 hne heq2
              rw [heq2] at hq
              obtain ⟨tk, hok, hnm⟩ := hq
              exact Res.exit (B.pleq tk.bop.pleq) (Fx.tok tk rfl rfl hok hnm)
          · -- a skipped string
            exact Res.exit B ((Fx.refl _ _).code (skipQuoted_nm _ _ _))
        · split
          · -- true
            split
            · exact Res.exit (B.set_plain C hn (v := .bool true) (fun h => h) rfl rfl)
                ((Fx.set _ _ _ _).code (skipKeyword_nm _ _))
            · exact Res.exit B ((Fx.refl _ _).code (skipKeyword_nm _ _))
          · split
            · -- false
              split
              · exact Res.exit (B.set_plain C hn (v := .bool false) (fun h => h) rfl rfl)
                  ((Fx.set _ _ _ _).code (skipKeyword_nm _ _))
              · exact Res.exit B ((Fx.refl _ _).code (skipKeyword_nm _ _))
            · split
              · -- null
                exact Res.exit B ((Fx.refl _ _).code (skipKeyword_nm _ _))
              · split
                · exact Res.of_eq (x' := { s := (cur s1).2, d := x.d, b := x.b }) rfl rfl (numeric_res cfg C B hn)
                · exact Res.exit B (Fx.refl _ _)
  · rename_i e s1 hne heq
    rw [heq] at hs0
    exact Res.exit B ((Fx.refl _ _).code hs0)

/-- what follows an element: `]`, or `,` and the remaining elements -/
theorem pe_tail (cfg : Cfg) (f : Nat) (ihE : PEs cfg f) {limit : Nat} {ef : Flt} {l : Loc} {x x2 : S} {d0 : Doc}
    {F s2 : Forest} {h t : Nat} (C : Ctx d0 F l) (B2 : Built d0 F l x2.d s2) (hv2 : x2.d.get l = .arr h t)
    (fx02 : Fx x.d x.b x2.d x2.b .ok) :
    Res d0 F l x
      (match skipSpaces cfg (f+1) x2.s with
      | (.ok, s) =>
        if ((cur s).1 == 0x5D) = true then (.ok, { x2 with s := mv (cur s).2 })
        else if ((cur s).1 == 0x2C) = true then parseElems cfg f limit ef l { x2 with s := mv (cur s).2 }
        else (.invalid, { x2 with s := (cur s).2 })
      | (e, s) => (e, { x2 with s := s })) := by
  have hs1 := skipSpaces_nm cfg (f+1) x2.s
  split
  · rename_i s3 heq3
    split
    · exact Res.exit B2 fx02
    · split
      · exact Res.step (x1 := ⟨mv (cur s3).2, x2.d, x2.b⟩) fx02
          (ihE limit ef l ⟨mv (cur s3).2, x2.d, x2.b⟩ d0 F s2 _ _ C B2 hv2)
      · exact Res.exit B2 (fx02.code (by simp))
  · rename_i e s3 hne heq3
    rw [heq3] at hs1
    exact Res.exit B2 (fx02.code hs1)

theorem pe_succ (cfg : Cfg) (f : Nat) (ihV : PVs cfg f) (ihE : PEs cfg f) : PEs cfg (f+1) := by
  intro limit ef l x d0 F s h t C B hv
  simp only [parseElems]
  cases ha : ef.allow with
  | true =>
    simp only [if_true]
    split
    · rename_i x2 heq
      split at heq
      · cases heq
      · rename_i id d1 heq1
        obtain ⟨B1, hgn, ⟨h', hgl⟩, hov, hnl, _, _, hbk, _⟩ := B.addElement_some C hv heq1
        have hloc : id ∈ (s.snoc none id).locs := by rw [Forest.locs_snoc]; simp
        have fx01 : Fx x.d x.b d1 x.b .ok := Fx.doc _ hnl hov hbk
        have sp := sub_parse ihV limit ef C (x := { s := x.s, d := d1, b := x.b }) B1 hloc hgn
        rw [heq] at sp
        obtain ⟨⟨s2, B2⟩, hg2, fx2⟩ := sp
        exact pe_tail cfg f ihE C B2 (hg2.trans hgl) (fx01.trans fx2)
    · rename_i r hne
      split
      · rename_i d1 heq1
        obtain ⟨b1, ho, hnl⟩ := B.addElement_none C heq1
        exact Res.exit b1 (Fx.doc_fail _ hnl ho)
      · rename_i id d1 heq1
        obtain ⟨B1, hgn, ⟨h', hgl⟩, hov, hnl, _, _, hbk, _⟩ := B.addElement_some C hv heq1
        have hloc : id ∈ (s.snoc none id).locs := by rw [Forest.locs_snoc]; simp
        have fx01 : Fx x.d x.b d1 x.b .ok := Fx.doc _ hnl hov hbk
        obtain ⟨⟨s2, B2⟩, _, fx2⟩ := sub_parse ihV limit ef C (x := { s := x.s, d := d1, b := x.b }) B1 hloc hgn
        exact ⟨⟨s2, B2⟩, fx01.trans fx2⟩
  | false =>
    simp only [Bool.false_eq_true, if_false]
    have hsk := skipVariant_nm cfg f limit x.s
    split
    · rename_i x2 heq
      simp only [Prod.mk.injEq] at heq
      obtain ⟨_, rfl⟩ := heq
      exact pe_tail cfg f ihE (x2 := { s := (skipVariant cfg f limit x.s).2, d := x.d, b := x.b }) C B hv (Fx.refl _ _)
    · exact Res.exit B ((Fx.refl _ _).code hsk)

/-- what follows a member: `}`, or `,` and the remaining members -/
theorem pm_tail (cfg : Cfg) (f : Nat) (ihM : PMs cfg f) {limit : Nat} {flt : Flt} {l : Loc} {x x3 : S} {d0 : Doc}
    {F s3 : Forest} {h t : Nat} (C : Ctx d0 F l) (B3 : Built d0 F l x3.d s3) (hv3 : x3.d.get l = .obj h t)
    (fx03 : Fx x.d x.b x3.d x3.b .ok) :
    Res d0 F l x
      (match skipSpaces cfg (f+1) x3.s with
      | (.ok, s) =>
        if ((cur s).1 == 0x7D) = true then (.ok, { x3 with s := mv (cur s).2 })
        else if ((cur s).1 == 0x2C) = true then
          match skipSpaces cfg (f+1) (mv (cur s).2) with
          | (.ok, s) => parseMembers cfg f limit flt l { x3 with s := s }
          | (e, s) => (e, { x3 with s := s })
        else (.invalid, { x3 with s := (cur s).2 })
      | (e, s) => (e, { x3 with s := s })) := by
  have hs3 := skipSpaces_nm cfg (f+1) x3.s
  split
  · rename_i s4 heq5
    split
    · exact Res.exit B3 fx03
    · split
      · have hs5 := skipSpaces_nm cfg (f+1) (mv (cur s4).2)
        split
        · rename_i s5 heq6
          exact Res.step (x1 := ⟨s5, x3.d, x3.b⟩) fx03 (ihM limit flt l ⟨s5, x3.d, x3.b⟩ d0 F s3 _ _ C B3 hv3)
        · rename_i e s5 hne heq6
          rw [heq6] at hs5
          exact Res.exit B3 (fx03.code hs5)
      · exact Res.exit B3 (fx03.code (by simp))
  · rename_i e s4 hne heq5
    rw [heq5] at hs3
    exact Res.exit B3 (fx03.code hs3)

theorem pm_succ (cfg : Cfg) (f : Nat) (ihV : PVs cfg f) (ihM : PMs cfg f) : PMs cfg (f+1) := by
  intro limit flt l x d0 F s h t C B hv
  simp only [parseMembers]
  -- the key, through the builder (kept or not)
  have hkey : ∀ (kr : Code × List Byte × S), kr = (if ((cur x.s).fst == 34 || (cur x.s).fst == 39) = true then
        quoted cfg (f + 1) (cur x.s).fst { s := mv (cur x.s).snd, d := x.d, b := x.b }
      else
        if JD.inUnquoted (cur x.s).fst = true then unquoted cfg (f + 1) { s := (cur x.s).snd, d := x.d, b := x.b }
        else (Code.invalid, [], startString { s := (cur x.s).snd, d := x.d, b := x.b })) →
      Fx x.d x.b kr.2.2.d kr.2.2.b kr.1 ∧ PlEq x.d kr.2.2.d ∧ (kr.1 = .ok → kr.2.2.b.isSome = true) := by
    intro kr hkr
    split at hkr
    · obtain ⟨tk, hok, hnm⟩ := quoted_spec cfg (f+1) (cur x.s).1 { s := mv (cur x.s).2, d := x.d, b := x.b }
      rw [hkr]
      exact ⟨Fx.tok tk rfl rfl hok hnm, tk.bop.pleq, hok⟩
    · split at hkr
      · obtain ⟨tk, hok, hnm, _⟩ := unquoted_spec cfg (f+1) { s := (cur x.s).2, d := x.d, b := x.b }
        rw [hkr]
        exact ⟨Fx.tok tk rfl rfl hok hnm, tk.bop.pleq, hok⟩
      · obtain ⟨bo, _, _⟩ := startString_spec { s := (cur x.s).2, d := x.d, b := x.b }
        rw [hkr]
        exact ⟨⟨bo.bal, bo.ovs, (fun e => by cases e), (fun e => by cases e), Blk.of_pleq bo.pleq.pools bo.ovs⟩, bo.pleq,
          fun e => by cases e⟩
  have hk := hkey _ rfl
  generalize (if ((cur x.s).fst == 34 || (cur x.s).fst == 39) = true then
        quoted cfg (f + 1) (cur x.s).fst { s := mv (cur x.s).snd, d := x.d, b := x.b }
      else
        if JD.inUnquoted (cur x.s).fst = true then unquoted cfg (f + 1) { s := (cur x.s).snd, d := x.d, b := x.b }
        else (Code.invalid, [], startString { s := (cur x.s).snd, d := x.d, b := x.b })) = kr at hk ⊢
  clear hkey
  obtain ⟨kc, key, x1⟩ := kr
  obtain ⟨fx1, hpl, hb1⟩ := hk
  simp only at fx1 hpl hb1
  have B1 : Built d0 F l x1.d s := B.pleq hpl
  cases kc <;> simp only <;> try exact Res.exit B1 fx1
  -- the key was read
  have hb1 := hb1 rfl
  have hv1 : x1.d.get l = .obj h t := (hpl.get l).trans hv
  have hs1 := skipSpaces_nm cfg (f+1) x1.s
  split
  · rename_i s2 heq2
    split
    · exact Res.exit B1 (fx1.code (by simp))
    · cases ha : (flt.subKey key).allow with
      | true =>
        simp only [if_true]
        -- the value slot of the member
        have hsl := memberSlot_spec C (x := ⟨mv (cur s2).2, x1.d, x1.b⟩) B1 hv1 hb1 key
        change Res d0 F l x
          (match (match memberSlot ⟨mv (cur s2).2, x1.d, x1.b⟩ l key with
              | (none, x) => (Code.noMemory, x)
              | (some v, x) => parseVariant cfg f limit (flt.subKey key) (.slot v) x) with
            | (.ok, x) => _
            | r => r)
        generalize memberSlot ⟨mv (cur s2).2, x1.d, x1.b⟩ l key = ms at hsl ⊢
        obtain ⟨o, x2⟩ := ms
        cases o with
        | none =>
          simp only
          obtain ⟨⟨s', b'⟩, fx2⟩ := hsl.1 rfl
          exact Res.exit b' (fx1.trans fx2)
        | some v =>
          simp only
          obtain ⟨s', b', hvl, hnull, ⟨h', t', hobj⟩, fx2⟩ := hsl.2 v rfl
          have fx02 : Fx x.d x.b x2.d x2.b .ok := fx1.trans fx2
          have sp := sub_parse ihV limit (flt.subKey key) C (x := x2) b' hvl hnull
          split
          · rename_i x3 heq4
            rw [heq4] at sp
            obtain ⟨⟨s3, B3⟩, hg3, fx3⟩ := sp
            exact pm_tail cfg f ihM C B3 (hg3.trans hobj) (fx02.trans fx3)
          · rename_i r hne
            obtain ⟨⟨s3, B3⟩, _, fx3⟩ := sp
            exact ⟨⟨s3, B3⟩, fx02.trans fx3⟩
      | false =>
        simp only [Bool.false_eq_true, if_false]
        have hsk := skipVariant_nm cfg f limit (mv (cur s2).2)
        split
        · rename_i x3 heq
          simp only [Prod.mk.injEq] at heq
          obtain ⟨_, rfl⟩ := heq
          exact pm_tail cfg f ihM (x3 := { s := (skipVariant cfg f limit (mv (cur s2).2)).2, d := x1.d, b := x1.b })
            C B1 hv1 fx1
        · exact Res.exit B1 (fx1.code hsk)
  · rename_i e s2 hne heq2
    rw [heq2] at hs1
    exact Res.exit B1 (fx1.code hs1)

/-- the invariant through the whole mutual block, for every fuel and every filter -/
theorem parse_all (cfg : Cfg) : ∀ fuel, PVs cfg fuel ∧ PEs cfg fuel ∧ PMs cfg fuel := by
  intro fuel
  induction fuel with
  | zero => exact ⟨pv_zero cfg, pe_zero cfg, pm_zero cfg⟩
  | succ f ih =>
    obtain ⟨ihV, ihE, ihM⟩ := ih
    exact ⟨pv_succ cfg f ihE ihM, pe_succ cfg f ihV ihE, pm_succ cfg f ihV ihM⟩

/-! ## `run` -/

/-- the state in which the parser stops (it starts in `JDD.start d input`) -/
def stop (cfg : Cfg) (limit : Nat) (flt : Flt) (d : Doc) (input : List Byte) : Code × S :=
  parseVariant cfg (2 * input.length + 4) limit flt .root (start d input)

/-- the document after the deserializer object was destroyed (a kept StringBuilder buffer is released), before the
    pools are shrunk -/
def preShrink (cfg : Cfg) (limit : Nat) (flt : Flt) (d : Doc) (input : List Byte) : Doc :=
  match (stop cfg limit flt d input).2.b with
  | some _ => { (stop cfg limit flt d input).2.d with pl := (stop cfg limit flt d input).2.d.pl.dealloc }
  | none => (stop cfg limit flt d input).2.d

theorem run_eq (cfg : Cfg) (limit : Nat) (flt : Flt) (d : Doc) (input : List Byte) :
    run cfg limit flt d input =
      (finalCode (stop cfg limit flt d input).1 (stop cfg limit flt d input).2,
        { preShrink cfg limit flt d input with
          pl := PL.shrink (preShrink cfg limit flt d input).g (preShrink cfg limit flt d input).pl },
        (stop cfg limit flt d input).2.s.l.pos) := by
  unfold run preShrink stop start
  dsimp only
  generalize parseVariant cfg (2 * input.length + 4) limit flt .root _ = r
  obtain ⟨c, x⟩ := r
  rfl

/-- the parser's result, for every input, every filter and every failure schedule -/
theorem stop_res (cfg : Cfg) (limit : Nat) (flt : Flt) {d : Doc} (input : List Byte) (gok : PL.GeoOK d.g)
    (hp : PL.Inv d.g d.pl) :
    Res d.clearAll .nil .root (start d input) (stop cfg limit flt d input) := by
  obtain ⟨w, hs, hg, _, hr⟩ := clearAll_wf gok hp
  have C : Ctx d.clearAll .nil .root := ⟨List.nodup_nil, trivial, rfl, by rw [hg]; exact gok⟩
  exact (parse_all cfg _).1 limit flt .root (start d input) d.clearAll .nil C (built_start w hs C) hr

theorem preShrink_pleq (cfg : Cfg) (limit : Nat) (flt : Flt) (d : Doc) (input : List Byte) :
    PlEq (stop cfg limit flt d input).2.d (preShrink cfg limit flt d input) ∧
    (preShrink cfg limit flt d input).overflowed = (stop cfg limit flt d input).2.d.overflowed := by
  unfold preShrink
  cases (stop cfg limit flt d input).2.b with
  | none => exact ⟨PlEq.refl _, rfl⟩
  | some c => exact ⟨⟨rfl, rfl, rfl, rfl, rfl, rfl, rfl, rfl, rfl, rfl⟩, rfl⟩

/-- MAIN: whatever the input, the filter and the allocator failure schedule, `run` leaves a well-formed document -/
theorem run_wf (cfg : Cfg) (limit : Nat) (flt : Flt) {d : Doc} (input : List Byte) (gok : PL.GeoOK d.g)
    (hp : PL.Inv d.g d.pl) :
    ∃ F', WFG (run cfg limit flt d input).2.1 F' ∧
      StrOK (run cfg limit flt d input).2.1 ((run cfg limit flt d input).2.1.strRefs F') := by
  obtain ⟨⟨s, B⟩, _⟩ := stop_res cfg limit flt input gok hp
  obtain ⟨w1, s1, _⟩ := (preShrink_pleq cfg limit flt d input).1.wfg B.wf B.str
  rw [run_eq]
  exact ⟨_, shrink_wf w1 s1⟩

/-- the overflow flag of the result is the one the parser left -/
theorem run_overflowed (cfg : Cfg) (limit : Nat) (flt : Flt) (d : Doc) (input : List Byte) :
    (run cfg limit flt d input).2.1.overflowed = (stop cfg limit flt d input).2.d.overflowed := by
  rw [run_eq]; exact (preShrink_pleq cfg limit flt d input).2

/-- the result code against the overflow flag -/
theorem run_code (cfg : Cfg) (limit : Nat) (flt : Flt) {d : Doc} (input : List Byte) (gok : PL.GeoOK d.g)
    (hp : PL.Inv d.g d.pl) :
    ((run cfg limit flt d input).1 = .ok → (run cfg limit flt d input).2.1.overflowed = false) ∧
    ((run cfg limit flt d input).1 = .noMemory → (run cfg limit flt d input).2.1.overflowed = true) := by
  obtain ⟨_, fx⟩ := stop_res cfg limit flt input gok hp
  rw [run_overflowed]
  constructor
  · intro h
    rw [run_eq] at h
    exact fx.ok (finalCode_ok h)
  · intro h
    rw [run_eq] at h
    exact fx.nomem (finalCode_nomem h)

/-- the ledger balances before the pools are shrunk -/
theorem preShrink_bal (cfg : Cfg) (limit : Nat) (flt : Flt) {d : Doc} (input : List Byte) (gok : PL.GeoOK d.g)
    (hp : PL.Inv d.g d.pl) (hb : Bal d) : Bal (preShrink cfg limit flt d input) := by
  obtain ⟨_, fx⟩ := stop_res cfg limit flt input gok hp
  have h := fx.bal (clearAll_LBd hb)
  unfold preShrink
  unfold LBd at h
  unfold Bal
  cases hx : (stop cfg limit flt d input).2.b with
  | none => rw [hx] at h; simpa using h
  | some c =>
    rw [hx] at h
    show PL.net (stop cfg limit flt d input).2.d.pl.dealloc = _
    rw [dealloc_net, h]; simp

/-- the ledger of the document `run` returns: balanced up to the block `shrink` gives a block-less last pool -/
theorem run_net (cfg : Cfg) (limit : Nat) (flt : Flt) {d : Doc} (input : List Byte) (gok : PL.GeoOK d.g)
    (hp : PL.Inv d.g d.pl) (hb : Bal d) :
    PL.net (run cfg limit flt d input).2.1.pl =
      ((run cfg limit flt d input).2.1.strings.length : Int) -
        (if lastBlockless (preShrink cfg limit flt d input).pl then 1 else 0) := by
  have h := preShrink_bal cfg limit flt input gok hp hb
  unfold Bal at h
  rw [run_eq]
  show PL.net (PL.shrink _ _) = ((preShrink cfg limit flt d input).strings.length : Int) - _
  rw [shrink_net, h]

/-- when no allocation failed, every pool has its block and the ledger of the result balances -/
theorem run_bal (cfg : Cfg) (limit : Nat) (flt : Flt) {d : Doc} (input : List Byte) (gok : PL.GeoOK d.g)
    (hp : PL.Inv d.g d.pl) (hb : Bal d) (hov : (run cfg limit flt d input).2.1.overflowed = false) :
    Bal (run cfg limit flt d input).2.1 := by
  obtain ⟨_, fx⟩ := stop_res cfg limit flt input gok hp
  have h0 : Blk (start d input).d := by
    refine Or.inl ?_
    intro p hp'
    have : d.clearAll.pl.pools = [] := (clearAll_spec d).2.2.1
    rw [show (start d input).d.pl.pools = d.clearAll.pl.pools from rfl, this] at hp'
    cases hp'
  rw [run_overflowed] at hov
  have hall : AllB (stop cfg limit flt d input).2.d := by
    rcases fx.blk h0 with h1 | h1
    · exact h1
    · rw [hov] at h1; cases h1
  have hall' : AllB (preShrink cfg limit flt d input) :=
    AllB_of_pools (preShrink_pleq cfg limit flt d input).1.pools hall
  have := run_net cfg limit flt input gok hp hb
  rw [lastBlockless_of_allB hall'] at this
  unfold Bal
  rw [this]; simp

/-- the geometry is kept -/
theorem run_g (cfg : Cfg) (limit : Nat) (flt : Flt) {d : Doc} (input : List Byte) (gok : PL.GeoOK d.g)
    (hp : PL.Inv d.g d.pl) : (run cfg limit flt d input).2.1.g = d.g := by
  obtain ⟨⟨s, B⟩, _⟩ := stop_res cfg limit flt input gok hp
  rw [run_eq]
  show (preShrink cfg limit flt d input).g = d.g
  rw [(preShrink_pleq cfg limit flt d input).1.g, B.g]; rfl

/-- `clearAll` after `run`: what the ledger says -/
theorem run_clearAll_outstanding (cfg : Cfg) (limit : Nat) (flt : Flt) {d : Doc} (input : List Byte)
    (gok : PL.GeoOK d.g) (hp : PL.Inv d.g d.pl) (hb : Bal d) :
    PL.outstanding (run cfg limit flt d input).2.1.clearAll.pl.log =
      - (if lastBlockless (preShrink cfg limit flt d input).pl then 1 else 0) := by
  have h := run_net cfg limit flt input gok hp hb
  rw [(clearAll_spec _).1, PL.outstanding_replicate_D]
  unfold PL.net at h
  omega

end JDDF
