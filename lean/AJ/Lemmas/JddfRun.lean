/- Simulation of the FILTERED slot-level deserializer `JDDF` by the value-level filtered parser, part 3: the run
   (`JDDF.run` against `JD.frun`), and the runs under a filter that allows nothing (the parse is `JD.skipVariant` on the
   reader, the document is the cleared one). -/
import AJ.Lemmas.JddfSimAll
import AJ.Props.C01Doc
set_option linter.unusedSimpArgs false
set_option linter.unusedVariables false
namespace JDDF
open DL JDD
open JD (Byte Val Cfg Code St Flt skipSpaces cur mv skipKeyword skipVariant skipElems skipMembers skipQuoted skipNumeric)

/-- `JDDF.run` in terms of its parse: the code is adjusted for a number followed by garbage, the document left differs
    from the one the parse left in its allocator state only (builder released, pools shrunk) -/
theorem run_proj (cfg : Cfg) (limit : Nat) (flt : Flt) (d : Doc) (input : List Byte) :
    ∃ dF : Doc,
      JDDF.run cfg limit flt d input =
        ((match (JDDF.parseVariant cfg (2 * input.length + 4) limit flt .root
              { s := { l := { unread := input } }, d := d.clearAll }).1 with
          | .ok =>
            if (JDDF.parseVariant cfg (2 * input.length + 4) limit flt .root
                  { s := { l := { unread := input } }, d := d.clearAll }).2.s.l.cur != 0 &&
                !JD.isWs (JDDF.parseVariant cfg (2 * input.length + 4) limit flt .root
                  { s := { l := { unread := input } }, d := d.clearAll }).2.s.l.cur &&
                rootIsNumber (JDDF.parseVariant cfg (2 * input.length + 4) limit flt .root
                  { s := { l := { unread := input } }, d := d.clearAll }).2.d then .invalid else .ok
          | e => e), dF,
         (JDDF.parseVariant cfg (2 * input.length + 4) limit flt .root
            { s := { l := { unread := input } }, d := d.clearAll }).2.s.l.pos) ∧
      dF.g = (JDDF.parseVariant cfg (2 * input.length + 4) limit flt .root
            { s := { l := { unread := input } }, d := d.clearAll }).2.d.g ∧
      dF.cells = (JDDF.parseVariant cfg (2 * input.length + 4) limit flt .root
            { s := { l := { unread := input } }, d := d.clearAll }).2.d.cells ∧
      dF.strings = (JDDF.parseVariant cfg (2 * input.length + 4) limit flt .root
            { s := { l := { unread := input } }, d := d.clearAll }).2.d.strings ∧
      dF.root = (JDDF.parseVariant cfg (2 * input.length + 4) limit flt .root
            { s := { l := { unread := input } }, d := d.clearAll }).2.d.root ∧
      dF.overflowed = (JDDF.parseVariant cfg (2 * input.length + 4) limit flt .root
            { s := { l := { unread := input } }, d := d.clearAll }).2.d.overflowed ∧
      dF.nextNode = (JDDF.parseVariant cfg (2 * input.length + 4) limit flt .root
            { s := { l := { unread := input } }, d := d.clearAll }).2.d.nextNode ∧
      (PL.Inv (JDDF.parseVariant cfg (2 * input.length + 4) limit flt .root
            { s := { l := { unread := input } }, d := d.clearAll }).2.d.g (JDDF.parseVariant cfg (2 * input.length + 4) limit flt .root
            { s := { l := { unread := input } }, d := d.clearAll }).2.d.pl →
        PL.Inv dF.g dF.pl ∧ ∀ y, PL.live dF.g dF.pl y ↔
          PL.live (JDDF.parseVariant cfg (2 * input.length + 4) limit flt .root
            { s := { l := { unread := input } }, d := d.clearAll }).2.d.g (JDDF.parseVariant cfg (2 * input.length + 4) limit flt .root
            { s := { l := { unread := input } }, d := d.clearAll }).2.d.pl y) := by
  simp only [JDDF.run]
  generalize JDDF.parseVariant cfg (2 * input.length + 4) limit flt .root
    { s := { l := { unread := input } }, d := d.clearAll } = rv
  obtain ⟨c, x⟩ := rv
  simp only
  cases x.b with
  | none =>
    refine ⟨_, rfl, rfl, rfl, rfl, rfl, rfl, rfl, fun hI => ?_⟩
    obtain ⟨a, b, _⟩ := PL.shrink_ok (g := x.d.g) hI
    exact ⟨a, b⟩
  | some cap =>
    refine ⟨_, rfl, rfl, rfl, rfl, rfl, rfl, rfl, fun hI => ?_⟩
    have hI' : PL.Inv x.d.g x.d.pl.dealloc := hI.congr rfl rfl rfl rfl
    obtain ⟨a, b, _⟩ := PL.shrink_ok (g := x.d.g) hI'
    exact ⟨a, fun y => (b y).trans (live_congr rfl rfl y)⟩

/-- the two outcomes of a filtered run: no allocation failed and everything agrees with the value-level filtered run, or
    one failed and the code is not `Ok` -/
theorem run_core (cfg : Cfg) (limit : Nat) (flt : Flt) (d : Doc) (input : List Byte) (gok : PL.GeoOK d.g)
    (hp : PL.Inv d.g d.pl) (h31 : 31 ≤ cfg.maxStrLen) :
    ((JDDF.run cfg limit flt d input).2.1.overflowed = false ∧
      (JDDF.run cfg limit flt d input).1 = (JD.frun cfg limit flt input).1 ∧
      (JDDF.run cfg limit flt d input).2.2 = (JD.frun cfg limit flt input).2.2 ∧
      (JDDF.run cfg limit flt d input).2.1.toVal (JDDF.run cfg limit flt d input).2.1.root =
        (JD.frun cfg limit flt input).2.1 ∧
      WF (JDDF.run cfg limit flt d input).2.1) ∨
    ((JDDF.run cfg limit flt d input).2.1.overflowed = true ∧ (JDDF.run cfg limit flt d input).1 ≠ .ok ∧
      ((JDDF.run cfg limit flt d input).1 = .noMemory ∨
        ((JDDF.run cfg limit flt d input).1 = (JD.frun cfg limit flt input).1 ∧
         (JDDF.run cfg limit flt d input).2.2 = (JD.frun cfg limit flt input).2.2))) := by
  have pre0 := sim_clearAll_pre gok hp
  have hsim := (JDDF.sim_all cfg h31 (2 * input.length + 4)).1 limit flt .root
    { s := { l := { unread := input } }, d := d.clearAll } pre0 rfl (sim_BOK_none cfg)
  obtain ⟨dF, hrun, hg, hc, hs, hr, ho, hnn, hpl⟩ := run_proj cfg limit flt d input
  rw [hrun]
  simp only [JD.frun]
  generalize JDDF.parseVariant cfg (2 * input.length + 4) limit flt .root
    { s := { l := { unread := input } }, d := d.clearAll } = rv at *
  generalize JD.fparseVariant cfg (2 * input.length + 4) limit flt { l := { unread := input } } = rv0 at *
  obtain ⟨c, x⟩ := rv
  obtain ⟨c0, v0, s0⟩ := rv0
  simp only at hsim hg hc hs hr ho hnn hpl ⊢
  rcases hsim with ⟨o2, e1, e2, _, v, s, P, hval⟩ | ⟨o2, e⟩
  · simp only at o2 e1 e2 P hval
    subst e1 e2
    have hnum : JD.isNumberVal v0 = rootIsNumber x.d := by
      rw [← hval]; exact sim_rootIsNumber x.d v s P.att.get
    have htv : dF.toVal dF.root = v0 := by rw [sim_final_toVal P hg hc hs hr, hval]
    have main : (match c with
          | Code.ok => if (x.s.l.cur != 0 && !JD.isWs x.s.l.cur && rootIsNumber x.d) = true then Code.invalid else Code.ok
          | e => e) =
          (match (c, v0, x.s) with
            | (Code.ok, v, s) =>
              if (s.l.cur != 0 && !JD.isWs s.l.cur && JD.isNumberVal v) = true then (Code.invalid, v, s.l.pos)
              else (Code.ok, v, s.l.pos)
            | (e, v, s) => (e, v, s.l.pos)).1 ∧
        x.s.l.pos =
          (match (c, v0, x.s) with
            | (Code.ok, v, s) =>
              if (s.l.cur != 0 && !JD.isWs s.l.cur && JD.isNumberVal v) = true then (Code.invalid, v, s.l.pos)
              else (Code.ok, v, s.l.pos)
            | (e, v, s) => (e, v, s.l.pos)).2.2 ∧
        v0 =
          (match (c, v0, x.s) with
            | (Code.ok, v, s) =>
              if (s.l.cur != 0 && !JD.isWs s.l.cur && JD.isNumberVal v) = true then (Code.invalid, v, s.l.pos)
              else (Code.ok, v, s.l.pos)
            | (e, v, s) => (e, v, s.l.pos)).2.1 := by
      cases c
      case ok =>
        simp only [hnum]
        split <;> exact ⟨rfl, rfl, rfl⟩
      all_goals exact ⟨rfl, rfl, rfl⟩
    have hwf : WF dF := by
      have w0 : WFG d.clearAll .nil := by
        refine ⟨rfl, List.nodup_nil, fun i hi => (by cases hi), pre0.pool, fun i hi => (by cases hi), ?_⟩
        intro l hl e he
        rcases mem_holders.1 hl with h | ⟨j, hj, _⟩
        · subst h; cases he
        · cases hj
      have s0 : StrOK d.clearAll (d.clearAll.strRefs .nil) :=
        ⟨List.nodup_nil, fun n hn => (by cases hn), fun n hn => (by cases hn), fun r hr => (by cases hr)⟩
      obtain ⟨w1, s1, _⟩ := post_assemble w0 s0 (l := .root) trivial rfl P
      obtain ⟨hI, hlv⟩ := hpl P.fr.pool
      have hcell : ∀ j, dF.cell j = x.d.cell j := fun j => by simp only [Doc.cell, hc]
      obtain ⟨w2, s2, _⟩ := wfg_frame (d' := dF) w1 hg hr (fun j _ => hcell j)
        (fun l0 h0 e he => ⟨hcell e, (hlv e).2 (w1.ext l0 h0 e he).2.1⟩) hI
        (fun j hj => (hlv j).2 (w1.live j hj)) (StrOK_congr hs hnn s1) (fun n _ => strBytes_of_strings hs n)
      exact ⟨_, w2, s2⟩
    exact Or.inl ⟨by rw [ho]; exact o2, main.1, main.2.1, by rw [htv]; exact main.2.2, hwf⟩
  · simp only at o2 e
    have hoF : dF.overflowed = true := by rw [ho]; exact o2
    refine Or.inr ⟨hoF, ?_, ?_⟩
    · rcases e with e | ⟨e1, e2, e3⟩
      · subst e; intro h; cases h
      · cases c
        case ok => exact absurd rfl e2
        all_goals (intro h; cases h)
    · rcases e with e | ⟨e1, e2, e3⟩
      · subst e
        exact Or.inl rfl
      · subst e1 e3
        right
        cases c
        case ok => exact absurd rfl e2
        all_goals exact ⟨rfl, rfl⟩

/-! ## A filter that allows nothing: the parse is the skipping routine on the reader -/

/-- under a filter that allows neither arrays, objects nor values (`Filter` on an unbound/null/false variant),
    `parseVariant` is `JD.skipVariant` on the reader; the document and the StringBuilder are not touched -/
theorem parseVariant_allow_nothing (cfg : Cfg) {flt : Flt} (hA : flt.allowArray = false) (hO : flt.allowObject = false)
    (hV : flt.allowValue = false) (fuel limit : Nat) (l : Loc) (x : S) :
    JDDF.parseVariant cfg fuel limit flt l x =
      ((skipVariant cfg fuel limit x.s).1, { x with s := (skipVariant cfg fuel limit x.s).2 }) := by
  cases fuel with
  | zero => rfl
  | succ fuel =>
    simp only [JDDF.parseVariant, JD.skipVariant, hA, hO, hV, Bool.false_eq_true, ↓reduceIte]
    generalize skipSpaces cfg (fuel + 1) x.s = r
    obtain ⟨c, s⟩ := r
    cases c
    case ok =>
      simp only
      generalize cur s = r2
      obtain ⟨c, s1⟩ := r2
      simp only
      by_cases h5B : (c == 0x5B) = true
      · simp only [h5B, Bool.false_eq_true, ↓reduceIte]
        cases limit <;> rfl
      · simp only [h5B, Bool.false_eq_true, ↓reduceIte]
        by_cases h7B : (c == 0x7B) = true
        · simp only [h7B, Bool.false_eq_true, ↓reduceIte]
          cases limit with
          | zero => rfl
          | succ limit' =>
            simp only
            generalize skipSpaces cfg (fuel + 1) (mv s1) = r3
            obtain ⟨c2, s2⟩ := r3
            cases c2
            case ok =>
              simp only
              by_cases h7D : ((cur s2).1 == 0x7D) = true
              · simp only [h7D, Bool.false_eq_true, ↓reduceIte]
              · simp only [h7D, Bool.false_eq_true, ↓reduceIte]
            all_goals rfl
        · simp only [h7B, Bool.false_eq_true, ↓reduceIte]
          by_cases hq : (c == 0x22 || c == 0x27) = true
          · simp only [hq, Bool.false_eq_true, ↓reduceIte]
          · simp only [hq, Bool.false_eq_true, ↓reduceIte]
            by_cases h74 : (c == 0x74) = true
            · simp only [h74, Bool.false_eq_true, ↓reduceIte]
            · simp only [h74, Bool.false_eq_true, ↓reduceIte]
              by_cases h66 : (c == 0x66) = true
              · simp only [h66, Bool.false_eq_true, ↓reduceIte]
              · simp only [h66, Bool.false_eq_true, ↓reduceIte]
                by_cases h6E : (c == 0x6E) = true
                · simp only [h6E, Bool.false_eq_true, ↓reduceIte]
                · simp only [h6E, Bool.false_eq_true, ↓reduceIte]
    all_goals rfl

theorem foldl_dealloc_pools {α : Type} (ss : List α) (p : PL.St) :
    (ss.foldl (fun pl _ => pl.dealloc) p).pools = p.pools ∧
    (ss.foldl (fun pl _ => pl.dealloc) p).tableHeap = p.tableHeap := by
  induction ss generalizing p with
  | nil => exact ⟨rfl, rfl⟩
  | cons a ss ih => rw [List.foldl_cons]; exact ih p.dealloc

theorem clear_pools (g : PL.Geo) (s : PL.St) : (PL.clear g s).pools = [] ∧ (PL.clear g s).tableHeap = false := by
  unfold PL.clear
  simp only
  split
  · exact ⟨rfl, rfl⟩
  · rename_i h
    exact ⟨rfl, by simpa using h⟩

/-- the pools of a cleared document: none, and the pool table is the inline one -/
theorem clearAll_pools (d : Doc) : d.clearAll.pl.pools = [] ∧ d.clearAll.pl.tableHeap = false := by
  obtain ⟨a, b⟩ := foldl_dealloc_pools d.strings (PL.clear d.g d.pl)
  obtain ⟨c, e⟩ := clear_pools d.g d.pl
  exact ⟨a.trans c, b.trans e⟩

theorem shrink_no_pools (g : PL.Geo) (s : PL.St) (h1 : s.pools = []) (h2 : s.tableHeap = false) : PL.shrink g s = s := by
  unfold PL.shrink
  simp only [h1, List.getLast?_nil, h2, Bool.false_and, Bool.false_eq_true, ↓reduceIte]

/-- the run under a filter that allows nothing: the code and the consumption are those of `JD.skipVariant`, the document
    left IS the cleared document (no slot, no string, and no allocator call beyond those of the clear) -/
theorem run_allow_nothing (cfg : Cfg) (limit : Nat) {flt : Flt} (hA : flt.allowArray = false)
    (hO : flt.allowObject = false) (hV : flt.allowValue = false) (d : Doc) (input : List Byte) :
    JDDF.run cfg limit flt d input =
      ((skipVariant cfg (2 * input.length + 4) limit { l := { unread := input } }).1, d.clearAll,
       (skipVariant cfg (2 * input.length + 4) limit { l := { unread := input } }).2.l.pos) := by
  obtain ⟨p1, p2⟩ := clearAll_pools d
  have hsh : PL.shrink d.clearAll.g d.clearAll.pl = d.clearAll.pl := shrink_no_pools _ _ p1 p2
  simp only [JDDF.run, parseVariant_allow_nothing cfg hA hO hV]
  have hroot : rootIsNumber d.clearAll = false := rfl
  simp only [hroot, Bool.and_false, Bool.false_eq_true, ↓reduceIte, hsh]
  generalize (skipVariant cfg (2 * input.length + 4) limit { l := { unread := input } }) = r
  obtain ⟨c, s⟩ := r
  cases c <;> rfl

end JDDF
