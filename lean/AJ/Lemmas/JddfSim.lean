/- Simulation of the FILTERED slot-level deserializer `JDDF` (AJ/Model/JDDF.lean) by the value-level filtered parser
   `JD.fparseVariant/fparseElems/fparseMembers`, part 1: the outcome relation is `JDD.Sim` of AJ/Lemmas/JddSim.lean; this file
   holds the step for `parseVariant` (the skip branches leave the document untouched and move the reader as the value-level
   routine does) and for `parseElems` (cut into head and tail). -/
import AJ.Model.JDDF
import AJ.Lemmas.JddSimAll
set_option linter.unusedSimpArgs false
set_option linter.unusedVariables false
namespace JDDF
open DL JDD
open JD (Byte Val Cfg Code St Flt skipSpaces cur mv skipKeyword parseQuoted skipVariant skipElems skipMembers skipQuoted
  skipNumeric)

def FSimV (cfg : Cfg) (fuel : Nat) : Prop :=
  ∀ (limit : Nat) (flt : Flt) (l : Loc) (x : S), Pre x.d l → x.d.overflowed = false → sim_BOK cfg x.b →
    Sim cfg x.d l (JDDF.parseVariant cfg fuel limit flt l x) (JD.fparseVariant cfg fuel limit flt x.s)

def FSimE (cfg : Cfg) (fuel : Nat) : Prop :=
  ∀ (limit : Nat) (flt : Flt) (l : Loc) (x : S) (d0 : Doc) (h t : Nat) (sl : Forest) (acc : List Val),
    Pre d0 l → Post d0 x.d l (.arr h t) sl → (vals x.d noOv sl).map (·.2) = acc.reverse →
    x.d.overflowed = false → sim_BOK cfg x.b →
    Sim cfg d0 l (JDDF.parseElems cfg fuel limit flt l x) (JD.fparseElems cfg fuel limit flt x.s acc)

def FSimM (cfg : Cfg) (fuel : Nat) : Prop :=
  ∀ (limit : Nat) (flt : Flt) (l : Loc) (x : S) (d0 : Doc) (h t : Nat) (sl : Forest) (ms : List (List Byte × Val)),
    Pre d0 l → Post d0 x.d l (.obj h t) sl → vals x.d noOv sl = ms →
    x.d.overflowed = false → sim_BOK cfg x.b →
    Sim cfg d0 l (JDDF.parseMembers cfg fuel limit flt l x) (JD.fparseMembers cfg fuel limit flt x.s ms)

/-- a skipped value: the document is the one before, the place still holds `null` -/
theorem fsim_skip {cfg : Cfg} {x : S} {l : Loc} (P : Pre x.d l) (h0 : x.d.overflowed = false) (hb : sim_BOK cfg x.b)
    (e : Code) (s' : St) : Sim cfg x.d l (e, { x with s := s' }) (e, .null, s') :=
  Sim.exit rfl hb (sim_null_post P (Fr.refl P.pool [])) (fun h => by rw [h0] at h; cases h)

set_option maxRecDepth 4000 in
theorem fsim_pv_step (cfg : Cfg) (h31 : 31 ≤ cfg.maxStrLen) (fuel : Nat) (hE : FSimE cfg fuel) (hM : FSimM cfg fuel) :
    FSimV cfg (fuel + 1) := by
  intro limit flt l x P h0 hb
  have hfr0 : Fr x.d x.d [] := Fr.refl P.pool []
  simp only [JDDF.parseVariant, JD.fparseVariant]
  generalize hsk : skipSpaces cfg (fuel + 1) x.s = r
  obtain ⟨c, s⟩ := r
  cases c
  case ok =>
    simp only
    generalize hcur : cur s = r2
    obtain ⟨c, s1⟩ := r2
    simp only
    by_cases h5B : (c == 0x5B) = true
    · -- array
      simp only [h5B, ↓reduceIte]
      cases hA : flt.allowArray with
      | true =>
        simp only [↓reduceIte]
        have hPa := sim_coll_post false P
        have hov : (x.d.set l (.arr x.d.null x.d.null)).overflowed = false := by rw [set_overflowed]; exact h0
        cases limit with
        | zero => exact Sim.exit rfl hb hPa (fun h => by rw [hov] at h; cases h)
        | succ limit' =>
          simp only
          generalize hsk2 : skipSpaces cfg (fuel + 1) (mv s1) = r3
          obtain ⟨c2, s2⟩ := r3
          cases c2
          case ok =>
            simp only
            generalize hcur2 : cur s2 = r4
            obtain ⟨e, s3⟩ := r4
            simp only
            by_cases h5D : (e == 0x5D) = true
            · simp only [h5D, ↓reduceIte]
              exact Sim.exit rfl hb hPa (fun h => by rw [hov] at h; cases h)
            · simp only [h5D, ↓reduceIte]
              exact hE limit' flt.subIdx l { s := s3, d := x.d.set l (.arr x.d.null x.d.null), b := x.b } x.d _ _ .nil [] P
                (sim_post_coll false P).1 rfl hov hb
          all_goals exact Sim.exit rfl hb hPa (fun h => by rw [hov] at h; cases h)
      | false =>
        simp only [Bool.false_eq_true, ↓reduceIte]
        cases limit with
        | zero => exact fsim_skip (x := { s := s1, d := x.d, b := x.b }) P h0 hb _ _
        | succ limit' =>
          simp only
          generalize skipElems cfg fuel limit' (mv s1) = r3
          obtain ⟨e, s2⟩ := r3
          exact fsim_skip (x := { s := s1, d := x.d, b := x.b }) P h0 hb _ _
    · simp only [h5B, ↓reduceIte]
      by_cases h7B : (c == 0x7B) = true
      · -- object
        simp only [h7B, ↓reduceIte]
        cases hO : flt.allowObject with
        | true =>
          simp only [↓reduceIte]
          have hPa := sim_coll_post true P
          have hov : (x.d.set l (.obj x.d.null x.d.null)).overflowed = false := by rw [set_overflowed]; exact h0
          cases limit with
          | zero => exact Sim.exit rfl hb hPa (fun h => by rw [hov] at h; cases h)
          | succ limit' =>
            simp only
            generalize hsk2 : skipSpaces cfg (fuel + 1) (mv s1) = r3
            obtain ⟨c2, s2⟩ := r3
            cases c2
            case ok =>
              simp only
              generalize hcur2 : cur s2 = r4
              obtain ⟨e, s3⟩ := r4
              simp only
              by_cases h7D : (e == 0x7D) = true
              · simp only [h7D, ↓reduceIte]
                exact Sim.exit rfl hb hPa (fun h => by rw [hov] at h; cases h)
              · simp only [h7D, ↓reduceIte]
                exact hM limit' flt l { s := s3, d := x.d.set l (.obj x.d.null x.d.null), b := x.b } x.d _ _ .nil [] P
                  (sim_post_coll true P).1 rfl hov hb
            all_goals exact Sim.exit rfl hb hPa (fun h => by rw [hov] at h; cases h)
        | false =>
          simp only [Bool.false_eq_true, ↓reduceIte]
          cases limit with
          | zero => exact fsim_skip (x := { s := s1, d := x.d, b := x.b }) P h0 hb _ _
          | succ limit' =>
            simp only
            generalize hsk2 : skipSpaces cfg (fuel + 1) (mv s1) = r3
            obtain ⟨c2, s2⟩ := r3
            cases c2
            case ok =>
              simp only
              generalize hcur2 : cur s2 = r4
              obtain ⟨e, s3⟩ := r4
              simp only
              by_cases h7D : (e == 0x7D) = true
              · simp only [h7D, ↓reduceIte]
                exact fsim_skip (x := { s := s1, d := x.d, b := x.b }) P h0 hb _ _
              · simp only [h7D, ↓reduceIte]
                generalize skipMembers cfg fuel limit' s3 = r5
                obtain ⟨e5, s5⟩ := r5
                exact fsim_skip (x := { s := s1, d := x.d, b := x.b }) P h0 hb _ _
            all_goals exact fsim_skip (x := { s := s1, d := x.d, b := x.b }) P h0 hb _ _
      · simp only [h7B, ↓reduceIte]
        cases hV : flt.allowValue with
        | true =>
          simp only [↓reduceIte]
          by_cases hq : (c == 0x22 || c == 0x27) = true
          · -- string
            simp only [hq, ↓reduceIte]
            exact sim_string cfg h31 (fuel + 1) c (x := { s := mv s1, d := x.d, b := x.b }) P h0 hb
          · simp only [hq, ↓reduceIte]
            by_cases h74 : (c == 0x74) = true
            · simp only [h74, ↓reduceIte]
              obtain ⟨pp, pv⟩ := sim_post_plain (v' := .bool true) P hfr0 (fun h => h) rfl rfl
              exact Sim.exit rfl hb ⟨_, _, pp, pv⟩ (fun h => by rw [set_overflowed, h0] at h; cases h)
            · simp only [h74, ↓reduceIte]
              by_cases h66 : (c == 0x66) = true
              · simp only [h66, ↓reduceIte]
                obtain ⟨pp, pv⟩ := sim_post_plain (v' := .bool false) P hfr0 (fun h => h) rfl rfl
                exact Sim.exit rfl hb ⟨_, _, pp, pv⟩ (fun h => by rw [set_overflowed, h0] at h; cases h)
              · simp only [h66, ↓reduceIte]
                by_cases h6E : (c == 0x6E) = true
                · simp only [h6E, ↓reduceIte]
                  exact Sim.exit rfl hb (sim_null_post P hfr0) (fun h => by rw [h0] at h; cases h)
                · simp only [h6E, ↓reduceIte]
                  exact sim_numeric cfg (x := { s := s1, d := x.d, b := x.b }) P h0 hb
        | false =>
          simp only [Bool.false_eq_true, ↓reduceIte]
          by_cases hq : (c == 0x22 || c == 0x27) = true
          · simp only [hq, ↓reduceIte]
            generalize skipQuoted c (fuel + 1) (mv s1) = r3
            obtain ⟨e, s2⟩ := r3
            exact fsim_skip (x := { s := s1, d := x.d, b := x.b }) P h0 hb _ _
          · simp only [hq, ↓reduceIte]
            by_cases h74 : (c == 0x74) = true
            · simp only [h74, ↓reduceIte]
              exact fsim_skip (x := { s := s1, d := x.d, b := x.b }) P h0 hb _ _
            · simp only [h74, ↓reduceIte]
              by_cases h66 : (c == 0x66) = true
              · simp only [h66, ↓reduceIte]
                exact fsim_skip (x := { s := s1, d := x.d, b := x.b }) P h0 hb _ _
              · simp only [h66, ↓reduceIte]
                by_cases h6E : (c == 0x6E) = true
                · simp only [h6E, ↓reduceIte]
                  exact fsim_skip (x := { s := s1, d := x.d, b := x.b }) P h0 hb _ _
                · simp only [h6E, ↓reduceIte]
                  exact fsim_skip (x := { s := s1, d := x.d, b := x.b }) P h0 hb _ _
  all_goals exact Sim.exit rfl hb (sim_null_post P hfr0) (fun h => by rw [h0] at h; cases h)

theorem fsim_pv_zero (cfg : Cfg) : FSimV cfg 0 := by
  intro limit flt l x P h0 hb
  simp only [JDDF.parseVariant, JD.fparseVariant]
  exact Sim.exit rfl hb (sim_null_post P (Fr.refl P.pool [])) (fun _ => by intro h; cases h)

theorem fsim_pe_zero (cfg : Cfg) : FSimE cfg 0 := by
  intro limit flt l x d0 h t sl acc P0 P hvals h0 hb
  simp only [JDDF.parseElems, JD.fparseElems]
  exact Sim.exit rfl hb (sim_arr_post P hvals) (fun _ => by intro h; cases h)

theorem fsim_pm_zero (cfg : Cfg) : FSimM cfg 0 := by
  intro limit flt l x d0 h t sl ms P0 P hvals h0 hb
  simp only [JDDF.parseMembers, JD.fparseMembers]
  exact Sim.exit rfl hb (sim_obj_post P hvals) (fun _ => by intro h; cases h)

end JDDF
