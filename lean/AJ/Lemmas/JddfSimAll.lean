/- Simulation of the FILTERED slot-level deserializer `JDDF` by the value-level filtered parser, part 2: `parseElems` and
   `parseMembers` cut into pieces (head / tail; key token, member value or skip, continuation), their simulations, and the
   induction on the fuel (`JDDF.sim_all`). The key token and `getMember` are the pieces of the unfiltered development
   (`JDD.sim_pmKey`, `JDD.sim_pmSlot`): the model runs the key of every member through the StringBuilder, kept or not. -/
import AJ.Lemmas.JddfSim
set_option linter.unusedSimpArgs false
set_option linter.unusedVariables false
namespace JDDF
open DL JDD
open JD (Byte Val Cfg Code St Flt skipSpaces cur mv skipKeyword parseQuoted parseUnquoted inUnquoted setMember skipVariant)

/-! ## `parseElems` cut into pieces -/

def fpeTail_f (cfg : Cfg) (fuel limit : Nat) (ef : Flt) (l : Loc) (x : S) : Code × S :=
  match skipSpaces cfg (fuel+1) x.s with
  | (.ok, s) =>
    let (c, s) := cur s
    if c == 0x5D then (.ok, { x with s := mv s })
    else if c == 0x2C then JDDF.parseElems cfg fuel limit ef l { x with s := mv s }
    else (.invalid, { x with s := s })
  | (e, s) => (e, { x with s := s })

def fpeHead_f (cfg : Cfg) (fuel limit : Nat) (ef : Flt) (l : Loc) (x : S) : Code × S :=
  if ef.allow then
    match x.d.addElement l with
    | (none, d) => (.noMemory, { x with d := d })
    | (some id, d) => JDDF.parseVariant cfg fuel limit ef (.slot id) { x with d := d }
  else
    match skipVariant cfg fuel limit x.s with
    | (e, s) => (e, { x with s := s })

theorem fparseElems_succ (cfg : Cfg) (fuel limit : Nat) (ef : Flt) (l : Loc) (x : S) :
    JDDF.parseElems cfg (fuel+1) limit ef l x =
      match fpeHead_f cfg fuel limit ef l x with
      | (.ok, x) => fpeTail_f cfg fuel limit ef l x
      | r => r := by
  simp only [JDDF.parseElems, fpeHead_f, fpeTail_f]
  rfl

def fpeTail0 (cfg : Cfg) (fuel limit : Nat) (ef : Flt) (s : St) (vs : List Val) : Code × Val × St :=
  match skipSpaces cfg (fuel+1) s with
  | (.ok, s) =>
    let (c, s) := cur s
    if c == 0x5D then (.ok, .arr vs.reverse, mv s)
    else if c == 0x2C then JD.fparseElems cfg fuel limit ef (mv s) vs
    else (.invalid, .arr vs.reverse, s)
  | (e, s) => (e, .arr vs.reverse, s)

def fpeHead0 (cfg : Cfg) (fuel limit : Nat) (ef : Flt) (s : St) (acc : List Val) : Code × List Val × St :=
  if ef.allow then
    match JD.fparseVariant cfg fuel limit ef s with
    | (e, v, s) => (e, v :: acc, s)
  else
    match skipVariant cfg fuel limit s with
    | (e, s) => (e, acc, s)

theorem fparseElems0_succ (cfg : Cfg) (fuel limit : Nat) (ef : Flt) (s : St) (acc : List Val) :
    JD.fparseElems cfg (fuel+1) limit ef s acc =
      match fpeHead0 cfg fuel limit ef s acc with
      | (.ok, vs, s) => fpeTail0 cfg fuel limit ef s vs
      | (e, vs, s) => (e, .arr vs.reverse, s) := by
  simp only [JD.fparseElems, fpeTail0, fpeHead0]
  cases ef.allow with
  | false =>
    simp only [Bool.false_eq_true, ↓reduceIte]
    generalize skipVariant cfg fuel limit s = r
    obtain ⟨e, s'⟩ := r
    cases e <;> rfl
  | true =>
    simp only [↓reduceIte]
    generalize JD.fparseVariant cfg fuel limit ef s = r
    obtain ⟨e, v, s'⟩ := r
    cases e <;> rfl

theorem fsim_peTail (cfg : Cfg) (fuel : Nat) (hE : FSimE cfg fuel) {limit : Nat} {ef : Flt} {l : Loc} {x : S} {d0 : Doc}
    {h t : Nat} {sl : Forest} {vs : List Val} (P0 : Pre d0 l) (P : Post d0 x.d l (.arr h t) sl)
    (hvals : (vals x.d noOv sl).map (·.2) = vs.reverse) (h0 : x.d.overflowed = false) (hb : sim_BOK cfg x.b) :
    Sim cfg d0 l (fpeTail_f cfg fuel limit ef l x) (fpeTail0 cfg fuel limit ef x.s vs) := by
  have hP := sim_arr_post P hvals
  have hno : ∀ {e : Code}, x.d.overflowed = true → e ≠ .ok := fun h => by rw [h0] at h; cases h
  simp only [fpeTail_f, fpeTail0]
  generalize hsk : skipSpaces cfg (fuel + 1) x.s = r3
  obtain ⟨c2, s2⟩ := r3
  cases c2
  case ok =>
    simp only
    generalize hcur : cur s2 = r4
    obtain ⟨e, s3⟩ := r4
    simp only
    by_cases h5D : (e == 0x5D) = true
    · simp only [h5D, ↓reduceIte]
      exact Sim.exit rfl hb hP hno
    · simp only [h5D, ↓reduceIte]
      by_cases h2C : (e == 0x2C) = true
      · simp only [h2C, ↓reduceIte]
        exact hE limit ef l { s := mv s3, d := x.d, b := x.b } d0 _ _ _ vs P0 P hvals h0 hb
      · simp only [h2C, ↓reduceIte]
        exact Sim.exit rfl hb hP hno
  all_goals exact Sim.exit rfl hb hP hno

theorem fsim_pe_step (cfg : Cfg) (fuel : Nat) (hV : FSimV cfg fuel) (hE : FSimE cfg fuel) : FSimE cfg (fuel + 1) := by
  intro limit ef l x d0 h t sl acc P0 P hvals h0 hb
  have gokd : PL.GeoOK x.d.g := by rw [P.fr.g]; exact P0.gok
  rw [fparseElems_succ, fparseElems0_succ]
  unfold fpeHead_f fpeHead0
  cases hA : ef.allow with
  | true =>
    simp only [↓reduceIte]
    generalize hadd : x.d.addElement l = r
    obtain ⟨m, d1⟩ := r
    cases m with
    | none =>
      simp only
      have := (allocVariant_none gokd P.fr.pool (sim_addElement_none hadd)).2.1
      exact Or.inr ⟨this, Or.inl rfl⟩
    | some id =>
      simp only
      obtain ⟨pre1, hov1, hstep⟩ := sim_arr_step P0 P hadd
      have hsim := hV limit ef (.slot id) { s := x.s, d := d1, b := x.b } pre1 (by rw [hov1]; exact h0) hb
      generalize JDDF.parseVariant cfg fuel limit ef (.slot id) { s := x.s, d := d1, b := x.b } = rv at hsim
      generalize JD.fparseVariant cfg fuel limit ef x.s = rv0 at hsim
      obtain ⟨c, x2⟩ := rv
      obtain ⟨c0, v0, s0⟩ := rv0
      rcases hsim with ⟨o2, hc, hs2, hb2, ve, se, P2, hval⟩ | ⟨o2, hc⟩
      · simp only at o2 hc hs2 hb2 P2 hval
        subst hc hs2
        obtain ⟨Pn, hvn⟩ := hstep x2.d ve se P2
        rw [hval] at hvn
        have hvals' : (vals x2.d noOv (sl.snocS none id se)).map (·.2) = (v0 :: acc).reverse := by
          rw [hvn, List.map_append, hvals]; simp
        have hno : ∀ {e : Code}, x2.d.overflowed = true → e ≠ .ok := fun h => by rw [o2] at h; cases h
        cases c
        case ok =>
          simp only
          exact fsim_peTail cfg fuel hE P0 Pn hvals' o2 hb2
        all_goals exact Sim.exit rfl hb2 (sim_arr_post Pn hvals') hno
      · simp only at o2 hc
        rcases hc with e | ⟨e1, e2, e3⟩
        · subst e
          exact Or.inr ⟨o2, Or.inl rfl⟩
        · subst e1
          cases c
          case ok => exact absurd rfl e2
          all_goals exact Or.inr ⟨o2, Or.inr ⟨rfl, e2, e3⟩⟩
  | false =>
    simp only [Bool.false_eq_true, ↓reduceIte]
    generalize skipVariant cfg fuel limit x.s = r
    obtain ⟨c, s1⟩ := r
    have hno : ∀ {e : Code}, x.d.overflowed = true → e ≠ .ok := fun h => by rw [h0] at h; cases h
    cases c
    case ok =>
      simp only
      exact fsim_peTail cfg fuel hE (x := { s := s1, d := x.d, b := x.b }) P0 P hvals h0 hb
    all_goals exact Sim.exit rfl hb (sim_arr_post P hvals) hno

/-! ## `parseMembers` cut into pieces -/

def fpmTail_f (cfg : Cfg) (fuel limit : Nat) (flt : Flt) (l : Loc) (x : S) : Code × S :=
  match skipSpaces cfg (fuel+1) x.s with
  | (.ok, s) =>
    let (c, s) := cur s
    if c == 0x7D then (.ok, { x with s := mv s })
    else if c == 0x2C then
      match skipSpaces cfg (fuel+1) (mv s) with
      | (.ok, s) => JDDF.parseMembers cfg fuel limit flt l { x with s := s }
      | (e, s) => (e, { x with s := s })
    else (.invalid, { x with s := s })
  | (e, s) => (e, { x with s := s })

/-- the member value: built in the slot `getMember` provides, or skipped -/
def fpmHead_f (cfg : Cfg) (fuel limit : Nat) (mf : Flt) (l : Loc) (key : List Byte) (x : S) : Code × S :=
  if mf.allow then
    match sim_pmSlot_f l key x with
    | (none, x) => (.noMemory, x)
    | (some v, x) => JDDF.parseVariant cfg fuel limit mf (.slot v) x
  else
    match skipVariant cfg fuel limit x.s with
    | (e, s) => (e, { x with s := s })

def fpmRest_f (cfg : Cfg) (fuel limit : Nat) (flt : Flt) (l : Loc) (key : List Byte) (x : S) : Code × S :=
  match skipSpaces cfg (fuel+1) x.s with
  | (.ok, s) =>
    let (c, s) := cur s
    let x := { x with s := s }
    if c != 0x3A then (.invalid, x) else
    let x := { x with s := mv x.s }
    match fpmHead_f cfg fuel limit (flt.subKey key) l key x with
    | (.ok, x) => fpmTail_f cfg fuel limit flt l x
    | r => r
  | (e, s) => (e, { x with s := s })

theorem fparseMembers_succ (cfg : Cfg) (fuel limit : Nat) (flt : Flt) (l : Loc) (x : S) :
    JDDF.parseMembers cfg (fuel+1) limit flt l x =
      match sim_pmKey_f cfg fuel (cur x.s).1 { x with s := (cur x.s).2 } with
      | (.ok, key, x) => fpmRest_f cfg fuel limit flt l key x
      | (e, _, x) => (e, x) := by
  simp only [JDDF.parseMembers, sim_pmKey_f, fpmRest_f, fpmHead_f, sim_pmSlot_f, fpmTail_f]
  rfl

def fpmTail0 (cfg : Cfg) (fuel limit : Nat) (flt : Flt) (s : St) (ms : List (List Byte × Val)) : Code × Val × St :=
  match skipSpaces cfg (fuel+1) s with
  | (.ok, s) =>
    let (c, s) := cur s
    if c == 0x7D then (.ok, .obj ms, mv s)
    else if c == 0x2C then
      match skipSpaces cfg (fuel+1) (mv s) with
      | (.ok, s) => JD.fparseMembers cfg fuel limit flt s ms
      | (e, s) => (e, .obj ms, s)
    else (.invalid, .obj ms, s)
  | (e, s) => (e, .obj ms, s)

def fpmHead0 (cfg : Cfg) (fuel limit : Nat) (mf : Flt) (key : List Byte) (s : St) (ms : List (List Byte × Val)) :
    Code × List (List Byte × Val) × St :=
  if mf.allow then
    match JD.fparseVariant cfg fuel limit mf s with
    | (e, v, s) => (e, setMember ms key v, s)
  else
    match skipVariant cfg fuel limit s with
    | (e, s) => (e, ms, s)

def fpmRest0 (cfg : Cfg) (fuel limit : Nat) (flt : Flt) (key : List Byte) (s : St) (ms : List (List Byte × Val)) :
    Code × Val × St :=
  match skipSpaces cfg (fuel+1) s with
  | (.ok, s) =>
    let (c, s) := cur s
    if c != 0x3A then (.invalid, .obj ms, s) else
    let s := mv s
    let (e, ms, s) : Code × List (List Byte × Val) × St := fpmHead0 cfg fuel limit (flt.subKey key) key s ms
    match e with
    | .ok => fpmTail0 cfg fuel limit flt s ms
    | e => (e, .obj ms, s)
  | (e, s) => (e, .obj ms, s)

theorem fparseMembers0_succ (cfg : Cfg) (fuel limit : Nat) (flt : Flt) (s : St) (ms : List (List Byte × Val)) :
    JD.fparseMembers cfg (fuel+1) limit flt s ms =
      match sim_pmKey0 cfg fuel (cur s).1 (cur s).2 with
      | (.ok, key, s) => fpmRest0 cfg fuel limit flt key s ms
      | (e, _, s) => (e, .obj ms, s) := by
  simp only [JD.fparseMembers, sim_pmKey0, fpmRest0, fpmHead0, fpmTail0]
  rfl

/-! ## Simulation of the pieces -/

theorem fsim_pmTail (cfg : Cfg) (fuel : Nat) (hM : FSimM cfg fuel) {limit : Nat} {flt : Flt} {l : Loc} {x : S} {d0 : Doc}
    {h t : Nat} {sl : Forest} {ms : List (List Byte × Val)} (P0 : Pre d0 l) (P : Post d0 x.d l (.obj h t) sl)
    (hvals : vals x.d noOv sl = ms) (h0 : x.d.overflowed = false) (hb : sim_BOK cfg x.b) :
    Sim cfg d0 l (fpmTail_f cfg fuel limit flt l x) (fpmTail0 cfg fuel limit flt x.s ms) := by
  have hP := sim_obj_post P hvals
  have hno : ∀ {e : Code}, x.d.overflowed = true → e ≠ .ok := fun h => by rw [h0] at h; cases h
  simp only [fpmTail_f, fpmTail0]
  generalize hsk : skipSpaces cfg (fuel + 1) x.s = r3
  obtain ⟨c2, s2⟩ := r3
  cases c2
  case ok =>
    simp only
    generalize hcur : cur s2 = r4
    obtain ⟨e, s3⟩ := r4
    simp only
    by_cases h7D : (e == 0x7D) = true
    · simp only [h7D, ↓reduceIte]
      exact Sim.exit rfl hb hP hno
    · simp only [h7D, ↓reduceIte]
      by_cases h2C : (e == 0x2C) = true
      · simp only [h2C, ↓reduceIte]
        generalize hsk2 : skipSpaces cfg (fuel + 1) (mv s3) = r5
        obtain ⟨c3, s4⟩ := r5
        cases c3
        case ok =>
          simp only
          exact hM limit flt l { s := s4, d := x.d, b := x.b } d0 _ _ _ ms P0 P hvals h0 hb
        all_goals exact Sim.exit rfl hb hP hno
      · simp only [h2C, ↓reduceIte]
        exact Sim.exit rfl hb hP hno
  all_goals exact Sim.exit rfl hb hP hno

/-- outcome relation for the member-value piece: the object under construction with the abstract member list -/
def HSim (cfg : Cfg) (d0 : Doc) (l : Loc) (r : Code × S) (r0 : Code × List (List Byte × Val) × St) : Prop :=
  (r.2.d.overflowed = false ∧ r.1 = r0.1 ∧ r.2.s = r0.2.2 ∧ sim_BOK cfg r.2.b ∧
     ∃ h t sl, Post d0 r.2.d l (.obj h t) sl ∧ vals r.2.d noOv sl = r0.2.1) ∨
  (r.2.d.overflowed = true ∧ (r.1 = .noMemory ∨ (r.1 = r0.1 ∧ r.1 ≠ .ok ∧ r.2.s = r0.2.2)))

/-- the member value: an allowed member is `getMember` + `parseVariant` (as in the unfiltered deserializer), a member that is
    not allowed is skipped on the reader, the object is the one before -/
theorem fsim_pmHead (cfg : Cfg) (fuel : Nat) (hV : FSimV cfg fuel) {limit : Nat} {mf : Flt} {l : Loc} {key : List Byte}
    {x : S} {d0 : Doc} {h t : Nat} {sl : Forest} {ms : List (List Byte × Val)} (P0 : Pre d0 l)
    (P : Post d0 x.d l (.obj h t) sl) (hvals : vals x.d noOv sl = ms) (h0 : x.d.overflowed = false) (hb : sim_BOK cfg x.b) :
    HSim cfg d0 l (fpmHead_f cfg fuel limit mf l key x) (fpmHead0 cfg fuel limit mf key x.s ms) := by
  unfold fpmHead_f fpmHead0
  cases hA : mf.allow with
  | true =>
    simp only [↓reduceIte]
    rcases sim_pmSlot cfg (key := key) (x := x) P0 P hvals h0 hb with ⟨e1, e2⟩ | ⟨v, e1, e2, pre, ov, bok, fill⟩
    · generalize sim_pmSlot_f l key x = q at *
      obtain ⟨m, xs⟩ := q
      simp only at e1 e2
      subst e1
      exact Or.inr ⟨e2, Or.inl rfl⟩
    · generalize sim_pmSlot_f l key x = q at *
      obtain ⟨m, xs⟩ := q
      simp only at e1 e2 pre ov bok fill
      subst e1
      simp only
      have hsim := hV limit mf (.slot v) xs pre ov bok
      rw [e2] at hsim
      generalize JDDF.parseVariant cfg fuel limit mf (.slot v) xs = rv at hsim
      generalize JD.fparseVariant cfg fuel limit mf x.s = rv0 at hsim
      obtain ⟨c, x2⟩ := rv
      obtain ⟨c0, v0, s0⟩ := rv0
      rcases hsim with ⟨o2, hc, hs2, hb2, ve, se, P2, hval⟩ | ⟨o2, hc⟩
      · simp only at o2 hc hs2 hb2 P2 hval
        obtain ⟨h', t', s', Pn, hvn⟩ := fill x2.d ve se P2
        rw [hval] at hvn
        exact Or.inl ⟨o2, hc, hs2, hb2, h', t', s', Pn, hvn⟩
      · exact Or.inr ⟨o2, hc⟩
  | false =>
    simp only [Bool.false_eq_true, ↓reduceIte]
    exact Or.inl ⟨h0, rfl, rfl, hb, h, t, sl, P, hvals⟩

theorem fsim_pmRest (cfg : Cfg) (fuel : Nat) (hV : FSimV cfg fuel) (hM : FSimM cfg fuel) {limit : Nat} {flt : Flt} {l : Loc}
    {key : List Byte} {x : S} {d0 : Doc} {h t : Nat} {sl : Forest} {ms : List (List Byte × Val)} (P0 : Pre d0 l)
    (P : Post d0 x.d l (.obj h t) sl) (hvals : vals x.d noOv sl = ms) (h0 : x.d.overflowed = false) (hb : sim_BOK cfg x.b) :
    Sim cfg d0 l (fpmRest_f cfg fuel limit flt l key x) (fpmRest0 cfg fuel limit flt key x.s ms) := by
  have hP := sim_obj_post P hvals
  have hno : ∀ {e : Code}, x.d.overflowed = true → e ≠ .ok := fun h => by rw [h0] at h; cases h
  simp only [fpmRest_f, fpmRest0]
  generalize hsk : skipSpaces cfg (fuel + 1) x.s = r3
  obtain ⟨c2, s2⟩ := r3
  cases c2
  case ok =>
    simp only
    generalize hcur : cur s2 = r4
    obtain ⟨e, s3⟩ := r4
    simp only
    by_cases h3A : (e != 0x3A) = true
    · simp only [h3A, ↓reduceIte]
      exact Sim.exit rfl hb hP hno
    · simp only [h3A, ↓reduceIte]
      have hh := fsim_pmHead cfg fuel hV (limit := limit) (mf := flt.subKey key) (key := key)
        (x := { s := mv s3, d := x.d, b := x.b }) P0 P hvals h0 hb
      generalize fpmHead_f cfg fuel limit (flt.subKey key) l key { s := mv s3, d := x.d, b := x.b } = q at hh
      generalize fpmHead0 cfg fuel limit (flt.subKey key) key (mv s3) ms = q0 at hh
      obtain ⟨c, x2⟩ := q
      obtain ⟨c0, ms', s0⟩ := q0
      rcases hh with ⟨o2, hc, hs2, hb2, h', t', s', Pn, hvn⟩ | ⟨o2, hc⟩
      · simp only at o2 hc hs2 hb2 Pn hvn
        subst hc hs2
        have hno2 : ∀ {e : Code}, x2.d.overflowed = true → e ≠ .ok := fun h => by rw [o2] at h; cases h
        cases c
        case ok =>
          simp only
          exact fsim_pmTail cfg fuel hM P0 Pn hvn o2 hb2
        all_goals exact Sim.exit rfl hb2 (sim_obj_post Pn hvn) hno2
      · simp only at o2 hc
        rcases hc with e | ⟨e1, e2, e3⟩
        · subst e
          exact Or.inr ⟨o2, Or.inl rfl⟩
        · subst e1
          cases c
          case ok => exact absurd rfl e2
          all_goals exact Or.inr ⟨o2, Or.inr ⟨rfl, e2, e3⟩⟩
  all_goals exact Sim.exit rfl hb hP hno

theorem fsim_pm_step (cfg : Cfg) (h31 : 31 ≤ cfg.maxStrLen) (fuel : Nat) (hV : FSimV cfg fuel) (hM : FSimM cfg fuel) :
    FSimM cfg (fuel + 1) := by
  intro limit flt l x d0 h t sl ms P0 P hvals h0 hb
  rw [fparseMembers_succ, fparseMembers0_succ]
  obtain ⟨k1, k2, k3, k4, k5, k6⟩ := sim_pmKey cfg h31 fuel (cur x.s).1 { s := (cur x.s).2, d := x.d, b := x.b }
    P.fr.pool hb h0
  generalize sim_pmKey_f cfg fuel (cur x.s).1 { s := (cur x.s).2, d := x.d, b := x.b } = kr at *
  generalize sim_pmKey0 cfg fuel (cur x.s).1 (cur x.s).2 = kr0 at *
  obtain ⟨kc, key, xk⟩ := kr
  obtain ⟨kc0, key0, sk0⟩ := kr0
  simp only at k1 k2 k3 k4 k5 k6
  subst k1 k2
  have hfr : Fr x.d xk.d [] := Fr.of_grow k3 (fun h => by rw [h0] at h; cases h) []
  obtain ⟨PK, hvK⟩ := P.frame P0 hfr
  have hvalsK : vals xk.d noOv sl = ms := by
    have : Val.obj (vals xk.d noOv sl) = Val.obj (vals x.d noOv sl) := hvK
    injection this with this
    rw [this, hvals]
  cases ho : xk.d.overflowed with
  | false =>
    have hc := k5 ho
    subst hc
    cases kc
    case ok =>
      simp only
      exact fsim_pmRest cfg fuel hV hM P0 PK hvalsK ho k4
    all_goals exact Sim.exit rfl k4 (sim_obj_post PK hvalsK) (fun h => by rw [ho] at h; cases h)
  | true =>
    rcases k6 ho with e | ⟨e1, e2⟩
    · subst e
      exact Or.inr ⟨ho, Or.inl rfl⟩
    · subst e1
      cases kc
      case ok => exact absurd rfl e2
      all_goals exact Or.inr ⟨ho, Or.inr ⟨rfl, e2, rfl⟩⟩

/-- THE SIMULATION, filtered: for every fuel and every filter, the three slot-level routines of `JDDF` are simulated by the
    value-level filtered routines -/
theorem sim_all (cfg : Cfg) (h31 : 31 ≤ cfg.maxStrLen) : ∀ fuel, FSimV cfg fuel ∧ FSimE cfg fuel ∧ FSimM cfg fuel := by
  intro fuel
  induction fuel with
  | zero => exact ⟨fsim_pv_zero cfg, fsim_pe_zero cfg, fsim_pm_zero cfg⟩
  | succ n ih =>
    obtain ⟨hV, hE, hM⟩ := ih
    exact ⟨fsim_pv_step cfg h31 n hE hM, fsim_pe_step cfg n hV hE, fsim_pm_step cfg h31 n hV hM⟩

end JDDF
