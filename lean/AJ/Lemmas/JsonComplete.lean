/- Completeness of the JSON deserializer model w.r.t. the RFC 8259 specification `Spec.Json`:
   helper lemmas (states, whitespace, scalars, numbers) and the mutual induction over derivations. -/
import AJ.Spec.Json
import AJ.Lemmas.Latch
import AJ.Lemmas.Quoted
import AJ.Lemmas.Digits
import AJ.Lemmas.NumLit
import AJ.Props.C17
set_option linter.unusedSimpArgs false
namespace JD
open Spec.Json

/-! ## Parser positions

`At s u p f`   : `s` is unloaded, `u` is still unread, `p` bytes were taken (`Latch.lean`).
`Seen s u p f` : `s` is what `current()` makes of such a state: the first byte of `u` (or the end marker) is latched.
`Pos s u p f`  : `s` behaves like such a state under `current()`; covers both. Every routine of the parser starts
                 with `current()`, hence cannot distinguish the two. -/

def Seen (s : St) (u : List Byte) (p : Nat) (f : Bool) : Prop := ∃ s0, At s0 u p f ∧ s = (cur s0).2
def Pos (s : St) (u : List Byte) (p : Nat) (f : Bool) : Prop := ∃ s0, At s0 u p f ∧ cur s = cur s0

theorem At.pos {s u p f} (h : At s u p f) : Pos s u p f := ⟨s, h, rfl⟩
theorem Seen.pos {s u p f} (h : Seen s u p f) : Pos s u p f := by
  obtain ⟨s0, h0, rfl⟩ := h
  exact ⟨s0, h0, cur_cur s0⟩

theorem Seen.cur_cons {X c r p f} (h : Seen X (c :: r) p f) : cur X = (c, X) := by
  obtain ⟨s0, h0, rfl⟩ := h
  rw [h0.cur]; exact cur_ld s0 c r

theorem Seen.cur_nil {X p f} (h : Seen X [] p f) : cur X = (0, X) := by
  obtain ⟨s0, h0, rfl⟩ := h
  rw [JD.cur_nil h0.1 h0.2.1]; exact cur_loaded rfl

theorem Seen.mv {X c r p f} (h : Seen X (c :: r) p f) : At (mv X) r (p + 1) f := by
  obtain ⟨s0, h0, rfl⟩ := h
  rw [h0.cur]; exact h0.adv

theorem Seen.fields_cons {X c r p f} (h : Seen X (c :: r) p f) : X.l.pos = p + 1 ∧ X.l.cur = c := by
  obtain ⟨s0, h0, rfl⟩ := h
  rw [h0.cur]; exact ⟨by simp [h0.2.2.1], rfl⟩

theorem Seen.fields_nil {X p f} (h : Seen X [] p f) : X.l.pos = p ∧ X.l.cur = 0 := by
  obtain ⟨s0, h0, rfl⟩ := h
  rw [JD.cur_nil h0.1 h0.2.1]; exact ⟨h0.2.2.1, rfl⟩

/-- the latch of a state that has looked ahead: the next byte (0 at the end) is held, the bytes after it unread -/
theorem Seen.fields {X u p f} (h : Seen X u p f) :
    X.l.loaded = true ∧ X.l.cur = u.headD 0 ∧ X.l.unread = u.tail ∧ X.l.pos = p + min 1 u.length ∧ X.found = f := by
  obtain ⟨s0, h0, rfl⟩ := h
  cases u with
  | nil => rw [JD.cur_nil h0.1 h0.2.1]; exact ⟨rfl, rfl, h0.2.1, h0.2.2.1, h0.2.2.2⟩
  | cons c r =>
    rw [h0.cur]
    refine ⟨rfl, rfl, rfl, ?_, h0.2.2.2⟩
    simp [h0.2.2.1]

theorem Seen.setFound {X u p f} (h : Seen X u p f) : Seen (setFound X) u p true := by
  obtain ⟨s0, h0, rfl⟩ := h
  exact ⟨JD.setFound s0, ⟨h0.1, h0.2.1, h0.2.2.1, rfl⟩, rfl⟩

theorem Pos.cur_cons {s c r p f} (h : Pos s (c :: r) p f) : ∃ X, cur s = (c, X) ∧ Seen X (c :: r) p f := by
  obtain ⟨s0, h0, he⟩ := h
  exact ⟨(cur s0).2, by rw [he, h0.cur], s0, h0, rfl⟩

theorem Pos.cur_nil {s p f} (h : Pos s [] p f) : ∃ X, cur s = (0, X) ∧ Seen X [] p f := by
  obtain ⟨s0, h0, he⟩ := h
  exact ⟨(cur s0).2, by rw [he, JD.cur_nil h0.1 h0.2.1], s0, h0, rfl⟩

/-! ## Whitespace -/

/-- a byte that starts a token: not the end marker, not white space, not the comment introducer -/
def Tok (c : Byte) : Prop := c ≠ 0 ∧ isWs c = false ∧ c ≠ 0x2F
instance (c : Byte) : Decidable (Tok c) := by unfold Tok; infer_instance

theorem ws_byte {c : Byte} (h : c = 0x20 ∨ c = 0x09 ∨ c = 0x0A ∨ c = 0x0D) : c ≠ 0 ∧ isWs c = true := by
  rcases h with rfl | rfl | rfl | rfl <;> exact ⟨by decide, by decide⟩

instance (w : List Byte) : Decidable (Ws w) := by unfold Ws; infer_instance

theorem ws_nil : Ws [] := by intro c h; cases h
theorem ws_tail {c : Byte} {w : List Byte} (h : Ws (c :: w)) : Ws w := fun x hx => h x (List.mem_cons_of_mem _ hx)
theorem ws_head {c : Byte} {w : List Byte} (h : Ws (c :: w)) : c ≠ 0 ∧ isWs c = true := ws_byte (h c (List.mem_cons_self ..))

theorem Seen.found {X u p f} (h : Seen X u p f) : X.found = f := by
  obtain ⟨s0, h0, rfl⟩ := h
  exact h0.2.2.2

theorem setFound_eq {X : St} (h : X.found = true) : setFound X = X := by
  cases X; simp only [setFound] at *; simp [h]

/-- `skipSpaces` over RFC white space stops on the next token, which it latches (the same state for every
    sufficient fuel) -/
theorem skipSpaces_ws (cfg : Cfg) {c : Byte} {r : List Byte} (hc : Tok c) (w : List Byte) (hw : Ws w) :
    ∀ (s : St) (p : Nat) (f : Bool), Pos s (w ++ c :: r) p f →
      ∃ X, Seen X (c :: r) (p + w.length) true ∧ ∀ n, w.length < n → skipSpaces cfg n s = (.ok, X) := by
  induction w with
  | nil =>
    intro s p f h
    obtain ⟨X, hX, hS⟩ := Pos.cur_cons (by simpa using h)
    have e0 : (c == 0) = false := by simpa using hc.1
    have e1 : (c == 0x2F) = false := by simpa using hc.2.2
    refine ⟨setFound X, by simpa using hS.setFound, ?_⟩
    intro n hn
    obtain ⟨m, rfl⟩ : ∃ m, n = m + 1 := ⟨n - 1, by simp at hn; omega⟩
    simp only [skipSpaces, hX, e0, hc.2.1, e1, Bool.and_false, Bool.false_eq_true, ↓reduceIte]
    rfl
  | cons a w ih =>
    intro s p f h
    obtain ⟨X, hX, hS⟩ := Pos.cur_cons (by simpa using h)
    obtain ⟨a0, aw⟩ := ws_head hw
    have e0 : (a == 0) = false := by simpa using a0
    obtain ⟨Y, hS', hY⟩ := ih (ws_tail hw) (mv X) (p + 1) f hS.mv.pos
    refine ⟨Y, ?_, ?_⟩
    · have : p + 1 + w.length = p + (a :: w).length := by simp; omega
      rw [← this]; exact hS'
    · intro n hn
      obtain ⟨m, rfl⟩ : ∃ m, n = m + 1 := ⟨n - 1, by simp at hn; omega⟩
      simp only [skipSpaces, hX, e0, aw, Bool.false_eq_true, ↓reduceIte, hY m (by simp at hn; omega)]

/-- on a latched token `skipSpaces` does nothing -/
theorem skipSpaces_seen (cfg : Cfg) {X : St} {c : Byte} {r : List Byte} {p : Nat} (hc : Tok c)
    (h : Seen X (c :: r) p true) (n : Nat) : skipSpaces cfg (n + 1) X = (.ok, X) := by
  have e0 : (c == 0) = false := by simpa using hc.1
  have e1 : (c == 0x2F) = false := by simpa using hc.2.2
  simp only [skipSpaces, h.cur_cons, e0, hc.2.1, e1, Bool.and_false, Bool.false_eq_true, ↓reduceIte]
  exact congrArg (Prod.mk Code.ok) (setFound_eq h.found)

/-! ## Keywords -/

theorem kw_null : "null".toUTF8.toList = [0x6E, 0x75, 0x6C, 0x6C] := by decide +kernel
theorem kw_true : "true".toUTF8.toList = [0x74, 0x72, 0x75, 0x65] := by decide +kernel
theorem kw_false : "false".toUTF8.toList = [0x66, 0x61, 0x6C, 0x73, 0x65] := by decide +kernel

theorem skipKeyword_ok (ks : List Byte) (hk : ∀ k ∈ ks, k ≠ 0) :
    ∀ (s : St) (r : List Byte) (p : Nat) (f : Bool), Pos s (ks ++ r) p f → ks ≠ [] →
      ∃ s', skipKeyword ks s = (.ok, s') ∧ At s' r (p + ks.length) f := by
  induction ks with
  | nil => intro s r p f _ h; exact absurd rfl h
  | cons k ks ih =>
    intro s r p f h _
    obtain ⟨X, hX, hS⟩ := Pos.cur_cons (by simpa using h)
    have e0 : (k == 0) = false := by simpa using hk k (List.mem_cons_self ..)
    have step : skipKeyword (k :: ks) s = skipKeyword ks (mv X) := by
      simp only [skipKeyword, hX, e0, bne_self_eq_false, Bool.false_eq_true, ↓reduceIte]
    cases ks with
    | nil =>
      refine ⟨mv X, by rw [step]; rfl, ?_⟩
      simpa using hS.mv
    | cons k2 ks2 =>
      obtain ⟨s', h1, h2⟩ := ih (fun x hx => hk x (List.mem_cons_of_mem _ hx)) (mv X) r (p + 1) f hS.mv.pos (by simp)
      refine ⟨s', by rw [step, h1], ?_⟩
      have : p + 1 + (k2 :: ks2).length = p + (k :: k2 :: ks2).length := by simp; omega
      rw [← this]; exact h2

/-! ## Numbers: the scanner reads exactly the literal -/

/-- the bytes a number literal of the RFC is made of -/
def NumCh (c : Byte) : Prop := (0x30 ≤ c ∧ c ≤ 0x39) ∨ c = 0x2B ∨ c = 0x2D ∨ c = 0x2E ∨ c = 0x65 ∨ c = 0x45

theorem inNumber_numCh (cfg : Cfg) {c : Byte} (h : NumCh c) : inNumber cfg c = true := by
  unfold inNumber
  generalize (cfg.nan || cfg.inf) = b
  rcases h with h | rfl | rfl | rfl | rfl | rfl
  · simp [h.1, h.2]
  all_goals (cases b <;> decide)

theorem inNumber_zero (cfg : Cfg) : inNumber cfg 0 = false := by
  unfold inNumber
  generalize (cfg.nan || cfg.inf) = b
  cases b <;> decide

/-- what follows cannot continue a number (the end of the input qualifies) -/
def Delim (cfg : Cfg) (rest : List Byte) : Prop := ∀ c r, rest = c :: r → inNumber cfg c = false

theorem scanNumber_lit (cfg : Cfg) {rest : List Byte} (hd : Delim cfg rest) (lit : List Byte)
    (hl : ∀ c ∈ lit, inNumber cfg c = true) :
    ∀ (n : Nat) (acc : List Byte) (s : St) (p : Nat) (f : Bool), Pos s (lit ++ rest) p f → lit.length ≤ n →
      ∃ X, scanNumber cfg n acc s = (acc.reverse ++ lit, X) ∧ Seen X rest (p + lit.length) f := by
  induction lit with
  | nil =>
    intro n acc s p f h _
    have h' : Pos s rest p f := by simpa using h
    cases rest with
    | nil =>
      obtain ⟨X, hX, hS⟩ := Pos.cur_nil h'
      refine ⟨X, ?_, by simpa using hS⟩
      cases n with
      | zero => simp only [scanNumber, hX, List.append_nil]
      | succ m => simp only [scanNumber, hX, inNumber_zero, Bool.false_eq_true, ↓reduceIte, List.append_nil]
    | cons c r =>
      obtain ⟨X, hX, hS⟩ := Pos.cur_cons h'
      refine ⟨X, ?_, by simpa using hS⟩
      cases n with
      | zero => simp only [scanNumber, hX, List.append_nil]
      | succ m => simp only [scanNumber, hX, hd c r rfl, Bool.false_eq_true, ↓reduceIte, List.append_nil]
  | cons a lit ih =>
    intro n acc s p f h hn
    obtain ⟨m, rfl⟩ : ∃ m, n = m + 1 := ⟨n - 1, by simp at hn; omega⟩
    obtain ⟨X, hX, hS⟩ := Pos.cur_cons (by simpa using h)
    obtain ⟨Y, hY, hS'⟩ := ih (fun c hc => hl c (List.mem_cons_of_mem _ hc)) m (a :: acc) (mv X) (p + 1) f hS.mv.pos
      (by simp at hn; omega)
    refine ⟨Y, ?_, ?_⟩
    · simp only [scanNumber, hX, hl a (List.mem_cons_self ..), ↓reduceIte, hY]
      simp
    · have : p + 1 + lit.length = p + (a :: lit).length := by simp; omega
      rw [← this]; exact hS'

theorem parseNumeric_eq (cfg : Cfg) (s : St) :
    parseNumeric cfg s =
      ((pnumResult (parseNumber cfg (scanNumber cfg 63 [] s).1)).1,
       (pnumResult (parseNumber cfg (scanNumber cfg 63 [] s).1)).2, (scanNumber cfg 63 [] s).2) := by
  have e : Gen.number_buffer - 1 = 63 := rfl
  simp only [parseNumeric, e]
  generalize scanNumber cfg 63 [] s = q
  obtain ⟨buf, X⟩ := q
  simp only
  cases parseNumber cfg buf <;> rfl

theorem numLit_chars {lit : List Byte} (h : NumLit lit) : ∀ c ∈ lit, NumCh c := by
  obtain ⟨_, sg, ip, f, e, hsg, hip, hf, he, rfl⟩ := h
  intro c hc
  simp only [List.mem_append] at hc
  rcases hc with ((hc | hc) | hc) | hc
  · rcases hsg with rfl | rfl
    · cases hc
    · simp at hc; subst hc; right; right; left; rfl
  · rcases hip with rfl | ⟨hd, _⟩
    · simp at hc; subst hc; left; decide
    · left; exact hd.2 c hc
  · rcases hf with rfl | ⟨ds, hd, rfl⟩
    · cases hc
    · rcases List.mem_cons.mp hc with rfl | hc
      · right; right; right; left; rfl
      · left; exact hd.2 c hc
  · rcases he with rfl | ⟨x, sg', ds, hx, hsg', hd, rfl⟩
    · cases hc
    · rcases List.mem_cons.mp hc with rfl | hc
      · rcases hx with rfl | rfl
        · right; right; right; right; left; rfl
        · right; right; right; right; right; rfl
      · rcases List.mem_append.mp hc with hc | hc
        · rcases hsg' with rfl | rfl | rfl
          · cases hc
          · simp at hc; subst hc; right; left; rfl
          · simp at hc; subst hc; right; right; left; rfl
        · left; exact hd.2 c hc

/-- first byte of a number literal -/
def NumStart (c : Byte) : Prop := c = 0x2D ∨ (0x30 ≤ c ∧ c ≤ 0x39)

theorem intPart_head {ip : List Byte} (h : IntPart ip) : ∃ d ds, ip = d :: ds ∧ (0x30 ≤ d ∧ d ≤ 0x39) := by
  rcases h with rfl | ⟨⟨hne, hd⟩, _⟩
  · exact ⟨0x30, [], rfl, by decide⟩
  · cases ip with
    | nil => exact absurd rfl hne
    | cons d ds => exact ⟨d, ds, rfl, hd d (List.mem_cons_self ..)⟩

theorem numLit_head {lit : List Byte} (h : NumLit lit) : ∃ c cs, lit = c :: cs ∧ NumStart c := by
  obtain ⟨_, sg, ip, f, e, hsg, hip, hf, he, rfl⟩ := h
  obtain ⟨d, ds, rfl, hd⟩ := intPart_head hip
  rcases hsg with rfl | rfl
  · exact ⟨d, ds ++ f ++ e, by simp, Or.inr hd⟩
  · exact ⟨0x2D, d :: ds ++ f ++ e, by simp, Or.inl rfl⟩

theorem numStart_facts {c : Byte} (h : NumStart c) :
    Tok c ∧ (c == 0x5B) = false ∧ (c == 0x7B) = false ∧ (c == 0x22) = false ∧ (c == 0x27) = false ∧
    (c == 0x74) = false ∧ (c == 0x66) = false ∧ (c == 0x6E) = false ∧ c ≠ 0x5D ∧ c ≠ 0x7D := by
  have key : ∀ c : UInt8, ((!(c == 0x2D || (decide (0x30 ≤ c) && decide (c ≤ 0x39)))) ||
      (c != 0 && !isWs c && c != 0x2F && c != 0x5B && c != 0x7B && c != 0x22 && c != 0x27 && c != 0x74 && c != 0x66 &&
        c != 0x6E && c != 0x5D && c != 0x7D)) = true := by
    apply Bits.all_bytes; decide +kernel
  have hk := key c
  have hs : (c == 0x2D || (decide (0x30 ≤ c) && decide (c ≤ 0x39))) = true := by
    rcases h with rfl | h
    · decide
    · simp [h.1, h.2]
  rw [hs] at hk
  simp only [Bool.not_true, Bool.false_or, Bool.and_eq_true, bne_iff_ne, ne_eq, Bool.not_eq_true'] at hk
  obtain ⟨⟨⟨⟨⟨⟨⟨⟨⟨⟨⟨a1, a2⟩, a3⟩, a4⟩, a5⟩, a6⟩, a7⟩, a8⟩, a9⟩, a10⟩, a11⟩, a12⟩ := hk
  refine ⟨⟨a1, a2, a3⟩, ?_, ?_, ?_, ?_, ?_, ?_, ?_, a11, a12⟩ <;> simpa

/-! ## Scalars through `parseVariant` -/

theorem pv_null (cfg : Cfg) {fuel L : Nat} {w rest : List Byte} {s : St} {p : Nat} {f : Bool}
    (hw : Ws w) (h : Pos s (w ++ ([0x6E, 0x75, 0x6C, 0x6C] ++ rest)) p f) (hf : w.length < fuel) :
    ∃ s', parseVariant cfg fuel L s = (.ok, .null, s') ∧ At s' rest (p + w.length + 4) true := by
  obtain ⟨n, rfl⟩ : ∃ n, fuel = n + 1 := ⟨fuel - 1, by omega⟩
  have tok : Tok 0x6E := by decide
  obtain ⟨X, hS, hX⟩ := skipSpaces_ws cfg (r := 0x75 :: 0x6C :: 0x6C :: rest) tok w hw s p f (by simpa using h)
  obtain ⟨s', h1, h2⟩ := skipKeyword_ok [0x6E, 0x75, 0x6C, 0x6C] (by decide) X rest (p + w.length) true
    (by simpa using hS.pos) (by simp)
  refine ⟨s', ?_, by simpa using h2⟩
  simp (config := { decide := true }) only [parseVariant, hX (n + 1) hf, hS.cur_cons, kw_null, h1, ↓reduceIte,
    Bool.false_eq_true, Bool.or_self]

theorem pv_true (cfg : Cfg) {fuel L : Nat} {w rest : List Byte} {s : St} {p : Nat} {f : Bool}
    (hw : Ws w) (h : Pos s (w ++ ([0x74, 0x72, 0x75, 0x65] ++ rest)) p f) (hf : w.length < fuel) :
    ∃ s', parseVariant cfg fuel L s = (.ok, .bool true, s') ∧ At s' rest (p + w.length + 4) true := by
  obtain ⟨n, rfl⟩ : ∃ n, fuel = n + 1 := ⟨fuel - 1, by omega⟩
  have tok : Tok 0x74 := by decide
  obtain ⟨X, hS, hX⟩ := skipSpaces_ws cfg (r := 0x72 :: 0x75 :: 0x65 :: rest) tok w hw s p f (by simpa using h)
  obtain ⟨s', h1, h2⟩ := skipKeyword_ok [0x74, 0x72, 0x75, 0x65] (by decide) X rest (p + w.length) true
    (by simpa using hS.pos) (by simp)
  refine ⟨s', ?_, by simpa using h2⟩
  simp (config := { decide := true }) only [parseVariant, hX (n + 1) hf, hS.cur_cons, kw_true, h1, ↓reduceIte,
    Bool.false_eq_true, Bool.or_self]

theorem pv_false (cfg : Cfg) {fuel L : Nat} {w rest : List Byte} {s : St} {p : Nat} {f : Bool}
    (hw : Ws w) (h : Pos s (w ++ ([0x66, 0x61, 0x6C, 0x73, 0x65] ++ rest)) p f) (hf : w.length < fuel) :
    ∃ s', parseVariant cfg fuel L s = (.ok, .bool false, s') ∧ At s' rest (p + w.length + 5) true := by
  obtain ⟨n, rfl⟩ : ∃ n, fuel = n + 1 := ⟨fuel - 1, by omega⟩
  have tok : Tok 0x66 := by decide
  obtain ⟨X, hS, hX⟩ := skipSpaces_ws cfg (r := 0x61 :: 0x6C :: 0x73 :: 0x65 :: rest) tok w hw s p f (by simpa using h)
  obtain ⟨s', h1, h2⟩ := skipKeyword_ok [0x66, 0x61, 0x6C, 0x73, 0x65] (by decide) X rest (p + w.length) true
    (by simpa using hS.pos) (by simp)
  refine ⟨s', ?_, by simpa using h2⟩
  simp (config := { decide := true }) only [parseVariant, hX (n + 1) hf, hS.cur_cons, kw_false, h1, ↓reduceIte,
    Bool.false_eq_true, Bool.or_self]

theorem pv_str (cfg : Cfg) (hu : cfg.decodeUnicode = true) {fuel L : Nat} {w body sv rest : List Byte} {s : St}
    {p : Nat} {f : Bool} (hb : Body 0x22 body sv) (hl : sv.length ≤ cfg.maxStrLen)
    (hw : Ws w) (h : Pos s (w ++ ((0x22 :: body ++ [0x22]) ++ rest)) p f) (hf : w.length + body.length < fuel) :
    ∃ s', parseVariant cfg fuel L s = (.ok, .str sv, s') ∧ At s' rest (p + w.length + (body.length + 2)) true := by
  obtain ⟨n, rfl⟩ : ∃ n, fuel = n + 1 := ⟨fuel - 1, by omega⟩
  have tok : Tok 0x22 := by decide
  obtain ⟨X, hS, hX⟩ := skipSpaces_ws cfg (r := body ++ 0x22 :: rest) tok w hw s p f (by simpa using h)
  obtain ⟨q', hq', he⟩ := C17.body_decodes_gen (cfg := cfg) (stop := 0x22) (by decide) hu hb (n + 1) [] 0 (mv X) rest
    (p + w.length + 1) true (by omega) (by simpa using hl) hS.mv
  refine ⟨q', ?_, ?_⟩
  · simp (config := { decide := true }) only [parseVariant, hX (n + 1) (by omega), hS.cur_cons, he, ↓reduceIte,
      Bool.false_eq_true, Bool.or_self, Bool.or_false, Bool.true_or, List.reverse_nil, List.nil_append]
  · have : p + w.length + 1 + body.length + 1 = p + w.length + (body.length + 2) := by omega
    rw [← this]; exact hq'

theorem pv_num (cfg : Cfg) {fuel L : Nat} {w lit rest : List Byte} {s : St} {p : Nat} {f : Bool}
    (hn : NumLit lit) (hd : Delim cfg rest) (hw : Ws w) (h : Pos s (w ++ (lit ++ rest)) p f) (hf : w.length < fuel) :
    ∃ s', parseVariant cfg fuel L s = (.ok, numVal cfg lit, s') ∧ Seen s' rest (p + w.length + lit.length) true ∧
      isNumberVal (numVal cfg lit) = true := by
  obtain ⟨n, rfl⟩ : ∃ n, fuel = n + 1 := ⟨fuel - 1, by omega⟩
  obtain ⟨num, hv, hr⟩ := numLit_ok cfg hn
  have hchars := numLit_chars hn
  have hlen := hn.1
  obtain ⟨c, cs, rfl, hc⟩ := numLit_head hn
  obtain ⟨tok, k1, k2, k3, k4, k5, k6, k7, _, _⟩ := numStart_facts hc
  obtain ⟨X, hS, hX⟩ := skipSpaces_ws cfg (r := cs ++ rest) tok w hw s p f (by simpa using h)
  obtain ⟨Y, hY, hSY⟩ := scanNumber_lit cfg hd (c :: cs) (fun x hx => inNumber_numCh cfg (hchars x hx)) 63 [] X
    (p + w.length) true (by simpa using hS.pos) hlen
  refine ⟨Y, ?_, hSY, by rw [hv]; rfl⟩
  rw [hv]
  simp only [parseVariant, hX (n + 1) hf, hS.cur_cons, k1, k2, k3, k4, k5, k6, k7, Bool.or_self, Bool.false_eq_true,
    ↓reduceIte, parseNumeric_eq, hY, List.reverse_nil, List.nil_append, hr]

/-! ## Heads of values, delimiters -/

instance (c : Byte) : Decidable (NumStart c) := by unfold NumStart; infer_instance

theorem numStart_head {t : List Byte} {c : Byte} {cs : List Byte} (hl : NumLit t) (h : t = c :: cs) : NumStart c := by
  obtain ⟨c', cs', h', hc⟩ := numLit_head hl
  rw [h] at h'
  rw [(List.cons.inj h').1]; exact hc

/-- only the number production derives a number literal -/
theorem value_numLit {cfg : Cfg} {L : Nat} {t : List Byte} {v : Val} (h : Value cfg L t v) (hl : NumLit t) :
    isNumberVal v = true := by
  cases h with
  | num _ _ hn => obtain ⟨n, hv, _⟩ := numLit_ok cfg hn; rw [hv]; rfl
  | null => exact absurd (numStart_head hl rfl) (by decide)
  | «true» => exact absurd (numStart_head hl rfl) (by decide)
  | «false» => exact absurd (numStart_head hl rfl) (by decide)
  | str _ body s _ _ => exact absurd (numStart_head (c := 0x22) (cs := body ++ [0x22]) hl rfl) (by decide)
  | arrEmpty _ w _ => exact absurd (numStart_head (c := 0x5B) (cs := w ++ [0x5D]) hl rfl) (by decide)
  | arr _ body xs _ => exact absurd (numStart_head (c := 0x5B) (cs := body ++ [0x5D]) hl rfl) (by decide)
  | objEmpty _ w _ => exact absurd (numStart_head (c := 0x7B) (cs := w ++ [0x7D]) hl rfl) (by decide)
  | obj _ body ms _ => exact absurd (numStart_head (c := 0x7B) (cs := body ++ [0x7D]) hl rfl) (by decide)

theorem value_head {cfg : Cfg} {L : Nat} {t : List Byte} {v : Val} (h : Value cfg L t v) :
    ∃ c cs, t = c :: cs ∧ Tok c ∧ c ≠ 0x5D ∧ c ≠ 0x7D := by
  cases h with
  | null => exact ⟨_, _, rfl, by decide, by decide, by decide⟩
  | «true» => exact ⟨_, _, rfl, by decide, by decide, by decide⟩
  | «false» => exact ⟨_, _, rfl, by decide, by decide, by decide⟩
  | num _ _ hn =>
    obtain ⟨c, cs, rfl, hc⟩ := numLit_head hn
    obtain ⟨tok, _, _, _, _, _, _, _, a, b⟩ := numStart_facts hc
    exact ⟨c, cs, rfl, tok, a, b⟩
  | str _ body s _ _ => exact ⟨0x22, body ++ [0x22], by simp, by decide, by decide, by decide⟩
  | arrEmpty _ w _ => exact ⟨0x5B, w ++ [0x5D], by simp, by decide, by decide, by decide⟩
  | arr _ body xs _ => exact ⟨0x5B, body ++ [0x5D], by simp, by decide, by decide, by decide⟩
  | objEmpty _ w _ => exact ⟨0x7B, w ++ [0x7D], by simp, by decide, by decide, by decide⟩
  | obj _ body ms _ => exact ⟨0x7B, body ++ [0x7D], by simp, by decide, by decide, by decide⟩

theorem elements_head {cfg : Cfg} {L : Nat} {body : List Byte} {xs : List Val} (h : Elements cfg L body xs) :
    ∃ w1 c1 r1, body = w1 ++ c1 :: r1 ∧ Ws w1 ∧ Tok c1 ∧ c1 ≠ 0x5D := by
  cases h with
  | one _ w1 t v w2 hw1 hv hw2 =>
    obtain ⟨c, cs, rfl, tok, a, _⟩ := value_head hv
    exact ⟨w1, c, cs ++ w2, by simp, hw1, tok, a⟩
  | cons _ w1 t v w2 rest vs hw1 hv hw2 hr =>
    obtain ⟨c, cs, rfl, tok, a, _⟩ := value_head hv
    exact ⟨w1, c, cs ++ w2 ++ 0x2C :: rest, by simp, hw1, tok, a⟩

theorem inNumber_delims (cfg : Cfg) :
    inNumber cfg 0x2C = false ∧ inNumber cfg 0x5D = false ∧ inNumber cfg 0x7D = false ∧
    inNumber cfg 0x20 = false ∧ inNumber cfg 0x09 = false ∧ inNumber cfg 0x0A = false ∧ inNumber cfg 0x0D = false := by
  unfold inNumber
  generalize (cfg.nan || cfg.inf) = b
  cases b <;> decide

theorem delim_ws (cfg : Cfg) {w : List Byte} (hw : Ws w) {c : Byte} (hc : inNumber cfg c = false) (r : List Byte) :
    Delim cfg (w ++ c :: r) := by
  intro x y hxy
  cases w with
  | nil => simp at hxy; rw [← hxy.1]; exact hc
  | cons a w' =>
    simp at hxy
    obtain ⟨_, _, _, d1, d2, d3, d4⟩ := inNumber_delims cfg
    rw [← hxy.1]
    rcases hw a (List.mem_cons_self ..) with rfl | rfl | rfl | rfl <;> assumption

theorem delim_ws_end (cfg : Cfg) {w : List Byte} (hw : Ws w) : Delim cfg w := by
  intro x y hxy
  subst hxy
  obtain ⟨_, _, _, d1, d2, d3, d4⟩ := inNumber_delims cfg
  rcases hw x (List.mem_cons_self ..) with rfl | rfl | rfl | rfl <;> assumption

/-! ## Leading white space is skipped by the value parser itself -/

theorem parseVariant_skip (cfg : Cfg) {c : Byte} {r w : List Byte} {s : St} {p : Nat} {f : Bool}
    (hc : Tok c) (hw : Ws w) (h : Pos s (w ++ c :: r) p f) :
    ∃ X, Seen X (c :: r) (p + w.length) true ∧ (∀ n, w.length < n → skipSpaces cfg n s = (.ok, X)) ∧
      (∀ n L, w.length < n → parseVariant cfg n L X = parseVariant cfg n L s) ∧
      (∀ n L acc, w.length + 1 < n → parseElems cfg n L X acc = parseElems cfg n L s acc) := by
  obtain ⟨X, hS, hX⟩ := skipSpaces_ws cfg hc w hw s p f h
  have hpv : ∀ n L, w.length < n → parseVariant cfg n L X = parseVariant cfg n L s := by
    intro n L hn
    obtain ⟨m, rfl⟩ : ∃ m, n = m + 1 := ⟨n - 1, by omega⟩
    simp only [parseVariant, hX (m + 1) hn, skipSpaces_seen cfg hc hS m]
  refine ⟨X, hS, hX, hpv, ?_⟩
  intro n L acc hn
  obtain ⟨m, rfl⟩ : ∃ m, n = m + 1 := ⟨n - 1, by omega⟩
  simp only [parseElems, hpv m L (by omega)]

/-- state after a value: just behind it, or — after a number — with the following byte latched -/
def Post (s : St) (rest : List Byte) (p : Nat) (look : Bool) : Prop :=
  if look then Seen s rest p true else At s rest p true

theorem Post.pos {s rest p look} (h : Post s rest p look) : Pos s rest p true := by
  unfold Post at h
  split at h
  · exact h.pos
  · exact h.pos

/-- the accumulator of `parseMembers` after the members `ms` (text order) -/
def foldMembers (acc : List (List Byte × Val)) (ms : List (List Byte × Val)) : List (List Byte × Val) :=
  ms.foldl (fun a kv => setMember a kv.1 kv.2) acc

theorem lastWins_eq (ms : List (List Byte × Val)) : lastWins ms = foldMembers [] ms := rfl

/-! ## Completeness, by recursion on derivations

Fuel: `parseVariant` needs one unit more than the number of bytes it reads (white space included),
`parseElems` / `parseMembers` two more than the bytes up to the closing bracket. -/
mutual
theorem complete_value {cfg : Cfg} (hu : cfg.decodeUnicode = true) {L : Nat} {t : List Byte} {v : Val}
    (h : Value cfg L t v) :
    ∀ (fuel : Nat) (w rest : List Byte) (s : St) (p : Nat) (f : Bool),
      Ws w → Pos s (w ++ (t ++ rest)) p f → w.length + t.length + 1 ≤ fuel → (NumLit t → Delim cfg rest) →
      ∃ s', parseVariant cfg fuel L s = (.ok, v, s') ∧ Post s' rest (p + w.length + t.length) (isNumberVal v) := by
  intro fuel w rest s p f hw hs hf hd
  cases h with
  | null =>
    obtain ⟨s', h1, h2⟩ := pv_null cfg (L := L) (fuel := fuel) hw hs (by omega)
    exact ⟨s', h1, by simpa [Post, isNumberVal] using h2⟩
  | «true» =>
    obtain ⟨s', h1, h2⟩ := pv_true cfg (L := L) (fuel := fuel) hw hs (by omega)
    exact ⟨s', h1, by simpa [Post, isNumberVal] using h2⟩
  | «false» =>
    obtain ⟨s', h1, h2⟩ := pv_false cfg (L := L) (fuel := fuel) hw hs (by omega)
    exact ⟨s', h1, by simpa [Post, isNumberVal] using h2⟩
  | num _ _ hn =>
    obtain ⟨s', h1, h2, h3⟩ := pv_num cfg (L := L) (fuel := fuel) hn (hd hn) hw hs (by omega)
    exact ⟨s', h1, by simpa [Post, h3] using h2⟩
  | str _ body sv hb hl =>
    obtain ⟨s', h1, h2⟩ := pv_str cfg hu (L := L) (fuel := fuel) hb hl hw hs (by simp at hf; omega)
    exact ⟨s', h1, by simpa [Post, isNumberVal] using h2⟩
  | arrEmpty l w1 hw1 =>
    obtain ⟨n, rfl⟩ : ∃ n, fuel = n + 1 := ⟨fuel - 1, by omega⟩
    obtain ⟨X, hS, hX⟩ := skipSpaces_ws cfg (r := w1 ++ 0x5D :: rest) (by decide : Tok 0x5B) w hw s p f (by simpa using hs)
    obtain ⟨Y, hSY, hY⟩ := skipSpaces_ws cfg (r := rest) (by decide : Tok 0x5D) w1 hw1 (mv X) _ true hS.mv.pos
    refine ⟨mv Y, ?_, ?_⟩
    · simp only [parseVariant, hX (n + 1) (by omega), hS.cur_cons, beq_self_eq_true, ↓reduceIte,
        hY (n + 1) (by simp at hf; omega), hSY.cur_cons]
    · have : p + w.length + 1 + w1.length + 1 = p + w.length + (0x5B :: w1 ++ [0x5D]).length := by simp; omega
      simp only [Post, isNumberVal, Bool.false_eq_true, ↓reduceIte]
      rw [← this]; exact hSY.mv
  | arr l body xs he =>
    obtain ⟨n, rfl⟩ : ∃ n, fuel = n + 1 := ⟨fuel - 1, by omega⟩
    obtain ⟨X, hS, hX⟩ := skipSpaces_ws cfg (r := body ++ 0x5D :: rest) (by decide : Tok 0x5B) w hw s p f (by simpa using hs)
    obtain ⟨w1, c1, r1, rfl, hw1, tok1, hc1⟩ := elements_head he
    have hlen : w1.length + 1 + r1.length + 2 ≤ n := by simp at hf; omega
    obtain ⟨Y, hSY, hY, _, hPE⟩ := parseVariant_skip cfg (r := r1 ++ 0x5D :: rest) tok1 hw1 (s := mv X)
      (by simpa using hS.mv.pos)
    obtain ⟨s', h1, h2⟩ := complete_elems hu he n rest (mv X) _ true [] (by simpa using hS.mv.pos) (by simp; omega)
    have e1 : (c1 == 0x5D) = false := by simpa using hc1
    refine ⟨s', ?_, ?_⟩
    · simp only [parseVariant, hX (n + 1) (by omega), hS.cur_cons, beq_self_eq_true, ↓reduceIte,
        hY (n + 1) (by omega), hSY.cur_cons, e1, Bool.false_eq_true, hPE n l [] (by omega), h1, List.reverse_nil,
        List.nil_append]
    · have : p + w.length + 1 + (w1 ++ c1 :: r1).length + 1 = p + w.length + (0x5B :: (w1 ++ c1 :: r1) ++ [0x5D]).length := by
        simp; omega
      simp only [Post, isNumberVal, Bool.false_eq_true, ↓reduceIte]
      rw [← this]; exact h2
  | objEmpty l w1 hw1 =>
    obtain ⟨n, rfl⟩ : ∃ n, fuel = n + 1 := ⟨fuel - 1, by omega⟩
    obtain ⟨X, hS, hX⟩ := skipSpaces_ws cfg (r := w1 ++ 0x7D :: rest) (by decide : Tok 0x7B) w hw s p f (by simpa using hs)
    obtain ⟨Y, hSY, hY⟩ := skipSpaces_ws cfg (r := rest) (by decide : Tok 0x7D) w1 hw1 (mv X) _ true hS.mv.pos
    have k1 : ((0x7B : UInt8) == 0x5B) = false := by decide
    refine ⟨mv Y, ?_, ?_⟩
    · simp only [parseVariant, hX (n + 1) (by omega), hS.cur_cons, k1, beq_self_eq_true, ↓reduceIte, Bool.false_eq_true,
        hY (n + 1) (by simp at hf; omega), hSY.cur_cons]
    · have : p + w.length + 1 + w1.length + 1 = p + w.length + (0x7B :: w1 ++ [0x7D]).length := by simp; omega
      simp only [Post, isNumberVal, Bool.false_eq_true, ↓reduceIte]
      rw [← this]; exact hSY.mv
  | obj l body ms hm =>
    obtain ⟨n, rfl⟩ : ∃ n, fuel = n + 1 := ⟨fuel - 1, by omega⟩
    obtain ⟨X, hS, hX⟩ := skipSpaces_ws cfg (r := body ++ 0x7D :: rest) (by decide : Tok 0x7B) w hw s p f (by simpa using hs)
    obtain ⟨Y, s', hY, hcY, h1, h2⟩ := complete_members hu hm n rest (mv X) _ true [] (by simpa using hS.mv.pos)
      (by simp at hf; omega)
    have k1 : ((0x7B : UInt8) == 0x5B) = false := by decide
    have k2 : ((0x22 : UInt8) == 0x7D) = false := by decide
    refine ⟨s', ?_, ?_⟩
    · simp only [parseVariant, hX (n + 1) (by omega), hS.cur_cons, k1, beq_self_eq_true, ↓reduceIte, Bool.false_eq_true,
        hY, hcY, k2, h1, lastWins_eq]
    · have : p + w.length + 1 + body.length + 1 = p + w.length + (0x7B :: body ++ [0x7D]).length := by simp; omega
      simp only [Post, isNumberVal, Bool.false_eq_true, ↓reduceIte]
      rw [← this]; exact h2
theorem complete_elems {cfg : Cfg} (hu : cfg.decodeUnicode = true) {L : Nat} {body : List Byte} {xs : List Val}
    (h : Elements cfg L body xs) :
    ∀ (fuel : Nat) (rest : List Byte) (s : St) (p : Nat) (f : Bool) (acc : List Val),
      Pos s (body ++ 0x5D :: rest) p f → body.length + 2 ≤ fuel →
      ∃ s', parseElems cfg fuel L s acc = (.ok, .arr (acc.reverse ++ xs), s') ∧ At s' rest (p + body.length + 1) true := by
  intro fuel rest s p f acc hs hf
  obtain ⟨n, rfl⟩ : ∃ n, fuel = n + 1 := ⟨fuel - 1, by omega⟩
  obtain ⟨d0, d1, _⟩ := inNumber_delims cfg
  cases h with
  | one _ w1 t v w2 hw1 hv hw2 =>
    obtain ⟨s1, h1, hpost⟩ := complete_value hu hv n w1 (w2 ++ 0x5D :: rest) s p f hw1 (by simpa using hs)
      (by simp at hf; omega) (fun _ => delim_ws cfg hw2 d1 rest)
    obtain ⟨X, hS, hX⟩ := skipSpaces_ws cfg (r := rest) (by decide : Tok 0x5D) w2 hw2 s1 _ true hpost.pos
    refine ⟨mv X, ?_, ?_⟩
    · simp only [parseElems, h1, hX (n + 1) (by simp at hf; omega), hS.cur_cons, beq_self_eq_true, ↓reduceIte,
        List.reverse_cons, List.append_assoc, List.singleton_append]
    · have : p + w1.length + t.length + w2.length + 1 = p + (w1 ++ t ++ w2).length + 1 := by simp; omega
      rw [← this]; exact hS.mv
  | cons _ w1 t v w2 more vs hw1 hv hw2 hr =>
    obtain ⟨s1, h1, hpost⟩ := complete_value hu hv n w1 (w2 ++ 0x2C :: (more ++ 0x5D :: rest)) s p f hw1
      (by simpa using hs) (by simp at hf; omega) (fun _ => delim_ws cfg hw2 d0 _)
    obtain ⟨X, hS, hX⟩ := skipSpaces_ws cfg (r := more ++ 0x5D :: rest) (by decide : Tok 0x2C) w2 hw2 s1 _ true hpost.pos
    obtain ⟨s', h2, h3⟩ := complete_elems hu hr n rest (mv X) _ true (v :: acc) hS.mv.pos (by simp at hf; omega)
    have k1 : ((0x2C : UInt8) == 0x5D) = false := by decide
    refine ⟨s', ?_, ?_⟩
    · simp only [parseElems, h1, hX (n + 1) (by simp at hf; omega), hS.cur_cons, k1, beq_self_eq_true, ↓reduceIte,
        Bool.false_eq_true, h2, List.reverse_cons, List.append_assoc, List.singleton_append]
    · have : p + w1.length + t.length + w2.length + 1 + more.length + 1 =
          p + (w1 ++ t ++ w2 ++ 0x2C :: more).length + 1 := by simp; omega
      rw [← this]; exact h3
theorem complete_members {cfg : Cfg} (hu : cfg.decodeUnicode = true) {L : Nat} {body : List Byte}
    {ms : List (List Byte × Val)} (h : Members cfg L body ms) :
    ∀ (fuel : Nat) (rest : List Byte) (s : St) (p : Nat) (f : Bool) (acc : List (List Byte × Val)),
      Pos s (body ++ 0x7D :: rest) p f → body.length + 2 ≤ fuel →
      ∃ X s', skipSpaces cfg (fuel + 1) s = (.ok, X) ∧ cur X = (0x22, X) ∧
        parseMembers cfg fuel L X acc = (.ok, .obj (foldMembers acc ms), s') ∧ At s' rest (p + body.length + 1) true := by
  intro fuel rest s p f acc hs hf
  obtain ⟨n, rfl⟩ : ∃ n, fuel = n + 1 := ⟨fuel - 1, by omega⟩
  obtain ⟨d0, _, d2, _⟩ := inNumber_delims cfg
  have q1 : ((0x22 : UInt8) == 0x22 || (0x22 : UInt8) == 0x27) = true := by decide
  cases h with
  | one _ w1 kb k w2 w3 t v w4 hw1 hkb hkl hw2 hw3 hv hw4 =>
    obtain ⟨X, hS, hX⟩ := skipSpaces_ws cfg (r := kb ++ 0x22 :: (w2 ++ 0x3A :: (w3 ++ (t ++ (w4 ++ 0x7D :: rest)))))
      (by decide : Tok 0x22) w1 hw1 s p f (by simpa using hs)
    obtain ⟨q, hq, hk⟩ := C17.body_decodes_gen (cfg := cfg) (stop := 0x22) (by decide) hu hkb (n + 1) [] 0 (mv X) _ _ true
      (by simp at hf; omega) (by simpa using hkl) hS.mv
    obtain ⟨Y, hSY, hY⟩ := skipSpaces_ws cfg (r := w3 ++ (t ++ (w4 ++ 0x7D :: rest))) (by decide : Tok 0x3A) w2 hw2 q _ true hq.pos
    obtain ⟨s1, h1, hpost⟩ := complete_value hu hv n w3 (w4 ++ 0x7D :: rest) (mv Y) _ true hw3 hSY.mv.pos
      (by simp at hf; omega) (fun _ => delim_ws cfg hw4 d2 rest)
    obtain ⟨Z, hSZ, hZ⟩ := skipSpaces_ws cfg (r := rest) (by decide : Tok 0x7D) w4 hw4 s1 _ true hpost.pos
    refine ⟨X, mv Z, hX (n + 2) (by simp at hf; omega), hS.cur_cons, ?_, ?_⟩
    · simp only [parseMembers, hS.cur_cons, q1, Bool.true_or, ↓reduceIte, hk, hY (n + 1) (by simp at hf; omega), hSY.cur_cons,
        bne_self_eq_false, Bool.false_eq_true, h1, hZ (n + 1) (by simp at hf; omega), hSZ.cur_cons, beq_self_eq_true,
        List.reverse_nil, List.nil_append, foldMembers, List.foldl_cons, List.foldl_nil]
    · have : p + w1.length + 1 + kb.length + 1 + w2.length + 1 + w3.length + t.length + w4.length + 1 =
          p + (w1 ++ 0x22 :: kb ++ 0x22 :: w2 ++ 0x3A :: w3 ++ t ++ w4).length + 1 := by simp; omega
      rw [← this]; exact hSZ.mv
  | cons _ w1 kb k w2 w3 t v w4 more ms' hw1 hkb hkl hw2 hw3 hv hw4 hr =>
    obtain ⟨X, hS, hX⟩ := skipSpaces_ws cfg
      (r := kb ++ 0x22 :: (w2 ++ 0x3A :: (w3 ++ (t ++ (w4 ++ 0x2C :: (more ++ 0x7D :: rest))))))
      (by decide : Tok 0x22) w1 hw1 s p f (by simpa using hs)
    obtain ⟨q, hq, hk⟩ := C17.body_decodes_gen (cfg := cfg) (stop := 0x22) (by decide) hu hkb (n + 1) [] 0 (mv X) _ _ true
      (by simp at hf; omega) (by simpa using hkl) hS.mv
    obtain ⟨Y, hSY, hY⟩ := skipSpaces_ws cfg (r := w3 ++ (t ++ (w4 ++ 0x2C :: (more ++ 0x7D :: rest))))
      (by decide : Tok 0x3A) w2 hw2 q _ true hq.pos
    obtain ⟨s1, h1, hpost⟩ := complete_value hu hv n w3 (w4 ++ 0x2C :: (more ++ 0x7D :: rest)) (mv Y) _ true hw3
      hSY.mv.pos (by simp at hf; omega) (fun _ => delim_ws cfg hw4 d0 _)
    obtain ⟨Z, hSZ, hZ⟩ := skipSpaces_ws cfg (r := more ++ 0x7D :: rest) (by decide : Tok 0x2C) w4 hw4 s1 _ true hpost.pos
    obtain ⟨X2, s', hX2, hcX2, h2, h3⟩ := complete_members hu hr n rest (mv Z) _ true (setMember acc k v) hSZ.mv.pos
      (by simp at hf; omega)
    have k1 : ((0x2C : UInt8) == 0x7D) = false := by decide
    refine ⟨X, s', hX (n + 2) (by simp at hf; omega), hS.cur_cons, ?_, ?_⟩
    · simp only [parseMembers, hS.cur_cons, q1, Bool.true_or, ↓reduceIte, hk, hY (n + 1) (by simp at hf; omega), hSY.cur_cons,
        bne_self_eq_false, Bool.false_eq_true, h1, hZ (n + 1) (by simp at hf; omega), hSZ.cur_cons, k1, beq_self_eq_true,
        hX2, h2, List.reverse_nil, List.nil_append, foldMembers, List.foldl_cons]
    · have : p + w1.length + 1 + kb.length + 1 + w2.length + 1 + w3.length + t.length + w4.length + 1 + more.length + 1 =
          p + (w1 ++ 0x22 :: kb ++ 0x22 :: w2 ++ 0x3A :: w3 ++ t ++ w4 ++ 0x2C :: more).length + 1 := by simp; omega
      rw [← this]; exact h3
end

end JD
