/- Reading back what `JSer.compact` wrote: the latch seen as a logical position (`Vw`), one-step equations of the
   mutual parser on already-analysed sub-results, scalars (keywords, integers, strings), and the mutual induction
   over the fuel for values / array elements / object members. Used by AJ/Props/C07.lean. -/
import AJ.Lemmas.Latch
import AJ.Lemmas.Quoted
import AJ.Lemmas.Digits
import AJ.Lemmas.Bits
import AJ.Props.C17
import AJ.Props.C12
namespace JD

/-! ## logical position of a reader state, loaded or not -/

/- `Vw s u p`: the parser in state `s` will see exactly the bytes `u` (then the end marker), and `p` bytes of the
    input are logically consumed (a latched look-ahead byte is counted in `pos` but not yet consumed). -/
def Vw (s : St) (u : List Byte) (p : Nat) : Prop :=
  (s.l.loaded = false ∧ s.l.unread = u ∧ s.l.pos = p) ∨
  (s.l.loaded = true ∧ u = s.l.cur :: s.l.unread ∧ s.l.pos = p + 1) ∨
  (s.l.loaded = true ∧ u = [] ∧ s.l.cur = 0 ∧ s.l.unread = [] ∧ s.l.pos = p)

/-- the byte `c` is latched, `r` is left in the reader -/
def Ld (s : St) (c : Byte) (r : List Byte) (p : Nat) : Prop :=
  s.l.loaded = true ∧ s.l.cur = c ∧ s.l.unread = r ∧ s.l.pos = p + 1

/-- nothing latched -/
def Un (s : St) (u : List Byte) (p : Nat) : Prop := s.l.loaded = false ∧ s.l.unread = u ∧ s.l.pos = p

theorem Un.vw {s u p} (h : Un s u p) : Vw s u p := Or.inl h
theorem Ld.vw {s c r p} (h : Ld s c r p) : Vw s (c :: r) p :=
  Or.inr (Or.inl ⟨h.1, by rw [h.2.1, h.2.2.1], h.2.2.2⟩)
theorem Ld.cur {s c r p} (h : Ld s c r p) : cur s = (c, s) := by rw [cur_loaded h.1, h.2.1]
theorem Ld.mv {s c r p} (h : Ld s c r p) : Un (mv s) r (p + 1) := ⟨rfl, h.2.2.1, h.2.2.2⟩
theorem Ld.found {s c r p} (h : Ld s c r p) : Ld { s with found := true } c r p := h
theorem Un.at {s u p} (h : Un s u p) : At s u p s.found := ⟨h.1, h.2.1, h.2.2, rfl⟩
theorem At.un {s u p f} (h : At s u p f) : Un s u p := ⟨h.1, h.2.1, h.2.2.1⟩

theorem vw_cur_cons {s : St} {c : Byte} {r : List Byte} {p : Nat} (h : Vw s (c :: r) p) :
    ∃ s1, cur s = (c, s1) ∧ Ld s1 c r p := by
  rcases h with ⟨h1, h2, h3⟩ | ⟨h1, e, h3⟩ | ⟨_, e, _⟩
  · exact ⟨ld s c r, cur_cons h1 h2, rfl, rfl, rfl, by simp [h3]⟩
  · have e1 := (List.cons.inj e).1; have e2 := (List.cons.inj e).2
    exact ⟨s, by rw [cur_loaded h1, ← e1], h1, e1.symm, e2.symm, h3⟩
  · exact absurd e (by simp)

theorem vw_cur_nil {s : St} {p : Nat} (h : Vw s [] p) :
    ∃ s1, cur s = (0, s1) ∧ Vw s1 [] p ∧ s1.l.loaded = true ∧ s1.l.cur = 0 := by
  rcases h with ⟨h1, h2, h3⟩ | ⟨_, e, _⟩ | ⟨h1, _, h2, h3, h4⟩
  · exact ⟨ldEnd s, cur_nil h1 h2, Or.inr (Or.inr ⟨rfl, rfl, rfl, h2, h3⟩), rfl, rfl⟩
  · exact absurd e (by simp)
  · exact ⟨s, by rw [cur_loaded h1, h2], Or.inr (Or.inr ⟨h1, rfl, h2, h3, h4⟩), h1, h2⟩

/-- at the very end: the position is the number of bytes consumed -/
theorem vw_nil_pos {s : St} {p : Nat} (h : Vw s [] p) : s.l.pos = p := by
  rcases h with ⟨_, _, h3⟩ | ⟨_, e, _⟩ | ⟨_, _, _, _, h4⟩
  · exact h3
  · exact absurd e (by simp)
  · exact h4

theorem vw_nil_loaded_cur {s : St} {p : Nat} (h : Vw s [] p) (hl : s.l.loaded = true) : s.l.cur = 0 := by
  rcases h with ⟨h1, _, _⟩ | ⟨_, e, _⟩ | ⟨_, _, h2, _, _⟩
  · rw [h1] at hl; exact absurd hl (by decide)
  · exact absurd e (by simp)
  · exact h2

/-! ## tokens -/

/-- a byte on which `skipSpaces` stops successfully -/
def Tok_rt (c : Byte) : Prop := c ≠ 0 ∧ isWs c = false ∧ c ≠ 0x2F

theorem skipSpaces_cur {cfg : Cfg} {n : Nat} {s s1 : St} {c : Byte} (hc : cur s = (c, s1)) (ht : Tok_rt c) :
    skipSpaces cfg (n + 1) s = (.ok, { s1 with found := true }) := by
  have e0 : (c == 0) = false := by simpa using ht.1
  have e1 : (c == 0x2F) = false := by simpa using ht.2.2
  simp only [skipSpaces, hc, e0, ht.2.1, e1, Bool.and_false, Bool.false_eq_true, ↓reduceIte]

/-- `skipSpaces` in front of a token: the token byte ends up latched -/
theorem vw_tok {cfg : Cfg} {n : Nat} {s : St} {c : Byte} {r : List Byte} {p : Nat} (h : Vw s (c :: r) p) (ht : Tok_rt c) :
    ∃ s1, skipSpaces cfg (n + 1) s = (.ok, s1) ∧ Ld s1 c r p := by
  obtain ⟨s1, hc, hl⟩ := vw_cur_cons h
  exact ⟨_, skipSpaces_cur hc ht, hl.found⟩

/-! ## one step of the mutual parser, given the results of the calls it makes -/

theorem pv_arr_empty {cfg : Cfg} {f L : Nat} {s s1 s2 : St}
    (h1 : skipSpaces cfg (f + 1) s = (.ok, s1)) (c1 : cur s1 = (0x5B, s1))
    (h2 : skipSpaces cfg (f + 1) (mv s1) = (.ok, s2)) (c2 : cur s2 = (0x5D, s2)) :
    parseVariant cfg (f + 1) (L + 1) s = (.ok, .arr [], mv s2) := by
  simp only [parseVariant, h1, c1, h2, c2, beq_self_eq_true, ↓reduceIte]

theorem pv_arr {cfg : Cfg} {f L : Nat} {s s1 s2 : St} {d : Byte}
    (h1 : skipSpaces cfg (f + 1) s = (.ok, s1)) (c1 : cur s1 = (0x5B, s1))
    (h2 : skipSpaces cfg (f + 1) (mv s1) = (.ok, s2)) (c2 : cur s2 = (d, s2)) (hd : d ≠ 0x5D) :
    parseVariant cfg (f + 1) (L + 1) s = parseElems cfg f L s2 [] := by
  have e : (d == 0x5D) = false := by simpa using hd
  simp only [parseVariant, h1, c1, h2, c2, e, beq_self_eq_true, Bool.false_eq_true, ↓reduceIte]

theorem pv_obj_empty {cfg : Cfg} {f L : Nat} {s s1 s2 : St}
    (h1 : skipSpaces cfg (f + 1) s = (.ok, s1)) (c1 : cur s1 = (0x7B, s1))
    (h2 : skipSpaces cfg (f + 1) (mv s1) = (.ok, s2)) (c2 : cur s2 = (0x7D, s2)) :
    parseVariant cfg (f + 1) (L + 1) s = (.ok, .obj [], mv s2) := by
  have k : ((0x7B : Byte) == 0x5B) = false := by decide
  simp only [parseVariant, h1, c1, h2, c2, k, beq_self_eq_true, Bool.false_eq_true, ↓reduceIte]

theorem pv_obj {cfg : Cfg} {f L : Nat} {s s1 s2 : St} {d : Byte}
    (h1 : skipSpaces cfg (f + 1) s = (.ok, s1)) (c1 : cur s1 = (0x7B, s1))
    (h2 : skipSpaces cfg (f + 1) (mv s1) = (.ok, s2)) (c2 : cur s2 = (d, s2)) (hd : d ≠ 0x7D) :
    parseVariant cfg (f + 1) (L + 1) s = parseMembers cfg f L s2 [] := by
  have k : ((0x7B : Byte) == 0x5B) = false := by decide
  have e : (d == 0x7D) = false := by simpa using hd
  simp only [parseVariant, h1, c1, h2, c2, k, e, beq_self_eq_true, Bool.false_eq_true, ↓reduceIte]

theorem pv_str_rt {cfg : Cfg} {f L : Nat} {s s1 : St}
    (h1 : skipSpaces cfg (f + 1) s = (.ok, s1)) (c1 : cur s1 = (0x22, s1)) :
    parseVariant cfg (f + 1) L s =
      (match parseQuoted cfg 0x22 (f + 1) [] 0 (mv s1) with
       | (.ok, str, s) => (.ok, .str str, s)
       | (e, _, s) => (e, .null, s)) := by
  have k3 : ((0x22 : Byte) == 0x5B) = false := by decide
  have k4 : ((0x22 : Byte) == 0x7B) = false := by decide
  simp only [parseVariant, h1, c1, k3, k4, beq_self_eq_true, Bool.true_or, Bool.false_eq_true, ↓reduceIte]
  rfl

theorem pv_true_rt {cfg : Cfg} {f L : Nat} {s s1 : St}
    (h1 : skipSpaces cfg (f + 1) s = (.ok, s1)) (c1 : cur s1 = (0x74, s1)) :
    parseVariant cfg (f + 1) L s =
      (match skipKeyword "true".toUTF8.toList s1 with | (e, s) => (e, .bool true, s)) := by
  have k1 : ((0x74 : Byte) == 0x5B) = false := by decide
  have k2 : ((0x74 : Byte) == 0x7B) = false := by decide
  have k3 : ((0x74 : Byte) == 0x22 || (0x74 : Byte) == 0x27) = false := by decide
  simp only [parseVariant, h1, c1, k1, k2, k3, beq_self_eq_true, Bool.false_eq_true, ↓reduceIte]

theorem pv_false_rt {cfg : Cfg} {f L : Nat} {s s1 : St}
    (h1 : skipSpaces cfg (f + 1) s = (.ok, s1)) (c1 : cur s1 = (0x66, s1)) :
    parseVariant cfg (f + 1) L s =
      (match skipKeyword "false".toUTF8.toList s1 with | (e, s) => (e, .bool false, s)) := by
  have k1 : ((0x66 : Byte) == 0x5B) = false := by decide
  have k2 : ((0x66 : Byte) == 0x7B) = false := by decide
  have k3 : ((0x66 : Byte) == 0x22 || (0x66 : Byte) == 0x27) = false := by decide
  have k4 : ((0x66 : Byte) == 0x74) = false := by decide
  simp only [parseVariant, h1, c1, k1, k2, k3, k4, beq_self_eq_true, Bool.false_eq_true, ↓reduceIte]

theorem pv_null_rt {cfg : Cfg} {f L : Nat} {s s1 : St}
    (h1 : skipSpaces cfg (f + 1) s = (.ok, s1)) (c1 : cur s1 = (0x6E, s1)) :
    parseVariant cfg (f + 1) L s =
      (match skipKeyword "null".toUTF8.toList s1 with | (e, s) => (e, .null, s)) := by
  have k1 : ((0x6E : Byte) == 0x5B) = false := by decide
  have k2 : ((0x6E : Byte) == 0x7B) = false := by decide
  have k3 : ((0x6E : Byte) == 0x22 || (0x6E : Byte) == 0x27) = false := by decide
  have k4 : ((0x6E : Byte) == 0x74) = false := by decide
  have k5 : ((0x6E : Byte) == 0x66) = false := by decide
  simp only [parseVariant, h1, c1, k1, k2, k3, k4, k5, beq_self_eq_true, Bool.false_eq_true, ↓reduceIte]

/-- a byte that can start the text of an integer: a digit or `-` -/
def NumStart_rt (c : Byte) : Prop := isDigit c = true ∨ c = 0x2D

theorem numStart_facts_rt {c : Byte} (h : NumStart_rt c) :
    Tok_rt c ∧ (c == 0x5B) = false ∧ (c == 0x7B) = false ∧ (c == 0x22 || c == 0x27) = false ∧ (c == 0x74) = false ∧
      (c == 0x66) = false ∧ (c == 0x6E) = false ∧ c ≠ 0x5D ∧ c ≠ 0x7D := by
  have key : ∀ c : UInt8, (!(isDigit c || c == 0x2D) ||
      (c != 0 && !isWs c && c != 0x2F && !(c == 0x5B) && !(c == 0x7B) && !(c == 0x22 || c == 0x27) && !(c == 0x74) &&
        !(c == 0x66) && !(c == 0x6E) && c != 0x5D && c != 0x7D)) = true := by
    apply Bits.all_bytes; decide +kernel
  have hk := key c
  have hs : (isDigit c || c == 0x2D) = true := by
    rcases h with h | h
    · simp [h]
    · simp [h]
  simp only [hs, Bool.not_true, Bool.false_or, Bool.and_eq_true, bne_iff_ne, ne_eq, Bool.not_eq_true'] at hk
  obtain ⟨⟨⟨⟨⟨⟨⟨⟨⟨⟨a, b⟩, c'⟩, d⟩, e⟩, f⟩, g⟩, h'⟩, i⟩, j⟩, k⟩ := hk
  exact ⟨⟨a, b, c'⟩, d, e, f, g, h', i, j, k⟩

theorem pv_num_rt {cfg : Cfg} {f L : Nat} {s s1 : St} {c : Byte}
    (h1 : skipSpaces cfg (f + 1) s = (.ok, s1)) (c1 : cur s1 = (c, s1)) (hc : NumStart_rt c) :
    parseVariant cfg (f + 1) L s = parseNumeric cfg s1 := by
  obtain ⟨_, k1, k2, k3, k4, k5, k6, _, _⟩ := numStart_facts_rt hc
  simp only [parseVariant, h1, c1, k1, k2, k3, k4, k5, k6, Bool.false_eq_true, ↓reduceIte]

theorem pe_last {cfg : Cfg} {f L : Nat} {s s1 s2 : St} {v : Val} {acc : List Val}
    (hv : parseVariant cfg f L s = (.ok, v, s1))
    (h2 : skipSpaces cfg (f + 1) s1 = (.ok, s2)) (c2 : cur s2 = (0x5D, s2)) :
    parseElems cfg (f + 1) L s acc = (.ok, .arr (v :: acc).reverse, mv s2) := by
  simp only [parseElems, hv, h2, c2, beq_self_eq_true, ↓reduceIte]

theorem pe_more {cfg : Cfg} {f L : Nat} {s s1 s2 : St} {v : Val} {acc : List Val}
    (hv : parseVariant cfg f L s = (.ok, v, s1))
    (h2 : skipSpaces cfg (f + 1) s1 = (.ok, s2)) (c2 : cur s2 = (0x2C, s2)) :
    parseElems cfg (f + 1) L s acc = parseElems cfg f L (mv s2) (v :: acc) := by
  have k : ((0x2C : Byte) == 0x5D) = false := by decide
  simp only [parseElems, hv, h2, c2, k, beq_self_eq_true, Bool.false_eq_true, ↓reduceIte]

theorem pm_last {cfg : Cfg} {f L : Nat} {s s1 q1 q2 q3 q4 : St} {key : List Byte} {v : Val}
    {ms : List (List Byte × Val)}
    (c1 : cur s = (0x22, s1))
    (hk : parseQuoted cfg 0x22 (f + 1) [] 0 (mv s1) = (.ok, key, q1))
    (h2 : skipSpaces cfg (f + 1) q1 = (.ok, q2)) (c2 : cur q2 = (0x3A, q2))
    (hv : parseVariant cfg f L (mv q2) = (.ok, v, q3))
    (h4 : skipSpaces cfg (f + 1) q3 = (.ok, q4)) (c4 : cur q4 = (0x7D, q4)) :
    parseMembers cfg (f + 1) L s ms = (.ok, .obj (setMember ms key v), mv q4) := by
  simp only [parseMembers, c1, hk, h2, c2, hv, h4, c4, beq_self_eq_true, Bool.true_or, bne_self_eq_false,
    Bool.false_eq_true, ↓reduceIte]

theorem pm_more {cfg : Cfg} {f L : Nat} {s s1 q1 q2 q3 q4 q5 : St} {key : List Byte} {v : Val}
    {ms : List (List Byte × Val)}
    (c1 : cur s = (0x22, s1))
    (hk : parseQuoted cfg 0x22 (f + 1) [] 0 (mv s1) = (.ok, key, q1))
    (h2 : skipSpaces cfg (f + 1) q1 = (.ok, q2)) (c2 : cur q2 = (0x3A, q2))
    (hv : parseVariant cfg f L (mv q2) = (.ok, v, q3))
    (h4 : skipSpaces cfg (f + 1) q3 = (.ok, q4)) (c4 : cur q4 = (0x2C, q4))
    (h5 : skipSpaces cfg (f + 1) (mv q4) = (.ok, q5)) :
    parseMembers cfg (f + 1) L s ms = parseMembers cfg f L q5 (setMember ms key v) := by
  have k : ((0x2C : Byte) == 0x7D) = false := by decide
  simp only [parseMembers, c1, hk, h2, c2, hv, h4, c4, h5, k, beq_self_eq_true, Bool.true_or, bne_self_eq_false,
    Bool.false_eq_true, ↓reduceIte]

/-! ## scalars -/

theorem kw_true_rt : "true".toUTF8.toList = [0x74, 0x72, 0x75, 0x65] := by decide +kernel
theorem kw_false_rt : "false".toUTF8.toList = [0x66, 0x61, 0x6C, 0x73, 0x65] := by decide +kernel
theorem kw_null_rt : "null".toUTF8.toList = [0x6E, 0x75, 0x6C, 0x6C] := by decide +kernel

/-- a keyword that is present is skipped exactly -/
theorem skipKeyword_ok_rt : ∀ (ks : List Byte) (s : St) (rest : List Byte) (p : Nat), (∀ k ∈ ks, k ≠ 0) →
    Vw s (ks ++ rest) p → ∃ s', skipKeyword ks s = (.ok, s') ∧ Vw s' rest (p + ks.length) := by
  intro ks
  induction ks with
  | nil => intro s rest p _ h; exact ⟨s, by simp [skipKeyword], by simpa using h⟩
  | cons k ks ih =>
    intro s rest p hk h
    have h' : Vw s (k :: (ks ++ rest)) p := by simpa using h
    obtain ⟨s1, hc, hl⟩ := vw_cur_cons h'
    obtain ⟨s', he, hv⟩ := ih (mv s1) rest (p + 1) (fun x hx => hk x (by simp [hx])) hl.mv.vw
    have e0 : (k == 0) = false := by simpa using hk k (by simp)
    refine ⟨s', ?_, ?_⟩
    · simp only [skipKeyword, hc, e0, bne_self_eq_false, Bool.false_eq_true, ↓reduceIte, he]
    · have : p + 1 + ks.length = p + (k :: ks).length := by simp; omega
      rw [← this]; exact hv

/-- what follows a number must not look like a number byte (inside a container it is `,` `]` `}`, at top level the end) -/
def Delim_rt (cfg : Cfg) (rest : List Byte) : Prop := inNumber cfg (rest.headD 0) = false

theorem delim_nil (cfg : Cfg) : Delim_rt cfg [] := by
  simp only [Delim_rt, List.headD_nil, inNumber]
  cases cfg.nan <;> cases cfg.inf <;> decide

theorem inNumber_closer (cfg : Cfg) :
    inNumber cfg 0x2C = false ∧ inNumber cfg 0x5D = false ∧ inNumber cfg 0x7D = false := by
  simp only [inNumber]
  cases cfg.nan <;> cases cfg.inf <;> decide

theorem delim_of_closer (cfg : Cfg) {c : Byte} (h : c = 0x2C ∨ c = 0x5D ∨ c = 0x7D) (r : List Byte) : Delim_rt cfg (c :: r) := by
  obtain ⟨a, b, d⟩ := inNumber_closer cfg
  simp only [Delim_rt, List.headD_cons]
  rcases h with h | h | h <;> subst h <;> assumption

theorem vw_cur_headD {s : St} {u : List Byte} {p : Nat} (h : Vw s u p) :
    ∃ s1, cur s = (u.headD 0, s1) ∧ Vw s1 u p ∧ s1.l.loaded = true := by
  cases u with
  | nil => obtain ⟨s1, a, b, c, _⟩ := vw_cur_nil h; exact ⟨s1, a, b, c⟩
  | cons c r => obtain ⟨s1, a, b⟩ := vw_cur_cons h; exact ⟨s1, a, b.vw, b.1⟩

/-- `scanNumber` takes exactly the number bytes when a delimiter follows and the buffer is large enough;
    the look-ahead stays latched -/
theorem scanNumber_exact (cfg : Cfg) : ∀ (ds : List Byte) (n : Nat) (acc : List Byte) (s : St) (rest : List Byte) (p : Nat),
    (∀ c ∈ ds, inNumber cfg c = true) → ds.length ≤ n → Delim_rt cfg rest → Vw s (ds ++ rest) p →
    ∃ s', scanNumber cfg n acc s = (acc.reverse ++ ds, s') ∧ Vw s' rest (p + ds.length) ∧ s'.l.loaded = true := by
  intro ds
  induction ds with
  | nil =>
    intro n acc s rest p _ _ hd h
    have h' : Vw s rest p := by simpa using h
    obtain ⟨s1, hc, hv, hl⟩ := vw_cur_headD h'
    cases n with
    | zero => exact ⟨s1, by simp [scanNumber, hc], by simpa using hv, hl⟩
    | succ n =>
      refine ⟨s1, ?_, by simpa using hv, hl⟩
      have hd' : inNumber cfg (rest.headD 0) = false := hd
      simp only [scanNumber, hc, hd', Bool.false_eq_true, ↓reduceIte, List.append_nil]
  | cons c cs ih =>
    intro n acc s rest p hin hlen hd h
    obtain ⟨n', rfl⟩ : ∃ n', n = n' + 1 := ⟨n - 1, by simp at hlen; omega⟩
    have h' : Vw s (c :: (cs ++ rest)) p := by simpa using h
    obtain ⟨s1, hc, hl⟩ := vw_cur_cons h'
    obtain ⟨s', he, hv, hld⟩ := ih n' (c :: acc) (mv s1) rest (p + 1) (fun x hx => hin x (by simp [hx]))
      (by simp at hlen; omega) hd hl.mv.vw
    refine ⟨s', ?_, ?_, hld⟩
    · simp only [scanNumber, hc, hin c (by simp), ↓reduceIte, he, List.reverse_cons, List.append_assoc,
        List.singleton_append]
    · have : p + 1 + cs.length = p + (c :: cs).length := by simp; omega
      rw [← this]; exact hv

open Digits in
theorem digits_length_le (k : Nat) : ∀ n, n < 10 ^ (k + 1) → (JS.digits n).length ≤ k + 1 := by
  induction k with
  | zero => intro n h; rw [digits_rec, if_pos (by simpa using h)]; simp
  | succ k ih =>
    intro n h
    rw [digits_rec]
    split
    · simp
    · have := ih (n / 10) (by rw [Nat.pow_succ] at h; omega)
      simp only [List.length_append, List.length_cons, List.length_nil]; omega

theorem digits_length_le_20 (n : Nat) (h : n < 2 ^ 64) : (JS.digits n).length ≤ 20 :=
  digits_length_le 19 n (by have : (2 : Nat) ^ 64 < 10 ^ 20 := by decide
                            omega)

theorem inNumber_digit (cfg : Cfg) {c : Byte} (h : 0x30 ≤ c ∧ c ≤ 0x39) : inNumber cfg c = true := by
  simp only [inNumber, Bool.or_eq_true, Bool.and_eq_true, decide_eq_true_eq]
  exact Or.inl (Or.inl (Or.inl (Or.inl h)))

theorem inNumber_minus (cfg : Cfg) : inNumber cfg 0x2D = true := by
  simp only [inNumber]; cases cfg.nan <;> cases cfg.inf <;> decide

/-- `skipSpaces` in front of a token, with the text kept abstract -/
theorem vw_tok' {cfg : Cfg} {n : Nat} {s : St} {u : List Byte} {c : Byte} {r : List Byte} {p : Nat}
    (h : Vw s u p) (hu : u = c :: r) (ht : Tok_rt c) :
    ∃ s1, skipSpaces cfg (n + 1) s = (.ok, s1) ∧ cur s1 = (c, s1) ∧ Vw s1 u p ∧ Un (mv s1) r (p + 1) := by
  subst hu
  obtain ⟨s1, h1, h2⟩ := vw_tok (cfg := cfg) (n := n) h ht
  exact ⟨s1, h1, h2.cur, h2.vw, h2.mv⟩

end JD

/-! ## documents, their normal form through JSON, and the hypotheses of the round trip -/
namespace C07
open JD JSer

/- `AllV P K v`: every scalar node of `v` satisfies `P`, every object key satisfies `K` -/
mutual
def AllV (P : Val → Prop) (K : List Byte → Prop) : Val → Prop
  | .arr xs => AllE P K xs
  | .obj ms => AllM P K ms
  | .null => P .null
  | .bool b => P (.bool b)
  | .num n => P (.num n)
  | .str s => P (.str s)
  | .raw s => P (.raw s)
def AllE (P : Val → Prop) (K : List Byte → Prop) : List Val → Prop
  | [] => True
  | x :: r => AllV P K x ∧ AllE P K r
def AllM (P : Val → Prop) (K : List Byte → Prop) : List (List Byte × Val) → Prop
  | [] => True
  | (k, v) :: r => K k ∧ AllV P K v ∧ AllM P K r
end

def FloatFreeS : Val → Prop
  | .num (.f32 _) => False
  | .num (.f64 _) => False
  | _ => True
def RawFreeS : Val → Prop
  | .raw _ => False
  | _ => True
def IntOkS : Val → Prop
  | .num (.uint n) => n < 2 ^ 64
  | .num (.sint i) => -(2 ^ 63 : Int) ≤ i ∧ i < 2 ^ 64
  | _ => True
def StrOkS (m : Nat) : Val → Prop
  | .str s => s.length ≤ m
  | _ => True

/-- no `.f32` / `.f64` node anywhere -/
def NoFloat (v : Val) : Prop := AllV FloatFreeS (fun _ => True) v
/-- no raw (pre-serialized) node anywhere -/
def RawFree (v : Val) : Prop := AllV RawFreeS (fun _ => True) v
/-- every integer node is within [-2^63, 2^64) (unsigned ones within [0, 2^64)) -/
def IntsInRange (v : Val) : Prop := AllV IntOkS (fun _ => True) v
/-- every string value and every key has at most `m` bytes -/
def StrsWithin (m : Nat) (v : Val) : Prop := AllV (StrOkS m) (fun k => k.length ≤ m) v

def ScalarOk (cfg : Cfg) (v : Val) : Prop := FloatFreeS v ∧ RawFreeS v ∧ IntOkS v ∧ StrOkS cfg.maxStrLen v
/-- all four hypotheses together -/
def Good (cfg : Cfg) (v : Val) : Prop := AllV (ScalarOk cfg) (fun k => k.length ≤ cfg.maxStrLen) v

mutual
theorem AllV_and {P P' : Val → Prop} {K K' : List Byte → Prop} :
    ∀ v, AllV P K v → AllV P' K' v → AllV (fun v => P v ∧ P' v) (fun k => K k ∧ K' k) v
  | .arr xs => by simp only [AllV]; exact AllE_and xs
  | .obj ms => by simp only [AllV]; exact AllM_and ms
  | .null => by simp only [AllV]; exact fun a b => ⟨a, b⟩
  | .bool _ => by simp only [AllV]; exact fun a b => ⟨a, b⟩
  | .num _ => by simp only [AllV]; exact fun a b => ⟨a, b⟩
  | .str _ => by simp only [AllV]; exact fun a b => ⟨a, b⟩
  | .raw _ => by simp only [AllV]; exact fun a b => ⟨a, b⟩
theorem AllE_and {P P' : Val → Prop} {K K' : List Byte → Prop} :
    ∀ xs, AllE P K xs → AllE P' K' xs → AllE (fun v => P v ∧ P' v) (fun k => K k ∧ K' k) xs
  | [] => by simp only [AllE]; exact fun _ _ => trivial
  | x :: r => by simp only [AllE]; exact fun a b => ⟨AllV_and x a.1 b.1, AllE_and r a.2 b.2⟩
theorem AllM_and {P P' : Val → Prop} {K K' : List Byte → Prop} :
    ∀ ms, AllM P K ms → AllM P' K' ms → AllM (fun v => P v ∧ P' v) (fun k => K k ∧ K' k) ms
  | [] => by simp only [AllM]; exact fun _ _ => trivial
  | (k, v) :: r => by
    simp only [AllM]; exact fun a b => ⟨⟨a.1, b.1⟩, AllV_and v a.2.1 b.2.1, AllM_and r a.2.2 b.2.2⟩
end

mutual
theorem AllV_mono {P P' : Val → Prop} {K K' : List Byte → Prop} (hP : ∀ v, P v → P' v) (hK : ∀ k, K k → K' k) :
    ∀ v, AllV P K v → AllV P' K' v
  | .arr xs => by simp only [AllV]; exact AllE_mono hP hK xs
  | .obj ms => by simp only [AllV]; exact AllM_mono hP hK ms
  | .null => by simp only [AllV]; exact hP _
  | .bool _ => by simp only [AllV]; exact hP _
  | .num _ => by simp only [AllV]; exact hP _
  | .str _ => by simp only [AllV]; exact hP _
  | .raw _ => by simp only [AllV]; exact hP _
theorem AllE_mono {P P' : Val → Prop} {K K' : List Byte → Prop} (hP : ∀ v, P v → P' v) (hK : ∀ k, K k → K' k) :
    ∀ xs, AllE P K xs → AllE P' K' xs
  | [] => by simp only [AllE]; exact fun _ => trivial
  | x :: r => by simp only [AllE]; exact fun a => ⟨AllV_mono hP hK x a.1, AllE_mono hP hK r a.2⟩
theorem AllM_mono {P P' : Val → Prop} {K K' : List Byte → Prop} (hP : ∀ v, P v → P' v) (hK : ∀ k, K k → K' k) :
    ∀ ms, AllM P K ms → AllM P' K' ms
  | [] => by simp only [AllM]; exact fun _ => trivial
  | (k, v) :: r => by
    simp only [AllM]; exact fun a => ⟨hK k a.1, AllV_mono hP hK v a.2.1, AllM_mono hP hK r a.2.2⟩
end

theorem good_of (cfg : Cfg) (v : Val) (h1 : NoFloat v) (h2 : RawFree v) (h3 : IntsInRange v)
    (h4 : StrsWithin cfg.maxStrLen v) : Good cfg v := by
  have a := AllV_and v (AllV_and v (AllV_and v h1 h2) h3) h4
  exact AllV_mono (fun v h => ⟨h.1.1.1, h.1.1.2, h.1.2, h.2⟩) (fun k h => h.2) v a

/- nesting depth as counted by the deserializer: a scalar needs no level, each container one more than its content -/
mutual
def depth : Val → Nat
  | .arr xs => depthE xs + 1
  | .obj ms => depthM ms + 1
  | _ => 0
def depthE : List Val → Nat
  | [] => 0
  | x :: r => max (depth x) (depthE r)
def depthM : List (List Byte × Val) → Nat
  | [] => 0
  | (_, v) :: r => max (depth v) (depthM r)
end

/-- members inserted one after the other with `setMember`, as `parseObject` does: a repeated key keeps its first
    position and takes the last value -/
def insertAll (acc ms : List (List Byte × Val)) : List (List Byte × Val) :=
  ms.foldl (fun a kv => setMember a kv.1 kv.2) acc

def lastWins (ms : List (List Byte × Val)) : List (List Byte × Val) := insertAll [] ms

/- what a float-free, raw-free document becomes through JSON text: a non-negative signed integer comes back
    as the unsigned integer of the same value; members with a repeated key are merged (`lastWins`) -/
mutual
def normJ : Val → Val
  | .arr xs => .arr (normElems xs)
  | .obj ms => .obj (lastWins (normMembers ms))
  | .num (.sint v) => if 0 ≤ v then .num (.uint v.toNat) else .num (.sint v)
  | .num n => .num n
  | .null => .null
  | .bool b => .bool b
  | .str s => .str s
  | .raw s => .raw s
def normElems : List Val → List Val
  | [] => []
  | x :: r => normJ x :: normElems r
def normMembers : List (List Byte × Val) → List (List Byte × Val)
  | [] => []
  | (k, v) :: r => (k, normJ v) :: normMembers r
end


/-! ## integers -/

theorem digits_cons (n : Nat) : ∃ c t, JS.digits n = c :: t ∧ isDigit c = true := by
  obtain ⟨h1, _, h3, _⟩ := Digits.digits_spec n
  cases hd : JS.digits n with
  | nil => exact absurd hd h3
  | cons c t => exact ⟨c, t, rfl, Digits.isDigit_of_range (by rw [hd] at h1; exact (Digits.AllDigits_cons.mp h1).1)⟩

theorem digits_inNumber (cfg : Cfg) (n : Nat) : ∀ x ∈ JS.digits n, inNumber cfg x = true := by
  obtain ⟨h1, _⟩ := Digits.digits_spec n
  exact fun x hx => inNumber_digit cfg (h1 x hx)

/-- the text of an in-range integer: starts like a number, consists of number bytes, fits the 63-byte buffer,
    and is parsed back to the normal form of the value -/
theorem int_text (cfg : Cfg) (n : Num) (hg : ScalarOk cfg (.num n)) :
    ∃ c t, JS.printNum cfg n = c :: t ∧ NumStart_rt c ∧ (∀ x ∈ JS.printNum cfg n, inNumber cfg x = true) ∧
      (JS.printNum cfg n).length ≤ 63 ∧
      ((∃ m, parseNumber cfg (JS.printNum cfg n) = .uint m ∧ normJ (.num n) = .num (.uint m)) ∨
       (∃ i, parseNumber cfg (JS.printNum cfg n) = .sint i ∧ normJ (.num n) = .num (.sint i))) := by
  obtain ⟨hf, _, hi, _⟩ := hg
  cases n with
  | f32 b => exact absurd hf (by simp [FloatFreeS])
  | f64 b => exact absurd hf (by simp [FloatFreeS])
  | uint m =>
    have hm : m < 2 ^ 64 := hi
    obtain ⟨c, t, e, hc⟩ := digits_cons m
    refine ⟨c, t, e, Or.inl hc, digits_inNumber cfg m, ?_, Or.inl ⟨m, C12.int_roundtrip cfg m hm, by simp [normJ]⟩⟩
    have := digits_length_le_20 m hm
    show (JS.digits m).length ≤ 63
    omega
  | sint i =>
    have hr : -(2 ^ 63 : Int) ≤ i ∧ i < 2 ^ 64 := hi
    by_cases hneg : i < 0
    · have e : JS.printNum cfg (.sint i) = 0x2D :: JS.digits i.natAbs := by
        rw [C12.int_print_signed, if_pos hneg]; rfl
      refine ⟨0x2D, _, e, Or.inr rfl, ?_, ?_, Or.inr ⟨i, C12.int_roundtrip_signed cfg i hr.1 hneg, ?_⟩⟩
      · rw [e]; intro x hx
        rcases List.mem_cons.mp hx with rfl | hx
        · exact inNumber_minus cfg
        · exact digits_inNumber cfg _ x hx
      · rw [e]
        have := digits_length_le_20 i.natAbs (by omega)
        simp only [List.length_cons]; omega
      · simp only [normJ]; rw [if_neg (by omega)]
    · have e : JS.printNum cfg (.sint i) = JS.digits i.natAbs := by
        rw [C12.int_print_signed, if_neg hneg]; rfl
      obtain ⟨c, t, e2, hc⟩ := digits_cons i.natAbs
      refine ⟨c, t, by rw [e, e2], Or.inl hc, ?_, ?_,
        Or.inl ⟨i.toNat, C12.int_roundtrip_signed_nonneg cfg i (by omega) hr.2, ?_⟩⟩
      · rw [e]; exact digits_inNumber cfg _
      · rw [e]
        have := digits_length_le_20 i.natAbs (by omega)
        omega
      · simp only [normJ]; rw [if_pos (by omega)]

/-- an in-range integer followed by a delimiter is read back; the look-ahead byte stays latched -/
theorem pv_number (cfg : Cfg) {f L : Nat} (n : Num) (hg : ScalarOk cfg (.num n)) (s : St) (rest : List Byte) (p : Nat)
    (hd : Delim_rt cfg rest) (h : Vw s (JS.printNum cfg n ++ rest) p) :
    ∃ s', parseVariant cfg (f + 1) L s = (.ok, normJ (.num n), s') ∧
      Vw s' rest (p + (JS.printNum cfg n).length) ∧ s'.l.loaded = true := by
  obtain ⟨c, t, e, hc, hin, hlen, hres⟩ := int_text cfg n hg
  obtain ⟨s1, h1, c1, v1, _⟩ := vw_tok' (cfg := cfg) (n := f) h (by rw [e]; rfl) (numStart_facts_rt hc).1
  obtain ⟨s', hscan, hv, hl⟩ := scanNumber_exact cfg (JS.printNum cfg n) (Gen.number_buffer - 1) [] s1 rest p hin
    (by show _ ≤ 63; exact hlen) hd v1
  refine ⟨s', ?_, hv, hl⟩
  rw [pv_num_rt h1 c1 hc]
  simp only [List.reverse_nil, List.nil_append] at hscan
  rcases hres with ⟨m, hp, hn⟩ | ⟨i, hp, hn⟩
  · simp only [parseNumeric, hscan, hp, hn]
  · simp only [parseNumeric, hscan, hp, hn]


/-! ## number nodes in general (floats included): what the text of a node is read back as -/

def nullText : List Byte := [0x6E, 0x75, 0x6C, 0x6C]

/-- the value that `parseNumeric` stores for the number text `T` -/
def numValue (cfg : Cfg) (T : List Byte) : Val :=
  match parseNumber cfg T with
  | .uint n => .num (.uint n)
  | .sint n => .num (.sint n)
  | .f32 b => .num (.f32 b)
  | .f64 b => .num (storeDouble b)
  | _ => .null

/-- what a number node is read back as: `null` when it was printed as `null` (NaN/Infinity without the options),
    otherwise whatever `parseNumber` makes of its text -/
def numBack (cfg : Cfg) (n : Num) : Val :=
  if JS.printNum cfg n = nullText then .null else numValue cfg (JS.printNum cfg n)

/-- a first byte that sends `parseVariant` to `parseNumeric` -/
def NumStartG (c : Byte) : Prop :=
  Tok_rt c ∧ (c == 0x5B) = false ∧ (c == 0x7B) = false ∧ (c == 0x22 || c == 0x27) = false ∧ (c == 0x74) = false ∧
    (c == 0x66) = false ∧ (c == 0x6E) = false ∧ c ≠ 0x5D ∧ c ≠ 0x7D

/-- the text of the node can be read back: it is `null`, or it starts like a number, consists of number bytes, fits the
    63-byte buffer of `parseNumeric`, and `parseNumber` neither rejects it nor runs out of its powers-of-ten table -/
def NumReadable (cfg : Cfg) (n : Num) : Prop :=
  JS.printNum cfg n = nullText ∨
  ((∃ c t, JS.printNum cfg n = c :: t ∧ NumStartG c) ∧ (∀ x ∈ JS.printNum cfg n, inNumber cfg x = true) ∧
    (JS.printNum cfg n).length ≤ 63 ∧ parseNumber cfg (JS.printNum cfg n) ≠ .invalid ∧
    parseNumber cfg (JS.printNum cfg n) ≠ .fault)

theorem pv_numG {cfg : Cfg} {f L : Nat} {s s1 : St} {c : Byte}
    (h1 : skipSpaces cfg (f + 1) s = (.ok, s1)) (c1 : cur s1 = (c, s1)) (hc : NumStartG c) :
    parseVariant cfg (f + 1) L s = parseNumeric cfg s1 := by
  obtain ⟨_, k1, k2, k3, k4, k5, k6, _, _⟩ := hc
  simp only [parseVariant, h1, c1, k1, k2, k3, k4, k5, k6, Bool.false_eq_true, ↓reduceIte]

/-- a readable number text followed by a delimiter is read back as `numValue`; the look-ahead byte stays latched -/
theorem pv_numberG (cfg : Cfg) {f L : Nat} (T : List Byte) (hst : ∃ c t, T = c :: t ∧ NumStartG c)
    (hin : ∀ x ∈ T, inNumber cfg x = true) (hlen : T.length ≤ 63) (hni : parseNumber cfg T ≠ .invalid)
    (hnf : parseNumber cfg T ≠ .fault) (s : St) (rest : List Byte) (p : Nat)
    (hd : Delim_rt cfg rest) (h : Vw s (T ++ rest) p) :
    ∃ s', parseVariant cfg (f + 1) L s = (.ok, numValue cfg T, s') ∧ Vw s' rest (p + T.length) ∧ s'.l.loaded = true := by
  obtain ⟨c, t, e, hc⟩ := hst
  obtain ⟨s1, h1, c1, v1, _⟩ := vw_tok' (cfg := cfg) (n := f) h (by rw [e]; rfl) hc.1
  obtain ⟨s', hscan, hv, hl⟩ := scanNumber_exact cfg T (Gen.number_buffer - 1) [] s1 rest p hin
    (by show _ ≤ 63; exact hlen) hd v1
  refine ⟨s', ?_, hv, hl⟩
  rw [pv_numG h1 c1 hc]
  simp only [List.reverse_nil, List.nil_append] at hscan
  simp only [parseNumeric, hscan, numValue]
  cases hp : parseNumber cfg T with
  | invalid => exact absurd hp hni
  | fault => exact absurd hp hnf
  | uint m => rfl
  | sint i => rfl
  | f32 b => rfl
  | f64 b => rfl

/- the document read back: every number node replaced by `numBack`, members merged by `lastWins` -/
mutual
def readBack (cfg : Cfg) : Val → Val
  | .arr xs => .arr (readBackE cfg xs)
  | .obj ms => .obj (lastWins (readBackM cfg ms))
  | .num n => numBack cfg n
  | .null => .null
  | .bool b => .bool b
  | .str s => .str s
  | .raw s => .raw s
def readBackE (cfg : Cfg) : List Val → List Val
  | [] => []
  | x :: r => readBack cfg x :: readBackE cfg r
def readBackM (cfg : Cfg) : List (List Byte × Val) → List (List Byte × Val)
  | [] => []
  | (k, v) :: r => (k, readBack cfg v) :: readBackM cfg r
end

def NumOkS (cfg : Cfg) : Val → Prop
  | .num n => NumReadable cfg n
  | _ => True

/-- every number node is readable -/
def NumsReadable (cfg : Cfg) (v : Val) : Prop := AllV (NumOkS cfg) (fun _ => True) v

def ScalarOkG (cfg : Cfg) (v : Val) : Prop := RawFreeS v ∧ NumOkS cfg v ∧ StrOkS cfg.maxStrLen v
def GoodG (cfg : Cfg) (v : Val) : Prop := AllV (ScalarOkG cfg) (fun k => k.length ≤ cfg.maxStrLen) v

theorem goodG_of (cfg : Cfg) (v : Val) (h2 : RawFree v) (h3 : NumsReadable cfg v)
    (h4 : StrsWithin cfg.maxStrLen v) : GoodG cfg v := by
  have a := AllV_and v (AllV_and v h2 h3) h4
  exact AllV_mono (fun v h => ⟨h.1.1, h.1.2, h.2⟩) (fun k h => h.2) v a

theorem numStartG_of {c : Byte} (h : NumStart_rt c) : NumStartG c := numStart_facts_rt h

/-- an in-range integer node is readable, and is read back as its normal form -/
theorem int_readable (cfg : Cfg) (n : Num) (hg : ScalarOk cfg (.num n)) :
    NumReadable cfg n ∧ numBack cfg n = normJ (.num n) := by
  obtain ⟨c, t, e, hc, hin, hlen, hres⟩ := int_text cfg n hg
  have hnn : JS.printNum cfg n ≠ nullText := by
    intro h
    rw [e] at h
    have : c = 0x6E := (List.cons.inj h).1
    subst this
    rcases hc with hc | hc
    · exact absurd hc (by decide)
    · exact absurd hc (by decide)
  refine ⟨Or.inr ⟨⟨c, t, e, numStartG_of hc⟩, hin, hlen, ?_, ?_⟩, ?_⟩
  · rcases hres with ⟨m, hp, _⟩ | ⟨i, hp, _⟩ <;> rw [hp] <;> exact fun h => nomatch h
  · rcases hres with ⟨m, hp, _⟩ | ⟨i, hp, _⟩ <;> rw [hp] <;> exact fun h => nomatch h
  · simp only [numBack, hnn, ↓reduceIte, numValue]
    rcases hres with ⟨m, hp, hn⟩ | ⟨i, hp, hn⟩ <;> rw [hp, hn]

theorem scalarOkG_of (cfg : Cfg) (v : Val) (h : ScalarOk cfg v) : ScalarOkG cfg v := by
  refine ⟨h.2.1, ?_, h.2.2.2⟩
  cases v with
  | num n => exact (int_readable cfg n h).1
  | _ => trivial

theorem goodG_of_good (cfg : Cfg) (v : Val) (h : Good cfg v) : GoodG cfg v :=
  AllV_mono (scalarOkG_of cfg) (fun _ h => h) v h

mutual
theorem readBack_eq_normJ (cfg : Cfg) : ∀ v, Good cfg v → readBack cfg v = normJ v
  | .arr xs => by simp only [Good, AllV, readBack, normJ]; intro h; rw [readBackE_eq cfg xs h]
  | .obj ms => by simp only [Good, AllV, readBack, normJ]; intro h; rw [readBackM_eq cfg ms h]
  | .num n => by simp only [Good, AllV, readBack]; intro h; exact (int_readable cfg n h).2
  | .null => by simp only [readBack, normJ]; intro _; trivial
  | .bool _ => by simp only [readBack, normJ]; intro _; trivial
  | .str _ => by simp only [readBack, normJ]; intro _; trivial
  | .raw _ => by simp only [readBack, normJ]; intro _; trivial
theorem readBackE_eq (cfg : Cfg) : ∀ xs, AllE (ScalarOk cfg) (fun k => k.length ≤ cfg.maxStrLen) xs →
    readBackE cfg xs = normElems xs
  | [] => fun _ => rfl
  | x :: r => by
    simp only [AllE, readBackE, normElems]; intro h; rw [readBack_eq_normJ cfg x h.1, readBackE_eq cfg r h.2]
theorem readBackM_eq (cfg : Cfg) : ∀ ms, AllM (ScalarOk cfg) (fun k => k.length ≤ cfg.maxStrLen) ms →
    readBackM cfg ms = normMembers ms
  | [] => fun _ => rfl
  | (k, v) :: r => by
    simp only [AllM, readBackM, normMembers]; intro h
    rw [readBack_eq_normJ cfg v h.2.1, readBackM_eq cfg r h.2.2]
end

/-! ## the first byte of a serialized value -/

theorem tok_of {c : Byte} (h0 : c ≠ 0) (hw : isWs c = false) (h2 : c ≠ 0x2F) : Tok_rt c := ⟨h0, hw, h2⟩

theorem compact_start (cfg : Cfg) (v : Val) (hg : GoodG cfg v) :
    ∃ c t, compact cfg v = c :: t ∧ Tok_rt c ∧ c ≠ 0x5D ∧ c ≠ 0x7D := by
  cases v with
  | arr xs => exact ⟨0x5B, _, by simp only [compact]; rfl, tok_of (by decide) (by decide) (by decide), by decide, by decide⟩
  | obj ms => exact ⟨0x7B, _, by simp only [compact]; rfl, tok_of (by decide) (by decide) (by decide), by decide, by decide⟩
  | null => exact ⟨0x6E, _, by simp only [compact, kw_null_rt]; rfl, tok_of (by decide) (by decide) (by decide), by decide, by decide⟩
  | bool b =>
    cases b
    · exact ⟨0x66, _, by simp only [compact, kw_false_rt]; rfl, tok_of (by decide) (by decide) (by decide), by decide, by decide⟩
    · exact ⟨0x74, _, by simp only [compact, kw_true_rt]; rfl, tok_of (by decide) (by decide) (by decide), by decide, by decide⟩
  | num n =>
    have hn : ScalarOkG cfg (.num n) := by simpa only [GoodG, AllV] using hg
    rcases hn.2.1 with e | ⟨⟨c, t, e, hc⟩, _⟩
    · exact ⟨0x6E, [0x75, 0x6C, 0x6C], by simp only [compact, e]; rfl, tok_of (by decide) (by decide) (by decide),
        by decide, by decide⟩
    · exact ⟨c, t, by simp only [compact, e], hc.1, hc.2.2.2.2.2.2.2.1, hc.2.2.2.2.2.2.2.2⟩
  | str s =>
    exact ⟨0x22, _, by simp only [compact, writeString]; rfl, tok_of (by decide) (by decide) (by decide), by decide, by decide⟩
  | raw s =>
    have : ScalarOkG cfg (.raw s) := by simpa only [GoodG, AllV] using hg
    exact absurd this.1 (by simp [RawFreeS])

theorem compactElems_start (cfg : Cfg) (x : Val) (xs : List Val) (hg : GoodG cfg x) :
    ∃ c t, compactElems cfg (x :: xs) = c :: t ∧ Tok_rt c ∧ c ≠ 0x5D := by
  obtain ⟨c, t, e, ht, h5, _⟩ := compact_start cfg x hg
  cases xs with
  | nil => exact ⟨c, t, by simp only [compactElems, e], ht, h5⟩
  | cons y r => exact ⟨c, _, by simp only [compactElems, e, List.cons_append]; rfl, ht, h5⟩

theorem compactMembers_start (cfg : Cfg) (k : List Byte) (v : Val) (ms : List (List Byte × Val)) :
    ∃ t, compactMembers cfg ((k, v) :: ms) = 0x22 :: t := by
  cases ms with
  | nil => exact ⟨_, by simp only [compactMembers, writeString, List.cons_append]; rfl⟩
  | cons m r => exact ⟨_, by simp only [compactMembers, writeString, List.cons_append]; rfl⟩


/-! ## the mutual induction over the fuel -/

/-- values: from any reader state in front of `compact v ++ rest` -/
def PV (cfg : Cfg) (f : Nat) : Prop :=
  ∀ (L : Nat) (v : Val) (rest : List Byte) (s : St) (p : Nat), GoodG cfg v → depth v ≤ L → (compact cfg v).length < f →
    Delim_rt cfg rest → Vw s (compact cfg v ++ rest) p →
    ∃ s', parseVariant cfg f L s = (.ok, readBack cfg v, s') ∧ Vw s' rest (p + (compact cfg v).length)

/-- array elements up to and including the closing bracket, with the accumulator of `parseElems` -/
def PE (cfg : Cfg) (f : Nat) : Prop :=
  ∀ (L : Nat) (x : Val) (xs : List Val) (rest : List Byte) (s : St) (p : Nat) (acc : List Val),
    AllE (ScalarOkG cfg) (fun k => k.length ≤ cfg.maxStrLen) (x :: xs) → depthE (x :: xs) ≤ L →
    (compactElems cfg (x :: xs)).length + 1 < f → Vw s (compactElems cfg (x :: xs) ++ 0x5D :: rest) p →
    ∃ s', parseElems cfg f L s acc = (.ok, .arr (acc.reverse ++ readBackE cfg (x :: xs)), s') ∧
      Vw s' rest (p + (compactElems cfg (x :: xs)).length + 1)

/-- object members up to and including the closing brace, with the members already stored -/
def PM (cfg : Cfg) (f : Nat) : Prop :=
  ∀ (L : Nat) (k : List Byte) (v : Val) (ms : List (List Byte × Val)) (rest : List Byte) (s : St) (p : Nat)
    (acc : List (List Byte × Val)),
    AllM (ScalarOkG cfg) (fun k => k.length ≤ cfg.maxStrLen) ((k, v) :: ms) → depthM ((k, v) :: ms) ≤ L →
    (compactMembers cfg ((k, v) :: ms)).length + 1 < f → Vw s (compactMembers cfg ((k, v) :: ms) ++ 0x7D :: rest) p →
    ∃ s', parseMembers cfg f L s acc = (.ok, .obj (insertAll acc (readBackM cfg ((k, v) :: ms))), s') ∧
      Vw s' rest (p + (compactMembers cfg ((k, v) :: ms)).length + 1)

theorem kw_case {cfg : Cfg} {f L : Nat} {s : St} {rest : List Byte} {p : Nat} (c : Byte) (ks : List Byte) (val : Val)
    (ht : Tok_rt c) (hks : ∀ k ∈ c :: ks, k ≠ 0) (h : Vw s ((c :: ks) ++ rest) p)
    (hpv : ∀ s1, skipSpaces cfg (f + 1) s = (.ok, s1) → cur s1 = (c, s1) →
      parseVariant cfg (f + 1) L s = (match skipKeyword (c :: ks) s1 with | (e, s) => (e, val, s))) :
    ∃ s', parseVariant cfg (f + 1) L s = (.ok, val, s') ∧ Vw s' rest (p + (c :: ks).length) := by
  obtain ⟨s1, h1, c1, v1, _⟩ := vw_tok' (cfg := cfg) (n := f) h rfl ht
  obtain ⟨s', he, hv⟩ := skipKeyword_ok_rt (c :: ks) s1 rest p hks v1
  exact ⟨s', by rw [hpv s1 h1 c1, he], hv⟩

theorem step_V (cfg : Cfg) (hcfg : cfg.decodeUnicode = true) (f : Nat) (ihE : PE cfg f) (ihM : PM cfg f) :
    PV cfg (f + 1) := by
  intro L v rest s p hg hdep hlen hdl h
  cases v with
  | null =>
    simp only [compact, kw_null_rt] at h hlen ⊢
    simp only [readBack]
    exact kw_case 0x6E [0x75, 0x6C, 0x6C] .null (tok_of (by decide) (by decide) (by decide)) (by decide) h
      (fun s1 h1 c1 => by rw [pv_null_rt h1 c1, kw_null_rt])
  | bool b =>
    cases b
    · simp only [compact, kw_false_rt] at h hlen ⊢
      simp only [readBack]
      exact kw_case 0x66 [0x61, 0x6C, 0x73, 0x65] (.bool false) (tok_of (by decide) (by decide) (by decide)) (by decide) h
        (fun s1 h1 c1 => by rw [pv_false_rt h1 c1, kw_false_rt])
    · simp only [compact, kw_true_rt] at h hlen ⊢
      simp only [readBack]
      exact kw_case 0x74 [0x72, 0x75, 0x65] (.bool true) (tok_of (by decide) (by decide) (by decide)) (by decide) h
        (fun s1 h1 c1 => by rw [pv_true_rt h1 c1, kw_true_rt])
  | num n =>
    simp only [compact] at h hlen ⊢
    have hn : ScalarOkG cfg (.num n) := by simpa only [GoodG, AllV] using hg
    rcases hn.2.1 with e | ⟨hst, hin, hl, hni, hnf⟩
    · have hb : readBack cfg (.num n) = .null := by simp only [readBack, numBack, e, ↓reduceIte]
      rw [e] at h ⊢
      rw [hb]
      exact kw_case 0x6E [0x75, 0x6C, 0x6C] .null (tok_of (by decide) (by decide) (by decide)) (by decide) h
        (fun s1 h1 c1 => by rw [pv_null_rt h1 c1, kw_null_rt])
    · have hnn : JS.printNum cfg n ≠ nullText := by
        intro e
        obtain ⟨c, t, e2, hc⟩ := hst
        rw [e] at e2
        have : c = 0x6E := (List.cons.inj e2).1.symm
        subst this
        exact absurd hc.2.2.2.2.2.2.1 (by decide)
      have hb : readBack cfg (.num n) = numValue cfg (JS.printNum cfg n) := by
        simp only [readBack, numBack, hnn, ↓reduceIte]
      rw [hb]
      obtain ⟨s', he, hv, _⟩ := pv_numberG cfg (f := f) (L := L) _ hst hin hl hni hnf s rest p hdl h
      exact ⟨s', he, hv⟩
  | raw r =>
    have : ScalarOkG cfg (.raw r) := by simpa only [GoodG, AllV] using hg
    exact absurd this.1 (by simp [RawFreeS])
  | str str =>
    have hso : ScalarOkG cfg (.str str) := by simpa only [GoodG, AllV] using hg
    have hsl : str.length ≤ cfg.maxStrLen := hso.2.2
    have hle := length_le_escaped str
    have hcl : (compact cfg (.str str)).length = (str.flatMap writeChar).length + 2 := by
      simp [compact, writeString]
    have htx : compact cfg (.str str) ++ rest = 0x22 :: (str.flatMap writeChar ++ 0x22 :: rest) := by
      simp [compact, writeString]
    rw [htx] at h
    obtain ⟨s1, h1, c1, _, u1⟩ := vw_tok' (cfg := cfg) (n := f) h rfl (tok_of (by decide) (by decide) (by decide))
    obtain ⟨q', hq', he⟩ := C17.escape_inverse_gen hcfg str (f + 1) [] 0 (mv s1) rest (p + 1) _ (by omega)
      (by simpa using hsl) u1.at
    refine ⟨q', ?_, ?_⟩
    · rw [pv_str_rt h1 c1, he]; simp [readBack]
    · rw [hcl]
      have : p + 1 + (str.flatMap writeChar).length + 1 = p + ((str.flatMap writeChar).length + 2) := by omega
      rw [← this]; exact hq'.un.vw
  | arr xs =>
    obtain ⟨L', rfl⟩ : ∃ L', L = L' + 1 := ⟨L - 1, by simp only [depth] at hdep; omega⟩
    have hcl : (compact cfg (.arr xs)).length = (compactElems cfg xs).length + 2 := by simp [compact]
    have htx : compact cfg (.arr xs) ++ rest = 0x5B :: (compactElems cfg xs ++ 0x5D :: rest) := by simp [compact]
    rw [htx] at h
    obtain ⟨s1, h1, c1, _, u1⟩ := vw_tok' (cfg := cfg) (n := f) h rfl (tok_of (by decide) (by decide) (by decide))
    cases xs with
    | nil =>
      have u1' : Vw (mv s1) (0x5D :: rest) (p + 1) := by simpa [compactElems] using u1.vw
      obtain ⟨s2, h2, c2, _, u2⟩ := vw_tok' (cfg := cfg) (n := f) u1' rfl (tok_of (by decide) (by decide) (by decide))
      refine ⟨mv s2, ?_, ?_⟩
      · rw [pv_arr_empty h1 c1 h2 c2]; simp [readBack, readBackE]
      · rw [hcl]; simpa [compactElems, Nat.add_assoc] using u2.vw
    | cons x xs =>
      have hgE : AllE (ScalarOkG cfg) (fun k => k.length ≤ cfg.maxStrLen) (x :: xs) := by
        simpa only [GoodG, AllV] using hg
      obtain ⟨c, t, e, ht, hne⟩ := compactElems_start cfg x xs (by simp only [AllE] at hgE; exact hgE.1)
      obtain ⟨s2, h2, c2, v2, _⟩ := vw_tok' (cfg := cfg) (n := f) u1.vw (r := t ++ 0x5D :: rest) (by rw [e]; rfl) ht
      obtain ⟨s', he, hv⟩ := ihE L' x xs rest s2 (p + 1) [] hgE (by simp only [depth] at hdep; omega)
        (by rw [hcl] at hlen; omega) v2
      refine ⟨s', ?_, ?_⟩
      · rw [pv_arr h1 c1 h2 c2 hne, he]; simp [readBack]
      · rw [hcl]
        have : p + 1 + (compactElems cfg (x :: xs)).length + 1 = p + ((compactElems cfg (x :: xs)).length + 2) := by omega
        rw [← this]; exact hv
  | obj ms =>
    obtain ⟨L', rfl⟩ : ∃ L', L = L' + 1 := ⟨L - 1, by simp only [depth] at hdep; omega⟩
    have hcl : (compact cfg (.obj ms)).length = (compactMembers cfg ms).length + 2 := by simp [compact]
    have htx : compact cfg (.obj ms) ++ rest = 0x7B :: (compactMembers cfg ms ++ 0x7D :: rest) := by simp [compact]
    rw [htx] at h
    obtain ⟨s1, h1, c1, _, u1⟩ := vw_tok' (cfg := cfg) (n := f) h rfl (tok_of (by decide) (by decide) (by decide))
    cases ms with
    | nil =>
      have u1' : Vw (mv s1) (0x7D :: rest) (p + 1) := by simpa [compactMembers] using u1.vw
      obtain ⟨s2, h2, c2, _, u2⟩ := vw_tok' (cfg := cfg) (n := f) u1' rfl (tok_of (by decide) (by decide) (by decide))
      refine ⟨mv s2, ?_, ?_⟩
      · rw [pv_obj_empty h1 c1 h2 c2]; simp [readBack, readBackM, lastWins, insertAll]
      · rw [hcl]; simpa [compactMembers, Nat.add_assoc] using u2.vw
    | cons m ms =>
      obtain ⟨k, x⟩ := m
      have hgM : AllM (ScalarOkG cfg) (fun k => k.length ≤ cfg.maxStrLen) ((k, x) :: ms) := by
        simpa only [GoodG, AllV] using hg
      obtain ⟨t, e⟩ := compactMembers_start cfg k x ms
      obtain ⟨s2, h2, c2, v2, _⟩ := vw_tok' (cfg := cfg) (n := f) u1.vw (r := t ++ 0x7D :: rest) (by rw [e]; rfl)
        (tok_of (by decide) (by decide) (by decide))
      obtain ⟨s', he, hv⟩ := ihM L' k x ms rest s2 (p + 1) [] hgM (by simp only [depth] at hdep; omega)
        (by rw [hcl] at hlen; omega) v2
      refine ⟨s', ?_, ?_⟩
      · rw [pv_obj h1 c1 h2 c2 (by decide), he]; simp [readBack, lastWins]
      · rw [hcl]
        have : p + 1 + (compactMembers cfg ((k, x) :: ms)).length + 1 =
            p + ((compactMembers cfg ((k, x) :: ms)).length + 2) := by omega
        rw [← this]; exact hv


theorem step_E (cfg : Cfg) (f : Nat) (ihV : PV cfg f) (ihE : PE cfg f) : PE cfg (f + 1) := by
  intro L x xs rest s p acc hg hdep hlen h
  simp only [AllE] at hg
  cases xs with
  | nil =>
    simp only [compactElems] at h hlen ⊢
    simp only [depthE] at hdep
    obtain ⟨s1, hv, v1⟩ := ihV L x (0x5D :: rest) s p hg.1 (by omega) (by omega)
      (delim_of_closer cfg (Or.inr (Or.inl rfl)) rest) h
    obtain ⟨s2, h2, c2, _, u2⟩ := vw_tok' (cfg := cfg) (n := f) v1 rfl (tok_of (by decide) (by decide) (by decide))
    exact ⟨mv s2, by rw [pe_last hv h2 c2]; simp [readBackE], u2.vw⟩
  | cons y r =>
    have htx : compactElems cfg (x :: y :: r) ++ 0x5D :: rest =
        compact cfg x ++ 0x2C :: (compactElems cfg (y :: r) ++ 0x5D :: rest) := by simp [compactElems]
    have hcl : (compactElems cfg (x :: y :: r)).length = (compact cfg x).length + 1 + (compactElems cfg (y :: r)).length := by
      simp [compactElems]; omega
    rw [htx] at h
    simp only [depthE] at hdep
    obtain ⟨s1, hv, v1⟩ := ihV L x _ s p hg.1 (by omega) (by omega) (delim_of_closer cfg (Or.inl rfl) _) h
    obtain ⟨s2, h2, c2, _, u2⟩ := vw_tok' (cfg := cfg) (n := f) v1 rfl (tok_of (by decide) (by decide) (by decide))
    obtain ⟨s', he, hv'⟩ := ihE L y r rest (mv s2) (p + (compact cfg x).length + 1) (readBack cfg x :: acc) hg.2
      (by simp only [depthE]; omega) (by omega) u2.vw
    refine ⟨s', ?_, ?_⟩
    · rw [pe_more hv h2 c2, he]; simp [readBackE]
    · rw [hcl]
      have : p + (compact cfg x).length + 1 + (compactElems cfg (y :: r)).length + 1 =
          p + ((compact cfg x).length + 1 + (compactElems cfg (y :: r)).length) + 1 := by omega
      rw [← this]; exact hv'

theorem step_M (cfg : Cfg) (hcfg : cfg.decodeUnicode = true) (f : Nat) (ihV : PV cfg f) (ihM : PM cfg f) :
    PM cfg (f + 1) := by
  intro L k x ms rest s p acc hg hdep hlen h
  simp only [AllM] at hg
  obtain ⟨hk, hgx, hgr⟩ := hg
  have hkl := length_le_escaped k
  -- the common beginning: the key, the colon, the value
  have common : ∀ (tail : List Byte), Delim_rt cfg tail → (compact cfg x).length < f →
      (k.flatMap writeChar).length + 2 < f + 1 →
      Vw s (0x22 :: (k.flatMap writeChar ++ 0x22 :: 0x3A :: (compact cfg x ++ tail))) p →
      ∃ s1 q1 q2 q3, cur s = (0x22, s1) ∧ parseQuoted cfg 0x22 (f + 1) [] 0 (mv s1) = (.ok, k, q1) ∧
        skipSpaces cfg (f + 1) q1 = (.ok, q2) ∧ cur q2 = (0x3A, q2) ∧
        parseVariant cfg f L (mv q2) = (.ok, readBack cfg x, q3) ∧
        Vw q3 tail (p + (k.flatMap writeChar).length + 3 + (compact cfg x).length) := by
    intro tail hdl hfx hfk h
    obtain ⟨s1, c1, l1⟩ := vw_cur_cons h
    obtain ⟨q1, hq1, he⟩ := C17.escape_inverse_gen hcfg k (f + 1) [] 0 (mv s1) (0x3A :: (compact cfg x ++ tail)) (p + 1) _
      (by omega) (by simpa using hk) l1.mv.at
    obtain ⟨q2, h2, c2, _, u2⟩ := vw_tok' (cfg := cfg) (n := f) hq1.un.vw rfl (tok_of (by decide) (by decide) (by decide))
    simp only [depthM] at hdep
    obtain ⟨q3, hv, v3⟩ := ihV L x tail (mv q2) _ hgx (by omega) hfx hdl u2.vw
    refine ⟨s1, q1, q2, q3, c1, by simpa using he, h2, c2, hv, ?_⟩
    have : p + 1 + (k.flatMap writeChar).length + 1 + 1 + (compact cfg x).length =
        p + (k.flatMap writeChar).length + 3 + (compact cfg x).length := by omega
    rw [← this]; exact v3
  cases ms with
  | nil =>
    have htx : compactMembers cfg [(k, x)] ++ 0x7D :: rest =
        0x22 :: (k.flatMap writeChar ++ 0x22 :: 0x3A :: (compact cfg x ++ 0x7D :: rest)) := by
      simp [compactMembers, writeString]
    have hcl : (compactMembers cfg [(k, x)]).length = (k.flatMap writeChar).length + 3 + (compact cfg x).length := by
      simp [compactMembers, writeString]; omega
    rw [htx] at h
    obtain ⟨s1, q1, q2, q3, c1, hq, h2, c2, hv, v3⟩ := common _ (delim_of_closer cfg (Or.inr (Or.inr rfl)) rest)
      (by omega) (by omega) h
    obtain ⟨q4, h4, c4, _, u4⟩ := vw_tok' (cfg := cfg) (n := f) v3 rfl (tok_of (by decide) (by decide) (by decide))
    refine ⟨mv q4, ?_, ?_⟩
    · rw [pm_last c1 hq h2 c2 hv h4 c4]; simp [readBackM, insertAll]
    · rw [hcl]
      have : p + (k.flatMap writeChar).length + 3 + (compact cfg x).length + 1 =
          p + ((k.flatMap writeChar).length + 3 + (compact cfg x).length) + 1 := by omega
      rw [← this]; exact u4.vw
  | cons m r =>
    obtain ⟨k', x'⟩ := m
    have htx : compactMembers cfg ((k, x) :: (k', x') :: r) ++ 0x7D :: rest =
        0x22 :: (k.flatMap writeChar ++ 0x22 :: 0x3A :: (compact cfg x ++ 0x2C ::
          (compactMembers cfg ((k', x') :: r) ++ 0x7D :: rest))) := by
      simp [compactMembers, writeString]
    have hcl : (compactMembers cfg ((k, x) :: (k', x') :: r)).length =
        (k.flatMap writeChar).length + 3 + (compact cfg x).length + 1 + (compactMembers cfg ((k', x') :: r)).length := by
      simp [compactMembers, writeString]; omega
    rw [htx] at h
    obtain ⟨s1, q1, q2, q3, c1, hq, h2, c2, hv, v3⟩ := common _ (delim_of_closer cfg (Or.inl rfl) _)
      (by omega) (by omega) h
    obtain ⟨q4, h4, c4, _, u4⟩ := vw_tok' (cfg := cfg) (n := f) v3 rfl (tok_of (by decide) (by decide) (by decide))
    obtain ⟨t, e⟩ := compactMembers_start cfg k' x' r
    obtain ⟨q5, h5, _, v5, _⟩ := vw_tok' (cfg := cfg) (n := f) u4.vw (r := t ++ 0x7D :: rest) (by rw [e]; rfl)
      (tok_of (by decide) (by decide) (by decide))
    simp only [depthM] at hdep
    obtain ⟨s', he, hv'⟩ := ihM L k' x' r rest q5 _ (setMember acc k (readBack cfg x)) hgr (by simp only [depthM]; omega)
      (by omega) v5
    refine ⟨s', ?_, ?_⟩
    · rw [pm_more c1 hq h2 c2 hv h4 c4 h5, he]; simp [readBackM, insertAll]
    · rw [hcl]
      have : p + (k.flatMap writeChar).length + 3 + (compact cfg x).length + 1 +
            (compactMembers cfg ((k', x') :: r)).length + 1 =
          p + ((k.flatMap writeChar).length + 3 + (compact cfg x).length + 1 +
            (compactMembers cfg ((k', x') :: r)).length) + 1 := by omega
      rw [← this]; exact hv'

/-- all three statements, for every amount of fuel -/
theorem rt_mutual (cfg : Cfg) (hcfg : cfg.decodeUnicode = true) : ∀ f, PV cfg f ∧ PE cfg f ∧ PM cfg f := by
  intro f
  induction f with
  | zero =>
    refine ⟨?_, ?_, ?_⟩
    · intro L v rest s p _ _ hlen; exact absurd hlen (by omega)
    · intro L x xs rest s p acc _ _ hlen; exact absurd hlen (by omega)
    · intro L k v ms rest s p acc _ _ hlen; exact absurd hlen (by omega)
  | succ f ih =>
    obtain ⟨ihV, ihE, ihM⟩ := ih
    exact ⟨step_V cfg hcfg f ihE ihM, step_E cfg f ihV ihE, step_M cfg hcfg f ihV ihM⟩


/-! ## documents without repeated keys: `lastWins` is the identity -/

/- no object of the document has two members with the same key -/
mutual
def NoDupKeys : Val → Prop
  | .arr xs => NoDupE xs
  | .obj ms => (ms.map (·.1)).Nodup ∧ NoDupM ms
  | _ => True
def NoDupE : List Val → Prop
  | [] => True
  | x :: r => NoDupKeys x ∧ NoDupE r
def NoDupM : List (List Byte × Val) → Prop
  | [] => True
  | (_, v) :: r => NoDupKeys v ∧ NoDupM r
end

/- the integer normalisation alone: containers keep their shape, members their order and keys -/
mutual
def normInt : Val → Val
  | .arr xs => .arr (normIntE xs)
  | .obj ms => .obj (normIntM ms)
  | .num (.sint v) => if 0 ≤ v then .num (.uint v.toNat) else .num (.sint v)
  | .num n => .num n
  | .null => .null
  | .bool b => .bool b
  | .str s => .str s
  | .raw s => .raw s
def normIntE : List Val → List Val
  | [] => []
  | x :: r => normInt x :: normIntE r
def normIntM : List (List Byte × Val) → List (List Byte × Val)
  | [] => []
  | (k, v) :: r => (k, normInt v) :: normIntM r
end

theorem setMember_new (acc : List (List Byte × Val)) (k : List Byte) (v : Val) (h : k ∉ acc.map (·.1)) :
    setMember acc k v = acc ++ [(k, v)] := by
  induction acc with
  | nil => rfl
  | cons a r ih =>
    obtain ⟨k', v'⟩ := a
    have h1 : k' ≠ k := by intro e; exact h (by simp [e])
    have h2 : k ∉ r.map (·.1) := by intro e; exact h (by simp [e])
    have e : (k' == k) = false := by simpa using h1
    simp only [setMember, e, Bool.false_eq_true, ↓reduceIte, ih h2, List.cons_append]

theorem insertAll_nodup (ms acc : List (List Byte × Val)) (h : ((acc ++ ms).map (·.1)).Nodup) :
    insertAll acc ms = acc ++ ms := by
  induction ms generalizing acc with
  | nil => simp [insertAll]
  | cons m r ih =>
    obtain ⟨k, v⟩ := m
    have hk : k ∉ acc.map (·.1) := by
      simp only [List.map_append, List.map_cons, List.nodup_append, List.nodup_cons] at h
      intro hm
      exact h.2.2 k hm k (by simp) rfl
    have h' : (((acc ++ [(k, v)]) ++ r).map (·.1)).Nodup := by simpa using h
    have := ih (acc ++ [(k, v)]) h'
    simp only [insertAll, List.foldl_cons] at this ⊢
    rw [setMember_new acc k v hk, this]; simp

theorem lastWins_nodup (ms : List (List Byte × Val)) (h : (ms.map (·.1)).Nodup) : lastWins ms = ms := by
  have := insertAll_nodup ms [] (by simpa using h)
  simpa [lastWins] using this

theorem normIntM_keys (ms : List (List Byte × Val)) : (normIntM ms).map (·.1) = ms.map (·.1) := by
  induction ms with
  | nil => rfl
  | cons m r ih => obtain ⟨k, v⟩ := m; simp only [normIntM, List.map_cons, ih]

mutual
theorem normJ_eq_normInt : ∀ v, NoDupKeys v → normJ v = normInt v
  | .arr xs => by simp only [NoDupKeys, normJ, normInt]; intro h; rw [normElems_eq xs h]
  | .obj ms => by
    simp only [NoDupKeys, normJ, normInt]; intro h
    rw [normMembers_eq ms h.2, lastWins_nodup _ (by rw [normIntM_keys]; exact h.1)]
  | .num (.sint _) => by simp only [normJ, normInt]; intro _; trivial
  | .num (.uint _) => by simp only [normJ, normInt]; intro _; trivial
  | .num (.f32 _) => by simp only [normJ, normInt]; intro _; trivial
  | .num (.f64 _) => by simp only [normJ, normInt]; intro _; trivial
  | .null => by simp only [normJ, normInt]; intro _; trivial
  | .bool _ => by simp only [normJ, normInt]; intro _; trivial
  | .str _ => by simp only [normJ, normInt]; intro _; trivial
  | .raw _ => by simp only [normJ, normInt]; intro _; trivial
theorem normElems_eq : ∀ xs, NoDupE xs → normElems xs = normIntE xs
  | [] => fun _ => rfl
  | x :: r => by
    simp only [NoDupE, normElems, normIntE]; intro h; rw [normJ_eq_normInt x h.1, normElems_eq r h.2]
theorem normMembers_eq : ∀ ms, NoDupM ms → normMembers ms = normIntM ms
  | [] => fun _ => rfl
  | (k, v) :: r => by
    simp only [NoDupM, normMembers, normIntM]; intro h; rw [normJ_eq_normInt v h.1, normMembers_eq r h.2]
end

theorem isNumberVal_normJ (v : Val) : isNumberVal (normJ v) = isNumberVal v := by
  cases v with
  | num n =>
    cases n with
    | sint i => simp only [normJ]; split <;> rfl
    | _ => simp only [normJ]
  | _ => simp only [normJ, isNumberVal]

end C07
