/- Facts about the specification `Spec.Json` itself: the limits are monotone, and the denoted document
   stays within the limits of the text (`depth`, `StrOk`). -/
import AJ.Lemmas.JsonComplete
namespace JD
open Spec.Json

/-! ## a text within some limit is within every larger one -/
mutual
theorem value_mono {cfg : Cfg} {L : Nat} {t : List Byte} {v : Val} (h : Value cfg L t v) :
    ∀ L', L ≤ L' → Value cfg L' t v := by
  intro L' hl
  cases h with
  | null => exact .null L'
  | «true» => exact .true L'
  | «false» => exact .false L'
  | num _ _ hn => exact .num L' _ hn
  | str _ body s hb hs => exact .str L' body s hb hs
  | arrEmpty l w hw =>
    obtain ⟨l', rfl⟩ : ∃ l', L' = l' + 1 := ⟨L' - 1, by omega⟩
    exact .arrEmpty l' w hw
  | arr l body xs he =>
    obtain ⟨l', rfl⟩ : ∃ l', L' = l' + 1 := ⟨L' - 1, by omega⟩
    exact .arr l' body xs (elements_mono he l' (by omega))
  | objEmpty l w hw =>
    obtain ⟨l', rfl⟩ : ∃ l', L' = l' + 1 := ⟨L' - 1, by omega⟩
    exact .objEmpty l' w hw
  | obj l body ms hm =>
    obtain ⟨l', rfl⟩ : ∃ l', L' = l' + 1 := ⟨L' - 1, by omega⟩
    exact .obj l' body ms (members_mono hm l' (by omega))
theorem elements_mono {cfg : Cfg} {L : Nat} {t : List Byte} {xs : List Val} (h : Elements cfg L t xs) :
    ∀ L', L ≤ L' → Elements cfg L' t xs := by
  intro L' hl
  cases h with
  | one _ w1 t v w2 h1 hv h2 => exact .one L' w1 t v w2 h1 (value_mono hv L' hl) h2
  | cons _ w1 t v w2 rest vs h1 hv h2 hr => exact .cons L' w1 t v w2 rest vs h1 (value_mono hv L' hl) h2 (elements_mono hr L' hl)
theorem members_mono {cfg : Cfg} {L : Nat} {t : List Byte} {ms : List (List Byte × Val)} (h : Members cfg L t ms) :
    ∀ L', L ≤ L' → Members cfg L' t ms := by
  intro L' hl
  cases h with
  | one _ w1 kb k w2 w3 t v w4 h1 hb hk h2 h3 hv h4 =>
    exact .one L' w1 kb k w2 w3 t v w4 h1 hb hk h2 h3 (value_mono hv L' hl) h4
  | cons _ w1 kb k w2 w3 t v w4 rest ms h1 hb hk h2 h3 hv h4 hr =>
    exact .cons L' w1 kb k w2 w3 t v w4 rest ms h1 hb hk h2 h3 (value_mono hv L' hl) h4 (members_mono hr L' hl)
end

/-! ## the denoted document is within the limits of its text -/

theorem depth_arr (xs : List Val) : depth (.arr xs) = depthList xs + 1 := by simp only [depth]
theorem depth_obj (ms : List (List Byte × Val)) : depth (.obj ms) = depthMembers ms + 1 := by simp only [depth]
theorem depthList_cons (x : Val) (xs : List Val) : depthList (x :: xs) = max (depth x) (depthList xs) := by
  simp only [depthList]
theorem depthMembers_cons (k : List Byte) (v : Val) (ms : List (List Byte × Val)) :
    depthMembers ((k, v) :: ms) = max (depth v) (depthMembers ms) := by simp only [depthMembers]
theorem strOk_arr (m : Nat) (xs : List Val) : StrOk m (.arr xs) = StrOkList m xs := by simp only [StrOk]
theorem strOk_obj (m : Nat) (ms : List (List Byte × Val)) : StrOk m (.obj ms) = StrOkMembers m ms := by simp only [StrOk]
theorem strOk_str (m : Nat) (s : List Byte) : StrOk m (.str s) = (s.length ≤ m) := by simp only [StrOk]
theorem strOkList_cons (m : Nat) (x : Val) (xs : List Val) : StrOkList m (x :: xs) = (StrOk m x ∧ StrOkList m xs) := by
  simp only [StrOkList]
theorem strOkMembers_cons (m : Nat) (k : List Byte) (v : Val) (ms : List (List Byte × Val)) :
    StrOkMembers m ((k, v) :: ms) = (k.length ≤ m ∧ StrOk m v ∧ StrOkMembers m ms) := by simp only [StrOkMembers]

theorem depthMembers_setMember (acc : List (List Byte × Val)) (k : List Byte) (v : Val) :
    depthMembers (setMember acc k v) ≤ max (depthMembers acc) (depth v) := by
  induction acc with
  | nil => simp only [setMember, depthMembers]; omega
  | cons kv rest ih =>
    obtain ⟨k', v'⟩ := kv
    simp only [setMember]
    split
    · simp only [depthMembers_cons]; omega
    · simp only [depthMembers_cons]; omega

theorem strOkMembers_setMember (m : Nat) (acc : List (List Byte × Val)) (k : List Byte) (v : Val)
    (ha : StrOkMembers m acc) (hk : k.length ≤ m) (hv : StrOk m v) : StrOkMembers m (setMember acc k v) := by
  induction acc with
  | nil => simp only [setMember, StrOkMembers]; exact ⟨hk, hv, trivial⟩
  | cons kv rest ih =>
    obtain ⟨k', v'⟩ := kv
    rw [strOkMembers_cons] at ha
    simp only [setMember]
    split
    · rw [strOkMembers_cons]; exact ⟨ha.1, hv, ha.2.2⟩
    · rw [strOkMembers_cons]; exact ⟨ha.1, ha.2.1, ih ha.2.2⟩

theorem depthMembers_fold (ms : List (List Byte × Val)) :
    ∀ acc, depthMembers (foldMembers acc ms) ≤ max (depthMembers acc) (depthMembers ms) := by
  induction ms with
  | nil => intro acc; simp only [foldMembers, List.foldl_nil, depthMembers]; omega
  | cons kv ms ih =>
    intro acc
    obtain ⟨k, v⟩ := kv
    have h1 := ih (setMember acc k v)
    have h2 := depthMembers_setMember acc k v
    simp only [foldMembers, List.foldl_cons, depthMembers_cons] at h1 ⊢
    omega

theorem strOkMembers_fold (m : Nat) (ms : List (List Byte × Val)) :
    ∀ acc, StrOkMembers m acc → StrOkMembers m ms → StrOkMembers m (foldMembers acc ms) := by
  induction ms with
  | nil => intro acc ha _; exact ha
  | cons kv ms ih =>
    intro acc ha hm
    obtain ⟨k, v⟩ := kv
    rw [strOkMembers_cons] at hm
    exact ih (setMember acc k v) (strOkMembers_setMember m acc k v ha hm.1 hm.2.1) hm.2.2

mutual
theorem value_within {cfg : Cfg} : ∀ {L : Nat} {t : List Byte} {v : Val}, Value cfg L t v →
    depth v ≤ L ∧ StrOk cfg.maxStrLen v
  | _, _, _, .null _ => by simp [depth, StrOk]
  | _, _, _, .true _ => by simp [depth, StrOk]
  | _, _, _, .false _ => by simp [depth, StrOk]
  | _, _, _, .num _ _ hn => by
    obtain ⟨n, hv, _⟩ := numLit_ok cfg hn
    rw [hv]; simp [depth, StrOk]
  | _, _, _, .str _ body s hb hs => by simp [depth, StrOk, hs]
  | _, _, _, .arrEmpty l w hw => by simp [depth, depthList, StrOk, StrOkList]
  | _, _, _, .arr l body xs he => by
    obtain ⟨h1, h2⟩ := elements_within he
    rw [depth_arr, strOk_arr]; exact ⟨by omega, h2⟩
  | _, _, _, .objEmpty l w hw => by simp [depth, depthMembers, StrOk, StrOkMembers]
  | _, _, _, .obj l body ms hm => by
    obtain ⟨h1, h2⟩ := members_within hm
    have h3 := depthMembers_fold ms []
    rw [depth_obj, strOk_obj, lastWins_eq]
    refine ⟨?_, strOkMembers_fold _ ms [] (by simp only [StrOkMembers]) h2⟩
    simp only [depthMembers] at h3
    omega
theorem elements_within {cfg : Cfg} : ∀ {L : Nat} {t : List Byte} {xs : List Val}, Elements cfg L t xs →
    depthList xs ≤ L ∧ StrOkList cfg.maxStrLen xs
  | _, _, _, .one _ w1 t v w2 h1 hv h2 => by
    obtain ⟨a, b⟩ := value_within hv
    rw [depthList_cons, strOkList_cons]
    simp only [depthList, StrOkList]
    exact ⟨by omega, b, trivial⟩
  | _, _, _, .cons _ w1 t v w2 rest vs h1 hv h2 hr => by
    obtain ⟨a, b⟩ := value_within hv
    obtain ⟨c, d⟩ := elements_within hr
    rw [depthList_cons, strOkList_cons]
    exact ⟨by omega, b, d⟩
theorem members_within {cfg : Cfg} : ∀ {L : Nat} {t : List Byte} {ms : List (List Byte × Val)}, Members cfg L t ms →
    depthMembers ms ≤ L ∧ StrOkMembers cfg.maxStrLen ms
  | _, _, _, .one _ w1 kb k w2 w3 t v w4 h1 hb hk h2 h3 hv h4 => by
    obtain ⟨a, b⟩ := value_within hv
    rw [depthMembers_cons, strOkMembers_cons]
    simp only [depthMembers, StrOkMembers]
    exact ⟨by omega, hk, b, trivial⟩
  | _, _, _, .cons _ w1 kb k w2 w3 t v w4 rest ms h1 hb hk h2 h3 hv h4 hr => by
    obtain ⟨a, b⟩ := value_within hv
    obtain ⟨c, d⟩ := members_within hr
    rw [depthMembers_cons, strOkMembers_cons]
    exact ⟨by omega, hk, b, d⟩
end

end JD
