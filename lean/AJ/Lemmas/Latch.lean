/- The one-character latch seen as a plain list of remaining bytes.
   `view s` = the bytes that the parser will still see; an unloaded state only has its unread bytes,
   a loaded state additionally holds the latched byte (a real input byte, or the end marker 0). -/
import AJ.Model.JD
namespace JD

/-- what is still to be seen through the latch -/
def view (s : St) : List Byte := (if s.l.loaded then [s.l.cur] else []) ++ s.l.unread

/-- a loaded byte is either a byte taken from the input, or the end marker 0 with nothing left to read -/
def LoadedOk (s : St) : Prop := s.l.loaded = true → (s.l.pos > 0 ∨ (s.l.cur = 0 ∧ s.l.unread = []))

/-- state after `current()` has latched `c` from the reader (`rest` left in the reader) -/
def ld (s : St) (c : Byte) (rest : List Byte) : St :=
  { s with l := { unread := rest, cur := c, loaded := true, pos := s.l.pos + 1 } }

/-- state after `current(); move()` on the byte `c` -/
def adv (s : St) (c : Byte) (rest : List Byte) : St :=
  { s with l := { unread := rest, cur := c, loaded := false, pos := s.l.pos + 1 } }

/-- state after `current()` at the end of the input -/
def ldEnd (s : St) : St := { s with l := { s.l with cur := 0, loaded := true } }

theorem cur_cons {s : St} {c : Byte} {rest : List Byte} (h1 : s.l.loaded = false) (h2 : s.l.unread = c :: rest) :
    cur s = (c, ld s c rest) := by
  simp only [cur, Latch.current, h1, h2, Bool.false_eq_true, ↓reduceIte, ld]

theorem cur_nil {s : St} (h1 : s.l.loaded = false) (h2 : s.l.unread = []) : cur s = (0, ldEnd s) := by
  simp only [cur, Latch.current, h1, h2, Bool.false_eq_true, ↓reduceIte, ldEnd]

theorem cur_loaded {s : St} (h : s.l.loaded = true) : cur s = (s.l.cur, s) := by
  simp only [cur, Latch.current, h, ↓reduceIte]

@[simp] theorem ld_loaded (s c rest) : (ld s c rest).l.loaded = true := rfl
@[simp] theorem ld_cur (s c rest) : (ld s c rest).l.cur = c := rfl
@[simp] theorem ld_unread (s c rest) : (ld s c rest).l.unread = rest := rfl
@[simp] theorem ld_pos (s c rest) : (ld s c rest).l.pos = s.l.pos + 1 := rfl
@[simp] theorem ld_found (s c rest) : (ld s c rest).found = s.found := rfl

@[simp] theorem adv_loaded (s c rest) : (adv s c rest).l.loaded = false := rfl
@[simp] theorem adv_cur (s c rest) : (adv s c rest).l.cur = c := rfl
@[simp] theorem adv_unread (s c rest) : (adv s c rest).l.unread = rest := rfl
@[simp] theorem adv_pos (s c rest) : (adv s c rest).l.pos = s.l.pos + 1 := rfl
@[simp] theorem adv_found (s c rest) : (adv s c rest).found = s.found := rfl

theorem cur_ld (s : St) (c : Byte) (rest : List Byte) : cur (ld s c rest) = (c, ld s c rest) :=
  cur_loaded (ld_loaded s c rest)

theorem mv_ld (s : St) (c : Byte) (rest : List Byte) : mv (ld s c rest) = adv s c rest := rfl

theorem mv_loaded (s : St) : (mv s).l.loaded = false := rfl
theorem mv_unread (s : St) : (mv s).l.unread = s.l.unread := rfl

/-- `current()` on an unloaded latch shows the next byte and does not change the view -/
theorem view_cur_cons {s : St} {c : Byte} {rest : List Byte} (h1 : s.l.loaded = false) (h2 : s.l.unread = c :: rest) :
    (cur s).1 = c ∧ (cur s).2.l.loaded = true ∧ view (cur s).2 = c :: rest ∧ view s = c :: rest := by
  rw [cur_cons h1 h2]
  simp [view, h1, h2]

/-- `current(); move()` drops exactly one byte of the view -/
theorem view_mv_cur_cons {s : St} {c : Byte} {rest : List Byte} (h1 : s.l.loaded = false) (h2 : s.l.unread = c :: rest) :
    (mv (cur s).2).l.loaded = false ∧ (mv (cur s).2).l.unread = rest ∧ view (mv (cur s).2) = rest := by
  rw [cur_cons h1 h2, mv_ld]
  simp [view]

/-- at the end of the input `current()` yields the end marker 0, and keeps yielding it -/
theorem view_cur_nil {s : St} (h1 : s.l.loaded = false) (h2 : s.l.unread = []) :
    (cur s).1 = 0 ∧ view (cur s).2 = [0] ∧ (cur (cur s).2).1 = 0 := by
  rw [cur_nil h1 h2]
  refine ⟨rfl, ?_, ?_⟩
  · simp [view, ldEnd, h2]
  · rw [cur_loaded (by rfl)]; rfl

/-- `current()` is idempotent, and `view` is what `current()` returns first -/
theorem cur_cur (s : St) : cur (cur s).2 = cur s := by
  cases h : s.l.loaded
  · cases h2 : s.l.unread with
    | nil => rw [cur_nil h h2]; exact cur_loaded rfl
    | cons c rest => rw [cur_cons h h2]; exact cur_ld s c rest
  · rw [cur_loaded h, cur_loaded h]

theorem loadedOk_cur {s : St} (h : LoadedOk s) : LoadedOk (cur s).2 := by
  cases h1 : s.l.loaded
  · cases h2 : s.l.unread with
    | nil => rw [cur_nil h1 h2]; intro _; exact Or.inr ⟨rfl, h2⟩
    | cons c rest => rw [cur_cons h1 h2]; intro _; exact Or.inl (by simp)
  · rw [cur_loaded h1]; exact h

theorem loadedOk_mv (s : St) : LoadedOk (mv s) := by
  intro h; rw [mv_loaded] at h; exact absurd h (by decide)

/-- Position/unread/found summary of an unloaded state. -/
def At (s : St) (u : List Byte) (p : Nat) (f : Bool) : Prop :=
  s.l.loaded = false ∧ s.l.unread = u ∧ s.l.pos = p ∧ s.found = f

theorem At.adv {s : St} {c : Byte} {rest : List Byte} {p : Nat} {f : Bool} (h : At s (c :: rest) p f) :
    At (adv s c rest) rest (p + 1) f := by
  obtain ⟨_, _, h3, h4⟩ := h
  exact ⟨rfl, rfl, by simp [h3], by simp [h4]⟩

theorem At.cur {s : St} {c : Byte} {rest : List Byte} {p : Nat} {f : Bool} (h : At s (c :: rest) p f) :
    cur s = (c, ld s c rest) := cur_cons h.1 h.2.1

theorem At.view {s : St} {u : List Byte} {p : Nat} {f : Bool} (h : At s u p f) : view s = u := by
  simp [JD.view, h.1, h.2.1]

/-- `skipSpaces` marks that a token was found -/
def setFound (s : St) : St := { s with found := true }
@[simp] theorem setFound_l (s : St) : (setFound s).l = s.l := rfl
@[simp] theorem setFound_found (s : St) : (setFound s).found = true := rfl
theorem cur_setFound_ld (s : St) (c : Byte) (rest : List Byte) :
    cur (setFound (ld s c rest)) = (c, setFound (ld s c rest)) := cur_loaded rfl
theorem mv_setFound_ld (s : St) (c : Byte) (rest : List Byte) :
    mv (setFound (ld s c rest)) = setFound (adv s c rest) := rfl

end JD
