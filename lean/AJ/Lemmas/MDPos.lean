/- MessagePack reader model: `consumed + unread = length`, the unread part never grows, every value consumes at least its
   format byte, and the fuel `2 * length + 4` given by `MD.run` is never exhausted. -/
import AJ.Model.MD
namespace MD
open JD

/-- `n` = length of the whole input, `k` = an upper bound of what is still unread -/
def Q (n k : Nat) (r : R) : Prop := r.pos + r.unread.length = n ∧ r.unread.length ≤ k

theorem Q.mono {n k k' r} (h : Q n k r) (hk : k ≤ k') : Q n k' r := ⟨h.1, Nat.le_trans h.2 hk⟩

theorem q_read_some {n k} {r r1 : R} {c} (h : Q n k r) (e : r.read = (some c, r1)) : 1 ≤ k ∧ Q n (k-1) r1 := by
  unfold R.read at e
  unfold Q at *
  split at e
  · simp at e
  · rename_i c' cs hu
    simp only [Prod.mk.injEq, Option.some.injEq] at e
    obtain ⟨_, rfl⟩ := e
    simp only [hu, List.length_cons] at h
    simp only
    omega

theorem q_read_none {r r1 : R} (e : r.read = (none, r1)) : r1 = r := by
  unfold R.read at e
  split at e
  · simp only [Prod.mk.injEq, true_and] at e; exact e.symm
  · simp at e

theorem q_readBytes {n k} {r : R} (m : Nat) (h : Q n k r) : Q n k (r.readBytes m).2 := by
  unfold R.readBytes Q at *
  split
  · simp only [List.length_drop]; omega
  · simp only [List.length_nil]; omega

theorem q_skipBytes {n k} {r : R} (m : Nat) (h : Q n k r) : Q n k (r.skipBytes m).2 := by
  unfold R.skipBytes Q at *
  split
  · simp only [List.length_drop]; omega
  · simp only [List.length_nil]; omega

theorem q_of_readBytes {n k m} {r r2 : R} {x} (h : Q n k r) (e : r.readBytes m = (x, r2)) : Q n k r2 := by
  have := q_readBytes m h; rw [e] at this; exact this
theorem q_of_skipBytes {n k m} {r r2 : R} {x} (h : Q n k r) (e : r.skipBytes m = (x, r2)) : Q n k r2 := by
  have := q_skipBytes m h; rw [e] at this; exact this

/-- a `parseVariant` result after the format byte was consumed -/
def GoodV (n k f : Nat) (out : Code × Val × R × Bool) : Prop :=
  Q n (k-1) out.2.2.1 ∧ (2*k+1 ≤ f → out.1 ≠ .fuel)

def PV (n k f : Nat) (out : Code × Val × R × Bool) : Prop :=
  Q n k out.2.2.1 ∧ (out.1 = .ok → 1 ≤ k ∧ Q n (k-1) out.2.2.1) ∧ (2*k+1 ≤ f → out.1 ≠ .fuel)

theorem good_imp {n k f out} (hk : 1 ≤ k) (h : GoodV n k f out) : PV n k f out :=
  ⟨h.1.mono (by omega), fun _ => ⟨hk, h.1⟩, h.2⟩

theorem good_leaf {n k f e v r b} (h : Q n (k-1) r) (he : e ≠ Code.fuel) : GoodV n k f (e, v, r, b) :=
  ⟨h, fun _ => he⟩

/-- a `readArray` / `readObject` result -/
def PA {α : Type} (n k f : Nat) (out : Code × α × R) : Prop :=
  Q n k out.2.2 ∧ (2*k+2 ≤ f → out.1 ≠ .fuel)

theorem good_sub {α : Type} {n k f} {x : Code × α × R} {v : Val} {b : Bool} (hk : 1 ≤ k)
    (h : PA n (k-1) f x) : GoodV n k (f+1) (x.1, v, x.2.2, b) :=
  ⟨h.1, fun hf => h.2 (by omega)⟩

theorem pa_leaf {α : Type} {n k f e} {x : α} {r} (h : Q n k r) (he : e ≠ Code.fuel) : PA n k f (e, x, r) :=
  ⟨h, fun _ => he⟩

theorem ite_elim {α : Type} {P : α → Prop} {c : Prop} [Decidable c] {a b : α} (ha : c → P a) (hb : ¬c → P b) :
    P (if c then a else b) := by
  split
  · exact ha ‹_›
  · exact hb ‹_›

local macro "isplit" : tactic => `(tactic| refine ite_elim (P := GoodV _ _ _) (fun _ => ?_) (fun _ => ?_))
local macro "l0 " h:term : tactic => `(tactic| exact good_leaf $h (by decide))
local macro "rb " h:term : tactic => `(tactic| (split <;> exact good_leaf (q_of_readBytes $h (by assumption)) (by decide)))
local macro "sb " h:term : tactic => `(tactic| (split <;> exact good_leaf (q_of_skipBytes $h (by assumption)) (by decide)))

set_option maxRecDepth 8000 in
theorem md_mutual (env : Env) (n : Nat) : ∀ f,
    (∀ limit flt hd r k, Q n k r → PV n k f (parseVariant env f limit flt hd r)) ∧
    (∀ limit flt ha m r acc k, Q n k r → PA n k f (readArray env f limit flt ha m r acc)) ∧
    (∀ limit flt ho m r ms k, Q n k r → PA n k f (readObject env f limit flt ho m r ms)) := by
  intro f
  induction f with
  | zero =>
    refine ⟨?_, ?_, ?_⟩
    · intro limit flt hd r k h
      simp only [parseVariant, PV]
      exact ⟨h, by simp, by omega⟩
    · intro limit flt ha m r acc k h
      simp only [readArray]
      exact ⟨h, by omega⟩
    · intro limit flt ho m r ms k h
      simp only [readObject]
      exact ⟨h, by omega⟩
  | succ f ih =>
    obtain ⟨ihV, ihA, ihO⟩ := ih
    refine ⟨?_, ?_, ?_⟩
    · intro limit flt hd r k h
      simp only [parseVariant]
      split
      · rename_i r1 heq
        rw [q_read_none heq]
        exact ⟨h, by simp, by simp⟩
      · rename_i code r1 heq
        obtain ⟨hk1, hr1⟩ := q_read_some h heq
        refine good_imp hk1 ?_
        isplit
        · isplit
          · rb hr1
          · sb hr1
        isplit
        · l0 hr1
        isplit
        · l0 hr1
        isplit
        · l0 hr1
        isplit
        · isplit
          · rb hr1
          · sb hr1
        isplit
        · isplit
          · rb hr1
          · sb hr1
        isplit
        · l0 hr1
        split
        · rename_i r2 heq2
          have hq2 : Q n (k-1) r2 := by
            have := congrArg Prod.snd heq2
            simp only at this
            rw [← this]
            refine ite_elim (P := fun (x : Option (List Byte × Nat) × R) => Q n (k-1) x.2) (fun _ => ?_) (fun _ => hr1)
            split <;> exact q_of_readBytes hr1 (by assumption)
          l0 hq2
        · rename_i hb size r2 heq2
          have hq2 : Q n (k-1) r2 := by
            have := congrArg Prod.snd heq2
            simp only at this
            rw [← this]
            refine ite_elim (P := fun (x : Option (List Byte × Nat) × R) => Q n (k-1) x.2) (fun _ => ?_) (fun _ => hr1)
            split <;> exact q_of_readBytes hr1 (by assumption)
          isplit
          · split
            · l0 hq2
            · isplit
              · exact good_sub hk1 (ihA _ _ _ _ _ _ _ hq2)
              · exact good_sub hk1 (ihA _ _ _ _ _ _ _ hq2)
          isplit
          · split
            · l0 hq2
            · isplit
              · exact good_sub hk1 (ihO _ _ _ _ _ _ _ hq2)
              · exact good_sub hk1 (ihO _ _ _ _ _ _ _ hq2)
          isplit
          · isplit
            · isplit
              · l0 hq2
              · rb hq2
            · sb hq2
          · isplit
            · isplit
              · l0 hq2
              · rb hq2
            · sb hq2
    · intro limit flt ha m r acc k h
      simp only [readArray]
      refine ite_elim (P := PA n k (f+1)) (fun _ => ?_) (fun _ => ?_)
      · exact pa_leaf h (by decide)
      · have hv := ihV limit flt (ha && flt.allow) r k h
        split
        · rename_i v r2 b heq
          rw [heq] at hv
          obtain ⟨_, h2, _⟩ := hv
          obtain ⟨hk1, hq⟩ := h2 rfl
          have := ihA limit flt ha (m-1) r2 (if (ha && flt.allow) = true then v :: acc else acc) (k-1) hq
          exact ⟨this.1.mono (by omega), fun hf => this.2 (by omega)⟩
        · rename_i e v r2 b hne heq
          rw [heq] at hv
          obtain ⟨h1, _, h3⟩ := hv
          exact ⟨h1, fun hf => h3 (by omega)⟩
    · intro limit flt ho m r ms k h
      simp only [readObject]
      refine ite_elim (P := PA n k (f+1)) (fun _ => ?_) (fun _ => ?_)
      · exact pa_leaf h (by decide)
      split
      · rename_i r1 heq
        rw [q_read_none heq]
        exact pa_leaf h (by decide)
      · rename_i code r1 heq
        obtain ⟨hk1, hr1'⟩ := q_read_some h heq
        have hr1 : Q n k r1 := hr1'.mono (by omega)
        split
        · rename_i r2 heq2
          have hq2 : Q n k r2 := by
            have := congrArg Prod.snd heq2
            simp only at this
            rw [← this]
            refine ite_elim (P := fun (x : Option (Option Nat) × R) => Q n k x.2) (fun _ => hr1) (fun _ => ?_)
            refine ite_elim (P := fun (x : Option (Option Nat) × R) => Q n k x.2) (fun _ => ?_) (fun _ => hr1)
            split <;> exact q_of_readBytes hr1 (by assumption)
          exact pa_leaf hq2 (by decide)
        · rename_i r2 heq2
          have hq2 : Q n k r2 := by
            have := congrArg Prod.snd heq2
            simp only at this
            rw [← this]
            refine ite_elim (P := fun (x : Option (Option Nat) × R) => Q n k x.2) (fun _ => hr1) (fun _ => ?_)
            refine ite_elim (P := fun (x : Option (Option Nat) × R) => Q n k x.2) (fun _ => ?_) (fun _ => hr1)
            split <;> exact q_of_readBytes hr1 (by assumption)
          exact pa_leaf hq2 (by decide)
        · rename_i len r2 heq2
          have hq2 : Q n (k-1) r2 := by
            have := congrArg Prod.snd heq2
            simp only at this
            rw [← this]
            refine ite_elim (P := fun (x : Option (Option Nat) × R) => Q n (k-1) x.2) (fun _ => hr1') (fun _ => ?_)
            refine ite_elim (P := fun (x : Option (Option Nat) × R) => Q n (k-1) x.2) (fun _ => ?_) (fun _ => hr1')
            split <;> exact q_of_readBytes hr1' (by assumption)
          refine ite_elim (P := PA n k (f+1)) (fun _ => ?_) (fun _ => ?_)
          · exact pa_leaf (hq2.mono (by omega)) (by decide)
          split
          · exact pa_leaf ((q_of_readBytes hq2 (by assumption)).mono (by omega)) (by decide)
          · rename_i key r3 heq3
            have hq3 : Q n (k-1) r3 := q_of_readBytes hq2 heq3
            have hv := ihV limit (flt.subKey key) (ho && (flt.subKey key).allow) r3 (k-1) hq3
            split
            · rename_i v r4 b heq4
              rw [heq4] at hv
              obtain ⟨h1, _, _⟩ := hv
              have := ihO limit flt ho (m-1) r4 (if (ho && (flt.subKey key).allow) = true then ms ++ [(key, v)] else ms) (k-1) h1
              exact ⟨this.1.mono (by omega), fun hf => this.2 (by omega)⟩
            · rename_i e v r4 b hne heq4
              rw [heq4] at hv
              obtain ⟨h1, _, h3⟩ := hv
              exact ⟨h1.mono (by omega), fun hf => h3 (by omega)⟩

theorem run_facts (env : Env) (limit : Nat) (flt : Flt) (input : List Byte) :
    PV input.length input.length (2 * input.length + 4)
      (parseVariant env (2 * input.length + 4) limit flt true { unread := input }) :=
  (md_mutual env input.length (2 * input.length + 4)).1 limit flt true { unread := input } input.length
    ⟨by simp, Nat.le_refl _⟩

theorem run_pos_le (env : Env) (limit : Nat) (flt : Flt) (input : List Byte) :
    (run env limit flt input).2.2 ≤ input.length := by
  have h := (run_facts env limit flt input).1
  simp only [run]
  generalize parseVariant env (2 * input.length + 4) limit flt true { unread := input } = out at h ⊢
  obtain ⟨e, v, r, b⟩ := out
  have := h.1
  simp only at this ⊢
  omega

theorem run_ne_fuel (env : Env) (limit : Nat) (flt : Flt) (input : List Byte) :
    (run env limit flt input).1 ≠ .fuel := by
  have h := (run_facts env limit flt input).2.2 (by omega)
  simp only [run]
  generalize parseVariant env (2 * input.length + 4) limit flt true { unread := input } = out at h ⊢
  obtain ⟨e, v, r, b⟩ := out
  simp only at h ⊢
  split
  · exact h
  · decide
end MD
