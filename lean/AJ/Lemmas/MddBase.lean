/- Basic facts for the slot-level MessagePack deserializer `MDD` (AJ/Model/MDD.lean): the StringBuffer model
   (`reserve`, `save`, `readString`) against the accounting of AJ/Lemmas/JddInv.lean (`LBd`, `Fx`) and the save effect
   `JDD.SaveOp` of AJ/Lemmas/JddBase.lean. The document operations are the ones of the JSON twin, so the invariant
   `JDD.Built` and its lemmas (AJ/Lemmas/JddOps.lean) are reused unchanged.
   Used by AJ/Lemmas/MddInv.lean. -/
import AJ.Model.MDD
import AJ.Lemmas.JddInv
namespace MDD
open DL
open JD (Byte Code)
open JDD (PlEq LBd Fx Blk AllB SaveOp nl)

/-- an `MDD` state seen as a `JDD` state: same document, same buffer (the reader plays no role in the document lemmas) -/
def J (x : S) : JDD.S := { s := { l := { unread := [] } }, d := x.d, b := x.b }

theorem J_d (x : S) : (J x).d = x.d := rfl
theorem J_b (x : S) : (J x).b = x.b := rfl

/-! ## `StringBuffer::reserve` -/

/-- effect of a StringBuffer operation `x → x'`: the reader is not moved, only allocator traffic and the overflow flag;
    the ledger follows the buffer; the flag is sticky -/
structure ROp (x x' : S) : Prop where
  r : x'.r = x.r
  pleq : PlEq x.d x'.d
  bal : LBd x.d x.b → LBd x'.d x'.b
  ovs : x.d.overflowed = true → x'.d.overflowed = true

theorem ROp.refl (x : S) : ROp x x := ⟨rfl, PlEq.refl _, fun h => h, fun h => h⟩

theorem ROp.trans {x x1 x2 : S} (h1 : ROp x x1) (h2 : ROp x1 x2) : ROp x x2 :=
  ⟨h2.r.trans h1.r, h1.pleq.trans h2.pleq, fun h => h2.bal (h1.bal h), fun h => h2.ovs (h1.ovs h)⟩

/-- first half of `reserve`: a node that is too small is released -/
def relIfSmall (x : S) (n : Nat) : S :=
  match x.b with
  | some cap => if n > cap then { x with d := { x.d with pl := x.d.pl.dealloc }, b := none } else x
  | none => x

/-- second half of `reserve`: a node is allocated unless one is present -/
def acquire (maxLen : Nat) (x : S) (n : Nat) : Bool × S :=
  match x.b with
  | some _ => (true, x)
  | none =>
    if n > maxLen then (false, { x with d := { x.d with overflowed := true } })
    else
      let (ok, pl) := x.d.pl.alloc (n + x.d.strOverhead)
      if ok then (true, { x with d := { x.d with pl := pl }, b := some n })
      else (false, { x with d := { x.d with pl := pl, overflowed := true } })

theorem reserve_eq (maxLen : Nat) (x : S) (n : Nat) : reserve maxLen x n = acquire maxLen (relIfSmall x n) n := rfl

theorem relIfSmall_spec (x : S) (n : Nat) :
    ROp x (relIfSmall x n) ∧ (relIfSmall x n).d.overflowed = x.d.overflowed := by
  unfold relIfSmall
  cases hb : x.b with
  | none => exact ⟨ROp.refl x, rfl⟩
  | some cap =>
    simp only
    split
    · refine ⟨⟨rfl, ⟨rfl, rfl, rfl, rfl, rfl, rfl, rfl, rfl, rfl, rfl⟩, ?_, fun h => h⟩, rfl⟩
      intro h
      unfold LBd at h ⊢
      simp only [hb, Option.isSome_some, if_true, Option.isSome_none, Bool.false_eq_true, if_false] at h ⊢
      rw [JDD.dealloc_net, h]; omega
    · exact ⟨ROp.refl x, rfl⟩

theorem acquire_spec (maxLen : Nat) (x : S) (n : Nat) :
    ROp x (acquire maxLen x n).2 ∧
    ((acquire maxLen x n).1 = true →
      (acquire maxLen x n).2.b.isSome = true ∧ (acquire maxLen x n).2.d.overflowed = x.d.overflowed) ∧
    ((acquire maxLen x n).1 = false →
      (acquire maxLen x n).2.b = none ∧ (acquire maxLen x n).2.d.overflowed = true) := by
  unfold acquire
  cases hb : x.b with
  | some c => exact ⟨ROp.refl x, fun _ => ⟨by rw [hb]; rfl, rfl⟩, fun h => by cases h⟩
  | none =>
    simp only
    split
    · -- beyond the maximal length: StringNode::create refuses without calling the allocator
      refine ⟨⟨rfl, ⟨rfl, rfl, rfl, rfl, rfl, rfl, rfl, rfl, rfl, rfl⟩, ?_, fun _ => rfl⟩, (fun h => by cases h),
        fun _ => ⟨rfl, rfl⟩⟩
      intro h
      unfold LBd at h ⊢
      simp only [hb] at h ⊢
      exact h
    · have hn := alloc_net x.d.pl (n + x.d.strOverhead)
      have hf := PL.alloc_fst x.d.pl (n + x.d.strOverhead)
      generalize hq : x.d.pl.alloc (n + x.d.strOverhead) = q at hn hf
      obtain ⟨ok, pl⟩ := q
      have hpl : pl = (x.d.pl.alloc (n + x.d.strOverhead)).2 := by rw [hq]
      simp only at hn hf ⊢
      have pe : ∀ o, PlEq x.d { x.d with pl := pl, overflowed := o } :=
        fun o => ⟨rfl, rfl, rfl, rfl, rfl, rfl, by rw [hpl]; rfl, by rw [hpl]; rfl, by rw [hpl]; rfl, by rw [hpl]; rfl⟩
      cases ok with
      | true =>
        simp only [if_true]
        refine ⟨⟨rfl, pe _, ?_, fun h => h⟩, (fun _ => ⟨rfl, trivial⟩), fun h => by cases h⟩
        intro h
        have hfa : x.d.pl.failsAt (x.d.pl.calls + 1) = false := by
          cases hh : x.d.pl.failsAt (x.d.pl.calls + 1) <;> simp [hh] at hf ⊢
        unfold LBd at h ⊢
        simp only [hb, Option.isSome_none, Bool.false_eq_true, if_false, Option.isSome_some, if_true] at h ⊢
        rw [hn, hfa, h]; simp
      | false =>
        simp only [Bool.false_eq_true, if_false]
        refine ⟨⟨rfl, pe _, ?_, fun _ => rfl⟩, (fun h => by cases h), fun _ => ⟨trivial, trivial⟩⟩
        intro h
        have hfa : x.d.pl.failsAt (x.d.pl.calls + 1) = true := by
          cases hh : x.d.pl.failsAt (x.d.pl.calls + 1) <;> simp [hh] at hf ⊢
        unfold LBd at h ⊢
        simp only [hb, Option.isSome_none, Bool.false_eq_true, if_false] at h ⊢
        rw [hn, hfa, h]; simp

/-- `StringBuffer::reserve(n)`: on success a buffer is present and the flag is untouched; on failure there is no
    buffer and the flag is set (with or without an allocator call); the ledger follows the buffer in both cases -/
theorem mp_reserve_spec (maxLen : Nat) (x : S) (n : Nat) :
    ROp x (reserve maxLen x n).2 ∧
    ((reserve maxLen x n).1 = true →
      (reserve maxLen x n).2.b.isSome = true ∧ (reserve maxLen x n).2.d.overflowed = x.d.overflowed) ∧
    ((reserve maxLen x n).1 = false →
      (reserve maxLen x n).2.b = none ∧ (reserve maxLen x n).2.d.overflowed = true) := by
  rw [reserve_eq]
  obtain ⟨a1, a2⟩ := relIfSmall_spec x n
  obtain ⟨b1, b2, b3⟩ := acquire_spec maxLen (relIfSmall x n) n
  exact ⟨a1.trans b1, fun h => ⟨(b2 h).1, (b2 h).2.trans a2⟩, b3⟩

/-- a request beyond the maximal length with no (or a smaller) buffer fails without an allocator call -/
theorem reserve_too_long {maxLen : Nat} {x : S} {n : Nat} (hb : x.b = none) (hn : n > maxLen) :
    reserve maxLen x n = (false, { x with d := { x.d with overflowed := true } }) := by
  simp only [reserve, hb, if_pos hn]

/-! ## `StringBuffer::save` -/

theorem mp_save_eq_found {x : S} {bytes : List Byte} {y : StrNode} (hf : x.d.strings.find? (·.bytes == bytes) = some y) :
    save x bytes = (y.id, { x with d := { x.d with strings :=
      (x.d.strings.map (fun z => if z.id == y.id then { z with refs := z.refs + 1 } else z)) } }) := by
  simp only [save, hf]

/-- the pool list after the exact-size reallocation of `save` (only when the buffer is larger than the string) -/
def shrunkPl (x : S) (bytes : List Byte) : PL.St :=
  match x.b with
  | some cap => if cap != bytes.length then (x.d.pl.realloc (bytes.length + x.d.strOverhead) false).2 else x.d.pl
  | none => x.d.pl

theorem mp_save_eq_new {x : S} {bytes : List Byte} (hf : x.d.strings.find? (·.bytes == bytes) = none) :
    save x bytes = (x.d.nextNode, { x with d := { x.d with
        pl := shrunkPl x bytes,
        strings := ⟨x.d.nextNode, bytes, 1⟩ :: x.d.strings, nextNode := x.d.nextNode + 1 }, b := none }) := by
  simp only [save, hf]
  rfl

theorem shrunkPl_facts (x : S) (bytes : List Byte) :
    (shrunkPl x bytes).pools = x.d.pl.pools ∧ (shrunkPl x bytes).free = x.d.pl.free ∧
    (shrunkPl x bytes).tableCap = x.d.pl.tableCap ∧ (shrunkPl x bytes).tableHeap = x.d.pl.tableHeap ∧
    PL.net (shrunkPl x bytes) = PL.net x.d.pl := by
  unfold shrunkPl
  cases x.b with
  | none => exact ⟨rfl, rfl, rfl, rfl, rfl⟩
  | some cap =>
    simp only
    split
    · exact ⟨rfl, rfl, rfl, rfl, JDD.realloc_net _ _ _⟩
    · exact ⟨rfl, rfl, rfl, rfl, rfl⟩

/-- `StringBuffer::save`: the effect `JDD.SaveOp` of the JSON builder's `save` (node `n` gained a reference or was
    created with one; nothing else but allocator traffic; with a buffer present the ledger stays balanced) -/
theorem mp_save_spec (x : S) (bytes : List Byte) : SaveOp (J x) bytes (save x bytes).1 (J (save x bytes).2) := by
  cases hf : x.d.strings.find? (·.bytes == bytes) with
  | some y =>
    have hf' : (JDD.calm (J x).d bytes.length).strings.find? (·.bytes == bytes) = some y := hf
    obtain ⟨a, b, c⟩ := JDD.save_via (J x) bytes y.id (J (save x bytes).2) _ (saveString_found hf')
      (by rw [mp_save_eq_found hf]; rfl) (by rw [mp_save_eq_found hf]; rfl)
    rw [mp_save_eq_found hf] at a b c ⊢
    refine ⟨rfl, rfl, rfl, rfl, rfl, rfl, rfl, rfl, rfl, rfl, a, b, c, ?_⟩
    intro _ h
    unfold JDD.LB at h ⊢
    simp only [J, List.length_map] at h ⊢; exact h
  | none =>
    have hf' : (JDD.calm (J x).d bytes.length).strings.find? (·.bytes == bytes) = none := hf
    obtain ⟨p1, p2, p3, p4, hn⟩ := shrunkPl_facts x bytes
    have hsv := saveString_short hf' (Nat.le_refl _)
    rw [JDD.calm_failsAt] at hsv
    simp only [Bool.false_eq_true, if_false] at hsv
    obtain ⟨a, b, c⟩ := JDD.save_via (J x) bytes x.d.nextNode (J (save x bytes).2) _ hsv
      (by rw [mp_save_eq_new hf]; rfl) (by rw [mp_save_eq_new hf]; rfl)
    rw [mp_save_eq_new hf] at a b c ⊢
    refine ⟨rfl, rfl, rfl, rfl, rfl, rfl, p1, p2, p3, p4, a, b, c, ?_⟩
    intro hb h
    unfold JDD.LB at h ⊢
    simp only [J] at hb h ⊢
    simp only [hb, if_true, Option.isSome_none, Bool.false_eq_true, if_false, List.length_cons] at h ⊢
    rw [hn, h]; simp

/-- `save` does not move the reader -/
theorem save_r (x : S) (bytes : List Byte) : (save x bytes).2.r = x.r := by
  unfold save
  split <;> rfl

/-! ## `readString` -/

/-- `readString(n)`: `Ok` with a buffer present and the flag untouched, `NoMemory` with the flag set, or
    `IncompleteInput` (buffer present, flag untouched); only allocator traffic on the document -/
theorem mp_readString_spec (env : MD.Env) (x : S) (n : Nat) :
    PlEq x.d (readString env x n).2.2.d ∧
    Fx x.d x.b (readString env x n).2.2.d (readString env x n).2.2.b (readString env x n).1 ∧
    ((readString env x n).1 = .ok → (readString env x n).2.2.b.isSome = true) ∧
    ((readString env x n).1 ≠ .noMemory → (readString env x n).2.2.d.overflowed = x.d.overflowed) ∧
    ((readString env x n).1 = .ok ∨ (readString env x n).1 = .noMemory ∨ (readString env x n).1 = .incomplete) := by
  obtain ⟨ro, hok, hfail⟩ := mp_reserve_spec env.maxStrLen x n
  unfold readString
  generalize reserve env.maxStrLen x n = q at ro hok hfail
  obtain ⟨ok, x1⟩ := q
  simp only at ro hok hfail
  have blk : Blk x.d → Blk x1.d := JDD.Blk.of_pleq ro.pleq.pools ro.ovs
  cases ok with
  | false =>
    obtain ⟨_, ho⟩ := hfail rfl
    exact ⟨ro.pleq, ⟨ro.bal, ro.ovs, (fun h => by cases h), (fun _ => ho), blk⟩, (fun h => by cases h),
      (fun h => absurd rfl h), Or.inr (Or.inl rfl)⟩
  | true =>
    obtain ⟨hb, ho⟩ := hok rfl
    simp only
    generalize x1.r.readBytes n = q
    obtain ⟨o, r⟩ := q
    cases o with
    | some bs =>
      exact ⟨ro.pleq, ⟨ro.bal, ro.ovs, (fun _ => ho), (fun h => by cases h), blk⟩, (fun _ => hb), (fun _ => ho),
        Or.inl rfl⟩
    | none =>
      exact ⟨ro.pleq, ⟨ro.bal, ro.ovs, (fun h => by cases h), (fun h => by cases h), blk⟩, (fun h => by cases h),
        (fun _ => ho), Or.inr (Or.inr rfl)⟩

end MDD
