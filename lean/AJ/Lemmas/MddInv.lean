/- The invariant of AJ/Lemmas/JddOps.lean (`JDD.Built`) pushed through `MDD.parseVariant / readArray / readObject`
   (induction on the fuel, conjunction over the mutual block) and through `MDD.run`: for every input and every allocator
   failure schedule the document stays well-formed, the ledger balances, and the result code tells whether an allocation
   failed (for MessagePack: `NoMemory` exactly when the overflow flag was raised).
   `MDD.parseVariant (fuel+1)` is cut into the header dispatch `MD.dispatch` of AJ/Lemmas/MpProject.lean and one leaf per
   kind of token (`leafInt`, `leafStr`, …), equal to it by `rfl`.
   Used by AJ/Props/C03MpDoc.lean, AJ/Props/C05MpDeser.lean, AJ/Props/C04Deser.lean. -/
import AJ.Lemmas.MddBase
import AJ.Lemmas.MpProject
namespace MDD
open DL
open JD (Byte Code)
open JDD (PlEq LBd Fx Blk AllB SaveOp nl Ctx Built isNum)

/-! ## `parseVariant`, one step -/

def fin (p : Code × S) : Code × S × Bool := (p.1, p.2, true)

def leafInt (l : Loc) (x : S) (width c : Nat) : Code × S × Bool :=
  match x.r.readBytes width with
  | (some bs, r) =>
    match MD.readInteger bs (c ≥ 0xd0) with
    | .num (.uint n) => fin (store { x with r := r } l (.uint n))
    | .num (.sint n) => fin (store { x with r := r } l (.sint n))
    | _ => fin (.ok, { x with r := r })
  | (none, r) => fin (.incomplete, { x with r := r })

def leafF32 (l : Loc) (x : S) : Code × S × Bool :=
  match x.r.readBytes 4 with
  | (some bs, r) => fin (.ok, { x with r := r, d := x.d.set l (.f32 (MD.beNat bs)) })
  | (none, r) => fin (.incomplete, { x with r := r })

def leafF64 (l : Loc) (x : S) : Code × S × Bool :=
  match x.r.readBytes 8 with
  | (some bs, r) => fin (store { x with r := r } l (.f64 (MD.beNat bs)))
  | (none, r) => fin (.incomplete, { x with r := r })

def leafArr (env : MD.Env) (fuel limit : Nat) (l : Loc) (size : Nat) (x : S) : Code × S × Bool :=
  match limit with
  | 0 => fin (.tooDeep, x)
  | limit'+1 => fin (readArray env fuel limit' l size { x with d := x.d.set l (.arr x.d.null x.d.null) })

def leafMap (env : MD.Env) (fuel limit : Nat) (l : Loc) (size : Nat) (x : S) : Code × S × Bool :=
  match limit with
  | 0 => fin (.tooDeep, x)
  | limit'+1 => fin (readObject env fuel limit' l size { x with d := x.d.set l (.obj x.d.null x.d.null) })

def leafStr (env : MD.Env) (l : Loc) (size : Nat) (x : S) : Code × S × Bool :=
  match readString env x size with
  | (.ok, bs, x) =>
    let (node, x) := save x bs
    fin (.ok, { x with d := x.d.set l (.owned node) })
  | (e, _, x) => fin (e, x)

def leafBin (env : MD.Env) (l : Loc) (code : Byte) (sizeBytes : Nat) (isExt : Bool) (hb : List Byte) (size : Nat) (x : S) :
    Code × S × Bool :=
  let size := if isExt then size + 1 else size
  let total := 1 + sizeBytes + size
  match reserve env.maxStrLen x total with
  | (false, x) => fin (.noMemory, x)
  | (true, x) =>
    match x.r.readBytes size with
    | (some bs, r) =>
      let (node, x) := save { x with r := r } (code :: hb ++ bs)
      fin (.ok, { x with d := x.d.set l (.raw node) })
    | (none, r) => fin (.incomplete, { x with r := r })

set_option maxRecDepth 8000 in
theorem parseVariant_succ (env : MD.Env) (fuel limit : Nat) (l : Loc) (x : S) :
    parseVariant env (fuel+1) limit l x =
      match x.r.read with
      | (none, r) => (.incomplete, { x with r := r }, false)
      | (some code, r) =>
        MD.dispatch code r
          (fun width c => leafInt l { x with r := r } width c)
          (fin (.ok, { x with r := r })) (fin (.invalid, { x with r := r }))
          (fun c => fin (.ok, { x with r := r, d := x.d.set l (.bool (c == 0xc3)) }))
          (leafF32 l { x with r := r }) (leafF64 l { x with r := r })
          (fun c => fin (.ok, { x with r := r, d := x.d.set l (.i32 (if c ≥ 0x80 then (c : Int) - 256 else c)) }))
          (fun r => fin (.incomplete, { x with r := r }))
          (fun size r => leafArr env fuel limit l size { x with r := r })
          (fun size r => leafMap env fuel limit l size { x with r := r })
          (fun size r => leafStr env l size { x with r := r })
          (fun sizeBytes isExt hb size r => leafBin env l code sizeBytes isExt hb size { x with r := r }) := by
  simp only [parseVariant, MD.dispatch, MD.hdrOf_d4, MD.size2Of, MD.size0Ext, MD.sizeBytesOf, leafInt, leafF32, leafF64,
    leafArr, leafMap, leafStr, leafBin, fin]
  rfl
/-! ## The result of a parsing routine -/

/-- result `(c, x')` of a parsing routine started in `x` for the location `l` of the reference document `d0`:
    the invariant, the accounting of AJ/Lemmas/JddInv.lean, and: any code but NoMemory leaves the flag alone -/
structure MRes (d0 : Doc) (F : Forest) (l : Loc) (x : S) (c : Code) (x' : S) : Prop where
  built : ∃ s, Built d0 F l x'.d s
  fx : Fx x.d x.b x'.d x'.b c
  quiet : c ≠ .noMemory → x'.d.overflowed = x.d.overflowed

/-- an exit after silent steps, with a code other than NoMemory -/
theorem MRes.silent {d0 : Doc} {F : Forest} {l : Loc} {x x' : S} {s : Forest} {c : Code} (B : Built d0 F l x'.d s)
    (fx : Fx x.d x.b x'.d x'.b .ok) (hc : c ≠ .noMemory) : MRes d0 F l x c x' :=
  ⟨⟨s, B⟩, fx.code hc, fun _ => fx.ok rfl⟩

/-- an exit with NoMemory -/
theorem MRes.fail {d0 : Doc} {F : Forest} {l : Loc} {x x' : S} {s : Forest} (B : Built d0 F l x'.d s)
    (fx : Fx x.d x.b x'.d x'.b .noMemory) : MRes d0 F l x .noMemory x' :=
  ⟨⟨s, B⟩, fx, fun h => absurd rfl h⟩

/-- the start state matters through its document and buffer only -/
theorem MRes.of_eq {d0 : Doc} {F : Forest} {l : Loc} {x x'' x' : S} {c : Code} (hd : x''.d = x.d) (hb : x''.b = x.b)
    (h : MRes d0 F l x'' c x') : MRes d0 F l x c x' :=
  ⟨h.built, by rw [← hd, ← hb]; exact h.fx, fun hc => by rw [← hd]; exact h.quiet hc⟩

theorem MRes.step {d0 : Doc} {F : Forest} {l : Loc} {x x1 x' : S} {c : Code} (fx : Fx x.d x.b x1.d x1.b .ok)
    (h : MRes d0 F l x1 c x') : MRes d0 F l x c x' :=
  ⟨h.built, fx.trans h.fx, fun hc => (h.quiet hc).trans (fx.ok rfl)⟩

/-! ## The leaves -/

theorem store_eq (x : S) (l : Loc) (a : Arg) :
    store x l a = ((if (x.d.setArg l a).1 = true then Code.ok else Code.noMemory), { x with d := (x.d.setArg l a).2 }) := rfl

/-- `setInteger` / `setFloat` on the empty location -/
theorem store_res {d0 : Doc} {F : Forest} {l : Loc} {x : S} (C : Ctx d0 F l) (B : Built d0 F l x.d .nil)
    (hn : x.d.get l = .null) {a : Arg} (ha : isNum a) : MRes d0 F l x (store x l a).1 (store x l a).2 := by
  rw [store_eq]
  obtain ⟨b1, b2, b3, b4, b5, b6⟩ := B.setArg_num C hn ha
  refine ⟨⟨_, b1⟩, ⟨(fun h => by rw [JDD.LBd_iff] at h ⊢; rw [b2]; exact h), b5, fun e => ?_, fun e => ?_,
    fun h => h.elim b6 (fun o => Or.inr (b5 o))⟩, fun e => ?_⟩
  · cases hh : (x.d.setArg l a).1 with
    | true => exact b3 hh
    | false => rw [hh] at e; simp at e
  · cases hh : (x.d.setArg l a).1 with
    | true => rw [hh] at e; simp at e
    | false => exact b4 hh
  · cases hh : (x.d.setArg l a).1 with
    | true => exact b3 hh
    | false => rw [hh] at e; simp at e

theorem leafInt_res {d0 : Doc} {F : Forest} {l : Loc} {x : S} (C : Ctx d0 F l) (B : Built d0 F l x.d .nil)
    (hn : x.d.get l = .null) (w c : Nat) : MRes d0 F l x (leafInt l x w c).1 (leafInt l x w c).2.1 := by
  unfold leafInt
  generalize x.r.readBytes w = q
  obtain ⟨o, r⟩ := q
  cases o with
  | none => exact MRes.silent B (Fx.refl _ _) (by simp [fin])
  | some bs =>
    simp only
    split
    · rename_i n _
      exact MRes.of_eq (x'' := { x with r := r }) rfl rfl (store_res (x := { x with r := r }) C B hn (a := .uint n) trivial)
    · rename_i n _
      exact MRes.of_eq (x'' := { x with r := r }) rfl rfl (store_res (x := { x with r := r }) C B hn (a := .sint n) trivial)
    · exact MRes.silent B (Fx.refl _ _) (by simp [fin])

theorem leafF32_res {d0 : Doc} {F : Forest} {l : Loc} {x : S} (C : Ctx d0 F l) (B : Built d0 F l x.d .nil)
    (hn : x.d.get l = .null) : MRes d0 F l x (leafF32 l x).1 (leafF32 l x).2.1 := by
  unfold leafF32
  generalize x.r.readBytes 4 = q
  obtain ⟨o, r⟩ := q
  cases o with
  | none => exact MRes.silent B (Fx.refl _ _) (by simp [fin])
  | some bs =>
    exact MRes.silent (B.set_plain C hn (v := .f32 (MD.beNat bs)) (fun h => h) rfl rfl) (Fx.set _ _ _ _) (by simp [fin])

theorem leafF64_res {d0 : Doc} {F : Forest} {l : Loc} {x : S} (C : Ctx d0 F l) (B : Built d0 F l x.d .nil)
    (hn : x.d.get l = .null) : MRes d0 F l x (leafF64 l x).1 (leafF64 l x).2.1 := by
  unfold leafF64
  generalize x.r.readBytes 8 = q
  obtain ⟨o, r⟩ := q
  cases o with
  | none => exact MRes.silent B (Fx.refl _ _) (by simp [fin])
  | some bs =>
    exact MRes.of_eq (x'' := { x with r := r }) rfl rfl (store_res (x := { x with r := r }) C B hn (a := .f64 (MD.beNat bs)) trivial)

/-- the string just saved (`n`) stored on the empty location as a string (`.owned n`) or as a raw value (`.raw n`) -/
theorem built_set_str {d0 : Doc} {F : Forest} {l : Loc} {x x' : JDD.S} {bytes : List Byte} {n : Nat} {v : VData}
    (C : Ctx d0 F l) (B : Built d0 F l x.d .nil) (hnull : x.d.get l = .null) (sv : SaveOp x bytes n x')
    (hv : ¬ isColl v) (hve : extOfV v = []) (hvs : strOfV v = [n]) :
    Built d0 F l (x'.d.set l v) .nil := by
  obtain ⟨w, hs⟩ := B.get_nil C
  have hold : ¬ isColl (x.d.get l) := by rw [hnull]; exact fun h => h
  have hc : ∀ j, x'.d.cell j = x.d.cell j := fun j => by simp only [Doc.cell, sv.cells]
  have hlv : ∀ y, PL.live x'.d.g x'.d.pl y ↔ PL.live x.d.g x.d.pl y := fun y => by
    rw [sv.g]; exact live_congr sv.pools sv.free y
  have a := set_scalar_gen (d1 := x'.d) (v' := v) w C.loc hold hv sv.g sv.root (fun j _ => hc j)
    (fun l0 h0 _ e he => ⟨hc e, (hlv e).2 (w.ext l0 h0 e he).2.1⟩)
    (fun l0 h0 _ m hm => sv.keep _ hs m (by simp only [Doc.strRefs, List.mem_flatMap]; exact ⟨l0, h0, hm⟩))
    (by rw [sv.g]; exact w.pool.congr sv.pools sv.tcap sv.theap sv.free)
    (fun j hj => (hlv j).2 (w.live j hj)) (fun e he => by rw [hve] at he; cases he)
  have c := set_gen_strOK (d1 := x'.d) (v' := v) w C.loc (by rw [hnull]; rfl) sv.root (fun j _ => hc j)
    (by rw [hvs]; exact sv.str _ hs)
  exact B.set_after C sv.g sv.root (fun j _ => hc j) (fun n hn => sv.keep _ hs n hn) (fun _ _ e _ => hc e) a.1 c

/-- `save` of the bytes in the buffer, then the store of the node -/
theorem save_set_res {d0 : Doc} {F : Forest} {l : Loc} {x : S} (C : Ctx d0 F l) (B : Built d0 F l x.d .nil)
    (hn : x.d.get l = .null) (hb : x.b.isSome = true) (bytes : List Byte) (mk : Nat → VData)
    (hv : ∀ n, ¬ isColl (mk n)) (hve : ∀ n, extOfV (mk n) = []) (hvs : ∀ n, strOfV (mk n) = [n]) :
    Built d0 F l ((save x bytes).2.d.set l (mk (save x bytes).1)) .nil ∧
    Fx x.d x.b ((save x bytes).2.d.set l (mk (save x bytes).1)) (save x bytes).2.b .ok := by
  have sv := mp_save_spec x bytes
  exact ⟨built_set_str C (x := J x) B hn sv (hv _) (hve _) (hvs _), Fx.save_set sv hb _ _⟩

theorem leafStr_res {d0 : Doc} {F : Forest} {l : Loc} {x : S} (env : MD.Env) (C : Ctx d0 F l) (B : Built d0 F l x.d .nil)
    (hn : x.d.get l = .null) (size : Nat) : MRes d0 F l x (leafStr env l size x).1 (leafStr env l size x).2.1 := by
  unfold leafStr
  have rs := mp_readString_spec env x size
  split
  · rename_i bs x1 heq
    rw [heq] at rs
    obtain ⟨hpl, fx1, hb1, _, _⟩ := rs
    obtain ⟨B2, fx2⟩ := save_set_res C (B.pleq hpl) ((hpl.get l).trans hn) (hb1 rfl) bs VData.owned
      (fun _ h => h) (fun _ => rfl) (fun _ => rfl)
    exact MRes.silent B2 (fx1.trans fx2) (by simp [fin])
  · rename_i e bs x1 hne heq
    rw [heq] at rs
    obtain ⟨hpl, fx1, _, q1, _⟩ := rs
    exact ⟨⟨_, B.pleq hpl⟩, fx1, q1⟩

theorem leafBin_res {d0 : Doc} {F : Forest} {l : Loc} {x : S} (env : MD.Env) (C : Ctx d0 F l) (B : Built d0 F l x.d .nil)
    (hn : x.d.get l = .null) (code : Byte) (sb : Nat) (ie : Bool) (hb : List Byte) (size : Nat) :
    MRes d0 F l x (leafBin env l code sb ie hb size x).1 (leafBin env l code sb ie hb size x).2.1 := by
  unfold leafBin
  simp only
  obtain ⟨ro, hok, hfail⟩ := mp_reserve_spec env.maxStrLen x (1 + sb + (if ie = true then size + 1 else size))
  generalize reserve env.maxStrLen x (1 + sb + (if ie = true then size + 1 else size)) = q at ro hok hfail
  obtain ⟨ok, x1⟩ := q
  simp only at ro hok hfail
  have B1 : Built d0 F l x1.d .nil := B.pleq ro.pleq
  have blk : Blk x.d → Blk x1.d := JDD.Blk.of_pleq ro.pleq.pools ro.ovs
  cases ok with
  | false =>
    obtain ⟨_, ho⟩ := hfail rfl
    exact MRes.fail B1 (Fx.fail ro.bal ho)
  | true =>
    obtain ⟨hb1, ho⟩ := hok rfl
    have fx1 : Fx x.d x.b x1.d x1.b .ok := ⟨ro.bal, ro.ovs, fun _ => ho, (fun h => by cases h), blk⟩
    simp only
    generalize x1.r.readBytes (if ie = true then size + 1 else size) = q
    obtain ⟨o, r⟩ := q
    cases o with
    | none => exact MRes.silent B1 fx1 (by simp [fin])
    | some bs =>
      obtain ⟨B2, fx2⟩ := save_set_res (x := { x1 with r := r }) C B1 ((ro.pleq.get l).trans hn) hb1 (code :: hb ++ bs)
        VData.raw (fun _ h => h) (fun _ => rfl) (fun _ => rfl)
      exact MRes.silent B2 (fx1.trans fx2) (by simp [fin])

/-! ## The statements, by fuel -/

def PVs (env : MD.Env) (fuel : Nat) : Prop := ∀ (limit : Nat) (l : Loc) (x : S) (d0 : Doc) (F : Forest),
  Ctx d0 F l → Built d0 F l x.d .nil → x.d.get l = .null →
    MRes d0 F l x (parseVariant env fuel limit l x).1 (parseVariant env fuel limit l x).2.1

def PAs (env : MD.Env) (fuel : Nat) : Prop := ∀ (limit : Nat) (l : Loc) (n : Nat) (x : S) (d0 : Doc) (F s : Forest)
  (h t : Nat), Ctx d0 F l → Built d0 F l x.d s → x.d.get l = .arr h t →
    MRes d0 F l x (readArray env fuel limit l n x).1 (readArray env fuel limit l n x).2

def POs (env : MD.Env) (fuel : Nat) : Prop := ∀ (limit : Nat) (l : Loc) (n : Nat) (x : S) (d0 : Doc) (F s : Forest)
  (h t : Nat), Ctx d0 F l → Built d0 F l x.d s → x.d.get l = .obj h t →
    MRes d0 F l x (readObject env fuel limit l n x).1 (readObject env fuel limit l n x).2

theorem leafArr_res {env : MD.Env} {f : Nat} (ihA : PAs env f) {d0 : Doc} {F : Forest} {l : Loc} {x : S} (C : Ctx d0 F l)
    (B : Built d0 F l x.d .nil) (hn : x.d.get l = .null) (limit size : Nat) :
    MRes d0 F l x (leafArr env f limit l size x).1 (leafArr env f limit l size x).2.1 := by
  unfold leafArr
  cases limit with
  | zero => exact MRes.silent B (Fx.refl _ _) (by simp [fin])
  | succ limit' =>
    have B' : Built d0 F l (x.d.set l (.arr x.d.null x.d.null)) .nil := B.set_coll C hn false
    exact MRes.step (x1 := { x with d := x.d.set l (.arr x.d.null x.d.null) }) (Fx.set _ _ _ _)
      (ihA limit' l size _ d0 F .nil _ _ C B' (get_set_self _ _ _))

theorem leafMap_res {env : MD.Env} {f : Nat} (ihO : POs env f) {d0 : Doc} {F : Forest} {l : Loc} {x : S} (C : Ctx d0 F l)
    (B : Built d0 F l x.d .nil) (hn : x.d.get l = .null) (limit size : Nat) :
    MRes d0 F l x (leafMap env f limit l size x).1 (leafMap env f limit l size x).2.1 := by
  unfold leafMap
  cases limit with
  | zero => exact MRes.silent B (Fx.refl _ _) (by simp [fin])
  | succ limit' =>
    have B' : Built d0 F l (x.d.set l (.obj x.d.null x.d.null)) .nil := B.set_coll C hn true
    exact MRes.step (x1 := { x with d := x.d.set l (.obj x.d.null x.d.null) }) (Fx.set _ _ _ _)
      (ihO limit' l size _ d0 F .nil _ _ C B' (get_set_self _ _ _))

/-- parsing into the fresh slot `v` of the collection being built at `l` -/
theorem mp_sub_parse {env : MD.Env} {f : Nat} (ihV : PVs env f) {d0 : Doc} {F : Forest} {l : Loc} {x : S} {s : Forest}
    {v : Nat} (limit : Nat) (C : Ctx d0 F l) (B : Built d0 F l x.d s) (hv : v ∈ s.locs)
    (hn : x.d.get (.slot v) = .null) :
    (∃ s', Built d0 F l (parseVariant env f limit (.slot v) x).2.1.d s') ∧
    (parseVariant env f limit (.slot v) x).2.1.d.get l = x.d.get l ∧
    Fx x.d x.b (parseVariant env f limit (.slot v) x).2.1.d (parseVariant env f limit (.slot v) x).2.1.b
      (parseVariant env f limit (.slot v) x).1 ∧
    ((parseVariant env f limit (.slot v) x).1 ≠ .noMemory →
      (parseVariant env f limit (.slot v) x).2.1.d.overflowed = x.d.overflowed) := by
  have C1 := B.ctx_in C hv hn
  have R := ihV limit (.slot v) x x.d (replaceAt F l s) C1 (JDD.built_start B.wf B.str C1) hn
  obtain ⟨s2, B2⟩ := R.built
  obtain ⟨a, b⟩ := B.nest C hv B2
  exact ⟨⟨_, a⟩, b, R.fx, R.quiet⟩

theorem mp_pv_zero (env : MD.Env) : PVs env 0 := by
  intro limit l x d0 F C B hn
  simp only [parseVariant]
  exact MRes.silent B (Fx.refl _ _) (by simp)

theorem mp_pa_zero (env : MD.Env) : PAs env 0 := by
  intro limit l n x d0 F s h t C B hn
  simp only [readArray]
  exact MRes.silent B (Fx.refl _ _) (by simp)

theorem mp_po_zero (env : MD.Env) : POs env 0 := by
  intro limit l n x d0 F s h t C B hn
  simp only [readObject]
  exact MRes.silent B (Fx.refl _ _) (by simp)

theorem mp_pv_succ (env : MD.Env) (f : Nat) (ihA : PAs env f) (ihO : POs env f) : PVs env (f+1) := by
  intro limit l x d0 F C B hn
  rw [parseVariant_succ]
  generalize x.r.read = rd
  obtain ⟨_ | code, r0⟩ := rd
  · exact MRes.silent B (Fx.refl _ _) (by simp)
  simp only [MD.dispatch_eq]
  cases MD.classify code r0 with
  | int w c => exact MRes.of_eq (x'' := { x with r := r0 }) rfl rfl (leafInt_res (x := { x with r := r0 }) C B hn w c)
  | nil => exact MRes.silent B (Fx.refl _ _) (by simp [fin])
  | invalid => exact MRes.silent B (Fx.refl _ _) (by simp [fin])
  | bool c =>
    exact MRes.silent (B.set_plain C hn (v := .bool (c == 0xc3)) (fun h => h) rfl rfl) (Fx.set _ _ _ _) (by simp [fin])
  | f32 => exact MRes.of_eq (x'' := { x with r := r0 }) rfl rfl (leafF32_res (x := { x with r := r0 }) C B hn)
  | f64 => exact MRes.of_eq (x'' := { x with r := r0 }) rfl rfl (leafF64_res (x := { x with r := r0 }) C B hn)
  | fix c =>
    exact MRes.silent (B.set_plain C hn (v := .i32 (if c ≥ 0x80 then (c : Int) - 256 else c)) (fun h => h) rfl rfl)
      (Fx.set _ _ _ _) (by simp [fin])
  | inc r => exact MRes.silent B (Fx.refl _ _) (by simp [fin])
  | arr size r => exact MRes.of_eq (x'' := { x with r := r }) rfl rfl (leafArr_res ihA (x := { x with r := r }) C B hn limit size)
  | map size r => exact MRes.of_eq (x'' := { x with r := r }) rfl rfl (leafMap_res ihO (x := { x with r := r }) C B hn limit size)
  | str size r => exact MRes.of_eq (x'' := { x with r := r }) rfl rfl (leafStr_res (x := { x with r := r }) env C B hn size)
  | bin sb ie hb size r => exact MRes.of_eq (x'' := { x with r := r }) rfl rfl (leafBin_res (x := { x with r := r }) env C B hn code sb ie hb size)

theorem mp_pa_succ (env : MD.Env) (f : Nat) (ihV : PVs env f) (ihA : PAs env f) : PAs env (f+1) := by
  intro limit l n x d0 F s h t C B hv
  simp only [readArray]
  split
  · exact MRes.silent B (Fx.refl _ _) (by simp)
  split
  · rename_i d1 heq
    obtain ⟨b1, ho, hnl⟩ := B.addElement_none C heq
    exact MRes.fail b1 (Fx.doc_fail _ hnl ho)
  · rename_i id d1 heq
    obtain ⟨B1, hgn, ⟨h', hgl⟩, hov, hnl, _, _, hbk, _⟩ := B.addElement_some C hv heq
    have hloc : id ∈ (s.snoc none id).locs := by rw [Forest.locs_snoc]; simp
    have fx01 : Fx x.d x.b d1 x.b .ok := Fx.doc _ hnl hov hbk
    have sp := mp_sub_parse ihV limit C (x := { x with d := d1 }) B1 hloc hgn
    split
    · rename_i x2 fd heq2
      rw [heq2] at sp
      obtain ⟨⟨s2, B2⟩, hg2, fx2, _⟩ := sp
      exact MRes.step (x1 := x2) (fx01.trans fx2) (ihA limit l (n - 1) x2 d0 F s2 _ _ C B2 (hg2.trans hgl))
    · rename_i e x2 fd hne heq2
      rw [heq2] at sp
      obtain ⟨⟨s2, B2⟩, _, fx2, q2⟩ := sp
      exact ⟨⟨s2, B2⟩, fx01.trans fx2, fun hc => (q2 hc).trans (fx01.ok rfl)⟩

theorem mp_po_succ (env : MD.Env) (f : Nat) (ihV : PVs env f) (ihO : POs env f) : POs env (f+1) := by
  intro limit l n x d0 F s h t C B hv
  simp only [readObject]
  split
  · exact MRes.silent B (Fx.refl _ _) (by simp)
  generalize x.r.read = rd
  obtain ⟨_ | code, r0⟩ := rd
  · exact MRes.silent B (Fx.refl _ _) (by simp)
  simp only
  split
  · exact MRes.silent B (Fx.refl _ _) (by simp)
  · exact MRes.silent B (Fx.refl _ _) (by simp)
  · rename_i len r1 heq
    have rs := mp_readString_spec env { x with r := r1 } len
    split
    · rename_i key x1 heq2
      rw [heq2] at rs
      obtain ⟨hpl, fx1, hb1, _, _⟩ := rs
      have hb1 := hb1 rfl
      have B1 : Built d0 F l (J x1).d s := B.pleq hpl
      have hv1 : x1.d.get l = .obj h t := (hpl.get l).trans hv
      have sv := mp_save_spec x1 key
      obtain ⟨B', hp, hget⟩ := B1.save C sv
      have fxs : Fx x1.d x1.b (save x1 key).2.d (save x1 key).2.b .ok := Fx.save sv hb1
      generalize save x1 key = sr at B' hp hget fxs
      obtain ⟨node, x2⟩ := sr
      simp only [J_d] at B' hp hget fxs ⊢
      have hv2 : x2.d.get l = .obj h t := (hget l).trans hv1
      have fx02 : Fx x.d x.b x2.d x2.b .ok := fx1.trans fxs
      obtain ⟨m1, m2, m3, m4⟩ := B'.addMemberNode C hp hv2
      generalize JDD.addMemberNode x2.d l node = r at m1 m2 m3 m4
      obtain ⟨o, d2⟩ := r
      cases o with
      | none =>
        obtain ⟨a1, a2⟩ := m1 rfl
        exact MRes.fail a1 (fx02.trans (Fx.doc_fail _ m3 a2))
      | some v =>
        obtain ⟨k, a1, a2, ⟨h', a3⟩, a4, _⟩ := m2 v rfl
        have fx03 : Fx x.d x.b d2 x2.b .ok := fx02.trans (Fx.doc _ m3 a4 m4)
        have hvl : v ∈ (s.snoc (some k) v).locs := by rw [Forest.locs_snoc]; simp
        have sp := mp_sub_parse ihV limit C (x := { x2 with d := d2 }) a1 hvl a2
        simp only
        split
        · rename_i x3 fd heq3
          rw [heq3] at sp
          obtain ⟨⟨s3, B3⟩, hg3, fx3, _⟩ := sp
          exact MRes.step (x1 := x3) (fx03.trans fx3) (ihO limit l (n - 1) x3 d0 F s3 _ _ C B3 (hg3.trans a3))
        · rename_i e x3 fd hne heq3
          rw [heq3] at sp
          obtain ⟨⟨s3, B3⟩, _, fx3, q3⟩ := sp
          exact ⟨⟨s3, B3⟩, fx03.trans fx3, fun hc => (q3 hc).trans (fx03.ok rfl)⟩
    · rename_i e key x1 hne heq2
      rw [heq2] at rs
      obtain ⟨hpl, fx1, _, q1, _⟩ := rs
      exact ⟨⟨_, B.pleq hpl⟩, fx1, q1⟩

/-- the invariant through the whole mutual block, for every fuel -/
theorem mp_parse_all (env : MD.Env) : ∀ fuel, PVs env fuel ∧ PAs env fuel ∧ POs env fuel := by
  intro fuel
  induction fuel with
  | zero => exact ⟨mp_pv_zero env, mp_pa_zero env, mp_po_zero env⟩
  | succ f ih =>
    obtain ⟨ihV, ihA, ihO⟩ := ih
    exact ⟨mp_pv_succ env f ihA ihO, mp_pa_succ env f ihV ihA, mp_po_succ env f ihV ihO⟩

/-! ## `foundSomething` -/

theorem fin_found (p : Code × S) : (fin p).2.2 = true := rfl

theorem leafInt_found (l : Loc) (x : S) (w c : Nat) : (leafInt l x w c).2.2 = true := by
  unfold leafInt
  split
  · split <;> rfl
  · rfl

theorem leafF32_found (l : Loc) (x : S) : (leafF32 l x).2.2 = true := by
  unfold leafF32; split <;> rfl

theorem leafF64_found (l : Loc) (x : S) : (leafF64 l x).2.2 = true := by
  unfold leafF64; split <;> rfl

theorem leafArr_found (env : MD.Env) (f limit : Nat) (l : Loc) (size : Nat) (x : S) :
    (leafArr env f limit l size x).2.2 = true := by
  unfold leafArr; split <;> rfl

theorem leafMap_found (env : MD.Env) (f limit : Nat) (l : Loc) (size : Nat) (x : S) :
    (leafMap env f limit l size x).2.2 = true := by
  unfold leafMap; split <;> rfl

theorem leafStr_found (env : MD.Env) (l : Loc) (size : Nat) (x : S) : (leafStr env l size x).2.2 = true := by
  unfold leafStr; split <;> rfl

theorem leafBin_found (env : MD.Env) (l : Loc) (code : Byte) (sb : Nat) (ie : Bool) (hb : List Byte) (size : Nat) (x : S) :
    (leafBin env l code sb ie hb size x).2.2 = true := by
  unfold leafBin
  simp only
  split
  · rfl
  · split <;> rfl

/-- `foundSomething` is false only when not a single byte could be read: the code is then IncompleteInput -/
theorem found_false (env : MD.Env) (fuel limit : Nat) (l : Loc) (x : S)
    (h : (parseVariant env fuel limit l x).2.2 = false) : (parseVariant env fuel limit l x).1 = .incomplete := by
  cases fuel with
  | zero => simp [parseVariant] at h
  | succ f =>
    rw [parseVariant_succ] at h ⊢
    generalize x.r.read = rd at h ⊢
    obtain ⟨_ | code, r0⟩ := rd
    · rfl
    exfalso
    simp only [MD.dispatch_eq] at h
    cases hc : MD.classify code r0 <;> rw [hc] at h <;> simp only at h
    · rw [leafInt_found] at h; cases h
    · cases h
    · cases h
    · cases h
    · rw [leafF32_found] at h; cases h
    · rw [leafF64_found] at h; cases h
    · cases h
    · cases h
    · rw [leafArr_found] at h; cases h
    · rw [leafMap_found] at h; cases h
    · rw [leafStr_found] at h; cases h
    · rw [leafBin_found] at h; cases h
/-! ## `run` -/

/-- the state in which `run` starts parsing -/
def mp_start (d : Doc) (input : List Byte) : S := { r := { unread := input }, d := d.clearAll }

/-- the state in which the parser stops (with the `foundSomething` flag) -/
def mp_stop (env : MD.Env) (limit : Nat) (d : Doc) (input : List Byte) : Code × S × Bool :=
  parseVariant env (2 * input.length + 4) limit .root (mp_start d input)

/-- the document after the deserializer object was destroyed (a kept StringBuffer node is released), before the pools
    are shrunk -/
def mp_preShrink (env : MD.Env) (limit : Nat) (d : Doc) (input : List Byte) : Doc :=
  match (mp_stop env limit d input).2.1.b with
  | some _ => { (mp_stop env limit d input).2.1.d with pl := (mp_stop env limit d input).2.1.d.pl.dealloc }
  | none => (mp_stop env limit d input).2.1.d

/-- the code `run` reports, from the code of the parser: an input without a single byte is `EmptyInput` -/
def mp_finalCode (c : Code) (found : Bool) : Code := if found then c else .empty

theorem mp_run_eq (env : MD.Env) (limit : Nat) (d : Doc) (input : List Byte) :
    run env limit d input =
      (mp_finalCode (mp_stop env limit d input).1 (mp_stop env limit d input).2.2,
        { mp_preShrink env limit d input with
          pl := PL.shrink (mp_preShrink env limit d input).g (mp_preShrink env limit d input).pl },
        (mp_stop env limit d input).2.1.r.pos) := rfl

theorem mp_finalCode_ok {c : Code} {b : Bool} (h : mp_finalCode c b = .ok) : c = .ok := by
  cases b with
  | true => exact h
  | false => cases h

theorem mp_finalCode_nomem {c : Code} {b : Bool} (h : mp_finalCode c b = .noMemory) : c = .noMemory := by
  cases b with
  | true => exact h
  | false => cases h

theorem mp_finalCode_ne_nomem {c : Code} {b : Bool} (h : mp_finalCode c b ≠ .noMemory) : c ≠ .noMemory ∨ b = false := by
  cases b with
  | true => exact Or.inl h
  | false => exact Or.inr rfl

/-- the parser's result, for every input and every failure schedule -/
theorem mp_stop_res (env : MD.Env) (limit : Nat) {d : Doc} (input : List Byte) (gok : PL.GeoOK d.g)
    (hp : PL.Inv d.g d.pl) :
    MRes d.clearAll .nil .root (mp_start d input) (mp_stop env limit d input).1 (mp_stop env limit d input).2.1 := by
  obtain ⟨w, hs, hg, _, hr⟩ := JDD.clearAll_wf gok hp
  have C : Ctx d.clearAll .nil .root := ⟨List.nodup_nil, trivial, rfl, by rw [hg]; exact gok⟩
  exact (mp_parse_all env _).1 limit .root (mp_start d input) d.clearAll .nil C (JDD.built_start w hs C) hr

theorem mp_preShrink_pleq (env : MD.Env) (limit : Nat) (d : Doc) (input : List Byte) :
    PlEq (mp_stop env limit d input).2.1.d (mp_preShrink env limit d input) ∧
    (mp_preShrink env limit d input).overflowed = (mp_stop env limit d input).2.1.d.overflowed := by
  unfold mp_preShrink
  cases (mp_stop env limit d input).2.1.b with
  | none => exact ⟨PlEq.refl _, rfl⟩
  | some c => exact ⟨⟨rfl, rfl, rfl, rfl, rfl, rfl, rfl, rfl, rfl, rfl⟩, rfl⟩

/-- MAIN: whatever the input and the allocator failure schedule, `run` leaves a well-formed document -/
theorem mp_run_wf (env : MD.Env) (limit : Nat) {d : Doc} (input : List Byte) (gok : PL.GeoOK d.g) (hp : PL.Inv d.g d.pl) :
    ∃ F', WFG (run env limit d input).2.1 F' ∧
      StrOK (run env limit d input).2.1 ((run env limit d input).2.1.strRefs F') := by
  obtain ⟨⟨s, B⟩, _, _⟩ := mp_stop_res env limit input gok hp
  obtain ⟨w1, s1, _⟩ := (mp_preShrink_pleq env limit d input).1.wfg B.wf B.str
  rw [mp_run_eq]
  exact ⟨_, JDD.shrink_wf w1 s1⟩

/-- the overflow flag of the result is the one the parser left -/
theorem mp_run_overflowed (env : MD.Env) (limit : Nat) (d : Doc) (input : List Byte) :
    (run env limit d input).2.1.overflowed = (mp_stop env limit d input).2.1.d.overflowed := by
  rw [mp_run_eq]; exact (mp_preShrink_pleq env limit d input).2

/-- the result code against the overflow flag: `Ok` only without a failed allocation, and the flag is raised exactly
    when the code is `NoMemory` -/
theorem mp_run_code (env : MD.Env) (limit : Nat) {d : Doc} (input : List Byte) (gok : PL.GeoOK d.g)
    (hp : PL.Inv d.g d.pl) :
    ((run env limit d input).1 = .ok → (run env limit d input).2.1.overflowed = false) ∧
    ((run env limit d input).1 = .noMemory ↔ (run env limit d input).2.1.overflowed = true) := by
  obtain ⟨_, fx, q⟩ := mp_stop_res env limit input gok hp
  have h0 : (mp_start d input).d.overflowed = false := rfl
  rw [mp_run_overflowed]
  refine ⟨fun h => ?_, fun h => ?_, fun h => ?_⟩
  · rw [mp_run_eq] at h
    exact (fx.ok (mp_finalCode_ok h)).trans h0
  · rw [mp_run_eq] at h
    exact fx.nomem (mp_finalCode_nomem h)
  · rw [mp_run_eq]
    by_cases hc : (mp_stop env limit d input).1 = .noMemory
    · -- NoMemory is never reported without a byte read
      cases hf : (mp_stop env limit d input).2.2 with
      | true => simp only [mp_finalCode, if_true]; exact hc
      | false =>
        have := found_false env _ limit .root (mp_start d input) hf
        rw [show (mp_stop env limit d input).1 = Code.incomplete from this] at hc; cases hc
    · rw [q hc, h0] at h; cases h

/-! ## The ledger -/

/-- the ledger balances before the pools are shrunk -/
theorem mp_preShrink_bal (env : MD.Env) (limit : Nat) {d : Doc} (input : List Byte) (gok : PL.GeoOK d.g)
    (hp : PL.Inv d.g d.pl) (hb : Bal d) : Bal (mp_preShrink env limit d input) := by
  obtain ⟨_, fx, _⟩ := mp_stop_res env limit input gok hp
  have h := fx.bal (JDD.clearAll_LBd hb)
  unfold mp_preShrink
  unfold LBd at h
  unfold Bal
  cases hx : (mp_stop env limit d input).2.1.b with
  | none => rw [hx] at h; simpa using h
  | some c =>
    rw [hx] at h
    show PL.net (mp_stop env limit d input).2.1.d.pl.dealloc = _
    rw [JDD.dealloc_net, h]; simp

/-- the ledger of the document `run` returns: balanced up to the block `shrink` gives a block-less last pool -/
theorem mp_run_net (env : MD.Env) (limit : Nat) {d : Doc} (input : List Byte) (gok : PL.GeoOK d.g) (hp : PL.Inv d.g d.pl)
    (hb : Bal d) :
    PL.net (run env limit d input).2.1.pl =
      ((run env limit d input).2.1.strings.length : Int) -
        (if JDD.lastBlockless (mp_preShrink env limit d input).pl then 1 else 0) := by
  have h := mp_preShrink_bal env limit input gok hp hb
  unfold Bal at h
  rw [mp_run_eq]
  show PL.net (PL.shrink _ _) = ((mp_preShrink env limit d input).strings.length : Int) - _
  rw [JDD.shrink_net, h]

/-- when no allocation failed, every pool has its block and the ledger of the result balances -/
theorem mp_run_bal (env : MD.Env) (limit : Nat) {d : Doc} (input : List Byte) (gok : PL.GeoOK d.g) (hp : PL.Inv d.g d.pl)
    (hb : Bal d) (hov : (run env limit d input).2.1.overflowed = false) : Bal (run env limit d input).2.1 := by
  obtain ⟨_, fx, _⟩ := mp_stop_res env limit input gok hp
  have h0 : Blk (mp_start d input).d := by
    refine Or.inl ?_
    intro p hp'
    have : d.clearAll.pl.pools = [] := (clearAll_spec d).2.2.1
    rw [show (mp_start d input).d.pl.pools = d.clearAll.pl.pools from rfl, this] at hp'
    cases hp'
  rw [mp_run_overflowed] at hov
  have hall : AllB (mp_stop env limit d input).2.1.d := by
    rcases fx.blk h0 with h1 | h1
    · exact h1
    · rw [hov] at h1; cases h1
  have hall' : AllB (mp_preShrink env limit d input) :=
    JDD.AllB_of_pools (mp_preShrink_pleq env limit d input).1.pools hall
  have := mp_run_net env limit input gok hp hb
  rw [JDD.lastBlockless_of_allB hall'] at this
  unfold Bal
  rw [this]; simp

/-- the geometry is kept -/
theorem mp_run_g (env : MD.Env) (limit : Nat) {d : Doc} (input : List Byte) (gok : PL.GeoOK d.g) (hp : PL.Inv d.g d.pl) :
    (run env limit d input).2.1.g = d.g := by
  obtain ⟨⟨s, B⟩, _, _⟩ := mp_stop_res env limit input gok hp
  rw [mp_run_eq]
  show (mp_preShrink env limit d input).g = d.g
  rw [(mp_preShrink_pleq env limit d input).1.g, B.g]; rfl

/-- `clearAll` after `run`: what the ledger says -/
theorem mp_run_clearAll_outstanding (env : MD.Env) (limit : Nat) {d : Doc} (input : List Byte) (gok : PL.GeoOK d.g)
    (hp : PL.Inv d.g d.pl) (hb : Bal d) :
    PL.outstanding (run env limit d input).2.1.clearAll.pl.log =
      - (if JDD.lastBlockless (mp_preShrink env limit d input).pl then 1 else 0) := by
  have h := mp_run_net env limit input gok hp hb
  rw [(clearAll_spec _).1, PL.outstanding_replicate_D]
  unfold PL.net at h
  omega

end MDD
