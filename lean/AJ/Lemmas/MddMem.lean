/- Memory accounting for the slot-level MessagePack deserializer `MDD` (AJ/Model/MDD.lean), the twin of AJ/Lemmas/JddMem.lean:
   the slots handed out, the string bytes and the string nodes are bounded by the bytes CONSUMED - whatever the lengths and
   counts announced by the headers - and the StringBuffer's node never exceeds the maximal string length.
   * reader: `R.read` / `R.readBytes` against `pos`;
   * `MemM`: the step relation (document part `DL.MemD` with weight 1 for string nodes, and the buffer);
   * `mem_mp_all`: through `parseVariant / readArray / readObject`; a value that is read completely consumes one byte more
     than the slots it takes, which pays for the slot of the next element.
   Used by AJ/Props/C06Mem.lean. -/
import AJ.Lemmas.JddMem
import AJ.Lemmas.MDPos
import AJ.Model.MDD
namespace MD

theorem mem_read_some {r r1 : R} {c : JD.Byte} (e : r.read = (some c, r1)) : r1.pos = r.pos + 1 := by
  unfold R.read at e
  split at e
  · simp at e
  · simp only [Prod.mk.injEq, Option.some.injEq] at e
    obtain ⟨_, rfl⟩ := e
    rfl

theorem mem_readBytes_some {r r1 : R} {n : Nat} {bs : List JD.Byte} (e : r.readBytes n = (some bs, r1)) :
    bs.length = n ∧ r1.pos = r.pos + n := by
  unfold R.readBytes at e
  split at e
  · rename_i h
    simp only [Prod.mk.injEq, Option.some.injEq] at e
    obtain ⟨rfl, rfl⟩ := e
    exact ⟨by simp only [List.length_take]; omega, rfl⟩
  · simp at e

theorem mem_readBytes_le (r : R) (n : Nat) : r.pos ≤ (r.readBytes n).2.pos := by
  unfold R.readBytes
  split <;> simp

theorem mem_readBytes_le' {r r1 : R} {n : Nat} {o : Option (List JD.Byte)} (e : r.readBytes n = (o, r1)) :
    r.pos ≤ r1.pos := by
  have := mem_readBytes_le r n; rw [e] at this; exact this

end MD

namespace MDD
open DL MD
open JD (Byte Code)

/-- the StringBuffer's node never exceeds the maximal string length -/
def MemBufM (maxLen : Nat) (x : S) : Prop := ∀ cap, x.b = some cap → cap ≤ maxLen

/-- a step of the MessagePack deserializer: the document part against the bytes taken from the reader, and the buffer -/
structure MemM (env : Env) (g : PL.Geo) (ks kb kc : Int) (x x' : S) (ok : Prop) : Prop where
  d : MemD g 1 ks kb kc x.r.pos x'.r.pos x.d x'.d ok
  buf : MemBufM env.maxStrLen x → MemBufM env.maxStrLen x'

theorem MemM.trans {env : Env} {g : PL.Geo} {ks1 kb1 kc1 ks2 kb2 kc2 : Int} {x x1 x2 : S} {P Q : Prop}
    (h1 : MemM env g ks1 kb1 kc1 x x1 P) (hp : P) (h2 : MemM env g ks2 kb2 kc2 x1 x2 Q) :
    MemM env g (ks1 + ks2) (kb1 + kb2) (kc1 + kc2) x x2 Q :=
  ⟨h1.d.trans hp h2.d, fun h => h2.buf (h1.buf h)⟩

theorem MemM.weaken {env : Env} {g : PL.Geo} {ks kb kc ks' kb' kc' : Int} {x x' : S} {P Q : Prop}
    (h : MemM env g ks kb kc x x' P) (h1 : ks ≤ ks') (h2 : kb ≤ kb') (h3 : kc ≤ kc') (hq : Q → P) :
    MemM env g ks' kb' kc' x x' Q :=
  ⟨h.d.weaken h1 h2 h3 hq, h.buf⟩

/-- the reader takes at least `j` bytes while the document goes through an operation that does not touch the buffer -/
theorem MemM.step {env : Env} {g : PL.Geo} {ks kb kc : Int} {x : S} {ok : Prop} (r' : R) (d' : Doc) (j : Nat)
    (hr : x.r.pos + j ≤ r'.pos) (hd : MemD g 1 ks kb kc x.r.pos x.r.pos x.d d' ok) :
    MemM env g (ks - j) (kb - j) (kc - j) x ⟨r', d', x.b⟩ ok := by
  refine ⟨⟨hd.hg, hd.ovh, by show x.r.pos ≤ r'.pos; omega, ?_, ?_, ?_, hd.always, hd.strong⟩, fun hb => hb⟩
  · have := hd.slots; show (PL.memSlots d'.pl : Int) + _ ≤ _ + r'.pos + _; omega
  · have := hd.sbytes; show (memStrBytes d' : Int) + _ ≤ _ + r'.pos + _; omega
  · have := hd.scount; show ((1 * d'.strings.length : Nat) : Int) + _ ≤ _ + r'.pos + _; omega

theorem MemM.rd {env : Env} {g : PL.Geo} {x : S} (r' : R) (j : Nat) (hg : x.d.g = g) (hr : x.r.pos + j ≤ r'.pos) :
    MemM env g (-(j : Int)) (-(j : Int)) (-(j : Int)) x ⟨r', x.d, x.b⟩ True :=
  (MemM.step (env := env) r' x.d j hr (MemD.passive hg (MemP.refl _))).weaken (by omega) (by omega) (by omega) (fun h => h)

/-- first half of `reserve`: a node that is too small is released -/
def memDrop (x : S) (n : Nat) : S :=
  match x.b with
  | some cap => if n > cap then { x with d := { x.d with pl := x.d.pl.dealloc }, b := none } else x
  | none => x

/-- second half of `reserve`: a node of exactly `n` bytes is allocated unless one is there -/
def memFresh (maxLen : Nat) (x : S) (n : Nat) : Bool × S :=
  match x.b with
  | some _ => (true, x)
  | none =>
    if n > maxLen then (false, { x with d := { x.d with overflowed := true } })
    else
      let (ok, pl) := x.d.pl.alloc (n + x.d.strOverhead)
      if ok then (true, { x with d := { x.d with pl := pl }, b := some n })
      else (false, { x with d := { x.d with pl := pl, overflowed := true } })

theorem mem_reserve_eq (maxLen : Nat) (x : S) (n : Nat) : reserve maxLen x n = memFresh maxLen (memDrop x n) n := rfl

theorem mem_drop_spec (maxLen : Nat) (x : S) (n : Nat) :
    MemP x.d (memDrop x n).d ∧ (memDrop x n).r = x.r ∧ (MemBufM maxLen x → MemBufM maxLen (memDrop x n)) := by
  unfold memDrop
  cases hb : x.b with
  | none => exact ⟨MemP.refl _, rfl, fun h => h⟩
  | some cap =>
    simp only
    split
    · exact ⟨⟨rfl, rfl, rfl, rfl, rfl, List.Sublist.refl _⟩, rfl, fun _ c hc => by cases hc⟩
    · exact ⟨MemP.refl _, rfl, fun h => h⟩

theorem mem_fresh_spec (maxLen : Nat) (x : S) (n : Nat) :
    MemP x.d (memFresh maxLen x n).2.d ∧ (memFresh maxLen x n).2.r = x.r ∧
    (MemBufM maxLen x → MemBufM maxLen (memFresh maxLen x n).2) := by
  unfold memFresh
  cases hb : x.b with
  | some cap => exact ⟨MemP.refl _, rfl, fun h => h⟩
  | none =>
    simp only
    split
    · exact ⟨⟨rfl, rfl, rfl, rfl, rfl, List.Sublist.refl _⟩, (by first | rfl | trivial), fun _ c hc => by simp at hc⟩
    · rename_i hle
      generalize hq : x.d.pl.alloc (n + x.d.strOverhead) = q
      obtain ⟨ok, pl⟩ := q
      have hpl : pl = (x.d.pl.alloc (n + x.d.strOverhead)).2 := by rw [hq]
      simp only
      cases ok with
      | true =>
        simp only [if_true]
        refine ⟨⟨rfl, rfl, by rw [hpl]; rfl, by rw [hpl]; rfl, by rw [hpl]; rfl, List.Sublist.refl _⟩, (by first | rfl | trivial), ?_⟩
        intro _ c hc
        simp only [Option.some.injEq] at hc
        omega
      | false =>
        simp only [Bool.false_eq_true, if_false]
        exact ⟨⟨rfl, rfl, by rw [hpl]; rfl, by rw [hpl]; rfl, by rw [hpl]; rfl, List.Sublist.refl _⟩,
          (by first | rfl | trivial), fun _ c hc => by simp at hc⟩

/-- `StringBuffer::reserve(n)`: allocator traffic only; the node it leaves has at most `maxLen` bytes -/
theorem mem_reserve (env : Env) {g : PL.Geo} (x : S) (n : Nat) (hg : x.d.g = g) :
    MemM env g 0 0 0 x (reserve env.maxStrLen x n).2 True ∧ (reserve env.maxStrLen x n).2.r = x.r := by
  rw [mem_reserve_eq]
  obtain ⟨a1, b1, c1⟩ := mem_drop_spec env.maxStrLen x n
  obtain ⟨a2, b2, c2⟩ := mem_fresh_spec env.maxStrLen (memDrop x n) n
  have hr := b2.trans b1
  refine ⟨⟨?_, fun h => c2 (c1 h)⟩, hr⟩
  rw [hr]
  exact MemD.passive hg (a1.trans a2)

/-- `StringBuffer::save`: a new node costs its bytes; an equal stored string costs nothing -/
theorem mem_save (env : Env) {g : PL.Geo} (x : S) (bytes : List Byte) (hg : x.d.g = g) :
    MemM env g 0 bytes.length 1 x (save x bytes).2 True := by
  unfold save
  cases hf : x.d.strings.find? (·.bytes == bytes) with
  | some y =>
    simp only
    have hP : MemP x.d { x.d with strings :=
        (x.d.strings.map (fun z => if z.id == y.id then { z with refs := z.refs + 1 } else z)) } := by
      refine ⟨rfl, rfl, rfl, rfl, rfl, ?_⟩
      simp only [List.map_map]
      have : ((fun z : StrNode => z.bytes) ∘ fun z : StrNode => if (z.id == y.id) = true then { z with refs := z.refs + 1 } else z) =
          fun z : StrNode => z.bytes := by
        funext z; simp only [Function.comp]; split <;> rfl
      rw [this]
      exact List.Sublist.refl _
    exact (MemM.step (env := env) x.r _ 0 (Nat.le_refl _) (MemD.passive hg hP)).weaken (by omega) (by omega) (by omega)
      (fun h => h)
  | none =>
    simp only
    generalize hpl : (match x.b with
      | some cap => if (cap != bytes.length) = true then (x.d.pl.realloc (bytes.length + x.d.strOverhead) false).2 else x.d.pl
      | none => x.d.pl) = pl
    have hp : pl.pools = x.d.pl.pools ∧ pl.tableCap = x.d.pl.tableCap ∧ pl.tableHeap = x.d.pl.tableHeap := by
      rw [← hpl]
      cases x.b with
      | none => exact ⟨rfl, rfl, rfl⟩
      | some cap => simp only; split <;> exact ⟨rfl, rfl, rfl⟩
    have hD : MemD g 1 0 bytes.length 1 x.r.pos x.r.pos x.d
        { x.d with pl := pl, strings := ⟨x.d.nextNode, bytes, 1⟩ :: x.d.strings, nextNode := x.d.nextNode + 1 } True := by
      refine ⟨hg, rfl, Nat.le_refl _, ?_, ?_, ?_, fun a => PL.MemA.congr (s := x.d.pl) hp.1 hp.2.1 hp.2.2 a,
        fun a => ⟨PL.MemW.congr (s := x.d.pl) hp.1 a.weak, fun _ => PL.MemS.congr (s := x.d.pl) hp.1 a⟩⟩
      · have : PL.memSlots pl = PL.memSlots x.d.pl := PL.mem_memSlots_congr hp.1
        show (PL.memSlots pl : Int) + _ ≤ _
        omega
      · simp only [memStrBytes, List.map_cons, List.sum_cons]; omega
      · simp only [List.length_cons]; omega
    subst hpl
    exact ⟨hD, fun _ cap hc => by cases hc⟩

theorem mem_readString_eq (env : Env) (x : S) (n : Nat) :
    readString env x n =
      (match (reserve env.maxStrLen x n).1 with
       | false => (.noMemory, [], (reserve env.maxStrLen x n).2)
       | true =>
         match (reserve env.maxStrLen x n).2.r.readBytes n with
         | (some bs, r) => (.ok, bs, { (reserve env.maxStrLen x n).2 with r := r })
         | (none, r) => (.incomplete, [], { (reserve env.maxStrLen x n).2 with r := r })) := by
  unfold readString
  generalize reserve env.maxStrLen x n = q
  obtain ⟨ok, y⟩ := q
  cases ok <;> rfl

/-- `readString(n)`: the buffer is reserved first (nothing is consumed for it); the bytes of a string that is read were
    consumed -/
theorem mem_readString (env : Env) {g : PL.Geo} (x : S) (n : Nat) (hg : x.d.g = g) :
    ∃ K : Nat, MemM env g (-(K : Int)) (-(K : Int)) (-(K : Int)) x (readString env x n).2.2 True ∧
      ((readString env x n).1 = .ok → (readString env x n).2.1.length ≤ K) := by
  obtain ⟨t1, hr⟩ := mem_reserve env x n hg
  rw [mem_readString_eq]
  cases (reserve env.maxStrLen x n).1 with
  | false => exact ⟨0, t1.weaken (by omega) (by omega) (by omega) (fun h => h), fun h => by cases h⟩
  | true =>
    simp only
    split
    · rename_i bs r heq
      obtain ⟨hl, hp⟩ := mem_readBytes_some heq
      have t2 := MemM.rd (env := env) (x := (reserve env.maxStrLen x n).2) r n t1.d.hg (by omega)
      exact ⟨n, (t1.trans trivial t2).weaken (by omega) (by omega) (by omega) (fun h => h), fun _ => by simp only; omega⟩
    · rename_i r heq
      have hp := mem_readBytes_le' heq
      have t2 := MemM.rd (env := env) (x := (reserve env.maxStrLen x n).2) r 0 t1.d.hg (by omega)
      exact ⟨0, (t1.trans trivial t2).weaken (by omega) (by omega) (by omega) (fun h => h), fun h => by cases h⟩

/-- storing a number: at most one (extension) slot -/
theorem mem_store (env : Env) {g : PL.Geo} (x : S) (l : Loc) (a : Arg) (gok : PL.GeoOK g) (hg : x.d.g = g)
    (ha : match a with | .uint _ | .sint _ | .f32 _ | .f64 _ => True | _ => False) :
    MemM env g 1 0 0 x (store x l a).2 ((store x l a).1 = .ok) := by
  unfold store
  simp only
  refine (MemM.step (env := env) x.r _ 0 (Nat.le_refl _) (mem_D_setArg_num x.d l a gok hg ha)).weaken
    (by omega) (by omega) (by omega) (fun q => ?_)
  cases hh : (x.d.setArg l a).1 with
  | true => rfl
  | false => rw [hh] at q; simp at q

/-! ## The statements, by fuel -/

/-- result of `parseVariant`: a value that is read completely consumed one byte more than the slots it took -/
def MemRV (env : Env) (g : PL.Geo) (x : S) (out : Code × S × Bool) : Prop :=
  MemM env g (if out.1 = .ok then -1 else 0) 0 0 x out.2.1 (out.1 = .ok)

/-- result of `readArray` / `readObject`: the first slot is paid by the header -/
def MemRA (env : Env) (g : PL.Geo) (x : S) (out : Code × S) : Prop :=
  MemM env g (if out.1 = .ok then 0 else 1) 0 0 x out.2 (out.1 = .ok)

def MemMV (env : Env) (g : PL.Geo) (fuel : Nat) : Prop := ∀ (limit : Nat) (l : Loc) (x : S), x.d.g = g →
  MemRV env g x (parseVariant env fuel limit l x)
def MemMA (env : Env) (g : PL.Geo) (fuel : Nat) : Prop := ∀ (limit : Nat) (l : Loc) (n : Nat) (x : S), x.d.g = g →
  MemRA env g x (readArray env fuel limit l n x)
def MemMO (env : Env) (g : PL.Geo) (fuel : Nat) : Prop := ∀ (limit : Nat) (l : Loc) (n : Nat) (x : S), x.d.g = g →
  MemRA env g x (readObject env fuel limit l n x)

/-- a leaf: at least the format byte was consumed, nothing was allocated -/
theorem mem_rv_leaf {env : Env} {g : PL.Geo} {x : S} (c : Code) (r' : R) (d' : Doc) (b : Bool) (hg : x.d.g = g)
    (hr : x.r.pos + 1 ≤ r'.pos) (hd : MemP x.d d') : MemRV env g x (c, ⟨r', d', x.b⟩, b) := by
  unfold MemRV
  refine (MemM.step (env := env) r' d' 1 hr (MemD.passive hg hd)).weaken ?_ (by omega) (by omega) (fun _ => trivial)
  split <;> omega

/-- closing a `parseVariant` branch: at least one byte more than slots -/
theorem mem_rv_of {env : Env} {g : PL.Geo} {ks kb kc : Int} {x x' : S} {P : Prop} (c : Code) (b : Bool)
    (h : MemM env g ks kb kc x x' P) (h1 : ks ≤ -1) (h2 : kb ≤ 0) (h3 : kc ≤ 0) (hp : c = .ok → P) :
    MemRV env g x (c, x', b) := by
  unfold MemRV
  refine h.weaken ?_ h2 h3 hp
  show ks ≤ if c = Code.ok then -1 else 0
  split <;> omega

/-- a collection: the header byte pays for the first slot -/
theorem mem_rv_coll {env : Env} {g : PL.Geo} {kb kc : Int} {x x1 : S} (out : Code × S) (b : Bool)
    (h1 : MemM env g (-1) kb kc x x1 True) (h2 : MemRA env g x1 out) (hb : kb ≤ 0) (hc : kc ≤ 0) :
    MemRV env g x (out.1, out.2, b) := by
  unfold MemRV MemRA at *
  refine (h1.trans trivial h2).weaken ?_ (by omega) (by omega) (fun h => h)
  show (-1 : Int) + (if out.1 = Code.ok then 0 else 1) ≤ if out.1 = Code.ok then -1 else 0
  split <;> omega

/-- the size header of a value: its bytes were consumed -/
theorem mem_hdr {sb dflt : Nat} {r1 r2 : R} {o : Option (List Byte × Nat)}
    (h : (if sb > 0 then
            (match r1.readBytes sb with
             | (some bs, r) => (some (bs, beNat bs), r)
             | (none, r) => (none, r) : Option (List Byte × Nat) × R)
          else (some ([], dflt), r1)) = (o, r2)) :
    r1.pos ≤ r2.pos ∧ ∀ hb size, o = some (hb, size) → r1.pos + hb.length ≤ r2.pos := by
  split at h
  · split at h
    · rename_i bs r heq2
      obtain ⟨hl, hp⟩ := MD.mem_readBytes_some heq2
      simp only [Prod.mk.injEq] at h
      obtain ⟨rfl, rfl⟩ := h
      refine ⟨by omega, fun hb size h => ?_⟩
      simp only [Option.some.injEq, Prod.mk.injEq] at h
      obtain ⟨rfl, _⟩ := h
      omega
    · rename_i r heq2
      simp only [Prod.mk.injEq] at h
      obtain ⟨rfl, rfl⟩ := h
      exact ⟨MD.mem_readBytes_le' heq2, fun hb size h => by cases h⟩
  · simp only [Prod.mk.injEq] at h
    obtain ⟨rfl, rfl⟩ := h
    refine ⟨Nat.le_refl _, fun hb size h => ?_⟩
    simp only [Option.some.injEq, Prod.mk.injEq] at h
    obtain ⟨rfl, _⟩ := h
    simp

local macro "msplit" : tactic => `(tactic| refine MD.ite_elim (P := MemRV _ _ _) (fun _ => ?_) (fun _ => ?_))

set_option maxRecDepth 8000 in
theorem mem_mv_succ (env : Env) (g : PL.Geo) (gok : PL.GeoOK g) (f : Nat) (ihA : MemMA env g f) (ihO : MemMO env g f) :
    MemMV env g (f+1) := by
  intro limit l x hg
  simp only [parseVariant]
  split
  · rename_i r1 heq
    rw [MD.q_read_none heq]
    exact (MemM.rd (env := env) x.r 0 hg (Nat.le_refl _)).weaken (by simp) (by omega) (by omega) (fun _ => trivial)
  · rename_i code r1 heq
    have h1 := MD.mem_read_some heq
    have leaf : ∀ (c : Code) (r' : R) (d' : Doc), r1.pos ≤ r'.pos → MemP x.d d' →
        MemRV env g x (c, ⟨r', d', x.b⟩, true) :=
      fun c r' d' hr hd => mem_rv_leaf c r' d' true hg (by omega) hd
    have stored : ∀ (r' : R) (a : Arg) (w : Nat), r'.pos = r1.pos + w → 1 ≤ w →
        (match a with | .uint _ | .sint _ | .f32 _ | .f64 _ => True | _ => False) →
        MemRV env g x ((store ⟨r', x.d, x.b⟩ l a).1, (store ⟨r', x.d, x.b⟩ l a).2, true) := by
      intro r' a w hr hw ha
      have t1 := MemM.rd (env := env) (x := x) r' (1 + w) hg (by omega)
      have t2 := mem_store env ⟨r', x.d, x.b⟩ l a gok hg ha
      exact mem_rv_of _ true (t1.trans trivial t2) (by omega) (by omega) (by omega) (fun h => h)
    msplit
    · -- integers of 1, 2, 4, 8 bytes
      have hw : 1 ≤ 2 ^ ((code.toNat - 204) % 4) := Nat.one_le_two_pow
      split
      · rename_i bs r heq2
        obtain ⟨_, hp⟩ := MD.mem_readBytes_some heq2
        split
        · exact stored r _ _ hp hw trivial
        · exact stored r _ _ hp hw trivial
        · exact leaf _ r _ (by omega) (MemP.refl _)
      · rename_i r heq2
        exact leaf _ r _ (MD.mem_readBytes_le' heq2) (MemP.refl _)
    msplit
    · exact leaf _ r1 _ (Nat.le_refl _) (MemP.refl _)
    msplit
    · exact leaf _ r1 _ (Nat.le_refl _) (MemP.refl _)
    msplit
    · exact leaf _ r1 _ (Nat.le_refl _) (mem_P_set _ _ _)
    msplit
    · split
      · rename_i bs r heq2
        exact leaf _ r _ (MD.mem_readBytes_le' heq2) (mem_P_set _ _ _)
      · rename_i r heq2
        exact leaf _ r _ (MD.mem_readBytes_le' heq2) (MemP.refl _)
    msplit
    · split
      · rename_i bs r heq2
        obtain ⟨_, hp⟩ := MD.mem_readBytes_some heq2
        exact stored r _ 8 hp (by omega) trivial
      · rename_i r heq2
        exact leaf _ r _ (MD.mem_readBytes_le' heq2) (MemP.refl _)
    msplit
    · exact leaf _ r1 _ (Nat.le_refl _) (mem_P_set _ _ _)
    -- values with a size header
    split
    · rename_i r2 heq2
      exact leaf _ r2 _ (mem_hdr heq2).1 (MemP.refl _)
    · rename_i hb size r2 heq2
      obtain ⟨hr2, hhb⟩ := mem_hdr heq2
      have hhb := hhb hb size rfl
      clear heq2
      msplit
      · split
        · exact leaf _ r2 _ hr2 (MemP.refl _)
        · rename_i lim'
          have t1 := MemM.step (env := env) (x := x) r2 (x.d.set l (.arr x.d.null x.d.null)) 1 (by omega)
            (MemD.passive hg (mem_P_set _ _ _))
          exact mem_rv_coll _ true (t1.weaken (by omega) (Int.le_refl _) (Int.le_refl _) (fun h => h))
            (ihA lim' l size _ t1.d.hg) (by omega) (by omega)
      msplit
      · split
        · exact leaf _ r2 _ hr2 (MemP.refl _)
        · rename_i lim'
          have t1 := MemM.step (env := env) (x := x) r2 (x.d.set l (.obj x.d.null x.d.null)) 1 (by omega)
            (MemD.passive hg (mem_P_set _ _ _))
          exact mem_rv_coll _ true (t1.weaken (by omega) (Int.le_refl _) (Int.le_refl _) (fun h => h))
            (ihO lim' l size _ t1.d.hg) (by omega) (by omega)
      msplit
      · -- strings
        have t1 := MemM.rd (env := env) (x := x) r2 1 hg (by omega)
        obtain ⟨K, t2, hK⟩ := mem_readString env ⟨r2, x.d, x.b⟩ size hg
        split
        · rename_i bs x' heq3
          rw [heq3] at t2 hK
          simp only at t2 hK
          have hK' := hK trivial
          have t3 := mem_save env x' bs t2.d.hg
          have t4 := MemM.step (env := env) (x := (save x' bs).2) (save x' bs).2.r
            ((save x' bs).2.d.set l (.owned (save x' bs).1)) 0 (Nat.le_refl _)
            (MemD.passive t3.d.hg (mem_P_set _ l _))
          exact mem_rv_of _ true (((t1.trans trivial t2).trans trivial t3).trans trivial t4)
            (by omega) (by omega) (by omega) (fun _ => trivial)
        · rename_i e bs x' hne heq3
          rw [heq3] at t2
          exact mem_rv_of _ true (t1.trans trivial t2) (by omega) (by omega) (by omega) (fun _ => trivial)
      · -- binary and extension values, stored with their header
        have t1 := MemM.rd (env := env) (x := x) r2 (1 + hb.length) hg (by omega)
        generalize htot : (1 + (if (UInt8.toNat code == 196 || UInt8.toNat code == 199 || UInt8.toNat code == 217) = true then 1
          else if (UInt8.toNat code == 197 || UInt8.toNat code == 200 || UInt8.toNat code == 218 ||
              UInt8.toNat code == 220 || UInt8.toNat code == 222) = true then 2
          else if (UInt8.toNat code == 198 || UInt8.toNat code == 201 || UInt8.toNat code == 219 ||
              UInt8.toNat code == 221 || UInt8.toNat code == 223) = true then 4 else 0) +
          if (if (decide (212 ≤ UInt8.toNat code) && decide (UInt8.toNat code ≤ 216)) = true then
                (2 ^ (UInt8.toNat code - 212), true)
              else (0, decide (199 ≤ UInt8.toNat code) && decide (UInt8.toNat code ≤ 201))).snd = true then size + 1
          else size) = total
        generalize hsz : (if (if (decide (212 ≤ UInt8.toNat code) && decide (UInt8.toNat code ≤ 216)) = true then
                (2 ^ (UInt8.toNat code - 212), true)
              else (0, decide (199 ≤ UInt8.toNat code) && decide (UInt8.toNat code ≤ 201))).snd = true then size + 1
          else size) = sz
        obtain ⟨t2, hr⟩ := mem_reserve env ⟨r2, x.d, x.b⟩ total hg
        split
        · rename_i x' heq3
          rw [heq3] at t2
          exact mem_rv_of _ true (t1.trans trivial t2) (by omega) (by omega) (by omega) (fun _ => trivial)
        · rename_i x' heq3
          rw [heq3] at t2 hr
          simp only at t2 hr
          split
          · rename_i bs r heq4
            obtain ⟨hl, hp⟩ := MD.mem_readBytes_some heq4
            have t3 := MemM.rd (env := env) (x := x') r sz t2.d.hg (by omega)
            have t4 := mem_save env ⟨r, x'.d, x'.b⟩ (code :: hb ++ bs) t2.d.hg
            have t5 := MemM.step (env := env) (x := (save ⟨r, x'.d, x'.b⟩ (code :: hb ++ bs)).2)
              (save ⟨r, x'.d, x'.b⟩ (code :: hb ++ bs)).2.r
              ((save ⟨r, x'.d, x'.b⟩ (code :: hb ++ bs)).2.d.set l (.raw (save ⟨r, x'.d, x'.b⟩ (code :: hb ++ bs)).1)) 0
              (Nat.le_refl _) (MemD.passive t4.d.hg (mem_P_set _ l _))
            have hlen : (code :: hb ++ bs).length = 1 + hb.length + sz := by
              simp only [List.length_cons, List.length_append]; omega
            rw [hlen] at t4
            exact mem_rv_of _ true ((((t1.trans trivial t2).trans trivial t3).trans trivial t4).trans trivial t5)
              (by omega) (by omega) (by omega) (fun _ => trivial)
          · rename_i r heq4
            have hp := MD.mem_readBytes_le' heq4
            have t3 := MemM.rd (env := env) (x := x') r 0 t2.d.hg (by omega)
            exact mem_rv_of _ true ((t1.trans trivial t2).trans trivial t3) (by omega) (by omega) (by omega)
              (fun _ => trivial)

/-- closing a `readArray` / `readObject` branch that stops -/
theorem mem_ra_of {env : Env} {g : PL.Geo} {ks kb kc : Int} {x x' : S} {P : Prop} (c : Code)
    (h : MemM env g ks kb kc x x' P) (h1 : ks ≤ 1) (h1' : c = .ok → ks ≤ 0) (h2 : kb ≤ 0) (h3 : kc ≤ 0) (hp : c = .ok → P) :
    MemRA env g x (c, x') := by
  unfold MemRA
  refine h.weaken ?_ h2 h3 hp
  show ks ≤ if c = Code.ok then 0 else 1
  split
  · rename_i hc; exact h1' hc
  · exact h1

/-- going round the loop: the step before the recursive call is paid -/
theorem mem_ra_loop {env : Env} {g : PL.Geo} {ks kb kc : Int} {x x1 : S} (out : Code × S)
    (h1 : MemM env g ks kb kc x x1 True) (h2 : MemRA env g x1 out) (hs : ks ≤ 0) (hb : kb ≤ 0) (hc : kc ≤ 0) :
    MemRA env g x out := by
  unfold MemRA at *
  refine (h1.trans trivial h2).weaken ?_ (by omega) (by omega) (fun h => h)
  show ks + (if out.1 = Code.ok then 0 else 1) ≤ if out.1 = Code.ok then 0 else 1
  split <;> omega

theorem mem_ma_succ (env : Env) (g : PL.Geo) (gok : PL.GeoOK g) (f : Nat) (ihV : MemMV env g f) (ihA : MemMA env g f) :
    MemMA env g (f+1) := by
  intro limit l n x hg
  simp only [readArray]
  refine MD.ite_elim (P := MemRA env g x) (fun _ => ?_) (fun _ => ?_)
  · exact mem_ra_of _ (MemM.rd (env := env) x.r 0 hg (Nat.le_refl _)) (by omega) (fun _ => by omega) (by omega) (by omega)
      (fun _ => trivial)
  · have t1 := MemM.step (env := env) (x := x) x.r (x.d.addElement l).2 0 (Nat.le_refl _) (mem_D_addElement x.d l gok hg)
    split
    · rename_i d1 heq
      rw [heq] at t1
      exact mem_ra_of _ t1 (by omega) (fun h => by cases h) (by omega) (by omega) (fun h => by cases h)
    · rename_i id d1 heq
      rw [heq] at t1
      simp only at t1
      have t2 := ihV limit (.slot id) ⟨x.r, d1, x.b⟩ t1.d.hg
      unfold MemRV at t2
      split
      · rename_i x2 b2 heq2
        rw [heq2] at t2
        simp only [if_true] at t2
        exact mem_ra_loop _ ((t1.trans rfl t2).weaken (Int.le_refl _) (Int.le_refl _) (Int.le_refl _) (fun _ => trivial)) (ihA limit l (n - 1) x2 t2.d.hg) (by omega) (by omega) (by omega)
      · rename_i e x2 b2 hne heq2
        rw [heq2] at t2
        have he : e ≠ .ok := fun h => hne (by rw [h])
        simp only [if_neg he] at t2
        exact mem_ra_of _ (t1.trans rfl t2) (by omega) (fun h => absurd h he) (by omega) (by omega) (fun h => h)

/-- the length header of a key: its bytes were consumed -/
theorem mem_keyLen {b1 b2 : Bool} {k w : Nat} {r1 r2 : R} {o : Option (Option Nat)}
    (h : (if b1 = true then (some (some k), r1)
          else if b2 = true then
            (match r1.readBytes w with
             | (some bs, r) => (some (some (beNat bs)), r)
             | (none, r) => (some none, r) : Option (Option Nat) × R)
          else (none, r1)) = (o, r2)) : r1.pos ≤ r2.pos := by
  split at h
  · simp only [Prod.mk.injEq] at h; obtain ⟨_, rfl⟩ := h; exact Nat.le_refl _
  · split at h
    · split at h
      · rename_i bs r heq2
        simp only [Prod.mk.injEq] at h; obtain ⟨_, rfl⟩ := h
        exact MD.mem_readBytes_le' heq2
      · rename_i r heq2
        simp only [Prod.mk.injEq] at h; obtain ⟨_, rfl⟩ := h
        exact MD.mem_readBytes_le' heq2
    · simp only [Prod.mk.injEq] at h; obtain ⟨_, rfl⟩ := h; exact Nat.le_refl _

set_option maxRecDepth 8000 in
theorem mem_mo_succ (env : Env) (g : PL.Geo) (gok : PL.GeoOK g) (f : Nat) (ihV : MemMV env g f) (ihO : MemMO env g f) :
    MemMO env g (f+1) := by
  intro limit l n x hg
  simp only [readObject]
  refine MD.ite_elim (P := MemRA env g x) (fun _ => ?_) (fun _ => ?_)
  · exact mem_ra_of _ (MemM.rd (env := env) x.r 0 hg (Nat.le_refl _)) (by omega) (fun _ => by omega) (by omega) (by omega)
      (fun _ => trivial)
  split
  · rename_i r1 heq
    exact mem_ra_of _ (MemM.rd (env := env) r1 0 hg (by rw [MD.q_read_none heq]; exact Nat.le_refl _)) (by omega)
      (fun h => by cases h) (by omega) (by omega) (fun _ => trivial)
  · rename_i code r1 heq
    have h1 := MD.mem_read_some heq
    split
    · rename_i r2 heq2
      have h2 := mem_keyLen heq2
      exact mem_ra_of _ (MemM.rd (env := env) r2 0 hg (by omega)) (by omega) (fun h => by cases h) (by omega) (by omega)
        (fun _ => trivial)
    · rename_i r2 heq2
      have h2 := mem_keyLen heq2
      exact mem_ra_of _ (MemM.rd (env := env) r2 0 hg (by omega)) (by omega) (fun h => by cases h) (by omega) (by omega)
        (fun _ => trivial)
    · rename_i len r2 heq2
      have h2 := mem_keyLen heq2
      have t1 := MemM.rd (env := env) (x := x) r2 1 hg (by omega)
      obtain ⟨K, t2, hK⟩ := mem_readString env ⟨r2, x.d, x.b⟩ len hg
      split
      · rename_i key x1 heq3
        rw [heq3] at t2 hK
        simp only at t2 hK
        have hK' := hK trivial
        have t3 := mem_save env x1 key t2.d.hg
        have t4 := MemM.step (env := env) (x := (save x1 key).2) (save x1 key).2.r
          (JDD.addMemberNode (save x1 key).2.d l (save x1 key).1).2 0 (Nat.le_refl _)
          (mem_D_addMemberNode (save x1 key).2.d l (save x1 key).1 gok t3.d.hg)
        have t14 := ((t1.trans trivial t2).trans trivial t3).trans trivial t4
        split
        · rename_i d2 heq4
          rw [heq4] at t14
          exact mem_ra_of _ t14 (by omega) (fun h => by cases h) (by omega) (by omega) (fun h => by cases h)
        · rename_i v d2 heq4
          rw [heq4] at t14
          simp only at t14
          have t5 := ihV limit (.slot v) ⟨(save x1 key).2.r, d2, (save x1 key).2.b⟩ t14.d.hg
          unfold MemRV at t5
          split
          · rename_i x3 b3 heq5
            rw [heq5] at t5
            simp only [if_true] at t5
            exact mem_ra_loop _ ((t14.trans rfl t5).weaken (Int.le_refl _) (Int.le_refl _) (Int.le_refl _) (fun _ => trivial))
              (ihO limit l (n - 1) x3 t5.d.hg) (by omega) (by omega) (by omega)
          · rename_i e x3 b3 hne heq5
            rw [heq5] at t5
            have he : e ≠ .ok := fun h => hne (by rw [h])
            simp only [if_neg he] at t5
            exact mem_ra_of _ (t14.trans rfl t5) (by omega) (fun h => absurd h he) (by omega) (by omega) (fun h => h)
      · rename_i e key x1 hne heq3
        rw [heq3] at t2
        have he : e ≠ .ok := fun h => hne (by rw [h])
        exact mem_ra_of _ (t1.trans trivial t2) (by omega) (fun h => absurd h he) (by omega) (by omega) (fun _ => trivial)

theorem mem_mv_zero (env : Env) (g : PL.Geo) : MemMV env g 0 := by
  intro limit l x hg
  simp only [parseVariant]
  exact (MemM.rd (env := env) x.r 0 hg (Nat.le_refl _)).weaken (by simp) (by omega) (by omega) (fun _ => trivial)

theorem mem_ma_zero (env : Env) (g : PL.Geo) : MemMA env g 0 := by
  intro limit l n x hg
  simp only [readArray]
  exact mem_ra_of _ (MemM.rd (env := env) x.r 0 hg (Nat.le_refl _)) (by omega) (fun h => by cases h) (by omega) (by omega)
    (fun _ => trivial)

theorem mem_mo_zero (env : Env) (g : PL.Geo) : MemMO env g 0 := by
  intro limit l n x hg
  simp only [readObject]
  exact mem_ra_of _ (MemM.rd (env := env) x.r 0 hg (Nat.le_refl _)) (by omega) (fun h => by cases h) (by omega) (by omega)
    (fun _ => trivial)

/-- the accounting through the whole mutual block, for every fuel -/
theorem mem_mp_all (env : Env) (g : PL.Geo) (gok : PL.GeoOK g) :
    ∀ fuel, MemMV env g fuel ∧ MemMA env g fuel ∧ MemMO env g fuel := by
  intro fuel
  induction fuel with
  | zero => exact ⟨mem_mv_zero env g, mem_ma_zero env g, mem_mo_zero env g⟩
  | succ f ih =>
    obtain ⟨ihV, ihA, ihO⟩ := ih
    exact ⟨mem_mv_succ env g gok f ihA ihO, mem_ma_succ env g gok f ihV ihA, mem_mo_succ env g gok f ihV ihO⟩

/-! ## `run` -/

/-- the state in which the MessagePack parser stops (StringBuffer alive) -/
def memStop (env : Env) (limit : Nat) (d : Doc) (input : List Byte) : Code × S × Bool :=
  parseVariant env (2 * input.length + 4) limit .root { r := { unread := input }, d := d.clearAll }

/-- the document when the deserializer object has been destroyed, before the pools are shrunk -/
def memPre (env : Env) (limit : Nat) (d : Doc) (input : List Byte) : Doc :=
  match (memStop env limit d input).2.1.b with
  | some _ => { (memStop env limit d input).2.1.d with pl := (memStop env limit d input).2.1.d.pl.dealloc }
  | none => (memStop env limit d input).2.1.d

theorem mem_run_eq (env : Env) (limit : Nat) (d : Doc) (input : List Byte) :
    run env limit d input =
      ((if (memStop env limit d input).2.2 then (memStop env limit d input).1 else .empty),
        { memPre env limit d input with pl := PL.shrink (memPre env limit d input).g (memPre env limit d input).pl },
        (memStop env limit d input).2.1.r.pos) := rfl

/-- what the accounting says about a state reached after `n` bytes were taken from the input -/
structure MemStopM (env : Env) (g : PL.Geo) (x : S) (n : Nat) (ok : Prop) : Prop where
  hg : x.d.g = g
  slots : PL.memSlots x.d.pl ≤ n
  sbytes : memStrBytes x.d ≤ n
  scount : x.d.strings.length ≤ n
  always : PL.MemA g x.d.pl
  weak : PL.MemW g x.d.pl
  strong : ok → PL.MemS g x.d.pl
  buf : ∀ cap, x.b = some cap → cap ≤ env.maxStrLen

/-- MAIN (state in which the parser stops): for every input - whatever its headers announce - and failure schedule -/
theorem mem_stop (env : Env) (limit : Nat) (d : Doc) (input : List Byte) (gok : PL.GeoOK d.g) :
    MemStopM env d.g (memStop env limit d input).2.1 (memStop env limit d input).2.1.r.pos
      ((memStop env limit d input).1 = .ok) ∧
    (memStop env limit d input).2.1.d.strOverhead = d.strOverhead := by
  obtain ⟨a, b, c, e, f⟩ := JDD.mem_clearAll_start d
  have T := (mem_mp_all env d.g gok (2 * input.length + 4)).1 limit .root
    { r := { unread := input }, d := d.clearAll } e
  unfold MemRV at T
  change MemM env d.g _ 0 0 _ (memStop env limit d input).2.1 ((memStop env limit d input).1 = .ok) at T
  have h0 : PL.memSlots d.clearAll.pl = 0 := by unfold PL.memSlots; rw [a]; rfl
  have h1 : memStrBytes d.clearAll = 0 := by unfold memStrBytes; rw [c]; rfl
  have h2 : d.clearAll.strings.length = 0 := by rw [c]; rfl
  have hS := T.d.strong (PL.mem_nil_S a)
  have hk : (if (memStop env limit d input).1 = Code.ok then (-1 : Int) else 0) ≤ 0 := by split <;> omega
  refine ⟨⟨T.d.hg, ?_, ?_, ?_, T.d.always (PL.mem_nil_A a b), hS.1, hS.2, ?_⟩, T.d.ovh.trans f⟩
  · have := T.d.slots
    simp only at this
    rw [h0] at this
    show PL.memSlots _ ≤ _
    omega
  · have := T.d.sbytes
    simp only at this
    rw [h1] at this
    show memStrBytes _ ≤ _
    omega
  · have := T.d.scount
    simp only at this
    rw [h2] at this
    show List.length _ ≤ _
    omega
  · exact T.buf (fun c hc => by cases hc)

/-- the accounting carried to the document `run` returns -/
theorem mem_run_facts (env : Env) (limit : Nat) (d : Doc) (input : List Byte) (gok : PL.GeoOK d.g) :
    (run env limit d input).2.1.g = d.g ∧ (run env limit d input).2.1.strOverhead = d.strOverhead ∧
    PL.memSlots (run env limit d input).2.1.pl = PL.memSlots (memStop env limit d input).2.1.d.pl ∧
    (run env limit d input).2.1.strings = (memStop env limit d input).2.1.d.strings ∧
    PL.MemA d.g (run env limit d input).2.1.pl ∧ PL.MemW d.g (run env limit d input).2.1.pl ∧
    ((run env limit d input).2.1.pl.tableHeap = true →
      (run env limit d input).2.1.pl.tableCap = (run env limit d input).2.1.pl.pools.length) ∧
    (run env limit d input).2.2 = (memStop env limit d input).2.1.r.pos := by
  obtain ⟨ms, ho⟩ := mem_stop env limit d input gok
  have pe : MemP (memStop env limit d input).2.1.d (memPre env limit d input) ∧
      (memPre env limit d input).strings = (memStop env limit d input).2.1.d.strings := by
    unfold memPre
    cases (memStop env limit d input).2.1.b with
    | none => exact ⟨MemP.refl _, rfl⟩
    | some c => exact ⟨⟨rfl, rfl, rfl, rfl, rfl, List.Sublist.refl _⟩, rfl⟩
  obtain ⟨pe, pstr⟩ := pe
  have hgp : (memPre env limit d input).g = d.g := pe.g.trans ms.hg
  obtain ⟨s1, s2, s3, s4⟩ := PL.mem_shrink (memPre env limit d input).g (memPre env limit d input).pl
  have hAp : PL.MemA (memPre env limit d input).g (memPre env limit d input).pl := by
    rw [hgp]; exact ms.always.congr pe.pools pe.tcap pe.theap
  rw [mem_run_eq]
  refine ⟨hgp, pe.ovh.trans ho, ?_, pstr, ?_, ?_, s4, rfl⟩
  · show PL.memSlots (PL.shrink _ _) = _
    rw [s1, PL.mem_memSlots_congr pe.pools]
  · show PL.MemA d.g (PL.shrink _ _)
    have := s3 hAp
    generalize (memPre env limit d input).g = g' at hgp this ⊢
    subst hgp; exact this
  · show PL.MemW d.g (PL.shrink _ _)
    unfold PL.MemW
    rw [s1, s2, PL.mem_memSlots_congr pe.pools, pe.pools]
    exact ms.weak

/-! ## The reader stays inside the input -/

/-- consumed + unread = length of the input -/
def MemQ (n : Nat) (r : R) : Prop := r.pos + r.unread.length = n

theorem mem_q_read {n : Nat} {r r1 : R} {o : Option Byte} (h : MemQ n r) (e : r.read = (o, r1)) : MemQ n r1 := by
  unfold R.read at e
  unfold MemQ at *
  split at e
  · simp only [Prod.mk.injEq] at e; obtain ⟨_, rfl⟩ := e; exact h
  · rename_i c cs hu
    simp only [Prod.mk.injEq] at e
    obtain ⟨_, rfl⟩ := e
    simp only [hu, List.length_cons] at h ⊢
    omega

theorem mem_q_readBytes {n : Nat} {r r1 : R} {m : Nat} {o : Option (List Byte)} (h : MemQ n r)
    (e : r.readBytes m = (o, r1)) : MemQ n r1 := by
  have := (MD.q_readBytes (n := n) (k := n) m ⟨h, by unfold MemQ at h; omega⟩).1
  rw [e] at this; exact this

theorem mem_q_reserve {n : Nat} (maxLen : Nat) (x : S) (m : Nat) (h : MemQ n x.r) : MemQ n (reserve maxLen x m).2.r := by
  rw [mem_reserve_eq, (mem_fresh_spec maxLen _ m).2.1, (mem_drop_spec maxLen x m).2.1]; exact h

theorem mem_q_of_reserve {n maxLen m : Nat} {x x' : S} {b : Bool} (h : MemQ n x.r) (e : reserve maxLen x m = (b, x')) :
    MemQ n x'.r := by
  have := mem_q_reserve maxLen x m h; rw [e] at this; exact this

theorem mem_save_r (x : S) (bytes : List Byte) : (save x bytes).2.r = x.r := by
  unfold save
  split <;> rfl

theorem mem_q_readString {n : Nat} (env : Env) (x : S) (m : Nat) (h : MemQ n x.r) :
    MemQ n (readString env x m).2.2.r := by
  have h1 := mem_q_reserve env.maxStrLen x m h
  rw [mem_readString_eq]
  cases (reserve env.maxStrLen x m).1 with
  | false => exact h1
  | true =>
    simp only
    split
    · rename_i heq; exact mem_q_readBytes h1 heq
    · rename_i heq; exact mem_q_readBytes h1 heq

theorem mem_q_hdr {n sb dflt : Nat} {r1 r2 : R} {o : Option (List Byte × Nat)} (hq : MemQ n r1)
    (h : (if sb > 0 then
            (match r1.readBytes sb with
             | (some bs, r) => (some (bs, beNat bs), r)
             | (none, r) => (none, r) : Option (List Byte × Nat) × R)
          else (some ([], dflt), r1)) = (o, r2)) : MemQ n r2 := by
  split at h
  · split at h
    · rename_i heq2
      simp only [Prod.mk.injEq] at h; obtain ⟨_, rfl⟩ := h
      exact mem_q_readBytes hq heq2
    · rename_i heq2
      simp only [Prod.mk.injEq] at h; obtain ⟨_, rfl⟩ := h
      exact mem_q_readBytes hq heq2
  · simp only [Prod.mk.injEq] at h; obtain ⟨_, rfl⟩ := h; exact hq

theorem mem_q_keyLen {n : Nat} {b1 b2 : Bool} {k w : Nat} {r1 r2 : R} {o : Option (Option Nat)} (hq : MemQ n r1)
    (h : (if b1 = true then (some (some k), r1)
          else if b2 = true then
            (match r1.readBytes w with
             | (some bs, r) => (some (some (beNat bs)), r)
             | (none, r) => (some none, r) : Option (Option Nat) × R)
          else (none, r1)) = (o, r2)) : MemQ n r2 := by
  split at h
  · simp only [Prod.mk.injEq] at h; obtain ⟨_, rfl⟩ := h; exact hq
  · split at h
    · split at h
      · rename_i heq2
        simp only [Prod.mk.injEq] at h; obtain ⟨_, rfl⟩ := h
        exact mem_q_readBytes hq heq2
      · rename_i heq2
        simp only [Prod.mk.injEq] at h; obtain ⟨_, rfl⟩ := h
        exact mem_q_readBytes hq heq2
    · simp only [Prod.mk.injEq] at h; obtain ⟨_, rfl⟩ := h; exact hq

local macro "qsplit" : tactic =>
  `(tactic| refine MD.ite_elim (P := fun (out : Code × S × Bool) => MemQ _ out.2.1.r) (fun _ => ?_) (fun _ => ?_))

set_option maxRecDepth 8000 in
theorem mem_q_all (env : Env) (n : Nat) : ∀ fuel,
    (∀ limit l x, MemQ n x.r → MemQ n (parseVariant env fuel limit l x).2.1.r) ∧
    (∀ limit l m x, MemQ n x.r → MemQ n (readArray env fuel limit l m x).2.r) ∧
    (∀ limit l m x, MemQ n x.r → MemQ n (readObject env fuel limit l m x).2.r) := by
  intro fuel
  induction fuel with
  | zero =>
    refine ⟨?_, ?_, ?_⟩
    · intro limit l x h; simpa [parseVariant] using h
    · intro limit l m x h; simpa [readArray] using h
    · intro limit l m x h; simpa [readObject] using h
  | succ f ih =>
    obtain ⟨ihV, ihA, ihO⟩ := ih
    refine ⟨?_, ?_, ?_⟩
    · intro limit l x h
      simp only [parseVariant]
      split
      · rename_i heq; exact mem_q_read h heq
      · rename_i code r1 heq
        have h1 := mem_q_read h heq
        qsplit
        · split
          · rename_i heq2
            have h2 := mem_q_readBytes h1 heq2
            split <;> exact h2
          · rename_i heq2; exact mem_q_readBytes h1 heq2
        qsplit
        · exact h1
        qsplit
        · exact h1
        qsplit
        · exact h1
        qsplit
        · split <;> (rename_i heq2; exact mem_q_readBytes h1 heq2)
        qsplit
        · split <;> (rename_i heq2; exact mem_q_readBytes h1 heq2)
        qsplit
        · exact h1
        split
        · rename_i heq2; exact mem_q_hdr h1 heq2
        · rename_i hb size r2 heq2
          have h2 := mem_q_hdr h1 heq2
          clear heq2
          qsplit
          · split
            · exact h2
            · exact ihA _ _ _ ⟨r2, _, x.b⟩ h2
          qsplit
          · split
            · exact h2
            · exact ihO _ _ _ ⟨r2, _, x.b⟩ h2
          qsplit
          · have h3 := mem_q_readString env ⟨r2, x.d, x.b⟩ size h2
            split
            · rename_i heq3; rw [heq3] at h3
              show MemQ n (save _ _).2.r
              rw [mem_save_r]; exact h3
            · rename_i heq3; rw [heq3] at h3; exact h3
          · split
            · rename_i heq3
              exact mem_q_of_reserve (x := ⟨r2, x.d, x.b⟩) h2 heq3
            · rename_i x' heq3
              have h4 := mem_q_of_reserve (x := ⟨r2, x.d, x.b⟩) h2 heq3
              split
              · rename_i heq4
                show MemQ n (save _ _).2.r
                rw [mem_save_r]; exact mem_q_readBytes h4 heq4
              · rename_i heq4; exact mem_q_readBytes h4 heq4
    · intro limit l m x h
      simp only [readArray]
      refine MD.ite_elim (P := fun (out : Code × S) => MemQ n out.2.r) (fun _ => h) (fun _ => ?_)
      split
      · exact h
      · rename_i id d1 heq
        have h1 := ihV limit (.slot id) ⟨x.r, d1, x.b⟩ h
        split
        · rename_i heq2; rw [heq2] at h1; exact ihA _ _ _ _ h1
        · rename_i heq2; rw [heq2] at h1; exact h1
    · intro limit l m x h
      simp only [readObject]
      refine MD.ite_elim (P := fun (out : Code × S) => MemQ n out.2.r) (fun _ => h) (fun _ => ?_)
      split
      · rename_i heq; exact mem_q_read h heq
      · rename_i code r1 heq
        have h1 := mem_q_read h heq
        split
        · rename_i heq2; exact mem_q_keyLen h1 heq2
        · rename_i heq2; exact mem_q_keyLen h1 heq2
        · rename_i len r2 heq2
          have h2 := mem_q_keyLen h1 heq2
          have h3 := mem_q_readString env ⟨r2, x.d, x.b⟩ len h2
          split
          · rename_i key x1 heq3
            rw [heq3] at h3
            simp only at h3
            split
            · show MemQ n (save x1 key).2.r
              rw [mem_save_r]; exact h3
            · rename_i v d2 heq4
              have h4 := ihV limit (.slot v) ⟨(save x1 key).2.r, d2, (save x1 key).2.b⟩ (by rw [mem_save_r]; exact h3)
              split
              · rename_i heq5; rw [heq5] at h4; exact ihO _ _ _ _ h4
              · rename_i heq5; rw [heq5] at h4; exact h4
          · rename_i heq3; rw [heq3] at h3; exact h3

/-- never more bytes consumed than the input has -/
theorem mem_run_pos_le (env : Env) (limit : Nat) (d : Doc) (input : List Byte) :
    (run env limit d input).2.2 ≤ input.length := by
  have h0 : MemQ input.length ({ unread := input } : R) := by simp [MemQ]
  have h := (mem_q_all env input.length (2 * input.length + 4)).1 limit .root
    { r := { unread := input }, d := d.clearAll } h0
  rw [mem_run_eq]
  unfold MemQ at h
  show (memStop env limit d input).2.1.r.pos ≤ _
  unfold memStop
  omega

end MDD
