/- Simulation of the slot-level MessagePack deserializer `MDD` by the value-level one `MD`, part 3: the outcome relation
   `mpsim_Sim` and the simulation of every leaf of `parseVariant`. -/
import AJ.Lemmas.MddSimStep
import AJ.Lemmas.JddSim
set_option linter.unusedSimpArgs false
set_option linter.unusedVariables false
namespace MDD
open DL
open JD (Byte Val Code Flt)
open MD (R Env Hdr beNat)

/-- outcome relation between a slot-level routine and its abstract twin, started from the document `d0` at the place `l`:
    without an allocation failure the code (which is not `NoMemory`), the reader and the value built agree; with one the
    answer is `NoMemory` -/
def mpsim_Sim (env : Env) (d0 : Doc) (l : Loc) (r : Code × S) (r0 : Code × Val × R) : Prop :=
  (r.2.d.overflowed = false ∧ r.1 = r0.1 ∧ r.1 ≠ .noMemory ∧ r.2.r = r0.2.2 ∧ mpsim_BOK env r.2.b ∧
     ∃ v s, Post d0 r.2.d l v s ∧ r.2.d.valOf v s = r0.2.1) ∨
  (r.2.d.overflowed = true ∧ r.1 = .noMemory)

/-- the same for `parseVariant`, which also reports whether it found something -/
def mpsim_SimF (env : Env) (d0 : Doc) (l : Loc) (r : mpsim_VOut) (r0 : MD.VOut) : Prop :=
  mpsim_Sim env d0 l (r.1, r.2.1) (r0.1, r0.2.1, r0.2.2.1) ∧
  (r.2.1.d.overflowed = false → r.2.2 = r0.2.2.2) ∧ (r.2.1.d.overflowed = true → r.2.2 = true)

theorem mpsim_Sim.exit {env : Env} {d0 : Doc} {l : Loc} {e : Code} {x' : S} {val : Val} {r' : R} (hs : x'.r = r')
    (hb : mpsim_BOK env x'.b) (hP : ∃ v s, Post d0 x'.d l v s ∧ x'.d.valOf v s = val)
    (h0 : x'.d.overflowed = false) (he : e ≠ .noMemory) : mpsim_Sim env d0 l (e, x') (e, val, r') :=
  Or.inl ⟨h0, rfl, he, hs, hb, hP⟩

theorem mpsim_SimF.fin {env : Env} {d0 : Doc} {l : Loc} {p : Code × S} {e : Code} {v : Val} {r : R}
    (h : mpsim_Sim env d0 l p (e, v, r)) : mpsim_SimF env d0 l (mpsim_fin p) (MD.finV e v r) :=
  ⟨h, fun _ => rfl, fun _ => rfl⟩

theorem mpsim_SimF.ov {env : Env} {d0 : Doc} {l : Loc} (p : Code × S) (r0 : MD.VOut) (h : p.2.d.overflowed = true)
    (hc : p.1 = .noMemory) : mpsim_SimF env d0 l (mpsim_fin p) r0 :=
  ⟨Or.inr ⟨h, hc⟩, (fun h' => by rw [show (mpsim_fin p).2.1.d.overflowed = p.2.d.overflowed from rfl, h] at h'; cases h'),
    fun _ => rfl⟩

/-! ## Numbers -/

theorem mpsim_store_eq (x : S) (l : Loc) (a : Arg) :
    store x l a = ((if (x.d.setArg l a).1 then .ok else .noMemory), { x with d := (x.d.setArg l a).2 }) := rfl

/-- storing a number -/
theorem mpsim_store (env : Env) {x : S} {l : Loc} (P : Pre x.d l) (h0 : x.d.overflowed = false) (hb : mpsim_BOK env x.b)
    (a : Arg) (ha : (∃ n, a = .uint n) ∨ (∃ n, a = .sint n) ∨ (∃ b, a = .f32 b) ∨ (∃ b, a = .f64 b)) :
    mpsim_Sim env x.d l (store x l a) (.ok, argV a, x.r) := by
  rw [mpsim_store_eq]
  obtain ⟨v, s, hP, _, hcomp, _, _⟩ := setArg_res P a
  obtain ⟨g1, g2⟩ := JDD.sim_setArg_num l h0 ha
  cases ho : (x.d.setArg l a).2.overflowed with
  | false =>
    refine Or.inl ⟨ho, ?_, ?_, rfl, hb, v, s, hP, hcomp ho⟩
    · simp only [g1 ho, if_true]
    · simp only [g1 ho, if_true]; intro h; cases h
  | true =>
    refine Or.inr ⟨ho, ?_⟩
    simp only [g2 ho, Bool.false_eq_true, if_false]

theorem mpsim_readInteger_cases (bs : List Byte) (sg : Bool) :
    (∃ n, MD.readInteger bs sg = .num (.uint n)) ∨ (∃ n, MD.readInteger bs sg = .num (.sint n)) := by
  unfold MD.readInteger
  cases sg
  · exact Or.inl ⟨_, rfl⟩
  · exact Or.inr ⟨_, rfl⟩

theorem mpsim_leafFixed_all (w : Nat) (mk : List Byte → Val) (r : R) :
    MD.leafFixed (true && Flt.all.allowValue) w mk r =
      match r.readBytes w with
      | (some bs, r) => MD.finV .ok (mk bs) r
      | (none, r) => MD.finV .incomplete .null r := rfl

theorem mpsim_leafInt_sim (env : Env) {x : S} {l : Loc} (P : Pre x.d l) (h0 : x.d.overflowed = false)
    (hb : mpsim_BOK env x.b) (w c : Nat) :
    mpsim_SimF env x.d l (mpsim_leafInt l w c x)
      (MD.leafFixed (true && Flt.all.allowValue) w (fun bs => MD.readInteger bs (c ≥ 0xd0)) x.r) := by
  rw [mpsim_leafFixed_all]
  unfold mpsim_leafInt
  generalize x.r.readBytes w = rb
  obtain ⟨m, r'⟩ := rb
  cases m with
  | none =>
    exact mpsim_SimF.fin (mpsim_Sim.exit rfl hb (JDD.sim_null_post P (Fr.refl P.pool [])) h0 (fun h => by cases h))
  | some bs =>
    simp only
    rcases mpsim_readInteger_cases bs (decide (c ≥ 0xd0)) with ⟨n, e⟩ | ⟨n, e⟩
    · rw [e]
      exact mpsim_SimF.fin (mpsim_store env (x := { x with r := r' }) P h0 hb (.uint n) (Or.inl ⟨_, rfl⟩))
    · rw [e]
      exact mpsim_SimF.fin (mpsim_store env (x := { x with r := r' }) P h0 hb (.sint n) (Or.inr (Or.inl ⟨_, rfl⟩)))

theorem mpsim_leafF32_sim (env : Env) {x : S} {l : Loc} (P : Pre x.d l) (h0 : x.d.overflowed = false)
    (hb : mpsim_BOK env x.b) :
    mpsim_SimF env x.d l (mpsim_leafF32 l x)
      (MD.leafFixed (true && Flt.all.allowValue) 4 (fun bs => .num (.f32 (beNat bs))) x.r) := by
  rw [mpsim_leafFixed_all]
  unfold mpsim_leafF32
  generalize x.r.readBytes 4 = rb
  obtain ⟨m, r'⟩ := rb
  cases m with
  | none =>
    exact mpsim_SimF.fin (mpsim_Sim.exit rfl hb (JDD.sim_null_post P (Fr.refl P.pool [])) h0 (fun h => by cases h))
  | some bs =>
    obtain ⟨pp, pv⟩ := JDD.sim_post_plain (v' := .f32 (beNat bs)) P (Fr.refl P.pool []) (fun h => h) rfl rfl
    exact mpsim_SimF.fin (mpsim_Sim.exit rfl hb ⟨_, _, pp, pv⟩ (by rw [set_overflowed]; exact h0) (fun h => by cases h))

theorem mpsim_leafF64_sim (env : Env) {x : S} {l : Loc} (P : Pre x.d l) (h0 : x.d.overflowed = false)
    (hb : mpsim_BOK env x.b) :
    mpsim_SimF env x.d l (mpsim_leafF64 l x)
      (MD.leafFixed (true && Flt.all.allowValue) 8 (fun bs => .num (JD.storeDouble (beNat bs))) x.r) := by
  rw [mpsim_leafFixed_all]
  unfold mpsim_leafF64
  generalize x.r.readBytes 8 = rb
  obtain ⟨m, r'⟩ := rb
  cases m with
  | none =>
    exact mpsim_SimF.fin (mpsim_Sim.exit rfl hb (JDD.sim_null_post P (Fr.refl P.pool [])) h0 (fun h => by cases h))
  | some bs =>
    have := mpsim_store env (x := { x with r := r' }) P h0 hb (.f64 (beNat bs)) (Or.inr (Or.inr (Or.inr ⟨_, rfl⟩)))
    rw [show argV (.f64 (beNat bs)) = normF64 (beNat bs) from rfl, JDD.sim_normF64] at this
    exact mpsim_SimF.fin this

/-! ## Strings and binary values -/

theorem mpsim_leafSized_all (env : Env) (size : Nat) (mk : List Byte → Val) (r : R) :
    MD.leafSized (true && Flt.all.allowValue) (size > env.maxStrLen) size mk r =
      match mpsim_readStr0 env r size with
      | (.ok, bs, r) => MD.finV .ok (mk bs) r
      | (e, _, r) => MD.finV e .null r := by
  unfold MD.leafSized mpsim_readStr0
  rw [if_pos (show (true && Flt.all.allowValue) = true from rfl)]
  by_cases hbig : size > env.maxStrLen
  · rw [if_pos hbig, if_pos hbig]
  · rw [if_neg hbig, if_neg hbig]
    generalize r.readBytes size = rb
    obtain ⟨m, r'⟩ := rb
    cases m <;> rfl

theorem mpsim_leafStr_sim (env : Env) {x : S} {l : Loc} (P : Pre x.d l) (h0 : x.d.overflowed = false)
    (hb : mpsim_BOK env x.b) (size : Nat) :
    mpsim_SimF env x.d l (mpsim_leafStr env l size x)
      (MD.leafSized (true && Flt.all.allowValue) (size > env.maxStrLen) size (fun bs => .str bs) x.r) := by
  rw [mpsim_leafSized_all]
  obtain ⟨g, hr⟩ := mpsim_readString env x size P.pool hb h0
  unfold mpsim_leafStr
  generalize readString env x size = q at *
  generalize mpsim_readStr0 env x.r size = q0 at *
  obtain ⟨c, bs, y⟩ := q
  obtain ⟨c0, bs0, r0⟩ := q0
  simp only at g hr ⊢
  rcases hr with ⟨ov, hc⟩ | ⟨ov, bk, hc, hne, hbs, hrr⟩
  · subst hc
    exact mpsim_SimF.ov (Code.noMemory, y) _ ov rfl
  · subst hc hbs hrr
    have hfr : Fr x.d y.d [] := Fr.of_grow g (fun h => by rw [h0] at h; cases h) []
    have P2 : Pre y.d l := JDD.sim_pre_of_fr P hfr
    cases c
    case ok =>
      simp only
      obtain ⟨s1, s2, s3, s4, s5, s6⟩ := mpsim_save env y bs P2.pool P2.str
      obtain ⟨pp, pv⟩ := JDD.sim_post_owned P (Fr.trans hfr s2 (fun _ h => by cases h)) s3
        (fun rs hs => s4 rs (hfr.strok rs hs))
      exact mpsim_SimF.fin (Or.inl ⟨by simp only [set_overflowed, s5, ov], rfl, (fun h => by cases h), s1, s6 bk, _, _, pp, pv⟩)
    all_goals exact mpsim_SimF.fin (mpsim_Sim.exit rfl bk (JDD.sim_null_post P hfr) ov hne)

theorem mpsim_leafBin_all (env : Env) (sizeBytes : Nat) (isExt : Bool) (size : Nat) (mk : List Byte → Val) (r : R) :
    MD.leafSized (true && Flt.all.allowValue) (1 + sizeBytes + MD.binSize isExt size > env.maxStrLen)
        (MD.binSize isExt size) mk r =
      if 1 + sizeBytes + MD.binSize isExt size > env.maxStrLen then MD.finV .noMemory .null r else
      match r.readBytes (MD.binSize isExt size) with
      | (some bs, r) => MD.finV .ok (mk bs) r
      | (none, r) => MD.finV .incomplete .null r := rfl

theorem mpsim_leafBin_sim (env : Env) {x : S} {l : Loc} (P : Pre x.d l) (h0 : x.d.overflowed = false)
    (hb : mpsim_BOK env x.b) (code : Byte) (sizeBytes : Nat) (isExt : Bool) (hdr : List Byte) (size : Nat) :
    mpsim_SimF env x.d l (mpsim_leafBin env l code sizeBytes isExt hdr size x)
      (MD.leafSized (true && Flt.all.allowValue) (1 + sizeBytes + MD.binSize isExt size > env.maxStrLen)
        (MD.binSize isExt size) (fun bs => .raw (code :: hdr ++ bs)) x.r) := by
  rw [mpsim_leafBin_all]
  unfold mpsim_leafBin
  show mpsim_SimF env x.d l
    (match reserve env.maxStrLen x (1 + sizeBytes + MD.binSize isExt size) with
      | (false, x) => mpsim_fin (.noMemory, x)
      | (true, x) =>
        match x.r.readBytes (MD.binSize isExt size) with
        | (some bs, r) =>
          mpsim_fin (.ok, { (save { x with r := r } (code :: hdr ++ bs)).2 with
            d := (save { x with r := r } (code :: hdr ++ bs)).2.d.set l (.raw (save { x with r := r } (code :: hdr ++ bs)).1) })
        | (none, r) => mpsim_fin (.incomplete, { x with r := r })) _
  obtain ⟨r1, r2, r3, r4⟩ := mpsim_reserve env x (1 + sizeBytes + MD.binSize isExt size) P.pool hb h0
  generalize reserve env.maxStrLen x (1 + sizeBytes + MD.binSize isExt size) = q at *
  obtain ⟨ok, y⟩ := q
  simp only at r1 r2 r3 r4 ⊢
  cases ok with
  | false => exact mpsim_SimF.ov (Code.noMemory, y) _ (r4 rfl) rfl
  | true =>
    obtain ⟨hle, ov, bk⟩ := r3 rfl
    simp only
    rw [if_neg (by omega), r1]
    have hfr : Fr x.d y.d [] := Fr.of_grow r2 (fun h => by rw [h0] at h; cases h) []
    have P2 : Pre y.d l := JDD.sim_pre_of_fr P hfr
    generalize x.r.readBytes (MD.binSize isExt size) = rb
    obtain ⟨m, r'⟩ := rb
    cases m with
    | none =>
      exact mpsim_SimF.fin (mpsim_Sim.exit rfl bk (JDD.sim_null_post P hfr) ov (fun h => by cases h))
    | some bs =>
      simp only
      obtain ⟨s1, s2, s3, s4, s5, s6⟩ := mpsim_save env { y with r := r' } (code :: hdr ++ bs) P2.pool P2.str
      obtain ⟨pp, pv⟩ := mpsim_post_raw P (Fr.trans hfr s2 (fun _ h => by cases h)) s3
        (fun rs hs => s4 rs (hfr.strok rs hs))
      exact mpsim_SimF.fin (Or.inl ⟨by simp only [set_overflowed, s5]; exact ov, rfl, (fun h => by cases h), s1, s6 bk, _, _, pp, pv⟩)

end MDD
