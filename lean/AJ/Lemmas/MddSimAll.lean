/- Simulation of the slot-level MessagePack deserializer `MDD` by the value-level one `MD`, part 4: the three mutual
   routines and the induction on the fuel. -/
import AJ.Lemmas.MddSim
set_option linter.unusedSimpArgs false
set_option linter.unusedVariables false
namespace MDD
open DL
open JD (Byte Val Code Flt)
open MD (R Env Hdr beNat)

/-- result of the abstract `readArray` as a value -/
def mpsim_arrOut (p : Code × List Val × R) : Code × Val × R := (p.1, .arr p.2.1, p.2.2)
/-- result of the abstract `readObject` as a value -/
def mpsim_objOut (p : Code × List (List Byte × Val) × R) : Code × Val × R := (p.1, .obj p.2.1, p.2.2)

def mpsim_SimV (env : Env) (fuel : Nat) : Prop :=
  ∀ (limit : Nat) (l : Loc) (x : S), Pre x.d l → x.d.overflowed = false → mpsim_BOK env x.b →
    mpsim_SimF env x.d l (MDD.parseVariant env fuel limit l x) (MD.parseVariant env fuel limit .all true x.r)

def mpsim_SimE (env : Env) (fuel : Nat) : Prop :=
  ∀ (limit : Nat) (l : Loc) (x : S) (d0 : Doc) (h t : Nat) (sl : Forest) (acc : List Val) (n : Nat),
    Pre d0 l → Post d0 x.d l (.arr h t) sl → (vals x.d noOv sl).map (·.2) = acc.reverse →
    x.d.overflowed = false → mpsim_BOK env x.b →
    mpsim_Sim env d0 l (MDD.readArray env fuel limit l n x) (mpsim_arrOut (MD.readArray env fuel limit .all true n x.r acc))

def mpsim_SimM (env : Env) (fuel : Nat) : Prop :=
  ∀ (limit : Nat) (l : Loc) (x : S) (d0 : Doc) (h t : Nat) (sl : Forest) (ms : List (List Byte × Val)) (n : Nat),
    Pre d0 l → Post d0 x.d l (.obj h t) sl → vals x.d noOv sl = ms →
    x.d.overflowed = false → mpsim_BOK env x.b →
    mpsim_Sim env d0 l (MDD.readObject env fuel limit l n x) (mpsim_objOut (MD.readObject env fuel limit .all true n x.r ms))

/-! ## `parseVariant` -/

theorem mpsim_leafArr_all (env : Env) (fuel limit : Nat) (size : Nat) (r : R) :
    MD.leafArr env fuel limit .all true size r =
      match limit with
      | 0 => MD.finV .tooDeep .null r
      | limit'+1 => MD.finV (MD.readArray env fuel limit' .all true size r []).1
          (.arr (MD.readArray env fuel limit' .all true size r []).2.1) (MD.readArray env fuel limit' .all true size r []).2.2 := by
  cases limit <;> rfl

theorem mpsim_leafMap_all (env : Env) (fuel limit : Nat) (size : Nat) (r : R) :
    MD.leafMap env fuel limit .all true size r =
      match limit with
      | 0 => MD.finV .tooDeep .null r
      | limit'+1 => MD.finV (MD.readObject env fuel limit' .all true size r []).1
          (.obj (MD.readObject env fuel limit' .all true size r []).2.1) (MD.readObject env fuel limit' .all true size r []).2.2 := by
  cases limit <;> rfl

theorem mpsim_leafArr_sim (env : Env) (fuel : Nat) (hE : mpsim_SimE env fuel) {x : S} {l : Loc} (P : Pre x.d l)
    (h0 : x.d.overflowed = false) (hb : mpsim_BOK env x.b) (limit size : Nat) :
    mpsim_SimF env x.d l (mpsim_leafArr env fuel limit l size x) (MD.leafArr env fuel limit .all true size x.r) := by
  rw [mpsim_leafArr_all]
  unfold mpsim_leafArr
  cases limit with
  | zero =>
    exact mpsim_SimF.fin (mpsim_Sim.exit rfl hb (JDD.sim_null_post P (Fr.refl P.pool [])) h0 (fun h => by cases h))
  | succ limit' =>
    have hov : (x.d.set l (.arr x.d.null x.d.null)).overflowed = false := by rw [set_overflowed]; exact h0
    exact mpsim_SimF.fin (hE limit' l { x with d := x.d.set l (.arr x.d.null x.d.null) } x.d _ _ .nil [] size P
      (JDD.sim_post_coll false P).1 rfl hov hb)

theorem mpsim_leafMap_sim (env : Env) (fuel : Nat) (hM : mpsim_SimM env fuel) {x : S} {l : Loc} (P : Pre x.d l)
    (h0 : x.d.overflowed = false) (hb : mpsim_BOK env x.b) (limit size : Nat) :
    mpsim_SimF env x.d l (mpsim_leafMap env fuel limit l size x) (MD.leafMap env fuel limit .all true size x.r) := by
  rw [mpsim_leafMap_all]
  unfold mpsim_leafMap
  cases limit with
  | zero =>
    exact mpsim_SimF.fin (mpsim_Sim.exit rfl hb (JDD.sim_null_post P (Fr.refl P.pool [])) h0 (fun h => by cases h))
  | succ limit' =>
    have hov : (x.d.set l (.obj x.d.null x.d.null)).overflowed = false := by rw [set_overflowed]; exact h0
    exact mpsim_SimF.fin (hM limit' l { x with d := x.d.set l (.obj x.d.null x.d.null) } x.d _ _ .nil [] size P
      (JDD.sim_post_coll true P).1 rfl hov hb)

theorem mpsim_pv_zero (env : Env) : mpsim_SimV env 0 := by
  intro limit l x P h0 hb
  simp only [MDD.parseVariant, MD.parseVariant]
  exact ⟨mpsim_Sim.exit rfl hb (JDD.sim_null_post P (Fr.refl P.pool [])) h0 (fun h => by cases h), fun _ => rfl, fun _ => rfl⟩

theorem mpsim_pv_step (env : Env) (fuel : Nat) (hE : mpsim_SimE env fuel) (hM : mpsim_SimM env fuel) :
    mpsim_SimV env (fuel + 1) := by
  intro limit l x P h0 hb
  have hfr0 : Fr x.d x.d [] := Fr.refl P.pool []
  rw [mpsim_parseVariant_step, MD.parseVariant_step]
  generalize x.r.read = rd
  obtain ⟨_ | code, r0⟩ := rd
  · exact ⟨mpsim_Sim.exit rfl hb (JDD.sim_null_post P hfr0) h0 (fun h => by cases h), fun _ => rfl,
      fun h => absurd (show x.d.overflowed = true from h) (by rw [h0]; simp)⟩
  simp only
  cases MD.classify code r0 with
  | int w c => exact mpsim_leafInt_sim env (x := { x with r := r0 }) P h0 hb w c
  | nil => exact mpsim_SimF.fin (mpsim_Sim.exit rfl hb (JDD.sim_null_post P hfr0) h0 (fun h => by cases h))
  | invalid => exact mpsim_SimF.fin (mpsim_Sim.exit rfl hb (JDD.sim_null_post P hfr0) h0 (fun h => by cases h))
  | bool c =>
    obtain ⟨pp, pv⟩ := JDD.sim_post_plain (v' := .bool (c == 0xc3)) P hfr0 (fun h => h) rfl rfl
    exact mpsim_SimF.fin (mpsim_Sim.exit (x' := { r := r0, d := x.d.set l (.bool (c == 0xc3)), b := x.b }) rfl hb
      ⟨_, _, pp, pv⟩ (by rw [set_overflowed]; exact h0) (fun h => by cases h))
  | f32 => exact mpsim_leafF32_sim env (x := { x with r := r0 }) P h0 hb
  | f64 => exact mpsim_leafF64_sim env (x := { x with r := r0 }) P h0 hb
  | fix c =>
    obtain ⟨pp, pv⟩ := JDD.sim_post_plain (v' := .i32 (if c ≥ 0x80 then (c : Int) - 256 else c)) P hfr0 (fun h => h) rfl rfl
    exact mpsim_SimF.fin (mpsim_Sim.exit
      (x' := { r := r0, d := x.d.set l (.i32 (if c ≥ 0x80 then (c : Int) - 256 else c)), b := x.b }) rfl hb
      ⟨_, _, pp, pv⟩ (by rw [set_overflowed]; exact h0) (fun h => by cases h))
  | inc r => exact mpsim_SimF.fin (mpsim_Sim.exit rfl hb (JDD.sim_null_post P hfr0) h0 (fun h => by cases h))
  | arr size r => exact mpsim_leafArr_sim env fuel hE (x := { x with r := r }) P h0 hb limit size
  | map size r => exact mpsim_leafMap_sim env fuel hM (x := { x with r := r }) P h0 hb limit size
  | str size r => exact mpsim_leafStr_sim env (x := { x with r := r }) P h0 hb size
  | bin sizeBytes isExt hdr size r => exact mpsim_leafBin_sim env (x := { x with r := r }) P h0 hb code sizeBytes isExt hdr size

/-! ## `readArray` -/

theorem mpsim_readArray0_succ (env : Env) (fuel limit n : Nat) (r : R) (acc : List Val) :
    MD.readArray env (fuel+1) limit .all true n r acc =
      if n == 0 then (.ok, acc.reverse, r) else
      match MD.parseVariant env fuel limit .all true r with
      | (.ok, v, r, _) => MD.readArray env fuel limit .all true (n - 1) r (v :: acc)
      | (e, v, r, _) => (e, (v :: acc).reverse, r) := by
  simp only [MD.readArray]
  rfl

theorem mpsim_pe_zero (env : Env) : mpsim_SimE env 0 := by
  intro limit l x d0 h t sl acc n P0 P hvals h0 hb
  simp only [MDD.readArray, MD.readArray]
  exact mpsim_Sim.exit rfl hb (JDD.sim_arr_post P hvals) h0 (fun h => by cases h)

theorem mpsim_pe_step (env : Env) (fuel : Nat) (hV : mpsim_SimV env fuel) (hE : mpsim_SimE env fuel) :
    mpsim_SimE env (fuel + 1) := by
  intro limit l x d0 h t sl acc n P0 P hvals h0 hb
  have gokd : PL.GeoOK x.d.g := by rw [P.fr.g]; exact P0.gok
  rw [mpsim_readArray_succ, mpsim_readArray0_succ]
  by_cases hn : (n == 0) = true
  · rw [if_pos hn, if_pos hn]
    exact mpsim_Sim.exit rfl hb (JDD.sim_arr_post P hvals) h0 (fun h => by cases h)
  rw [if_neg hn, if_neg hn]
  generalize hadd : x.d.addElement l = r
  obtain ⟨m, d1⟩ := r
  cases m with
  | none =>
    simp only
    have := (allocVariant_none gokd P.fr.pool (JDD.sim_addElement_none hadd)).2.1
    exact Or.inr ⟨this, rfl⟩
  | some id =>
    simp only
    obtain ⟨pre1, hov1, hstep⟩ := JDD.sim_arr_step P0 P hadd
    have hsim := hV limit (.slot id) { r := x.r, d := d1, b := x.b } pre1 (by rw [hov1]; exact h0) hb
    generalize MDD.parseVariant env fuel limit (.slot id) { r := x.r, d := d1, b := x.b } = rv at hsim
    generalize MD.parseVariant env fuel limit .all true x.r = rv0 at hsim
    obtain ⟨c, x2, f⟩ := rv
    obtain ⟨c0, v0, s0, f0⟩ := rv0
    obtain ⟨hsim, -, -⟩ := hsim
    rcases hsim with ⟨o2, hc, hne, hs2, hb2, ve, se, P2, hval⟩ | ⟨o2, hc⟩
    · simp only at o2 hc hne hs2 hb2 P2 hval
      subst hc hs2
      obtain ⟨Pn, hvn⟩ := hstep x2.d ve se P2
      rw [hval] at hvn
      have hvals' : (vals x2.d noOv (sl.snocS none id se)).map (·.2) = (v0 :: acc).reverse := by
        rw [hvn, List.map_append, hvals]; simp
      cases c
      case ok =>
        simp only
        exact hE limit l x2 d0 _ _ _ (v0 :: acc) (n - 1) P0 Pn hvals' o2 hb2
      all_goals exact mpsim_Sim.exit rfl hb2 (JDD.sim_arr_post Pn hvals') o2 hne
    · simp only at o2 hc
      subst hc
      exact Or.inr ⟨o2, rfl⟩

/-! ## `readObject` -/

def mpsim_roVal0 (env : Env) (fuel limit n : Nat) (key : List Byte) (r : R) (ms : List (List Byte × Val)) :
    Code × List (List Byte × Val) × R :=
  match MD.parseVariant env fuel limit .all true r with
  | (.ok, v, r, _) => MD.readObject env fuel limit .all true (n - 1) r (ms ++ [(key, v)])
  | (e, v, r, _) => (e, ms ++ [(key, v)], r)

def mpsim_roKey0 (env : Env) (fuel limit n len : Nat) (r : R) (ms : List (List Byte × Val)) :
    Code × List (List Byte × Val) × R :=
  match mpsim_readStr0 env r len with
  | (.ok, key, r) => mpsim_roVal0 env fuel limit n key r ms
  | (e, _, r) => (e, ms, r)

theorem mpsim_readObject0_step (env : Env) (fuel limit n : Nat) (r : R) (ms : List (List Byte × Val)) :
    MD.readObject env (fuel+1) limit .all true n r ms =
      if n == 0 then (.ok, ms, r) else
      match r.read with
      | (none, r) => (.incomplete, ms, r)
      | (some code, r) =>
        match MD.keyLenOf_d3 code r with
        | (none, r) => (.invalid, ms, r)
        | (some none, r) => (.incomplete, ms, r)
        | (some (some len), r) => mpsim_roKey0 env fuel limit n len r ms := by
  rw [MD.readObject_step]
  by_cases hn : (n == 0) = true
  · rw [if_pos hn, if_pos hn]
  rw [if_neg hn, if_neg hn]
  generalize r.read = rd
  obtain ⟨_ | code, r0⟩ := rd
  · rfl
  simp only
  generalize MD.keyLenOf_d3 code r0 = kl
  obtain ⟨_ | _ | len, r1⟩ := kl
  · rfl
  · rfl
  simp only
  unfold mpsim_roKey0 mpsim_readStr0
  by_cases hbig : len > env.maxStrLen
  · rw [if_pos hbig, if_pos hbig]
  rw [if_neg hbig, if_neg hbig]
  generalize r1.readBytes len = rb
  obtain ⟨_ | key, r2⟩ := rb
  · rfl
  · rfl

theorem mpsim_pm_zero (env : Env) : mpsim_SimM env 0 := by
  intro limit l x d0 h t sl ms n P0 P hvals h0 hb
  simp only [MDD.readObject, MD.readObject]
  exact mpsim_Sim.exit rfl hb (JDD.sim_obj_post P hvals) h0 (fun h => by cases h)

/-- the value of the member just added, then the remaining members -/
theorem mpsim_roVal (env : Env) (fuel : Nat) (hV : mpsim_SimV env fuel) (hM : mpsim_SimM env fuel) {limit n : Nat} {l : Loc}
    {v : Nat} {x : S} {d0 : Doc} {ms : List (List Byte × Val)} {key : List Byte} (P0 : Pre d0 l) (pre : Pre x.d (.slot v))
    (h0 : x.d.overflowed = false) (hb : mpsim_BOK env x.b)
    (hfill : ∀ (d2 : Doc) (ve : VData) (se : Forest), Post x.d d2 (.slot v) ve se →
      ∃ h' t' s', Post d0 d2 l (.obj h' t') s' ∧ vals d2 noOv s' = ms ++ [(key, d2.valOf ve se)]) :
    mpsim_Sim env d0 l (mpsim_roVal_f env fuel limit l n v x) (mpsim_objOut (mpsim_roVal0 env fuel limit n key x.r ms)) := by
  have hsim := hV limit (.slot v) x pre h0 hb
  unfold mpsim_roVal_f mpsim_roVal0
  generalize MDD.parseVariant env fuel limit (.slot v) x = rv at hsim
  generalize MD.parseVariant env fuel limit .all true x.r = rv0 at hsim
  obtain ⟨c, x2, f⟩ := rv
  obtain ⟨c0, v0, s0, f0⟩ := rv0
  obtain ⟨hsim, -, -⟩ := hsim
  rcases hsim with ⟨o2, hc, hne, hs2, hb2, ve, se, P2, hval⟩ | ⟨o2, hc⟩
  · simp only at o2 hc hne hs2 hb2 P2 hval
    subst hc hs2
    obtain ⟨h', t', s', Pn, hvn⟩ := hfill x2.d ve se P2
    rw [hval] at hvn
    cases c
    case ok =>
      simp only
      exact hM limit l x2 d0 _ _ _ _ (n - 1) P0 Pn hvn o2 hb2
    all_goals exact mpsim_Sim.exit rfl hb2 (JDD.sim_obj_post Pn hvn) o2 hne
  · simp only at o2 hc
    subst hc
    exact Or.inr ⟨o2, rfl⟩

/-- the key string, the new member, its value, the remaining members -/
theorem mpsim_roKey (env : Env) (fuel : Nat) (hV : mpsim_SimV env fuel) (hM : mpsim_SimM env fuel) {limit n len : Nat}
    {l : Loc} {x : S} {d0 : Doc} {h t : Nat} {sl : Forest} {ms : List (List Byte × Val)} (P0 : Pre d0 l)
    (P : Post d0 x.d l (.obj h t) sl) (hvals : vals x.d noOv sl = ms) (h0 : x.d.overflowed = false)
    (hb : mpsim_BOK env x.b) :
    mpsim_Sim env d0 l (mpsim_roKey_f env fuel limit l n len x) (mpsim_objOut (mpsim_roKey0 env fuel limit n len x.r ms)) := by
  obtain ⟨g, hr⟩ := mpsim_readString env x len P.fr.pool hb h0
  unfold mpsim_roKey_f mpsim_roKey0
  generalize readString env x len = q at *
  generalize mpsim_readStr0 env x.r len = q0 at *
  obtain ⟨c, key, y⟩ := q
  obtain ⟨c0, key0, r0⟩ := q0
  simp only at g hr ⊢
  rcases hr with ⟨ov, hc⟩ | ⟨ov, bk, hc, hne, hbs, hrr⟩
  · subst hc
    exact Or.inr ⟨ov, rfl⟩
  · subst hc hbs hrr
    have hfr : Fr x.d y.d [] := Fr.of_grow g (fun h => by rw [h0] at h; cases h) []
    obtain ⟨PK, hvK⟩ := P.frame P0 hfr
    have hvalsK : vals y.d noOv sl = ms := by
      have : Val.obj (vals y.d noOv sl) = Val.obj (vals x.d noOv sl) := hvK
      injection this with this
      rw [this, hvals]
    have gokd : PL.GeoOK y.d.g := by rw [PK.fr.g]; exact P0.gok
    obtain ⟨rs0, hrs0⟩ := P0.str
    have hsd := PK.att.str rs0 hrs0
    cases c
    case ok =>
      simp only
      obtain ⟨s1, s2, s3, s4, s5, s6⟩ := mpsim_save env y key PK.fr.pool ⟨_, hsd⟩
      generalize save y key = sv at *
      obtain ⟨node, x1⟩ := sv
      simp only at s1 s2 s3 s4 s5 s6 ⊢
      generalize hadd : JDD.addMemberNode x1.d l node = r
      obtain ⟨m, d1⟩ := r
      cases m with
      | none =>
        simp only
        exact Or.inr ⟨JDD.sim_addMemberNode_none (by rw [s2.g]; exact gokd) s2.pool hadd, rfl⟩
      | some v =>
        simp only
        obtain ⟨k, pre1, hov1, hfill⟩ := JDD.sim_obj_add P0 PK s2 s3 s4 s5 hadd
        have := mpsim_roVal env fuel hV hM (limit := limit) (n := n) (l := l) (v := v)
          (x := { r := x1.r, d := d1, b := x1.b }) (ms := ms) (key := key) P0 pre1 (by rw [hov1]; exact ov) (s6 bk)
          (fun d2 ve se P2 => by
            obtain ⟨Pn, hvn⟩ := hfill d2 ve se P2
            exact ⟨_, _, _, Pn, by rw [hvn, hvalsK]⟩)
        rw [← s1]
        exact this
    all_goals exact mpsim_Sim.exit rfl bk (JDD.sim_obj_post PK hvalsK) ov hne

theorem mpsim_pm_step (env : Env) (fuel : Nat) (hV : mpsim_SimV env fuel) (hM : mpsim_SimM env fuel) :
    mpsim_SimM env (fuel + 1) := by
  intro limit l x d0 h t sl ms n P0 P hvals h0 hb
  have hP := JDD.sim_obj_post P hvals
  rw [mpsim_readObject_step, mpsim_readObject0_step]
  by_cases hn : (n == 0) = true
  · rw [if_pos hn, if_pos hn]
    exact mpsim_Sim.exit rfl hb hP h0 (fun h => by cases h)
  rw [if_neg hn, if_neg hn]
  generalize x.r.read = rd
  obtain ⟨_ | code, r0⟩ := rd
  · exact mpsim_Sim.exit rfl hb hP h0 (fun h => by cases h)
  simp only
  generalize MD.keyLenOf_d3 code r0 = kl
  obtain ⟨_ | _ | len, r1⟩ := kl
  · exact mpsim_Sim.exit rfl hb hP h0 (fun h => by cases h)
  · exact mpsim_Sim.exit rfl hb hP h0 (fun h => by cases h)
  simp only
  exact mpsim_roKey env fuel hV hM (x := { x with r := r1 }) P0 P hvals h0 hb

/-- THE SIMULATION: for every fuel, the three slot-level routines are simulated by their abstract twins -/
theorem mpsim_all (env : Env) : ∀ fuel, mpsim_SimV env fuel ∧ mpsim_SimE env fuel ∧ mpsim_SimM env fuel := by
  intro fuel
  induction fuel with
  | zero => exact ⟨mpsim_pv_zero env, mpsim_pe_zero env, mpsim_pm_zero env⟩
  | succ n ih =>
    obtain ⟨hV, hE, hM⟩ := ih
    exact ⟨mpsim_pv_step env n hE hM, mpsim_pe_step env n hV hE, mpsim_pm_step env n hV hM⟩

end MDD
