/- Simulation of the slot-level MessagePack deserializer `MDD` by the value-level one `MD`, part 1: the StringBuffer model
   (`reserve`, `save`, `readString`) as steps of the local specification `Pre`/`Post`/`Fr` of AJ/Lemmas/DocCopy.lean.
   All names carry the prefix `mpsim_` (the JSON twin of this family is AJ/Lemmas/JddSim*.lean, prefix `sim_`). -/
import AJ.Model.MDD
import AJ.Lemmas.JddSimDoc
set_option linter.unusedSimpArgs false
set_option linter.unusedVariables false
namespace MDD
open DL
open JD (Byte Val Code)
open MD (R Env)

/-- capacity of the kept StringBuffer node never exceeds the maximal string length -/
def mpsim_BOK (env : Env) (b : Option Nat) : Prop := ∀ cap, b = some cap → cap ≤ env.maxStrLen

theorem mpsim_BOK_none (env : Env) : mpsim_BOK env none := fun _ h => by cases h

/-! ## `reserve` -/

theorem mpsim_reserve_keep (m : Nat) {x : S} {cap n : Nat} (hb : x.b = some cap) (hn : ¬ n > cap) :
    reserve m x n = (true, x) := by
  unfold reserve
  rw [hb]
  simp only [if_neg hn, hb]

theorem mpsim_reserve_none (m : Nat) {x : S} (n : Nat) (hb : x.b = none) :
    reserve m x n =
      if n > m then (false, { x with d := { x.d with overflowed := true } })
      else if (x.d.pl.alloc (n + x.d.strOverhead)).1 then
        (true, { x with d := { x.d with pl := (x.d.pl.alloc (n + x.d.strOverhead)).2 }, b := some n })
      else (false, { x with d := { x.d with pl := (x.d.pl.alloc (n + x.d.strOverhead)).2, overflowed := true } }) := by
  unfold reserve
  rw [hb]
  simp only [hb]

theorem mpsim_reserve_release (m : Nat) {x : S} {cap n : Nat} (hb : x.b = some cap) (hn : n > cap) :
    reserve m x n = reserve m { x with d := { x.d with pl := x.d.pl.dealloc }, b := none } n := by
  rw [mpsim_reserve_none m n (x := { x with d := { x.d with pl := x.d.pl.dealloc }, b := none }) rfl]
  unfold reserve
  rw [hb]
  simp only [if_pos hn]

/-- `reserve` on a document without a buffer -/
theorem mpsim_reserve_fresh (env : Env) (x : S) (n : Nat) (hp : PL.Inv x.d.g x.d.pl) (hb : x.b = none)
    (h0 : x.d.overflowed = false) :
    (reserve env.maxStrLen x n).2.r = x.r ∧ Grow x.d (reserve env.maxStrLen x n).2.d ∧
    ((reserve env.maxStrLen x n).1 = true → n ≤ env.maxStrLen ∧ (reserve env.maxStrLen x n).2.d.overflowed = false ∧
      mpsim_BOK env (reserve env.maxStrLen x n).2.b) ∧
    ((reserve env.maxStrLen x n).1 = false → (reserve env.maxStrLen x n).2.d.overflowed = true) := by
  rw [mpsim_reserve_none _ _ hb]
  by_cases hbig : n > env.maxStrLen
  · rw [if_pos hbig]
    exact ⟨rfl, JDD.sim_grow_pl hp x.d.pl true rfl rfl rfl rfl, (fun h => by cases h), fun _ => rfl⟩
  · rw [if_neg hbig]
    cases hok : (x.d.pl.alloc (n + x.d.strOverhead)).1 with
    | true =>
      rw [if_pos rfl]
      refine ⟨rfl, JDD.sim_grow_pl hp _ x.d.overflowed rfl rfl rfl rfl, fun _ => ⟨by omega, h0, ?_⟩,
        fun h => by cases h⟩
      intro cap hc
      simp only [Option.some.injEq] at hc
      omega
    | false =>
      rw [if_neg (by simp)]
      exact ⟨rfl, JDD.sim_grow_pl hp _ true rfl rfl rfl rfl, (fun h => by cases h), fun _ => rfl⟩

/-- `StringBuffer::reserve(n)`: the reader is untouched, only the allocator state moves; success means that `n` is within
    the string limit and nothing failed, failure sets the overflow flag -/
theorem mpsim_reserve (env : Env) (x : S) (n : Nat) (hp : PL.Inv x.d.g x.d.pl) (hb : mpsim_BOK env x.b)
    (h0 : x.d.overflowed = false) :
    (reserve env.maxStrLen x n).2.r = x.r ∧ Grow x.d (reserve env.maxStrLen x n).2.d ∧
    ((reserve env.maxStrLen x n).1 = true → n ≤ env.maxStrLen ∧ (reserve env.maxStrLen x n).2.d.overflowed = false ∧
      mpsim_BOK env (reserve env.maxStrLen x n).2.b) ∧
    ((reserve env.maxStrLen x n).1 = false → (reserve env.maxStrLen x n).2.d.overflowed = true) := by
  cases hxb : x.b with
  | none => exact mpsim_reserve_fresh env x n hp hxb h0
  | some cap =>
    have hcap := hb cap hxb
    by_cases hn : n > cap
    · rw [mpsim_reserve_release _ hxb hn]
      have hg : Grow x.d { x.d with pl := x.d.pl.dealloc } := by
        have := JDD.sim_grow_pl hp x.d.pl.dealloc x.d.overflowed rfl rfl rfl rfl
        exact this
      obtain ⟨a1, a2, a3, a4⟩ := mpsim_reserve_fresh env
        { x with d := { x.d with pl := x.d.pl.dealloc }, b := none } n hg.pool rfl h0
      exact ⟨a1, hg.trans a2, a3, a4⟩
    · rw [mpsim_reserve_keep _ hxb hn]
      exact ⟨rfl, Grow.refl hp, fun _ => ⟨by omega, h0, hb⟩, fun h => by cases h⟩

/-! ## `save` -/

/-- `save` is `saveString` on the never-failing twin, up to the allocator state -/
theorem mpsim_save_eq (x : S) (bytes : List Byte) :
    ∃ d1, (JDD.sim_nofail x.d bytes.length).saveString bytes = (some (save x bytes).1, d1) ∧
      (save x bytes).2.d.strings = d1.strings ∧ (save x bytes).2.d.nextNode = d1.nextNode ∧
      (save x bytes).2.d.g = x.d.g ∧ (save x bytes).2.d.root = x.d.root ∧ (save x bytes).2.d.cells = x.d.cells ∧
      (save x bytes).2.d.overflowed = x.d.overflowed ∧
      (save x bytes).2.d.pl.pools = x.d.pl.pools ∧ (save x bytes).2.d.pl.free = x.d.pl.free ∧
      (save x bytes).2.d.pl.tableCap = x.d.pl.tableCap ∧ (save x bytes).2.d.pl.tableHeap = x.d.pl.tableHeap ∧
      (save x bytes).2.r = x.r ∧ ((save x bytes).2.b = x.b ∨ (save x bytes).2.b = none) := by
  cases hf : x.d.strings.find? (·.bytes == bytes) with
  | some n =>
    have e : save x bytes = (n.id, { x with d := { x.d with strings := (x.d.strings.map (fun y => if y.id == n.id then { y with refs := y.refs + 1 } else y)) } }) := by
      unfold save; rw [hf]
    rw [e]
    exact ⟨_, saveString_found (d := JDD.sim_nofail x.d bytes.length) hf, rfl, rfl, rfl, rfl, rfl, rfl, rfl, rfl, rfl, rfl, rfl, Or.inl rfl⟩
  | none =>
    have e : ∃ pl',
        save x bytes = (x.d.nextNode, { x with d := { x.d with
          pl := pl', strings := ⟨x.d.nextNode, bytes, 1⟩ :: x.d.strings, nextNode := x.d.nextNode + 1 }, b := none }) ∧
        pl'.pools = x.d.pl.pools ∧ pl'.free = x.d.pl.free ∧ pl'.tableCap = x.d.pl.tableCap ∧
        pl'.tableHeap = x.d.pl.tableHeap := by
      unfold save; rw [hf]
      cases x.b with
      | none => exact ⟨_, rfl, rfl, rfl, rfl, rfl⟩
      | some cap =>
        simp only
        by_cases hc : (cap != bytes.length) = true
        · rw [if_pos hc]; exact ⟨_, rfl, rfl, rfl, rfl, rfl⟩
        · rw [if_neg hc]; exact ⟨_, rfl, rfl, rfl, rfl, rfl⟩
    obtain ⟨pl', e, p1, p2, p3, p4⟩ := e
    rw [e]
    have hs := saveString_short (d := JDD.sim_nofail x.d bytes.length) hf (Nat.le_refl _)
    rw [JDD.sim_nofail_failsAt, if_neg (by simp)] at hs
    exact ⟨_, hs, rfl, rfl, rfl, rfl, rfl, rfl, p1, p2, p3, p4, rfl, Or.inr rfl⟩

/-- `StringBuffer::save`: the node returned holds the bytes, it gained one reference, nothing else changed -/
theorem mpsim_save (env : Env) (x : S) (bytes : List Byte) (hp : PL.Inv x.d.g x.d.pl) (hs0 : ∃ rs, StrOK x.d rs) :
    (save x bytes).2.r = x.r ∧ Fr x.d (save x bytes).2.d [] ∧ (save x bytes).2.d.strBytes (save x bytes).1 = bytes ∧
    (∀ rs, StrOK x.d rs → StrOK (save x bytes).2.d ((save x bytes).1 :: rs)) ∧
    (save x bytes).2.d.overflowed = x.d.overflowed ∧ (mpsim_BOK env x.b → mpsim_BOK env (save x bytes).2.b) := by
  obtain ⟨d1, h, e1, e2, e3, e4, e5, e6, e7, e8, e9, e10, e11, e12⟩ := mpsim_save_eq x bytes
  obtain ⟨rs0, hrs0⟩ := hs0
  have hN : ∀ rs, StrOK x.d rs → StrOK (JDD.sim_nofail x.d bytes.length) rs := fun rs hs => StrOK_congr (d := x.d) rfl rfl hs
  obtain ⟨_, _, _, hb, hkeep, _⟩ := saveString_spec (hN _ hrs0).ids_nodup (hN _ hrs0).ids_lt h
  have hc : ∀ j, (save x bytes).2.d.cell j = x.d.cell j := fun j => by simp only [Doc.cell, e5]
  have hstr : ∀ rs, StrOK x.d rs → StrOK (save x bytes).2.d ((save x bytes).1 :: rs) := fun rs hs =>
    StrOK_congr e1 e2 (saveString_strOK (hN rs hs) h)
  have hbytes : ∀ m, (∃ y ∈ x.d.strings, y.id = m) → (save x bytes).2.d.strBytes m = x.d.strBytes m := by
    intro m hm
    rw [strBytes_of_strings e1, hkeep m hm]
    exact strBytes_of_strings (d := x.d) (d' := JDD.sim_nofail x.d bytes.length) rfl m
  refine ⟨e11, ⟨e3, fun _ => e4, fun j _ _ => hc j, by rw [e3]; exact hp.congr e7 e9 e10 e8,
    fun j hj => by rw [e3, live_congr e7 e8]; exact hj,
    fun rs hs => ⟨StrOK_weaken (a := [(save x bytes).1]) (hstr rs hs), strBytes_of_present hbytes hs⟩,
    fun ho => by rw [e6]; exact ho⟩, by rw [strBytes_of_strings e1]; exact hb, hstr, e6, ?_⟩
  intro hb' cap hc'
  rcases e12 with e | e
  · exact hb' cap (by rw [← e]; exact hc')
  · rw [e] at hc'; cases hc'

/-! ## `readString` -/

theorem mpsim_readString_eq (env : Env) (x : S) (n : Nat) :
    readString env x n =
      if (reserve env.maxStrLen x n).1 then
        match (reserve env.maxStrLen x n).2.r.readBytes n with
        | (some bs, r) => (.ok, bs, { (reserve env.maxStrLen x n).2 with r := r })
        | (none, r) => (.incomplete, [], { (reserve env.maxStrLen x n).2 with r := r })
      else (.noMemory, [], (reserve env.maxStrLen x n).2) := by
  unfold readString
  generalize reserve env.maxStrLen x n = q
  obtain ⟨ok, y⟩ := q
  cases ok <;> rfl

/-- the abstract twin of `readString`: the length check, then the bytes -/
def mpsim_readStr0 (env : Env) (r : R) (n : Nat) : Code × List Byte × R :=
  if n > env.maxStrLen then (.noMemory, [], r) else
  match r.readBytes n with
  | (some bs, r) => (.ok, bs, r)
  | (none, r) => (.incomplete, [], r)

/-- `readString(n)`: either an allocation failed (or `n` is beyond the limit): `NoMemory` with the flag set; or the code,
    the bytes and the reader are those of the abstract reader -/
theorem mpsim_readString (env : Env) (x : S) (n : Nat) (hp : PL.Inv x.d.g x.d.pl) (hb : mpsim_BOK env x.b)
    (h0 : x.d.overflowed = false) :
    Grow x.d (readString env x n).2.2.d ∧
    (((readString env x n).2.2.d.overflowed = true ∧ (readString env x n).1 = .noMemory) ∨
     ((readString env x n).2.2.d.overflowed = false ∧ mpsim_BOK env (readString env x n).2.2.b ∧
       (readString env x n).1 = (mpsim_readStr0 env x.r n).1 ∧ (readString env x n).1 ≠ .noMemory ∧
       (readString env x n).2.1 = (mpsim_readStr0 env x.r n).2.1 ∧
       (readString env x n).2.2.r = (mpsim_readStr0 env x.r n).2.2)) := by
  obtain ⟨r1, r2, r3, r4⟩ := mpsim_reserve env x n hp hb h0
  rw [mpsim_readString_eq]
  unfold mpsim_readStr0
  generalize reserve env.maxStrLen x n = q at *
  obtain ⟨ok, y⟩ := q
  simp only at r1 r2 r3 r4 ⊢
  cases ok with
  | false =>
    rw [if_neg (by simp)]
    exact ⟨r2, Or.inl ⟨r4 rfl, rfl⟩⟩
  | true =>
    rw [if_pos rfl]
    obtain ⟨hle, hov, hbk⟩ := r3 rfl
    rw [if_neg (by omega), r1]
    generalize x.r.readBytes n = rb
    obtain ⟨m, r'⟩ := rb
    cases m with
    | none => exact ⟨r2, Or.inr ⟨hov, hbk, rfl, (fun h => by cases h), rfl, rfl⟩⟩
    | some bs => exact ⟨r2, Or.inr ⟨hov, hbk, rfl, (fun h => by cases h), rfl, rfl⟩⟩

/-- the saved string node stored as a raw (binary / extension) value on the cleared place -/
theorem mpsim_post_raw {d d1 : Doc} {l : Loc} {node : Nat} {bytes : List Byte} (P : Pre d l) (hf : Fr d d1 [])
    (hb : d1.strBytes node = bytes) (hstr : ∀ rs, StrOK d rs → StrOK d1 (node :: rs)) :
    Post d (d1.set l (.raw node)) l (.raw node) .nil ∧ (d1.set l (.raw node)).valOf (.raw node) .nil = .raw bytes := by
  refine ⟨post_set P hf ((VOK_scalar (v := .raw node) (fun h => h) _).2 rfl) (fun rs h => hstr rs h)
    (by intro e h; cases h), ?_⟩
  show Val.raw ((d1.set l (.raw node)).strBytes node) = _
  rw [strBytes_set, hb]

end MDD
