/- Simulation of the slot-level MessagePack deserializer `MDD` by the value-level one `MD`, part 2: the three mutual
   routines of `MDD` cut into named pieces. `MDD.parseVariant` is the header dispatch `MD.dispatch` (AJ/Lemmas/MpProject.lean)
   applied to slot-level leaves, so that one step of it reads: header byte, `MD.classify`, `mpsim_leaf`. -/
import AJ.Lemmas.MddSimBase
import AJ.Lemmas.MpProject
set_option linter.unusedSimpArgs false
set_option linter.unusedVariables false
namespace MDD
open DL
open JD (Byte Val Code)
open MD (R Env Hdr beNat)

abbrev mpsim_VOut := Code × S × Bool
def mpsim_fin (p : Code × S) : mpsim_VOut := (p.1, p.2, true)

/-- an integer of `w` bytes -/
def mpsim_leafInt (l : Loc) (w c : Nat) (x : S) : mpsim_VOut :=
  match x.r.readBytes w with
  | (some bs, r) =>
    match MD.readInteger bs (c ≥ 0xd0) with
    | .num (.uint n) => mpsim_fin (store { x with r := r } l (.uint n))
    | .num (.sint n) => mpsim_fin (store { x with r := r } l (.sint n))
    | _ => mpsim_fin (.ok, { x with r := r })
  | (none, r) => mpsim_fin (.incomplete, { x with r := r })

def mpsim_leafF32 (l : Loc) (x : S) : mpsim_VOut :=
  match x.r.readBytes 4 with
  | (some bs, r) => mpsim_fin (.ok, { x with r := r, d := x.d.set l (.f32 (beNat bs)) })
  | (none, r) => mpsim_fin (.incomplete, { x with r := r })

def mpsim_leafF64 (l : Loc) (x : S) : mpsim_VOut :=
  match x.r.readBytes 8 with
  | (some bs, r) => mpsim_fin (store { x with r := r } l (.f64 (beNat bs)))
  | (none, r) => mpsim_fin (.incomplete, { x with r := r })

def mpsim_leafArr (env : Env) (fuel limit : Nat) (l : Loc) (size : Nat) (x : S) : mpsim_VOut :=
  match limit with
  | 0 => mpsim_fin (.tooDeep, x)
  | limit'+1 => mpsim_fin (readArray env fuel limit' l size { x with d := x.d.set l (.arr x.d.null x.d.null) })

def mpsim_leafMap (env : Env) (fuel limit : Nat) (l : Loc) (size : Nat) (x : S) : mpsim_VOut :=
  match limit with
  | 0 => mpsim_fin (.tooDeep, x)
  | limit'+1 => mpsim_fin (readObject env fuel limit' l size { x with d := x.d.set l (.obj x.d.null x.d.null) })

def mpsim_leafStr (env : Env) (l : Loc) (size : Nat) (x : S) : mpsim_VOut :=
  match readString env x size with
  | (.ok, bs, x) => mpsim_fin (.ok, { (save x bs).2 with d := (save x bs).2.d.set l (.owned (save x bs).1) })
  | (e, _, x) => mpsim_fin (e, x)

def mpsim_leafBin (env : Env) (l : Loc) (code : Byte) (sizeBytes : Nat) (isExt : Bool) (hb : List Byte) (size : Nat) (x : S) :
    mpsim_VOut :=
  let size := if isExt then size + 1 else size
  let total := 1 + sizeBytes + size
  match reserve env.maxStrLen x total with
  | (false, x) => mpsim_fin (.noMemory, x)
  | (true, x) =>
    match x.r.readBytes size with
    | (some bs, r) =>
      mpsim_fin (.ok, { (save { x with r := r } (code :: hb ++ bs)).2 with
        d := (save { x with r := r } (code :: hb ++ bs)).2.d.set l (.raw (save { x with r := r } (code :: hb ++ bs)).1) })
    | (none, r) => mpsim_fin (.incomplete, { x with r := r })

set_option maxRecDepth 8000 in
theorem mpsim_parseVariant_succ (env : Env) (fuel limit : Nat) (l : Loc) (x : S) :
    parseVariant env (fuel+1) limit l x =
      match x.r.read with
      | (none, r) => (.incomplete, { x with r := r }, false)
      | (some code, r) =>
        MD.dispatch code r
          (fun w c => mpsim_leafInt l w c { x with r := r })
          (mpsim_fin (.ok, { x with r := r })) (mpsim_fin (.invalid, { x with r := r }))
          (fun c => mpsim_fin (.ok, { x with r := r, d := x.d.set l (.bool (c == 0xc3)) }))
          (mpsim_leafF32 l { x with r := r })
          (mpsim_leafF64 l { x with r := r })
          (fun c => mpsim_fin (.ok, { x with r := r, d := x.d.set l (.i32 (if c ≥ 0x80 then (c : Int) - 256 else c)) }))
          (fun r => mpsim_fin (.incomplete, { x with r := r }))
          (fun size r => mpsim_leafArr env fuel limit l size { x with r := r })
          (fun size r => mpsim_leafMap env fuel limit l size { x with r := r })
          (fun size r => mpsim_leafStr env l size { x with r := r })
          (fun sizeBytes isExt hb size r => mpsim_leafBin env l code sizeBytes isExt hb size { x with r := r }) := by
  simp only [parseVariant, MD.dispatch, MD.hdrOf_d4, MD.size2Of, MD.size0Ext, MD.sizeBytesOf, mpsim_leafInt, mpsim_leafF32,
    mpsim_leafF64, mpsim_leafArr, mpsim_leafMap, mpsim_leafStr, mpsim_leafBin, mpsim_fin]
  rfl

/-- what the slot-level `parseVariant` does once the header is classified; `x` holds the reader after the header byte -/
def mpsim_leaf (env : Env) (fuel limit : Nat) (l : Loc) (code : Byte) (x : S) : Hdr → mpsim_VOut
  | .int w c => mpsim_leafInt l w c x
  | .nil => mpsim_fin (.ok, x)
  | .invalid => mpsim_fin (.invalid, x)
  | .bool c => mpsim_fin (.ok, { x with d := x.d.set l (.bool (c == 0xc3)) })
  | .f32 => mpsim_leafF32 l x
  | .f64 => mpsim_leafF64 l x
  | .fix c => mpsim_fin (.ok, { x with d := x.d.set l (.i32 (if c ≥ 0x80 then (c : Int) - 256 else c)) })
  | .inc r => mpsim_fin (.incomplete, { x with r := r })
  | .arr size r => mpsim_leafArr env fuel limit l size { x with r := r }
  | .map size r => mpsim_leafMap env fuel limit l size { x with r := r }
  | .str size r => mpsim_leafStr env l size { x with r := r }
  | .bin sizeBytes isExt hb size r => mpsim_leafBin env l code sizeBytes isExt hb size { x with r := r }

/-- **One step of the slot-level `parseVariant`**: read the header byte, classify, run the leaf. -/
theorem mpsim_parseVariant_step (env : Env) (fuel limit : Nat) (l : Loc) (x : S) :
    parseVariant env (fuel+1) limit l x =
      match x.r.read with
      | (none, r) => (.incomplete, { x with r := r }, false)
      | (some code, r) => mpsim_leaf env fuel limit l code { x with r := r } (MD.classify code r) := by
  rw [mpsim_parseVariant_succ]
  generalize x.r.read = rd
  obtain ⟨_ | code, r0⟩ := rd
  · rfl
  simp only [MD.dispatch_eq]
  cases MD.classify code r0 <;> rfl

/-! ## `readArray`, `readObject` -/

theorem mpsim_readArray_succ (env : Env) (fuel limit : Nat) (l : Loc) (n : Nat) (x : S) :
    readArray env (fuel+1) limit l n x =
      if n == 0 then (.ok, x) else
      match x.d.addElement l with
      | (none, d) => (.noMemory, { x with d := d })
      | (some id, d) =>
        match parseVariant env fuel limit (.slot id) { x with d := d } with
        | (.ok, x, _) => readArray env fuel limit l (n - 1) x
        | (e, x, _) => (e, x) := by
  simp only [readArray]
  rfl

/-- the member value, then the remaining members -/
def mpsim_roVal_f (env : Env) (fuel limit : Nat) (l : Loc) (n v : Nat) (x : S) : Code × S :=
  match parseVariant env fuel limit (.slot v) x with
  | (.ok, x, _) => readObject env fuel limit l (n - 1) x
  | (e, x, _) => (e, x)

/-- the key string is read; it is saved, the member added and its value parsed -/
def mpsim_roKey_f (env : Env) (fuel limit : Nat) (l : Loc) (n len : Nat) (x : S) : Code × S :=
  match readString env x len with
  | (.ok, key, x) =>
    match JDD.addMemberNode (save x key).2.d l (save x key).1 with
    | (none, d) => (.noMemory, { (save x key).2 with d := d })
    | (some v, d) => mpsim_roVal_f env fuel limit l n v { (save x key).2 with d := d }
  | (e, _, x) => (e, x)

set_option maxRecDepth 8000 in
theorem mpsim_readObject_step (env : Env) (fuel limit : Nat) (l : Loc) (n : Nat) (x : S) :
    readObject env (fuel+1) limit l n x =
      if n == 0 then (.ok, x) else
      match x.r.read with
      | (none, r) => (.incomplete, { x with r := r })
      | (some code, r) =>
        match MD.keyLenOf_d3 code r with
        | (none, r) => (.invalid, { x with r := r })
        | (some none, r) => (.incomplete, { x with r := r })
        | (some (some len), r) => mpsim_roKey_f env fuel limit l n len { x with r := r } := by
  simp only [readObject, MD.keyLenOf_d3, mpsim_roKey_f, mpsim_roVal_f]
  rfl

end MDD
