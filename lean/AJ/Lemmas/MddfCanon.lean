/- The documents left by the slot-level MessagePack deserializers `MDDF.run` (any filter) / `MDD.run` store their values
   canonically - the side conditions of the document-level memory comparison (AJ/Lemmas/DocSize.lean, AJ/Props/C11Mem.lean):
   * `mp_run_inlineSmall`: every integer stored inline fits 32 bits (`DocSize.AllV inlineSmallV`) - on every path;
   * `mp_run_notLinked`: no value is a linked string: every string is a copy held by the string table
     (`DocSize.AllV notLinkedV`) - on every path;
   * `mp_run_canon`: when no allocation failed, for ONE layout `F'`: well-formed, tight (`JDDF.Tight`), and no extension slot
     is spent on an integer that fits 32 bits (`DocSize.ExtBig`; from `MDDF.run_tight_canon`, AJ/Lemmas/MddfExact.lean).
   The cell-global predicates `AllV p` go through the parser for every `p` that the values written by the deserializer satisfy
   (`PDeser p`): ONE induction (`st_all`) for every relation between documents that the document operations respect (`DStep`);
   a second instance: `mp_run_strOverhead`. -/
import AJ.Lemmas.MddfExact
import AJ.Lemmas.DocAlloc
namespace MDDF
open DL DocSize
open JD (Byte Code Flt)
open JDD (PlEq SaveOp Ctx Built isNum)
open MDD (S reserve save readString store fin J)

/-- `p` holds of every value the MessagePack deserializer writes -/
structure PDeser (p : VData → Bool) : Prop where
  coll : PColl p
  bool : ∀ b, p (.bool b) = true
  f32 : ∀ b, p (.f32 b) = true
  i32 : ∀ x : Int, -2^31 ≤ x ∧ x < 2^31 → p (.i32 x) = true
  owned : ∀ n, p (.owned n) = true
  raw : ∀ n, p (.raw n) = true
  num : ∀ a v, isNum a → argWrites a v → p v = true

theorem pdeser_inlineSmall : PDeser inlineSmallV := by
  refine ⟨pcoll_inlineSmall, fun _ => rfl, fun _ => rfl, fun x hx => ?_, fun _ => rfl, fun _ => rfl, fun a v ha hv => ?_⟩
  · simp only [inlineSmallV, decide_eq_true_eq]; exact hx
  · cases a <;> simp only [argWrites] at hv
    case sint x =>
      rcases hv with ⟨rfl, hr⟩ | ⟨s, rfl⟩
      · simp only [inlineSmallV, decide_eq_true_eq]; exact hr
      · rfl
    case uint x =>
      rcases hv with ⟨rfl, hr⟩ | ⟨s, rfl⟩
      · simp only [inlineSmallV, decide_eq_true_eq]; exact hr
      · rfl
    case f64 b => rcases hv with ⟨f, rfl⟩ | ⟨s, rfl⟩ <;> rfl
    case f32 b => subst hv; rfl
    all_goals exact absurd ha (fun h => h)

theorem pdeser_notLinked : PDeser notLinkedV := by
  refine ⟨pcoll_notLinked, fun _ => rfl, fun _ => rfl, fun _ _ => rfl, fun _ => rfl, fun _ => rfl, fun a v ha hv => ?_⟩
  cases a <;> simp only [argWrites] at hv
  case sint x => rcases hv with ⟨rfl, _⟩ | ⟨s, rfl⟩ <;> rfl
  case uint x => rcases hv with ⟨rfl, _⟩ | ⟨s, rfl⟩ <;> rfl
  case f64 b => rcases hv with ⟨f, rfl⟩ | ⟨s, rfl⟩ <;> rfl
  case f32 b => subst hv; rfl
  all_goals exact absurd ha (fun h => h)

/-- a relation between documents that every operation of the MessagePack deserializer respects -/
structure DStep (Q : Doc → Doc → Prop) : Prop where
  refl : ∀ d, Q d d
  trans : ∀ {d d1 d2}, Q d d1 → Q d1 d2 → Q d d2
  pleq : ∀ {d d'}, PlEq d d' → Q d d'
  set_bool : ∀ d l b, Q d (d.set l (.bool b))
  set_f32 : ∀ d l b, Q d (d.set l (.f32 b))
  set_i32 : ∀ d l (x : Int), -2^31 ≤ x ∧ x < 2^31 → Q d (d.set l (.i32 x))
  set_owned : ∀ d l n, Q d (d.set l (.owned n))
  set_raw : ∀ d l n, Q d (d.set l (.raw n))
  set_arr : ∀ d l h t, Q d (d.set l (.arr h t))
  set_obj : ∀ d l h t, Q d (d.set l (.obj h t))
  setArg : ∀ d l a, isNum a → Q d (d.setArg l a).2
  save : ∀ (x : S) bytes, Q x.d (save x bytes).2.d
  addElement : ∀ d l, Q d (d.addElement l).2
  addMemberNode : ∀ d l node, Q d (JDD.addMemberNode d l node).2

variable {Q : Doc → Doc → Prop}

theorem st_reserve (hq : DStep Q) (m : Nat) (x : S) (n : Nat) : Q x.d (reserve m x n).2.d :=
  hq.pleq (MDD.mp_reserve_spec m x n).1.pleq

theorem st_readString (hq : DStep Q) (env : MD.Env) (x : S) (n : Nat) : Q x.d (readString env x n).2.2.d :=
  hq.pleq (MDD.mp_readString_spec env x n).1

theorem st_store (hq : DStep Q) (x : S) (l : Loc) {a : Arg} (ha : isNum a) : Q x.d (fin (store x l a)).2.1.d :=
  hq.setArg x.d l a ha

theorem st_leafInt (hq : DStep Q) (l : Loc) (x : S) (w c : Nat) : Q x.d (MDD.leafInt l x w c).2.1.d := by
  unfold MDD.leafInt
  split
  · rename_i bs r heq
    split
    · exact st_store hq ⟨r, x.d, x.b⟩ l trivial
    · exact st_store hq ⟨r, x.d, x.b⟩ l trivial
    · exact hq.refl _
  · exact hq.refl _

theorem st_leafF32 (hq : DStep Q) (l : Loc) (x : S) : Q x.d (MDD.leafF32 l x).2.1.d := by
  unfold MDD.leafF32
  split
  · exact hq.set_f32 _ _ _
  · exact hq.refl _

theorem st_leafF64 (hq : DStep Q) (l : Loc) (x : S) : Q x.d (MDD.leafF64 l x).2.1.d := by
  unfold MDD.leafF64
  split
  · rename_i bs r heq
    exact st_store hq ⟨r, x.d, x.b⟩ l trivial
  · exact hq.refl _

theorem st_leafStr (hq : DStep Q) (env : MD.Env) (l : Loc) (size : Nat) (x : S) :
    Q x.d (MDD.leafStr env l size x).2.1.d := by
  unfold MDD.leafStr
  have rs := st_readString hq env x size
  split
  · rename_i bs x1 heq
    rw [heq] at rs
    exact hq.trans rs (hq.trans (hq.save x1 bs) (hq.set_owned _ _ _))
  · rename_i e bs x1 hne heq
    rw [heq] at rs
    exact rs

theorem st_leafBin (hq : DStep Q) (env : MD.Env) (l : Loc) (code : Byte) (sb : Nat) (ie : Bool) (hb : List Byte)
    (size : Nat) (x : S) : Q x.d (MDD.leafBin env l code sb ie hb size x).2.1.d := by
  unfold MDD.leafBin
  simp only
  have rs := st_reserve hq env.maxStrLen x (1 + sb + (if ie = true then size + 1 else size))
  generalize reserve env.maxStrLen x (1 + sb + (if ie = true then size + 1 else size)) = q at rs
  obtain ⟨ok, x1⟩ := q
  cases ok with
  | false => exact rs
  | true =>
    simp only
    split
    · rename_i bs r heq
      exact hq.trans rs (hq.trans (hq.save { x1 with r := r } (code :: hb ++ bs)) (hq.set_raw _ _ _))
    · exact rs

theorem st_skipN (hq : DStep Q) (x : S) (n : Nat) : Q x.d (fin (skipN x n)).2.1.d := by
  rw [show (fin (skipN x n)).2.1 = (skipN x n).2 from rfl, skipN_d]; exact hq.refl _

/-- the header byte that `classify` reports for a fixint is the byte itself -/
theorem classify_fix {code : Byte} {r : MD.R} {c : Nat} (h : MD.classify code r = .fix c) : c = code.toNat := by
  unfold MD.classify MD.dispatch at h
  simp only [] at h
  by_cases h1 : (decide (204 ≤ code.toNat) && decide (code.toNat ≤ 211)) = true
  · rw [if_pos h1] at h; cases h
  rw [if_neg h1] at h
  by_cases h2 : (code.toNat == 192) = true
  · rw [if_pos h2] at h; cases h
  rw [if_neg h2] at h
  by_cases h3 : (code.toNat == 193) = true
  · rw [if_pos h3] at h; cases h
  rw [if_neg h3] at h
  by_cases h4 : (code.toNat == 194 || code.toNat == 195) = true
  · rw [if_pos h4] at h; cases h
  rw [if_neg h4] at h
  by_cases h5 : (code.toNat == 202) = true
  · rw [if_pos h5] at h; cases h
  rw [if_neg h5] at h
  by_cases h6 : (code.toNat == 203) = true
  · rw [if_pos h6] at h; cases h
  rw [if_neg h6] at h
  by_cases h7 : (decide (code.toNat ≤ 127) || decide (code.toNat ≥ 224)) = true
  · rw [if_pos h7] at h; cases h; rfl
  rw [if_neg h7] at h
  split at h
  · cases h
  · split at h
    · cases h
    · split at h
      · cases h
      · split at h
        · cases h
        · cases h

theorem fix_small {c : Nat} (hc : c < 256) :
    -2^31 ≤ (if c ≥ 0x80 then (c : Int) - 256 else c) ∧ (if c ≥ 0x80 then (c : Int) - 256 else c) < 2^31 := by
  split <;> omega

def SVs (Q : Doc → Doc → Prop) (env : MD.Env) (fuel : Nat) : Prop := ∀ (limit : Nat) (flt : Flt) (dst : Option Loc) (x : S),
  Q x.d (parseVariant env fuel limit flt dst x).2.1.d
def SAs (Q : Doc → Doc → Prop) (env : MD.Env) (fuel : Nat) : Prop := ∀ (limit : Nat) (ef : Flt) (arr : Option Loc) (n : Nat)
  (x : S), Q x.d (readArray env fuel limit ef arr n x).2.d
def SOs (Q : Doc → Doc → Prop) (env : MD.Env) (fuel : Nat) : Prop := ∀ (limit : Nat) (flt : Flt) (obj : Option Loc) (n : Nat)
  (x : S), Q x.d (readObject env fuel limit flt obj n x).2.d

theorem sv_succ (hq : DStep Q) (env : MD.Env) (f : Nat) (ihA : SAs Q env f) (ihO : SOs Q env f) : SVs Q env (f+1) := by
  intro limit flt dst x
  rw [parseVariant_succ]
  generalize x.r.read = rd
  obtain ⟨_ | code, r0⟩ := rd
  · exact hq.refl _
  simp only [MD.dispatch_eq]
  cases hcl : MD.classify code r0 with
  | int w c =>
    simp only [leafInt]
    cases gate flt.allowValue dst with
    | none => exact st_skipN hq { x with r := r0 } w
    | some l => exact st_leafInt hq l { x with r := r0 } w c
  | nil => exact hq.refl _
  | invalid => exact hq.refl _
  | bool c =>
    simp only [leafBool]
    cases gate flt.allowValue dst with
    | none => exact hq.refl _
    | some l => exact hq.set_bool _ _ _
  | f32 =>
    simp only [leafF32]
    cases gate flt.allowValue dst with
    | none => exact st_skipN hq { x with r := r0 } 4
    | some l => exact st_leafF32 hq l { x with r := r0 }
  | f64 =>
    simp only [leafF64]
    cases gate flt.allowValue dst with
    | none => exact st_skipN hq { x with r := r0 } 8
    | some l => exact st_leafF64 hq l { x with r := r0 }
  | fix c =>
    simp only [leafFix]
    cases gate flt.allowValue dst with
    | none => exact hq.refl _
    | some l =>
      have hc : c < 256 := by rw [classify_fix hcl]; exact UInt8.toNat_lt code
      exact hq.set_i32 _ _ _ (fix_small hc)
  | inc r => exact hq.refl _
  | arr size r =>
    simp only [leafArr]
    cases limit with
    | zero => exact hq.refl _
    | succ limit' =>
      simp only
      cases gate flt.allowArray dst with
      | none => exact ihA limit' flt.subIdx none size { x with r := r }
      | some l =>
        exact hq.trans (hq.set_arr x.d l x.d.null x.d.null)
          (ihA limit' flt.subIdx (some l) size { x with r := r, d := x.d.set l (.arr x.d.null x.d.null) })
  | map size r =>
    simp only [leafMap]
    cases limit with
    | zero => exact hq.refl _
    | succ limit' =>
      simp only
      cases gate flt.allowObject dst with
      | none => exact ihO limit' flt none size { x with r := r }
      | some l =>
        exact hq.trans (hq.set_obj x.d l x.d.null x.d.null)
          (ihO limit' flt (some l) size { x with r := r, d := x.d.set l (.obj x.d.null x.d.null) })
  | str size r =>
    simp only [leafStr]
    cases gate flt.allowValue dst with
    | none => exact st_skipN hq { x with r := r } size
    | some l => exact st_leafStr hq env l size { x with r := r }
  | bin sb ie hb size r =>
    simp only [leafBin]
    cases gate flt.allowValue dst with
    | none => exact st_skipN hq { x with r := r } _
    | some l => exact st_leafBin hq env l code sb ie hb size { x with r := r }

theorem st_elemSlot (hq : DStep Q) (ea : Option Loc) (x : S) : Q x.d (elemSlot ea x).2.d := by
  unfold elemSlot
  cases ea with
  | none => exact hq.refl _
  | some l =>
    simp only
    have h01 := hq.addElement x.d l
    split
    · rename_i d1 heq; rw [heq] at h01; exact h01
    · rename_i id d1 heq; rw [heq] at h01; exact h01

theorem st_memSlot (hq : DStep Q) (oa : Option Loc) (x : S) (key : List Byte) : Q x.d (memSlot oa x key).2.d := by
  unfold memSlot
  cases oa with
  | none => exact hq.refl _
  | some l =>
    simp only
    refine hq.trans (hq.save x key) ?_
    have := hq.addMemberNode (save x key).2.d l (save x key).1
    generalize JDD.addMemberNode (save x key).2.d l (save x key).1 = r at this
    obtain ⟨o, d2⟩ := r
    cases o <;> exact this

theorem sa_succ (hq : DStep Q) (env : MD.Env) (f : Nat) (ihV : SVs Q env f) (ihA : SAs Q env f) : SAs Q env (f+1) := by
  intro limit ef arr n x
  rw [readArray_succ]
  split
  · exact hq.refl _
  have h1 := st_elemSlot hq (gate ef.allow arr) x
  generalize elemSlot (gate ef.allow arr) x = q at h1
  obtain ⟨o, x1⟩ := q
  cases o with
  | none => exact h1
  | some dst =>
    simp only
    have h2 := ihV limit ef dst x1
    split
    · rename_i x2 fd heq
      rw [heq] at h2
      exact hq.trans h1 (hq.trans h2 (ihA limit ef arr (n - 1) x2))
    · rename_i e x2 fd hne heq
      rw [heq] at h2
      exact hq.trans h1 h2

theorem so_succ (hq : DStep Q) (env : MD.Env) (f : Nat) (ihV : SVs Q env f) (ihO : SOs Q env f) : SOs Q env (f+1) := by
  intro limit flt obj n x
  rw [readObject_succ]
  split
  · exact hq.refl _
  generalize x.r.read = rd
  obtain ⟨_ | code, r0⟩ := rd
  · exact hq.refl _
  simp only
  generalize MD.keyLenOf_d3 code r0 = kl
  obtain ⟨_ | _ | len, r1⟩ := kl
  · exact hq.refl _
  · exact hq.refl _
  simp only
  have rs := st_readString hq env { x with r := r1 } len
  split
  · rename_i key x1 heq
    rw [heq] at rs
    have h0 : Q x.d x1.d := rs
    have h1 := st_memSlot hq (gate (flt.subKey key).allow obj) x1 key
    generalize memSlot (gate (flt.subKey key).allow obj) x1 key = q at h1
    obtain ⟨o, x2⟩ := q
    cases o with
    | none => exact hq.trans h0 h1
    | some dst =>
      simp only
      have h2 := ihV limit (flt.subKey key) dst x2
      split
      · rename_i x3 fd heq3
        rw [heq3] at h2
        exact hq.trans h0 (hq.trans h1 (hq.trans h2 (ihO limit flt obj (n - 1) x3)))
      · rename_i e x3 fd hne heq3
        rw [heq3] at h2
        exact hq.trans h0 (hq.trans h1 h2)
  · rename_i e key x1 hne heq
    rw [heq] at rs
    exact rs

theorem st_all (hq : DStep Q) (env : MD.Env) : ∀ fuel, SVs Q env fuel ∧ SAs Q env fuel ∧ SOs Q env fuel := by
  intro fuel
  induction fuel with
  | zero =>
    refine ⟨?_, ?_, ?_⟩
    · intro limit flt dst x; simp only [parseVariant]; exact hq.refl _
    · intro limit ef arr n x; simp only [readArray]; exact hq.refl _
    · intro limit flt obj n x; simp only [readObject]; exact hq.refl _
  | succ f ih =>
    obtain ⟨ihV, ihA, ihO⟩ := ih
    exact ⟨sv_succ hq env f ihA ihO, sa_succ hq env f ihV ihA, so_succ hq env f ihV ihO⟩

/-- the relation holds between the cleared starting document and the document `run` returns -/
theorem mp_run_step (hq : DStep Q) (env : MD.Env) (limit : Nat) (flt : Flt) (d : Doc) (input : List Byte)
    (hsh : ∀ (d : Doc) (pl : PL.St), Q d { d with pl := pl }) : Q d.clearAll (run env limit flt d input).2.1 := by
  have h : Q d.clearAll (stop env limit flt d input).2.1.d :=
    (st_all hq env (2 * input.length + 4)).1 limit flt (some .root) (start d input)
  have h2 : Q d.clearAll (preShrink env limit flt d input) := hq.trans h (hq.pleq (preShrink_pleq env limit flt d input).1)
  rw [run_eq]
  exact hq.trans h2 (hsh _ _)

/-! ### instance: a predicate on every stored value -/

/-- the step `d → d'` keeps `AllV p` -/
def AV (p : VData → Bool) (d d' : Doc) : Prop := AllV p d → AllV p d'

variable {p : VData → Bool}

theorem av_addMemberNode (hp : PDeser p) (d : Doc) (l : Loc) (node : Nat) : AV p d (JDD.addMemberNode d l node).2 := by
  intro h
  have h1 := h.allocVariant hp.coll
  rcases JDD.addMemberNode_cases d l node with ⟨d1, hal1, e⟩ | ⟨k, d1, d2, hal1, hal2, e⟩ | ⟨k, d1, v, d2, hal1, hal2, e⟩
  · rw [e]; rw [hal1] at h1; exact h1
  · rw [e]; rw [hal1] at h1
    have h2 := AllV.allocVariant hp.coll h1
    rw [hal2] at h2; exact h2
  · rw [e]; rw [hal1] at h1
    have h2 := AllV.allocVariant hp.coll h1
    rw [hal2] at h2
    exact AllV.appendPair hp.coll (h2.set _ (hp.owned node)) l k v

theorem dstep_av (hp : PDeser p) : DStep (AV p) where
  refl := fun _ h => h
  trans := fun h1 h2 h => h2 (h1 h)
  pleq := fun h ha l => by rw [h.get l]; exact ha l
  set_bool := fun _ l b h => h.set l (hp.bool b)
  set_f32 := fun _ l b h => h.set l (hp.f32 b)
  set_i32 := fun _ l x hx h => h.set l (hp.i32 x hx)
  set_owned := fun _ l n h => h.set l (hp.owned n)
  set_raw := fun _ l n h => h.set l (hp.raw n)
  set_arr := fun _ l a b h => h.set l (hp.coll.arr a b)
  set_obj := fun _ l a b h => h.set l (hp.coll.obj a b)
  setArg := fun _ l a ha h => h.setArg hp.coll l a (fun v hv => hp.num a v ha hv)
  save := fun x bytes h => by
    have sv := MDD.mp_save_spec x bytes
    exact h.of_cells sv.cells sv.root
  addElement := fun _ l h => h.addElement hp.coll l
  addMemberNode := av_addMemberNode hp

/-! ### instance: the per-node overhead of the string table is a constant of the document -/

def KeepOvh (d d' : Doc) : Prop := d'.strOverhead = d.strOverhead

theorem dstep_ovh : DStep KeepOvh where
  refl := fun _ => rfl
  trans := fun h1 h2 => Eq.trans h2 h1
  pleq := fun h => h.ovh
  set_bool := fun d l _ => set_strOverhead d l _
  set_f32 := fun d l _ => set_strOverhead d l _
  set_i32 := fun d l _ _ => set_strOverhead d l _
  set_owned := fun d l _ => set_strOverhead d l _
  set_raw := fun d l _ => set_strOverhead d l _
  set_arr := fun d l _ _ => set_strOverhead d l _
  set_obj := fun d l _ _ => set_strOverhead d l _
  setArg := fun d l a _ => (sameId_setArg d l a).2.1
  save := fun x bytes => (MDD.mp_save_spec x bytes).ovh
  addElement := fun d l => by
    show (d.addElement l).2.strOverhead = d.strOverhead
    simp only [Doc.addElement]
    have := (sameId_allocVariant d).2.1
    generalize d.allocVariant = r at this
    obtain ⟨m, d1⟩ := r
    cases m with
    | none => exact this
    | some j => exact ((sameId_appendOne d1 l j).2.1).trans this
  addMemberNode := fun d l node => by
    show (JDD.addMemberNode d l node).2.strOverhead = d.strOverhead
    have h1 := (sameId_allocVariant d).2.1
    rcases JDD.addMemberNode_cases d l node with ⟨d1, hal1, e⟩ | ⟨k, d1, d2, hal1, hal2, e⟩ | ⟨k, d1, v, d2, hal1, hal2, e⟩
    · rw [e]; rw [hal1] at h1; exact h1
    · rw [e]; rw [hal1] at h1
      have h2 := (sameId_allocVariant d1).2.1
      rw [hal2] at h2; exact h2.trans h1
    · rw [e]; rw [hal1] at h1
      have h2 := (sameId_allocVariant d1).2.1
      rw [hal2] at h2
      exact ((sameId_appendPair _ l k v).2.1).trans ((set_strOverhead d2 _ _).trans (h2.trans h1))

/-- `run` keeps the per-node overhead of the document it is given -/
theorem mp_run_strOverhead (env : MD.Env) (limit : Nat) (flt : Flt) (d : Doc) (input : List Byte) :
    (run env limit flt d input).2.1.strOverhead = d.strOverhead :=
  mp_run_step dstep_ovh env limit flt d input (fun _ _ => rfl)

/-- every value of the document `run` returns - whatever the input, the filter and the failure schedule - satisfies every
    predicate that the values written by the deserializer satisfy -/
theorem mp_run_allV (hp : PDeser p) (env : MD.Env) (limit : Nat) (flt : Flt) (d : Doc) (input : List Byte) :
    AllV p (run env limit flt d input).2.1 := by
  exact mp_run_step (dstep_av hp) env limit flt d input (fun _ pl h => h.with_pl pl) (AllV.clearAll hp.coll d)

/-- integers stored inline fit 32 bits, on every path -/
theorem mp_run_inlineSmall (env : MD.Env) (limit : Nat) (flt : Flt) (d : Doc) (input : List Byte) :
    AllV inlineSmallV (run env limit flt d input).2.1 := mp_run_allV pdeser_inlineSmall env limit flt d input

/-- no linked string: every string of the document is a copy held by its string table, on every path -/
theorem mp_run_notLinked (env : MD.Env) (limit : Nat) (flt : Flt) (d : Doc) (input : List Byte) :
    AllV notLinkedV (run env limit flt d input).2.1 := mp_run_allV pdeser_notLinked env limit flt d input

/-- no extension slot is spent on an integer that fits 32 bits (for a layout of the result), when no allocation failed -/
theorem mp_run_extBig (env : MD.Env) (limit : Nat) (flt : Flt) {d : Doc} (input : List Byte) (gok : PL.GeoOK d.g)
    (hp : PL.Inv d.g d.pl) (hov : (run env limit flt d input).2.1.overflowed = false) :
    ∃ F', WFG (run env limit flt d input).2.1 F' ∧ ExtBig (run env limit flt d input).2.1 F' := by
  obtain ⟨F', a, _, _, e⟩ := run_tight_canon env limit flt input gok hp hov
  exact ⟨F', a, e⟩

/-- ALL the side conditions of the memory comparison for ONE layout of the result, when no allocation failed: well-formed,
    exact reference counts, no leaked slot (in the form of AJ/Lemmas/DocSize.lean), canonical numbers, no linked string -/
theorem mp_run_canon (env : MD.Env) (limit : Nat) (flt : Flt) {d : Doc} (input : List Byte) (gok : PL.GeoOK d.g)
    (hp : PL.Inv d.g d.pl) (hov : (run env limit flt d input).2.1.overflowed = false) :
    ∃ F', WFG (run env limit flt d input).2.1 F' ∧
      StrOK (run env limit flt d input).2.1 ((run env limit flt d input).2.1.strRefs F') ∧
      Exact (run env limit flt d input).2.1 ((run env limit flt d input).2.1.strRefs F') ∧
      DocSize.NoLeak (run env limit flt d input).2.1 F' ∧
      Canon (run env limit flt d input).2.1 F' ∧ NoLinked (run env limit flt d input).2.1 F' := by
  obtain ⟨F', a, b, c, e⟩ := run_tight_canon env limit flt input gok hp hov
  refine ⟨F', a, b, c.exact, fun i hi => ?_, ⟨(mp_run_inlineSmall env limit flt d input).inlineSmall F', e⟩,
    (mp_run_notLinked env limit flt d input).noLinked F'⟩
  rcases c.noleak i hi with h | h
  · exact Or.inl h
  · exact Or.inr (mem_extIds.2 h)

end MDDF
