/- Stronger invariants of the slot-level MessagePack deserializers `MDDF.run` (filtered, AJ/Model/MDDF.lean) and, through the
   `AllowAll` filter, `MDD.run` - the twin of AJ/Lemmas/JddfExact.lean for the StringBuffer path (`MDD.reserve` / `MDD.save`),
   raw values (`.raw node`: bin / ext) and objects that keep repeated keys:
   * `run_bytes_nodup`: no two nodes of the string table hold the same bytes (on every path, failures included);
   * `run_exact`: when no allocation failed, every stored string's reference count is the number of references to it, and ≥ 1;
   * `run_no_leak`: when no allocation failed, every slot that is live in the pools belongs to the layout of the document or
     is an extension slot of one of its values;
   * `run_tight_canon`: ... for the same layout, no extension slot is spent on an integer that fits 32 bits (`DocSize.ExtBig`;
     the step predicate `EB` / `ES` rides along in the same induction because the layout is existentially quantified).
   The operation-level lemmas about `JDDF.Tight` of AJ/Lemmas/JddfExact.lean are reused; the ones that mention the JSON
   StringBuilder's `save` are restated for any `JDD.SaveOp` whose string table stays exact (`tight_save_set`, `tight_addMember`).
   Same cut of `parseVariant` into header dispatch and leaves as AJ/Lemmas/MddfInv.lean; values without a destination only see
   allocator traffic (`MDDF.parse_none`). -/
import AJ.Lemmas.MddfInv
import AJ.Lemmas.JddfExact
import AJ.Lemmas.DocSize
namespace MDDF
open DL
open JD (Byte Code Flt)
open JDD (PlEq LBd Fx Blk AllB SaveOp nl Ctx Built isNum SameV)
open MDD (S reserve save readString store fin ROp MRes J)
open JDDF (BN Tight NoLeak TS)
open DocSize (extBigV ExtBig)

/-! ## (b) distinct nodes hold distinct byte strings -/

theorem bn_save (x : S) (bytes : List Byte) : BN x.d (save x bytes).2.d := by
  intro h
  have h' : BytesNodup (JDD.calm x.d bytes.length) := h
  have := saveString_bytesNodup (s := bytes) h'
  cases hf : x.d.strings.find? (·.bytes == bytes) with
  | some y =>
    have hf' : (JDD.calm x.d bytes.length).strings.find? (·.bytes == bytes) = some y := hf
    rw [saveString_found hf'] at this
    rw [MDD.mp_save_eq_found hf]; exact this
  | none =>
    have hf' : (JDD.calm x.d bytes.length).strings.find? (·.bytes == bytes) = none := hf
    rw [saveString_short hf' (Nat.le_refl _), JDD.calm_failsAt] at this
    simp only [Bool.false_eq_true, if_false] at this
    rw [MDD.mp_save_eq_new hf]; exact this

theorem bn_reserve (m : Nat) (x : S) (n : Nat) : BN x.d (reserve m x n).2.d :=
  BN.pleq (MDD.mp_reserve_spec m x n).1.pleq

theorem bn_readString (env : MD.Env) (x : S) (n : Nat) : BN x.d (readString env x n).2.2.d :=
  BN.pleq (MDD.mp_readString_spec env x n).1

theorem bn_store (x : S) (l : Loc) (a : Arg) : BN x.d (fin (store x l a)).2.1.d :=
  fun h => setArg_bytesNodup l a h

theorem bn_leafInt (l : Loc) (x : S) (w c : Nat) : BN x.d (MDD.leafInt l x w c).2.1.d := by
  unfold MDD.leafInt
  split
  · rename_i bs r heq
    split
    · exact bn_store ⟨r, x.d, x.b⟩ l _
    · exact bn_store ⟨r, x.d, x.b⟩ l _
    · exact BN.refl _
  · exact BN.refl _

theorem bn_leafF32 (l : Loc) (x : S) : BN x.d (MDD.leafF32 l x).2.1.d := by
  unfold MDD.leafF32
  split
  · exact BN.set _ _ _
  · exact BN.refl _

theorem bn_leafF64 (l : Loc) (x : S) : BN x.d (MDD.leafF64 l x).2.1.d := by
  unfold MDD.leafF64
  split
  · rename_i bs r heq
    exact bn_store ⟨r, x.d, x.b⟩ l _
  · exact BN.refl _

theorem bn_leafStr (env : MD.Env) (l : Loc) (size : Nat) (x : S) : BN x.d (MDD.leafStr env l size x).2.1.d := by
  unfold MDD.leafStr
  have rs := bn_readString env x size
  split
  · rename_i bs x1 heq
    rw [heq] at rs
    exact rs.trans ((bn_save x1 bs).trans (BN.set _ _ _))
  · rename_i e bs x1 hne heq
    rw [heq] at rs
    exact rs

theorem bn_leafBin (env : MD.Env) (l : Loc) (code : Byte) (sb : Nat) (ie : Bool) (hb : List Byte) (size : Nat) (x : S) :
    BN x.d (MDD.leafBin env l code sb ie hb size x).2.1.d := by
  unfold MDD.leafBin
  simp only
  have rs := bn_reserve env.maxStrLen x (1 + sb + (if ie = true then size + 1 else size))
  generalize reserve env.maxStrLen x (1 + sb + (if ie = true then size + 1 else size)) = q at rs
  obtain ⟨ok, x1⟩ := q
  cases ok with
  | false => exact rs
  | true =>
    simp only
    split
    · rename_i bs r heq
      exact rs.trans ((bn_save { x1 with r := r } (code :: hb ++ bs)).trans (BN.set _ _ _))
    · exact rs

theorem bn_skipN (x : S) (n : Nat) : BN x.d (fin (skipN x n)).2.1.d := BN.of_strings (by rw [show (fin (skipN x n)).2.1 = (skipN x n).2 from rfl, skipN_d])

def BVs (env : MD.Env) (fuel : Nat) : Prop := ∀ (limit : Nat) (flt : Flt) (dst : Option Loc) (x : S),
  BN x.d (parseVariant env fuel limit flt dst x).2.1.d
def BAs (env : MD.Env) (fuel : Nat) : Prop := ∀ (limit : Nat) (ef : Flt) (arr : Option Loc) (n : Nat) (x : S),
  BN x.d (readArray env fuel limit ef arr n x).2.d
def BOs (env : MD.Env) (fuel : Nat) : Prop := ∀ (limit : Nat) (flt : Flt) (obj : Option Loc) (n : Nat) (x : S),
  BN x.d (readObject env fuel limit flt obj n x).2.d

theorem bv_succ (env : MD.Env) (f : Nat) (ihA : BAs env f) (ihO : BOs env f) : BVs env (f+1) := by
  intro limit flt dst x
  rw [parseVariant_succ]
  generalize x.r.read = rd
  obtain ⟨_ | code, r0⟩ := rd
  · exact BN.refl _
  simp only [MD.dispatch_eq]
  cases MD.classify code r0 with
  | int w c =>
    simp only [leafInt]
    cases gate flt.allowValue dst with
    | none => exact bn_skipN { x with r := r0 } w
    | some l => exact bn_leafInt l { x with r := r0 } w c
  | nil => exact BN.refl _
  | invalid => exact BN.refl _
  | bool c =>
    simp only [leafBool]
    cases gate flt.allowValue dst with
    | none => exact BN.refl _
    | some l => exact BN.set _ _ _
  | f32 =>
    simp only [leafF32]
    cases gate flt.allowValue dst with
    | none => exact bn_skipN { x with r := r0 } 4
    | some l => exact bn_leafF32 l { x with r := r0 }
  | f64 =>
    simp only [leafF64]
    cases gate flt.allowValue dst with
    | none => exact bn_skipN { x with r := r0 } 8
    | some l => exact bn_leafF64 l { x with r := r0 }
  | fix c =>
    simp only [leafFix]
    cases gate flt.allowValue dst with
    | none => exact BN.refl _
    | some l => exact BN.set _ _ _
  | inc r => exact BN.refl _
  | arr size r =>
    simp only [leafArr]
    cases limit with
    | zero => exact BN.refl _
    | succ limit' =>
      simp only
      cases gate flt.allowArray dst with
      | none => exact ihA limit' flt.subIdx none size { x with r := r }
      | some l =>
        exact (BN.set x.d l (.arr x.d.null x.d.null)).trans
          (ihA limit' flt.subIdx (some l) size { x with r := r, d := x.d.set l (.arr x.d.null x.d.null) })
  | map size r =>
    simp only [leafMap]
    cases limit with
    | zero => exact BN.refl _
    | succ limit' =>
      simp only
      cases gate flt.allowObject dst with
      | none => exact ihO limit' flt none size { x with r := r }
      | some l =>
        exact (BN.set x.d l (.obj x.d.null x.d.null)).trans
          (ihO limit' flt (some l) size { x with r := r, d := x.d.set l (.obj x.d.null x.d.null) })
  | str size r =>
    simp only [leafStr]
    cases gate flt.allowValue dst with
    | none => exact bn_skipN { x with r := r } size
    | some l => exact bn_leafStr env l size { x with r := r }
  | bin sb ie hb size r =>
    simp only [leafBin]
    cases gate flt.allowValue dst with
    | none => exact bn_skipN { x with r := r } _
    | some l => exact bn_leafBin env l code sb ie hb size { x with r := r }

theorem bn_elemSlot (ea : Option Loc) (x : S) : BN x.d (elemSlot ea x).2.d := by
  unfold elemSlot
  cases ea with
  | none => exact BN.refl _
  | some l =>
    simp only
    have h01 : BN x.d (x.d.addElement l).2 := fun h => addElement_bytesNodup l h
    split
    · rename_i d1 heq; rw [heq] at h01; exact h01
    · rename_i id d1 heq; rw [heq] at h01; exact h01

theorem bn_memSlot (oa : Option Loc) (x : S) (key : List Byte) : BN x.d (memSlot oa x key).2.d := by
  unfold memSlot
  cases oa with
  | none => exact BN.refl _
  | some l =>
    simp only
    refine (bn_save x key).trans ?_
    have := JDDF.addMemberNode_strings (save x key).2.d l (save x key).1
    generalize JDD.addMemberNode (save x key).2.d l (save x key).1 = r at this
    obtain ⟨o, d2⟩ := r
    cases o <;> exact BN.of_strings this

theorem ba_succ (env : MD.Env) (f : Nat) (ihV : BVs env f) (ihA : BAs env f) : BAs env (f+1) := by
  intro limit ef arr n x
  rw [readArray_succ]
  split
  · exact BN.refl _
  have h1 := bn_elemSlot (gate ef.allow arr) x
  generalize elemSlot (gate ef.allow arr) x = q at h1
  obtain ⟨o, x1⟩ := q
  cases o with
  | none => exact h1
  | some dst =>
    simp only
    have h2 := ihV limit ef dst x1
    split
    · rename_i x2 fd heq
      rw [heq] at h2
      exact h1.trans (h2.trans (ihA limit ef arr (n - 1) x2))
    · rename_i e x2 fd hne heq
      rw [heq] at h2
      exact h1.trans h2

theorem bo_succ (env : MD.Env) (f : Nat) (ihV : BVs env f) (ihO : BOs env f) : BOs env (f+1) := by
  intro limit flt obj n x
  rw [readObject_succ]
  split
  · exact BN.refl _
  generalize x.r.read = rd
  obtain ⟨_ | code, r0⟩ := rd
  · exact BN.refl _
  simp only
  generalize MD.keyLenOf_d3 code r0 = kl
  obtain ⟨_ | _ | len, r1⟩ := kl
  · exact BN.refl _
  · exact BN.refl _
  simp only
  have rs := bn_readString env { x with r := r1 } len
  split
  · rename_i key x1 heq
    rw [heq] at rs
    have h0 : BN x.d x1.d := rs
    have h1 := bn_memSlot (gate (flt.subKey key).allow obj) x1 key
    generalize memSlot (gate (flt.subKey key).allow obj) x1 key = q at h1
    obtain ⟨o, x2⟩ := q
    cases o with
    | none => exact h0.trans h1
    | some dst =>
      simp only
      have h2 := ihV limit (flt.subKey key) dst x2
      split
      · rename_i x3 fd heq3
        rw [heq3] at h2
        exact h0.trans (h1.trans (h2.trans (ihO limit flt obj (n - 1) x3)))
      · rename_i e x3 fd hne heq3
        rw [heq3] at h2
        exact h0.trans (h1.trans h2)
  · rename_i e key x1 hne heq
    rw [heq] at rs
    exact rs

theorem bn_all (env : MD.Env) : ∀ fuel, BVs env fuel ∧ BAs env fuel ∧ BOs env fuel := by
  intro fuel
  induction fuel with
  | zero =>
    refine ⟨?_, ?_, ?_⟩
    · intro limit flt dst x; simp only [parseVariant]; exact BN.refl _
    · intro limit ef arr n x; simp only [readArray]; exact BN.refl _
    · intro limit flt obj n x; simp only [readObject]; exact BN.refl _
  | succ f ih =>
    obtain ⟨ihV, ihA, ihO⟩ := ih
    exact ⟨bv_succ env f ihA ihO, ba_succ env f ihV ihA, bo_succ env f ihV ihO⟩

/-- (b) for EVERY run (failures included): no two entries of the string table of the result have the same bytes -/
theorem run_bytes_nodup (env : MD.Env) (limit : Nat) (flt : Flt) (d : Doc) (input : List Byte) :
    ((run env limit flt d input).2.1.strings.map (·.bytes)).Nodup := by
  have h := (bn_all env (2 * input.length + 4)).1 limit flt (some .root) (start d input)
  have h0 : BytesNodup (start d input).d := by
    show (d.clearAll.strings.map (·.bytes)).Nodup
    rw [(clearAll_spec d).2.2.2.2.2.1]; exact List.nodup_nil
  have h1 : BytesNodup (stop env limit flt d input).2.1.d := h h0
  rw [run_eq]
  show ((preShrink env limit flt d input).strings.map (·.bytes)).Nodup
  rw [(preShrink_pleq env limit flt d input).1.strings]
  exact h1

/-! ## (a), (c): exact reference counts, no leaked slot - `JDDF.Tight` through the StringBuffer's `save` -/

/-- `StringBuffer::save` keeps exact counts exact, with one more reference to the node it returns -/
theorem mp_save_exact (x : S) (bytes : List Byte) {rs : List Nat} (hs : StrOK x.d rs) (he : Exact x.d rs) :
    Exact (save x bytes).2.d ((save x bytes).1 :: rs) := by
  have hs' : StrOK (JDD.calm x.d bytes.length) rs := StrOK_congr (d := x.d) (d' := JDD.calm x.d bytes.length) rfl rfl hs
  have he' : Exact (JDD.calm x.d bytes.length) rs := he
  cases hf : x.d.strings.find? (·.bytes == bytes) with
  | some y =>
    have hf' : (JDD.calm x.d bytes.length).strings.find? (·.bytes == bytes) = some y := hf
    have := saveString_exact hs' he' (saveString_found hf')
    rw [MDD.mp_save_eq_found hf]; exact this
  | none =>
    have hf' : (JDD.calm x.d bytes.length).strings.find? (·.bytes == bytes) = none := hf
    have hsv := saveString_short hf' (Nat.le_refl _)
    rw [JDD.calm_failsAt] at hsv
    simp only [Bool.false_eq_true, if_false] at hsv
    have := saveString_exact hs' he' hsv
    rw [MDD.mp_save_eq_new hf]; exact this

/-- a string or raw value: after a save (`SaveOp` that keeps the table exact) the node is stored on the empty location -/
theorem tight_save_set {x x' : JDD.S} {G : Forest} {l : Loc} {bytes : List Byte} {n : Nat} {v : VData}
    (sv : SaveOp x bytes n x') (hex : Exact x'.d (n :: x.d.strRefs G)) (w : WFG x.d G) (hl : isLoc G l)
    (hnull : x.d.get l = .null) (hvs : strOfV v = [n]) (t : Tight x.d G) : Tight (x'.d.set l v) G := by
  have hc : ∀ j, x'.d.cell j = x.d.cell j := fun j => by simp only [Doc.cell, sv.cells]
  refine ⟨?_, fun i hi => ?_⟩
  · exact set_gen_exact (d1 := x'.d) w hl (by rw [hnull]; rfl) sv.root (fun j _ => hc j) (by rw [hvs]; exact hex)
  · rw [set_g, set_pl, sv.g] at hi
    have hi' : PL.live x.d.g x.d.pl i := (live_congr sv.pools sv.free i).1 hi
    rcases t.noleak i hi' with h1 | ⟨l0, h0, he⟩
    · exact Or.inl h1
    · by_cases e : l0 = l
      · subst e; rw [hnull] at he; cases he
      · refine Or.inr ⟨l0, h0, ?_⟩
        rw [get_set_ne e]
        cases l0 with
        | root => show i ∈ extOfV x'.d.root; rw [sv.root]; exact he
        | slot j => rw [get_of_cell (hc j)]; exact he

/-- the member `(key, null)` appended to the object being built at `l`: from the state before the save to the state after
    `addMember` succeeded (`JDDF.Tight.addMember` for any save operation that keeps the table exact) -/
theorem tight_addMember {d0 : Doc} {F : Forest} {l : Loc} {s : Forest} {x x' : JDD.S} {n h t v k0 : Nat} {d2 : Doc}
    (key : List Byte) (C : Ctx d0 F l) (B : Built d0 F l x.d s) (hv : x.d.get l = .obj h t) (sv : SaveOp x key n x')
    (hex : Exact x.d (x.d.strRefs (replaceAt F l s)) → Exact x'.d (n :: x.d.strRefs (replaceAt F l s)))
    (ham : JDD.addMemberNode x'.d l n = (some v, d2))
    (B2 : Built d0 F l d2 (s.snoc (some k0) v)) (hgv : d2.get (.slot v) = .null) (hgl : ∃ h', d2.get l = .obj h' v)
    (hsame : SameV x'.d d2 s.ids) (hgk : d2.get (.slot k0) = .owned n)
    (hstr : d2.strings = x'.d.strings) (hk0 : k0 ∉ s.ids) (hv0 : v ∉ s.ids)
    (t' : Tight x.d (replaceAt F l s)) : Tight d2 (replaceAt F l (s.snoc (some k0) v)) := by
  obtain ⟨B', _, hget⟩ := B.save C sv
  obtain ⟨h', hgl⟩ := hgl
  have hs : ∀ j ∈ s.ids, d2.get (.slot j) = x.d.get (.slot j) := fun j hj => (hsame j hj).1.trans (hget (.slot j))
  have hmem : ∀ y, y ∈ (s.snoc (some k0) v).ids ↔ y ∈ s.ids ∨ y ∈ [k0, v] := by
    intro y
    rw [Forest.ids_snoc]
    simp only [Forest.keyL, List.cons_append, List.nil_append, List.mem_append, List.mem_cons, List.not_mem_nil, or_false]
  have hnd2 : (s.snoc (some k0) v).ids.Nodup := by
    have := layoutAt_nodup B2.wf.nodup (C.loc' (s.snoc (some k0) v)); rw [C.lay] at this; exact this
  have hk0v : k0 ≠ v := by
    rw [Forest.ids_snoc] at hnd2
    have := (List.nodup_append.1 hnd2).2.1
    simp only [Forest.keyL, List.cons_append, List.nil_append, List.nodup_cons, List.mem_singleton] at this
    exact this.1
  have hle : extOfV (x.d.get l) = [] := by rw [hv]; rfl
  have hk0G2 : k0 ∈ (replaceAt F l (s.snoc (some k0) v)).ids :=
    (C.mem_ids _ k0).2 (Or.inr ((hmem k0).2 (Or.inr (by simp))))
  -- the allocator: two new live slots
  have gS : x'.d.g = x.d.g := sv.g
  have g2 : d2.g = x.d.g := B2.g.trans B.g.symm
  obtain ⟨k, hkv, hlv⟩ := JDDF.addMemberNode_live (B'.gok C) B'.wf.pool ham
  have hlv' : ∀ y, PL.live d2.g d2.pl y ↔ PL.live x.d.g x.d.pl y ∨ y = k ∨ y = v := by
    intro y
    have := hlv y
    rw [gS] at this
    rw [g2, this, live_congr sv.pools sv.free y]
  -- the key slot of the layout is the first of them
  have hkk : k0 = k := by
    rcases (hlv' k0).1 (B2.wf.live k0 hk0G2) with h1 | h1 | h1
    · exfalso
      rcases t'.noleak k0 h1 with h2 | ⟨l0, h0, he⟩
      · rcases (C.mem_ids s k0).1 h2 with h3 | h3
        · exact B2.fresh k0 ((hmem k0).2 (Or.inr (by simp))) h3
        · exact hk0 h3
      · by_cases e' : l0 = l
        · subst e'; rw [hle] at he; cases he
        · have hg0 := JDDF.built_same C B B2 hs l0 h0 e'
          have h0' : l0 ∈ holders (replaceAt F l (s.snoc (some k0) v)) := by
            rcases mem_holders.1 h0 with e1 | ⟨y, hy, e1⟩
            · exact mem_holders.2 (Or.inl e1)
            · refine mem_holders.2 (Or.inr ⟨y, ?_, e1⟩)
              rcases (C.mem_ids s y).1 hy with h3 | h3
              · exact (C.mem_ids _ y).2 (Or.inl h3)
              · exact (C.mem_ids _ y).2 (Or.inr ((hmem y).2 (Or.inl h3)))
          obtain ⟨⟨p, hp⟩, _, _⟩ := B2.wf.ext l0 h0' k0 (by rw [hg0]; exact he)
          exact ext_ne_var hp (B2.wf.isVar k0 hk0G2) rfl
    · exact h1
    · exact absurd h1 hk0v
  refine JDDF.Tight.built_step C B B2 hs (new := [k0, v]) ?_ hmem ?_ ?_ hle (extra := [n]) ?_ t'
    (Exact_congr hstr (hex t'.exact)) ?_
  · simp [hk0v]
  · intro y hy
    simp only [List.mem_cons, List.not_mem_nil, or_false] at hy
    rcases hy with rfl | rfl
    · exact hk0
    · exact hv0
  · rw [hgl, hv]; rfl
  · simp only [List.flatMap_cons, List.flatMap_nil, hgk, hgv, strOfV, List.append_nil]
  · intro y hy
    rcases (hlv' y).1 hy with h1 | h1 | h1
    · exact Or.inl h1
    · exact Or.inr (by rw [h1, ← hkk]; simp)
    · exact Or.inr (by rw [h1]; simp)

/-! ### canonical extension slots -/

/-- the value at `l` and the values of the slots built below it spend no extension slot on a 32-bit integer -/
def EB (d : Doc) (l : Loc) (s : Forest) : Prop :=
  extBigV d (d.get l) = true ∧ ∀ j ∈ s.ids, extBigV d (d.get (.slot j)) = true

/-- the step keeps `EB` -/
def ES (d : Doc) (l : Loc) (sin : Forest) (d' : Doc) (s : Forest) : Prop := EB d l sin → EB d' l s

theorem extBigV_congr {d d' : Doc} {v : VData} (hs : d'.scalar v = d.scalar v) : extBigV d' v = extBigV d v := by
  cases v <;> try rfl
  case i64 s =>
    simp only [Doc.scalar, JD.Val.num.injEq, JD.Num.sint.injEq] at hs
    simp only [extBigV, hs]
  case u64 s =>
    simp only [Doc.scalar, JD.Val.num.injEq, JD.Num.uint.injEq] at hs
    simp only [extBigV, hs]

theorem extBigV_cells {d d' : Doc} (hc : ∀ e, d'.cell e = d.cell e) (v : VData) : extBigV d' v = extBigV d v := by
  have he : ∀ e, d'.extOf e = d.extOf e := fun e => by simp only [Doc.extOf, hc]
  cases v <;> try rfl
  all_goals simp only [extBigV, he]

theorem extBigV_coll {v : VData} (hc : isColl v) (d : Doc) : extBigV d v = true := by
  cases v <;> first | rfl | exact hc.elim

theorem extBigV_noExt {v : VData} (he : extOfV v = []) (d : Doc) : extBigV d v = true := by
  cases v <;> first | rfl | (simp [extOfV] at he)

/-- what was built below the slot `j` of the collection at `l` is plugged into the layout of the collection -/
theorem EB.nest {d0 d1 d2 : Doc} {F : Forest} {l : Loc} {s1 s2 : Forest} {j : Nat} (C : Ctx d0 F l)
    (_B1 : Built d0 F l d1 s1) (B2 : Built d1 (replaceAt F l s1) (.slot j) d2 s2)
    (hl : extBigV d2 (d2.get l) = true) (e1 : EB d1 l s1) (e2 : EB d2 (.slot j) s2) : EB d2 l (s1.replaceSub j s2) := by
  refine ⟨hl, fun x hx => ?_⟩
  rcases JDD.ids_replaceSub_sub j s2 s1 x hx with h | h
  · by_cases e : x = j
    · subst e; exact e2.1
    · have hxc : x ∈ (replaceAt F l s1).ids := (C.mem_ids s1 x).2 (Or.inr h)
      have hne : Loc.slot x ≠ Loc.slot j := fun e' => e (by cases e'; rfl)
      rw [get_of_cell (B2.cells x hxc hne), extBigV_congr (B2.scal x hxc hne)]
      exact e1.2 x h
  · exact e2.2 x h

theorem extBigV_ext {d d' : Doc} {v : VData} (h : ∀ e ∈ extOfV v, d'.extOf e = d.extOf e) : extBigV d' v = extBigV d v := by
  cases v <;> try rfl
  case i64 s => simp only [extBigV, h s (by simp [extOfV])]
  case u64 s => simp only [extBigV, h s (by simp [extOfV])]

/-- slots handed out (and nothing else): what was built keeps its values and its extension payloads -/
theorem EB.grow {d0 d d' : Doc} {F : Forest} {l : Loc} {s : Forest} (C : Ctx d0 F l) (B : Built d0 F l d s)
    (hg : Grow d d') (e : EB d l s) : EB d' l s := by
  have key : ∀ l0 ∈ holders (replaceAt F l s), extBigV d (d.get l0) = true → extBigV d' (d'.get l0) = true := by
    intro l0 h0 h
    have hget : d'.get l0 = d.get l0 := by
      rcases mem_holders.1 h0 with e1 | ⟨x, hx, e1⟩
      · subst e1; exact hg.root
      · subst e1; exact get_of_cell (hg.cells x (B.wf.live x hx))
    rw [hget, extBigV_ext (d := d)]
    · exact h
    · intro e he
      simp only [Doc.extOf, hg.cells e (B.wf.ext l0 h0 e he).2.1]
  refine ⟨key l (loc_mem_holders (C.loc' s)) e.1, fun j hj => ?_⟩
  exact key (.slot j) (mem_holders.2 (Or.inr ⟨j, (C.mem_ids s j).2 (Or.inr hj), rfl⟩)) (e.2 j hj)

/-- a failed `addMember(StringNode*)` leaves what was built as it is -/
theorem addMemberNode_none_eb {d0 d : Doc} {F : Forest} {l : Loc} {s : Forest} (node : Nat) (C : Ctx d0 F l)
    (B : Built d0 F l d s) (h : (JDD.addMemberNode d l node).1 = none) : ES d l s (JDD.addMemberNode d l node).2 s := by
  have gok := B.gok C
  rcases JDD.addMemberNode_cases d l node with ⟨d1, hal1, e⟩ | ⟨k, d1, d2, hal1, hal2, e⟩ | ⟨k, d1, v, d2, hal1, hal2, e⟩
  · rw [e]
    exact fun eb => eb.grow C B (allocVariant_none gok B.wf.pool hal1).1
  · rw [e]
    obtain ⟨hg1, _⟩ := allocVariant_some gok B.wf.pool hal1
    have gok1 : PL.GeoOK d1.g := by rw [hg1.g]; exact gok
    exact fun eb => eb.grow C B (hg1.trans (allocVariant_none gok1 hg1.pool hal2).1)
  · rw [e] at h; cases h

/-- a failed `addElement` leaves what was built as it is -/
theorem addElement_none_eb {d0 d d1 : Doc} {F : Forest} {l : Loc} {s : Forest} (C : Ctx d0 F l)
    (B : Built d0 F l d s) (h : d.addElement l = (none, d1)) : ES d l s d1 s := by
  simp only [Doc.addElement] at h
  generalize hal : d.allocVariant = q at h
  obtain ⟨m, da⟩ := q
  cases m with
  | some j => simp at h
  | none =>
    simp only [Prod.mk.injEq, true_and] at h
    subst h
    exact fun eb => eb.grow C B (allocVariant_none (B.gok C) B.wf.pool hal).1

theorem EB.cells {d d' : Doc} {l : Loc} {s : Forest} (hget : ∀ l0, d'.get l0 = d.get l0) (hc : ∀ e, d'.cell e = d.cell e)
    (e : EB d l s) : EB d' l s :=
  ⟨by rw [hget, extBigV_cells hc]; exact e.1, fun j hj => by rw [hget, extBigV_cells hc]; exact e.2 j hj⟩

theorem EB.pleq {d d' : Doc} {l : Loc} {s : Forest} (h : PlEq d d') (e : EB d l s) : EB d' l s :=
  e.cells h.get h.cell

theorem EB.sameV {d d' : Doc} {s : Forest} (h : SameV d d' s.ids) (e : ∀ j ∈ s.ids, extBigV d (d.get (.slot j)) = true) :
    ∀ j ∈ s.ids, extBigV d' (d'.get (.slot j)) = true :=
  fun j hj => by rw [(h j hj).1, extBigV_congr (h j hj).2]; exact e j hj

/-- `setInteger` / `setFloat` on an empty location: an extension slot is only spent on a number that needs it -/
theorem setArg_extBig {d : Doc} {F : Forest} {l : Loc} {a : Arg} (w : WFG d F) (gok : PL.GeoOK d.g) (hl : isLoc F l)
    (hn : d.get l = .null) (ha : isNum a) : extBigV (d.setArg l a).2 ((d.setArg l a).2.get l) = true := by
  have plain : ∀ v, (∀ d', extBigV d' v = true) → extBigV (d.set l v) ((d.set l v).get l) = true :=
    fun v hv => by rw [get_set_self]; exact hv _
  have ext : ∀ (p : Int) (k : Nat → VData), (∀ (d' : Doc) e, d'.extOf e = p → extBigV d' (k e) = true) →
      extBigV (match d.allocExt p with | (some s, d) => (true, d.set l (k s)) | (none, d) => (false, d)).2
        ((match d.allocExt p with | (some s, d) => (true, d.set l (k s)) | (none, d) => (false, d)).2.get l) = true := by
    intro p k hk
    generalize hal : d.allocExt p = r
    obtain ⟨m, d1⟩ := r
    cases m with
    | none =>
      simp only
      have : d1.get l = .null := by
        simp only [Doc.allocExt] at hal
        split at hal
        · simp at hal
        · simp only [Prod.mk.injEq] at hal
          obtain ⟨_, rfl⟩ := hal
          rw [← hn]; exact DocSize.get_of_cells rfl rfl l
      rw [this]; rfl
    | some e =>
      simp only
      obtain ⟨_, _, _, hce, _, _, _, hnl, _⟩ := allocExt_spec w gok hal
      rw [get_set_self]
      refine hk _ e ?_
      have hc : (d1.set l (k e)).cell e = .ext p := by
        cases l with
        | root => exact hce
        | slot j =>
          have hj : j ≠ e := fun e' => hnl (e' ▸ w.live j (isLoc_ids hl))
          rw [cell_set_slot, if_neg hj]; exact hce
      simp only [Doc.extOf, hc]
  cases a with
  | uint v =>
    simp only [Doc.setArg]
    split
    · exact plain _ (fun _ => rfl)
    · rename_i hc
      refine ext v .u64 (fun d' e he => ?_)
      simp only [extBigV, he, Int.toNat_natCast, Bool.not_eq_true', decide_eq_false_iff_not]
      exact hc
  | sint v =>
    simp only [Doc.setArg]
    split
    · exact plain _ (fun _ => rfl)
    · rename_i hc
      refine ext v .i64 (fun d' e he => ?_)
      simp only [extBigV, he, Bool.not_eq_true', decide_eq_false_iff_not]
      exact hc
  | f32 b => exact plain _ (fun _ => rfl)
  | f64 b =>
    simp only [Doc.setArg]
    split
    · exact plain _ (fun _ => rfl)
    · exact ext b .f64 (fun _ _ _ => rfl)
  | null => exact absurd ha (fun h => h)
  | bool _ => exact absurd ha (fun h => h)
  | strLinked _ => exact absurd ha (fun h => h)
  | strCopied _ => exact absurd ha (fun h => h)
  | raw _ => exact absurd ha (fun h => h)

/-! ### the result of a parsing routine with a destination -/

/-- result `(c, x')` of a routine started in `x` (where the layout `sin` had been built at `l`): the invariant, the step
    keeps `Tight` unless an allocation failed, the step keeps the extension slots canonical (`EB`), and the accounting -/
structure XRes (d0 : Doc) (F : Forest) (l : Loc) (x : S) (sin : Forest) (c : Code) (x' : S) : Prop where
  built : ∃ s, Built d0 F l x'.d s ∧ TS x.d (replaceAt F l sin) x'.d (replaceAt F l s) ∧ ES x.d l sin x'.d s
  fx : Fx x.d x.b x'.d x'.b c

theorem XRes.exit {d0 : Doc} {F : Forest} {l : Loc} {x x' : S} {sin s : Forest} {c : Code} (B : Built d0 F l x'.d s)
    (fx : Fx x.d x.b x'.d x'.b c) (ts : TS x.d (replaceAt F l sin) x'.d (replaceAt F l s)) (es : ES x.d l sin x'.d s) :
    XRes d0 F l x sin c x' := ⟨⟨s, B, ts, es⟩, fx⟩

theorem XRes.of_eq {d0 : Doc} {F : Forest} {l : Loc} {x x'' x' : S} {sin : Forest} {c : Code} (hd : x''.d = x.d)
    (hb : x''.b = x.b) (h : XRes d0 F l x'' sin c x') : XRes d0 F l x sin c x' :=
  ⟨by rw [← hd]; exact h.built, by rw [← hd, ← hb]; exact h.fx⟩

theorem XRes.step {d0 : Doc} {F : Forest} {l : Loc} {x x1 x' : S} {sin s1 : Forest} {c : Code}
    (fx : Fx x.d x.b x1.d x1.b .ok) (ts : TS x.d (replaceAt F l sin) x1.d (replaceAt F l s1))
    (es : ES x.d l sin x1.d s1) (h : XRes d0 F l x1 s1 c x') : XRes d0 F l x sin c x' := by
  obtain ⟨s, B, ts2, es2⟩ := h.built
  exact ⟨⟨s, B, ts.trans ts2 h.fx.ovs, fun e => es2 (es e)⟩, fx.trans h.fx⟩

/-- allocator traffic only (a value without a destination): what was built is still there, and still tight -/
theorem NRes.liftX {d0 : Doc} {F : Forest} {l : Loc} {x x' : S} {s : Forest} {c : Code} (B : Built d0 F l x.d s)
    (h : NRes x c x') : XRes d0 F l x s c x' :=
  ⟨⟨s, B.pleq h.pleq, fun _ t => t.pleq h.pleq, fun e => e.pleq h.pleq⟩, h.fx⟩

/-- silent allocator traffic, then the routine -/
theorem XRes.after {d0 : Doc} {F : Forest} {l : Loc} {x x1 x' : S} {s : Forest} {c : Code} (h1 : NRes x .ok x1)
    (h2 : XRes d0 F l x1 s c x') : XRes d0 F l x s c x' :=
  XRes.step h1.fx (fun _ t => t.pleq h1.pleq) (fun e => e.pleq h1.pleq) h2

/-! ### the leaves -/

/-- `setInteger` / `setFloat` on the empty location -/
theorem x_store {d0 : Doc} {F : Forest} {l : Loc} {x : S} (C : Ctx d0 F l) (B : Built d0 F l x.d .nil)
    (hn : x.d.get l = .null) {a : Arg} (ha : isNum a) : XRes d0 F l x .nil (store x l a).1 (store x l a).2 := by
  have R := MDD.store_res C B hn ha
  obtain ⟨b1, _, _, b4, _, _⟩ := B.setArg_num C hn ha
  obtain ⟨w, hs⟩ := B.get_nil C
  refine ⟨⟨.nil, b1, ?_, fun _ => ⟨setArg_extBig w (B.gok C) C.loc hn ha, fun j hj => by cases hj⟩⟩, R.fx⟩
  intro ho t
  have hok : (x.d.setArg l a).1 = true := by
    cases hh : (x.d.setArg l a).1 with
    | true => rfl
    | false => have := b4 hh; rw [show (x.d.setArg l a).2.overflowed = false from ho] at this; cases this
  rw [C.replace_nil] at t ⊢
  exact Tight.setArg_num w hs C.loc hn (B.gok C) ha hok t

/-- a value without resources on the empty location -/
theorem x_plain {d0 : Doc} {F : Forest} {l : Loc} {x : S} (C : Ctx d0 F l) (B : Built d0 F l x.d .nil)
    (hn : x.d.get l = .null) {v : VData} (hv : ¬ isColl v) (he : extOfV v = []) (hst : strOfV v = []) (r : MD.R)
    {c : Code} (hc : c ≠ .noMemory) : XRes d0 F l x .nil c { x with r := r, d := x.d.set l v } := by
  obtain ⟨w, hs⟩ := B.get_nil C
  refine XRes.exit (s := .nil) (B.set_plain C hn hv he hst) ((Fx.set _ _ _ _).code hc) ?_ ?_
  · intro _ t
    rw [C.replace_nil] at t ⊢
    exact t.set_plain w C.loc hn hst
  · refine fun _ => ⟨?_, fun j hj => by cases hj⟩
    rw [show ({ x with r := r, d := x.d.set l v } : S).d = x.d.set l v from rfl, get_set_self]
    exact extBigV_noExt he _

/-- nothing happened to the document -/
theorem x_same {d0 : Doc} {F : Forest} {l : Loc} {x x' : S} {s : Forest} {c : Code} (B : Built d0 F l x.d s)
    (hd : x'.d = x.d) (hb : x'.b = x.b) (hc : c ≠ .noMemory) : XRes d0 F l x s c x' :=
  (NRes.same hd hb hc).liftX B

theorem x_leafInt {d0 : Doc} {F : Forest} {l : Loc} {x : S} (C : Ctx d0 F l) (B : Built d0 F l x.d .nil)
    (hn : x.d.get l = .null) (w c : Nat) : XRes d0 F l x .nil (MDD.leafInt l x w c).1 (MDD.leafInt l x w c).2.1 := by
  unfold MDD.leafInt
  generalize x.r.readBytes w = q
  obtain ⟨o, r⟩ := q
  cases o with
  | none => exact x_same B rfl rfl (by simp [fin])
  | some bs =>
    simp only
    split
    · rename_i n _
      exact XRes.of_eq (x'' := { x with r := r }) rfl rfl (x_store (x := { x with r := r }) C B hn (a := .uint n) trivial)
    · rename_i n _
      exact XRes.of_eq (x'' := { x with r := r }) rfl rfl (x_store (x := { x with r := r }) C B hn (a := .sint n) trivial)
    · exact x_same B rfl rfl (by simp [fin])

theorem x_leafF32 {d0 : Doc} {F : Forest} {l : Loc} {x : S} (C : Ctx d0 F l) (B : Built d0 F l x.d .nil)
    (hn : x.d.get l = .null) : XRes d0 F l x .nil (MDD.leafF32 l x).1 (MDD.leafF32 l x).2.1 := by
  unfold MDD.leafF32
  generalize x.r.readBytes 4 = q
  obtain ⟨o, r⟩ := q
  cases o with
  | none => exact x_same B rfl rfl (by simp [fin])
  | some bs => exact x_plain C B hn (v := .f32 (MD.beNat bs)) (fun h => h) rfl rfl r (by simp [fin])

theorem x_leafF64 {d0 : Doc} {F : Forest} {l : Loc} {x : S} (C : Ctx d0 F l) (B : Built d0 F l x.d .nil)
    (hn : x.d.get l = .null) : XRes d0 F l x .nil (MDD.leafF64 l x).1 (MDD.leafF64 l x).2.1 := by
  unfold MDD.leafF64
  generalize x.r.readBytes 8 = q
  obtain ⟨o, r⟩ := q
  cases o with
  | none => exact x_same B rfl rfl (by simp [fin])
  | some bs =>
    exact XRes.of_eq (x'' := { x with r := r }) rfl rfl
      (x_store (x := { x with r := r }) C B hn (a := .f64 (MD.beNat bs)) trivial)

/-- `save` of the bytes in the buffer, then the store of the node (as a string or as a raw value) -/
theorem x_save_set {d0 : Doc} {F : Forest} {l : Loc} {x : S} (C : Ctx d0 F l) (B : Built d0 F l x.d .nil)
    (hn : x.d.get l = .null) (hb : x.b.isSome = true) (bytes : List Byte) (mk : Nat → VData)
    (hv : ∀ n, ¬ isColl (mk n)) (hve : ∀ n, extOfV (mk n) = []) (hvs : ∀ n, strOfV (mk n) = [n]) {c : Code}
    (hc : c ≠ .noMemory) :
    XRes d0 F l x .nil c { (save x bytes).2 with d := (save x bytes).2.d.set l (mk (save x bytes).1) } := by
  obtain ⟨B2, fx2⟩ := MDD.save_set_res C B hn hb bytes mk hv hve hvs
  obtain ⟨w, hs⟩ := B.get_nil C
  refine XRes.exit (s := .nil) B2 (fx2.code hc) ?_ ?_
  · intro _ t
    rw [C.replace_nil] at t ⊢
    exact tight_save_set (x := J x) (MDD.mp_save_spec x bytes) (mp_save_exact x bytes hs t.exact) w C.loc hn (hvs _) t
  · refine fun _ => ⟨?_, fun j hj => by cases hj⟩
    rw [show ({ (save x bytes).2 with d := (save x bytes).2.d.set l (mk (save x bytes).1) } : S).d =
      (save x bytes).2.d.set l (mk (save x bytes).1) from rfl, get_set_self]
    exact extBigV_noExt (hve _) _

theorem x_leafStr {d0 : Doc} {F : Forest} {l : Loc} {x : S} (env : MD.Env) (C : Ctx d0 F l) (B : Built d0 F l x.d .nil)
    (hn : x.d.get l = .null) (size : Nat) :
    XRes d0 F l x .nil (MDD.leafStr env l size x).1 (MDD.leafStr env l size x).2.1 := by
  unfold MDD.leafStr
  obtain ⟨rs, hbs⟩ := readString_res env x size
  split
  · rename_i bs x1 heq
    rw [heq] at rs hbs
    simp only at rs hbs
    exact XRes.after rs (x_save_set C (B.pleq rs.pleq) ((rs.pleq.get l).trans hn) (hbs trivial) bs VData.owned
      (fun _ h => h) (fun _ => rfl) (fun _ => rfl) (by simp [fin]))
  · rename_i e bs x1 hne heq
    rw [heq] at rs
    exact rs.liftX B

theorem x_leafBin {d0 : Doc} {F : Forest} {l : Loc} {x : S} (env : MD.Env) (C : Ctx d0 F l) (B : Built d0 F l x.d .nil)
    (hn : x.d.get l = .null) (code : Byte) (sb : Nat) (ie : Bool) (hb : List Byte) (size : Nat) :
    XRes d0 F l x .nil (MDD.leafBin env l code sb ie hb size x).1 (MDD.leafBin env l code sb ie hb size x).2.1 := by
  unfold MDD.leafBin
  simp only
  obtain ⟨ro, hok, hfail⟩ := MDD.mp_reserve_spec env.maxStrLen x (1 + sb + (if ie = true then size + 1 else size))
  generalize reserve env.maxStrLen x (1 + sb + (if ie = true then size + 1 else size)) = q at ro hok hfail
  obtain ⟨ok, x1⟩ := q
  simp only at ro hok hfail
  have B1 : Built d0 F l x1.d .nil := B.pleq ro.pleq
  have blk : Blk x.d → Blk x1.d := JDD.Blk.of_pleq ro.pleq.pools ro.ovs
  have ts1 : TS x.d (replaceAt F l .nil) x1.d (replaceAt F l .nil) := fun _ t => t.pleq ro.pleq
  have es1 : ES x.d l .nil x1.d .nil := fun e => e.pleq ro.pleq
  cases ok with
  | false =>
    obtain ⟨_, ho⟩ := hfail rfl
    exact XRes.exit B1 (Fx.fail ro.bal ho) ts1 es1
  | true =>
    obtain ⟨hb1, ho⟩ := hok rfl
    have fx1 : Fx x.d x.b x1.d x1.b .ok := ⟨ro.bal, ro.ovs, fun _ => ho, (fun h => by cases h), blk⟩
    simp only
    generalize x1.r.readBytes (if ie = true then size + 1 else size) = q
    obtain ⟨o, r⟩ := q
    cases o with
    | none => exact XRes.exit B1 (fx1.code (by simp [fin])) ts1 es1
    | some bs =>
      exact XRes.step fx1 ts1 es1 (XRes.of_eq (x'' := { x1 with r := r }) rfl rfl
        (x_save_set (x := { x1 with r := r }) C B1 ((ro.pleq.get l).trans hn) hb1 (code :: hb ++ bs) VData.raw
          (fun _ h => h) (fun _ => rfl) (fun _ => rfl) (by simp [fin])))

/-! ### the statements, by fuel (with a destination; without one: `MDDF.parse_none`) -/

def XVs (env : MD.Env) (fuel : Nat) : Prop := ∀ (limit : Nat) (flt : Flt) (l : Loc) (x : S) (d0 : Doc) (F : Forest),
  Ctx d0 F l → Built d0 F l x.d .nil → x.d.get l = .null →
    XRes d0 F l x .nil (parseVariant env fuel limit flt (some l) x).1 (parseVariant env fuel limit flt (some l) x).2.1

def XAs (env : MD.Env) (fuel : Nat) : Prop := ∀ (limit : Nat) (ef : Flt) (l : Loc) (n : Nat) (x : S) (d0 : Doc)
  (F s : Forest) (h t : Nat), Ctx d0 F l → Built d0 F l x.d s → x.d.get l = .arr h t →
    XRes d0 F l x s (readArray env fuel limit ef (some l) n x).1 (readArray env fuel limit ef (some l) n x).2

def XOs (env : MD.Env) (fuel : Nat) : Prop := ∀ (limit : Nat) (flt : Flt) (l : Loc) (n : Nat) (x : S) (d0 : Doc)
  (F s : Forest) (h t : Nat), Ctx d0 F l → Built d0 F l x.d s → x.d.get l = .obj h t →
    XRes d0 F l x s (readObject env fuel limit flt (some l) n x).1 (readObject env fuel limit flt (some l) n x).2

/-- parsing into the fresh slot `v` of the collection being built at `l` -/
theorem sub_parse_x {env : MD.Env} {f : Nat} (ihV : XVs env f) {d0 : Doc} {F : Forest} {l : Loc} {x : S} {s : Forest}
    {v : Nat} (limit : Nat) (flt : Flt) (C : Ctx d0 F l) (B : Built d0 F l x.d s) (hv : v ∈ s.locs)
    (hn : x.d.get (.slot v) = .null) :
    (∃ s', Built d0 F l (parseVariant env f limit flt (some (.slot v)) x).2.1.d s' ∧
      TS x.d (replaceAt F l s) (parseVariant env f limit flt (some (.slot v)) x).2.1.d (replaceAt F l s') ∧
      (isColl (x.d.get l) → ES x.d l s (parseVariant env f limit flt (some (.slot v)) x).2.1.d s')) ∧
    (parseVariant env f limit flt (some (.slot v)) x).2.1.d.get l = x.d.get l ∧
    Fx x.d x.b (parseVariant env f limit flt (some (.slot v)) x).2.1.d (parseVariant env f limit flt (some (.slot v)) x).2.1.b
      (parseVariant env f limit flt (some (.slot v)) x).1 := by
  have C1 := B.ctx_in C hv hn
  have R := ihV limit flt (.slot v) x x.d (replaceAt F l s) C1 (JDD.built_start B.wf B.str C1) hn
  obtain ⟨s2, B2, ts, es⟩ := R.built
  obtain ⟨a, b⟩ := B.nest C hv B2
  have hvF : v ∉ F.ids := B.fresh v (s.locs_sub_ids v hv)
  rw [C1.replace_nil, JDD.replaceAt_nest s s2 hvF] at ts
  refine ⟨⟨_, a, ts, fun hc e1 => ?_⟩, b, R.fx⟩
  refine EB.nest C B B2 ?_ e1 (es ⟨by rw [hn]; rfl, fun j hj => by cases hj⟩)
  rw [b]
  exact extBigV_coll hc _

theorem xv_zero (env : MD.Env) : XVs env 0 := by
  intro limit flt l x d0 F C B hn
  simp only [parseVariant]
  exact x_same B rfl rfl (by simp)

theorem xa_zero (env : MD.Env) : XAs env 0 := by
  intro limit ef l n x d0 F s h t C B hn
  simp only [readArray]
  exact x_same B rfl rfl (by simp)

theorem xo_zero (env : MD.Env) : XOs env 0 := by
  intro limit flt l n x d0 F s h t C B hn
  simp only [readObject]
  exact x_same B rfl rfl (by simp)

theorem xv_succ (env : MD.Env) (f : Nat) (ihA : XAs env f) (ihO : XOs env f) : XVs env (f+1) := by
  intro limit flt l x d0 F C B hn
  rw [parseVariant_succ]
  generalize x.r.read = rd
  obtain ⟨_ | code, r0⟩ := rd
  · exact x_same B rfl rfl (by simp)
  simp only [MD.dispatch_eq]
  cases MD.classify code r0 with
  | int w c =>
    cases flt.allowValue with
    | false => exact XRes.of_eq (x'' := { x with r := r0 }) rfl rfl ((skipN_res { x with r := r0 } w).liftX B)
    | true => exact XRes.of_eq (x'' := { x with r := r0 }) rfl rfl (x_leafInt (x := { x with r := r0 }) C B hn w c)
  | nil => exact x_same B rfl rfl (by simp [fin])
  | invalid => exact x_same B rfl rfl (by simp [fin])
  | bool c =>
    cases flt.allowValue with
    | false => exact x_same B rfl rfl (by simp [leafBool, gate, fin])
    | true => exact x_plain C B hn (v := .bool (c == 0xc3)) (fun h => h) rfl rfl r0 (by simp [leafBool, gate, fin])
  | f32 =>
    cases flt.allowValue with
    | false => exact XRes.of_eq (x'' := { x with r := r0 }) rfl rfl ((skipN_res { x with r := r0 } 4).liftX B)
    | true => exact XRes.of_eq (x'' := { x with r := r0 }) rfl rfl (x_leafF32 (x := { x with r := r0 }) C B hn)
  | f64 =>
    cases flt.allowValue with
    | false => exact XRes.of_eq (x'' := { x with r := r0 }) rfl rfl ((skipN_res { x with r := r0 } 8).liftX B)
    | true => exact XRes.of_eq (x'' := { x with r := r0 }) rfl rfl (x_leafF64 (x := { x with r := r0 }) C B hn)
  | fix c =>
    cases flt.allowValue with
    | false => exact x_same B rfl rfl (by simp [leafFix, gate, fin])
    | true =>
      exact x_plain C B hn (v := .i32 (if c ≥ 0x80 then (c : Int) - 256 else c)) (fun h => h) rfl rfl r0
        (by simp [leafFix, gate, fin])
  | inc r => exact x_same B rfl rfl (by simp [fin])
  | arr size r =>
    simp only [leafArr]
    cases limit with
    | zero => exact x_same B rfl rfl (by simp [fin])
    | succ limit' =>
      simp only
      cases flt.allowArray with
      | false =>
        simp only [gate_false]
        exact XRes.of_eq (x'' := { x with r := r }) rfl rfl
          ((parse_none env f limit' flt.subIdx size { x with r := r }).2.1.liftX B)
      | true =>
        simp only [gate_true]
        obtain ⟨w, hs⟩ := B.get_nil C
        have B' : Built d0 F l (x.d.set l (.arr x.d.null x.d.null)) .nil := B.set_coll C hn false
        have ts' : TS x.d (replaceAt F l .nil) (x.d.set l (.arr x.d.null x.d.null)) (replaceAt F l .nil) := by
          intro _ t
          rw [C.replace_nil] at t ⊢
          exact t.set_plain w C.loc hn rfl
        exact XRes.step (x1 := { x with r := r, d := x.d.set l (.arr x.d.null x.d.null) }) (Fx.set _ _ _ _) ts'
          (fun _ => ⟨by rw [get_set_self]; rfl, fun j hj => by cases hj⟩)
          (ihA limit' flt.subIdx l size _ d0 F .nil _ _ C B' (get_set_self _ _ _))
  | map size r =>
    simp only [leafMap]
    cases limit with
    | zero => exact x_same B rfl rfl (by simp [fin])
    | succ limit' =>
      simp only
      cases flt.allowObject with
      | false =>
        simp only [gate_false]
        exact XRes.of_eq (x'' := { x with r := r }) rfl rfl
          ((parse_none env f limit' flt size { x with r := r }).2.2.liftX B)
      | true =>
        simp only [gate_true]
        obtain ⟨w, hs⟩ := B.get_nil C
        have B' : Built d0 F l (x.d.set l (.obj x.d.null x.d.null)) .nil := B.set_coll C hn true
        have ts' : TS x.d (replaceAt F l .nil) (x.d.set l (.obj x.d.null x.d.null)) (replaceAt F l .nil) := by
          intro _ t
          rw [C.replace_nil] at t ⊢
          exact t.set_plain w C.loc hn rfl
        exact XRes.step (x1 := { x with r := r, d := x.d.set l (.obj x.d.null x.d.null) }) (Fx.set _ _ _ _) ts'
          (fun _ => ⟨by rw [get_set_self]; rfl, fun j hj => by cases hj⟩)
          (ihO limit' flt l size _ d0 F .nil _ _ C B' (get_set_self _ _ _))
  | str size r =>
    cases flt.allowValue with
    | false => exact XRes.of_eq (x'' := { x with r := r }) rfl rfl ((skipN_res { x with r := r } size).liftX B)
    | true => exact XRes.of_eq (x'' := { x with r := r }) rfl rfl (x_leafStr (x := { x with r := r }) env C B hn size)
  | bin sb ie hb size r =>
    cases flt.allowValue with
    | false => exact XRes.of_eq (x'' := { x with r := r }) rfl rfl ((skipN_res { x with r := r } _).liftX B)
    | true =>
      exact XRes.of_eq (x'' := { x with r := r }) rfl rfl
        (x_leafBin (x := { x with r := r }) env C B hn code sb ie hb size)

/-- a skipped element, then the elements that follow it -/
theorem xa_skip {env : MD.Env} {f : Nat} (ihA : XAs env f) (limit : Nat) (ef : Flt) (l : Loc) (n : Nat) (x : S)
    {d0 : Doc} {F s : Forest} {h t : Nat} (C : Ctx d0 F l) (B : Built d0 F l x.d s) (hv : x.d.get l = .arr h t) :
    XRes d0 F l x s
      (match parseVariant env f limit ef none x with
        | (.ok, x, _) => readArray env f limit ef (some l) (n - 1) x
        | (e, x, _) => (e, x)).1
      (match parseVariant env f limit ef none x with
        | (.ok, x, _) => readArray env f limit ef (some l) (n - 1) x
        | (e, x, _) => (e, x)).2 := by
  have pv := (parse_none env f limit ef n x).1
  split
  · rename_i x2 fd heq
    rw [heq] at pv
    exact XRes.after pv (ihA limit ef l (n - 1) x2 d0 F s h t C (B.pleq pv.pleq) ((pv.pleq.get l).trans hv))
  · rename_i e x2 fd hne heq
    rw [heq] at pv
    exact pv.liftX B

theorem xa_succ (env : MD.Env) (f : Nat) (ihV : XVs env f) (ihA : XAs env f) : XAs env (f+1) := by
  intro limit ef l n x d0 F s h t C B hv
  rw [readArray_succ]
  split
  · exact x_same B rfl rfl (by simp)
  cases hb : ef.allow with
  | false =>
    simp only [gate_false, elemSlot_none]
    exact xa_skip ihA limit ef l n x C B hv
  | true =>
    simp only [gate_true, elemSlot]
    generalize heq : x.d.addElement l = q
    obtain ⟨o, d1⟩ := q
    cases o with
    | none =>
      obtain ⟨b1, ho, hnl⟩ := B.addElement_none C heq
      exact XRes.exit b1 (Fx.doc_fail _ hnl ho) (TS.of_ov ho) (addElement_none_eb C B heq)
    | some id =>
      simp only
      obtain ⟨B1, hgn, ⟨h', hgl⟩, hov, hnl, _, _, hbk, hsame⟩ := B.addElement_some C hv heq
      have hloc : id ∈ (s.snoc none id).locs := by rw [Forest.locs_snoc]; simp
      have fx01 : Fx x.d x.b d1 x.b .ok := Fx.doc _ hnl hov hbk
      have ts01 : TS x.d (replaceAt F l s) d1 (replaceAt F l (s.snoc none id)) :=
        fun _ t => Tight.addElement C B hv heq t
      have es01 : ES x.d l s d1 (s.snoc none id) := by
        intro e
        refine ⟨by rw [hgl]; rfl, fun j hj => ?_⟩
        rw [Forest.ids_snoc] at hj
        simp only [Forest.keyL, List.nil_append, List.mem_append, List.mem_singleton] at hj
        rcases hj with hj | rfl
        · exact EB.sameV hsame e.2 j hj
        · rw [hgn]; rfl
      have sp := sub_parse_x ihV limit ef C (x := { x with d := d1 }) B1 hloc hgn
      have hcl : isColl (d1.get l) := by rw [hgl]; trivial
      split
      · rename_i x2 fd heq2
        rw [heq2] at sp
        obtain ⟨⟨s2, B2, ts12, es12⟩, hg2, fx2⟩ := sp
        exact XRes.step (x1 := x2) (fx01.trans fx2) (ts01.trans ts12 fx2.ovs) (fun e => es12 hcl (es01 e))
          (ihA limit ef l (n - 1) x2 d0 F s2 _ _ C B2 (hg2.trans hgl))
      · rename_i e x2 fd hne heq2
        rw [heq2] at sp
        obtain ⟨⟨s2, B2, ts12, es12⟩, _, fx2⟩ := sp
        exact ⟨⟨s2, B2, ts01.trans ts12 fx2.ovs, fun e => es12 hcl (es01 e)⟩, fx01.trans fx2⟩

/-- the value of a skipped member, then the members that follow it -/
theorem xo_skip {env : MD.Env} {f : Nat} (ihO : XOs env f) (limit : Nat) (flt mf : Flt) (l : Loc) (n : Nat) (x : S)
    {d0 : Doc} {F s : Forest} {h t : Nat} (C : Ctx d0 F l) (B : Built d0 F l x.d s) (hv : x.d.get l = .obj h t) :
    XRes d0 F l x s
      (match parseVariant env f limit mf none x with
        | (.ok, x, _) => readObject env f limit flt (some l) (n - 1) x
        | (e, x, _) => (e, x)).1
      (match parseVariant env f limit mf none x with
        | (.ok, x, _) => readObject env f limit flt (some l) (n - 1) x
        | (e, x, _) => (e, x)).2 := by
  have pv := (parse_none env f limit mf n x).1
  split
  · rename_i x2 fd heq
    rw [heq] at pv
    exact XRes.after pv (ihO limit flt l (n - 1) x2 d0 F s h t C (B.pleq pv.pleq) ((pv.pleq.get l).trans hv))
  · rename_i e x2 fd hne heq
    rw [heq] at pv
    exact pv.liftX B

theorem xo_succ (env : MD.Env) (f : Nat) (ihV : XVs env f) (ihO : XOs env f) : XOs env (f+1) := by
  intro limit flt l n x d0 F s h t C B hv
  rw [readObject_succ]
  split
  · exact x_same B rfl rfl (by simp)
  generalize x.r.read = rd
  obtain ⟨_ | code, r0⟩ := rd
  · exact x_same B rfl rfl (by simp)
  simp only
  generalize MD.keyLenOf_d3 code r0 = kl
  obtain ⟨_ | _ | len, r1⟩ := kl
  · exact x_same B rfl rfl (by simp)
  · exact x_same B rfl rfl (by simp)
  simp only
  obtain ⟨rs, hbs⟩ := readString_res env { x with r := r1 } len
  split
  · rename_i key x1 heq
    rw [heq] at rs hbs
    have hb1 := hbs rfl
    simp only at rs hb1
    have rs' : NRes x .ok x1 := NRes.of_eq (x'' := { x with r := r1 }) rfl rfl rs
    have B1 : Built d0 F l x1.d s := B.pleq rs'.pleq
    have hv1 : x1.d.get l = .obj h t := (rs'.pleq.get l).trans hv
    refine XRes.after rs' ?_
    cases hb : (flt.subKey key).allow with
    | false =>
      simp only [gate_false, memSlot_none]
      exact xo_skip ihO limit flt _ l n x1 C B1 hv1
    | true =>
      simp only [gate_true, memSlot]
      have sv := MDD.mp_save_spec x1 key
      obtain ⟨B', hp, hget⟩ := B1.save (x := J x1) C sv
      have fxs : Fx x1.d x1.b (save x1 key).2.d (save x1 key).2.b .ok := Fx.save sv hb1
      have hv2 : (save x1 key).2.d.get l = .obj h t := (hget l).trans hv1
      simp only [MDD.J_d] at B' hp hget
      obtain ⟨m1, m2, m3, m4⟩ := B'.addMemberNode C hp hv2
      have tam := fun (v k0 : Nat) (d2 : Doc) => tight_addMember (x := J x1) (x' := J (save x1 key).2) (v := v) (k0 := k0)
        (d2 := d2) key C B1 hv1 sv (fun he => mp_save_exact x1 key B1.str he)
      simp only [MDD.J_d] at tam
      have hcS : ∀ e, (save x1 key).2.d.cell e = x1.d.cell e := fun e => by
        have := sv.cells; simp only [MDD.J_d] at this; simp only [Doc.cell, this]
      have esS : ES x1.d l s (save x1 key).2.d s := fun e => e.cells hget hcS
      have esf := addMemberNode_none_eb (save x1 key).1 C B'
      generalize JDD.addMemberNode (save x1 key).2.d l (save x1 key).1 = r at m1 m2 m3 m4 tam esf
      obtain ⟨o, d2⟩ := r
      cases o with
      | none =>
        simp only
        obtain ⟨a1, a2⟩ := m1 rfl
        exact XRes.exit a1 (fxs.trans (Fx.doc_fail _ m3 a2)) (TS.of_ov a2) (fun e => esf rfl (esS e))
      | some v =>
        simp only
        obtain ⟨k, a1, a2, ⟨h', a3⟩, a4, a5, a6, a7, a8, a9⟩ := m2 v rfl
        have fx02 : Fx x1.d x1.b d2 (save x1 key).2.b .ok := fxs.trans (Fx.doc _ m3 a4 m4)
        have ts02 : TS x1.d (replaceAt F l s) d2 (replaceAt F l (s.snoc (some k) v)) :=
          fun _ t' => tam v k d2 rfl a1 a2 ⟨h', a3⟩ a5 a6 a7 a8 a9 t'
        have es02 : ES x1.d l s d2 (s.snoc (some k) v) := by
          intro e
          have e' := esS e
          refine ⟨by rw [a3]; rfl, fun j hj => ?_⟩
          rw [Forest.ids_snoc] at hj
          simp only [Forest.keyL, List.cons_append, List.nil_append, List.mem_append, List.mem_cons, List.not_mem_nil,
            or_false] at hj
          rcases hj with hj | rfl | rfl
          · exact EB.sameV a5 e'.2 j hj
          · rw [a6]; rfl
          · rw [a2]; rfl
        have hvl : v ∈ (s.snoc (some k) v).locs := by rw [Forest.locs_snoc]; simp
        have sp := sub_parse_x ihV limit (flt.subKey key) C (x := { (save x1 key).2 with d := d2 }) a1 hvl a2
        have hcl : isColl (d2.get l) := by rw [a3]; trivial
        split
        · rename_i x3 fd heq3
          rw [heq3] at sp
          obtain ⟨⟨s3, B3, ts23, es23⟩, hg3, fx3⟩ := sp
          exact XRes.step (x1 := x3) (fx02.trans fx3) (ts02.trans ts23 fx3.ovs) (fun e => es23 hcl (es02 e))
            (ihO limit flt l (n - 1) x3 d0 F s3 _ _ C B3 (hg3.trans a3))
        · rename_i e x3 fd hne heq3
          rw [heq3] at sp
          obtain ⟨⟨s3, B3, ts23, es23⟩, _, fx3⟩ := sp
          exact ⟨⟨s3, B3, ts02.trans ts23 fx3.ovs, fun e => es23 hcl (es02 e)⟩, fx02.trans fx3⟩
  · rename_i e key x1 hne heq
    rw [heq] at rs
    have rs' : NRes x e x1 := NRes.of_eq (x'' := { x with r := r1 }) rfl rfl rs
    exact rs'.liftX B

/-- the strengthened invariant through the whole mutual block, for every fuel and every filter -/
theorem x_all (env : MD.Env) : ∀ fuel, XVs env fuel ∧ XAs env fuel ∧ XOs env fuel := by
  intro fuel
  induction fuel with
  | zero => exact ⟨xv_zero env, xa_zero env, xo_zero env⟩
  | succ f ih =>
    obtain ⟨ihV, ihA, ihO⟩ := ih
    exact ⟨xv_succ env f ihA ihO, xa_succ env f ihV ihA, xo_succ env f ihV ihO⟩

/-! ### `run` -/

/-- (a)+(c) with the well-formedness and the canonical use of extension slots, for one and the same layout: when no allocation
    failed, the document `run` returns is well-formed, its reference counts are exact, none of its slots is leaked, and no
    extension slot is spent on an integer that fits 32 bits -/
theorem run_tight_canon (env : MD.Env) (limit : Nat) (flt : Flt) {d : Doc} (input : List Byte) (gok : PL.GeoOK d.g)
    (hp : PL.Inv d.g d.pl) (hov : (run env limit flt d input).2.1.overflowed = false) :
    ∃ F', WFG (run env limit flt d input).2.1 F' ∧
      StrOK (run env limit flt d input).2.1 ((run env limit flt d input).2.1.strRefs F') ∧
      Tight (run env limit flt d input).2.1 F' ∧ ExtBig (run env limit flt d input).2.1 F' := by
  obtain ⟨w, hs, hg, _, hr⟩ := JDD.clearAll_wf gok hp
  have C : Ctx d.clearAll .nil .root := ⟨List.nodup_nil, trivial, rfl, by rw [hg]; exact gok⟩
  have R := (x_all env (2 * input.length + 4)).1 limit flt .root (start d input) d.clearAll .nil C
    (JDD.built_start w hs C) hr
  obtain ⟨s, B, ts, es⟩ := R.built
  rw [run_overflowed] at hov
  have t1 : Tight (stop env limit flt d input).2.1.d (replaceAt .nil .root s) :=
    ts hov (by rw [C.replace_nil]; exact JDDF.clearAll_tight d)
  have e1 : EB (stop env limit flt d input).2.1.d .root s := es ⟨by rw [show (start d input).d.get .root = d.clearAll.root from rfl, hr]; rfl, fun j hj => by cases hj⟩
  have x1 : ExtBig (stop env limit flt d input).2.1.d (replaceAt .nil .root s) := by
    intro l0 h0
    rcases mem_holders.1 h0 with e | ⟨j, hj, e⟩
    · subst e; exact e1.1
    · subst e
      rcases (C.mem_ids s j).1 hj with h | h
      · cases h
      · exact e1.2 j h
  have hpl := (preShrink_pleq env limit flt d input).1
  obtain ⟨w1, s1, _⟩ := hpl.wfg B.wf B.str
  have t2 := t1.pleq hpl
  have x2 : ExtBig (preShrink env limit flt d input) (replaceAt .nil .root s) :=
    DocSize.ExtBig.congr (fun l0 _ => hpl.get l0) (fun _ _ e _ => by simp only [Doc.extOf, hpl.cell]) x1
  rw [run_eq]
  obtain ⟨w2, s2⟩ := JDD.shrink_wf w1 s1
  exact ⟨_, w2, s2, t2.shrink w1.pool, DocSize.ExtBig.congr (fun _ _ => rfl) (fun _ _ _ _ => rfl) x2⟩

theorem run_tight (env : MD.Env) (limit : Nat) (flt : Flt) {d : Doc} (input : List Byte) (gok : PL.GeoOK d.g)
    (hp : PL.Inv d.g d.pl) (hov : (run env limit flt d input).2.1.overflowed = false) :
    ∃ F', WFG (run env limit flt d input).2.1 F' ∧
      StrOK (run env limit flt d input).2.1 ((run env limit flt d input).2.1.strRefs F') ∧
      Tight (run env limit flt d input).2.1 F' := by
  obtain ⟨F', a, b, c, _⟩ := run_tight_canon env limit flt input gok hp hov
  exact ⟨F', a, b, c⟩

/-- (a) runs without allocation failure: every stored string's reference count is the number of references to it, and ≥ 1 -/
theorem run_exact (env : MD.Env) (limit : Nat) (flt : Flt) {d : Doc} (input : List Byte) (gok : PL.GeoOK d.g)
    (hp : PL.Inv d.g d.pl) (hov : (run env limit flt d input).2.1.overflowed = false) :
    ∃ F', WFG (run env limit flt d input).2.1 F' ∧
      StrOK (run env limit flt d input).2.1 ((run env limit flt d input).2.1.strRefs F') ∧
      Exact (run env limit flt d input).2.1 ((run env limit flt d input).2.1.strRefs F') := by
  obtain ⟨F', a, b, c⟩ := run_tight env limit flt input gok hp hov
  exact ⟨F', a, b, c.exact⟩

/-- (c) runs without allocation failure: no leaked slot - every slot that is live in the pools is a slot of the layout of the
    document, or an extension slot (64-bit integer / double payload) of one of its values -/
theorem run_no_leak (env : MD.Env) (limit : Nat) (flt : Flt) {d : Doc} (input : List Byte) (gok : PL.GeoOK d.g)
    (hp : PL.Inv d.g d.pl) (hov : (run env limit flt d input).2.1.overflowed = false) :
    ∃ F', WFG (run env limit flt d input).2.1 F' ∧
      ∀ i, PL.live (run env limit flt d input).2.1.g (run env limit flt d input).2.1.pl i →
        i ∈ F'.ids ∨ ∃ l0 ∈ holders F', i ∈ extOfV ((run env limit flt d input).2.1.get l0) := by
  obtain ⟨F', a, _, c⟩ := run_tight env limit flt input gok hp hov
  exact ⟨F', a, c.noleak⟩

/-- a consequence of (a): a string node exists exactly when some value or key of the document references it -/
theorem run_node_iff_referenced (env : MD.Env) (limit : Nat) (flt : Flt) {d : Doc} (input : List Byte)
    (gok : PL.GeoOK d.g) (hp : PL.Inv d.g d.pl) (hov : (run env limit flt d input).2.1.overflowed = false) :
    ∃ F', WFG (run env limit flt d input).2.1 F' ∧ ∀ m,
      (∃ n ∈ (run env limit flt d input).2.1.strings, n.id = m) ↔ m ∈ (run env limit flt d input).2.1.strRefs F' := by
  obtain ⟨F', a, b, c⟩ := run_tight env limit flt input gok hp hov
  exact ⟨F', a, fun m => node_iff_referenced b c.exact m⟩

end MDDF
