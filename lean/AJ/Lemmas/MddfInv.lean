/- The invariant of AJ/Lemmas/JddOps.lean (`JDD.Built`) pushed through the FILTERED slot-level MessagePack deserializer
   `MDDF.parseVariant / readArray / readObject` (AJ/Model/MDDF.lean), for every filter and every destination
   (`Option Loc`: `none` is the C++ null pointer), and through `MDDF.run`: for every input, every filter and every allocator
   failure schedule the document stays well-formed, the ledger balances, and `NoMemory` is reported exactly when the overflow
   flag was raised.
   With a destination (`some l`) the statement is the one of the unfiltered twin (`MDD.MRes`, AJ/Lemmas/MddInv.lean); without
   one (`none`) the document only sees the allocator traffic of the StringBuffer (`NRes`: `PlEq` + the accounting `Fx`),
   which every key goes through - also the keys of skipped members and of members of skipped objects.
   `MDDF.parseVariant (fuel+1)` is cut into the header dispatch `MD.dispatch` and one leaf per kind of token; the leaves with a
   destination are the ones of `MDD`, so every operation-level lemma is reused.
   Used by AJ/Props/C03FMpDoc.lean, AJ/Props/C05FMpDeser.lean, AJ/Props/C11MpSlot.lean. -/
import AJ.Model.MDDF
import AJ.Lemmas.MddInv
namespace MDDF
open DL
open JD (Byte Code Flt)
open JDD (PlEq LBd Fx Blk AllB SaveOp nl Ctx Built isNum)
open MDD (S reserve save readString store fin ROp MRes J)

/-! ## `parseVariant`, one step -/

/-- skipping `n` bytes of a value that is not stored -/
def skipN (x : S) (n : Nat) : Code × S :=
  match x.r.skipBytes n with
  | (true, r) => (.ok, { x with r := r })
  | (false, r) => (.incomplete, { x with r := r })

/-- the destination of a value the filter lets through (`allowValue`, `allowArray`, `allowObject`, `allow`) -/
def gate (b : Bool) (dst : Option Loc) : Option Loc := if b then dst else none

def leafInt (av : Option Loc) (x : S) (width c : Nat) : Code × S × Bool :=
  match av with
  | some l => MDD.leafInt l x width c
  | none => fin (skipN x width)

def leafBool (av : Option Loc) (x : S) (c : Nat) : Code × S × Bool :=
  match av with
  | some l => fin (.ok, { x with d := x.d.set l (.bool (c == 0xc3)) })
  | none => fin (.ok, x)

def leafF32 (av : Option Loc) (x : S) : Code × S × Bool :=
  match av with
  | some l => MDD.leafF32 l x
  | none => fin (skipN x 4)

def leafF64 (av : Option Loc) (x : S) : Code × S × Bool :=
  match av with
  | some l => MDD.leafF64 l x
  | none => fin (skipN x 8)

def leafFix (av : Option Loc) (x : S) (c : Nat) : Code × S × Bool :=
  match av with
  | some l => fin (.ok, { x with d := x.d.set l (.i32 (if c ≥ 0x80 then (c : Int) - 256 else c)) })
  | none => fin (.ok, x)

def leafArr (env : MD.Env) (fuel limit : Nat) (flt : Flt) (dst : Option Loc) (size : Nat) (x : S) : Code × S × Bool :=
  match limit with
  | 0 => fin (.tooDeep, x)
  | limit'+1 =>
    match gate flt.allowArray dst with
    | some l => fin (readArray env fuel limit' flt.subIdx (some l) size { x with d := x.d.set l (.arr x.d.null x.d.null) })
    | none => fin (readArray env fuel limit' flt.subIdx none size x)

def leafMap (env : MD.Env) (fuel limit : Nat) (flt : Flt) (dst : Option Loc) (size : Nat) (x : S) : Code × S × Bool :=
  match limit with
  | 0 => fin (.tooDeep, x)
  | limit'+1 =>
    match gate flt.allowObject dst with
    | some l => fin (readObject env fuel limit' flt (some l) size { x with d := x.d.set l (.obj x.d.null x.d.null) })
    | none => fin (readObject env fuel limit' flt none size x)

def leafStr (env : MD.Env) (av : Option Loc) (size : Nat) (x : S) : Code × S × Bool :=
  match av with
  | some l => MDD.leafStr env l size x
  | none => fin (skipN x size)

def leafBin (env : MD.Env) (av : Option Loc) (code : Byte) (sizeBytes : Nat) (isExt : Bool) (hb : List Byte) (size : Nat)
    (x : S) : Code × S × Bool :=
  match av with
  | some l => MDD.leafBin env l code sizeBytes isExt hb size x
  | none => fin (skipN x (if isExt then size + 1 else size))

set_option maxRecDepth 8000 in
theorem parseVariant_succ (env : MD.Env) (fuel limit : Nat) (flt : Flt) (dst : Option Loc) (x : S) :
    parseVariant env (fuel+1) limit flt dst x =
      match x.r.read with
      | (none, r) => (.incomplete, { x with r := r }, false)
      | (some code, r) =>
        MD.dispatch code r
          (fun width c => leafInt (gate flt.allowValue dst) { x with r := r } width c)
          (fin (.ok, { x with r := r })) (fin (.invalid, { x with r := r }))
          (fun c => leafBool (gate flt.allowValue dst) { x with r := r } c)
          (leafF32 (gate flt.allowValue dst) { x with r := r }) (leafF64 (gate flt.allowValue dst) { x with r := r })
          (fun c => leafFix (gate flt.allowValue dst) { x with r := r } c)
          (fun r => fin (.incomplete, { x with r := r }))
          (fun size r => leafArr env fuel limit flt dst size { x with r := r })
          (fun size r => leafMap env fuel limit flt dst size { x with r := r })
          (fun size r => leafStr env (gate flt.allowValue dst) size { x with r := r })
          (fun sizeBytes isExt hb size r =>
            leafBin env (gate flt.allowValue dst) code sizeBytes isExt hb size { x with r := r }) := by
  simp only [parseVariant, MD.dispatch, MD.hdrOf_d4, MD.size2Of, MD.size0Ext, MD.sizeBytesOf, leafInt, leafBool, leafF32,
    leafF64, leafFix, leafArr, leafMap, leafStr, leafBin, MDD.leafInt, MDD.leafF32, MDD.leafF64, MDD.leafStr, MDD.leafBin,
    fin, skipN, gate]
  rfl

/-! ## `readArray` / `readObject`, one step -/

/-- the slot of the next element: `none` when `addElement` failed, `some none` when the element is not stored -/
def elemSlot (ea : Option Loc) (x : S) : Option (Option Loc) × S :=
  match ea with
  | some l =>
    match x.d.addElement l with
    | (none, d) => (none, { x with d := d })
    | (some id, d) => (some (some (.slot id)), { x with d := d })
  | none => (some none, x)

theorem readArray_succ (env : MD.Env) (fuel limit : Nat) (ef : Flt) (arr : Option Loc) (n : Nat) (x : S) :
    readArray env (fuel+1) limit ef arr n x =
      if n == 0 then (.ok, x) else
      match elemSlot (gate ef.allow arr) x with
      | (none, x) => (.noMemory, x)
      | (some dst, x) =>
        match parseVariant env fuel limit ef dst x with
        | (.ok, x, _) => readArray env fuel limit ef arr (n - 1) x
        | (e, x, _) => (e, x) := by
  simp only [readArray, elemSlot, gate]
  rfl

/-- the slot of the next member's value: the key is saved and the member appended, or nothing is stored -/
def memSlot (oa : Option Loc) (x : S) (key : List Byte) : Option (Option Loc) × S :=
  match oa with
  | some l =>
    match JDD.addMemberNode (save x key).2.d l (save x key).1 with
    | (none, d) => (none, { (save x key).2 with d := d })
    | (some v, d) => (some (some (.slot v)), { (save x key).2 with d := d })
  | none => (some none, x)

set_option maxRecDepth 8000 in
theorem readObject_succ (env : MD.Env) (fuel limit : Nat) (flt : Flt) (obj : Option Loc) (n : Nat) (x : S) :
    readObject env (fuel+1) limit flt obj n x =
      if n == 0 then (.ok, x) else
      match x.r.read with
      | (none, r) => (.incomplete, { x with r := r })
      | (some code, r) =>
        match MD.keyLenOf_d3 code r with
        | (none, r) => (.invalid, { x with r := r })
        | (some none, r) => (.incomplete, { x with r := r })
        | (some (some len), r) =>
          match readString env { x with r := r } len with
          | (.ok, key, x) =>
            match memSlot (gate (flt.subKey key).allow obj) x key with
            | (none, x) => (.noMemory, x)
            | (some dst, x) =>
              match parseVariant env fuel limit (flt.subKey key) dst x with
              | (.ok, x, _) => readObject env fuel limit flt obj (n - 1) x
              | (e, x, _) => (e, x)
          | (e, _, x) => (e, x) := by
  simp only [readObject, MD.keyLenOf_d3, memSlot, gate]
  rfl

/-! ## The result of a parsing routine -/

/-- result `(c, x')` of a routine started in `x` WITHOUT a destination: the document only saw the allocator traffic of the
    StringBuffer (`PlEq`), with the accounting of AJ/Lemmas/JddInv.lean; any code but NoMemory leaves the flag alone -/
structure NRes (x : S) (c : Code) (x' : S) : Prop where
  pleq : PlEq x.d x'.d
  fx : Fx x.d x.b x'.d x'.b c
  quiet : c ≠ .noMemory → x'.d.overflowed = x.d.overflowed

/-- the reader moved, nothing else -/
theorem NRes.same {x x' : S} {c : Code} (hd : x'.d = x.d) (hb : x'.b = x.b) (hc : c ≠ .noMemory) : NRes x c x' := by
  refine ⟨by rw [hd]; exact PlEq.refl _, ?_, fun _ => by rw [hd]⟩
  rw [hd, hb]; exact (Fx.refl _ _).code hc

theorem NRes.of_eq {x x'' x' : S} {c : Code} (hd : x''.d = x.d) (hb : x''.b = x.b) (h : NRes x'' c x') : NRes x c x' :=
  ⟨by rw [← hd]; exact h.pleq, by rw [← hd, ← hb]; exact h.fx, fun hc => by rw [← hd]; exact h.quiet hc⟩

theorem NRes.step {x x1 x' : S} {c : Code} (h1 : NRes x .ok x1) (h2 : NRes x1 c x') : NRes x c x' :=
  ⟨h1.pleq.trans h2.pleq, h1.fx.trans h2.fx, fun hc => (h2.quiet hc).trans (h1.fx.ok rfl)⟩

/-- seen from an enclosing parse: what was built is still there -/
theorem NRes.lift {d0 : Doc} {F : Forest} {l : Loc} {x x' : S} {s : Forest} {c : Code} (B : Built d0 F l x.d s)
    (h : NRes x c x') : MRes d0 F l x c x' := ⟨⟨s, B.pleq h.pleq⟩, h.fx, h.quiet⟩

/-- result for a value parsed into the destination `dst` (empty), or skipped -/
def VRes (dst : Option Loc) (x : S) (c : Code) (x' : S) : Prop :=
  match dst with
  | some l => ∀ (d0 : Doc) (F : Forest), Ctx d0 F l → Built d0 F l x.d .nil → x.d.get l = .null → MRes d0 F l x c x'
  | none => NRes x c x'

/-- result for the elements appended to the array being built at `arr`, or skipped -/
def ARes (arr : Option Loc) (x : S) (c : Code) (x' : S) : Prop :=
  match arr with
  | some l => ∀ (d0 : Doc) (F s : Forest) (h t : Nat), Ctx d0 F l → Built d0 F l x.d s → x.d.get l = .arr h t →
      MRes d0 F l x c x'
  | none => NRes x c x'

/-- result for the members appended to the object being built at `obj`, or skipped -/
def ORes (obj : Option Loc) (x : S) (c : Code) (x' : S) : Prop :=
  match obj with
  | some l => ∀ (d0 : Doc) (F s : Forest) (h t : Nat), Ctx d0 F l → Built d0 F l x.d s → x.d.get l = .obj h t →
      MRes d0 F l x c x'
  | none => NRes x c x'

theorem VRes.same {dst : Option Loc} {x x' : S} {c : Code} (hd : x'.d = x.d) (hb : x'.b = x.b) (hc : c ≠ .noMemory) :
    VRes dst x c x' := by
  cases dst with
  | none => exact NRes.same hd hb hc
  | some l => exact fun d0 F _ B _ => (NRes.same hd hb hc).lift B

theorem VRes.of_eq {dst : Option Loc} {x x'' x' : S} {c : Code} (hd : x''.d = x.d) (hb : x''.b = x.b)
    (h : VRes dst x'' c x') : VRes dst x c x' := by
  cases dst with
  | none => exact NRes.of_eq hd hb h
  | some l =>
    exact fun d0 F C B hn => MRes.of_eq hd hb (h d0 F C (by rw [hd]; exact B) (by rw [hd]; exact hn))

theorem gate_true (dst : Option Loc) : gate true dst = dst := rfl
theorem gate_false (dst : Option Loc) : gate false dst = none := rfl
theorem gate_none (b : Bool) : gate b none = none := by cases b <;> rfl

/-- a value the filter does not let through is skipped whatever the destination -/
theorem VRes.of_none {dst : Option Loc} {x x' : S} {c : Code} (h : NRes x c x') : VRes dst x c x' := by
  cases dst with
  | none => exact h
  | some l => exact fun d0 F _ B _ => h.lift B

theorem VRes.gate {b : Bool} {dst : Option Loc} {x x' : S} {c : Code} (h : VRes (gate b dst) x c x') : VRes dst x c x' := by
  cases b with
  | true => exact h
  | false => exact VRes.of_none h

/-! ## The leaves -/

theorem skipN_d (x : S) (n : Nat) : (skipN x n).2.d = x.d := by unfold skipN; split <;> rfl
theorem skipN_b (x : S) (n : Nat) : (skipN x n).2.b = x.b := by unfold skipN; split <;> rfl
theorem skipN_code (x : S) (n : Nat) : (skipN x n).1 ≠ .noMemory := by unfold skipN; split <;> simp

theorem skipN_res (x : S) (n : Nat) : NRes x (fin (skipN x n)).1 (fin (skipN x n)).2.1 :=
  NRes.same (skipN_d x n) (skipN_b x n) (skipN_code x n)

theorem leafInt_res (av : Option Loc) (x : S) (w c : Nat) : VRes av x (leafInt av x w c).1 (leafInt av x w c).2.1 := by
  cases av with
  | none => exact skipN_res x w
  | some l => exact fun d0 F C B hn => MDD.leafInt_res C B hn w c

theorem leafBool_res (av : Option Loc) (x : S) (c : Nat) : VRes av x (leafBool av x c).1 (leafBool av x c).2.1 := by
  cases av with
  | none => exact NRes.same rfl rfl (by simp [leafBool, fin])
  | some l =>
    exact fun d0 F C B hn =>
      MRes.silent (B.set_plain C hn (v := .bool (c == 0xc3)) (fun h => h) rfl rfl) (Fx.set _ _ _ _)
        (by simp [leafBool, fin])

theorem leafF32_res (av : Option Loc) (x : S) : VRes av x (leafF32 av x).1 (leafF32 av x).2.1 := by
  cases av with
  | none => exact skipN_res x 4
  | some l => exact fun d0 F C B hn => MDD.leafF32_res C B hn

theorem leafF64_res (av : Option Loc) (x : S) : VRes av x (leafF64 av x).1 (leafF64 av x).2.1 := by
  cases av with
  | none => exact skipN_res x 8
  | some l => exact fun d0 F C B hn => MDD.leafF64_res C B hn

theorem leafFix_res (av : Option Loc) (x : S) (c : Nat) : VRes av x (leafFix av x c).1 (leafFix av x c).2.1 := by
  cases av with
  | none => exact NRes.same rfl rfl (by simp [leafFix, fin])
  | some l =>
    exact fun d0 F C B hn =>
      MRes.silent (B.set_plain C hn (v := .i32 (if c ≥ 0x80 then (c : Int) - 256 else c)) (fun h => h) rfl rfl)
        (Fx.set _ _ _ _) (by simp [leafFix, fin])

theorem leafStr_res (env : MD.Env) (av : Option Loc) (size : Nat) (x : S) :
    VRes av x (leafStr env av size x).1 (leafStr env av size x).2.1 := by
  cases av with
  | none => exact skipN_res x size
  | some l => exact fun d0 F C B hn => MDD.leafStr_res env C B hn size

theorem leafBin_res (env : MD.Env) (av : Option Loc) (code : Byte) (sb : Nat) (ie : Bool) (hb : List Byte) (size : Nat)
    (x : S) : VRes av x (leafBin env av code sb ie hb size x).1 (leafBin env av code sb ie hb size x).2.1 := by
  cases av with
  | none => exact skipN_res x _
  | some l => exact fun d0 F C B hn => MDD.leafBin_res env C B hn code sb ie hb size

/-- `readString(n)` without looking at the destination: only the StringBuffer's allocator traffic -/
theorem readString_res (env : MD.Env) (x : S) (n : Nat) :
    NRes x (readString env x n).1 (readString env x n).2.2 ∧
    ((readString env x n).1 = .ok → (readString env x n).2.2.b.isSome = true) := by
  obtain ⟨hpl, fx1, hb1, q1, _⟩ := MDD.mp_readString_spec env x n
  exact ⟨⟨hpl, fx1, q1⟩, hb1⟩

/-! ## The statements, by fuel -/

def PVs (env : MD.Env) (fuel : Nat) : Prop := ∀ (limit : Nat) (flt : Flt) (dst : Option Loc) (x : S),
  VRes dst x (parseVariant env fuel limit flt dst x).1 (parseVariant env fuel limit flt dst x).2.1

def PAs (env : MD.Env) (fuel : Nat) : Prop := ∀ (limit : Nat) (ef : Flt) (arr : Option Loc) (n : Nat) (x : S),
  ARes arr x (readArray env fuel limit ef arr n x).1 (readArray env fuel limit ef arr n x).2

def POs (env : MD.Env) (fuel : Nat) : Prop := ∀ (limit : Nat) (flt : Flt) (obj : Option Loc) (n : Nat) (x : S),
  ORes obj x (readObject env fuel limit flt obj n x).1 (readObject env fuel limit flt obj n x).2

theorem leafArr_res {env : MD.Env} {f : Nat} (ihA : PAs env f) (limit : Nat) (flt : Flt) (dst : Option Loc) (size : Nat)
    (x : S) : VRes dst x (leafArr env f limit flt dst size x).1 (leafArr env f limit flt dst size x).2.1 := by
  unfold leafArr
  cases limit with
  | zero => exact VRes.same rfl rfl (by simp [fin])
  | succ limit' =>
    cases dst with
    | none =>
      simp only [gate_none]
      exact ihA limit' flt.subIdx none size x
    | some l =>
      cases hb : flt.allowArray with
      | false =>
        simp only [gate_false]
        exact VRes.of_none (ihA limit' flt.subIdx none size x)
      | true =>
        simp only [gate_true]
        intro d0 F C B hn
        have B' : Built d0 F l (x.d.set l (.arr x.d.null x.d.null)) .nil := B.set_coll C hn false
        exact MRes.step (x1 := { x with d := x.d.set l (.arr x.d.null x.d.null) }) (Fx.set _ _ _ _)
          (ihA limit' flt.subIdx (some l) size _ d0 F .nil _ _ C B' (get_set_self _ _ _))

theorem leafMap_res {env : MD.Env} {f : Nat} (ihO : POs env f) (limit : Nat) (flt : Flt) (dst : Option Loc) (size : Nat)
    (x : S) : VRes dst x (leafMap env f limit flt dst size x).1 (leafMap env f limit flt dst size x).2.1 := by
  unfold leafMap
  cases limit with
  | zero => exact VRes.same rfl rfl (by simp [fin])
  | succ limit' =>
    cases dst with
    | none =>
      simp only [gate_none]
      exact ihO limit' flt none size x
    | some l =>
      cases hb : flt.allowObject with
      | false =>
        simp only [gate_false]
        exact VRes.of_none (ihO limit' flt none size x)
      | true =>
        simp only [gate_true]
        intro d0 F C B hn
        have B' : Built d0 F l (x.d.set l (.obj x.d.null x.d.null)) .nil := B.set_coll C hn true
        exact MRes.step (x1 := { x with d := x.d.set l (.obj x.d.null x.d.null) }) (Fx.set _ _ _ _)
          (ihO limit' flt (some l) size _ d0 F .nil _ _ C B' (get_set_self _ _ _))

/-- parsing into the fresh slot `v` of the collection being built at `l` -/
theorem sub_parse {env : MD.Env} {f : Nat} (ihV : PVs env f) {d0 : Doc} {F : Forest} {l : Loc} {x : S} {s : Forest}
    {v : Nat} (limit : Nat) (flt : Flt) (C : Ctx d0 F l) (B : Built d0 F l x.d s) (hv : v ∈ s.locs)
    (hn : x.d.get (.slot v) = .null) :
    (∃ s', Built d0 F l (parseVariant env f limit flt (some (.slot v)) x).2.1.d s') ∧
    (parseVariant env f limit flt (some (.slot v)) x).2.1.d.get l = x.d.get l ∧
    Fx x.d x.b (parseVariant env f limit flt (some (.slot v)) x).2.1.d (parseVariant env f limit flt (some (.slot v)) x).2.1.b
      (parseVariant env f limit flt (some (.slot v)) x).1 ∧
    ((parseVariant env f limit flt (some (.slot v)) x).1 ≠ .noMemory →
      (parseVariant env f limit flt (some (.slot v)) x).2.1.d.overflowed = x.d.overflowed) := by
  have C1 := B.ctx_in C hv hn
  have R := ihV limit flt (some (.slot v)) x x.d (replaceAt F l s) C1 (JDD.built_start B.wf B.str C1) hn
  obtain ⟨s2, B2⟩ := R.built
  obtain ⟨a, b⟩ := B.nest C hv B2
  exact ⟨⟨_, a⟩, b, R.fx, R.quiet⟩

/-! ## The slot of the next element / member -/

theorem elemSlot_none (x : S) : elemSlot none x = (some none, x) := rfl

/-- `addElement` on the array being built at `l` -/
theorem elemSlot_some {d0 : Doc} {F : Forest} {l : Loc} {x : S} {s : Forest} {h t : Nat} (C : Ctx d0 F l)
    (B : Built d0 F l x.d s) (hv : x.d.get l = .arr h t) :
    ((elemSlot (some l) x).1 = none →
      Built d0 F l (elemSlot (some l) x).2.d s ∧
      Fx x.d x.b (elemSlot (some l) x).2.d (elemSlot (some l) x).2.b .noMemory) ∧
    (∀ dst, (elemSlot (some l) x).1 = some dst →
      ∃ id, dst = some (.slot id) ∧ Built d0 F l (elemSlot (some l) x).2.d (s.snoc none id) ∧
        id ∈ (s.snoc none id).locs ∧ (elemSlot (some l) x).2.d.get (.slot id) = .null ∧
        (∃ h', (elemSlot (some l) x).2.d.get l = .arr h' id) ∧
        Fx x.d x.b (elemSlot (some l) x).2.d (elemSlot (some l) x).2.b .ok) := by
  simp only [elemSlot]
  generalize heq : x.d.addElement l = r
  obtain ⟨o, d1⟩ := r
  cases o with
  | none =>
    obtain ⟨b1, ho, hnl⟩ := B.addElement_none C heq
    exact ⟨fun _ => ⟨b1, Fx.doc_fail _ hnl ho⟩, fun dst hh => by cases hh⟩
  | some id =>
    obtain ⟨B1, hgn, hgl, hov, hnl, _, _, hbk, _⟩ := B.addElement_some C hv heq
    refine ⟨(fun hh => by cases hh), fun dst hh => ?_⟩
    simp only [Option.some.injEq] at hh
    exact ⟨id, hh.symm, B1, by rw [Forest.locs_snoc]; simp, hgn, hgl, Fx.doc _ hnl hov hbk⟩

theorem memSlot_none (x : S) (key : List Byte) : memSlot none x key = (some none, x) := rfl

/-- `save` of the key in the buffer, then `addMember(StringNode*)` on the object being built at `l` -/
theorem memSlot_some {d0 : Doc} {F : Forest} {l : Loc} {x : S} {s : Forest} {h t : Nat} (C : Ctx d0 F l)
    (B : Built d0 F l x.d s) (hv : x.d.get l = .obj h t) (hb : x.b.isSome = true) (key : List Byte) :
    ((memSlot (some l) x key).1 = none →
      Built d0 F l (memSlot (some l) x key).2.d s ∧
      Fx x.d x.b (memSlot (some l) x key).2.d (memSlot (some l) x key).2.b .noMemory) ∧
    (∀ dst, (memSlot (some l) x key).1 = some dst →
      ∃ k v, dst = some (.slot v) ∧ Built d0 F l (memSlot (some l) x key).2.d (s.snoc (some k) v) ∧
        v ∈ (s.snoc (some k) v).locs ∧ (memSlot (some l) x key).2.d.get (.slot v) = .null ∧
        (∃ h', (memSlot (some l) x key).2.d.get l = .obj h' v) ∧
        Fx x.d x.b (memSlot (some l) x key).2.d (memSlot (some l) x key).2.b .ok) := by
  simp only [memSlot]
  have sv := MDD.mp_save_spec x key
  obtain ⟨B', hp, hget⟩ := B.save (x := J x) C sv
  have fxs : Fx x.d x.b (save x key).2.d (save x key).2.b .ok := Fx.save sv hb
  generalize save x key = sr at B' hp hget fxs
  obtain ⟨node, x2⟩ := sr
  simp only [MDD.J_d] at B' hp hget fxs ⊢
  have hv2 : x2.d.get l = .obj h t := (hget l).trans hv
  obtain ⟨m1, m2, m3, m4⟩ := B'.addMemberNode C hp hv2
  generalize JDD.addMemberNode x2.d l node = r at m1 m2 m3 m4
  obtain ⟨o, d2⟩ := r
  cases o with
  | none =>
    obtain ⟨a1, a2⟩ := m1 rfl
    exact ⟨fun _ => ⟨a1, fxs.trans (Fx.doc_fail _ m3 a2)⟩, fun dst hh => by cases hh⟩
  | some v =>
    obtain ⟨k, a1, a2, a3, a4, _⟩ := m2 v rfl
    refine ⟨(fun hh => by cases hh), fun dst hh => ?_⟩
    simp only [Option.some.injEq] at hh
    exact ⟨k, v, hh.symm, a1, by rw [Forest.locs_snoc]; simp, a2, a3, fxs.trans (Fx.doc _ m3 a4 m4)⟩

/-! ## Induction on the fuel -/

theorem pv_zero (env : MD.Env) : PVs env 0 := by
  intro limit flt dst x
  simp only [parseVariant]
  exact VRes.same rfl rfl (by simp)

theorem pa_zero (env : MD.Env) : PAs env 0 := by
  intro limit ef arr n x
  simp only [readArray]
  cases arr with
  | none => exact NRes.same rfl rfl (by simp)
  | some l => exact fun d0 F s h t _ B _ => (NRes.same rfl rfl (by simp)).lift B

theorem po_zero (env : MD.Env) : POs env 0 := by
  intro limit flt obj n x
  simp only [readObject]
  cases obj with
  | none => exact NRes.same rfl rfl (by simp)
  | some l => exact fun d0 F s h t _ B _ => (NRes.same rfl rfl (by simp)).lift B

theorem pv_succ (env : MD.Env) (f : Nat) (ihA : PAs env f) (ihO : POs env f) : PVs env (f+1) := by
  intro limit flt dst x
  rw [parseVariant_succ]
  generalize x.r.read = rd
  obtain ⟨_ | code, r0⟩ := rd
  · exact VRes.same rfl rfl (by simp)
  simp only [MD.dispatch_eq]
  cases MD.classify code r0 with
  | int w c => exact VRes.of_eq (x'' := { x with r := r0 }) rfl rfl (VRes.gate (leafInt_res _ _ w c))
  | nil => exact VRes.same rfl rfl (by simp [fin])
  | invalid => exact VRes.same rfl rfl (by simp [fin])
  | bool c => exact VRes.of_eq (x'' := { x with r := r0 }) rfl rfl (VRes.gate (leafBool_res _ _ c))
  | f32 => exact VRes.of_eq (x'' := { x with r := r0 }) rfl rfl (VRes.gate (leafF32_res _ _))
  | f64 => exact VRes.of_eq (x'' := { x with r := r0 }) rfl rfl (VRes.gate (leafF64_res _ _))
  | fix c => exact VRes.of_eq (x'' := { x with r := r0 }) rfl rfl (VRes.gate (leafFix_res _ _ c))
  | inc r => exact VRes.same rfl rfl (by simp [fin])
  | arr size r => exact VRes.of_eq (x'' := { x with r := r }) rfl rfl (leafArr_res ihA limit flt dst size _)
  | map size r => exact VRes.of_eq (x'' := { x with r := r }) rfl rfl (leafMap_res ihO limit flt dst size _)
  | str size r => exact VRes.of_eq (x'' := { x with r := r }) rfl rfl (VRes.gate (leafStr_res env _ size _))
  | bin sb ie hb size r =>
    exact VRes.of_eq (x'' := { x with r := r }) rfl rfl (VRes.gate (leafBin_res env _ code sb ie hb size _))

theorem ARes.of_none {arr : Option Loc} {x x' : S} {c : Code} (h : NRes x c x') : ARes arr x c x' := by
  cases arr with
  | none => exact h
  | some l => exact fun d0 F s _ _ _ B _ => h.lift B

theorem ORes.of_none {obj : Option Loc} {x x' : S} {c : Code} (h : NRes x c x') : ORes obj x c x' := by
  cases obj with
  | none => exact h
  | some l => exact fun d0 F s _ _ _ B _ => h.lift B

/-- silent steps without a destination (the StringBuffer's traffic), then the routine -/
theorem ARes.step {arr : Option Loc} {x x1 x' : S} {c : Code} (h1 : NRes x .ok x1) (h2 : ARes arr x1 c x') :
    ARes arr x c x' := by
  cases arr with
  | none => exact NRes.step h1 h2
  | some l =>
    exact fun d0 F s h t C B hv => MRes.step h1.fx (h2 d0 F s h t C (B.pleq h1.pleq) ((h1.pleq.get l).trans hv))

theorem ORes.step {obj : Option Loc} {x x1 x' : S} {c : Code} (h1 : NRes x .ok x1) (h2 : ORes obj x1 c x') :
    ORes obj x c x' := by
  cases obj with
  | none => exact NRes.step h1 h2
  | some l =>
    exact fun d0 F s h t C B hv => MRes.step h1.fx (h2 d0 F s h t C (B.pleq h1.pleq) ((h1.pleq.get l).trans hv))

/-- a skipped element, then the elements that follow it -/
theorem pa_skip {env : MD.Env} {f : Nat} (ihV : PVs env f) (ihA : PAs env f) (limit : Nat) (ef : Flt) (arr : Option Loc)
    (n : Nat) (x : S) :
    ARes arr x
      (match parseVariant env f limit ef none x with
        | (.ok, x, _) => readArray env f limit ef arr (n - 1) x
        | (e, x, _) => (e, x)).1
      (match parseVariant env f limit ef none x with
        | (.ok, x, _) => readArray env f limit ef arr (n - 1) x
        | (e, x, _) => (e, x)).2 := by
  have pv : NRes x _ _ := ihV limit ef none x
  split
  · rename_i x2 fd heq
    rw [heq] at pv
    exact ARes.step pv (ihA limit ef arr (n - 1) x2)
  · rename_i e x2 fd hne heq
    rw [heq] at pv
    exact ARes.of_none pv

theorem pa_succ (env : MD.Env) (f : Nat) (ihV : PVs env f) (ihA : PAs env f) : PAs env (f+1) := by
  intro limit ef arr n x
  rw [readArray_succ]
  split
  · exact ARes.of_none (NRes.same rfl rfl (by simp))
  cases arr with
  | none =>
    simp only [gate_none, elemSlot_none]
    exact pa_skip ihV ihA limit ef none n x
  | some l =>
    cases hb : ef.allow with
    | false =>
      simp only [gate_false, elemSlot_none]
      exact pa_skip ihV ihA limit ef (some l) n x
    | true =>
      simp only [gate_true]
      intro d0 F s h t C B hv
      obtain ⟨e1, e2⟩ := elemSlot_some C B hv
      generalize elemSlot (some l) x = q at e1 e2
      obtain ⟨o, x1⟩ := q
      cases o with
      | none =>
        obtain ⟨B1, fx1⟩ := e1 rfl
        exact MRes.fail B1 fx1
      | some dst =>
        obtain ⟨id, rfl, B1, hloc, hgn, ⟨h', hgl⟩, fx01⟩ := e2 _ rfl
        simp only at B1 hgn hgl fx01 ⊢
        have sp := sub_parse ihV limit ef C B1 hloc hgn
        split
        · rename_i x2 fd heq2
          rw [heq2] at sp
          obtain ⟨⟨s2, B2⟩, hg2, fx2, _⟩ := sp
          exact MRes.step (x1 := x2) (fx01.trans fx2) (ihA limit ef (some l) (n - 1) x2 d0 F s2 _ _ C B2 (hg2.trans hgl))
        · rename_i e x2 fd hne heq2
          rw [heq2] at sp
          obtain ⟨⟨s2, B2⟩, _, fx2, q2⟩ := sp
          exact ⟨⟨s2, B2⟩, fx01.trans fx2, fun hc => (q2 hc).trans (fx01.ok rfl)⟩

/-- the value of a skipped member, then the members that follow it -/
theorem po_skip {env : MD.Env} {f : Nat} (ihV : PVs env f) (ihO : POs env f) (limit : Nat) (flt mf : Flt)
    (obj : Option Loc) (n : Nat) (x : S) :
    ORes obj x
      (match parseVariant env f limit mf none x with
        | (.ok, x, _) => readObject env f limit flt obj (n - 1) x
        | (e, x, _) => (e, x)).1
      (match parseVariant env f limit mf none x with
        | (.ok, x, _) => readObject env f limit flt obj (n - 1) x
        | (e, x, _) => (e, x)).2 := by
  have pv : NRes x _ _ := ihV limit mf none x
  split
  · rename_i x2 fd heq
    rw [heq] at pv
    exact ORes.step pv (ihO limit flt obj (n - 1) x2)
  · rename_i e x2 fd hne heq
    rw [heq] at pv
    exact ORes.of_none pv

theorem po_succ (env : MD.Env) (f : Nat) (ihV : PVs env f) (ihO : POs env f) : POs env (f+1) := by
  intro limit flt obj n x
  rw [readObject_succ]
  split
  · exact ORes.of_none (NRes.same rfl rfl (by simp))
  generalize x.r.read = rd
  obtain ⟨_ | code, r0⟩ := rd
  · exact ORes.of_none (NRes.same rfl rfl (by simp))
  simp only
  generalize MD.keyLenOf_d3 code r0 = kl
  obtain ⟨_ | _ | len, r1⟩ := kl
  · exact ORes.of_none (NRes.same rfl rfl (by simp))
  · exact ORes.of_none (NRes.same rfl rfl (by simp))
  simp only
  obtain ⟨rs, hbs⟩ := readString_res env { x with r := r1 } len
  split
  · rename_i key x1 heq
    rw [heq] at rs hbs
    have hb1 := hbs rfl
    simp only at rs hb1
    refine ORes.step (NRes.of_eq (x'' := { x with r := r1 }) rfl rfl rs) ?_
    cases obj with
    | none =>
      simp only [gate_none, memSlot_none]
      exact po_skip ihV ihO limit flt _ none n x1
    | some l =>
      cases hb : (flt.subKey key).allow with
      | false =>
        simp only [gate_false, memSlot_none]
        exact po_skip ihV ihO limit flt _ (some l) n x1
      | true =>
        simp only [gate_true]
        intro d0 F s h t C B hv
        obtain ⟨e1, e2⟩ := memSlot_some C B hv hb1 key
        generalize memSlot (some l) x1 key = q at e1 e2
        obtain ⟨o, x2⟩ := q
        cases o with
        | none =>
          obtain ⟨B1, fx1⟩ := e1 rfl
          exact MRes.fail B1 fx1
        | some dst =>
          obtain ⟨k, v, rfl, B1, hloc, hgn, ⟨h', hgl⟩, fx01⟩ := e2 _ rfl
          simp only at B1 hgn hgl fx01 ⊢
          have sp := sub_parse ihV limit (flt.subKey key) C B1 hloc hgn
          split
          · rename_i x3 fd heq3
            rw [heq3] at sp
            obtain ⟨⟨s3, B3⟩, hg3, fx3, _⟩ := sp
            exact MRes.step (x1 := x3) (fx01.trans fx3)
              (ihO limit flt (some l) (n - 1) x3 d0 F s3 _ _ C B3 (hg3.trans hgl))
          · rename_i e x3 fd hne heq3
            rw [heq3] at sp
            obtain ⟨⟨s3, B3⟩, _, fx3, q3⟩ := sp
            exact ⟨⟨s3, B3⟩, fx01.trans fx3, fun hc => (q3 hc).trans (fx01.ok rfl)⟩
  · rename_i e key x1 hne heq
    rw [heq] at rs
    exact ORes.of_none (NRes.of_eq (x'' := { x with r := r1 }) rfl rfl rs)

/-- the invariant through the whole mutual block, for every fuel, filter and destination -/
theorem parse_all (env : MD.Env) : ∀ fuel, PVs env fuel ∧ PAs env fuel ∧ POs env fuel := by
  intro fuel
  induction fuel with
  | zero => exact ⟨pv_zero env, pa_zero env, po_zero env⟩
  | succ f ih =>
    obtain ⟨ihV, ihA, ihO⟩ := ih
    exact ⟨pv_succ env f ihA ihO, pa_succ env f ihV ihA, po_succ env f ihV ihO⟩

/-- WITHOUT a destination (a skipped value, the elements of a skipped array, the members of a skipped object) the document
    is untouched up to the StringBuffer's allocator traffic: same slots, root, string table, pools and free list -/
theorem parse_none (env : MD.Env) (fuel limit : Nat) (flt : Flt) (n : Nat) (x : S) :
    NRes x (parseVariant env fuel limit flt none x).1 (parseVariant env fuel limit flt none x).2.1 ∧
    NRes x (readArray env fuel limit flt none n x).1 (readArray env fuel limit flt none n x).2 ∧
    NRes x (readObject env fuel limit flt none n x).1 (readObject env fuel limit flt none n x).2 :=
  ⟨(parse_all env fuel).1 limit flt none x, (parse_all env fuel).2.1 limit flt none n x,
    (parse_all env fuel).2.2 limit flt none n x⟩

/-! ## `foundSomething` -/

theorem leafInt_found (av : Option Loc) (x : S) (w c : Nat) : (leafInt av x w c).2.2 = true := by
  cases av with
  | none => rfl
  | some l => exact MDD.leafInt_found l x w c

theorem leafBool_found (av : Option Loc) (x : S) (c : Nat) : (leafBool av x c).2.2 = true := by
  cases av <;> rfl

theorem leafF32_found (av : Option Loc) (x : S) : (leafF32 av x).2.2 = true := by
  cases av with
  | none => rfl
  | some l => exact MDD.leafF32_found l x

theorem leafF64_found (av : Option Loc) (x : S) : (leafF64 av x).2.2 = true := by
  cases av with
  | none => rfl
  | some l => exact MDD.leafF64_found l x

theorem leafFix_found (av : Option Loc) (x : S) (c : Nat) : (leafFix av x c).2.2 = true := by
  cases av <;> rfl

theorem leafArr_found (env : MD.Env) (f limit : Nat) (flt : Flt) (dst : Option Loc) (size : Nat) (x : S) :
    (leafArr env f limit flt dst size x).2.2 = true := by
  unfold leafArr
  split
  · rfl
  · split <;> rfl

theorem leafMap_found (env : MD.Env) (f limit : Nat) (flt : Flt) (dst : Option Loc) (size : Nat) (x : S) :
    (leafMap env f limit flt dst size x).2.2 = true := by
  unfold leafMap
  split
  · rfl
  · split <;> rfl

theorem leafStr_found (env : MD.Env) (av : Option Loc) (size : Nat) (x : S) : (leafStr env av size x).2.2 = true := by
  cases av with
  | none => rfl
  | some l => exact MDD.leafStr_found env l size x

theorem leafBin_found (env : MD.Env) (av : Option Loc) (code : Byte) (sb : Nat) (ie : Bool) (hb : List Byte) (size : Nat)
    (x : S) : (leafBin env av code sb ie hb size x).2.2 = true := by
  cases av with
  | none => rfl
  | some l => exact MDD.leafBin_found env l code sb ie hb size x

/-- `foundSomething` is false only when not a single byte could be read: the code is then IncompleteInput -/
theorem found_false (env : MD.Env) (fuel limit : Nat) (flt : Flt) (dst : Option Loc) (x : S)
    (h : (parseVariant env fuel limit flt dst x).2.2 = false) : (parseVariant env fuel limit flt dst x).1 = .incomplete := by
  cases fuel with
  | zero => simp [parseVariant] at h
  | succ f =>
    rw [parseVariant_succ] at h ⊢
    generalize x.r.read = rd at h ⊢
    obtain ⟨_ | code, r0⟩ := rd
    · rfl
    exfalso
    simp only [MD.dispatch_eq] at h
    cases hc : MD.classify code r0 <;> rw [hc] at h <;> simp only at h
    · rw [leafInt_found] at h; cases h
    · cases h
    · cases h
    · rw [leafBool_found] at h; cases h
    · rw [leafF32_found] at h; cases h
    · rw [leafF64_found] at h; cases h
    · rw [leafFix_found] at h; cases h
    · cases h
    · rw [leafArr_found] at h; cases h
    · rw [leafMap_found] at h; cases h
    · rw [leafStr_found] at h; cases h
    · rw [leafBin_found] at h; cases h

/-! ## `run` -/

/-- the state in which `run` starts parsing (the one of the unfiltered twin) -/
abbrev start (d : Doc) (input : List Byte) : S := MDD.mp_start d input

/-- the state in which the parser stops (with the `foundSomething` flag) -/
def stop (env : MD.Env) (limit : Nat) (flt : Flt) (d : Doc) (input : List Byte) : Code × S × Bool :=
  parseVariant env (2 * input.length + 4) limit flt (some .root) (start d input)

/-- the document after the deserializer object was destroyed (a kept StringBuffer node is released), before the pools
    are shrunk -/
def preShrink (env : MD.Env) (limit : Nat) (flt : Flt) (d : Doc) (input : List Byte) : Doc :=
  match (stop env limit flt d input).2.1.b with
  | some _ => { (stop env limit flt d input).2.1.d with pl := (stop env limit flt d input).2.1.d.pl.dealloc }
  | none => (stop env limit flt d input).2.1.d

theorem run_eq (env : MD.Env) (limit : Nat) (flt : Flt) (d : Doc) (input : List Byte) :
    run env limit flt d input =
      (MDD.mp_finalCode (stop env limit flt d input).1 (stop env limit flt d input).2.2,
        { preShrink env limit flt d input with
          pl := PL.shrink (preShrink env limit flt d input).g (preShrink env limit flt d input).pl },
        (stop env limit flt d input).2.1.r.pos) := rfl

/-- the parser's result, for every input, every filter and every failure schedule -/
theorem stop_res (env : MD.Env) (limit : Nat) (flt : Flt) {d : Doc} (input : List Byte) (gok : PL.GeoOK d.g)
    (hp : PL.Inv d.g d.pl) :
    MRes d.clearAll .nil .root (start d input) (stop env limit flt d input).1 (stop env limit flt d input).2.1 := by
  obtain ⟨w, hs, hg, _, hr⟩ := JDD.clearAll_wf gok hp
  have C : Ctx d.clearAll .nil .root := ⟨List.nodup_nil, trivial, rfl, by rw [hg]; exact gok⟩
  exact (parse_all env _).1 limit flt (some .root) (start d input) d.clearAll .nil C (JDD.built_start w hs C) hr

theorem preShrink_pleq (env : MD.Env) (limit : Nat) (flt : Flt) (d : Doc) (input : List Byte) :
    PlEq (stop env limit flt d input).2.1.d (preShrink env limit flt d input) ∧
    (preShrink env limit flt d input).overflowed = (stop env limit flt d input).2.1.d.overflowed := by
  unfold preShrink
  cases (stop env limit flt d input).2.1.b with
  | none => exact ⟨PlEq.refl _, rfl⟩
  | some c => exact ⟨⟨rfl, rfl, rfl, rfl, rfl, rfl, rfl, rfl, rfl, rfl⟩, rfl⟩

/-- MAIN: whatever the input, the filter and the allocator failure schedule, `run` leaves a well-formed document -/
theorem run_wf (env : MD.Env) (limit : Nat) (flt : Flt) {d : Doc} (input : List Byte) (gok : PL.GeoOK d.g)
    (hp : PL.Inv d.g d.pl) :
    ∃ F', WFG (run env limit flt d input).2.1 F' ∧
      StrOK (run env limit flt d input).2.1 ((run env limit flt d input).2.1.strRefs F') := by
  obtain ⟨⟨s, B⟩, _, _⟩ := stop_res env limit flt input gok hp
  obtain ⟨w1, s1, _⟩ := (preShrink_pleq env limit flt d input).1.wfg B.wf B.str
  rw [run_eq]
  exact ⟨_, JDD.shrink_wf w1 s1⟩

/-- the overflow flag of the result is the one the parser left -/
theorem run_overflowed (env : MD.Env) (limit : Nat) (flt : Flt) (d : Doc) (input : List Byte) :
    (run env limit flt d input).2.1.overflowed = (stop env limit flt d input).2.1.d.overflowed := by
  rw [run_eq]; exact (preShrink_pleq env limit flt d input).2

/-- the result code against the overflow flag: `Ok` only without a failed allocation, and the flag is raised exactly
    when the code is `NoMemory` - also when the failed allocation is the buffer of a key that is not stored -/
theorem run_code (env : MD.Env) (limit : Nat) (flt : Flt) {d : Doc} (input : List Byte) (gok : PL.GeoOK d.g)
    (hp : PL.Inv d.g d.pl) :
    ((run env limit flt d input).1 = .ok → (run env limit flt d input).2.1.overflowed = false) ∧
    ((run env limit flt d input).1 = .noMemory ↔ (run env limit flt d input).2.1.overflowed = true) := by
  obtain ⟨_, fx, q⟩ := stop_res env limit flt input gok hp
  have h0 : (start d input).d.overflowed = false := rfl
  rw [run_overflowed]
  refine ⟨fun h => ?_, fun h => ?_, fun h => ?_⟩
  · rw [run_eq] at h
    exact (fx.ok (MDD.mp_finalCode_ok h)).trans h0
  · rw [run_eq] at h
    exact fx.nomem (MDD.mp_finalCode_nomem h)
  · rw [run_eq]
    by_cases hc : (stop env limit flt d input).1 = .noMemory
    · -- NoMemory is never reported without a byte read
      cases hf : (stop env limit flt d input).2.2 with
      | true => simp only [MDD.mp_finalCode, if_true]; exact hc
      | false =>
        have := found_false env _ limit flt (some .root) (start d input) hf
        rw [show (stop env limit flt d input).1 = Code.incomplete from this] at hc; cases hc
    · rw [q hc, h0] at h; cases h

/-! ## The ledger -/

/-- the ledger balances before the pools are shrunk -/
theorem preShrink_bal (env : MD.Env) (limit : Nat) (flt : Flt) {d : Doc} (input : List Byte) (gok : PL.GeoOK d.g)
    (hp : PL.Inv d.g d.pl) (hb : Bal d) : Bal (preShrink env limit flt d input) := by
  obtain ⟨_, fx, _⟩ := stop_res env limit flt input gok hp
  have h := fx.bal (JDD.clearAll_LBd hb)
  unfold preShrink
  unfold LBd at h
  unfold Bal
  cases hx : (stop env limit flt d input).2.1.b with
  | none => rw [hx] at h; simpa using h
  | some c =>
    rw [hx] at h
    show PL.net (stop env limit flt d input).2.1.d.pl.dealloc = _
    rw [JDD.dealloc_net, h]; simp

/-- the ledger of the document `run` returns: balanced up to the block `shrink` gives a block-less last pool -/
theorem run_net (env : MD.Env) (limit : Nat) (flt : Flt) {d : Doc} (input : List Byte) (gok : PL.GeoOK d.g)
    (hp : PL.Inv d.g d.pl) (hb : Bal d) :
    PL.net (run env limit flt d input).2.1.pl =
      ((run env limit flt d input).2.1.strings.length : Int) -
        (if JDD.lastBlockless (preShrink env limit flt d input).pl then 1 else 0) := by
  have h := preShrink_bal env limit flt input gok hp hb
  unfold Bal at h
  rw [run_eq]
  show PL.net (PL.shrink _ _) = ((preShrink env limit flt d input).strings.length : Int) - _
  rw [JDD.shrink_net, h]

/-- when no allocation failed, every pool has its block and the ledger of the result balances -/
theorem run_bal (env : MD.Env) (limit : Nat) (flt : Flt) {d : Doc} (input : List Byte) (gok : PL.GeoOK d.g)
    (hp : PL.Inv d.g d.pl) (hb : Bal d) (hov : (run env limit flt d input).2.1.overflowed = false) :
    Bal (run env limit flt d input).2.1 := by
  obtain ⟨_, fx, _⟩ := stop_res env limit flt input gok hp
  have h0 : Blk (start d input).d := by
    refine Or.inl ?_
    intro p hp'
    have : d.clearAll.pl.pools = [] := (clearAll_spec d).2.2.1
    rw [show (start d input).d.pl.pools = d.clearAll.pl.pools from rfl, this] at hp'
    cases hp'
  rw [run_overflowed] at hov
  have hall : AllB (stop env limit flt d input).2.1.d := by
    rcases fx.blk h0 with h1 | h1
    · exact h1
    · rw [hov] at h1; cases h1
  have hall' : AllB (preShrink env limit flt d input) :=
    JDD.AllB_of_pools (preShrink_pleq env limit flt d input).1.pools hall
  have := run_net env limit flt input gok hp hb
  rw [JDD.lastBlockless_of_allB hall'] at this
  unfold Bal
  rw [this]; simp

/-- the geometry is kept -/
theorem run_g (env : MD.Env) (limit : Nat) (flt : Flt) {d : Doc} (input : List Byte) (gok : PL.GeoOK d.g)
    (hp : PL.Inv d.g d.pl) : (run env limit flt d input).2.1.g = d.g := by
  obtain ⟨⟨s, B⟩, _, _⟩ := stop_res env limit flt input gok hp
  rw [run_eq]
  show (preShrink env limit flt d input).g = d.g
  rw [(preShrink_pleq env limit flt d input).1.g, B.g]; rfl

/-- `clearAll` after `run`: what the ledger says -/
theorem run_clearAll_outstanding (env : MD.Env) (limit : Nat) (flt : Flt) {d : Doc} (input : List Byte)
    (gok : PL.GeoOK d.g) (hp : PL.Inv d.g d.pl) (hb : Bal d) :
    PL.outstanding (run env limit flt d input).2.1.clearAll.pl.log =
      - (if JDD.lastBlockless (preShrink env limit flt d input).pl then 1 else 0) := by
  have h := run_net env limit flt input gok hp hb
  rw [(clearAll_spec _).1, PL.outstanding_replicate_D]
  unfold PL.net at h
  omega

end MDDF
