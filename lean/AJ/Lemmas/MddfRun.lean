/- Simulation of the FILTERED slot-level MessagePack deserializer `MDDF` by the value-level filtered deserializer, part 4:
   the run (`MDDF.run` against `MD.run env limit flt`). What `MDDF.run` does after its parse is what `MDD.run` does
   (`C09.mpsim_finish` of AJ/Props/C09Doc.lean: `EmptyInput` when nothing was found, buffer released, pools shrunk). -/
import AJ.Lemmas.MddfSim
import AJ.Props.C09Doc
set_option linter.unusedSimpArgs false
set_option linter.unusedVariables false
namespace MDDF
open DL MDD
open JD (Byte Val Code Flt)
open MD (R Env)

/-- the parse inside `MDDF.run` -/
def fpv (env : Env) (limit : Nat) (flt : Flt) (d : Doc) (input : List Byte) : Code × MDD.S × Bool :=
  MDDF.parseVariant env (2 * input.length + 4) limit flt (some .root) { r := { unread := input }, d := d.clearAll }

theorem run_eq_d0 (env : Env) (limit : Nat) (flt : Flt) (d : Doc) (input : List Byte) :
    MDDF.run env limit flt d input = C09.mpsim_finish (fpv env limit flt d input) := rfl

/-- the two outcomes of a filtered run: no allocation failed and everything agrees with the value-level filtered run (the
    answer is not `NoMemory`, the document is well-formed), or one failed and the answer is `NoMemory` -/
theorem run_core (env : Env) (limit : Nat) (flt : Flt) (d : Doc) (input : List Byte) (gok : PL.GeoOK d.g)
    (hp : PL.Inv d.g d.pl) :
    ((MDDF.run env limit flt d input).2.1.overflowed = false ∧
      (MDDF.run env limit flt d input).1 = (MD.run env limit flt input).1 ∧
      (MDDF.run env limit flt d input).1 ≠ .noMemory ∧
      (MDDF.run env limit flt d input).2.2 = (MD.run env limit flt input).2.2 ∧
      (MDDF.run env limit flt d input).2.1.toVal (MDDF.run env limit flt d input).2.1.root =
        (MD.run env limit flt input).2.1 ∧
      WF (MDDF.run env limit flt d input).2.1) ∨
    ((MDDF.run env limit flt d input).2.1.overflowed = true ∧ (MDDF.run env limit flt d input).1 = .noMemory) := by
  have pre0 := JDD.sim_clearAll_pre gok hp
  have hsim := (fsim_all env (2 * input.length + 4)).1 limit flt .root
    { r := { unread := input }, d := d.clearAll } pre0 rfl (mpsim_BOK_none env)
  obtain ⟨dF, hrun, hg, hc, hs, hr, ho, hnn, hpl⟩ := C09.mpsim_finish_proj (fpv env limit flt d input)
  rw [run_eq_d0, hrun]
  simp only [MD.run]
  unfold fpv at hg hc hs hr ho hnn hpl ⊢
  generalize MDDF.parseVariant env (2 * input.length + 4) limit flt (some .root)
    { r := { unread := input }, d := d.clearAll } = rv at *
  generalize MD.parseVariant env (2 * input.length + 4) limit flt true { unread := input } = rv0 at *
  obtain ⟨c, x, f⟩ := rv
  obtain ⟨c0, v0, r0, f0⟩ := rv0
  simp only at hsim hg hc hs hr ho hnn hpl ⊢
  obtain ⟨hsim, hf1, hf2⟩ := hsim
  simp only at hsim hf1 hf2
  rcases hsim with ⟨o2, e1, hne, e2, _, v, s, P, hval⟩ | ⟨o2, e⟩
  · simp only at o2 e1 hne e2 P hval
    subst e1 e2
    have hff := hf1 o2
    subst hff
    have htv : dF.toVal dF.root = v0 := by rw [JDD.sim_final_toVal P hg hc hs hr, hval]
    have hwf : WF dF := by
      have w0 : WFG d.clearAll .nil := by
        refine ⟨rfl, List.nodup_nil, fun i hi => (by cases hi), pre0.pool, fun i hi => (by cases hi), ?_⟩
        intro l hl e he
        rcases mem_holders.1 hl with h | ⟨j, hj, _⟩
        · subst h; cases he
        · cases hj
      have s0 : StrOK d.clearAll (d.clearAll.strRefs .nil) :=
        ⟨List.nodup_nil, fun n hn => (by cases hn), fun n hn => (by cases hn), fun r hr => (by cases hr)⟩
      obtain ⟨w1, s1, _⟩ := post_assemble w0 s0 (l := .root) trivial rfl P
      obtain ⟨hI, hlv⟩ := hpl P.fr.pool
      have hcell : ∀ j, dF.cell j = x.d.cell j := fun j => by simp only [Doc.cell, hc]
      obtain ⟨w2, s2, _⟩ := wfg_frame (d' := dF) w1 hg hr (fun j _ => hcell j)
        (fun l0 h0 e he => ⟨hcell e, (hlv e).2 (w1.ext l0 h0 e he).2.1⟩) hI
        (fun j hj => (hlv j).2 (w1.live j hj)) (StrOK_congr hs hnn s1) (fun n _ => strBytes_of_strings hs n)
      exact ⟨_, w2, s2⟩
    refine Or.inl ⟨by rw [ho]; exact o2, rfl, ?_, rfl, htv, hwf⟩
    cases f
    · intro h; cases h
    · exact hne
  · simp only at o2 e
    have hff := hf2 o2
    subst hff e
    exact Or.inr ⟨by rw [ho]; exact o2, rfl⟩

/-- the geometry of the document is not changed by a filtered run -/
theorem run_geo (env : Env) (limit : Nat) (flt : Flt) (d : Doc) (input : List Byte) (gok : PL.GeoOK d.g)
    (hp : PL.Inv d.g d.pl) (hno : (MDDF.run env limit flt d input).2.1.overflowed = false) :
    (MDDF.run env limit flt d input).2.1.g = d.g := by
  have pre0 := JDD.sim_clearAll_pre gok hp
  have hsim := (fsim_all env (2 * input.length + 4)).1 limit flt .root
    { r := { unread := input }, d := d.clearAll } pre0 rfl (mpsim_BOK_none env)
  obtain ⟨dF, hrun, hg, _, _, _, ho, _, _⟩ := C09.mpsim_finish_proj (fpv env limit flt d input)
  rw [run_eq_d0, hrun] at hno ⊢
  simp only at hno ⊢
  rw [hg]
  rw [ho] at hno
  unfold fpv at hno ⊢
  rcases hsim.1 with ⟨_, _, _, _, _, v, s, P, _⟩ | ⟨o2, _⟩
  · exact P.fr.g
  · simp only at o2; rw [o2] at hno; cases hno

end MDDF
