/- Simulation of the FILTERED slot-level MessagePack deserializer `MDDF` by the value-level filtered deserializer, part 3:
   the runs WITH a destination (`dst = some l` ↔ `hasDst = true`), for every filter, in the outcome relation
   `MDD.mpsim_Sim`/`mpsim_SimF` of the unfiltered development; the induction on the fuel (`MDDF.fsim_all`). A value the filter
   does not allow, an element or member whose filter does not `allow()`, a container the filter refuses: the run goes on
   without destination (AJ/Lemmas/MddfSkip.lean), the place keeps `null`, the collection under construction is framed. -/
import AJ.Lemmas.MddfSkip
set_option linter.unusedSimpArgs false
set_option linter.unusedVariables false
namespace MDDF
open DL MDD
open JD (Byte Val Code Flt)
open MD (R Env Hdr beNat)

def FSimV (env : Env) (fuel : Nat) : Prop :=
  ∀ (limit : Nat) (flt : Flt) (l : Loc) (x : S), Pre x.d l → x.d.overflowed = false → mpsim_BOK env x.b →
    mpsim_SimF env x.d l (parseVariant env fuel limit flt (some l) x) (MD.parseVariant env fuel limit flt true x.r)

def FSimE (env : Env) (fuel : Nat) : Prop :=
  ∀ (limit : Nat) (ef : Flt) (l : Loc) (x : S) (d0 : Doc) (h t : Nat) (sl : Forest) (acc : List Val) (n : Nat),
    Pre d0 l → Post d0 x.d l (.arr h t) sl → (vals x.d noOv sl).map (·.2) = acc.reverse →
    x.d.overflowed = false → mpsim_BOK env x.b →
    mpsim_Sim env d0 l (readArray env fuel limit ef (some l) n x)
      (mpsim_arrOut (MD.readArray env fuel limit ef true n x.r acc))

def FSimM (env : Env) (fuel : Nat) : Prop :=
  ∀ (limit : Nat) (flt : Flt) (l : Loc) (x : S) (d0 : Doc) (h t : Nat) (sl : Forest) (ms : List (List Byte × Val))
    (n : Nat),
    Pre d0 l → Post d0 x.d l (.obj h t) sl → vals x.d noOv sl = ms →
    x.d.overflowed = false → mpsim_BOK env x.b →
    mpsim_Sim env d0 l (readObject env fuel limit flt (some l) n x)
      (mpsim_objOut (MD.readObject env fuel limit flt true n x.r ms))

/-! ## Leaves of `parseVariant` that the filter turns into a skip -/

/-- a run without destination seen from a cleared place `l`: the place keeps `null` -/
theorem sim_of_nrel {env : Env} {x : S} {l : Loc} (P : Pre x.d l) (h0 : x.d.overflowed = false) {p : Code × S}
    {p0 : Code × R} (h : NRel env x.d p p0) : mpsim_Sim env x.d l p (p0.1, .null, p0.2) := by
  obtain ⟨g, hr⟩ := h
  rcases hr with ⟨o, c, ne, r, b⟩ | ⟨o, c⟩
  · have hfr : Fr x.d p.2.d [] := Fr.of_grow g (fun h => by rw [h0] at h; cases h) []
    exact Or.inl ⟨o, c, ne, r, b, JDD.sim_null_post P hfr⟩
  · exact Or.inr ⟨o, c⟩

theorem fsim_skipB (env : Env) {x : S} {l : Loc} (P : Pre x.d l) (h0 : x.d.overflowed = false) (hb : mpsim_BOK env x.b)
    (n : Nat) (o : MD.VOut) (ho : nout o = skip0 x.r n) (hv : o.2.1 = .null) (hf : o.2.2.2 = true) :
    mpsim_SimF env x.d l (mpsim_fin (skipB x n)) o := by
  obtain ⟨e, v, r, f⟩ := o
  simp only at hv hf
  subst hv hf
  have := sim_of_nrel P h0 (nrel_skipB env x n P.pool h0 hb)
  rw [← ho] at this
  exact mpsim_SimF.fin this

theorem leafFixed_false_val (w : Nat) (mk : List Byte → Val) (r : R) :
    (MD.leafFixed false w mk r).2.1 = .null ∧ (MD.leafFixed false w mk r).2.2.2 = true := by
  unfold MD.leafFixed
  rw [if_neg (by simp)]
  generalize r.skipBytes w = q
  obtain ⟨ok, r'⟩ := q
  cases ok <;> exact ⟨rfl, rfl⟩

theorem leafSized_false_val (tooBig : Prop) [Decidable tooBig] (w : Nat) (mk : List Byte → Val) (r : R) :
    (MD.leafSized false tooBig w mk r).2.1 = .null ∧ (MD.leafSized false tooBig w mk r).2.2.2 = true := by
  unfold MD.leafSized
  rw [if_neg (by simp)]
  generalize r.skipBytes w = q
  obtain ⟨ok, r'⟩ := q
  cases ok <;> exact ⟨rfl, rfl⟩

/-! ## `parseVariant` -/

theorem leafArr_true (env : Env) (fuel limit : Nat) (flt : Flt) (size : Nat) (r : R) :
    MD.leafArr env fuel limit flt true size r =
      match limit with
      | 0 => MD.finV .tooDeep .null r
      | limit'+1 =>
        if flt.allowArray then
          MD.finV (MD.readArray env fuel limit' flt.subIdx true size r []).1
            (.arr (MD.readArray env fuel limit' flt.subIdx true size r []).2.1)
            (MD.readArray env fuel limit' flt.subIdx true size r []).2.2
        else
          MD.finV (MD.readArray env fuel limit' flt.subIdx false size r []).1 .null
            (MD.readArray env fuel limit' flt.subIdx false size r []).2.2 := by
  cases limit with
  | zero => rfl
  | succ limit' => cases hA : flt.allowArray <;> simp only [MD.leafArr, hA] <;> rfl

theorem leafMap_true (env : Env) (fuel limit : Nat) (flt : Flt) (size : Nat) (r : R) :
    MD.leafMap env fuel limit flt true size r =
      match limit with
      | 0 => MD.finV .tooDeep .null r
      | limit'+1 =>
        if flt.allowObject then
          MD.finV (MD.readObject env fuel limit' flt true size r []).1
            (.obj (MD.readObject env fuel limit' flt true size r []).2.1)
            (MD.readObject env fuel limit' flt true size r []).2.2
        else
          MD.finV (MD.readObject env fuel limit' flt false size r []).1 .null
            (MD.readObject env fuel limit' flt false size r []).2.2 := by
  cases limit with
  | zero => rfl
  | succ limit' => cases hO : flt.allowObject <;> simp only [MD.leafMap, hO] <;> rfl

theorem fsim_leafArr (env : Env) (fuel : Nat) (hE : FSimE env fuel) {x : S} {l : Loc} (P : Pre x.d l)
    (h0 : x.d.overflowed = false) (hb : mpsim_BOK env x.b) (limit : Nat) (flt : Flt) (size : Nat) :
    mpsim_SimF env x.d l (fleafArr env fuel limit flt (some l) size x) (MD.leafArr env fuel limit flt true size x.r) := by
  rw [leafArr_true]
  unfold fleafArr
  cases limit with
  | zero =>
    exact mpsim_SimF.fin (mpsim_Sim.exit rfl hb (JDD.sim_null_post P (Fr.refl P.pool [])) h0 (fun h => by cases h))
  | succ limit' =>
    cases hA : flt.allowArray with
    | true =>
      simp only [avOf_true, if_true]
      have hov : (x.d.set l (.arr x.d.null x.d.null)).overflowed = false := by rw [set_overflowed]; exact h0
      exact mpsim_SimF.fin (hE limit' flt.subIdx l { x with d := x.d.set l (.arr x.d.null x.d.null) } x.d _ _ .nil [] size P
        (JDD.sim_post_coll false P).1 rfl hov hb)
    | false =>
      simp only [avOf_false, Bool.false_eq_true, if_false]
      exact mpsim_SimF.fin
        (sim_of_nrel P h0 ((nsim_all env fuel).2.1 limit' flt.subIdx x size [] P.pool h0 hb))

theorem fsim_leafMap (env : Env) (fuel : Nat) (hM : FSimM env fuel) {x : S} {l : Loc} (P : Pre x.d l)
    (h0 : x.d.overflowed = false) (hb : mpsim_BOK env x.b) (limit : Nat) (flt : Flt) (size : Nat) :
    mpsim_SimF env x.d l (fleafMap env fuel limit flt (some l) size x) (MD.leafMap env fuel limit flt true size x.r) := by
  rw [leafMap_true]
  unfold fleafMap
  cases limit with
  | zero =>
    exact mpsim_SimF.fin (mpsim_Sim.exit rfl hb (JDD.sim_null_post P (Fr.refl P.pool [])) h0 (fun h => by cases h))
  | succ limit' =>
    cases hO : flt.allowObject with
    | true =>
      simp only [avOf_true, if_true]
      have hov : (x.d.set l (.obj x.d.null x.d.null)).overflowed = false := by rw [set_overflowed]; exact h0
      exact mpsim_SimF.fin (hM limit' flt l { x with d := x.d.set l (.obj x.d.null x.d.null) } x.d _ _ .nil [] size P
        (JDD.sim_post_coll true P).1 rfl hov hb)
    | false =>
      simp only [avOf_false, Bool.false_eq_true, if_false]
      exact mpsim_SimF.fin
        (sim_of_nrel P h0 ((nsim_all env fuel).2.2 limit' flt x size [] P.pool h0 hb))

theorem fsim_pv_zero (env : Env) : FSimV env 0 := by
  intro limit flt l x P h0 hb
  simp only [MDDF.parseVariant, MD.parseVariant]
  exact ⟨mpsim_Sim.exit rfl hb (JDD.sim_null_post P (Fr.refl P.pool [])) h0 (fun h => by cases h), fun _ => rfl, fun _ => rfl⟩

theorem fsim_pv_step (env : Env) (fuel : Nat) (hE : FSimE env fuel) (hM : FSimM env fuel) : FSimV env (fuel + 1) := by
  intro limit flt l x P h0 hb
  have hfr0 : Fr x.d x.d [] := Fr.refl P.pool []
  rw [parseVariant_step, MD.parseVariant_step]
  generalize x.r.read = rd
  obtain ⟨_ | code, r0⟩ := rd
  · exact ⟨mpsim_Sim.exit rfl hb (JDD.sim_null_post P hfr0) h0 (fun h => by cases h), fun _ => rfl,
      fun h => absurd (show x.d.overflowed = true from h) (by rw [h0]; simp)⟩
  simp only
  have hnull : mpsim_SimF env x.d l (mpsim_fin (.ok, { x with r := r0 })) (MD.finV .ok .null r0) :=
    mpsim_SimF.fin (mpsim_Sim.exit rfl hb (JDD.sim_null_post P hfr0) h0 (fun h => by cases h))
  cases hV : flt.allowValue with
  | true =>
    -- scalars are stored: the leaves of the unfiltered development
    rw [avOf_true]
    cases MD.classify code r0 with
    | int w c =>
      have := mpsim_leafInt_sim env (x := { x with r := r0 }) P h0 hb w c
      simp only [fleaf, fleafInt, MD.leafOf, hV]; exact this
    | nil => exact hnull
    | invalid => exact mpsim_SimF.fin (mpsim_Sim.exit rfl hb (JDD.sim_null_post P hfr0) h0 (fun h => by cases h))
    | bool c =>
      obtain ⟨pp, pv⟩ := JDD.sim_post_plain (v' := .bool (c == 0xc3)) P hfr0 (fun h => h) rfl rfl
      simp only [fleaf, fleafSet, MD.leafOf, hV, Bool.and_self, if_true]
      exact mpsim_SimF.fin (mpsim_Sim.exit (x' := { r := r0, d := x.d.set l (.bool (c == 0xc3)), b := x.b }) rfl hb
        ⟨_, _, pp, pv⟩ (by rw [set_overflowed]; exact h0) (fun h => by cases h))
    | f32 =>
      have := mpsim_leafF32_sim env (x := { x with r := r0 }) P h0 hb
      simp only [fleaf, fleafF32, MD.leafOf, hV]; exact this
    | f64 =>
      have := mpsim_leafF64_sim env (x := { x with r := r0 }) P h0 hb
      simp only [fleaf, fleafF64, MD.leafOf, hV]; exact this
    | fix c =>
      obtain ⟨pp, pv⟩ := JDD.sim_post_plain (v' := .i32 (if c ≥ 0x80 then (c : Int) - 256 else c)) P hfr0 (fun h => h) rfl rfl
      simp only [fleaf, fleafSet, MD.leafOf, hV, Bool.and_self, if_true]
      exact mpsim_SimF.fin (mpsim_Sim.exit
        (x' := { r := r0, d := x.d.set l (.i32 (if c ≥ 0x80 then (c : Int) - 256 else c)), b := x.b }) rfl hb
        ⟨_, _, pp, pv⟩ (by rw [set_overflowed]; exact h0) (fun h => by cases h))
    | inc r => exact mpsim_SimF.fin (mpsim_Sim.exit rfl hb (JDD.sim_null_post P hfr0) h0 (fun h => by cases h))
    | arr size r => exact fsim_leafArr env fuel hE (x := { x with r := r }) P h0 hb limit flt size
    | map size r => exact fsim_leafMap env fuel hM (x := { x with r := r }) P h0 hb limit flt size
    | str size r =>
      have := mpsim_leafStr_sim env (x := { x with r := r }) P h0 hb size
      simp only [fleaf, fleafStr, MD.leafOf, hV]; exact this
    | bin sizeBytes isExt hdr size r =>
      have := mpsim_leafBin_sim env (x := { x with r := r }) P h0 hb code sizeBytes isExt hdr size
      simp only [fleaf, fleafBin, MD.leafOf, hV]; exact this
  | false =>
    -- scalars are skipped: the place keeps `null`
    rw [avOf_false]
    cases MD.classify code r0 with
    | int w c =>
      simp only [fleaf, fleafInt, MD.leafOf, hV, Bool.and_false]
      exact fsim_skipB env (x := { x with r := r0 }) P h0 hb w _ (nout_leafFixed_false _ _ _)
        (leafFixed_false_val _ _ _).1 (leafFixed_false_val _ _ _).2
    | nil => exact hnull
    | invalid => exact mpsim_SimF.fin (mpsim_Sim.exit rfl hb (JDD.sim_null_post P hfr0) h0 (fun h => by cases h))
    | bool c =>
      simp only [fleaf, fleafSet, MD.leafOf, hV, Bool.and_false, Bool.false_eq_true, if_false]
      exact hnull
    | f32 =>
      simp only [fleaf, fleafF32, MD.leafOf, hV, Bool.and_false]
      exact fsim_skipB env (x := { x with r := r0 }) P h0 hb 4 _ (nout_leafFixed_false _ _ _)
        (leafFixed_false_val _ _ _).1 (leafFixed_false_val _ _ _).2
    | f64 =>
      simp only [fleaf, fleafF64, MD.leafOf, hV, Bool.and_false]
      exact fsim_skipB env (x := { x with r := r0 }) P h0 hb 8 _ (nout_leafFixed_false _ _ _)
        (leafFixed_false_val _ _ _).1 (leafFixed_false_val _ _ _).2
    | fix c =>
      simp only [fleaf, fleafSet, MD.leafOf, hV, Bool.and_false, Bool.false_eq_true, if_false]
      exact hnull
    | inc r => exact mpsim_SimF.fin (mpsim_Sim.exit rfl hb (JDD.sim_null_post P hfr0) h0 (fun h => by cases h))
    | arr size r => exact fsim_leafArr env fuel hE (x := { x with r := r }) P h0 hb limit flt size
    | map size r => exact fsim_leafMap env fuel hM (x := { x with r := r }) P h0 hb limit flt size
    | str size r =>
      simp only [fleaf, fleafStr, MD.leafOf, hV, Bool.and_false]
      exact fsim_skipB env (x := { x with r := r }) P h0 hb size _ (nout_leafSized_false _ _ _ _)
        (leafSized_false_val _ _ _ _).1 (leafSized_false_val _ _ _ _).2
    | bin sizeBytes isExt hdr size r =>
      simp only [fleaf, fleafBin, MD.leafOf, hV, Bool.and_false]
      exact fsim_skipB env (x := { x with r := r }) P h0 hb (MD.binSize isExt size) _ (nout_leafSized_false _ _ _ _)
        (leafSized_false_val _ _ _ _).1 (leafSized_false_val _ _ _ _).2

/-! ## `readArray` -/

theorem fsim_pe_zero (env : Env) : FSimE env 0 := by
  intro limit ef l x d0 h t sl acc n P0 P hvals h0 hb
  simp only [MDDF.readArray, MD.readArray]
  exact mpsim_Sim.exit rfl hb (JDD.sim_arr_post P hvals) h0 (fun h => by cases h)

/-- the array under construction after a step that only saw allocator traffic -/
theorem post_grow_arr {d0 d d' : Doc} {l : Loc} {h t : Nat} {sl : Forest} (P0 : Pre d0 l) (P : Post d0 d l (.arr h t) sl)
    (g : Grow d d') (h0 : d.overflowed = false) :
    Post d0 d' l (.arr h t) sl ∧ (vals d' noOv sl).map (·.2) = (vals d noOv sl).map (·.2) := by
  have hfr : Fr d d' [] := Fr.of_grow g (fun h => by rw [h0] at h; cases h) []
  obtain ⟨PK, hvK⟩ := P.frame P0 hfr
  have : Val.arr ((vals d' noOv sl).map (·.2)) = Val.arr ((vals d noOv sl).map (·.2)) := hvK
  injection this with this
  exact ⟨PK, this⟩

/-- the object under construction after a step that only saw allocator traffic -/
theorem post_grow_obj {d0 d d' : Doc} {l : Loc} {h t : Nat} {sl : Forest} (P0 : Pre d0 l) (P : Post d0 d l (.obj h t) sl)
    (g : Grow d d') (h0 : d.overflowed = false) :
    Post d0 d' l (.obj h t) sl ∧ vals d' noOv sl = vals d noOv sl := by
  have hfr : Fr d d' [] := Fr.of_grow g (fun h => by rw [h0] at h; cases h) []
  obtain ⟨PK, hvK⟩ := P.frame P0 hfr
  have : Val.obj (vals d' noOv sl) = Val.obj (vals d noOv sl) := hvK
  injection this with this
  exact ⟨PK, this⟩

theorem readArray_keep (env : Env) (fuel limit : Nat) (ef : Flt) (l : Loc) (n : Nat) (x : S) (ha : ef.allow = true) :
    readArray env (fuel+1) limit ef (some l) n x =
      if n == 0 then (.ok, x) else
      match x.d.addElement l with
      | (none, d) => (.noMemory, { x with d := d })
      | (some id, d) =>
        match parseVariant env fuel limit ef (some (.slot id)) { x with d := d } with
        | (.ok, x, _) => readArray env fuel limit ef (some l) (n - 1) x
        | (e, x, _) => (e, x) := by
  rw [readArray_succ_d0, ha, avOf_true]
  by_cases hn : (n == 0) = true
  · rw [if_pos hn, if_pos hn]
  rw [if_neg hn, if_neg hn]
  simp only [feSlot]
  generalize x.d.addElement l = q
  obtain ⟨_ | id, d1⟩ := q <;> rfl

theorem readArray_drop (env : Env) (fuel limit : Nat) (ef : Flt) (l : Loc) (n : Nat) (x : S) (ha : ef.allow = false) :
    readArray env (fuel+1) limit ef (some l) n x =
      if n == 0 then (.ok, x) else
      match parseVariant env fuel limit ef none x with
      | (.ok, x, _) => readArray env fuel limit ef (some l) (n - 1) x
      | (e, x, _) => (e, x) := by
  rw [readArray_succ_d0, ha, avOf_false]
  rfl

theorem readArray0_keep (env : Env) (fuel limit : Nat) (ef : Flt) (n : Nat) (r : R) (acc : List Val) (ha : ef.allow = true) :
    MD.readArray env (fuel+1) limit ef true n r acc =
      if n == 0 then (.ok, acc.reverse, r) else
      match MD.parseVariant env fuel limit ef true r with
      | (.ok, v, r, _) => MD.readArray env fuel limit ef true (n - 1) r (v :: acc)
      | (e, v, r, _) => (e, (v :: acc).reverse, r) := by
  rw [readArray0_succ, ha]
  rfl

theorem readArray0_drop (env : Env) (fuel limit : Nat) (ef : Flt) (n : Nat) (r : R) (acc : List Val) (ha : ef.allow = false) :
    MD.readArray env (fuel+1) limit ef true n r acc =
      if n == 0 then (.ok, acc.reverse, r) else
      match MD.parseVariant env fuel limit ef false r with
      | (.ok, _, r, _) => MD.readArray env fuel limit ef true (n - 1) r acc
      | (e, _, r, _) => (e, acc.reverse, r) := by
  rw [readArray0_succ, ha]
  rfl

theorem fsim_pe_step (env : Env) (fuel : Nat) (hV : FSimV env fuel) (hE : FSimE env fuel) : FSimE env (fuel + 1) := by
  intro limit ef l x d0 h t sl acc n P0 P hvals h0 hb
  have gokd : PL.GeoOK x.d.g := by rw [P.fr.g]; exact P0.gok
  cases ha : ef.allow with
  | true =>
    rw [readArray_keep _ _ _ _ _ _ _ ha, readArray0_keep _ _ _ _ _ _ _ ha]
    by_cases hn : (n == 0) = true
    · rw [if_pos hn, if_pos hn]
      exact mpsim_Sim.exit rfl hb (JDD.sim_arr_post P hvals) h0 (fun h => by cases h)
    rw [if_neg hn, if_neg hn]
    generalize hadd : x.d.addElement l = r
    obtain ⟨m, d1⟩ := r
    cases m with
    | none =>
      simp only
      have := (allocVariant_none gokd P.fr.pool (JDD.sim_addElement_none hadd)).2.1
      exact Or.inr ⟨this, rfl⟩
    | some id =>
      simp only
      obtain ⟨pre1, hov1, hstep⟩ := JDD.sim_arr_step P0 P hadd
      have hsim := hV limit ef (.slot id) { r := x.r, d := d1, b := x.b } pre1 (by rw [hov1]; exact h0) hb
      generalize parseVariant env fuel limit ef (some (.slot id)) { r := x.r, d := d1, b := x.b } = rv at hsim
      generalize MD.parseVariant env fuel limit ef true x.r = rv0 at hsim
      obtain ⟨c, x2, f⟩ := rv
      obtain ⟨c0, v0, s0, f0⟩ := rv0
      obtain ⟨hsim, -, -⟩ := hsim
      rcases hsim with ⟨o2, hc, hne, hs2, hb2, ve, se, P2, hval⟩ | ⟨o2, hc⟩
      · simp only at o2 hc hne hs2 hb2 P2 hval
        subst hc hs2
        obtain ⟨Pn, hvn⟩ := hstep x2.d ve se P2
        rw [hval] at hvn
        have hvals' : (vals x2.d noOv (sl.snocS none id se)).map (·.2) = (v0 :: acc).reverse := by
          rw [hvn, List.map_append, hvals]; simp
        cases c
        case ok =>
          simp only
          exact hE limit ef l x2 d0 _ _ _ (v0 :: acc) (n - 1) P0 Pn hvals' o2 hb2
        all_goals exact mpsim_Sim.exit rfl hb2 (JDD.sim_arr_post Pn hvals') o2 hne
      · simp only at o2 hc
        subst hc
        exact Or.inr ⟨o2, rfl⟩
  | false =>
    rw [readArray_drop _ _ _ _ _ _ _ ha, readArray0_drop _ _ _ _ _ _ _ ha]
    by_cases hn : (n == 0) = true
    · rw [if_pos hn, if_pos hn]
      exact mpsim_Sim.exit rfl hb (JDD.sim_arr_post P hvals) h0 (fun h => by cases h)
    rw [if_neg hn, if_neg hn]
    have hsim := (nsim_all env fuel).1 limit ef x P.fr.pool h0 hb
    generalize parseVariant env fuel limit ef none x = rv at hsim
    generalize MD.parseVariant env fuel limit ef false x.r = rv0 at hsim
    obtain ⟨c, x2, f⟩ := rv
    obtain ⟨c0, v0, s0, f0⟩ := rv0
    obtain ⟨g, hr⟩ := hsim
    simp only [vout, nout] at g hr
    rcases hr with ⟨o2, hc, hne, hs2, hb2⟩ | ⟨o2, hc⟩
    · subst hc hs2
      obtain ⟨Pn, hvn⟩ := post_grow_arr P0 P g h0
      have hvals' : (vals x2.d noOv sl).map (·.2) = acc.reverse := by rw [hvn, hvals]
      cases c
      case ok =>
        simp only
        exact hE limit ef l x2 d0 _ _ _ acc (n - 1) P0 Pn hvals' o2 hb2
      all_goals exact mpsim_Sim.exit rfl hb2 (JDD.sim_arr_post Pn hvals') o2 hne
    · subst hc
      exact Or.inr ⟨o2, rfl⟩

/-! ## `readObject` -/

theorem fsim_pm_zero (env : Env) : FSimM env 0 := by
  intro limit flt l x d0 h t sl ms n P0 P hvals h0 hb
  simp only [MDDF.readObject, MD.readObject]
  exact mpsim_Sim.exit rfl hb (JDD.sim_obj_post P hvals) h0 (fun h => by cases h)

/-- the value of a KEPT member (its slot was just added), then the remaining members -/
theorem fsim_roVal_keep (env : Env) (fuel : Nat) (hV : FSimV env fuel) (hM : FSimM env fuel) {limit n : Nat} {flt : Flt}
    {l : Loc} {v : Nat} {x : S} {d0 : Doc} {ms : List (List Byte × Val)} {key : List Byte}
    (ha : (flt.subKey key).allow = true) (P0 : Pre d0 l) (pre : Pre x.d (.slot v))
    (h0 : x.d.overflowed = false) (hb : mpsim_BOK env x.b)
    (hfill : ∀ (d2 : Doc) (ve : VData) (se : Forest), Post x.d d2 (.slot v) ve se →
      ∃ h' t' s', Post d0 d2 l (.obj h' t') s' ∧ vals d2 noOv s' = ms ++ [(key, d2.valOf ve se)]) :
    mpsim_Sim env d0 l (froVal_f env fuel limit flt (some l) n (flt.subKey key) (some (.slot v)) x)
      (mpsim_objOut (froVal0 env fuel limit flt true n key x.r ms)) := by
  have hsim := hV limit (flt.subKey key) (.slot v) x pre h0 hb
  unfold froVal_f froVal0
  simp only [ha, Bool.and_self, if_true]
  generalize parseVariant env fuel limit (flt.subKey key) (some (.slot v)) x = rv at hsim
  generalize MD.parseVariant env fuel limit (flt.subKey key) true x.r = rv0 at hsim
  obtain ⟨c, x2, f⟩ := rv
  obtain ⟨c0, v0, s0, f0⟩ := rv0
  obtain ⟨hsim, -, -⟩ := hsim
  rcases hsim with ⟨o2, hc, hne, hs2, hb2, ve, se, P2, hval⟩ | ⟨o2, hc⟩
  · simp only at o2 hc hne hs2 hb2 P2 hval
    subst hc hs2
    obtain ⟨h', t', s', Pn, hvn⟩ := hfill x2.d ve se P2
    rw [hval] at hvn
    cases c
    case ok =>
      simp only
      exact hM limit flt l x2 d0 _ _ _ _ (n - 1) P0 Pn hvn o2 hb2
    all_goals exact mpsim_Sim.exit rfl hb2 (JDD.sim_obj_post Pn hvn) o2 hne
  · simp only at o2 hc
    subst hc
    exact Or.inr ⟨o2, rfl⟩

/-- the value of a DROPPED member (no destination), then the remaining members -/
theorem fsim_roVal_drop (env : Env) (fuel : Nat) (hM : FSimM env fuel) {limit n : Nat} {flt : Flt}
    {l : Loc} {x : S} {d0 : Doc} {h t : Nat} {sl : Forest} {ms : List (List Byte × Val)} {key : List Byte}
    (ha : (flt.subKey key).allow = false) (P0 : Pre d0 l) (P : Post d0 x.d l (.obj h t) sl)
    (hvals : vals x.d noOv sl = ms) (h0 : x.d.overflowed = false) (hb : mpsim_BOK env x.b) :
    mpsim_Sim env d0 l (froVal_f env fuel limit flt (some l) n (flt.subKey key) none x)
      (mpsim_objOut (froVal0 env fuel limit flt true n key x.r ms)) := by
  have hsim := (nsim_all env fuel).1 limit (flt.subKey key) x P.fr.pool h0 hb
  unfold froVal_f froVal0
  simp only [ha, Bool.and_false, Bool.false_eq_true, if_false]
  generalize parseVariant env fuel limit (flt.subKey key) none x = rv at hsim
  generalize MD.parseVariant env fuel limit (flt.subKey key) false x.r = rv0 at hsim
  obtain ⟨c, x2, f⟩ := rv
  obtain ⟨c0, v0, s0, f0⟩ := rv0
  obtain ⟨g, hr⟩ := hsim
  simp only [vout, nout] at g hr
  rcases hr with ⟨o2, hc, hne, hs2, hb2⟩ | ⟨o2, hc⟩
  · subst hc hs2
    obtain ⟨Pn, hvn⟩ := post_grow_obj P0 P g h0
    have hvals' : vals x2.d noOv sl = ms := by rw [hvn, hvals]
    cases c
    case ok =>
      simp only
      exact hM limit flt l x2 d0 _ _ _ _ (n - 1) P0 Pn hvals' o2 hb2
    all_goals exact mpsim_Sim.exit rfl hb2 (JDD.sim_obj_post Pn hvals') o2 hne
  · subst hc
    exact Or.inr ⟨o2, rfl⟩

/-- the key string, the new member (or none), its value, the remaining members -/
theorem fsim_roKey (env : Env) (fuel : Nat) (hV : FSimV env fuel) (hM : FSimM env fuel) {limit n len : Nat} {flt : Flt}
    {l : Loc} {x : S} {d0 : Doc} {h t : Nat} {sl : Forest} {ms : List (List Byte × Val)} (P0 : Pre d0 l)
    (P : Post d0 x.d l (.obj h t) sl) (hvals : vals x.d noOv sl = ms) (h0 : x.d.overflowed = false)
    (hb : mpsim_BOK env x.b) :
    mpsim_Sim env d0 l (froKey_f env fuel limit flt (some l) n len x)
      (mpsim_objOut (froKey0 env fuel limit flt true n len x.r ms)) := by
  obtain ⟨g, hr⟩ := mpsim_readString env x len P.fr.pool hb h0
  unfold froKey_f froKey0
  generalize readString env x len = q at *
  generalize mpsim_readStr0 env x.r len = q0 at *
  obtain ⟨c, key, y⟩ := q
  obtain ⟨c0, key0, r0⟩ := q0
  simp only at g hr ⊢
  rcases hr with ⟨ov, hc⟩ | ⟨ov, bk, hc, hne, hbs, hrr⟩
  · subst hc
    exact Or.inr ⟨ov, rfl⟩
  · subst hc hbs hrr
    obtain ⟨PK, hvK⟩ := post_grow_obj P0 P g h0
    have hvalsK : vals y.d noOv sl = ms := by rw [hvK, hvals]
    have gokd : PL.GeoOK y.d.g := by rw [PK.fr.g]; exact P0.gok
    obtain ⟨rs0, hrs0⟩ := P0.str
    have hsd := PK.att.str rs0 hrs0
    cases c
    case ok =>
      simp only
      cases ha : (flt.subKey key).allow with
      | false =>
        simp only [avOf_false, fmSlot]
        exact fsim_roVal_drop env fuel hM ha P0 PK hvalsK ov bk
      | true =>
        simp only [avOf_true, fmSlot]
        obtain ⟨s1, s2, s3, s4, s5, s6⟩ := mpsim_save env y key PK.fr.pool ⟨_, hsd⟩
        generalize save y key = sv at *
        obtain ⟨node, x1⟩ := sv
        simp only at s1 s2 s3 s4 s5 s6 ⊢
        generalize hadd : JDD.addMemberNode x1.d l node = r
        obtain ⟨m, d1⟩ := r
        cases m with
        | none =>
          simp only
          exact Or.inr ⟨JDD.sim_addMemberNode_none (by rw [s2.g]; exact gokd) s2.pool hadd, rfl⟩
        | some v =>
          simp only
          obtain ⟨k, pre1, hov1, hfill⟩ := JDD.sim_obj_add P0 PK s2 s3 s4 s5 hadd
          have := fsim_roVal_keep env fuel hV hM (limit := limit) (n := n) (flt := flt) (l := l) (v := v)
            (x := { r := x1.r, d := d1, b := x1.b }) (ms := ms) (key := key) ha P0 pre1 (by rw [hov1]; exact ov) (s6 bk)
            (fun d2 ve se P2 => by
              obtain ⟨Pn, hvn⟩ := hfill d2 ve se P2
              exact ⟨_, _, _, Pn, by rw [hvn, hvalsK]⟩)
          rw [← s1]
          exact this
    all_goals exact mpsim_Sim.exit rfl bk (JDD.sim_obj_post PK hvalsK) ov hne

theorem fsim_pm_step (env : Env) (fuel : Nat) (hV : FSimV env fuel) (hM : FSimM env fuel) : FSimM env (fuel + 1) := by
  intro limit flt l x d0 h t sl ms n P0 P hvals h0 hb
  have hP := JDD.sim_obj_post P hvals
  rw [readObject_step, readObject0_step]
  by_cases hn : (n == 0) = true
  · rw [if_pos hn, if_pos hn]
    exact mpsim_Sim.exit rfl hb hP h0 (fun h => by cases h)
  rw [if_neg hn, if_neg hn]
  generalize x.r.read = rd
  obtain ⟨_ | code, r0⟩ := rd
  · exact mpsim_Sim.exit rfl hb hP h0 (fun h => by cases h)
  simp only
  generalize MD.keyLenOf_d3 code r0 = kl
  obtain ⟨_ | _ | len, r1⟩ := kl
  · exact mpsim_Sim.exit rfl hb hP h0 (fun h => by cases h)
  · exact mpsim_Sim.exit rfl hb hP h0 (fun h => by cases h)
  simp only
  exact fsim_roKey env fuel hV hM (x := { x with r := r1 }) P0 P hvals h0 hb

/-- THE SIMULATION, filtered, with a destination: for every fuel and every filter, the three slot-level routines of `MDDF` are
    simulated by the value-level filtered routines -/
theorem fsim_all (env : Env) : ∀ fuel, FSimV env fuel ∧ FSimE env fuel ∧ FSimM env fuel := by
  intro fuel
  induction fuel with
  | zero => exact ⟨fsim_pv_zero env, fsim_pe_zero env, fsim_pm_zero env⟩
  | succ n ih =>
    obtain ⟨hV, hE, hM⟩ := ih
    exact ⟨fsim_pv_step env n hE hM, fsim_pe_step env n hV hE, fsim_pm_step env n hV hM⟩

end MDDF
