/- Simulation of the FILTERED slot-level MessagePack deserializer `MDDF` by the value-level filtered deserializer, part 2:
   the runs WITHOUT a destination (`dst = none`, the C++ null pointer; value level: `hasDst = false`). Such a run only moves
   the reader and the StringBuffer (every map key goes through `reserve`): the document is the one before up to allocator
   traffic (`Grow`; `none_untouched` below: every field but the allocator state and the overflow flag is literally the same),
   the code and the reader are those of the value-level run unless a `reserve` failed (`NoMemory`, flag set). -/
import AJ.Lemmas.MddfStep
set_option linter.unusedSimpArgs false
set_option linter.unusedVariables false
namespace MDDF
open DL MDD
open JD (Byte Val Code Flt)
open MD (R Env Hdr beNat)

/-- outcome relation for a routine without destination started from the document `d0`: the document only saw allocator
    traffic; without an allocation failure the code (not `NoMemory`) and the reader agree, with one the answer is `NoMemory` -/
def NRel (env : Env) (d0 : Doc) (r : Code × S) (r0 : Code × R) : Prop :=
  Grow d0 r.2.d ∧
  ((r.2.d.overflowed = false ∧ r.1 = r0.1 ∧ r.1 ≠ .noMemory ∧ r.2.r = r0.2 ∧ mpsim_BOK env r.2.b) ∨
   (r.2.d.overflowed = true ∧ r.1 = .noMemory))

/-- code and state of a `parseVariant` result -/
def vout (r : mpsim_VOut) : Code × S := (r.1, r.2.1)
/-- code and reader of the abstract `parseVariant` -/
def nout (o : MD.VOut) : Code × R := (o.1, o.2.2.1)
/-- code and reader of the abstract loops -/
def lout {α : Type} (p : Code × α × R) : Code × R := (p.1, p.2.2)

theorem vout_fin (p : Code × S) : vout (mpsim_fin p) = p := rfl
theorem nout_finV (e : Code) (v : Val) (r : R) : nout (MD.finV e v r) = (e, r) := rfl

theorem NRel.exit {env : Env} {x : S} {e : Code} {r' : R} (hp : PL.Inv x.d.g x.d.pl) (h0 : x.d.overflowed = false)
    (hb : mpsim_BOK env x.b) (he : e ≠ .noMemory) : NRel env x.d (e, { x with r := r' }) (e, r') :=
  ⟨Grow.refl hp, Or.inl ⟨h0, rfl, he, rfl, hb⟩⟩

/-- skipping bytes on the abstract reader -/
def skip0 (r : R) (n : Nat) : Code × R :=
  match r.skipBytes n with
  | (true, r) => (.ok, r)
  | (false, r) => (.incomplete, r)

theorem nrel_skipB (env : Env) (x : S) (n : Nat) (hp : PL.Inv x.d.g x.d.pl) (h0 : x.d.overflowed = false)
    (hb : mpsim_BOK env x.b) : NRel env x.d (skipB x n) (skip0 x.r n) := by
  unfold skipB skip0
  generalize x.r.skipBytes n = q
  obtain ⟨ok, r'⟩ := q
  cases ok
  · exact NRel.exit hp h0 hb (fun h => by cases h)
  · exact NRel.exit hp h0 hb (fun h => by cases h)

theorem nout_leafFixed_false (w : Nat) (mk : List Byte → Val) (r : R) :
    nout (MD.leafFixed false w mk r) = skip0 r w := by
  unfold MD.leafFixed skip0
  rw [if_neg (by simp)]
  generalize r.skipBytes w = q
  obtain ⟨ok, r'⟩ := q
  cases ok <;> rfl

theorem nout_leafSized_false (tooBig : Prop) [Decidable tooBig] (w : Nat) (mk : List Byte → Val) (r : R) :
    nout (MD.leafSized false tooBig w mk r) = skip0 r w := by
  unfold MD.leafSized skip0
  rw [if_neg (by simp)]
  generalize r.skipBytes w = q
  obtain ⟨ok, r'⟩ := q
  cases ok <;> rfl

theorem leafArr_false (env : Env) (fuel limit : Nat) (flt : Flt) (size : Nat) (r : R) :
    nout (MD.leafArr env fuel limit flt false size r) =
      match limit with
      | 0 => (.tooDeep, r)
      | limit'+1 => lout (MD.readArray env fuel limit' flt.subIdx false size r []) := by
  cases limit <;> rfl

theorem leafMap_false (env : Env) (fuel limit : Nat) (flt : Flt) (size : Nat) (r : R) :
    nout (MD.leafMap env fuel limit flt false size r) =
      match limit with
      | 0 => (.tooDeep, r)
      | limit'+1 => lout (MD.readObject env fuel limit' flt false size r []) := by
  cases limit <;> rfl

/-! ## The three statements -/

def NSimV (env : Env) (fuel : Nat) : Prop :=
  ∀ (limit : Nat) (flt : Flt) (x : S), PL.Inv x.d.g x.d.pl → x.d.overflowed = false → mpsim_BOK env x.b →
    NRel env x.d (vout (parseVariant env fuel limit flt none x)) (nout (MD.parseVariant env fuel limit flt false x.r))

def NSimE (env : Env) (fuel : Nat) : Prop :=
  ∀ (limit : Nat) (ef : Flt) (x : S) (n : Nat) (acc : List Val), PL.Inv x.d.g x.d.pl → x.d.overflowed = false →
    mpsim_BOK env x.b →
    NRel env x.d (readArray env fuel limit ef none n x) (lout (MD.readArray env fuel limit ef false n x.r acc))

def NSimM (env : Env) (fuel : Nat) : Prop :=
  ∀ (limit : Nat) (flt : Flt) (x : S) (n : Nat) (ms : List (List Byte × Val)), PL.Inv x.d.g x.d.pl →
    x.d.overflowed = false → mpsim_BOK env x.b →
    NRel env x.d (readObject env fuel limit flt none n x) (lout (MD.readObject env fuel limit flt false n x.r ms))

/-- continuation: a step related by `NRel`, then a continuation related from the state reached -/
theorem NRel.bind {env : Env} {d0 : Doc} {p : Code × S} {p0 : Code × R} (h : NRel env d0 p p0)
    {k : Code × S} {k0 : Code × R}
    (hk : p.2.d.overflowed = false → p.1 = p0.1 → p.1 ≠ .noMemory → p.2.r = p0.2 → PL.Inv p.2.d.g p.2.d.pl →
      mpsim_BOK env p.2.b → NRel env p.2.d k k0)
    (hov : p.2.d.overflowed = true → p.1 = .noMemory → k = p) : NRel env d0 k k0 := by
  obtain ⟨g, hr⟩ := h
  rcases hr with ⟨o, c, ne, r, b⟩ | ⟨o, c⟩
  · obtain ⟨g2, h2⟩ := hk o c ne r g.pool b
    exact ⟨g.trans g2, h2⟩
  · rw [hov o c]
    exact ⟨g, Or.inr ⟨o, c⟩⟩

/-! ## `parseVariant` -/

theorem nsim_pv_zero (env : Env) : NSimV env 0 := by
  intro limit flt x hp h0 hb
  simp only [MDDF.parseVariant, MD.parseVariant]
  exact ⟨Grow.refl hp, Or.inl ⟨h0, rfl, (fun h => by cases h), rfl, hb⟩⟩

theorem nsim_pv_step (env : Env) (fuel : Nat) (hE : NSimE env fuel) (hM : NSimM env fuel) : NSimV env (fuel + 1) := by
  intro limit flt x hp h0 hb
  rw [parseVariant_step, MD.parseVariant_step, avOf_none]
  generalize x.r.read = rd
  obtain ⟨_ | code, r0⟩ := rd
  · exact NRel.exit hp h0 hb (fun h => by cases h)
  simp only
  cases MD.classify code r0 with
  | int w c =>
    show NRel env x.d (skipB { x with r := r0 } w) (nout (MD.leafFixed false w _ r0))
    rw [nout_leafFixed_false]
    exact nrel_skipB env { x with r := r0 } w hp h0 hb
  | nil => exact NRel.exit hp h0 hb (fun h => by cases h)
  | invalid => exact NRel.exit hp h0 hb (fun h => by cases h)
  | bool c => exact NRel.exit hp h0 hb (fun h => by cases h)
  | f32 =>
    show NRel env x.d (skipB { x with r := r0 } 4) (nout (MD.leafFixed false 4 _ r0))
    rw [nout_leafFixed_false]
    exact nrel_skipB env { x with r := r0 } 4 hp h0 hb
  | f64 =>
    show NRel env x.d (skipB { x with r := r0 } 8) (nout (MD.leafFixed false 8 _ r0))
    rw [nout_leafFixed_false]
    exact nrel_skipB env { x with r := r0 } 8 hp h0 hb
  | fix c => exact NRel.exit hp h0 hb (fun h => by cases h)
  | inc r => exact NRel.exit hp h0 hb (fun h => by cases h)
  | arr size r =>
    show NRel env x.d (vout (fleafArr env fuel limit flt none size { x with r := r }))
      (nout (MD.leafArr env fuel limit flt false size r))
    rw [leafArr_false]
    unfold fleafArr
    cases limit with
    | zero => exact NRel.exit hp h0 hb (fun h => by cases h)
    | succ limit' =>
      simp only [avOf_none]
      exact hE limit' flt.subIdx { x with r := r } size [] hp h0 hb
  | map size r =>
    show NRel env x.d (vout (fleafMap env fuel limit flt none size { x with r := r }))
      (nout (MD.leafMap env fuel limit flt false size r))
    rw [leafMap_false]
    unfold fleafMap
    cases limit with
    | zero => exact NRel.exit hp h0 hb (fun h => by cases h)
    | succ limit' =>
      simp only [avOf_none]
      exact hM limit' flt { x with r := r } size [] hp h0 hb
  | str size r =>
    show NRel env x.d (skipB { x with r := r } size) (nout (MD.leafSized false _ size _ r))
    rw [nout_leafSized_false]
    exact nrel_skipB env { x with r := r } size hp h0 hb
  | bin sizeBytes isExt hdr size r =>
    show NRel env x.d (skipB { x with r := r } (MD.binSize isExt size)) (nout (MD.leafSized false _ (MD.binSize isExt size) _ r))
    rw [nout_leafSized_false]
    exact nrel_skipB env { x with r := r } (MD.binSize isExt size) hp h0 hb

/-! ## `readArray` -/

/-- one step of the abstract `readArray`, any filter, with or without an array -/
theorem readArray0_succ (env : Env) (fuel limit : Nat) (ef : Flt) (hasArr : Bool) (n : Nat) (r : R) (acc : List Val) :
    MD.readArray env (fuel+1) limit ef hasArr n r acc =
      if n == 0 then (.ok, acc.reverse, r) else
      match MD.parseVariant env fuel limit ef (hasArr && ef.allow) r with
      | (.ok, v, r, _) => MD.readArray env fuel limit ef hasArr (n - 1) r (if hasArr && ef.allow then v :: acc else acc)
      | (e, v, r, _) => (e, (if hasArr && ef.allow then v :: acc else acc).reverse, r) := by
  simp only [MD.readArray]
  rfl

theorem nsim_pe_zero (env : Env) : NSimE env 0 := by
  intro limit ef x n acc hp h0 hb
  simp only [MDDF.readArray, MD.readArray]
  exact ⟨Grow.refl hp, Or.inl ⟨h0, rfl, (fun h => by cases h), rfl, hb⟩⟩

theorem nsim_pe_step (env : Env) (fuel : Nat) (hV : NSimV env fuel) (hE : NSimE env fuel) : NSimE env (fuel + 1) := by
  intro limit ef x n acc hp h0 hb
  rw [readArray_succ_d0, readArray0_succ, avOf_none]
  by_cases hn : (n == 0) = true
  · rw [if_pos hn, if_pos hn]
    exact ⟨Grow.refl hp, Or.inl ⟨h0, rfl, (fun h => by cases h), rfl, hb⟩⟩
  rw [if_neg hn, if_neg hn]
  show NRel env x.d
    (match parseVariant env fuel limit ef none x with
      | (.ok, x, _) => readArray env fuel limit ef none (n - 1) x
      | (e, x, _) => (e, x)) _
  simp only [Bool.false_and, Bool.false_eq_true, if_false]
  have hsim := hV limit ef x hp h0 hb
  generalize parseVariant env fuel limit ef none x = rv at hsim
  generalize MD.parseVariant env fuel limit ef false x.r = rv0 at hsim
  obtain ⟨c, x2, f⟩ := rv
  obtain ⟨c0, v0, s0, f0⟩ := rv0
  refine hsim.bind (fun o2 hc hne hr hp2 hb2 => ?_) (fun o2 hc => ?_)
  · simp only [vout, nout] at o2 hc hr hp2 hb2
    subst hc hr
    cases c
    case ok => exact hE limit ef x2 (n - 1) acc hp2 o2 hb2
    all_goals exact ⟨Grow.refl hp2, Or.inl ⟨o2, rfl, hne, rfl, hb2⟩⟩
  · simp only [vout] at o2 hc
    subst hc
    rfl

/-! ## `readObject` -/

/-- the abstract member value, then the remaining members -/
def froVal0 (env : Env) (fuel limit : Nat) (flt : Flt) (hasObj : Bool) (n : Nat) (key : List Byte) (r : R)
    (ms : List (List Byte × Val)) : Code × List (List Byte × Val) × R :=
  match MD.parseVariant env fuel limit (flt.subKey key) (hasObj && (flt.subKey key).allow) r with
  | (.ok, v, r, _) =>
    MD.readObject env fuel limit flt hasObj (n - 1) r (if hasObj && (flt.subKey key).allow then ms ++ [(key, v)] else ms)
  | (e, v, r, _) => (e, (if hasObj && (flt.subKey key).allow then ms ++ [(key, v)] else ms), r)

def froKey0 (env : Env) (fuel limit : Nat) (flt : Flt) (hasObj : Bool) (n len : Nat) (r : R)
    (ms : List (List Byte × Val)) : Code × List (List Byte × Val) × R :=
  match mpsim_readStr0 env r len with
  | (.ok, key, r) => froVal0 env fuel limit flt hasObj n key r ms
  | (e, _, r) => (e, ms, r)

theorem readObject0_step (env : Env) (fuel limit : Nat) (flt : Flt) (hasObj : Bool) (n : Nat) (r : R)
    (ms : List (List Byte × Val)) :
    MD.readObject env (fuel+1) limit flt hasObj n r ms =
      if n == 0 then (.ok, ms, r) else
      match r.read with
      | (none, r) => (.incomplete, ms, r)
      | (some code, r) =>
        match MD.keyLenOf_d3 code r with
        | (none, r) => (.invalid, ms, r)
        | (some none, r) => (.incomplete, ms, r)
        | (some (some len), r) => froKey0 env fuel limit flt hasObj n len r ms := by
  rw [MD.readObject_step]
  by_cases hn : (n == 0) = true
  · rw [if_pos hn, if_pos hn]
  rw [if_neg hn, if_neg hn]
  generalize r.read = rd
  obtain ⟨_ | code, r0⟩ := rd
  · rfl
  simp only
  generalize MD.keyLenOf_d3 code r0 = kl
  obtain ⟨_ | _ | len, r1⟩ := kl
  · rfl
  · rfl
  simp only
  unfold froKey0 mpsim_readStr0
  by_cases hbig : len > env.maxStrLen
  · rw [if_pos hbig, if_pos hbig]
  rw [if_neg hbig, if_neg hbig]
  generalize r1.readBytes len = rb
  obtain ⟨_ | key, r2⟩ := rb
  · rfl
  · rfl

theorem nsim_pm_zero (env : Env) : NSimM env 0 := by
  intro limit flt x n ms hp h0 hb
  simp only [MDDF.readObject, MD.readObject]
  exact ⟨Grow.refl hp, Or.inl ⟨h0, rfl, (fun h => by cases h), rfl, hb⟩⟩

/-- `readString` as a step of `NRel` -/
theorem nrel_readString (env : Env) (x : S) (n : Nat) (hp : PL.Inv x.d.g x.d.pl) (hb : mpsim_BOK env x.b)
    (h0 : x.d.overflowed = false) :
    NRel env x.d ((readString env x n).1, (readString env x n).2.2)
      ((mpsim_readStr0 env x.r n).1, (mpsim_readStr0 env x.r n).2.2) ∧
    ((readString env x n).2.2.d.overflowed = false → (readString env x n).2.1 = (mpsim_readStr0 env x.r n).2.1) := by
  obtain ⟨g, hr⟩ := mpsim_readString env x n hp hb h0
  rcases hr with ⟨ov, hc⟩ | ⟨ov, bk, hc, hne, hbs, hrr⟩
  · exact ⟨⟨g, Or.inr ⟨ov, hc⟩⟩, fun h => by rw [ov] at h; cases h⟩
  · exact ⟨⟨g, Or.inl ⟨ov, hc, hne, hrr, bk⟩⟩, fun _ => hbs⟩

/-- the value of a member without destination, then the remaining members -/
theorem nsim_roVal (env : Env) (fuel : Nat) (hV : NSimV env fuel) (hM : NSimM env fuel) {limit n : Nat} {flt : Flt}
    {x : S} {ms : List (List Byte × Val)} (key : List Byte) (hp : PL.Inv x.d.g x.d.pl) (h0 : x.d.overflowed = false)
    (hb : mpsim_BOK env x.b) :
    NRel env x.d (froVal_f env fuel limit flt none n (flt.subKey key) none x)
      (lout (froVal0 env fuel limit flt false n key x.r ms)) := by
  have hsim := hV limit (flt.subKey key) x hp h0 hb
  unfold froVal_f froVal0
  simp only [Bool.false_and, Bool.false_eq_true, if_false]
  generalize parseVariant env fuel limit (flt.subKey key) none x = rv at hsim
  generalize MD.parseVariant env fuel limit (flt.subKey key) false x.r = rv0 at hsim
  obtain ⟨c, x2, f⟩ := rv
  obtain ⟨c0, v0, s0, f0⟩ := rv0
  refine hsim.bind (fun o2 hc hne hr hp2 hb2 => ?_) (fun o2 hc => ?_)
  · simp only [vout, nout] at o2 hc hr hp2 hb2
    subst hc hr
    cases c
    case ok => exact hM limit flt x2 (n - 1) ms hp2 o2 hb2
    all_goals exact ⟨Grow.refl hp2, Or.inl ⟨o2, rfl, hne, rfl, hb2⟩⟩
  · simp only [vout] at o2 hc
    subst hc
    rfl

theorem nsim_roKey (env : Env) (fuel : Nat) (hV : NSimV env fuel) (hM : NSimM env fuel) {limit n len : Nat} {flt : Flt}
    {x : S} {ms : List (List Byte × Val)} (hp : PL.Inv x.d.g x.d.pl) (h0 : x.d.overflowed = false)
    (hb : mpsim_BOK env x.b) :
    NRel env x.d (froKey_f env fuel limit flt none n len x) (lout (froKey0 env fuel limit flt false n len x.r ms)) := by
  obtain ⟨hrs, hkey⟩ := nrel_readString env x len hp hb h0
  unfold froKey_f froKey0
  generalize readString env x len = q at *
  generalize mpsim_readStr0 env x.r len = q0 at *
  obtain ⟨c, key, y⟩ := q
  obtain ⟨c0, key0, r0⟩ := q0
  simp only at hrs hkey
  refine hrs.bind (fun o2 hc hne hr hp2 hb2 => ?_) (fun o2 hc => ?_)
  · simp only at o2 hc hr hp2 hb2
    have hk := hkey o2
    subst hc hr hk
    cases c
    case ok =>
      simp only [avOf_none, fmSlot]
      exact nsim_roVal env fuel hV hM key hp2 o2 hb2
    all_goals exact ⟨Grow.refl hp2, Or.inl ⟨o2, rfl, hne, rfl, hb2⟩⟩
  · simp only at o2 hc
    subst hc
    rfl

theorem nsim_pm_step (env : Env) (fuel : Nat) (hV : NSimV env fuel) (hM : NSimM env fuel) : NSimM env (fuel + 1) := by
  intro limit flt x n ms hp h0 hb
  rw [readObject_step, readObject0_step]
  by_cases hn : (n == 0) = true
  · rw [if_pos hn, if_pos hn]
    exact ⟨Grow.refl hp, Or.inl ⟨h0, rfl, (fun h => by cases h), rfl, hb⟩⟩
  rw [if_neg hn, if_neg hn]
  generalize x.r.read = rd
  obtain ⟨_ | code, r0⟩ := rd
  · exact NRel.exit hp h0 hb (fun h => by cases h)
  simp only
  generalize MD.keyLenOf_d3 code r0 = kl
  obtain ⟨_ | _ | len, r1⟩ := kl
  · exact NRel.exit hp h0 hb (fun h => by cases h)
  · exact NRel.exit hp h0 hb (fun h => by cases h)
  simp only
  exact nsim_roKey env fuel hV hM (x := { x with r := r1 }) hp h0 hb

/-- THE SIMULATION WITHOUT DESTINATION: for every fuel and every filter -/
theorem nsim_all (env : Env) : ∀ fuel, NSimV env fuel ∧ NSimE env fuel ∧ NSimM env fuel := by
  intro fuel
  induction fuel with
  | zero => exact ⟨nsim_pv_zero env, nsim_pe_zero env, nsim_pm_zero env⟩
  | succ n ih =>
    obtain ⟨hV, hE, hM⟩ := ih
    exact ⟨nsim_pv_step env n hE hM, nsim_pe_step env n hV hE, nsim_pm_step env n hV hM⟩

end MDDF
