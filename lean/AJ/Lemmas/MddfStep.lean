/- Simulation of the FILTERED slot-level MessagePack deserializer `MDDF` (AJ/Model/MDDF.lean) by the value-level filtered
   deserializer `MD.parseVariant/readArray/readObject`, part 1: the three mutual routines of `MDDF` cut into named pieces.
   `MDDF.parseVariant` is the header dispatch `MD.dispatch` (AJ/Lemmas/MpProject.lean) applied to leaves that either run the
   slot-level leaf of the unfiltered development (`MDD.mpsim_leaf…`, destination present and allowed) or skip bytes on the
   reader (`skipB`, no destination or not allowed). -/
import AJ.Model.MDDF
import AJ.Lemmas.MddSimAll
set_option linter.unusedSimpArgs false
set_option linter.unusedVariables false
namespace MDDF
open DL MDD
open JD (Byte Val Code Flt)
open MD (R Env Hdr beNat)

/-- the destination once the filter has spoken: the pointer, or null -/
def avOf (b : Bool) (dst : Option Loc) : Option Loc := if b then dst else none

theorem avOf_none (b : Bool) : avOf b none = none := by cases b <;> rfl
theorem avOf_true (dst : Option Loc) : avOf true dst = dst := rfl
theorem avOf_false (dst : Option Loc) : avOf false dst = none := rfl

/-- skipping `n` bytes of the input -/
def skipB (x : S) (n : Nat) : Code × S :=
  match x.r.skipBytes n with
  | (true, r) => (.ok, { x with r := r })
  | (false, r) => (.incomplete, { x with r := r })

def fleafInt (av : Option Loc) (w c : Nat) (x : S) : mpsim_VOut :=
  match av with
  | some l => mpsim_leafInt l w c x
  | none => mpsim_fin (skipB x w)

def fleafSet (av : Option Loc) (v : VData) (x : S) : mpsim_VOut :=
  match av with
  | some l => mpsim_fin (.ok, { x with d := x.d.set l v })
  | none => mpsim_fin (.ok, x)

def fleafF32 (av : Option Loc) (x : S) : mpsim_VOut :=
  match av with
  | some l => mpsim_leafF32 l x
  | none => mpsim_fin (skipB x 4)

def fleafF64 (av : Option Loc) (x : S) : mpsim_VOut :=
  match av with
  | some l => mpsim_leafF64 l x
  | none => mpsim_fin (skipB x 8)

def fleafArr (env : Env) (fuel limit : Nat) (flt : Flt) (dst : Option Loc) (size : Nat) (x : S) : mpsim_VOut :=
  match limit with
  | 0 => mpsim_fin (.tooDeep, x)
  | limit'+1 =>
    match avOf flt.allowArray dst with
    | some l => mpsim_fin (readArray env fuel limit' flt.subIdx (some l) size { x with d := x.d.set l (.arr x.d.null x.d.null) })
    | none => mpsim_fin (readArray env fuel limit' flt.subIdx none size x)

def fleafMap (env : Env) (fuel limit : Nat) (flt : Flt) (dst : Option Loc) (size : Nat) (x : S) : mpsim_VOut :=
  match limit with
  | 0 => mpsim_fin (.tooDeep, x)
  | limit'+1 =>
    match avOf flt.allowObject dst with
    | some l => mpsim_fin (readObject env fuel limit' flt (some l) size { x with d := x.d.set l (.obj x.d.null x.d.null) })
    | none => mpsim_fin (readObject env fuel limit' flt none size x)

def fleafStr (env : Env) (av : Option Loc) (size : Nat) (x : S) : mpsim_VOut :=
  match av with
  | some l => mpsim_leafStr env l size x
  | none => mpsim_fin (skipB x size)

def fleafBin (env : Env) (av : Option Loc) (code : Byte) (sizeBytes : Nat) (isExt : Bool) (hb : List Byte) (size : Nat)
    (x : S) : mpsim_VOut :=
  match av with
  | some l => mpsim_leafBin env l code sizeBytes isExt hb size x
  | none => mpsim_fin (skipB x (MD.binSize isExt size))

set_option maxRecDepth 8000 in
theorem parseVariant_succ_d0 (env : Env) (fuel limit : Nat) (flt : Flt) (dst : Option Loc) (x : S) :
    parseVariant env (fuel+1) limit flt dst x =
      match x.r.read with
      | (none, r) => (.incomplete, { x with r := r }, false)
      | (some code, r) =>
        MD.dispatch code r
          (fun w c => fleafInt (avOf flt.allowValue dst) w c { x with r := r })
          (mpsim_fin (.ok, { x with r := r })) (mpsim_fin (.invalid, { x with r := r }))
          (fun c => fleafSet (avOf flt.allowValue dst) (.bool (c == 0xc3)) { x with r := r })
          (fleafF32 (avOf flt.allowValue dst) { x with r := r })
          (fleafF64 (avOf flt.allowValue dst) { x with r := r })
          (fun c => fleafSet (avOf flt.allowValue dst) (.i32 (if c ≥ 0x80 then (c : Int) - 256 else c)) { x with r := r })
          (fun r => mpsim_fin (.incomplete, { x with r := r }))
          (fun size r => fleafArr env fuel limit flt dst size { x with r := r })
          (fun size r => fleafMap env fuel limit flt dst size { x with r := r })
          (fun size r => fleafStr env (avOf flt.allowValue dst) size { x with r := r })
          (fun sizeBytes isExt hb size r =>
            fleafBin env (avOf flt.allowValue dst) code sizeBytes isExt hb size { x with r := r }) := by
  simp only [parseVariant, MD.dispatch, MD.hdrOf_d4, MD.size2Of, MD.size0Ext, MD.sizeBytesOf, fleafInt, fleafSet, fleafF32,
    fleafF64, fleafArr, fleafMap, fleafStr, fleafBin, mpsim_leafInt, mpsim_leafF32, mpsim_leafF64, mpsim_leafStr,
    mpsim_leafBin, mpsim_fin, skipB, avOf, MD.binSize]
  rfl

/-- what the filtered slot-level `parseVariant` does once the header is classified; `x` holds the reader after the header
    byte, `av` is the destination for a scalar (`avOf flt.allowValue dst`) -/
def fleaf (env : Env) (fuel limit : Nat) (flt : Flt) (dst av : Option Loc) (code : Byte) (x : S) : Hdr → mpsim_VOut
  | .int w c => fleafInt av w c x
  | .nil => mpsim_fin (.ok, x)
  | .invalid => mpsim_fin (.invalid, x)
  | .bool c => fleafSet av (.bool (c == 0xc3)) x
  | .f32 => fleafF32 av x
  | .f64 => fleafF64 av x
  | .fix c => fleafSet av (.i32 (if c ≥ 0x80 then (c : Int) - 256 else c)) x
  | .inc r => mpsim_fin (.incomplete, { x with r := r })
  | .arr size r => fleafArr env fuel limit flt dst size { x with r := r }
  | .map size r => fleafMap env fuel limit flt dst size { x with r := r }
  | .str size r => fleafStr env av size { x with r := r }
  | .bin sizeBytes isExt hb size r => fleafBin env av code sizeBytes isExt hb size { x with r := r }

/-- **One step of the filtered slot-level `parseVariant`**: read the header byte, classify, run the leaf. -/
theorem parseVariant_step (env : Env) (fuel limit : Nat) (flt : Flt) (dst : Option Loc) (x : S) :
    parseVariant env (fuel+1) limit flt dst x =
      match x.r.read with
      | (none, r) => (.incomplete, { x with r := r }, false)
      | (some code, r) =>
        fleaf env fuel limit flt dst (avOf flt.allowValue dst) code { x with r := r } (MD.classify code r) := by
  rw [parseVariant_succ_d0]
  generalize x.r.read = rd
  obtain ⟨_ | code, r0⟩ := rd
  · rfl
  simp only [MD.dispatch_eq]
  cases MD.classify code r0 <;> rfl

/-! ## `readArray`, `readObject` -/

/-- the slot for an element: `addElement` when the array exists and the element filter allows, else no destination;
    `none`: the allocation failed -/
def feSlot (a : Option Loc) (x : S) : Option (Option Loc) × S :=
  match a with
  | some l =>
    match x.d.addElement l with
    | (none, d) => (none, { x with d := d })
    | (some id, d) => (some (some (.slot id)), { x with d := d })
  | none => (some none, x)

theorem readArray_succ_d0 (env : Env) (fuel limit : Nat) (ef : Flt) (arr : Option Loc) (n : Nat) (x : S) :
    readArray env (fuel+1) limit ef arr n x =
      if n == 0 then (.ok, x) else
      match feSlot (avOf ef.allow arr) x with
      | (none, x) => (.noMemory, x)
      | (some dst, x) =>
        match parseVariant env fuel limit ef dst x with
        | (.ok, x, _) => readArray env fuel limit ef arr (n - 1) x
        | (e, x, _) => (e, x) := by
  simp only [readArray, feSlot, avOf]
  rfl

/-- the slot for a member value: the key is saved and the member appended when the object exists and the member filter
    allows, else no destination -/
def fmSlot (a : Option Loc) (key : List Byte) (x : S) : Option (Option Loc) × S :=
  match a with
  | some l =>
    match JDD.addMemberNode (save x key).2.d l (save x key).1 with
    | (none, d) => (none, { (save x key).2 with d := d })
    | (some v, d) => (some (some (.slot v)), { (save x key).2 with d := d })
  | none => (some none, x)

/-- the member value, then the remaining members -/
def froVal_f (env : Env) (fuel limit : Nat) (flt : Flt) (obj : Option Loc) (n : Nat) (mf : Flt) (dst : Option Loc) (x : S) :
    Code × S :=
  match parseVariant env fuel limit mf dst x with
  | (.ok, x, _) => readObject env fuel limit flt obj (n - 1) x
  | (e, x, _) => (e, x)

/-- the key string is read; its slot is provided (or not), the value parsed -/
def froKey_f (env : Env) (fuel limit : Nat) (flt : Flt) (obj : Option Loc) (n len : Nat) (x : S) : Code × S :=
  match readString env x len with
  | (.ok, key, x) =>
    match fmSlot (avOf (flt.subKey key).allow obj) key x with
    | (none, x) => (.noMemory, x)
    | (some dst, x) => froVal_f env fuel limit flt obj n (flt.subKey key) dst x
  | (e, _, x) => (e, x)

set_option maxRecDepth 8000 in
theorem readObject_step (env : Env) (fuel limit : Nat) (flt : Flt) (obj : Option Loc) (n : Nat) (x : S) :
    readObject env (fuel+1) limit flt obj n x =
      if n == 0 then (.ok, x) else
      match x.r.read with
      | (none, r) => (.incomplete, { x with r := r })
      | (some code, r) =>
        match MD.keyLenOf_d3 code r with
        | (none, r) => (.invalid, { x with r := r })
        | (some none, r) => (.incomplete, { x with r := r })
        | (some (some len), r) => froKey_f env fuel limit flt obj n len { x with r := r } := by
  simp only [readObject, MD.keyLenOf_d3, froKey_f, froVal_f, fmSlot, avOf]
  rfl

end MDDF
