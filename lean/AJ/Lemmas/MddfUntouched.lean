/- The FILTERED slot-level MessagePack deserializer `MDDF` without a destination (`dst = none`: below a removed member, a
   removed element or a refused container), or under a filter that allows nothing: the document is UNTOUCHED apart from the
   allocator state and the overflow flag (the keys of skipped maps still go through `StringBuffer::reserve`). No hypothesis
   on the document: `Same` is literal equality of every other field. -/
import AJ.Lemmas.MddfStep
set_option linter.unusedSimpArgs false
set_option linter.unusedVariables false
namespace MDDF
open DL MDD
open JD (Byte Val Code Flt)
open MD (R Env Hdr beNat)

/-- `d'` is `d` apart from the allocator state and the overflow flag -/
def Same (d d' : Doc) : Prop :=
  d'.g = d.g ∧ d'.alloc = d.alloc ∧ d'.cells = d.cells ∧ d'.strings = d.strings ∧ d'.nextNode = d.nextNode ∧
  d'.root = d.root ∧ d'.strOverhead = d.strOverhead

theorem Same.refl (d : Doc) : Same d d := ⟨rfl, rfl, rfl, rfl, rfl, rfl, rfl⟩

theorem Same.trans {d d1 d2 : Doc} (h1 : Same d d1) (h2 : Same d1 d2) : Same d d2 := by
  obtain ⟨a1, a2, a3, a4, a5, a6, a7⟩ := h1
  obtain ⟨b1, b2, b3, b4, b5, b6, b7⟩ := h2
  exact ⟨b1.trans a1, b2.trans a2, b3.trans a3, b4.trans a4, b5.trans a5, b6.trans a6, b7.trans a7⟩

theorem reserve_same_none (m : Nat) (x : S) (n : Nat) (hb : x.b = none) : Same x.d (reserve m x n).2.d := by
  rw [mpsim_reserve_none m n hb]
  by_cases h1 : n > m
  · rw [if_pos h1]; exact ⟨rfl, rfl, rfl, rfl, rfl, rfl, rfl⟩
  rw [if_neg h1]
  by_cases h2 : (x.d.pl.alloc (n + x.d.strOverhead)).1 = true
  · rw [if_pos h2]; exact ⟨rfl, rfl, rfl, rfl, rfl, rfl, rfl⟩
  · rw [if_neg h2]; exact ⟨rfl, rfl, rfl, rfl, rfl, rfl, rfl⟩

/-- `StringBuffer::reserve` leaves everything but the allocator state and the overflow flag -/
theorem reserve_same (m : Nat) (x : S) (n : Nat) : Same x.d (reserve m x n).2.d := by
  cases hxb : x.b with
  | none => exact reserve_same_none m x n hxb
  | some cap =>
    by_cases hn : n > cap
    · rw [mpsim_reserve_release m hxb hn]
      exact Same.trans (d1 := { x.d with pl := x.d.pl.dealloc }) ⟨rfl, rfl, rfl, rfl, rfl, rfl, rfl⟩
        (reserve_same_none m { x with d := { x.d with pl := x.d.pl.dealloc }, b := none } n rfl)
    · rw [mpsim_reserve_keep m hxb hn]; exact Same.refl _

theorem readString_same (env : Env) (x : S) (n : Nat) : Same x.d (readString env x n).2.2.d := by
  rw [mpsim_readString_eq]
  have := reserve_same env.maxStrLen x n
  generalize reserve env.maxStrLen x n = q at *
  obtain ⟨ok, y⟩ := q
  cases ok
  · exact this
  · simp only [if_true]
    generalize y.r.readBytes n = rb
    obtain ⟨_ | bs, r'⟩ := rb <;> exact this

theorem skipB_same (x : S) (n : Nat) : Same x.d (skipB x n).2.d := by
  unfold skipB
  generalize x.r.skipBytes n = q
  obtain ⟨ok, r'⟩ := q
  cases ok <;> exact Same.refl _

/-- "nothing is stored": the destination is null, or the filter allows nothing -/
def Blind (flt : Flt) (dst : Option Loc) : Prop :=
  avOf flt.allowValue dst = none ∧ avOf flt.allowArray dst = none ∧ avOf flt.allowObject dst = none

theorem blind_none (flt : Flt) : Blind flt none := ⟨avOf_none _, avOf_none _, avOf_none _⟩

theorem blind_of_flags {flt : Flt} (hV : flt.allowValue = false) (hA : flt.allowArray = false)
    (hO : flt.allowObject = false) (dst : Option Loc) : Blind flt dst := by
  unfold Blind; rw [hV, hA, hO]; exact ⟨rfl, rfl, rfl⟩

def UV (env : Env) (fuel : Nat) : Prop :=
  ∀ (limit : Nat) (flt : Flt) (dst : Option Loc) (x : S), Blind flt dst →
    Same x.d (parseVariant env fuel limit flt dst x).2.1.d
def UE (env : Env) (fuel : Nat) : Prop :=
  ∀ (limit : Nat) (ef : Flt) (n : Nat) (x : S), Same x.d (readArray env fuel limit ef none n x).2.d
def UM (env : Env) (fuel : Nat) : Prop :=
  ∀ (limit : Nat) (flt : Flt) (n : Nat) (x : S), Same x.d (readObject env fuel limit flt none n x).2.d

theorem uv_step (env : Env) (fuel : Nat) (hE : UE env fuel) (hM : UM env fuel) : UV env (fuel + 1) := by
  intro limit flt dst x hbl
  obtain ⟨b1, b2, b3⟩ := hbl
  rw [parseVariant_step, b1]
  generalize x.r.read = rd
  obtain ⟨_ | code, r0⟩ := rd
  · exact Same.refl _
  simp only
  cases MD.classify code r0 with
  | int w c => exact skipB_same { x with r := r0 } w
  | nil => exact Same.refl _
  | invalid => exact Same.refl _
  | bool c => exact Same.refl _
  | f32 => exact skipB_same { x with r := r0 } 4
  | f64 => exact skipB_same { x with r := r0 } 8
  | fix c => exact Same.refl _
  | inc r => exact Same.refl _
  | arr size r =>
    simp only [fleaf, fleafArr, b2]
    cases limit with
    | zero => exact Same.refl _
    | succ limit' => exact hE limit' flt.subIdx size { x with r := r }
  | map size r =>
    simp only [fleaf, fleafMap, b3]
    cases limit with
    | zero => exact Same.refl _
    | succ limit' => exact hM limit' flt size { x with r := r }
  | str size r => exact skipB_same { x with r := r } size
  | bin sizeBytes isExt hdr size r => exact skipB_same { x with r := r } (MD.binSize isExt size)

theorem ue_step (env : Env) (fuel : Nat) (hV : UV env fuel) (hE : UE env fuel) : UE env (fuel + 1) := by
  intro limit ef n x
  rw [readArray_succ_d0, avOf_none]
  by_cases hn : (n == 0) = true
  · rw [if_pos hn]; exact Same.refl _
  rw [if_neg hn]
  show Same x.d
    (match parseVariant env fuel limit ef none x with
      | (.ok, x, _) => readArray env fuel limit ef none (n - 1) x
      | (e, x, _) => (e, x)).2.d
  have h1 := hV limit ef none x (blind_none ef)
  generalize parseVariant env fuel limit ef none x = rv at h1
  obtain ⟨c, x2, f⟩ := rv
  cases c
  case ok => exact h1.trans (hE limit ef (n - 1) x2)
  all_goals exact h1

theorem um_step (env : Env) (fuel : Nat) (hV : UV env fuel) (hM : UM env fuel) : UM env (fuel + 1) := by
  intro limit flt n x
  rw [readObject_step]
  by_cases hn : (n == 0) = true
  · rw [if_pos hn]; exact Same.refl _
  rw [if_neg hn]
  generalize x.r.read = rd
  obtain ⟨_ | code, r0⟩ := rd
  · exact Same.refl _
  simp only
  generalize MD.keyLenOf_d3 code r0 = kl
  obtain ⟨_ | _ | len, r1⟩ := kl
  · exact Same.refl _
  · exact Same.refl _
  simp only
  unfold froKey_f
  have h1 := readString_same env { x with r := r1 } len
  generalize readString env { x with r := r1 } len = q at h1
  obtain ⟨c, key, y⟩ := q
  cases c
  case ok =>
    simp only [avOf_none, fmSlot, froVal_f]
    have h2 := hV limit (flt.subKey key) none y (blind_none _)
    generalize parseVariant env fuel limit (flt.subKey key) none y = rv at h2
    obtain ⟨c2, x2, f⟩ := rv
    cases c2
    case ok => exact h1.trans (h2.trans (hM limit flt (n - 1) x2))
    all_goals exact h1.trans h2
  all_goals exact h1

/-- for every fuel: a run that stores nothing leaves the document untouched -/
theorem untouched_all (env : Env) : ∀ fuel, UV env fuel ∧ UE env fuel ∧ UM env fuel := by
  intro fuel
  induction fuel with
  | zero =>
    refine ⟨fun _ _ _ _ _ => ?_, fun _ _ _ _ => ?_, fun _ _ _ _ => ?_⟩
    · simp only [MDDF.parseVariant]; exact Same.refl _
    · simp only [MDDF.readArray]; exact Same.refl _
    · simp only [MDDF.readObject]; exact Same.refl _
  | succ n ih =>
    obtain ⟨hV, hE, hM⟩ := ih
    exact ⟨uv_step env n hE hM, ue_step env n hV hE, um_step env n hV hM⟩

/-- **no destination: the document is untouched** (apart from the allocator state and the overflow flag), whatever the
    document, the filter and the input -/
theorem none_untouched (env : Env) (fuel limit : Nat) (flt : Flt) (x : S) :
    Same x.d (parseVariant env fuel limit flt none x).2.1.d :=
  (untouched_all env fuel).1 limit flt none x (blind_none flt)

/-- what `MDDF.run` does after its parse keeps `Same` -/
theorem run_same (env : Env) (limit : Nat) (flt : Flt) (d : Doc) (input : List Byte)
    (hV : flt.allowValue = false) (hA : flt.allowArray = false) (hO : flt.allowObject = false) :
    Same d.clearAll (MDDF.run env limit flt d input).2.1 := by
  have h := (untouched_all env (2 * input.length + 4)).1 limit flt (some .root)
    { r := { unread := input }, d := d.clearAll } (blind_of_flags hV hA hO _)
  simp only [MDDF.run]
  generalize parseVariant env (2 * input.length + 4) limit flt (some .root)
    { r := { unread := input }, d := d.clearAll } = rv at h
  obtain ⟨c, x, f⟩ := rv
  simp only at h ⊢
  cases x.b <;> exact h.trans ⟨rfl, rfl, rfl, rfl, rfl, rfl, rfl⟩

end MDDF
