/- Every legal MessagePack encoding (`MD.EncVal`, AJ/Lemmas/MpEncValue.lean) against the independent decoder written from
   the format specification (`MSpec.decode`, AJ/Spec/MSpec.lean):
   * `Den mv v` : the document value `v` denotes the specification object `mv` (integers by value whatever the kind, floats
     bit-exact (`storeDouble` for float64), strings, raw nodes whose bytes decode to that bin / ext object, arrays, maps with
     str keys in order);
   * `enc_spec` : `EncVal env d e v → ∃ mv, Den mv v ∧ Decodes e mv`;
   * `valOfMV`, `canon`, `den_canon` : for raw-free values, `canon v = valOfMV mv` — up to the signedness tag of non-negative
     integers the stored value is a FUNCTION of the decoded object;
   * `canon_eq_eqBoth` : two documents with the same `canon` compare equal (`Cmp.compare`, both ways). -/
import AJ.Lemmas.MpEncValue
import AJ.Lemmas.MsgPack
import AJ.Lemmas.CrossFormat
namespace MD
open JD MsgPack CrossFormat
open MSpec (MV take?)

theorem be_eq_beNat (bs : List Byte) : MSpec.be bs = beNat bs := rfl

/-! ## denotation -/
mutual
/-- the value `v` of a document denotes the MessagePack object `mv` -/
def Den : MV → Val → Prop
  | .nil, v => v = .null
  | .bool b, v => v = .bool b
  | .int k, v => v = .num (.sint k) ∨ ∃ n : Nat, k = (n : Int) ∧ v = .num (.uint n)
  | .f32 b, v => v = .num (.f32 b)
  | .f64 b, v => v = .num (storeDouble b)
  | .str s, v => v = .str s
  | .bin s, v => ∃ r, v = .raw r ∧ MSpec.decode 1 r = some (.bin s, [])
  | .ext t s, v => ∃ r, v = .raw r ∧ MSpec.decode 1 r = some (.ext t s, [])
  | .arr xs, v => ∃ ys, v = .arr ys ∧ DenL xs ys
  | .map kvs, v => ∃ ms, v = .obj ms ∧ DenM kvs ms
def DenL : List MV → List Val → Prop
  | [], ys => ys = []
  | x :: r, ys => ∃ y s, ys = y :: s ∧ Den x y ∧ DenL r s
def DenM : List (MV × MV) → List (List Byte × Val) → Prop
  | [], ms => ms = []
  | (k, x) :: r, ms => ∃ k' y s, ms = (k', y) :: s ∧ k = .str k' ∧ Den x y ∧ DenM r s
end

theorem denL_append : ∀ (xs : List MV) (ys : List Val) (x : MV) (y : Val), DenL xs ys → Den x y → DenL (xs ++ [x]) (ys ++ [y])
  | [], ys, x, y, h, hd => by
    simp only [DenL] at h; subst h
    simp only [List.nil_append, DenL]
    exact ⟨y, [], rfl, hd, rfl⟩
  | a :: r, ys, x, y, h, hd => by
    simp only [DenL] at h
    obtain ⟨b, s, rfl, h1, h2⟩ := h
    simp only [List.cons_append, DenL]
    exact ⟨b, s ++ [y], rfl, h1, denL_append r s x y h2 hd⟩

/-! ## one object of the specification decoder, whatever follows -/

/-- the specification decoder reads `e ++ rest` as `(mv, rest)` -/
def Decodes (e : List Byte) (mv : MV) : Prop :=
  ∀ fuel rest, 2 * e.length ≤ fuel → MSpec.decode fuel (e ++ rest) = some (mv, rest)

section leaves
variable (f : Nat) (rest : List Byte)

theorem sdec_uint (code : Byte) (bs : List Byte) (h1 : 0xcc ≤ code.toNat) (h2 : code.toNat ≤ 0xcf)
    (h3 : bs.length = 2^(code.toNat - 0xcc)) :
    MSpec.decode (f+1) (code :: bs ++ rest) = some (.int (beNat bs : Nat), rest) := by
  rw [List.cons_append, decode_step]
  generalize code.toNat = n at *
  ladder
  rw [take?_append _ bs rest h3]
  rfl

theorem sdec_sint (code : Byte) (bs : List Byte) (h1 : 0xd0 ≤ code.toNat) (h2 : code.toNat ≤ 0xd3)
    (h3 : bs.length = 2^(code.toNat - 0xd0)) :
    MSpec.decode (f+1) (code :: bs ++ rest) = some (.int (twos bs), rest) := by
  rw [List.cons_append, decode_step]
  generalize code.toNat = n at *
  ladder
  rw [take?_append _ bs rest h3, ← h3]
  rfl

theorem sdec_fixstr (c : Byte) (s : List Byte) (h1 : c.toNat = 0xa0 + s.length) (h2 : s.length < 32) :
    MSpec.decode (f+1) (c :: s ++ rest) = some (.str s, rest) := by
  rw [List.cons_append, decode_fixstr f c _ (by omega) (by omega), take?_append _ s rest (by omega)]
  rfl

theorem sdec_str (code : Byte) (j : Nat) (hb s : List Byte) (hj : j < 3) (hc : code.toNat = 0xd9 + j)
    (h1 : hb.length = 2^j) (h2 : beNat hb = s.length) :
    MSpec.decode (f+1) (code :: (hb ++ s) ++ rest) = some (.str s, rest) := by
  rw [List.cons_append, List.append_assoc, decode_step]
  generalize code.toNat = n at *
  have e1 : n - 0xd9 = j := by omega
  ladder
  rw [e1, take?_append _ hb _ h1]
  simp only [Option.bind_some, be_eq_beNat, h2]
  rw [take?_append _ s rest rfl]
  rfl

theorem sdec_bin (code : Byte) (j : Nat) (hb s : List Byte) (hj : j < 3) (hc : code.toNat = 0xc4 + j)
    (h1 : hb.length = 2^j) (h2 : beNat hb = s.length) :
    MSpec.decode (f+1) (code :: (hb ++ s) ++ rest) = some (.bin s, rest) := by
  rw [List.cons_append, List.append_assoc, decode_step]
  generalize code.toNat = n at *
  have e1 : n - 0xc4 = j := by omega
  ladder
  rw [e1, take?_append _ hb _ h1]
  simp only [Option.bind_some, be_eq_beNat, h2]
  rw [take?_append _ s rest rfl]
  rfl

theorem sdec_ext (code : Byte) (j : Nat) (hb : List Byte) (t : Byte) (s : List Byte) (hj : j < 3)
    (hc : code.toNat = 0xc7 + j) (h1 : hb.length = 2^j) (h2 : beNat hb = s.length) :
    MSpec.decode (f+1) (code :: (hb ++ t :: s) ++ rest) = some (.ext t.toNat s, rest) := by
  rw [List.cons_append, List.append_assoc, decode_step]
  generalize code.toNat = n at *
  have e1 : n - 0xc7 = j := by omega
  ladder
  rw [e1, take?_append _ hb _ h1]
  simp only [Option.bind_some, be_eq_beNat, h2, List.cons_append]
  rw [show t :: (s ++ rest) = [t] ++ (s ++ rest) from rfl, take?_append 1 [t] _ rfl]
  simp only [Option.bind_some]
  rw [take?_append _ s rest rfl]
  simp [beNat]

theorem sdec_fixext (code : Byte) (j : Nat) (t : Byte) (s : List Byte) (hj : j < 5)
    (hc : code.toNat = 0xd4 + j) (h1 : s.length = 2^j) :
    MSpec.decode (f+1) (code :: (t :: s) ++ rest) = some (.ext t.toNat s, rest) := by
  rw [List.cons_append, decode_step]
  generalize code.toNat = n at *
  have e1 : n - 0xd4 = j := by omega
  ladder
  rw [e1, List.cons_append, show t :: (s ++ rest) = [t] ++ (s ++ rest) from rfl, take?_append 1 [t] _ rfl]
  simp only [Option.bind_some]
  rw [take?_append _ s rest h1]
  simp [MSpec.be]

end leaves

theorem den_raw_of_decode {mv : MV} {r : List Byte} (hmv : (∃ s, mv = .bin s) ∨ ∃ t s, mv = .ext t s)
    (h : MSpec.decode 1 (r ++ []) = some (mv, [])) : Den mv (.raw r) := by
  rw [List.append_nil] at h
  rcases hmv with ⟨s, rfl⟩ | ⟨t, s, rfl⟩
  · simp only [Den]; exact ⟨r, rfl, h⟩
  · simp only [Den]; exact ⟨r, rfl, h⟩

/-- a leaf: the specification decoder reads it (one unit of fuel) as an object that the stored value denotes -/
theorem leaf_spec {env : Env} {e : List Byte} {v : Val} (h : LeafVal env e v) :
    ∃ mv, Den mv v ∧ ∀ f rest, MSpec.decode (f+1) (e ++ rest) = some (mv, rest) := by
  cases h with
  | posfix c hc =>
    refine ⟨.int c.toNat, ?_, fun f rest => decode_fixint f c rest hc⟩
    simp only [Den, true_or]
  | negfix c hc =>
    refine ⟨.int (Int.ofNat c.toNat - 256), ?_, fun f rest => decode_negfix f c rest hc⟩
    simp only [Den, Int.ofNat_eq_natCast, true_or]
  | nil => exact ⟨.nil, by simp only [Den], fun f rest => decode_c0 f rest⟩
  | bool b =>
    refine ⟨.bool b, by simp only [Den], fun f rest => ?_⟩
    cases b
    · exact decode_c2 f rest
    · exact decode_c3 f rest
  | uint code bs h1 h2 h3 =>
    refine ⟨.int (beNat bs : Nat), ?_, fun f rest => sdec_uint f rest code bs h1 h2 h3⟩
    simp only [Den]; exact Or.inr ⟨_, rfl, rfl⟩
  | sint code bs h1 h2 h3 =>
    refine ⟨.int (twos bs), ?_, fun f rest => sdec_sint f rest code bs h1 h2 h3⟩
    simp only [Den, true_or]
  | f32 bs h1 =>
    refine ⟨.f32 (beNat bs), by simp only [Den], fun f rest => ?_⟩
    rw [List.cons_append, decode_ca, take?_append _ bs rest h1]; rfl
  | f64 bs h1 =>
    refine ⟨.f64 (beNat bs), by simp only [Den], fun f rest => ?_⟩
    rw [List.cons_append, decode_cb, take?_append _ bs rest h1]; rfl
  | fixstr c s h1 h2 h3 => exact ⟨.str s, by simp only [Den], fun f rest => sdec_fixstr f rest c s h1 h2⟩
  | str8 hb s h1 h2 h3 =>
    exact ⟨.str s, by simp only [Den], fun f rest => sdec_str f rest 0xD9 0 hb s (by omega) rfl h1 h2⟩
  | str16 hb s h1 h2 h3 =>
    exact ⟨.str s, by simp only [Den], fun f rest => sdec_str f rest 0xDA 1 hb s (by omega) rfl h1 h2⟩
  | str32 hb s h1 h2 h3 =>
    exact ⟨.str s, by simp only [Den], fun f rest => sdec_str f rest 0xDB 2 hb s (by omega) rfl h1 h2⟩
  | bin code j hb s h1 h2 h3 h4 h5 =>
    have hd := fun f rest => sdec_bin f rest code j hb s h1 h2 h3 h4
    exact ⟨.bin s, den_raw_of_decode (Or.inl ⟨s, rfl⟩) (hd 0 []), hd⟩
  | ext code j hb pl h1 h2 h3 h4 h5 =>
    cases pl with
    | nil => simp at h4
    | cons t s =>
      have h4' : beNat hb = s.length := by simp only [List.length_cons] at h4; omega
      have hd := fun f rest => sdec_ext f rest code j hb t s h1 h2 h3 h4'
      exact ⟨.ext t.toNat s, den_raw_of_decode (Or.inr ⟨_, s, rfl⟩) (hd 0 []), hd⟩
  | fixext code j pl h1 h2 h3 h4 =>
    cases pl with
    | nil => simp at h3
    | cons t s =>
      have h3' : s.length = 2^j := by simp only [List.length_cons] at h3; omega
      have hd := fun f rest => sdec_fixext f rest code j t s h1 h2 h3'
      exact ⟨.ext t.toNat s, den_raw_of_decode (Or.inr ⟨_, s, rfl⟩) (hd 0 []), hd⟩

theorem key_spec {env : Env} {kb k : List Byte} (h : KeyVal env kb k) (f : Nat) (rest : List Byte) :
    MSpec.decode (f+1) (kb ++ rest) = some (.str k, rest) := by
  cases h with
  | fix c k h1 h2 h3 => exact sdec_fixstr f rest c k h1 h2
  | sized code j hb k h1 h2 h3 h4 h5 => exact sdec_str f rest code j hb k h1 h2 h3 h4

theorem arrHdr_spec {hdr : List Byte} {n : Nat} (h : ArrHdr hdr n) (f : Nat) (t : List Byte) :
    MSpec.decode (f+1) (hdr ++ t) = MSpec.decodeArr f n t [] := by
  cases h with
  | fix c n h1 h2 =>
    rw [List.cons_append, List.nil_append, decode_fixarr f c t (by omega) (by omega), show c.toNat - 0x90 = n by omega]
  | a16 hb n h1 h2 =>
    rw [List.cons_append, decode_dc, take?_append _ hb t h1]
    simp only [Option.bind_some, be_eq_beNat, h2]
  | a32 hb n h1 h2 =>
    rw [List.cons_append, decode_dd, take?_append _ hb t h1]
    simp only [Option.bind_some, be_eq_beNat, h2]

theorem mapHdr_spec {hdr : List Byte} {n : Nat} (h : MapHdr hdr n) (f : Nat) (t : List Byte) :
    MSpec.decode (f+1) (hdr ++ t) = MSpec.decodeMap f n t [] := by
  cases h with
  | fix c n h1 h2 =>
    rw [List.cons_append, List.nil_append, decode_fixmap f c t (by omega) (by omega), show c.toNat - 0x80 = n by omega]
  | m16 hb n h1 h2 =>
    rw [List.cons_append, decode_de, take?_append _ hb t h1]
    simp only [Option.bind_some, be_eq_beNat, h2]
  | m32 hb n h1 h2 =>
    rw [List.cons_append, decode_df, take?_append _ hb t h1]
    simp only [Option.bind_some, be_eq_beNat, h2]

/-! ## elements and members -/

theorem spec_elems : ∀ (evs : List (List Byte × Val)),
    (∀ ev ∈ evs, 1 ≤ ev.1.length ∧ ∃ mv, Den mv ev.2 ∧ Decodes ev.1 mv) →
    ∃ mvs, DenL mvs (evs.map (fun ev => ev.2)) ∧ ∀ (g : Nat) (rest : List Byte) (acc : List MV),
      2 * (evs.map (fun ev => ev.1)).flatten.length + 1 ≤ g →
      MSpec.decodeArr g evs.length ((evs.map (fun ev => ev.1)).flatten ++ rest) acc
        = some (.arr (acc.reverse ++ mvs), rest) := by
  intro evs
  induction evs with
  | nil =>
    intro _
    refine ⟨[], by simp only [List.map_nil, DenL], ?_⟩
    intro g rest acc hg
    obtain ⟨g', rfl⟩ : ∃ g', g = g' + 1 := ⟨g - 1, by omega⟩
    simp [MSpec.decodeArr]
  | cons ev r ih =>
    intro hes
    obtain ⟨e, v⟩ := ev
    obtain ⟨he1, mv, hden, hdec'⟩ := hes (e, v) (List.mem_cons_self ..)
    have hdec : Decodes e mv := hdec'
    obtain ⟨mvs, hdl, hrest⟩ := ih (fun e' he' => hes e' (List.mem_cons_of_mem _ he'))
    refine ⟨mv :: mvs, ?_, ?_⟩
    · simp only [List.map_cons, DenL]
      exact ⟨v, _, rfl, hden, hdl⟩
    · intro g rest acc hg
      simp only [List.map_cons, List.flatten_cons, List.length_append] at hg he1
      obtain ⟨g', rfl⟩ : ∃ g', g = g' + 1 := ⟨g - 1, by omega⟩
      rw [MSpec.decodeArr]
      simp only [List.length_cons, Nat.add_one_ne_zero, beq_iff_eq, if_false, List.map_cons, List.flatten_cons,
        List.append_assoc]
      rw [hdec g' _ (by omega)]
      simp only [Option.bind_some, Nat.add_sub_cancel]
      rw [hrest g' rest (mv :: acc) (by omega)]
      simp only [List.reverse_cons, List.append_assoc, List.singleton_append]

theorem spec_members {env : Env} : ∀ (ms : List (List Byte × List Byte × List Byte × Val)),
    (∀ m ∈ ms, KeyVal env m.1 m.2.1) →
    (∀ m ∈ ms, 1 ≤ m.2.2.1.length ∧ ∃ mv, Den mv m.2.2.2 ∧ Decodes m.2.2.1 mv) →
    ∃ kvs, DenM kvs (ms.map (fun m => (m.2.1, m.2.2.2))) ∧ ∀ (g : Nat) (rest : List Byte) (acc : List (MV × MV)),
      2 * (ms.map (fun m => m.1 ++ m.2.2.1)).flatten.length + 1 ≤ g →
      MSpec.decodeMap g ms.length ((ms.map (fun m => m.1 ++ m.2.2.1)).flatten ++ rest) acc
        = some (.map (acc.reverse ++ kvs), rest) := by
  intro ms
  induction ms with
  | nil =>
    intro _ _
    refine ⟨[], by simp only [List.map_nil, DenM], ?_⟩
    intro g rest acc hg
    obtain ⟨g', rfl⟩ : ∃ g', g = g' + 1 := ⟨g - 1, by omega⟩
    simp [MSpec.decodeMap]
  | cons m r ih =>
    intro hks hes
    obtain ⟨kb, k, vb, v⟩ := m
    have hk := hks (kb, k, vb, v) (List.mem_cons_self ..)
    obtain ⟨he1, mv, hden, hdec'⟩ := hes (kb, k, vb, v) (List.mem_cons_self ..)
    have hdec : Decodes vb mv := hdec'
    obtain ⟨kvs, hdl, hrest⟩ := ih (fun m' h' => hks m' (List.mem_cons_of_mem _ h'))
      (fun m' h' => hes m' (List.mem_cons_of_mem _ h'))
    have hk1 := keyEnc_nonempty hk.keyEnc
    refine ⟨(.str k, mv) :: kvs, ?_, ?_⟩
    · simp only [List.map_cons, DenM]
      exact ⟨k, v, _, rfl, rfl, hden, hdl⟩
    · intro g rest acc hg
      simp only [List.map_cons, List.flatten_cons, List.length_append] at hg he1 hk1 hk hdec
      obtain ⟨g', rfl⟩ : ∃ g', g = g' + 1 := ⟨g - 1, by omega⟩
      obtain ⟨g'', rfl⟩ : ∃ g'', g' = g'' + 1 := ⟨g' - 1, by omega⟩
      rw [MSpec.decodeMap]
      simp only [List.length_cons, Nat.add_one_ne_zero, beq_iff_eq, if_false, List.map_cons, List.flatten_cons,
        List.append_assoc]
      rw [key_spec hk g'']
      simp only [Option.bind_some]
      rw [hdec (g''+1) _ (by omega)]
      simp only [Option.bind_some, Nat.add_sub_cancel]
      rw [hrest (g''+1) rest ((.str k, mv) :: acc) (by omega)]
      simp only [List.reverse_cons, List.append_assoc, List.singleton_append]

/-- **agreement with the specification decoder**: every legal encoding (bin / ext / fixext included) is read by the
    independent decoder as exactly one object, and the value the library stores denotes that object -/
theorem enc_spec {env : Env} {d : Nat} {e : List Byte} {v : Val} (h : EncVal env d e v) :
    ∃ mv, Den mv v ∧ Decodes e mv := by
  induction h with
  | @leaf d e v hl =>
    obtain ⟨mv, hden, hdec⟩ := leaf_spec hl
    refine ⟨mv, hden, ?_⟩
    intro fuel rest hf
    have := leaf_nonempty hl.leafEnc
    obtain ⟨f', rfl⟩ : ∃ f', fuel = f' + 1 := ⟨fuel - 1, by omega⟩
    exact hdec f' rest
  | @arr d hdr evs hh hes ih =>
    obtain ⟨mvs, hdl, hdec⟩ := spec_elems evs (fun ev he => ⟨encVal_nonempty (hes ev he), ih ev he⟩)
    refine ⟨.arr mvs, ?_, ?_⟩
    · simp only [Den]; exact ⟨_, rfl, hdl⟩
    · intro fuel rest hf
      have h1 := arrHdr_nonempty hh
      simp only [List.length_append] at hf
      obtain ⟨f', rfl⟩ : ∃ f', fuel = f' + 1 := ⟨fuel - 1, by omega⟩
      rw [List.append_assoc, arrHdr_spec hh, hdec f' rest [] (by omega)]
      simp only [List.reverse_nil, List.nil_append]
  | @map d hdr ms hh hks hes ih =>
    obtain ⟨kvs, hdl, hdec⟩ := spec_members ms hks (fun m he => ⟨encVal_nonempty (hes m he), ih m he⟩)
    refine ⟨.map kvs, ?_, ?_⟩
    · simp only [Den]; exact ⟨_, rfl, hdl⟩
    · intro fuel rest hf
      have h1 := mapHdr_nonempty hh
      simp only [List.length_append] at hf
      obtain ⟨f', rfl⟩ : ∃ f', fuel = f' + 1 := ⟨fuel - 1, by omega⟩
      rw [List.append_assoc, mapHdr_spec hh, hdec f' rest [] (by omega)]
      simp only [List.reverse_nil, List.nil_append]

/-! ## the stored value as a function of the decoded object -/

/-- key of a map member (the reader accepts str keys only) -/
def keyOfMV : MV → List Byte
  | .str s => s
  | _ => []

mutual
/-- the document value of a decoded object, integers in canonical form (non-negative: unsigned), bin / ext as the raw
    node the library's own converters would write (`MD.binRaw`, `MD.extRaw`: smallest width) -/
def valOfMV : MV → Val
  | .nil => .null
  | .bool b => .bool b
  | .int k => .num (if 0 ≤ k then .uint k.toNat else .sint k)
  | .f32 b => .num (.f32 b)
  | .f64 b => .num (storeDouble b)
  | .str s => .str s
  | .bin s => .raw (binRaw s)
  | .ext t s => .raw (extRaw t s)
  | .arr xs => .arr (valOfMVs xs)
  | .map kvs => .obj (valOfMVm kvs)
def valOfMVs : List MV → List Val
  | [] => []
  | x :: r => valOfMV x :: valOfMVs r
def valOfMVm : List (MV × MV) → List (List Byte × Val)
  | [] => []
  | (k, x) :: r => (keyOfMV k, valOfMV x) :: valOfMVm r
end

/-- a document with every non-negative signed integer retagged unsigned (`CrossFormat.normIntNum`); nothing else changes -/
def canon (v : Val) : Val := mapNum normIntNum v

theorem normIntNum_storeDouble (b : Nat) : normIntNum (storeDouble b) = storeDouble b := by
  unfold storeDouble
  simp only []
  repeat' split
  all_goals rfl

mutual
theorem den_canon : ∀ (mv : MV) (v : Val), Den mv v → C09.RawFree v → mapNum normIntNum v = valOfMV mv
  | .nil, v, h, _ => by simp only [Den] at h; subst h; rfl
  | .bool b, v, h, _ => by simp only [Den] at h; subst h; rfl
  | .int k, v, h, _ => by
    simp only [Den] at h
    rcases h with rfl | ⟨n, rfl, rfl⟩
    · simp only [mapNum, normIntNum, valOfMV]
    · simp only [mapNum, normIntNum, valOfMV]
      rw [if_pos (by omega)]; simp
  | .f32 b, v, h, _ => by simp only [Den] at h; subst h; rfl
  | .f64 b, v, h, _ => by
    simp only [Den] at h; subst h
    simp only [mapNum, valOfMV, normIntNum_storeDouble]
  | .str s, v, h, _ => by simp only [Den] at h; subst h; rfl
  | .bin s, v, h, hr => by
    simp only [Den] at h
    obtain ⟨r, rfl, _⟩ := h
    simp only [C09.RawFree] at hr
  | .ext t s, v, h, hr => by
    simp only [Den] at h
    obtain ⟨r, rfl, _⟩ := h
    simp only [C09.RawFree] at hr
  | .arr xs, v, h, hr => by
    simp only [Den] at h
    obtain ⟨ys, rfl, hl⟩ := h
    simp only [C09.RawFree] at hr
    simp only [mapNum, valOfMV, denL_canon xs ys hl hr]
  | .map kvs, v, h, hr => by
    simp only [Den] at h
    obtain ⟨ms, rfl, hl⟩ := h
    simp only [C09.RawFree] at hr
    simp only [mapNum, valOfMV, denM_canon kvs ms hl hr]
theorem denL_canon : ∀ (xs : List MV) (ys : List Val), DenL xs ys → C09.RawFreeElems ys →
    mapNumL normIntNum ys = valOfMVs xs
  | [], ys, h, _ => by simp only [DenL] at h; subst h; rfl
  | x :: r, ys, h, hr => by
    simp only [DenL] at h
    obtain ⟨y, s, rfl, h1, h2⟩ := h
    simp only [C09.RawFreeElems] at hr
    simp only [mapNumL, valOfMVs, den_canon x y h1 hr.1, denL_canon r s h2 hr.2]
theorem denM_canon : ∀ (kvs : List (MV × MV)) (ms : List (List Byte × Val)), DenM kvs ms → C09.RawFreeMembers ms →
    mapNumM normIntNum ms = valOfMVm kvs
  | [], ms, h, _ => by simp only [DenM] at h; subst h; rfl
  | (k, x) :: r, ms, h, hr => by
    simp only [DenM] at h
    obtain ⟨k', y, s, rfl, rfl, h1, h2⟩ := h
    simp only [C09.RawFreeMembers] at hr
    simp only [mapNumM, valOfMVm, keyOfMV, den_canon x y h1 hr.1, denM_canon r s h2 hr.2]
end

mutual
/-- an object denoted by a raw-free value holds no bin / ext: every value denoting it is raw-free -/
theorem den_rawFree : ∀ (mv : MV) (a b : Val), Den mv a → Den mv b → C09.RawFree a → C09.RawFree b
  | .nil, a, b, _, h, _ => by simp only [Den] at h; subst h; simp only [C09.RawFree]
  | .bool _, a, b, _, h, _ => by simp only [Den] at h; subst h; simp only [C09.RawFree]
  | .int k, a, b, _, h, _ => by
    simp only [Den] at h
    rcases h with rfl | ⟨n, _, rfl⟩ <;> simp only [C09.RawFree]
  | .f32 _, a, b, _, h, _ => by simp only [Den] at h; subst h; simp only [C09.RawFree]
  | .f64 _, a, b, _, h, _ => by simp only [Den] at h; subst h; simp only [C09.RawFree]
  | .str _, a, b, _, h, _ => by simp only [Den] at h; subst h; simp only [C09.RawFree]
  | .bin s, a, b, h, _, hr => by
    simp only [Den] at h
    obtain ⟨r, rfl, _⟩ := h
    simp only [C09.RawFree] at hr
  | .ext t s, a, b, h, _, hr => by
    simp only [Den] at h
    obtain ⟨r, rfl, _⟩ := h
    simp only [C09.RawFree] at hr
  | .arr xs, a, b, ha, hb, hr => by
    simp only [Den] at ha hb
    obtain ⟨ys, rfl, hl⟩ := ha
    obtain ⟨zs, rfl, hl'⟩ := hb
    simp only [C09.RawFree] at hr ⊢
    exact denL_rawFree xs ys zs hl hl' hr
  | .map kvs, a, b, ha, hb, hr => by
    simp only [Den] at ha hb
    obtain ⟨ms, rfl, hl⟩ := ha
    obtain ⟨ns, rfl, hl'⟩ := hb
    simp only [C09.RawFree] at hr ⊢
    exact denM_rawFree kvs ms ns hl hl' hr
theorem denL_rawFree : ∀ (xs : List MV) (ys zs : List Val), DenL xs ys → DenL xs zs → C09.RawFreeElems ys →
    C09.RawFreeElems zs
  | [], ys, zs, _, h, _ => by simp only [DenL] at h; subst h; simp only [C09.RawFreeElems]
  | x :: r, ys, zs, ha, hb, hr => by
    simp only [DenL] at ha hb
    obtain ⟨y, s, rfl, h1, h2⟩ := ha
    obtain ⟨z, t, rfl, h1', h2'⟩ := hb
    simp only [C09.RawFreeElems] at hr ⊢
    exact ⟨den_rawFree x y z h1 h1' hr.1, denL_rawFree r s t h2 h2' hr.2⟩
theorem denM_rawFree : ∀ (kvs : List (MV × MV)) (ms ns : List (List Byte × Val)), DenM kvs ms → DenM kvs ns →
    C09.RawFreeMembers ms → C09.RawFreeMembers ns
  | [], ms, ns, _, h, _ => by simp only [DenM] at h; subst h; simp only [C09.RawFreeMembers]
  | (k, x) :: r, ms, ns, ha, hb, hr => by
    simp only [DenM] at ha hb
    obtain ⟨k1, y, s, rfl, _, h1, h2⟩ := ha
    obtain ⟨k2, z, t, rfl, _, h1', h2'⟩ := hb
    simp only [C09.RawFreeMembers] at hr ⊢
    exact ⟨den_rawFree x y z h1 h1' hr.1, denM_rawFree r s t h2 h2' hr.2⟩
end

/-! ## documents with the same canonical form compare equal -/

/-- two numbers with the same canonical form have the same value -/
theorem normIntNum_eq_cmp (n m : Num) (h : normIntNum n = normIntNum m) (hn : NoNaNNum n) :
    Cmp.arith (nv n) (nv m) = .equal := by
  cases n with
  | uint a =>
    cases m with
    | uint b =>
      simp only [normIntNum, Num.uint.injEq] at h; subst h; exact arith_self _ hn
    | sint w =>
      simp only [normIntNum] at h
      split at h
      · simp only [Num.uint.injEq] at h; subst h
        simp only [nv]; rw [Cmp.arith_ui]
        have : ((w.toNat : Nat) : Int) = w := by omega
        rw [this]; simp [Cmp.ordCR]
      · cases h
    | f32 b => simp only [normIntNum, reduceCtorEq] at h
    | f64 b => simp only [normIntNum, reduceCtorEq] at h
  | sint v =>
    cases m with
    | uint b =>
      simp only [normIntNum] at h
      split at h
      · simp only [Num.uint.injEq] at h; subst h
        simp only [nv]; rw [Cmp.arith_iu]
        have : ((v.toNat : Nat) : Int) = v := by omega
        rw [this]; simp [Cmp.ordCR]
      · cases h
    | sint w =>
      simp only [normIntNum] at h
      have : v = w := by
        split at h <;> split at h
        · simp only [Num.uint.injEq] at h; omega
        · cases h
        · cases h
        · simp only [Num.sint.injEq] at h; exact h
      subst this; exact arith_self _ hn
    | f32 b => simp only [normIntNum] at h; split at h <;> cases h
    | f64 b => simp only [normIntNum] at h; split at h <;> cases h
  | f32 a =>
    cases m with
    | uint b => simp only [normIntNum, reduceCtorEq] at h
    | sint w => simp only [normIntNum] at h; split at h <;> cases h
    | f32 b => simp only [normIntNum, Num.f32.injEq] at h; subst h; exact arith_self _ hn
    | f64 b => simp only [normIntNum, reduceCtorEq] at h
  | f64 a =>
    cases m with
    | uint b => simp only [normIntNum, reduceCtorEq] at h
    | sint w => simp only [normIntNum] at h; split at h <;> cases h
    | f32 b => simp only [normIntNum, reduceCtorEq] at h
    | f64 b => simp only [normIntNum, Num.f64.injEq] at h; subst h; exact arith_self _ hn

theorem getElem_of_map_eq {α β : Type} (f : α → β) {xs ys : List α} (h : xs.map f = ys.map f) (i : Nat)
    (h1 : i < xs.length) (h2 : i < ys.length) : f xs[i] = f ys[i] := by
  have e : (xs.map f)[i]? = (ys.map f)[i]? := by rw [h]
  simpa [List.getElem?_map, List.getElem?_eq_getElem h1, List.getElem?_eq_getElem h2] using e

/-- rewriting the number nodes of TWO documents by a map `fn` gives the same document, and `fn` identifies only numbers of
    equal value: the two documents compare equal, both ways (no NaN and no repeated key in the first one) -/
theorem mapNum_eq_eqBoth (fn : Num → Num)
    (hfn : ∀ n m, fn n = fn m → NoNaNNum n → Cmp.arith (nv n) (nv m) = .equal) :
    ∀ a b, mapNum fn a = mapNum fn b → NoNaN a → Cmp.NoDupKeys a → EqBoth a b := by
  intro a
  suffices H : ∀ n, ∀ a, sizeOf a ≤ n → ∀ b, mapNum fn a = mapNum fn b → NoNaN a → Cmp.NoDupKeys a → EqBoth a b from
    H _ a (Nat.le_refl _)
  intro n
  induction n with
  | zero => intro a ha; cases a <;> simp at ha
  | succ n ih =>
    intro a ha b h hn hd
    cases a with
    | null =>
      cases b <;> simp only [mapNum, reduceCtorEq] at h
      exact ⟨(Cmp.compare_null _).mpr rfl, (Cmp.compare_null _).mpr rfl⟩
    | bool x =>
      cases b <;> simp only [mapNum, reduceCtorEq, Val.bool.injEq] at h
      subst h
      have : Cmp.compare (.bool x) (.bool x) = .equal := by
        rw [Cmp.compare_num _ _ (.b x) (.b x) rfl rfl]; cases x <;> rfl
      exact ⟨this, this⟩
    | num k =>
      cases b <;> simp only [mapNum, reduceCtorEq, Val.num.injEq] at h
      rename_i k'
      simp only [NoNaN] at hn
      have e := hfn k k' h hn
      exact ⟨by rw [compare_num_num]; exact e, by rw [compare_num_num, Cmp.arith_reverse, e]; rfl⟩
    | str s =>
      cases b <;> simp only [mapNum, reduceCtorEq, Val.str.injEq] at h
      subst h
      have : Cmp.compare (.str s) (.str s) = .equal := by
        rw [Cmp.compare_str, (Cmp.stringCompare_eq_zero s s).mpr rfl]; rfl
      exact ⟨this, this⟩
    | raw s =>
      cases b <;> simp only [mapNum, reduceCtorEq, Val.raw.injEq] at h
      subst h
      have : Cmp.compare (.raw s) (.raw s) = .equal := by
        rw [Cmp.compare_raw, (Cmp.rawCompare_eq_zero s s).mpr rfl]; rfl
      exact ⟨this, this⟩
    | arr xs =>
      cases b <;> simp only [mapNum, reduceCtorEq, Val.arr.injEq] at h
      rename_i ys
      rw [mapNumL_eq_map, mapNumL_eq_map] at h
      simp only [NoNaN] at hn
      simp only [Cmp.NoDupKeys] at hd
      have hlen : xs.length = ys.length := by simpa using congrArg List.length h
      have hel : ∀ i (h1 : i < xs.length) (h2 : i < ys.length), EqBoth xs[i] ys[i] := by
        intro i h1 h2
        have hx : xs[i] ∈ xs := List.getElem_mem h1
        have hs : sizeOf xs[i] < sizeOf (Val.arr xs) := by
          have := List.sizeOf_lt_of_mem hx
          simp only [Val.arr.sizeOf_spec]; omega
        exact ih xs[i] (by omega) ys[i] (getElem_of_map_eq _ h i h1 h2) ((noNaNL_iff xs).mp hn _ hx)
          (Cmp.ndL_mem xs hd _ hx)
      constructor
      · rw [Cmp.compare_arr]; exact ⟨hlen, fun i h1 h2 => (hel i h1 h2).1⟩
      · rw [Cmp.compare_arr]; exact ⟨hlen.symm, fun i h1 h2 => (hel i h2 h1).2⟩
    | obj ms =>
      cases b <;> simp only [mapNum, reduceCtorEq, Val.obj.injEq] at h
      rename_i ns
      simp only [NoNaN] at hn
      simp only [Cmp.NoDupKeys] at hd
      have hkeys : Cmp.keys ns = Cmp.keys ms := by
        rw [← keys_mapNumM fn ns, ← h, keys_mapNumM]
      have hdn : (Cmp.keys ns).Nodup := by rw [hkeys]; exact hd.1
      rw [mapNumM_eq_map, mapNumM_eq_map] at h
      have hlen : ms.length = ns.length := by simpa using congrArg List.length h
      have hsz : ∀ p ∈ ms, sizeOf p.2 < sizeOf (Val.obj ms) := by
        intro p hp
        have := List.sizeOf_lt_of_mem hp
        have h2 : sizeOf p.2 < sizeOf p := by
          obtain ⟨k, w⟩ := p; simp only [Prod.mk.sizeOf_spec]; omega
        simp only [Val.obj.sizeOf_spec]; omega
      -- matching members
      have hfwd : ∀ p ∈ ms, ∃ q ∈ ns, q.1 = p.1 ∧ EqBoth p.2 q.2 := by
        intro p hp
        have hm : (p.1, mapNum fn p.2) ∈ ns.map (fun p => (p.1, mapNum fn p.2)) := by
          rw [← h]; exact List.mem_map.mpr ⟨p, hp, rfl⟩
        obtain ⟨q, hq, hqe⟩ := List.mem_map.mp hm
        simp only [Prod.mk.injEq] at hqe
        have := hsz p hp
        exact ⟨q, hq, hqe.1, ih p.2 (by omega) q.2 hqe.2.symm ((noNaNM_iff ms).mp hn p hp) (Cmp.ndM_mem ms hd.2 p hp)⟩
      have hbwd : ∀ q ∈ ns, ∃ p ∈ ms, p.1 = q.1 ∧ EqBoth p.2 q.2 := by
        intro q hq
        have hm : (q.1, mapNum fn q.2) ∈ ms.map (fun p => (p.1, mapNum fn p.2)) := by
          rw [h]; exact List.mem_map.mpr ⟨q, hq, rfl⟩
        obtain ⟨p, hp, hpe⟩ := List.mem_map.mp hm
        simp only [Prod.mk.injEq] at hpe
        have := hsz p hp
        exact ⟨p, hp, hpe.1, ih p.2 (by omega) q.2 hpe.2 ((noNaNM_iff ms).mp hn p hp) (Cmp.ndM_mem ms hd.2 p hp)⟩
      constructor
      · rw [Cmp.compare_obj]
        refine ⟨hlen.symm, fun q hq => ?_⟩
        obtain ⟨p, hp, hk, he⟩ := hbwd q hq
        refine ⟨p.2, ?_, he.2⟩
        rw [← hk]; exact Cmp.lookup_of_mem_nodup ms p.1 p.2 hd.1 hp
      · rw [Cmp.compare_obj]
        refine ⟨hlen, fun p hp => ?_⟩
        obtain ⟨q, hq, hk, he⟩ := hfwd p hp
        refine ⟨q.2, ?_, he.1⟩
        rw [← hk]; exact Cmp.lookup_of_mem_nodup ns q.1 q.2 hdn hq

/-- two documents with the same canonical form (same structure, strings, keys, floats; integers of the same value whatever
    their signedness tag) compare equal, both ways -/
theorem canon_eq_eqBoth (a b : Val) (h : canon a = canon b) (hn : NoNaN a) (hd : Cmp.NoDupKeys a) : EqBoth a b :=
  mapNum_eq_eqBoth normIntNum normIntNum_eq_cmp a b h hn hd

end MD
