/- The VALUE of every legal MessagePack encoding (C09).
   `MD.Enc env d e` (AJ/Lemmas/MpPrefix.lean) says that `e` is one object in any legal width at every place; `MD.enc_accept`
   proves acceptance with the value hidden behind an existential. Here the value is made explicit:
   * `LeafVal`, `KeyVal`, `EncVal env d e v` mirror `LeafEnc`, `KeyEnc`, `Enc` constructor by constructor and carry the value;
   * `enc_val` : `EncVal env d e v → Valued env d e v` (the reader model computes exactly `v`, consuming exactly `e`);
   * `EncVal.enc`, `Enc.hasVal`, `encVal_unique` : `Enc env d e ↔ ∃ v, EncVal env d e v`, and the value is unique. -/
import AJ.Lemmas.MpPrefix
namespace MD
open JD SF

/-! ## integers: two's complement of a big-endian payload -/

/-- the signed reading of a big-endian payload of `bs.length` bytes -/
def twos (bs : List Byte) : Int :=
  if beNat bs ≥ 2^(8*bs.length-1) then Int.ofNat (beNat bs) - Int.ofNat (2^(8*bs.length)) else Int.ofNat (beNat bs)

theorem readInteger_unsigned (bs : List Byte) : readInteger bs false = .num (.uint (beNat bs)) := rfl
theorem readInteger_signed (bs : List Byte) : readInteger bs true = .num (.sint (twos bs)) := rfl

/-! ## the value of one encoding -/

/-- a value without children, with the value the library stores for it. Integers are stored by value: unsigned kinds
    (`cc..cf`) as `.uint`, signed kinds (`d0..d3`) and BOTH fixint families as `.sint`; float32 by its bits, float64 through
    `storeDouble`; bin / ext / fixext as a raw node holding the encoding itself (header and payload verbatim). -/
inductive LeafVal (env : Env) : List Byte → Val → Prop
  | posfix (c : Byte) : c.toNat ≤ 0x7f → LeafVal env [c] (.num (.sint c.toNat))
  | negfix (c : Byte) : 0xe0 ≤ c.toNat → LeafVal env [c] (.num (.sint ((c.toNat : Int) - 256)))
  | nil : LeafVal env [0xC0] .null
  | bool (b : Bool) : LeafVal env [if b then 0xC3 else 0xC2] (.bool b)
  | uint (code : Byte) (bs : List Byte) : 0xcc ≤ code.toNat → code.toNat ≤ 0xcf →
      bs.length = 2^(code.toNat - 0xcc) → LeafVal env (code :: bs) (.num (.uint (beNat bs)))
  | sint (code : Byte) (bs : List Byte) : 0xd0 ≤ code.toNat → code.toNat ≤ 0xd3 →
      bs.length = 2^(code.toNat - 0xd0) → LeafVal env (code :: bs) (.num (.sint (twos bs)))
  | f32 (bs : List Byte) : bs.length = 4 → LeafVal env (0xCA :: bs) (.num (.f32 (beNat bs)))
  | f64 (bs : List Byte) : bs.length = 8 → LeafVal env (0xCB :: bs) (.num (storeDouble (beNat bs)))
  | fixstr (c : Byte) (s : List Byte) : c.toNat = 0xa0 + s.length → s.length < 32 → s.length ≤ env.maxStrLen →
      LeafVal env (c :: s) (.str s)
  | str8 (hb s : List Byte) : hb.length = 1 → beNat hb = s.length → s.length ≤ env.maxStrLen →
      LeafVal env (0xD9 :: (hb ++ s)) (.str s)
  | str16 (hb s : List Byte) : hb.length = 2 → beNat hb = s.length → s.length ≤ env.maxStrLen →
      LeafVal env (0xDA :: (hb ++ s)) (.str s)
  | str32 (hb s : List Byte) : hb.length = 4 → beNat hb = s.length → s.length ≤ env.maxStrLen →
      LeafVal env (0xDB :: (hb ++ s)) (.str s)
  | bin (code : Byte) (j : Nat) (hb s : List Byte) : j < 3 → code.toNat = 0xc4 + j → hb.length = 2^j →
      beNat hb = s.length → 1 + 2^j + s.length ≤ env.maxStrLen →
      LeafVal env (code :: (hb ++ s)) (.raw (code :: (hb ++ s)))
  | ext (code : Byte) (j : Nat) (hb pl : List Byte) : j < 3 → code.toNat = 0xc7 + j → hb.length = 2^j →
      pl.length = beNat hb + 1 → 1 + 2^j + pl.length ≤ env.maxStrLen →
      LeafVal env (code :: (hb ++ pl)) (.raw (code :: (hb ++ pl)))
  | fixext (code : Byte) (j : Nat) (pl : List Byte) : j < 5 → code.toNat = 0xd4 + j →
      pl.length = 2^j + 1 → 1 + pl.length ≤ env.maxStrLen → LeafVal env (code :: pl) (.raw (code :: pl))

/-- a map key (fixstr or str 8 / 16 / 32) with the key string -/
inductive KeyVal (env : Env) : List Byte → List Byte → Prop
  | fix (c : Byte) (k : List Byte) : c.toNat = 0xa0 + k.length → k.length < 32 → k.length ≤ env.maxStrLen →
      KeyVal env (c :: k) k
  | sized (code : Byte) (j : Nat) (hb k : List Byte) : j < 3 → code.toNat = 0xd9 + j → hb.length = 2^j →
      beNat hb = k.length → k.length ≤ env.maxStrLen → KeyVal env (code :: (hb ++ k)) k

/-- `EncVal env d e v`: `e` is the MessagePack encoding of one object (any legal width at every place, at most `d`
    containers deep, strings / binaries / keys within `env.maxStrLen`) and `v` is the value it stands for in a document:
    arrays element by element, maps member by member in the order of the encoding (repeated keys kept). -/
inductive EncVal (env : Env) : Nat → List Byte → Val → Prop
  | leaf {d : Nat} {e : List Byte} {v : Val} : LeafVal env e v → EncVal env d e v
  | arr {d : Nat} (hdr : List Byte) (evs : List (List Byte × Val)) : ArrHdr hdr evs.length →
      (∀ ev ∈ evs, EncVal env d ev.1 ev.2) →
      EncVal env (d + 1) (hdr ++ (evs.map (fun ev => ev.1)).flatten) (.arr (evs.map (fun ev => ev.2)))
  | map {d : Nat} (hdr : List Byte) (ms : List (List Byte × List Byte × List Byte × Val)) : MapHdr hdr ms.length →
      (∀ m ∈ ms, KeyVal env m.1 m.2.1) → (∀ m ∈ ms, EncVal env d m.2.2.1 m.2.2.2) →
      EncVal env (d + 1) (hdr ++ (ms.map (fun m => m.1 ++ m.2.2.1)).flatten)
        (.obj (ms.map (fun m => (m.2.1, m.2.2.2))))

/-! ## back to the syntactic predicates -/

theorem LeafVal.leafEnc {env : Env} {e : List Byte} {v : Val} (h : LeafVal env e v) : LeafEnc env e := by
  cases h with
  | posfix c hc => exact .posfix c hc
  | negfix c hc => exact .negfix c hc
  | nil => exact .nil
  | bool b => exact .bool b
  | uint code bs h1 h2 h3 =>
    refine .int code bs h1 (by omega) ?_
    rw [show (code.toNat - 0xcc) % 4 = code.toNat - 0xcc by omega]; exact h3
  | sint code bs h1 h2 h3 =>
    refine .int code bs (by omega) h2 ?_
    rw [show (code.toNat - 0xcc) % 4 = code.toNat - 0xd0 by omega]; exact h3
  | f32 bs h1 => exact .f32 bs h1
  | f64 bs h1 => exact .f64 bs h1
  | fixstr c s h1 h2 h3 => exact .fixstr c s h1 h2 h3
  | str8 hb s h1 h2 h3 => exact .str8 hb s h1 h2 h3
  | str16 hb s h1 h2 h3 => exact .str16 hb s h1 h2 h3
  | str32 hb s h1 h2 h3 => exact .str32 hb s h1 h2 h3
  | bin code j hb s h1 h2 h3 h4 h5 => exact .bin code j hb s h1 h2 h3 h4 h5
  | ext code j hb pl h1 h2 h3 h4 h5 => exact .ext code j hb pl h1 h2 h3 h4 h5
  | fixext code j pl h1 h2 h3 h4 => exact .fixext code j pl h1 h2 h3 h4

theorem LeafEnc.hasVal {env : Env} {e : List Byte} (h : LeafEnc env e) : ∃ v, LeafVal env e v := by
  cases h with
  | posfix c hc => exact ⟨_, .posfix c hc⟩
  | negfix c hc => exact ⟨_, .negfix c hc⟩
  | nil => exact ⟨_, .nil⟩
  | bool b => exact ⟨_, .bool b⟩
  | int code bs h1 h2 h3 =>
    by_cases hs : code.toNat ≤ 0xcf
    · refine ⟨_, .uint code bs h1 hs ?_⟩
      rw [show (code.toNat - 0xcc) % 4 = code.toNat - 0xcc by omega] at h3; exact h3
    · refine ⟨_, .sint code bs (by omega) h2 ?_⟩
      rw [show (code.toNat - 0xcc) % 4 = code.toNat - 0xd0 by omega] at h3; exact h3
  | f32 bs h1 => exact ⟨_, .f32 bs h1⟩
  | f64 bs h1 => exact ⟨_, .f64 bs h1⟩
  | fixstr c s h1 h2 h3 => exact ⟨_, .fixstr c s h1 h2 h3⟩
  | str8 hb s h1 h2 h3 => exact ⟨_, .str8 hb s h1 h2 h3⟩
  | str16 hb s h1 h2 h3 => exact ⟨_, .str16 hb s h1 h2 h3⟩
  | str32 hb s h1 h2 h3 => exact ⟨_, .str32 hb s h1 h2 h3⟩
  | bin code j hb s h1 h2 h3 h4 h5 => exact ⟨_, .bin code j hb s h1 h2 h3 h4 h5⟩
  | ext code j hb pl h1 h2 h3 h4 h5 => exact ⟨_, .ext code j hb pl h1 h2 h3 h4 h5⟩
  | fixext code j pl h1 h2 h3 h4 => exact ⟨_, .fixext code j pl h1 h2 h3 h4⟩

theorem KeyVal.keyEnc {env : Env} {kb k : List Byte} (h : KeyVal env kb k) : KeyEnc env kb := by
  cases h with
  | fix c k h1 h2 h3 => exact .fix c k h1 h2 h3
  | sized code j hb k h1 h2 h3 h4 h5 => exact .sized code j hb k h1 h2 h3 h4 h5

theorem KeyEnc.hasVal {env : Env} {kb : List Byte} (h : KeyEnc env kb) : ∃ k, KeyVal env kb k := by
  cases h with
  | fix c k h1 h2 h3 => exact ⟨k, .fix c k h1 h2 h3⟩
  | sized code j hb k h1 h2 h3 h4 h5 => exact ⟨k, .sized code j hb k h1 h2 h3 h4 h5⟩

theorem EncVal.enc {env : Env} {d : Nat} {e : List Byte} {v : Val} (h : EncVal env d e v) : Enc env d e := by
  induction h with
  | leaf hl => exact .leaf hl.leafEnc
  | @arr d hdr evs hh _ ih =>
    refine Enc.arr hdr (evs.map (fun ev => ev.1)) (by rw [List.length_map]; exact hh) ?_
    intro e he
    obtain ⟨ev, hev, rfl⟩ := List.mem_map.mp he
    exact ih ev hev
  | @map d hdr ms hh hks _ ih =>
    have := Enc.map (env := env) (d := d) hdr (ms.map (fun m => (m.1, m.2.2.1))) (by rw [List.length_map]; exact hh)
      (by
        intro kv hkv
        obtain ⟨m, hm, rfl⟩ := List.mem_map.mp hkv
        exact (hks m hm).keyEnc)
      (by
        intro kv hkv
        obtain ⟨m, hm, rfl⟩ := List.mem_map.mp hkv
        exact ih m hm)
    rw [List.map_map] at this
    exact this

/-- choice along a list -/
theorem exists_list_of_forall {α β : Type} {P : α → β → Prop} : ∀ (l : List α), (∀ a ∈ l, ∃ b, P a b) →
    ∃ ps : List (α × β), ps.map (fun p => p.1) = l ∧ ∀ p ∈ ps, P p.1 p.2
  | [], _ => ⟨[], rfl, fun _ h => nomatch h⟩
  | a :: r, h => by
    obtain ⟨b, hb⟩ := h a (List.mem_cons_self ..)
    obtain ⟨ps, h1, h2⟩ := exists_list_of_forall r (fun a' h' => h a' (List.mem_cons_of_mem _ h'))
    refine ⟨(a, b) :: ps, by simp only [List.map_cons, h1], ?_⟩
    intro p hp
    rcases List.mem_cons.mp hp with rfl | hp
    · exact hb
    · exact h2 p hp

theorem Enc.hasVal {env : Env} {d : Nat} {e : List Byte} (h : Enc env d e) : ∃ v, EncVal env d e v := by
  induction h with
  | leaf hl => obtain ⟨v, hv⟩ := hl.hasVal; exact ⟨v, .leaf hv⟩
  | @arr d hdr es hh _ ih =>
    obtain ⟨evs, h1, h2⟩ := exists_list_of_forall (P := fun e v => EncVal env d e v) es ih
    subst h1
    rw [List.length_map] at hh
    exact ⟨_, .arr hdr evs hh h2⟩
  | @map d hdr kvs hh hks _ ih =>
    obtain ⟨ms, h1, h2⟩ := exists_list_of_forall
      (P := fun (kv : List Byte × List Byte) (kv' : List Byte × Val) => KeyVal env kv.1 kv'.1 ∧ EncVal env d kv.2 kv'.2) kvs
      (by
        intro kv hkv
        obtain ⟨k, hk⟩ := (hks kv hkv).hasVal
        obtain ⟨v, hv⟩ := ih kv hkv
        exact ⟨(k, v), hk, hv⟩)
    subst h1
    rw [List.length_map] at hh
    have := EncVal.map (env := env) (d := d) hdr (ms.map (fun p => (p.1.1, p.2.1, p.1.2, p.2.2)))
      (by rw [List.length_map]; exact hh)
      (by
        intro m hm
        obtain ⟨p, hp, rfl⟩ := List.mem_map.mp hm
        exact (h2 p hp).1)
      (by
        intro m hm
        obtain ⟨p, hp, rfl⟩ := List.mem_map.mp hm
        exact (h2 p hp).2)
    rw [List.map_map, List.map_map] at this
    exact ⟨_, by rw [List.map_map]; exact this⟩

/-! ## the reader computes the value -/

theorem leaf_value {env : Env} {e : List Byte} {v : Val} (h : LeafVal env e v) (fuel limit : Nat) (rest : List Byte)
    (p : Nat) :
    parseVariant env (fuel+1) limit .all true ⟨e ++ rest, p⟩ = (.ok, v, ⟨rest, p + e.length⟩, true) := by
  cases h with
  | posfix c hc => exact pv_posfix env fuel limit rest p c hc
  | negfix c hc => exact pv_negfix env fuel limit rest p c hc
  | nil => exact pv_null env fuel limit rest p
  | bool b => exact pv_bool env fuel limit rest p b
  | uint code bs h1 h2 h3 =>
    have hp : p + (code :: bs).length = p + 1 + bs.length := by simp only [List.length_cons]; omega
    rw [hp, List.cons_append, ← readInteger_unsigned]
    refine pv_int env fuel limit rest p code _ rfl false bs h1 (by omega) (dF (by omega)).symm ?_
    rw [show (code.toNat - 0xcc) % 4 = code.toNat - 0xcc by omega]; exact h3
  | sint code bs h1 h2 h3 =>
    have hp : p + (code :: bs).length = p + 1 + bs.length := by simp only [List.length_cons]; omega
    rw [hp, List.cons_append, ← readInteger_signed]
    refine pv_int env fuel limit rest p code _ rfl true bs (by omega) h2 (dT (by omega)).symm ?_
    rw [show (code.toNat - 0xcc) % 4 = code.toNat - 0xd0 by omega]; exact h3
  | f32 bs h1 =>
    have hp : p + (0xCA :: bs).length = p + 5 := by simp only [List.length_cons, h1]
    rw [hp, List.cons_append]
    exact pv_f32 env fuel limit rest p bs h1
  | f64 bs h1 =>
    have hp : p + (0xCB :: bs).length = p + 9 := by simp only [List.length_cons, h1]
    rw [hp, List.cons_append]
    exact pv_f64 env fuel limit rest p bs h1
  | fixstr c s h1 h2 h3 =>
    have hp : p + (c :: s).length = p + 1 + s.length := by simp only [List.length_cons]; omega
    rw [hp, List.cons_append]
    exact pv_fixstr env fuel limit rest p c s h1 h2 h3
  | str8 hb s h1 h2 h3 =>
    have hp : p + (0xD9 :: (hb ++ s)).length = p + 2 + s.length := by
      simp only [List.length_cons, List.length_append, h1]; omega
    rw [hp, List.cons_append, List.append_assoc]
    exact pv_str8 env fuel limit rest p hb s h1 h2 h3
  | str16 hb s h1 h2 h3 =>
    have hp : p + (0xDA :: (hb ++ s)).length = p + 3 + s.length := by
      simp only [List.length_cons, List.length_append, h1]; omega
    rw [hp, List.cons_append, List.append_assoc]
    exact pv_str16 env fuel limit rest p hb s h1 h2 h3
  | str32 hb s h1 h2 h3 =>
    have hp : p + (0xDB :: (hb ++ s)).length = p + 5 + s.length := by
      simp only [List.length_cons, List.length_append, h1]; omega
    rw [hp, List.cons_append, List.append_assoc]
    exact pv_str32 env fuel limit rest p hb s h1 h2 h3
  | bin code j hb s h1 h2 h3 h4 h5 =>
    have hp : p + (code :: (hb ++ s)).length = p + 1 + 2^j + s.length := by
      simp only [List.length_cons, List.length_append, h3]; omega
    rw [hp, List.cons_append, List.append_assoc]
    exact pv_bin env fuel limit rest p code j h1 h2 hb s h3 h4 h5
  | ext code j hb pl h1 h2 h3 h4 h5 =>
    have hp : p + (code :: (hb ++ pl)).length = p + 1 + 2^j + pl.length := by
      simp only [List.length_cons, List.length_append, h3]; omega
    rw [hp, List.cons_append, List.append_assoc]
    exact pv_ext env fuel limit rest p code j h1 h2 hb pl h3 h4 h5
  | fixext code j pl h1 h2 h3 h4 =>
    have hp : p + (code :: pl).length = p + 1 + pl.length := by simp only [List.length_cons]; omega
    rw [hp, List.cons_append]
    exact pv_fixext env fuel limit rest p code j h1 h2 pl h3 h4

/-- reading a key in any legal width: the key string is the one of `KeyVal` -/
theorem ro_key_val {env : Env} {kb k : List Byte} (hk : KeyVal env kb k) (fuel limit p n : Nat) (t : List Byte)
    (ms : List (List Byte × Val)) (v : Val) (r' : R) (b : Bool)
    (h : parseVariant env fuel limit .all true ⟨t, p + kb.length⟩ = (.ok, v, r', b)) :
    readObject env (fuel+1) limit .all true (n+1) ⟨kb ++ t, p⟩ ms
      = readObject env fuel limit .all true n r' (ms ++ [(k, v)]) := by
  cases hk with
  | fix c k h1 h2 h3 =>
    rw [List.cons_append]
    refine ro_key_fix env fuel limit p n c k t ms v r' b h1 h2 h3 ?_
    rw [← h]; simp only [List.length_cons, Nat.add_assoc, Nat.add_comm 1]
  | sized code j hb k h1 h2 h3 h4 h5 =>
    rw [List.cons_append, List.append_assoc]
    refine ro_key_sized env fuel limit p n code _ j rfl h2 h1 hb k t ms v r' b h3 h4 h5 ?_
    rw [← h]; simp only [List.length_cons, List.length_append, h3]
    congr 2; omega

theorem encVal_nonempty {env : Env} {d : Nat} {e : List Byte} {v : Val} (h : EncVal env d e v) : 1 ≤ e.length :=
  enc_nonempty h.enc

/-- the statement about one encoding: the reader answers Ok with exactly this value, exactly `e` consumed -/
def Valued (env : Env) (d : Nat) (e : List Byte) (v : Val) : Prop :=
  ∀ fuel limit rest p, d ≤ limit → 2 * e.length ≤ fuel →
    parseVariant env fuel limit .all true ⟨e ++ rest, p⟩ = (.ok, v, ⟨rest, p + e.length⟩, true)

theorem ra_all_val (env : Env) (d l : Nat) (hdl : d ≤ l) (rest : List Byte) : ∀ (evs : List (List Byte × Val)),
    (∀ ev ∈ evs, 1 ≤ ev.1.length ∧ Valued env d ev.1 ev.2) → ∀ (g q : Nat) (acc : List Val),
    2 * (evs.map (fun ev => ev.1)).flatten.length + 1 ≤ g →
    readArray env g l .all true evs.length ⟨(evs.map (fun ev => ev.1)).flatten ++ rest, q⟩ acc
      = (.ok, acc.reverse ++ evs.map (fun ev => ev.2), ⟨rest, q + (evs.map (fun ev => ev.1)).flatten.length⟩) := by
  intro evs
  induction evs with
  | nil =>
    intro _ g q acc hg
    obtain ⟨g', rfl⟩ : ∃ g', g = g' + 1 := ⟨g - 1, by omega⟩
    simpa using ra_zero env g' l ⟨rest, q⟩ acc
  | cons ev r ih =>
    intro hes g q acc hg
    obtain ⟨e, v⟩ := ev
    obtain ⟨he1, heA⟩ := hes (e, v) (List.mem_cons_self ..)
    simp only [List.map_cons, List.flatten_cons, List.length_append] at hg he1 heA
    obtain ⟨g', rfl⟩ : ∃ g', g = g' + 1 := ⟨g - 1, by omega⟩
    have hv := heA g' l ((r.map (fun ev => ev.1)).flatten ++ rest) q hdl (by omega)
    have hvs := ih (fun e' he' => hes e' (List.mem_cons_of_mem _ he')) g' (q + e.length) (v :: acc) (by omega)
    simp only [List.map_cons, List.flatten_cons, List.length_cons, List.append_assoc, List.length_append]
    rw [ra_succ env g' l r.length _ _ acc _ _ hv, hvs, Nat.add_assoc]
    simp only [List.reverse_cons, List.append_assoc, List.singleton_append]

theorem ro_all_val (env : Env) (d l : Nat) (hdl : d ≤ l) (rest : List Byte) :
    ∀ (ms : List (List Byte × List Byte × List Byte × Val)),
    (∀ m ∈ ms, KeyVal env m.1 m.2.1) → (∀ m ∈ ms, 1 ≤ m.2.2.1.length ∧ Valued env d m.2.2.1 m.2.2.2) →
    ∀ (g q : Nat) (acc : List (List Byte × Val)), 2 * (ms.map (fun m => m.1 ++ m.2.2.1)).flatten.length + 1 ≤ g →
    readObject env g l .all true ms.length ⟨(ms.map (fun m => m.1 ++ m.2.2.1)).flatten ++ rest, q⟩ acc
      = (.ok, acc ++ ms.map (fun m => (m.2.1, m.2.2.2)),
          ⟨rest, q + (ms.map (fun m => m.1 ++ m.2.2.1)).flatten.length⟩) := by
  intro ms
  induction ms with
  | nil =>
    intro _ _ g q acc hg
    obtain ⟨g', rfl⟩ : ∃ g', g = g' + 1 := ⟨g - 1, by omega⟩
    simpa using ro_zero env g' l ⟨rest, q⟩ acc
  | cons m r ih =>
    intro hks hvs g q acc hg
    obtain ⟨kb, k, vb, v⟩ := m
    have hk := hks (kb, k, vb, v) (List.mem_cons_self ..)
    obtain ⟨he1, heA⟩ := hvs (kb, k, vb, v) (List.mem_cons_self ..)
    have hk1 := keyEnc_nonempty hk.keyEnc
    simp only [List.map_cons, List.flatten_cons, List.length_append] at hg he1 heA hk hk1
    obtain ⟨g', rfl⟩ : ∃ g', g = g' + 1 := ⟨g - 1, by omega⟩
    have hv := heA g' l ((r.map (fun m => m.1 ++ m.2.2.1)).flatten ++ rest) (q + kb.length) hdl (by omega)
    have hkk := ro_key_val hk g' l q r.length (vb ++ ((r.map (fun m => m.1 ++ m.2.2.1)).flatten ++ rest)) acc v _ _ hv
    have hms := ih (fun m' h' => hks m' (List.mem_cons_of_mem _ h'))
      (fun m' h' => hvs m' (List.mem_cons_of_mem _ h')) g' (q + kb.length + vb.length) (acc ++ [(k, v)]) (by omega)
    simp only [List.map_cons, List.flatten_cons, List.length_cons, List.append_assoc, List.length_append]
    rw [hkk, hms]
    simp only [Nat.add_assoc, List.append_assoc, List.singleton_append]

/-- **the value of an encoding**: the reader model, on `e` followed by anything, answers Ok with exactly the value of
    `EncVal` and stops exactly behind `e` -/
theorem enc_val {env : Env} {d : Nat} {e : List Byte} {v : Val} (h : EncVal env d e v) : Valued env d e v := by
  induction h with
  | @leaf d e v hl =>
    intro fuel limit rest p _ hf
    have := leaf_nonempty hl.leafEnc
    obtain ⟨f', rfl⟩ : ∃ f', fuel = f' + 1 := ⟨fuel - 1, by omega⟩
    exact leaf_value hl f' limit rest p
  | @arr d hdr evs hh hes ih =>
    intro fuel limit rest p hd hf
    have h1 := arrHdr_nonempty hh
    simp only [List.length_append] at hf
    obtain ⟨f', rfl⟩ : ∃ f', fuel = f' + 1 := ⟨fuel - 1, by omega⟩
    obtain ⟨l, rfl⟩ : ∃ l, limit = l + 1 := ⟨limit - 1, by omega⟩
    have hvs := ra_all_val env d l (by omega) rest evs (fun ev he => ⟨encVal_nonempty (hes ev he), ih ev he⟩) f'
      (p + hdr.length) [] (by omega)
    rw [List.append_assoc, arrHdr_accept hh, hvs]
    simp only [arrResult, List.length_append, Nat.add_assoc, List.reverse_nil, List.nil_append]
  | @map d hdr ms hh hks hes ih =>
    intro fuel limit rest p hd hf
    have h1 := mapHdr_nonempty hh
    simp only [List.length_append] at hf
    obtain ⟨f', rfl⟩ : ∃ f', fuel = f' + 1 := ⟨fuel - 1, by omega⟩
    obtain ⟨l, rfl⟩ : ∃ l, limit = l + 1 := ⟨limit - 1, by omega⟩
    have hms := ro_all_val env d l (by omega) rest ms hks (fun m he => ⟨encVal_nonempty (hes m he), ih m he⟩) f'
      (p + hdr.length) [] (by omega)
    rw [List.append_assoc, mapHdr_accept hh, hms]
    simp only [objResult, List.length_append, Nat.add_assoc, List.nil_append]

/-- the value of an encoding is unique (whatever the depth bounds under which it was derived) -/
theorem encVal_unique {env : Env} {d d' : Nat} {e : List Byte} {v v' : Val} (h : EncVal env d e v)
    (h' : EncVal env d' e v') : v = v' := by
  have a := enc_val h (2 * e.length) (max d d') [] 0 (Nat.le_max_left ..) (Nat.le_refl _)
  have b := enc_val h' (2 * e.length) (max d d') [] 0 (Nat.le_max_right ..) (Nat.le_refl _)
  rw [a] at b
  simp only [Prod.mk.injEq, true_and, and_true] at b
  exact b

end MD
