/- MessagePack reader model on a truncated input (C09, prefix clause).
   `parseVariant` / `readObject` are first cut into named pieces (`pvAfter`, `pvTail`, `hdrOf`, `rdLeaf`, `skLeaf`, `keyLenOf`,
   `roTail`), definitionally equal to the model; then a simulation between the run on `⟨q, p⟩` and the run on `⟨q ++ t, p⟩`. -/
import AJ.Lemmas.MDPos
import AJ.Lemmas.MpRoundTrip
namespace MD
open JD SF

/-! ## the model cut into pieces -/
abbrev RAfun := Nat → Flt → Bool → Nat → R → List Val → Code × List Val × R
abbrev ROfun := Nat → Flt → Bool → Nat → R → List (List Byte × Val) → Code × List (List Byte × Val) × R
abbrev PVfun := Nat → Flt → Bool → R → Code × Val × R × Bool

def rdLeaf (g : List Byte → Val) (n : Nat) (r : R) : Code × Val × R × Bool :=
  match r.readBytes n with
  | (some bs, r) => (.ok, g bs, r, true)
  | (none, r) => (.incomplete, .null, r, true)

def skLeaf (n : Nat) (r : R) : Code × Val × R × Bool :=
  match r.skipBytes n with
  | (true, r) => (.ok, .null, r, true)
  | (false, r) => (.incomplete, .null, r, true)

def szBytes (c : Nat) : Nat :=
  if c == 0xc4 || c == 0xc7 || c == 0xd9 then 1
  else if c == 0xc5 || c == 0xc8 || c == 0xda || c == 0xdc || c == 0xde then 2
  else if c == 0xc6 || c == 0xc9 || c == 0xdb || c == 0xdd || c == 0xdf then 4
  else 0

def szPair (c : Nat) : Nat × Bool :=
  if 0xd4 ≤ c && c ≤ 0xd8 then (2^(c - 0xd4), true) else (0, 0xc7 ≤ c && c ≤ 0xc9)

def sz2 (c : Nat) : Nat :=
  if c / 32 == 5 then c % 32 else if c / 16 == 9 || c / 16 == 8 then c % 16 else (szPair c).1

def hdrOf (sb s2 : Nat) (r : R) : Option (List Byte × Nat) × R :=
  if sb > 0 then
    match r.readBytes sb with
    | (some bs, r) => (some (bs, beNat bs), r)
    | (none, r) => (none, r)
  else (some ([], s2), r)

def pvTail (env : Env) (RA : RAfun) (RO : ROfun) (limit : Nat) (flt : Flt) (hasDst : Bool) (code : Byte) :
    Option (List Byte × Nat) × R → Code × Val × R × Bool
  | (none, r) => (.incomplete, .null, r, true)
  | (some (hb, size), r) =>
    let c := code.toNat
    let allowValue := hasDst && flt.allowValue
    if c == 0xdc || c == 0xdd || c / 16 == 9 then
      match limit with
      | 0 => (.tooDeep, .null, r, true)
      | limit'+1 =>
        if hasDst && flt.allowArray then
          match RA limit' flt.subIdx true size r [] with
          | (e, vs, r) => (e, .arr vs, r, true)
        else
          match RA limit' flt.subIdx false size r [] with
          | (e, _, r) => (e, .null, r, true)
    else if c == 0xde || c == 0xdf || c / 16 == 8 then
      match limit with
      | 0 => (.tooDeep, .null, r, true)
      | limit'+1 =>
        if hasDst && flt.allowObject then
          match RO limit' flt true size r [] with
          | (e, ms, r) => (e, .obj ms, r, true)
        else
          match RO limit' flt false size r [] with
          | (e, _, r) => (e, .null, r, true)
    else if c == 0xd9 || c == 0xda || c == 0xdb || c / 32 == 5 then
      if allowValue then
        if size > env.maxStrLen then (.noMemory, .null, r, true) else rdLeaf (fun bs => .str bs) size r
      else skLeaf size r
    else
      let size := if (szPair c).2 then size + 1 else size
      if allowValue then
        if 1 + szBytes c + size > env.maxStrLen then (.noMemory, .null, r, true)
        else rdLeaf (fun bs => .raw (code :: hb ++ bs)) size r
      else skLeaf size r

def pvAfter (env : Env) (RA : RAfun) (RO : ROfun) (limit : Nat) (flt : Flt) (hasDst : Bool) (code : Byte) (r : R) :
    Code × Val × R × Bool :=
  let allowValue := hasDst && flt.allowValue
  let c := code.toNat
  if 0xcc ≤ c && c ≤ 0xd3 then
    if allowValue then rdLeaf (fun bs => readInteger bs (c ≥ 0xd0)) (2^((c - 0xcc) % 4)) r
    else skLeaf (2^((c - 0xcc) % 4)) r
  else if c == 0xc0 then (.ok, .null, r, true)
  else if c == 0xc1 then (.invalid, .null, r, true)
  else if c == 0xc2 || c == 0xc3 then (.ok, (if allowValue then .bool (c == 0xc3) else .null), r, true)
  else if c == 0xca then
    if allowValue then rdLeaf (fun bs => .num (.f32 (beNat bs))) 4 r else skLeaf 4 r
  else if c == 0xcb then
    if allowValue then rdLeaf (fun bs => .num (storeDouble (beNat bs))) 8 r else skLeaf 8 r
  else if c ≤ 0x7f || c ≥ 0xe0 then
    (.ok, (if allowValue then .num (.sint (if c ≥ 0x80 then (c : Int) - 256 else c)) else .null), r, true)
  else pvTail env RA RO limit flt hasDst code (hdrOf (szBytes c) (sz2 c) r)

set_option maxRecDepth 8000 in
theorem pv_succ (env : Env) (fuel limit : Nat) (flt : Flt) (hd : Bool) (r : R) :
    parseVariant env (fuel+1) limit flt hd r =
      match r.read with
      | (none, r) => (.incomplete, .null, r, false)
      | (some code, r) => pvAfter env (readArray env fuel) (readObject env fuel) limit flt hd code r := by
  rw [parseVariant]
  rfl

def keyLenOf (c : Nat) (r : R) : Option (Option Nat) × R :=
  if c / 32 == 5 then (some (some (c % 32)), r)
  else if 0xd9 ≤ c && c ≤ 0xdb then
    match r.readBytes (2^(c - 0xd9)) with
    | (some bs, r) => (some (some (beNat bs)), r)
    | (none, r) => (some none, r)
  else (none, r)

def roVal (PV : PVfun) (RO : ROfun) (limit : Nat) (flt : Flt) (hasObj : Bool) (n : Nat)
    (ms : List (List Byte × Val)) (key : List Byte) (r : R) : Code × List (List Byte × Val) × R :=
  match PV limit (flt.subKey key) (hasObj && (flt.subKey key).allow) r with
  | (.ok, v, r, _) => RO limit flt hasObj (n - 1) r (if hasObj && (flt.subKey key).allow then ms ++ [(key, v)] else ms)
  | (e, v, r, _) => (e, (if hasObj && (flt.subKey key).allow then ms ++ [(key, v)] else ms), r)

def roTail (env : Env) (PV : PVfun) (RO : ROfun) (limit : Nat) (flt : Flt) (hasObj : Bool) (n : Nat)
    (ms : List (List Byte × Val)) : Option (Option Nat) × R → Code × List (List Byte × Val) × R
  | (none, r) => (.invalid, ms, r)
  | (some none, r) => (.incomplete, ms, r)
  | (some (some len), r) =>
    if len > env.maxStrLen then (.noMemory, ms, r) else
    match r.readBytes len with
    | (none, r) => (.incomplete, ms, r)
    | (some key, r) => roVal PV RO limit flt hasObj n ms key r

set_option maxRecDepth 8000 in
theorem ro_succ_eq (env : Env) (fuel limit : Nat) (flt : Flt) (ho : Bool) (n : Nat) (r : R) (ms : List (List Byte × Val)) :
    readObject env (fuel+1) limit flt ho n r ms =
      if n == 0 then (.ok, ms, r) else
      match r.read with
      | (none, r) => (.incomplete, ms, r)
      | (some code, r) =>
        roTail env (parseVariant env fuel) (readObject env fuel) limit flt ho n ms (keyLenOf code.toNat r) := by
  rw [readObject]
  rfl

theorem ra_succ_eq (env : Env) (fuel limit : Nat) (ef : Flt) (ha : Bool) (n : Nat) (r : R) (acc : List Val) :
    readArray env (fuel+1) limit ef ha n r acc =
      if n == 0 then (.ok, acc.reverse, r) else
      match parseVariant env fuel limit ef (ha && ef.allow) r with
      | (.ok, v, r, _) => readArray env fuel limit ef ha (n - 1) r (if ha && ef.allow then v :: acc else acc)
      | (e, v, r, _) => (e, (if ha && ef.allow then v :: acc else acc).reverse, r) := by
  rw [readArray]
  rfl

/-! ## the unread part never grows -/
theorem readBytes_le (r : R) (n : Nat) : (r.readBytes n).2.unread.length ≤ r.unread.length := by
  unfold R.readBytes
  split
  · simp only [List.length_drop]; omega
  · simp only [List.length_nil]; omega
theorem skipBytes_le (r : R) (n : Nat) : (r.skipBytes n).2.unread.length ≤ r.unread.length := by
  unfold R.skipBytes
  split
  · simp only [List.length_drop]; omega
  · simp only [List.length_nil]; omega

theorem rdLeaf_reader (g : List Byte → Val) (n : Nat) (r : R) : (rdLeaf g n r).2.2.1 = (r.readBytes n).2 := by
  unfold rdLeaf
  generalize r.readBytes n = x
  obtain ⟨o, r'⟩ := x
  cases o <;> rfl
theorem skLeaf_reader (n : Nat) (r : R) : (skLeaf n r).2.2.1 = (r.skipBytes n).2 := by
  unfold skLeaf
  generalize r.skipBytes n = x
  obtain ⟨o, r'⟩ := x
  cases o <;> rfl
theorem rdLeaf_le (g : List Byte → Val) (n : Nat) (r : R) : (rdLeaf g n r).2.2.1.unread.length ≤ r.unread.length := by
  rw [rdLeaf_reader]; exact readBytes_le r n
theorem skLeaf_le (n : Nat) (r : R) : (skLeaf n r).2.2.1.unread.length ≤ r.unread.length := by
  rw [skLeaf_reader]; exact skipBytes_le r n

theorem hdrOf_reader (sb s2 : Nat) (r : R) (h : sb > 0) : (hdrOf sb s2 r).2 = (r.readBytes sb).2 := by
  unfold hdrOf
  rw [if_pos h]
  generalize r.readBytes sb = x
  obtain ⟨o, r'⟩ := x
  cases o <;> rfl
theorem hdrOf_le (sb s2 : Nat) (r : R) : (hdrOf sb s2 r).2.unread.length ≤ r.unread.length := by
  by_cases h : sb > 0
  · rw [hdrOf_reader sb s2 r h]; exact readBytes_le r sb
  · unfold hdrOf; rw [if_neg h]; exact Nat.le_refl _

theorem keyLenOf_le (c : Nat) (r : R) : (keyLenOf c r).2.unread.length ≤ r.unread.length := by
  unfold keyLenOf
  refine ite_elim (P := fun (x : Option (Option Nat) × R) => x.2.unread.length ≤ r.unread.length)
    (fun _ => Nat.le_refl _) (fun _ => ?_)
  refine ite_elim (P := fun (x : Option (Option Nat) × R) => x.2.unread.length ≤ r.unread.length)
    (fun _ => ?_) (fun _ => Nat.le_refl _)
  have := readBytes_le r (2^(c - 0xd9))
  generalize r.readBytes (2^(c - 0xd9)) = x at this
  obtain ⟨o, r'⟩ := x
  cases o <;> exact this

theorem pv_unread_le (env : Env) (f limit : Nat) (flt : Flt) (hd : Bool) (r : R) :
    (parseVariant env f limit flt hd r).2.2.1.unread.length ≤ r.unread.length :=
  ((md_mutual env (r.pos + r.unread.length) f).1 limit flt hd r r.unread.length ⟨rfl, Nat.le_refl _⟩).1.2
theorem ra_unread_le (env : Env) (f limit : Nat) (ef : Flt) (ha : Bool) (n : Nat) (r : R) (acc : List Val) :
    (readArray env f limit ef ha n r acc).2.2.unread.length ≤ r.unread.length :=
  ((md_mutual env (r.pos + r.unread.length) f).2.1 limit ef ha n r acc r.unread.length ⟨rfl, Nat.le_refl _⟩).1.2
theorem ro_unread_le (env : Env) (f limit : Nat) (flt : Flt) (ho : Bool) (n : Nat) (r : R)
    (ms : List (List Byte × Val)) :
    (readObject env f limit flt ho n r ms).2.2.unread.length ≤ r.unread.length :=
  ((md_mutual env (r.pos + r.unread.length) f).2.2 limit flt ho n r ms r.unread.length ⟨rfl, Nat.le_refl _⟩).1.2

section le
variable {env : Env} {RA : RAfun} {RO : ROfun} {PV : PVfun}

theorem pvTail_le
    (hA : ∀ l ef ha n r acc, (RA l ef ha n r acc).2.2.unread.length ≤ r.unread.length)
    (hO : ∀ l fl ho n r ms, (RO l fl ho n r ms).2.2.unread.length ≤ r.unread.length)
    (limit : Nat) (flt : Flt) (hd : Bool) (code : Byte) (x : Option (List Byte × Nat) × R) :
    (pvTail env RA RO limit flt hd code x).2.2.1.unread.length ≤ x.2.unread.length := by
  obtain ⟨o, r⟩ := x
  cases o with
  | none => exact Nat.le_refl _
  | some y =>
    obtain ⟨hb, size⟩ := y
    simp only [pvTail]
    refine ite_elim (P := fun (y : Code × Val × R × Bool) => y.2.2.1.unread.length ≤ r.unread.length)
      (fun _ => ?_) (fun _ => ?_)
    · cases limit with
      | zero => exact Nat.le_refl _
      | succ l =>
        simp only
        refine ite_elim (P := fun (y : Code × Val × R × Bool) => y.2.2.1.unread.length ≤ r.unread.length)
          (fun _ => ?_) (fun _ => ?_)
        · exact hA l flt.subIdx true size r []
        · exact hA l flt.subIdx false size r []
    refine ite_elim (P := fun (y : Code × Val × R × Bool) => y.2.2.1.unread.length ≤ r.unread.length)
      (fun _ => ?_) (fun _ => ?_)
    · cases limit with
      | zero => exact Nat.le_refl _
      | succ l =>
        simp only
        refine ite_elim (P := fun (y : Code × Val × R × Bool) => y.2.2.1.unread.length ≤ r.unread.length)
          (fun _ => ?_) (fun _ => ?_)
        · exact hO l flt true size r []
        · exact hO l flt false size r []
    refine ite_elim (P := fun (y : Code × Val × R × Bool) => y.2.2.1.unread.length ≤ r.unread.length)
      (fun _ => ?_) (fun _ => ?_)
    · refine ite_elim (P := fun (y : Code × Val × R × Bool) => y.2.2.1.unread.length ≤ r.unread.length)
        (fun _ => ?_) (fun _ => skLeaf_le _ _)
      exact ite_elim (P := fun (y : Code × Val × R × Bool) => y.2.2.1.unread.length ≤ r.unread.length)
        (fun _ => Nat.le_refl _) (fun _ => rdLeaf_le _ _ _)
    · refine ite_elim (P := fun (y : Code × Val × R × Bool) => y.2.2.1.unread.length ≤ r.unread.length)
        (fun _ => ?_) (fun _ => skLeaf_le _ _)
      exact ite_elim (P := fun (y : Code × Val × R × Bool) => y.2.2.1.unread.length ≤ r.unread.length)
        (fun _ => Nat.le_refl _) (fun _ => rdLeaf_le _ _ _)

theorem pvAfter_le
    (hA : ∀ l ef ha n r acc, (RA l ef ha n r acc).2.2.unread.length ≤ r.unread.length)
    (hO : ∀ l fl ho n r ms, (RO l fl ho n r ms).2.2.unread.length ≤ r.unread.length)
    (limit : Nat) (flt : Flt) (hd : Bool) (code : Byte) (r : R) :
    (pvAfter env RA RO limit flt hd code r).2.2.1.unread.length ≤ r.unread.length := by
  simp only [pvAfter]
  have hl : ∀ (c : Prop) [Decidable c] (g : List Byte → Val) (n : Nat),
      (if c then rdLeaf g n r else skLeaf n r).2.2.1.unread.length ≤ r.unread.length := by
    intro c _ g n
    exact ite_elim (P := fun (y : Code × Val × R × Bool) => y.2.2.1.unread.length ≤ r.unread.length)
      (fun _ => rdLeaf_le _ _ _) (fun _ => skLeaf_le _ _)
  refine ite_elim (P := fun (y : Code × Val × R × Bool) => y.2.2.1.unread.length ≤ r.unread.length)
    (fun _ => hl _ _ _) (fun _ => ?_)
  refine ite_elim (P := fun (y : Code × Val × R × Bool) => y.2.2.1.unread.length ≤ r.unread.length)
    (fun _ => Nat.le_refl _) (fun _ => ?_)
  refine ite_elim (P := fun (y : Code × Val × R × Bool) => y.2.2.1.unread.length ≤ r.unread.length)
    (fun _ => Nat.le_refl _) (fun _ => ?_)
  refine ite_elim (P := fun (y : Code × Val × R × Bool) => y.2.2.1.unread.length ≤ r.unread.length)
    (fun _ => Nat.le_refl _) (fun _ => ?_)
  refine ite_elim (P := fun (y : Code × Val × R × Bool) => y.2.2.1.unread.length ≤ r.unread.length)
    (fun _ => hl _ _ _) (fun _ => ?_)
  refine ite_elim (P := fun (y : Code × Val × R × Bool) => y.2.2.1.unread.length ≤ r.unread.length)
    (fun _ => hl _ _ _) (fun _ => ?_)
  refine ite_elim (P := fun (y : Code × Val × R × Bool) => y.2.2.1.unread.length ≤ r.unread.length)
    (fun _ => Nat.le_refl _) (fun _ => ?_)
  exact Nat.le_trans (pvTail_le hA hO limit flt hd code _) (hdrOf_le _ _ r)

theorem roVal_le
    (hV : ∀ l fl b r, (PV l fl b r).2.2.1.unread.length ≤ r.unread.length)
    (hO : ∀ l fl ho n r ms, (RO l fl ho n r ms).2.2.unread.length ≤ r.unread.length)
    (limit : Nat) (flt : Flt) (ho : Bool) (n : Nat) (ms : List (List Byte × Val)) (key : List Byte) (r : R) :
    (roVal PV RO limit flt ho n ms key r).2.2.unread.length ≤ r.unread.length := by
  simp only [roVal]
  have hv := hV limit (flt.subKey key) (ho && (flt.subKey key).allow) r
  generalize PV limit (flt.subKey key) (ho && (flt.subKey key).allow) r = x at hv
  obtain ⟨e, v, r1, b⟩ := x
  cases e <;> simp only
  · exact Nat.le_trans (hO _ _ _ _ _ _) hv
  all_goals exact hv

theorem roTail_le
    (hV : ∀ l fl b r, (PV l fl b r).2.2.1.unread.length ≤ r.unread.length)
    (hO : ∀ l fl ho n r ms, (RO l fl ho n r ms).2.2.unread.length ≤ r.unread.length)
    (limit : Nat) (flt : Flt) (ho : Bool) (n : Nat) (ms : List (List Byte × Val)) (x : Option (Option Nat) × R) :
    (roTail env PV RO limit flt ho n ms x).2.2.unread.length ≤ x.2.unread.length := by
  obtain ⟨o, r⟩ := x
  cases o with
  | none => exact Nat.le_refl _
  | some y =>
    cases y with
    | none => exact Nat.le_refl _
    | some len =>
      simp only [roTail]
      refine ite_elim (P := fun (y : Code × List (List Byte × Val) × R) => y.2.2.unread.length ≤ r.unread.length)
        (fun _ => Nat.le_refl _) (fun _ => ?_)
      have := readBytes_le r len
      generalize r.readBytes len = z at this
      obtain ⟨o2, r2⟩ := z
      cases o2 with
      | none => exact this
      | some key => exact Nat.le_trans (roVal_le hV hO limit flt ho n ms key r2) this

end le

/-! ## simulation: the same routine on `⟨q, p⟩` (truncated) and on `⟨q ++ t, p⟩` (full), `t ≠ []` -/

/-- the full reader holds the same unread bytes followed by `t`, at the same position -/
def Rel (t : List Byte) (a b : R) : Prop := b.unread = a.unread ++ t ∧ b.pos = a.pos

/-- either the truncated run never looked beyond its input (same code, same value, readers still related),
    or it stopped with IncompleteInput having consumed everything while the full run went on into `t`,
    or it ran out of fuel -/
def SimV (t : List Byte) (a b : Code × Val × R × Bool) : Prop :=
  (a.1 = b.1 ∧ a.2.1 = b.2.1 ∧ Rel t a.2.2.1 b.2.2.1 ∧ a.2.2.2 = b.2.2.2) ∨
  (a.1 = .incomplete ∧ a.2.2.1.unread = [] ∧ b.2.2.1.unread.length < t.length) ∨ a.1 = .fuel

def SimL {α : Type} (t : List Byte) (a b : Code × α × R) : Prop :=
  (a.1 = b.1 ∧ a.2.1 = b.2.1 ∧ Rel t a.2.2 b.2.2) ∨
  (a.1 = .incomplete ∧ a.2.2.unread = [] ∧ b.2.2.unread.length < t.length) ∨ a.1 = .fuel

theorem simV_leaf {t : List Byte} {ra rb : R} (h : Rel t ra rb) (e : Code) (v : Val) (b : Bool) :
    SimV t (e, v, ra, b) (e, v, rb, b) := Or.inl ⟨rfl, rfl, h, rfl⟩

theorem simL_leaf {α : Type} {t : List Byte} {ra rb : R} (h : Rel t ra rb) (e : Code) (x : α) :
    SimL t (e, x, ra) (e, x, rb) := Or.inl ⟨rfl, rfl, h⟩

theorem simV_ite {t : List Byte} {c : Prop} [Decidable c] {a a' b b' : Code × Val × R × Bool}
    (h1 : c → SimV t a b) (h2 : ¬ c → SimV t a' b') : SimV t (if c then a else a') (if c then b else b') := by
  by_cases h : c
  · rw [if_pos h, if_pos h]; exact h1 h
  · rw [if_neg h, if_neg h]; exact h2 h

theorem simL_ite {α : Type} {t : List Byte} {c : Prop} [Decidable c] {a a' b b' : Code × α × R}
    (h1 : c → SimL t a b) (h2 : ¬ c → SimL t a' b') : SimL t (if c then a else a') (if c then b else b') := by
  by_cases h : c
  · rw [if_pos h, if_pos h]; exact h1 h
  · rw [if_neg h, if_neg h]; exact h2 h

theorem simV_of_L {α : Type} {t : List Byte} (f : α → Val) {e e' : Code} {x x' : α} {r r' : R}
    (h : SimL t (e, x, r) (e', x', r')) : SimV t (e, f x, r, true) (e', f x', r', true) := by
  rcases h with ⟨h1, h2, h3⟩ | ⟨h1, h2, h3⟩ | h1
  · simp only at h1 h2 h3
    subst h1; subst h2
    exact Or.inl ⟨rfl, rfl, h3, rfl⟩
  · exact Or.inr (Or.inl ⟨h1, h2, h3⟩)
  · exact Or.inr (Or.inr h1)

/-! ### the three reader primitives -/
theorem read_sim {t : List Byte} (ht : t ≠ []) {ra rb : R} (h : Rel t ra rb) :
    (∃ c ra' rb', ra.read = (some c, ra') ∧ rb.read = (some c, rb') ∧ Rel t ra' rb') ∨
    (ra.read = (none, ra) ∧ ra.unread = [] ∧ ∃ c rb', rb.read = (some c, rb') ∧ rb'.unread.length < t.length) := by
  obtain ⟨u, p⟩ := ra
  obtain ⟨u', p'⟩ := rb
  obtain ⟨h1, h2⟩ := h
  simp only at h1 h2
  subst h1; subst h2
  cases u with
  | nil =>
    cases t with
    | nil => exact absurd rfl ht
    | cons c t' => exact Or.inr ⟨rfl, rfl, c, ⟨t', p' + 1⟩, rfl, by simp⟩
  | cons c l => exact Or.inl ⟨c, ⟨l, p' + 1⟩, ⟨l ++ t, p' + 1⟩, rfl, rfl, rfl, rfl⟩

theorem readBytes_sim {t : List Byte} (ht : t ≠ []) {ra rb : R} (h : Rel t ra rb) (n : Nat) :
    (∃ bs ra' rb', ra.readBytes n = (some bs, ra') ∧ rb.readBytes n = (some bs, rb') ∧ Rel t ra' rb') ∨
    (∃ ra', ra.readBytes n = (none, ra') ∧ ra'.unread = [] ∧ (rb.readBytes n).2.unread.length < t.length) := by
  obtain ⟨u, p⟩ := ra
  obtain ⟨u', p'⟩ := rb
  obtain ⟨h1, h2⟩ := h
  simp only at h1 h2
  subst h1; subst h2
  have htl : 0 < t.length := List.length_pos_iff.mpr ht
  by_cases hl : u.length ≥ n
  · left
    refine ⟨u.take n, ⟨u.drop n, p' + n⟩, ⟨u.drop n ++ t, p' + n⟩, ?_, ?_, rfl, rfl⟩
    · simp only [R.readBytes]; rw [if_pos hl]
    · simp only [R.readBytes]
      rw [if_pos (by simp only [List.length_append]; omega), List.take_append_of_le_length hl,
        List.drop_append_of_le_length hl]
  · right
    refine ⟨⟨[], p' + u.length⟩, ?_, rfl, ?_⟩
    · simp only [R.readBytes]; rw [if_neg hl]
    · simp only [R.readBytes]
      split
      · simp only [List.length_drop, List.length_append]; omega
      · exact htl

theorem skipBytes_sim {t : List Byte} (ht : t ≠ []) {ra rb : R} (h : Rel t ra rb) (n : Nat) :
    (∃ ra' rb', ra.skipBytes n = (true, ra') ∧ rb.skipBytes n = (true, rb') ∧ Rel t ra' rb') ∨
    (∃ ra', ra.skipBytes n = (false, ra') ∧ ra'.unread = [] ∧ (rb.skipBytes n).2.unread.length < t.length) := by
  obtain ⟨u, p⟩ := ra
  obtain ⟨u', p'⟩ := rb
  obtain ⟨h1, h2⟩ := h
  simp only at h1 h2
  subst h1; subst h2
  have htl : 0 < t.length := List.length_pos_iff.mpr ht
  by_cases hl : u.length ≥ n
  · left
    refine ⟨⟨u.drop n, p' + n⟩, ⟨u.drop n ++ t, p' + n⟩, ?_, ?_, rfl, rfl⟩
    · simp only [R.skipBytes]; rw [if_pos hl]
    · simp only [R.skipBytes]
      rw [if_pos (by simp only [List.length_append]; omega), List.drop_append_of_le_length hl]
  · right
    refine ⟨⟨[], p' + u.length⟩, ?_, rfl, ?_⟩
    · simp only [R.skipBytes]; rw [if_neg hl]
    · simp only [R.skipBytes]
      split
      · simp only [List.length_drop, List.length_append]; omega
      · exact htl

theorem sim_rdLeaf {t : List Byte} (ht : t ≠ []) {ra rb : R} (h : Rel t ra rb) (g : List Byte → Val) (n : Nat) :
    SimV t (rdLeaf g n ra) (rdLeaf g n rb) := by
  rcases readBytes_sim ht h n with ⟨bs, ra', rb', e1, e2, hr⟩ | ⟨ra', e1, hu, hlt⟩
  · unfold rdLeaf; rw [e1, e2]; exact Or.inl ⟨rfl, rfl, hr, rfl⟩
  · refine Or.inr (Or.inl ⟨?_, ?_, ?_⟩)
    · unfold rdLeaf; rw [e1]
    · unfold rdLeaf; rw [e1]; exact hu
    · rw [rdLeaf_reader]; exact hlt

theorem sim_skLeaf {t : List Byte} (ht : t ≠ []) {ra rb : R} (h : Rel t ra rb) (n : Nat) :
    SimV t (skLeaf n ra) (skLeaf n rb) := by
  rcases skipBytes_sim ht h n with ⟨ra', rb', e1, e2, hr⟩ | ⟨ra', e1, hu, hlt⟩
  · unfold skLeaf; rw [e1, e2]; exact Or.inl ⟨rfl, rfl, hr, rfl⟩
  · refine Or.inr (Or.inl ⟨?_, ?_, ?_⟩)
    · unfold skLeaf; rw [e1]
    · unfold skLeaf; rw [e1]; exact hu
    · rw [skLeaf_reader]; exact hlt

theorem hdr_sim {t : List Byte} (ht : t ≠ []) {ra rb : R} (h : Rel t ra rb) (sb s2 : Nat) :
    (∃ x ra' rb', hdrOf sb s2 ra = (some x, ra') ∧ hdrOf sb s2 rb = (some x, rb') ∧ Rel t ra' rb') ∨
    (∃ ra', hdrOf sb s2 ra = (none, ra') ∧ ra'.unread = [] ∧ (hdrOf sb s2 rb).2.unread.length < t.length) := by
  by_cases hs : sb > 0
  · rcases readBytes_sim ht h sb with ⟨bs, ra', rb', e1, e2, hr⟩ | ⟨ra', e1, hu, hlt⟩
    · unfold hdrOf; rw [if_pos hs, if_pos hs, e1, e2]; exact Or.inl ⟨_, ra', rb', rfl, rfl, hr⟩
    · refine Or.inr ⟨ra', ?_, hu, ?_⟩
      · unfold hdrOf; rw [if_pos hs, e1]
      · rw [hdrOf_reader sb s2 rb hs]; exact hlt
  · unfold hdrOf; rw [if_neg hs, if_neg hs]
    exact Or.inl ⟨_, ra, rb, rfl, rfl, h⟩

/-! ### `parseVariant` after the format byte -/
section steps
variable {t : List Byte} {env : Env} {RA RA' : RAfun} {RO RO' : ROfun}

theorem sim_pvTail (ht : t ≠ [])
    (hA : ∀ l ef ha n ra rb acc, Rel t ra rb → SimL t (RA l ef ha n ra acc) (RA' l ef ha n rb acc))
    (hO : ∀ l fl ho n ra rb ms, Rel t ra rb → SimL t (RO l fl ho n ra ms) (RO' l fl ho n rb ms))
    (limit : Nat) (flt : Flt) (hd : Bool) (code : Byte) (x : List Byte × Nat) (ra rb : R) (h : Rel t ra rb) :
    SimV t (pvTail env RA RO limit flt hd code (some x, ra)) (pvTail env RA' RO' limit flt hd code (some x, rb)) := by
  obtain ⟨hb, size⟩ := x
  simp only [pvTail]
  refine simV_ite (fun _ => ?_) (fun _ => ?_)
  · cases limit with
    | zero => exact simV_leaf h _ _ _
    | succ l =>
      simp only
      refine simV_ite (fun _ => ?_) (fun _ => ?_)
      · have := hA l flt.subIdx true size ra rb [] h
        generalize RA l flt.subIdx true size ra [] = xa at this
        generalize RA' l flt.subIdx true size rb [] = xb at this
        obtain ⟨e, vs, r⟩ := xa
        obtain ⟨e', vs', r'⟩ := xb
        exact simV_of_L (fun vs => Val.arr vs) this
      · have := hA l flt.subIdx false size ra rb [] h
        generalize RA l flt.subIdx false size ra [] = xa at this
        generalize RA' l flt.subIdx false size rb [] = xb at this
        obtain ⟨e, vs, r⟩ := xa
        obtain ⟨e', vs', r'⟩ := xb
        exact simV_of_L (fun _ => Val.null) this
  refine simV_ite (fun _ => ?_) (fun _ => ?_)
  · cases limit with
    | zero => exact simV_leaf h _ _ _
    | succ l =>
      simp only
      refine simV_ite (fun _ => ?_) (fun _ => ?_)
      · have := hO l flt true size ra rb [] h
        generalize RO l flt true size ra [] = xa at this
        generalize RO' l flt true size rb [] = xb at this
        obtain ⟨e, vs, r⟩ := xa
        obtain ⟨e', vs', r'⟩ := xb
        exact simV_of_L (fun ms => Val.obj ms) this
      · have := hO l flt false size ra rb [] h
        generalize RO l flt false size ra [] = xa at this
        generalize RO' l flt false size rb [] = xb at this
        obtain ⟨e, vs, r⟩ := xa
        obtain ⟨e', vs', r'⟩ := xb
        exact simV_of_L (fun _ => Val.null) this
  refine simV_ite (fun _ => ?_) (fun _ => ?_)
  · refine simV_ite (fun _ => ?_) (fun _ => sim_skLeaf ht h _)
    exact simV_ite (fun _ => simV_leaf h _ _ _) (fun _ => sim_rdLeaf ht h _ _)
  · refine simV_ite (fun _ => ?_) (fun _ => sim_skLeaf ht h _)
    exact simV_ite (fun _ => simV_leaf h _ _ _) (fun _ => sim_rdLeaf ht h _ _)

theorem sim_pvAfter (ht : t ≠ [])
    (hA : ∀ l ef ha n ra rb acc, Rel t ra rb → SimL t (RA l ef ha n ra acc) (RA' l ef ha n rb acc))
    (hO : ∀ l fl ho n ra rb ms, Rel t ra rb → SimL t (RO l fl ho n ra ms) (RO' l fl ho n rb ms))
    (hAle : ∀ l ef ha n r acc, (RA' l ef ha n r acc).2.2.unread.length ≤ r.unread.length)
    (hOle : ∀ l fl ho n r ms, (RO' l fl ho n r ms).2.2.unread.length ≤ r.unread.length)
    (limit : Nat) (flt : Flt) (hd : Bool) (code : Byte) (ra rb : R) (h : Rel t ra rb) :
    SimV t (pvAfter env RA RO limit flt hd code ra) (pvAfter env RA' RO' limit flt hd code rb) := by
  simp only [pvAfter]
  refine simV_ite (fun _ => ?_) (fun _ => ?_)
  · exact simV_ite (fun _ => sim_rdLeaf ht h _ _) (fun _ => sim_skLeaf ht h _)
  refine simV_ite (fun _ => simV_leaf h _ _ _) (fun _ => ?_)
  refine simV_ite (fun _ => simV_leaf h _ _ _) (fun _ => ?_)
  refine simV_ite (fun _ => simV_leaf h _ _ _) (fun _ => ?_)
  refine simV_ite (fun _ => ?_) (fun _ => ?_)
  · exact simV_ite (fun _ => sim_rdLeaf ht h _ _) (fun _ => sim_skLeaf ht h _)
  refine simV_ite (fun _ => ?_) (fun _ => ?_)
  · exact simV_ite (fun _ => sim_rdLeaf ht h _ _) (fun _ => sim_skLeaf ht h _)
  refine simV_ite (fun _ => simV_leaf h _ _ _) (fun _ => ?_)
  rcases hdr_sim ht h (szBytes code.toNat) (sz2 code.toNat) with ⟨x, ra', rb', e1, e2, hr⟩ | ⟨ra', e1, hu, hlt⟩
  · rw [e1, e2]; exact sim_pvTail ht hA hO limit flt hd code x ra' rb' hr
  · rw [e1]
    exact Or.inr (Or.inl ⟨rfl, hu, Nat.lt_of_le_of_lt (pvTail_le hAle hOle limit flt hd code _) hlt⟩)

theorem sim_roTail {PV PV' : PVfun} (ht : t ≠ [])
    (hV : ∀ l fl b ra rb, Rel t ra rb → SimV t (PV l fl b ra) (PV' l fl b rb))
    (hO : ∀ l fl ho n ra rb ms, Rel t ra rb → SimL t (RO l fl ho n ra ms) (RO' l fl ho n rb ms))
    (hVle : ∀ l fl b r, (PV' l fl b r).2.2.1.unread.length ≤ r.unread.length)
    (hOle : ∀ l fl ho n r ms, (RO' l fl ho n r ms).2.2.unread.length ≤ r.unread.length)
    (limit : Nat) (flt : Flt) (ho : Bool) (n : Nat) (ms : List (List Byte × Val)) (x : Option (Option Nat))
    (ra rb : R) (h : Rel t ra rb) :
    SimL t (roTail env PV RO limit flt ho n ms (x, ra)) (roTail env PV' RO' limit flt ho n ms (x, rb)) := by
  cases x with
  | none => exact simL_leaf h _ _
  | some y =>
    cases y with
    | none =>
      simp only [roTail]
      exact simL_leaf h _ _
    | some len =>
      simp only [roTail]
      refine simL_ite (fun _ => simL_leaf h _ _) (fun _ => ?_)
      rcases readBytes_sim ht h len with ⟨key, ra', rb', e1, e2, hr⟩ | ⟨ra', e1, hu, hlt⟩
      · rw [e1, e2]
        simp only [roVal]
        have hv := hV limit (flt.subKey key) (ho && (flt.subKey key).allow) ra' rb' hr
        generalize PV limit (flt.subKey key) (ho && (flt.subKey key).allow) ra' = xa at hv
        generalize PV' limit (flt.subKey key) (ho && (flt.subKey key).allow) rb' = xb at hv
        obtain ⟨e, v, r, b⟩ := xa
        obtain ⟨e', v', r', b'⟩ := xb
        rcases hv with ⟨h1, h2, h3, h4⟩ | ⟨h1, h2, h3⟩ | h1
        · simp only at h1 h2 h3 h4
          subst h1; subst h2
          cases e <;> simp only
          · exact hO _ _ _ _ _ _ _ h3
          all_goals exact simL_leaf h3 _ _
        · simp only at h1 h2 h3
          subst h1
          refine Or.inr (Or.inl ⟨rfl, h2, ?_⟩)
          cases e' <;> simp only
          · exact Nat.lt_of_le_of_lt (hOle _ _ _ _ _ _) h3
          all_goals exact h3
        · simp only at h1
          subst h1
          exact Or.inr (Or.inr rfl)
      · rw [e1]
        refine Or.inr (Or.inl ⟨rfl, hu, ?_⟩)
        generalize rb.readBytes len = z at hlt
        obtain ⟨o2, r2⟩ := z
        cases o2 with
        | none => exact hlt
        | some key => exact Nat.lt_of_le_of_lt (roVal_le hVle hOle limit flt ho n ms key r2) hlt

end steps

theorem keyLen_sim {t : List Byte} (ht : t ≠ []) {ra rb : R} (h : Rel t ra rb) (c : Nat) :
    (∃ x ra' rb', keyLenOf c ra = (x, ra') ∧ keyLenOf c rb = (x, rb') ∧ Rel t ra' rb' ∧ x ≠ some none) ∨
    (∃ ra', keyLenOf c ra = (some none, ra') ∧ ra'.unread = [] ∧ (keyLenOf c rb).2.unread.length < t.length) := by
  unfold keyLenOf
  by_cases h1 : (c / 32 == 5) = true
  · rw [if_pos h1, if_pos h1]; exact Or.inl ⟨_, ra, rb, rfl, rfl, h, by simp⟩
  · rw [if_neg h1, if_neg h1]
    by_cases h2 : (decide (0xd9 ≤ c) && decide (c ≤ 0xdb)) = true
    · rw [if_pos h2, if_pos h2]
      rcases readBytes_sim ht h (2^(c - 0xd9)) with ⟨bs, ra', rb', e1, e2, hr⟩ | ⟨ra', e1, hu, hlt⟩
      · rw [e1, e2]; exact Or.inl ⟨_, ra', rb', rfl, rfl, hr, by simp⟩
      · rw [e1]
        refine Or.inr ⟨ra', rfl, hu, ?_⟩
        generalize rb.readBytes (2^(c - 0xd9)) = z at hlt
        obtain ⟨o2, r2⟩ := z
        cases o2 <;> exact hlt
    · rw [if_neg h2, if_neg h2]; exact Or.inl ⟨_, ra, rb, rfl, rfl, h, by simp⟩

/-- the simulation, for the three routines of the mutual block; the full run may have `d` more units of fuel -/
theorem sim_mutual (env : Env) (t : List Byte) (ht : t ≠ []) (d : Nat) : ∀ f,
    (∀ limit flt hd ra rb, Rel t ra rb →
      SimV t (parseVariant env f limit flt hd ra) (parseVariant env (f+d) limit flt hd rb)) ∧
    (∀ limit ef ha n ra rb acc, Rel t ra rb →
      SimL t (readArray env f limit ef ha n ra acc) (readArray env (f+d) limit ef ha n rb acc)) ∧
    (∀ limit flt ho n ra rb ms, Rel t ra rb →
      SimL t (readObject env f limit flt ho n ra ms) (readObject env (f+d) limit flt ho n rb ms)) := by
  intro f
  induction f with
  | zero =>
    refine ⟨?_, ?_, ?_⟩
    · intro limit flt hd ra rb _; simp only [parseVariant]; exact Or.inr (Or.inr rfl)
    · intro limit ef ha n ra rb acc _; simp only [readArray]; exact Or.inr (Or.inr rfl)
    · intro limit flt ho n ra rb ms _; simp only [readObject]; exact Or.inr (Or.inr rfl)
  | succ f ih =>
    obtain ⟨ihV, ihA, ihO⟩ := ih
    have efd : f + 1 + d = (f + d) + 1 := by omega
    refine ⟨?_, ?_, ?_⟩
    · intro limit flt hd ra rb h
      rw [efd, pv_succ, pv_succ]
      rcases read_sim ht h with ⟨c, ra', rb', e1, e2, hr⟩ | ⟨e1, hu, c, rb', e2, hlt⟩
      · rw [e1, e2]
        exact sim_pvAfter ht ihA ihO (ra_unread_le env (f+d)) (ro_unread_le env (f+d)) limit flt hd c ra' rb' hr
      · rw [e1, e2]
        exact Or.inr (Or.inl ⟨rfl, hu, Nat.lt_of_le_of_lt
          (pvAfter_le (ra_unread_le env (f+d)) (ro_unread_le env (f+d)) limit flt hd c rb') hlt⟩)
    · intro limit ef ha n ra rb acc h
      rw [efd, ra_succ_eq, ra_succ_eq]
      refine simL_ite (fun _ => simL_leaf h _ _) (fun _ => ?_)
      have hv := ihV limit ef (ha && ef.allow) ra rb h
      generalize parseVariant env f limit ef (ha && ef.allow) ra = xa at hv
      generalize parseVariant env (f+d) limit ef (ha && ef.allow) rb = xb at hv
      obtain ⟨e, v, r, b⟩ := xa
      obtain ⟨e', v', r', b'⟩ := xb
      rcases hv with ⟨h1, h2, h3, h4⟩ | ⟨h1, h2, h3⟩ | h1
      · simp only at h1 h2 h3 h4
        subst h1; subst h2
        cases e <;> simp only
        · exact ihA _ _ _ _ _ _ _ h3
        all_goals exact simL_leaf h3 _ _
      · simp only at h1 h2 h3
        subst h1
        refine Or.inr (Or.inl ⟨rfl, h2, ?_⟩)
        cases e' <;> simp only
        · exact Nat.lt_of_le_of_lt (ra_unread_le env (f+d) _ _ _ _ _ _) h3
        all_goals exact h3
      · simp only at h1
        subst h1
        exact Or.inr (Or.inr rfl)
    · intro limit flt ho n ra rb ms h
      rw [efd, ro_succ_eq, ro_succ_eq]
      refine simL_ite (fun _ => simL_leaf h _ _) (fun _ => ?_)
      rcases read_sim ht h with ⟨c, ra', rb', e1, e2, hr⟩ | ⟨e1, hu, c, rb', e2, hlt⟩
      · rw [e1, e2]
        simp only
        rcases keyLen_sim ht hr c.toNat with ⟨x, ra2, rb2, e3, e4, hr2, _⟩ | ⟨ra2, e3, hu2, hlt2⟩
        · rw [e3, e4]
          exact sim_roTail ht ihV ihO (pv_unread_le env (f+d)) (ro_unread_le env (f+d)) limit flt ho n ms x ra2 rb2 hr2
        · rw [e3]
          exact Or.inr (Or.inl ⟨rfl, hu2, Nat.lt_of_le_of_lt
            (roTail_le (pv_unread_le env (f+d)) (ro_unread_le env (f+d)) limit flt ho n ms _) hlt2⟩)
      · rw [e1, e2]
        refine Or.inr (Or.inl ⟨rfl, hu, ?_⟩)
        exact Nat.lt_of_le_of_lt (Nat.le_trans
          (roTail_le (pv_unread_le env (f+d)) (ro_unread_le env (f+d)) limit flt ho n ms _) (keyLenOf_le _ _)) hlt

/-! ## `foundSomething` is set as soon as the format byte was read -/
theorem rdLeaf_found (g : List Byte → Val) (n : Nat) (r : R) : (rdLeaf g n r).2.2.2 = true := by
  unfold rdLeaf; split <;> rfl
theorem skLeaf_found (n : Nat) (r : R) : (skLeaf n r).2.2.2 = true := by
  unfold skLeaf; split <;> rfl

theorem found_ite {c : Prop} [Decidable c] {a b : Code × Val × R × Bool}
    (ha : c → a.2.2.2 = true) (hb : ¬ c → b.2.2.2 = true) : (if c then a else b).2.2.2 = true := by
  by_cases h : c
  · rw [if_pos h]; exact ha h
  · rw [if_neg h]; exact hb h

theorem pvTail_found (env : Env) (RA : RAfun) (RO : ROfun) (limit : Nat) (flt : Flt) (hd : Bool) (code : Byte)
    (x : Option (List Byte × Nat) × R) : (pvTail env RA RO limit flt hd code x).2.2.2 = true := by
  obtain ⟨o, r⟩ := x
  cases o with
  | none => rfl
  | some y =>
    obtain ⟨hb, size⟩ := y
    simp only [pvTail]
    repeat' split
    all_goals first | rfl | exact rdLeaf_found _ _ _ | exact skLeaf_found _ _

theorem pvAfter_found (env : Env) (RA : RAfun) (RO : ROfun) (limit : Nat) (flt : Flt) (hd : Bool) (code : Byte) (r : R) :
    (pvAfter env RA RO limit flt hd code r).2.2.2 = true := by
  simp only [pvAfter]
  refine found_ite (fun _ => found_ite (fun _ => rdLeaf_found _ _ _) (fun _ => skLeaf_found _ _)) (fun _ => ?_)
  refine found_ite (fun _ => rfl) (fun _ => ?_)
  refine found_ite (fun _ => rfl) (fun _ => ?_)
  refine found_ite (fun _ => rfl) (fun _ => ?_)
  refine found_ite (fun _ => found_ite (fun _ => rdLeaf_found _ _ _) (fun _ => skLeaf_found _ _)) (fun _ => ?_)
  refine found_ite (fun _ => found_ite (fun _ => rdLeaf_found _ _ _) (fun _ => skLeaf_found _ _)) (fun _ => ?_)
  refine found_ite (fun _ => rfl) (fun _ => ?_)
  exact pvTail_found _ _ _ _ _ _ _ _

theorem pv_found_cons (env : Env) (fuel limit : Nat) (flt : Flt) (hd : Bool) (c : Byte) (l : List Byte) (p : Nat) :
    (parseVariant env fuel limit flt hd ⟨c :: l, p⟩).2.2.2 = true := by
  cases fuel with
  | zero => simp only [parseVariant]
  | succ f => rw [pv_succ]; exact pvAfter_found _ _ _ _ _ _ _ _

/-! ## the filter changes neither the code nor the bytes consumed (unless the unfiltered run is NoMemory) -/

def CRv (x : Code × Val × R × Bool) : Code × R × Bool := (x.1, x.2.2.1, x.2.2.2)
def CRl {α : Type} (x : Code × α × R) : Code × R := (x.1, x.2.2)

/-- `a`: the run with a filter / without destination, `b`: the run with `.all` and a destination -/
def FIv (a b : Code × Val × R × Bool) : Prop := b.1 = .noMemory ∨ CRv a = CRv b
def FIl {α β : Type} (a : Code × α × R) (b : Code × β × R) : Prop := b.1 = .noMemory ∨ CRl a = CRl b

theorem fiv_leaf (e : Code) (v v' : Val) (r : R) (b : Bool) : FIv (e, v, r, b) (e, v', r, b) := Or.inr rfl
theorem fil_leaf {α β : Type} (e : Code) (x : α) (y : β) (r : R) : FIl (e, x, r) (e, y, r) := Or.inr rfl

theorem fiv_ite {c : Prop} [Decidable c] {a a' b b' : Code × Val × R × Bool}
    (h1 : c → FIv a b) (h2 : ¬ c → FIv a' b') : FIv (if c then a else a') (if c then b else b') := by
  by_cases h : c
  · rw [if_pos h, if_pos h]; exact h1 h
  · rw [if_neg h, if_neg h]; exact h2 h

theorem fil_ite {α β : Type} {c : Prop} [Decidable c] {a a' : Code × α × R} {b b' : Code × β × R}
    (h1 : c → FIl a b) (h2 : ¬ c → FIl a' b') : FIl (if c then a else a') (if c then b else b') := by
  by_cases h : c
  · rw [if_pos h, if_pos h]; exact h1 h
  · rw [if_neg h, if_neg h]; exact h2 h

/-- the left condition is free, the right one holds -/
theorem fiv_ite2 {c c' : Prop} [Decidable c] [Decidable c'] {a a' b b' : Code × Val × R × Bool} (hc' : c')
    (h1 : c → FIv a b) (h2 : ¬ c → FIv a' b) : FIv (if c then a else a') (if c' then b else b') := by
  rw [if_pos hc']
  by_cases h : c
  · rw [if_pos h]; exact h1 h
  · rw [if_neg h]; exact h2 h

theorem crv_rd_sk (g : List Byte → Val) (n : Nat) (r : R) : CRv (rdLeaf g n r) = CRv (skLeaf n r) := by
  unfold rdLeaf skLeaf R.readBytes R.skipBytes
  by_cases hl : r.unread.length ≥ n
  · rw [if_pos hl, if_pos hl]; rfl
  · rw [if_neg hl, if_neg hl]

theorem fiv_rd_rd (g g' : List Byte → Val) (n : Nat) (r : R) : FIv (rdLeaf g n r) (rdLeaf g' n r) :=
  Or.inr ((crv_rd_sk g n r).trans (crv_rd_sk g' n r).symm)
theorem fiv_sk_rd (g' : List Byte → Val) (n : Nat) (r : R) : FIv (skLeaf n r) (rdLeaf g' n r) :=
  Or.inr (crv_rd_sk g' n r).symm

theorem fiv_of_l {α β : Type} (f : α → Val) (f' : β → Val) {e e' : Code} {x : α} {x' : β} {r r' : R}
    (h : FIl (e, x, r) (e', x', r')) : FIv (e, f x, r, true) (e', f' x', r', true) := by
  rcases h with h | h
  · exact Or.inl h
  · simp only [CRl, Prod.mk.injEq] at h
    obtain ⟨h1, h2⟩ := h
    subst h1; subst h2
    exact Or.inr rfl

section fi
variable {env : Env} {RA : RAfun} {RO : ROfun}

theorem all_av : (true && Flt.all.allowValue) = true := rfl
theorem all_aa : (true && Flt.all.allowArray) = true := rfl
theorem all_ao : (true && Flt.all.allowObject) = true := rfl

theorem fi_pvTail
    (hA : ∀ l ef ha n r acc acc', FIl (RA l ef ha n r acc) (RA l .all true n r acc'))
    (hO : ∀ l fl ho n r ms ms', FIl (RO l fl ho n r ms) (RO l .all true n r ms'))
    (limit : Nat) (flt : Flt) (hd : Bool) (code : Byte) (x : Option (List Byte × Nat) × R) :
    FIv (pvTail env RA RO limit flt hd code x) (pvTail env RA RO limit .all true code x) := by
  obtain ⟨o, r⟩ := x
  cases o with
  | none => exact fiv_leaf _ _ _ _ _
  | some y =>
    obtain ⟨hb, size⟩ := y
    simp only [pvTail, show Flt.all.subIdx = Flt.all from rfl]
    refine fiv_ite (fun _ => ?_) (fun _ => ?_)
    · cases limit with
      | zero => exact fiv_leaf _ _ _ _ _
      | succ l =>
        simp only
        refine fiv_ite2 all_aa (fun _ => ?_) (fun _ => ?_)
        · have := hA l flt.subIdx true size r [] []
          generalize RA l flt.subIdx true size r [] = xa at this
          generalize RA l .all true size r [] = xb at this
          obtain ⟨e, vs, r1⟩ := xa
          obtain ⟨e', vs', r1'⟩ := xb
          exact fiv_of_l (fun vs => Val.arr vs) (fun vs => Val.arr vs) this
        · have := hA l flt.subIdx false size r [] []
          generalize RA l flt.subIdx false size r [] = xa at this
          generalize RA l .all true size r [] = xb at this
          obtain ⟨e, vs, r1⟩ := xa
          obtain ⟨e', vs', r1'⟩ := xb
          exact fiv_of_l (fun _ => Val.null) (fun vs => Val.arr vs) this
    refine fiv_ite (fun _ => ?_) (fun _ => ?_)
    · cases limit with
      | zero => exact fiv_leaf _ _ _ _ _
      | succ l =>
        simp only
        refine fiv_ite2 all_ao (fun _ => ?_) (fun _ => ?_)
        · have := hO l flt true size r [] []
          generalize RO l flt true size r [] = xa at this
          generalize RO l .all true size r [] = xb at this
          obtain ⟨e, vs, r1⟩ := xa
          obtain ⟨e', vs', r1'⟩ := xb
          exact fiv_of_l (fun ms => Val.obj ms) (fun ms => Val.obj ms) this
        · have := hO l flt false size r [] []
          generalize RO l flt false size r [] = xa at this
          generalize RO l .all true size r [] = xb at this
          obtain ⟨e, vs, r1⟩ := xa
          obtain ⟨e', vs', r1'⟩ := xb
          exact fiv_of_l (fun _ => Val.null) (fun ms => Val.obj ms) this
    refine fiv_ite (fun _ => ?_) (fun _ => ?_)
    · refine fiv_ite2 all_av (fun _ => ?_) (fun _ => ?_)
      · exact fiv_ite (fun _ => fiv_leaf _ _ _ _ _) (fun _ => fiv_rd_rd _ _ _ _)
      · by_cases hs : size > env.maxStrLen
        · rw [if_pos hs]; exact Or.inl rfl
        · rw [if_neg hs]; exact fiv_sk_rd _ _ _
    · generalize (if (szPair code.toNat).2 = true then size + 1 else size) = sz
      refine fiv_ite2 all_av (fun _ => ?_) (fun _ => ?_)
      · exact fiv_ite (fun _ => fiv_leaf _ _ _ _ _) (fun _ => fiv_rd_rd _ _ _ _)
      · by_cases hs : 1 + szBytes code.toNat + sz > env.maxStrLen
        · rw [if_pos hs]; exact Or.inl rfl
        · rw [if_neg hs]; exact fiv_sk_rd _ _ _

theorem fi_pvAfter
    (hA : ∀ l ef ha n r acc acc', FIl (RA l ef ha n r acc) (RA l .all true n r acc'))
    (hO : ∀ l fl ho n r ms ms', FIl (RO l fl ho n r ms) (RO l .all true n r ms'))
    (limit : Nat) (flt : Flt) (hd : Bool) (code : Byte) (r : R) :
    FIv (pvAfter env RA RO limit flt hd code r) (pvAfter env RA RO limit .all true code r) := by
  simp only [pvAfter]
  refine fiv_ite (fun _ => ?_) (fun _ => ?_)
  · exact fiv_ite2 all_av (fun _ => fiv_rd_rd _ _ _ _) (fun _ => fiv_sk_rd _ _ _)
  refine fiv_ite (fun _ => fiv_leaf _ _ _ _ _) (fun _ => ?_)
  refine fiv_ite (fun _ => fiv_leaf _ _ _ _ _) (fun _ => ?_)
  refine fiv_ite (fun _ => fiv_leaf _ _ _ _ _) (fun _ => ?_)
  refine fiv_ite (fun _ => ?_) (fun _ => ?_)
  · exact fiv_ite2 all_av (fun _ => fiv_rd_rd _ _ _ _) (fun _ => fiv_sk_rd _ _ _)
  refine fiv_ite (fun _ => ?_) (fun _ => ?_)
  · exact fiv_ite2 all_av (fun _ => fiv_rd_rd _ _ _ _) (fun _ => fiv_sk_rd _ _ _)
  refine fiv_ite (fun _ => fiv_leaf _ _ _ _ _) (fun _ => ?_)
  exact fi_pvTail hA hO limit flt hd code _

theorem fi_roTail {PV : PVfun}
    (hV : ∀ l fl b r, FIv (PV l fl b r) (PV l .all true r))
    (hO : ∀ l fl ho n r ms ms', FIl (RO l fl ho n r ms) (RO l .all true n r ms'))
    (limit : Nat) (flt : Flt) (ho : Bool) (n : Nat) (ms ms' : List (List Byte × Val)) (x : Option (Option Nat) × R) :
    FIl (roTail env PV RO limit flt ho n ms x) (roTail env PV RO limit .all true n ms' x) := by
  obtain ⟨o, r⟩ := x
  cases o with
  | none => exact fil_leaf _ _ _ _
  | some y =>
    cases y with
    | none => exact fil_leaf _ _ _ _
    | some len =>
      simp only [roTail]
      refine fil_ite (fun _ => fil_leaf _ _ _ _) (fun _ => ?_)
      generalize r.readBytes len = z
      obtain ⟨o2, r2⟩ := z
      cases o2 with
      | none => exact fil_leaf _ _ _ _
      | some key =>
        simp only [roVal, show Flt.all.subKey key = Flt.all from rfl, show (true && Flt.all.allow) = true from rfl]
        have hv := hV limit (flt.subKey key) (ho && (flt.subKey key).allow) r2
        generalize PV limit (flt.subKey key) (ho && (flt.subKey key).allow) r2 = xa at hv
        generalize PV limit .all true r2 = xb at hv
        obtain ⟨e, v, r3, b⟩ := xa
        obtain ⟨e', v', r3', b'⟩ := xb
        rcases hv with h | h
        · simp only at h
          subst h
          exact Or.inl rfl
        · simp only [CRv, Prod.mk.injEq] at h
          obtain ⟨h1, h2, _⟩ := h
          subst h1; subst h2
          cases e <;> simp only
          · exact hO _ _ _ _ _ _ _
          all_goals exact fil_leaf _ _ _ _

end fi

theorem fi_mutual (env : Env) : ∀ f,
    (∀ limit flt hd r, FIv (parseVariant env f limit flt hd r) (parseVariant env f limit .all true r)) ∧
    (∀ limit ef ha n r acc acc', FIl (readArray env f limit ef ha n r acc) (readArray env f limit .all true n r acc')) ∧
    (∀ limit flt ho n r ms ms', FIl (readObject env f limit flt ho n r ms) (readObject env f limit .all true n r ms')) := by
  intro f
  induction f with
  | zero =>
    refine ⟨?_, ?_, ?_⟩
    · intro limit flt hd r; simp only [parseVariant]; exact Or.inr rfl
    · intro limit ef ha n r acc acc'; simp only [readArray]; exact Or.inr rfl
    · intro limit flt ho n r ms ms'; simp only [readObject]; exact Or.inr rfl
  | succ f ih =>
    obtain ⟨ihV, ihA, ihO⟩ := ih
    refine ⟨?_, ?_, ?_⟩
    · intro limit flt hd r
      rw [pv_succ, pv_succ]
      generalize r.read = x
      obtain ⟨o, r1⟩ := x
      cases o with
      | none => exact Or.inr rfl
      | some c => exact fi_pvAfter ihA ihO limit flt hd c r1
    · intro limit ef ha n r acc acc'
      rw [ra_succ_eq, ra_succ_eq]
      refine fil_ite (fun _ => fil_leaf _ _ _ _) (fun _ => ?_)
      simp only [show (true && Flt.all.allow) = true from rfl]
      have hv := ihV limit ef (ha && ef.allow) r
      generalize parseVariant env f limit ef (ha && ef.allow) r = xa at hv
      generalize parseVariant env f limit .all true r = xb at hv
      obtain ⟨e, v, r3, b⟩ := xa
      obtain ⟨e', v', r3', b'⟩ := xb
      rcases hv with h | h
      · simp only at h
        subst h
        exact Or.inl rfl
      · simp only [CRv, Prod.mk.injEq] at h
        obtain ⟨h1, h2, _⟩ := h
        subst h1; subst h2
        cases e <;> simp only
        · exact ihA _ _ _ _ _ _ _
        all_goals exact fil_leaf _ _ _ _
    · intro limit flt ho n r ms ms'
      rw [ro_succ_eq, ro_succ_eq]
      refine fil_ite (fun _ => fil_leaf _ _ _ _) (fun _ => ?_)
      generalize r.read = x
      obtain ⟨o, r1⟩ := x
      cases o with
      | none => exact fil_leaf _ _ _ _
      | some c => exact fi_roTail ihV ihO limit flt ho n ms ms' _

/-! ## the key of a member -/
theorem keyLenOf_fix (c : Nat) (r : R) (h1 : 0xa0 ≤ c) (h2 : c ≤ 0xbf) :
    keyLenOf c r = (some (some (c - 0xa0)), r) := by
  unfold keyLenOf
  have e1 : (c / 32 == 5) = true := by apply bT; omega
  have e2 : c % 32 = c - 0xa0 := by omega
  rw [if_pos e1, e2]

theorem keyLenOf_sized (c j : Nat) (hb t : List Byte) (p : Nat) (hc : c = 0xd9 + j) (hj : j < 3)
    (hl : hb.length = 2^j) : keyLenOf c ⟨hb ++ t, p⟩ = (some (some (beNat hb)), ⟨t, p + 2^j⟩) := by
  unfold keyLenOf
  have e1 : (c / 32 == 5) = false := by apply bF; omega
  have e2 : (decide (0xd9 ≤ c) && decide (c ≤ 0xdb)) = true := by rw [dT (by omega), dT (by omega)]; rfl
  have e3 : c - 0xd9 = j := by omega
  rw [if_neg (by rw [e1]; exact Bool.false_ne_true), if_pos e2, e3, readBytes_app hb t p _ hl]

theorem keyLenOf_other (c : Nat) (r : R) (h1 : ¬ (0xa0 ≤ c ∧ c ≤ 0xbf)) (h2 : ¬ (0xd9 ≤ c ∧ c ≤ 0xdb)) :
    keyLenOf c r = (none, r) := by
  unfold keyLenOf
  have e1 : (c / 32 == 5) = false := by apply bF; omega
  have e2 : (decide (0xd9 ≤ c) && decide (c ≤ 0xdb)) = false := by
    rcases Nat.lt_or_ge c 0xd9 with h | h
    · rw [dF (show ¬ 0xd9 ≤ c by omega)]; rfl
    · rw [dF (show ¬ c ≤ 0xdb by omega)]; simp
  rw [if_neg (by rw [e1]; exact Bool.false_ne_true), if_neg (by rw [e2]; exact Bool.false_ne_true)]

/-- a byte that does not start a str where a key is expected: InvalidInput after that byte (any filter, any limit) -/
theorem ro_bad_key (env : Env) (fuel limit : Nat) (flt : Flt) (ho : Bool) (n : Nat) (c : Byte) (rest : List Byte) (p : Nat)
    (ms : List (List Byte × Val)) (h1 : ¬ (0xa0 ≤ c.toNat ∧ c.toNat ≤ 0xbf)) (h2 : ¬ (0xd9 ≤ c.toNat ∧ c.toNat ≤ 0xdb)) :
    readObject env (fuel+1) limit flt ho (n+1) ⟨c :: rest, p⟩ ms = (.invalid, ms, ⟨rest, p+1⟩) := by
  rw [ro_succ_eq, if_neg (by simp), read_cons]
  simp only
  rw [keyLenOf_other _ _ h1 h2]
  rfl

/-- reading a key written by the serializer, whatever the value parser then does -/
theorem ro_key (env : Env) (fuel limit : Nat) (p n : Nat) (k t : List Byte) (ms : List (List Byte × Val))
    (hm : k.length ≤ env.maxStrLen) (h32 : k.length < 2^32) :
    readObject env (fuel+1) limit .all true (n+1) ⟨(strHdr k.length ++ k) ++ t, p⟩ ms
      = roVal (parseVariant env fuel) (readObject env fuel) limit .all true (n+1) ms k
          ⟨t, p + (strHdr k.length ++ k).length⟩ := by
  rw [ro_succ_eq, if_neg (by simp)]
  rcases Nat.lt_or_ge k.length 0x20 with h1 | h1
  · have e : strHdr k.length = [UInt8.ofNat (0xA0 + k.length)] := by unfold strHdr; rw [if_pos h1]
    rw [e]
    simp only [List.cons_append, List.nil_append, read_cons]
    have hc : (UInt8.ofNat (0xA0 + k.length)).toNat = 0xA0 + k.length := ofNat_toNat _ (by omega)
    rw [keyLenOf_fix _ _ (by omega) (by omega), hc]
    simp only [roTail]
    rw [if_neg (by omega), readBytes_app k t _ _ (by omega)]
    have hp : p + 1 + (0xA0 + k.length - 0xa0) = p + (UInt8.ofNat (0xA0 + k.length) :: k).length := by
      simp only [List.length_cons]; omega
    rw [hp]
  · rcases Nat.lt_or_ge k.length 0x100 with h2 | h2
    · have e : strHdr k.length = 0xD9 :: beN 1 k.length := by
        unfold strHdr; rw [if_neg (by omega), if_pos h2]
      rw [e]
      simp only [List.cons_append, List.append_assoc, read_cons]
      rw [keyLenOf_sized (UInt8.toNat 0xD9) 0 (beN 1 k.length) (k ++ t) (p+1) rfl (by omega) (beN_length _ _),
        beNat_beN1 _ (by omega)]
      simp only [roTail]
      rw [if_neg (by omega), readBytes_app k t _ _ rfl]
      have hp : p + 1 + 2^0 + k.length = p + (0xD9 :: (beN 1 k.length ++ k)).length := by
        simp only [List.length_cons, List.length_append, beN_length]; omega
      rw [hp]
    · rcases Nat.lt_or_ge k.length 0x10000 with h3 | h3
      · have e : strHdr k.length = 0xDA :: beN 2 k.length := by
          unfold strHdr; rw [if_neg (by omega), if_neg (by omega), if_pos h3]
        rw [e]
        simp only [List.cons_append, List.append_assoc, read_cons]
        rw [keyLenOf_sized (UInt8.toNat 0xDA) 1 (beN 2 k.length) (k ++ t) (p+1) rfl (by omega) (beN_length _ _),
          beNat_beN2 _ (by omega)]
        simp only [roTail]
        rw [if_neg (by omega), readBytes_app k t _ _ rfl]
        have hp : p + 1 + 2^1 + k.length = p + (0xDA :: (beN 2 k.length ++ k)).length := by
          simp only [List.length_cons, List.length_append, beN_length]; omega
        rw [hp]
      · have e : strHdr k.length = 0xDB :: beN 4 k.length := by
          unfold strHdr; rw [if_neg (by omega), if_neg (by omega), if_neg (by omega)]
        rw [e]
        simp only [List.cons_append, List.append_assoc, read_cons]
        rw [keyLenOf_sized (UInt8.toNat 0xDB) 2 (beN 4 k.length) (k ++ t) (p+1) rfl (by omega) (beN_length _ _),
          beNat_beN4 _ (by omega)]
        simp only [roTail]
        rw [if_neg (by omega), readBytes_app k t _ _ rfl]
        have hp : p + 1 + 2^2 + k.length = p + (0xDB :: (beN 4 k.length ++ k)).length := by
          simp only [List.length_cons, List.length_append, beN_length]; omega
        rw [hp]

/-! ## well-formed encodings in any legal width (str / bin / ext / fixext / containers), accepted by the reader -/

set_option maxRecDepth 8000 in
/-- bin 8 / 16 / 32 -/
theorem pv_bin (env : Env) (fuel limit : Nat) (rest : List Byte) (p : Nat) (code : Byte) (j : Nat) (hj : j < 3)
    (hcode : code.toNat = 0xc4 + j) (hb s : List Byte) (hl : hb.length = 2^j)
    (hn : beNat hb = s.length) (hm : 1 + 2^j + s.length ≤ env.maxStrLen) :
    parseVariant env (fuel+1) limit .all true ⟨code :: (hb ++ (s ++ rest)), p⟩
      = (.ok, .raw (code :: hb ++ s), ⟨rest, p + 1 + 2^j + s.length⟩, true) := by
  obtain rfl | rfl | rfl : j = 0 ∨ j = 1 ∨ j = 2 := by omega
  all_goals
    pv_start
    generalize code.toNat = n at *
    simp only [Nat.reducePow] at hl hm ⊢
    cond_simp
    rw [readBytes_app hb _ (p+1) _ hl]
    simp only [hn]
    cond_simp
    rw [readBytes_app s rest _ _ rfl]

set_option maxRecDepth 8000 in
/-- ext 8 / 16 / 32: the payload `pl` is the type byte followed by the data -/
theorem pv_ext (env : Env) (fuel limit : Nat) (rest : List Byte) (p : Nat) (code : Byte) (j : Nat) (hj : j < 3)
    (hcode : code.toNat = 0xc7 + j) (hb pl : List Byte) (hl : hb.length = 2^j)
    (hn : pl.length = beNat hb + 1) (hm : 1 + 2^j + pl.length ≤ env.maxStrLen) :
    parseVariant env (fuel+1) limit .all true ⟨code :: (hb ++ (pl ++ rest)), p⟩
      = (.ok, .raw (code :: hb ++ pl), ⟨rest, p + 1 + 2^j + pl.length⟩, true) := by
  obtain rfl | rfl | rfl : j = 0 ∨ j = 1 ∨ j = 2 := by omega
  all_goals
    pv_start
    generalize code.toNat = n at *
    simp only [Nat.reducePow] at hl hm ⊢
    cond_simp
    rw [readBytes_app hb _ (p+1) _ hl]
    simp only [← hn]
    cond_simp
    rw [readBytes_app pl rest _ _ rfl]

set_option maxRecDepth 8000 in
/-- fixext 1 / 2 / 4 / 8 / 16 -/
theorem pv_fixext (env : Env) (fuel limit : Nat) (rest : List Byte) (p : Nat) (code : Byte) (j : Nat) (hj : j < 5)
    (hcode : code.toNat = 0xd4 + j) (pl : List Byte)
    (hn : pl.length = 2^j + 1) (hm : 1 + pl.length ≤ env.maxStrLen) :
    parseVariant env (fuel+1) limit .all true ⟨code :: (pl ++ rest), p⟩
      = (.ok, .raw (code :: pl), ⟨rest, p + 1 + pl.length⟩, true) := by
  pv_start
  generalize code.toNat = n at *
  have e1 : n - 0xd4 = j := by omega
  cond_simp
  simp only [e1, ← hn]
  cond_simp
  rw [readBytes_app pl rest _ _ rfl]
  simp

/-- one value without children, in any legal width, within the limits of the reader -/
inductive LeafEnc (env : Env) : List Byte → Prop
  | posfix (c : Byte) : c.toNat ≤ 0x7f → LeafEnc env [c]
  | negfix (c : Byte) : 0xe0 ≤ c.toNat → LeafEnc env [c]
  | nil : LeafEnc env [0xC0]
  | bool (b : Bool) : LeafEnc env [if b then 0xC3 else 0xC2]
  | int (code : Byte) (bs : List Byte) : 0xcc ≤ code.toNat → code.toNat ≤ 0xd3 →
      bs.length = 2^((code.toNat - 0xcc) % 4) → LeafEnc env (code :: bs)
  | f32 (bs : List Byte) : bs.length = 4 → LeafEnc env (0xCA :: bs)
  | f64 (bs : List Byte) : bs.length = 8 → LeafEnc env (0xCB :: bs)
  | fixstr (c : Byte) (s : List Byte) : c.toNat = 0xa0 + s.length → s.length < 32 → s.length ≤ env.maxStrLen →
      LeafEnc env (c :: s)
  | str8 (hb s : List Byte) : hb.length = 1 → beNat hb = s.length → s.length ≤ env.maxStrLen →
      LeafEnc env (0xD9 :: (hb ++ s))
  | str16 (hb s : List Byte) : hb.length = 2 → beNat hb = s.length → s.length ≤ env.maxStrLen →
      LeafEnc env (0xDA :: (hb ++ s))
  | str32 (hb s : List Byte) : hb.length = 4 → beNat hb = s.length → s.length ≤ env.maxStrLen →
      LeafEnc env (0xDB :: (hb ++ s))
  | bin (code : Byte) (j : Nat) (hb s : List Byte) : j < 3 → code.toNat = 0xc4 + j → hb.length = 2^j →
      beNat hb = s.length → 1 + 2^j + s.length ≤ env.maxStrLen → LeafEnc env (code :: (hb ++ s))
  | ext (code : Byte) (j : Nat) (hb pl : List Byte) : j < 3 → code.toNat = 0xc7 + j → hb.length = 2^j →
      pl.length = beNat hb + 1 → 1 + 2^j + pl.length ≤ env.maxStrLen → LeafEnc env (code :: (hb ++ pl))
  | fixext (code : Byte) (j : Nat) (pl : List Byte) : j < 5 → code.toNat = 0xd4 + j →
      pl.length = 2^j + 1 → 1 + pl.length ≤ env.maxStrLen → LeafEnc env (code :: pl)

inductive ArrHdr : List Byte → Nat → Prop
  | fix (c : Byte) (n : Nat) : c.toNat = 0x90 + n → n < 16 → ArrHdr [c] n
  | a16 (hb : List Byte) (n : Nat) : hb.length = 2 → beNat hb = n → ArrHdr (0xDC :: hb) n
  | a32 (hb : List Byte) (n : Nat) : hb.length = 4 → beNat hb = n → ArrHdr (0xDD :: hb) n

inductive MapHdr : List Byte → Nat → Prop
  | fix (c : Byte) (n : Nat) : c.toNat = 0x80 + n → n < 16 → MapHdr [c] n
  | m16 (hb : List Byte) (n : Nat) : hb.length = 2 → beNat hb = n → MapHdr (0xDE :: hb) n
  | m32 (hb : List Byte) (n : Nat) : hb.length = 4 → beNat hb = n → MapHdr (0xDF :: hb) n

/-- a map key: fixstr or str 8 / 16 / 32 -/
inductive KeyEnc (env : Env) : List Byte → Prop
  | fix (c : Byte) (k : List Byte) : c.toNat = 0xa0 + k.length → k.length < 32 → k.length ≤ env.maxStrLen →
      KeyEnc env (c :: k)
  | sized (code : Byte) (j : Nat) (hb k : List Byte) : j < 3 → code.toNat = 0xd9 + j → hb.length = 2^j →
      beNat hb = k.length → k.length ≤ env.maxStrLen → KeyEnc env (code :: (hb ++ k))

/-- `Enc env d e`: `e` is the MessagePack encoding of one value, any legal width at every place, at most `d` containers deep,
    strings / binaries / keys within `env.maxStrLen` -/
inductive Enc (env : Env) : Nat → List Byte → Prop
  | leaf {d : Nat} {e : List Byte} : LeafEnc env e → Enc env d e
  | arr {d : Nat} (hdr : List Byte) (es : List (List Byte)) : ArrHdr hdr es.length → (∀ e ∈ es, Enc env d e) →
      Enc env (d + 1) (hdr ++ es.flatten)
  | map {d : Nat} (hdr : List Byte) (kvs : List (List Byte × List Byte)) : MapHdr hdr kvs.length →
      (∀ kv ∈ kvs, KeyEnc env kv.1) → (∀ kv ∈ kvs, Enc env d kv.2) →
      Enc env (d + 1) (hdr ++ (kvs.map (fun kv => kv.1 ++ kv.2)).flatten)

theorem leaf_accept {env : Env} {e : List Byte} (h : LeafEnc env e) (fuel limit : Nat) (rest : List Byte) (p : Nat) :
    ∃ v, parseVariant env (fuel+1) limit .all true ⟨e ++ rest, p⟩ = (.ok, v, ⟨rest, p + e.length⟩, true) := by
  cases h with
  | posfix c hc => exact ⟨_, pv_posfix env fuel limit rest p c hc⟩
  | negfix c hc => exact ⟨_, pv_negfix env fuel limit rest p c hc⟩
  | nil => exact ⟨_, pv_null env fuel limit rest p⟩
  | bool b => exact ⟨_, pv_bool env fuel limit rest p b⟩
  | int code bs h1 h2 h3 =>
    have hp : p + (code :: bs).length = p + 1 + bs.length := by simp only [List.length_cons]; omega
    rw [hp, List.cons_append]
    exact ⟨_, pv_int env fuel limit rest p code _ rfl _ bs h1 h2 rfl h3⟩
  | f32 bs h1 =>
    have hp : p + (0xCA :: bs).length = p + 5 := by simp only [List.length_cons, h1]
    rw [hp, List.cons_append]
    exact ⟨_, pv_f32 env fuel limit rest p bs h1⟩
  | f64 bs h1 =>
    have hp : p + (0xCB :: bs).length = p + 9 := by simp only [List.length_cons, h1]
    rw [hp, List.cons_append]
    exact ⟨_, pv_f64 env fuel limit rest p bs h1⟩
  | fixstr c s h1 h2 h3 =>
    have hp : p + (c :: s).length = p + 1 + s.length := by simp only [List.length_cons]; omega
    rw [hp, List.cons_append]
    exact ⟨_, pv_fixstr env fuel limit rest p c s h1 h2 h3⟩
  | str8 hb s h1 h2 h3 =>
    have hp : p + (0xD9 :: (hb ++ s)).length = p + 2 + s.length := by
      simp only [List.length_cons, List.length_append, h1]; omega
    rw [hp, List.cons_append, List.append_assoc]
    exact ⟨_, pv_str8 env fuel limit rest p hb s h1 h2 h3⟩
  | str16 hb s h1 h2 h3 =>
    have hp : p + (0xDA :: (hb ++ s)).length = p + 3 + s.length := by
      simp only [List.length_cons, List.length_append, h1]; omega
    rw [hp, List.cons_append, List.append_assoc]
    exact ⟨_, pv_str16 env fuel limit rest p hb s h1 h2 h3⟩
  | str32 hb s h1 h2 h3 =>
    have hp : p + (0xDB :: (hb ++ s)).length = p + 5 + s.length := by
      simp only [List.length_cons, List.length_append, h1]; omega
    rw [hp, List.cons_append, List.append_assoc]
    exact ⟨_, pv_str32 env fuel limit rest p hb s h1 h2 h3⟩
  | bin code j hb s h1 h2 h3 h4 h5 =>
    have hp : p + (code :: (hb ++ s)).length = p + 1 + 2^j + s.length := by
      simp only [List.length_cons, List.length_append, h3]; omega
    rw [hp, List.cons_append, List.append_assoc]
    exact ⟨_, pv_bin env fuel limit rest p code j h1 h2 hb s h3 h4 h5⟩
  | ext code j hb pl h1 h2 h3 h4 h5 =>
    have hp : p + (code :: (hb ++ pl)).length = p + 1 + 2^j + pl.length := by
      simp only [List.length_cons, List.length_append, h3]; omega
    rw [hp, List.cons_append, List.append_assoc]
    exact ⟨_, pv_ext env fuel limit rest p code j h1 h2 hb pl h3 h4 h5⟩
  | fixext code j pl h1 h2 h3 h4 =>
    have hp : p + (code :: pl).length = p + 1 + pl.length := by simp only [List.length_cons]; omega
    rw [hp, List.cons_append]
    exact ⟨_, pv_fixext env fuel limit rest p code j h1 h2 pl h3 h4⟩

theorem leaf_nonempty {env : Env} {e : List Byte} (h : LeafEnc env e) : 1 ≤ e.length := by
  cases h <;> simp

theorem arrHdr_accept {hdr : List Byte} {n : Nat} (h : ArrHdr hdr n) (env : Env) (fuel limit : Nat) (t : List Byte)
    (p : Nat) :
    parseVariant env (fuel+1) (limit+1) .all true ⟨hdr ++ t, p⟩
      = arrResult (readArray env fuel limit .all true n ⟨t, p + hdr.length⟩ []) := by
  cases h with
  | fix c n h1 h2 => exact pv_fixarr env fuel limit p c n t h1 h2
  | a16 hb n h1 h2 =>
    rw [List.cons_append, pv_arr16 env fuel limit p hb t n h1 h2]
    simp only [List.length_cons, h1]
  | a32 hb n h1 h2 =>
    rw [List.cons_append, pv_arr32 env fuel limit p hb t n h1 h2]
    simp only [List.length_cons, h1]

theorem mapHdr_accept {hdr : List Byte} {n : Nat} (h : MapHdr hdr n) (env : Env) (fuel limit : Nat) (t : List Byte)
    (p : Nat) :
    parseVariant env (fuel+1) (limit+1) .all true ⟨hdr ++ t, p⟩
      = objResult (readObject env fuel limit .all true n ⟨t, p + hdr.length⟩ []) := by
  cases h with
  | fix c n h1 h2 => exact pv_fixmap env fuel limit p c n t h1 h2
  | m16 hb n h1 h2 =>
    rw [List.cons_append, pv_map16 env fuel limit p hb t n h1 h2]
    simp only [List.length_cons, h1]
  | m32 hb n h1 h2 =>
    rw [List.cons_append, pv_map32 env fuel limit p hb t n h1 h2]
    simp only [List.length_cons, h1]

theorem arrHdr_nonempty {hdr : List Byte} {n : Nat} (h : ArrHdr hdr n) : 1 ≤ hdr.length := by cases h <;> simp
theorem mapHdr_nonempty {hdr : List Byte} {n : Nat} (h : MapHdr hdr n) : 1 ≤ hdr.length := by cases h <;> simp

/-- reading a key in any legal width, the value being accepted -/
theorem ro_key_any {env : Env} {kb : List Byte} (hk : KeyEnc env kb) (fuel limit p n : Nat) (t : List Byte)
    (ms : List (List Byte × Val)) (v : Val) (r' : R) (b : Bool)
    (h : parseVariant env fuel limit .all true ⟨t, p + kb.length⟩ = (.ok, v, r', b)) :
    ∃ k, readObject env (fuel+1) limit .all true (n+1) ⟨kb ++ t, p⟩ ms
      = readObject env fuel limit .all true n r' (ms ++ [(k, v)]) := by
  cases hk with
  | fix c k h1 h2 h3 =>
    refine ⟨k, ?_⟩
    rw [List.cons_append]
    refine ro_key_fix env fuel limit p n c k t ms v r' b h1 h2 h3 ?_
    rw [← h]; simp only [List.length_cons, Nat.add_assoc, Nat.add_comm 1]
  | sized code j hb k h1 h2 h3 h4 h5 =>
    refine ⟨k, ?_⟩
    rw [List.cons_append, List.append_assoc]
    refine ro_key_sized env fuel limit p n code _ j rfl h2 h1 hb k t ms v r' b h3 h4 h5 ?_
    rw [← h]; simp only [List.length_cons, List.length_append, h3]
    congr 2; omega

theorem keyEnc_nonempty {env : Env} {kb : List Byte} (h : KeyEnc env kb) : 1 ≤ kb.length := by cases h <;> simp

theorem enc_nonempty {env : Env} {d : Nat} {e : List Byte} (h : Enc env d e) : 1 ≤ e.length := by
  cases h with
  | leaf hl => exact leaf_nonempty hl
  | arr hdr es hh _ => have := arrHdr_nonempty hh; simp only [List.length_append]; omega
  | map hdr kvs hh _ _ => have := mapHdr_nonempty hh; simp only [List.length_append]; omega

/-- the acceptance statement for one encoding -/
def Accepted (env : Env) (d : Nat) (e : List Byte) : Prop :=
  ∀ fuel limit rest p, d ≤ limit → 2 * e.length ≤ fuel →
    ∃ v, parseVariant env fuel limit .all true ⟨e ++ rest, p⟩ = (.ok, v, ⟨rest, p + e.length⟩, true)

theorem ra_all (env : Env) (d l : Nat) (hdl : d ≤ l) (rest : List Byte) : ∀ (es : List (List Byte)),
    (∀ e ∈ es, 1 ≤ e.length ∧ Accepted env d e) → ∀ (g q : Nat) (acc : List Val), 2 * es.flatten.length + 1 ≤ g →
    ∃ vs, readArray env g l .all true es.length ⟨es.flatten ++ rest, q⟩ acc = (.ok, vs, ⟨rest, q + es.flatten.length⟩) := by
  intro es
  induction es with
  | nil =>
    intro _ g q acc hg
    obtain ⟨g', rfl⟩ : ∃ g', g = g' + 1 := ⟨g - 1, by omega⟩
    exact ⟨_, by simpa using ra_zero env g' l ⟨rest, q⟩ acc⟩
  | cons e r ih =>
    intro hes g q acc hg
    obtain ⟨he1, heA⟩ := hes e (List.mem_cons_self ..)
    simp only [List.flatten_cons, List.length_append] at hg
    obtain ⟨g', rfl⟩ : ∃ g', g = g' + 1 := ⟨g - 1, by omega⟩
    obtain ⟨v, hv⟩ := heA g' l (r.flatten ++ rest) q hdl (by omega)
    obtain ⟨vs, hvs⟩ := ih (fun e' he' => hes e' (List.mem_cons_of_mem _ he')) g' (q + e.length) (v :: acc) (by omega)
    refine ⟨vs, ?_⟩
    simp only [List.flatten_cons, List.length_cons, List.append_assoc, List.length_append]
    rw [ra_succ env g' l r.length _ _ acc _ _ hv, hvs, Nat.add_assoc]

theorem ro_all (env : Env) (d l : Nat) (hdl : d ≤ l) (rest : List Byte) : ∀ (kvs : List (List Byte × List Byte)),
    (∀ kv ∈ kvs, KeyEnc env kv.1) → (∀ kv ∈ kvs, 1 ≤ kv.2.length ∧ Accepted env d kv.2) →
    ∀ (g q : Nat) (acc : List (List Byte × Val)), 2 * (kvs.map (fun kv => kv.1 ++ kv.2)).flatten.length + 1 ≤ g →
    ∃ ms, readObject env g l .all true kvs.length ⟨(kvs.map (fun kv => kv.1 ++ kv.2)).flatten ++ rest, q⟩ acc
      = (.ok, ms, ⟨rest, q + (kvs.map (fun kv => kv.1 ++ kv.2)).flatten.length⟩) := by
  intro kvs
  induction kvs with
  | nil =>
    intro _ _ g q acc hg
    obtain ⟨g', rfl⟩ : ∃ g', g = g' + 1 := ⟨g - 1, by omega⟩
    exact ⟨_, by simpa using ro_zero env g' l ⟨rest, q⟩ acc⟩
  | cons kv r ih =>
    intro hks hvs g q acc hg
    obtain ⟨kb, vb⟩ := kv
    have hk := hks (kb, vb) (List.mem_cons_self ..)
    obtain ⟨he1, heA⟩ := hvs (kb, vb) (List.mem_cons_self ..)
    have hk1 := keyEnc_nonempty hk
    simp only [List.map_cons, List.flatten_cons, List.length_append] at hg he1 heA
    obtain ⟨g', rfl⟩ : ∃ g', g = g' + 1 := ⟨g - 1, by omega⟩
    obtain ⟨v, hv⟩ := heA g' l ((r.map (fun kv => kv.1 ++ kv.2)).flatten ++ rest) (q + kb.length) hdl (by omega)
    obtain ⟨k, hkk⟩ := ro_key_any hk g' l q r.length (vb ++ ((r.map (fun kv => kv.1 ++ kv.2)).flatten ++ rest)) acc v _ _ hv
    obtain ⟨ms, hms⟩ := ih (fun kv' h' => hks kv' (List.mem_cons_of_mem _ h'))
      (fun kv' h' => hvs kv' (List.mem_cons_of_mem _ h')) g' (q + kb.length + vb.length) (acc ++ [(k, v)]) (by omega)
    refine ⟨ms, ?_⟩
    simp only [List.map_cons, List.flatten_cons, List.length_cons, List.append_assoc, List.length_append]
    rw [hkk, hms]
    simp only [Nat.add_assoc]

/-- every well-formed encoding is accepted: Ok, exactly its bytes consumed, whatever follows -/
theorem enc_accept {env : Env} {d : Nat} {e : List Byte} (h : Enc env d e) : Accepted env d e := by
  induction h with
  | @leaf d e hl =>
    intro fuel limit rest p _ hf
    have := leaf_nonempty hl
    obtain ⟨f', rfl⟩ : ∃ f', fuel = f' + 1 := ⟨fuel - 1, by omega⟩
    exact leaf_accept hl f' limit rest p
  | @arr d hdr es hh hes ih =>
    intro fuel limit rest p hd hf
    have h1 := arrHdr_nonempty hh
    simp only [List.length_append] at hf
    obtain ⟨f', rfl⟩ : ∃ f', fuel = f' + 1 := ⟨fuel - 1, by omega⟩
    obtain ⟨l, rfl⟩ : ∃ l, limit = l + 1 := ⟨limit - 1, by omega⟩
    obtain ⟨vs, hvs⟩ := ra_all env d l (by omega) rest es (fun e he => ⟨enc_nonempty (hes e he), ih e he⟩) f'
      (p + hdr.length) [] (by omega)
    refine ⟨.arr vs, ?_⟩
    rw [List.append_assoc, arrHdr_accept hh, hvs]
    simp only [arrResult, List.length_append, Nat.add_assoc]
  | @map d hdr kvs hh hks hes ih =>
    intro fuel limit rest p hd hf
    have h1 := mapHdr_nonempty hh
    simp only [List.length_append] at hf
    obtain ⟨f', rfl⟩ : ∃ f', fuel = f' + 1 := ⟨fuel - 1, by omega⟩
    obtain ⟨l, rfl⟩ : ∃ l, limit = l + 1 := ⟨limit - 1, by omega⟩
    obtain ⟨ms, hms⟩ := ro_all env d l (by omega) rest kvs hks (fun kv he => ⟨enc_nonempty (hes kv he), ih kv he⟩) f'
      (p + hdr.length) [] (by omega)
    refine ⟨.obj ms, ?_⟩
    rw [List.append_assoc, mapHdr_accept hh, hms]
    simp only [objResult, List.length_append, Nat.add_assoc]

/-- reading a key in any legal width, whatever the value parser then does -/
theorem ro_key_enc {env : Env} {kb : List Byte} (hk : KeyEnc env kb) (fuel limit p n : Nat) (t : List Byte)
    (ms : List (List Byte × Val)) :
    ∃ k, readObject env (fuel+1) limit .all true (n+1) ⟨kb ++ t, p⟩ ms
      = roVal (parseVariant env fuel) (readObject env fuel) limit .all true (n+1) ms k ⟨t, p + kb.length⟩ := by
  cases hk with
  | fix c k h1 h2 h3 =>
    refine ⟨k, ?_⟩
    rw [List.cons_append, ro_succ_eq, if_neg (by simp), read_cons]
    simp only
    rw [keyLenOf_fix c.toNat _ (by omega) (by omega)]
    simp only [roTail]
    rw [if_neg (by omega), readBytes_app k t _ _ (by omega)]
    have hp : p + 1 + (c.toNat - 0xa0) = p + (c :: k).length := by simp only [List.length_cons]; omega
    rw [hp]
  | sized code j hb k h1 h2 h3 h4 h5 =>
    refine ⟨k, ?_⟩
    rw [List.cons_append, List.append_assoc, ro_succ_eq, if_neg (by simp), read_cons]
    simp only
    rw [keyLenOf_sized code.toNat j hb (k ++ t) (p+1) h2 h1 h3, h4]
    simp only [roTail]
    rw [if_neg (by omega), readBytes_app k t _ _ rfl]
    have hp : p + 1 + 2^j + k.length = p + (code :: (hb ++ k)).length := by
      simp only [List.length_cons, List.length_append, h3]; omega
    rw [hp]

/-- `readArray` over complete elements (any legal width), something else following -/
theorem ra_prefix_enc (env : Env) (d l : Nat) (hdl : d ≤ l) (tail : List Byte) : ∀ (es : List (List Byte)),
    (∀ e ∈ es, 1 ≤ e.length ∧ Accepted env d e) → ∀ (g n q : Nat) (acc : List Val), 2 * es.flatten.length + 1 ≤ g →
    es.length ≤ n →
    ∃ acc', readArray env g l .all true n ⟨es.flatten ++ tail, q⟩ acc
      = readArray env (g - es.length) l .all true (n - es.length) ⟨tail, q + es.flatten.length⟩ acc' := by
  intro es
  induction es with
  | nil => intro _ g n q acc _ _; exact ⟨acc, by simp⟩
  | cons e r ih =>
    intro hes g n q acc hg hn
    obtain ⟨he1, heA⟩ := hes e (List.mem_cons_self ..)
    simp only [List.flatten_cons, List.length_append, List.length_cons] at hg hn
    obtain ⟨g', rfl⟩ : ∃ g', g = g' + 1 := ⟨g - 1, by omega⟩
    obtain ⟨n', rfl⟩ : ∃ n', n = n' + 1 := ⟨n - 1, by omega⟩
    obtain ⟨v, hv⟩ := heA g' l (r.flatten ++ tail) q hdl (by omega)
    obtain ⟨acc', hacc⟩ := ih (fun e' he' => hes e' (List.mem_cons_of_mem _ he')) g' n' (q + e.length) (v :: acc)
      (by omega) (by omega)
    refine ⟨acc', ?_⟩
    simp only [List.flatten_cons, List.length_cons, List.append_assoc, List.length_append]
    rw [ra_succ env g' l n' _ _ acc _ _ hv, hacc, Nat.add_assoc, Nat.add_sub_add_right, Nat.add_sub_add_right]

/-- `readObject` over complete members (any legal width), something else following -/
theorem ro_prefix_enc (env : Env) (d l : Nat) (hdl : d ≤ l) (tail : List Byte) :
    ∀ (kvs : List (List Byte × List Byte)),
    (∀ kv ∈ kvs, KeyEnc env kv.1) → (∀ kv ∈ kvs, 1 ≤ kv.2.length ∧ Accepted env d kv.2) →
    ∀ (g n q : Nat) (acc : List (List Byte × Val)), 2 * (kvs.map (fun kv => kv.1 ++ kv.2)).flatten.length + 1 ≤ g →
    kvs.length ≤ n →
    ∃ acc', readObject env g l .all true n ⟨(kvs.map (fun kv => kv.1 ++ kv.2)).flatten ++ tail, q⟩ acc
      = readObject env (g - kvs.length) l .all true (n - kvs.length)
          ⟨tail, q + (kvs.map (fun kv => kv.1 ++ kv.2)).flatten.length⟩ acc' := by
  intro kvs
  induction kvs with
  | nil => intro _ _ g n q acc _ _; exact ⟨acc, by simp⟩
  | cons kv r ih =>
    intro hks hvs g n q acc hg hn
    obtain ⟨kb, vb⟩ := kv
    have hk := hks (kb, vb) (List.mem_cons_self ..)
    obtain ⟨he1, heA⟩ := hvs (kb, vb) (List.mem_cons_self ..)
    have hk1 := keyEnc_nonempty hk
    simp only [List.map_cons, List.flatten_cons, List.length_append, List.length_cons] at hg hn he1 heA
    obtain ⟨g', rfl⟩ : ∃ g', g = g' + 1 := ⟨g - 1, by omega⟩
    obtain ⟨n', rfl⟩ : ∃ n', n = n' + 1 := ⟨n - 1, by omega⟩
    obtain ⟨v, hv⟩ := heA g' l ((r.map (fun kv => kv.1 ++ kv.2)).flatten ++ tail) (q + kb.length) hdl (by omega)
    obtain ⟨k, hkk⟩ := ro_key_any hk g' l q n' (vb ++ ((r.map (fun kv => kv.1 ++ kv.2)).flatten ++ tail)) acc v _ _ hv
    obtain ⟨acc', hacc⟩ := ih (fun kv' h' => hks kv' (List.mem_cons_of_mem _ h'))
      (fun kv' h' => hvs kv' (List.mem_cons_of_mem _ h')) g' n' (q + kb.length + vb.length) (acc ++ [(k, v)])
      (by omega) (by omega)
    refine ⟨acc', ?_⟩
    simp only [List.map_cons, List.flatten_cons, List.length_cons, List.append_assoc, List.length_append]
    rw [hkk, hacc]
    simp only [Nat.add_assoc, Nat.add_sub_add_right]

theorem flatten_length_ge (es : List (List Byte)) (h : ∀ e ∈ es, 1 ≤ e.length) : es.length ≤ es.flatten.length := by
  induction es with
  | nil => simp
  | cons e r ih =>
    have h1 := h e (List.mem_cons_self ..)
    have h2 := ih (fun e' he' => h e' (List.mem_cons_of_mem _ he'))
    simp only [List.flatten_cons, List.length_append, List.length_cons]; omega

/-! ## `run` through projections -/
theorem run_proj (env : Env) (L : Nat) (flt : Flt) (q : List Byte) :
    run env L flt q =
      ((if (parseVariant env (2 * q.length + 4) L flt true ⟨q, 0⟩).2.2.2 then
          (parseVariant env (2 * q.length + 4) L flt true ⟨q, 0⟩).1 else .empty),
       (parseVariant env (2 * q.length + 4) L flt true ⟨q, 0⟩).2.1,
       (parseVariant env (2 * q.length + 4) L flt true ⟨q, 0⟩).2.2.1.pos) := by
  simp only [run]

end MD
