/- MessagePack: the filtered deserializer computes the projection of what the unfiltered deserializer computes.
   Step 1 (this file): `MD.parseVariant` factored as a dispatch on the header byte into a dozen small leaves
   (`MD.dispatch`), so that the filtered and the unfiltered run can be compared leaf by leaf. -/
import AJ.Model.MD
import AJ.Spec.Filter
import AJ.Lemmas.ProjectAlg
set_option linter.unusedSimpArgs false
namespace MD
open JD Spec.Filter

def sizeBytesOf (c : Nat) : Nat :=
  if c == 0xc4 || c == 0xc7 || c == 0xd9 then 1
  else if c == 0xc5 || c == 0xc8 || c == 0xda || c == 0xdc || c == 0xde then 2
  else if c == 0xc6 || c == 0xc9 || c == 0xdb || c == 0xdd || c == 0xdf then 4
  else 0

def size0Ext (c : Nat) : Nat × Bool :=
  if 0xd4 ≤ c && c ≤ 0xd8 then (2^(c - 0xd4), true) else (0, 0xc7 ≤ c && c ≤ 0xc9)

/-- size announced by the header byte itself (fixarray, fixmap, fixstr, fixext) -/
def size2Of (c : Nat) : Nat :=
  if c / 32 == 5 then c % 32 else if c / 16 == 9 || c / 16 == 8 then c % 16 else (size0Ext c).1

/-- the size bytes after the header byte -/
def hdrOf_d4 (c : Nat) (r : R) : Option (List Byte × Nat) × R :=
  if sizeBytesOf c > 0 then
    match r.readBytes (sizeBytesOf c) with
    | (some bs, r) => (some (bs, beNat bs), r)
    | (none, r) => (none, r)
  else (some ([], size2Of c), r)

/-- the header-byte dispatch of `parseVariant`, with the filter-dependent leaves abstracted -/
def dispatch {α : Type} (code : Byte) (r : R)
    (kInt : Nat → Nat → α) (kNil kInvalid : α) (kBool : Nat → α) (kF32 kF64 : α) (kFix : Nat → α)
    (kInc : R → α) (kArr kMap kStr : Nat → R → α) (kBin : Nat → Bool → List Byte → Nat → R → α) : α :=
  let c := code.toNat
  if 0xcc ≤ c && c ≤ 0xd3 then kInt (2^((c - 0xcc) % 4)) c
  else if c == 0xc0 then kNil
  else if c == 0xc1 then kInvalid
  else if c == 0xc2 || c == 0xc3 then kBool c
  else if c == 0xca then kF32
  else if c == 0xcb then kF64
  else if c ≤ 0x7f || c ≥ 0xe0 then kFix c
  else
    match hdrOf_d4 c r with
    | (none, r) => kInc r
    | (some (hb, size), r) =>
      if c == 0xdc || c == 0xdd || c / 16 == 9 then kArr size r
      else if c == 0xde || c == 0xdf || c / 16 == 8 then kMap size r
      else if c == 0xd9 || c == 0xda || c == 0xdb || c / 32 == 5 then kStr size r
      else kBin (sizeBytesOf c) (size0Ext c).2 hb size r

abbrev VOut := Code × Val × R × Bool
def finV (e : Code) (v : Val) (r : R) : VOut := (e, v, r, true)

def leafFixed (aV : Bool) (w : Nat) (mk : List Byte → Val) (r : R) : VOut :=
  if aV then
    match r.readBytes w with
    | (some bs, r) => finV .ok (mk bs) r
    | (none, r) => finV .incomplete .null r
  else
    match r.skipBytes w with
    | (true, r) => finV .ok .null r
    | (false, r) => finV .incomplete .null r

set_option maxRecDepth 8000 in
theorem parseVariant_succ (env : Env) (fuel limit : Nat) (flt : Flt) (hasDst : Bool) (r : R) :
    parseVariant env (fuel+1) limit flt hasDst r =
      match r.read with
      | (none, r) => (.incomplete, .null, r, false)
      | (some code, r) =>
        let allowValue := hasDst && flt.allowValue
        dispatch code r
          (fun width c => leafFixed allowValue width (fun bs => readInteger bs (c ≥ 0xd0)) r)
          (finV .ok .null r) (finV .invalid .null r)
          (fun c => finV .ok (if allowValue then .bool (c == 0xc3) else .null) r)
          (leafFixed allowValue 4 (fun bs => .num (.f32 (beNat bs))) r)
          (leafFixed allowValue 8 (fun bs => .num (storeDouble (beNat bs))) r)
          (fun c => finV .ok (if allowValue then .num (.sint (if c ≥ 0x80 then (c : Int) - 256 else c)) else .null) r)
          (fun r => finV .incomplete .null r)
          (fun size r =>
            match limit with
            | 0 => finV .tooDeep .null r
            | limit'+1 =>
              if hasDst && flt.allowArray then
                match readArray env fuel limit' flt.subIdx true size r [] with
                | (e, vs, r) => finV e (.arr vs) r
              else
                match readArray env fuel limit' flt.subIdx false size r [] with
                | (e, _, r) => finV e .null r)
          (fun size r =>
            match limit with
            | 0 => finV .tooDeep .null r
            | limit'+1 =>
              if hasDst && flt.allowObject then
                match readObject env fuel limit' flt true size r [] with
                | (e, ms, r) => finV e (.obj ms) r
              else
                match readObject env fuel limit' flt false size r [] with
                | (e, _, r) => finV e .null r)
          (fun size r =>
            if allowValue then
              if size > env.maxStrLen then finV .noMemory .null r else
              match r.readBytes size with
              | (some bs, r) => finV .ok (.str bs) r
              | (none, r) => finV .incomplete .null r
            else match r.skipBytes size with | (true, r) => finV .ok .null r | (false, r) => finV .incomplete .null r)
          (fun sizeBytes isExt hb size r =>
            let size := if isExt then size + 1 else size
            if allowValue then
              let total := 1 + sizeBytes + size
              if total > env.maxStrLen then finV .noMemory .null r else
              match r.readBytes size with
              | (some bs, r) => finV .ok (.raw (code :: hb ++ bs)) r
              | (none, r) => finV .incomplete .null r
            else match r.skipBytes size with | (true, r) => finV .ok .null r | (false, r) => finV .incomplete .null r) := by
  simp only [parseVariant, dispatch, hdrOf_d4, size2Of, size0Ext, sizeBytesOf, leafFixed, finV]
  rfl

/-- what the header byte (and the size bytes after it) announce -/
inductive Hdr
  | int (w c : Nat) | nil | invalid | bool (c : Nat) | f32 | f64 | fix (c : Nat)
  | inc (r : R) | arr (size : Nat) (r : R) | map (size : Nat) (r : R) | str (size : Nat) (r : R)
  | bin (sizeBytes : Nat) (isExt : Bool) (hb : List Byte) (size : Nat) (r : R)

def classify (code : Byte) (r : R) : Hdr :=
  dispatch code r .int .nil .invalid .bool .f32 .f64 .fix .inc .arr .map .str .bin

theorem dispatch_eq {α : Type} (code : Byte) (r : R)
    (kInt : Nat → Nat → α) (kNil kInvalid : α) (kBool : Nat → α) (kF32 kF64 : α) (kFix : Nat → α)
    (kInc : R → α) (kArr kMap kStr : Nat → R → α) (kBin : Nat → Bool → List Byte → Nat → R → α) :
    dispatch code r kInt kNil kInvalid kBool kF32 kF64 kFix kInc kArr kMap kStr kBin =
      match classify code r with
      | .int w c => kInt w c | .nil => kNil | .invalid => kInvalid | .bool c => kBool c | .f32 => kF32 | .f64 => kF64
      | .fix c => kFix c | .inc r => kInc r | .arr n r => kArr n r | .map n r => kMap n r | .str n r => kStr n r
      | .bin sb ie hb n r => kBin sb ie hb n r := by
  unfold classify dispatch
  simp only []
  by_cases h1 : (decide (204 ≤ code.toNat) && decide (code.toNat ≤ 211)) = true
  · rw [if_pos h1, if_pos h1]
  rw [if_neg h1, if_neg h1]
  by_cases h2 : (code.toNat == 192) = true
  · rw [if_pos h2, if_pos h2]
  rw [if_neg h2, if_neg h2]
  by_cases h3 : (code.toNat == 193) = true
  · rw [if_pos h3, if_pos h3]
  rw [if_neg h3, if_neg h3]
  by_cases h4 : (code.toNat == 194 || code.toNat == 195) = true
  · rw [if_pos h4, if_pos h4]
  rw [if_neg h4, if_neg h4]
  by_cases h5 : (code.toNat == 202) = true
  · rw [if_pos h5, if_pos h5]
  rw [if_neg h5, if_neg h5]
  by_cases h6 : (code.toNat == 203) = true
  · rw [if_pos h6, if_pos h6]
  rw [if_neg h6, if_neg h6]
  by_cases h7 : (decide (code.toNat ≤ 127) || decide (code.toNat ≥ 224)) = true
  · rw [if_pos h7, if_pos h7]
  rw [if_neg h7, if_neg h7]
  generalize hdrOf_d4 code.toNat r = hdr
  obtain ⟨_ | ⟨hb, size⟩, r'⟩ := hdr
  · rfl
  simp only []
  by_cases h8 : (code.toNat == 220 || code.toNat == 221 || code.toNat / 16 == 9) = true
  · rw [if_pos h8, if_pos h8]
  rw [if_neg h8, if_neg h8]
  by_cases h9 : (code.toNat == 222 || code.toNat == 223 || code.toNat / 16 == 8) = true
  · rw [if_pos h9, if_pos h9]
  rw [if_neg h9, if_neg h9]
  by_cases h10 : (code.toNat == 217 || code.toNat == 218 || code.toNat == 219 || code.toNat / 32 == 5) = true
  · rw [if_pos h10, if_pos h10]
  rw [if_neg h10, if_neg h10]


/-! ## the leaves, named -/

def leafSized (aV : Bool) (tooBig : Prop) [Decidable tooBig] (w : Nat) (mk : List Byte → Val) (r : R) : VOut :=
  if aV then
    if tooBig then finV .noMemory .null r else
    match r.readBytes w with
    | (some bs, r) => finV .ok (mk bs) r
    | (none, r) => finV .incomplete .null r
  else
    match r.skipBytes w with
    | (true, r) => finV .ok .null r
    | (false, r) => finV .incomplete .null r

def leafArr (env : Env) (fuel limit : Nat) (flt : Flt) (hasDst : Bool) (size : Nat) (r : R) : VOut :=
  match limit with
  | 0 => finV .tooDeep .null r
  | limit'+1 =>
    if hasDst && flt.allowArray then
      match readArray env fuel limit' flt.subIdx true size r [] with
      | (e, vs, r) => finV e (.arr vs) r
    else
      match readArray env fuel limit' flt.subIdx false size r [] with
      | (e, _, r) => finV e .null r

def leafMap (env : Env) (fuel limit : Nat) (flt : Flt) (hasDst : Bool) (size : Nat) (r : R) : VOut :=
  match limit with
  | 0 => finV .tooDeep .null r
  | limit'+1 =>
    if hasDst && flt.allowObject then
      match readObject env fuel limit' flt true size r [] with
      | (e, ms, r) => finV e (.obj ms) r
    else
      match readObject env fuel limit' flt false size r [] with
      | (e, _, r) => finV e .null r

/-- size of the payload of a bin/ext value: ext carries one more byte (the type) -/
def binSize (isExt : Bool) (size : Nat) : Nat := if isExt then size + 1 else size

/-- what `parseVariant` does once the header is classified; `r0` is the reader after the header byte, the
    readers inside the token are after the size bytes -/
def leafOf (env : Env) (fuel limit : Nat) (flt : Flt) (hasDst : Bool) (code : Byte) (r0 : R) : Hdr → VOut
  | .int w c => leafFixed (hasDst && flt.allowValue) w (fun bs => readInteger bs (c ≥ 0xd0)) r0
  | .nil => finV .ok .null r0
  | .invalid => finV .invalid .null r0
  | .bool c => finV .ok (if hasDst && flt.allowValue then .bool (c == 0xc3) else .null) r0
  | .f32 => leafFixed (hasDst && flt.allowValue) 4 (fun bs => .num (.f32 (beNat bs))) r0
  | .f64 => leafFixed (hasDst && flt.allowValue) 8 (fun bs => .num (storeDouble (beNat bs))) r0
  | .fix c =>
    finV .ok (if hasDst && flt.allowValue then .num (.sint (if c ≥ 0x80 then (c : Int) - 256 else c)) else .null) r0
  | .inc r => finV .incomplete .null r
  | .arr size r => leafArr env fuel limit flt hasDst size r
  | .map size r => leafMap env fuel limit flt hasDst size r
  | .str size r => leafSized (hasDst && flt.allowValue) (size > env.maxStrLen) size (fun bs => .str bs) r
  | .bin sizeBytes isExt hb size r =>
    leafSized (hasDst && flt.allowValue) (1 + sizeBytes + binSize isExt size > env.maxStrLen) (binSize isExt size)
      (fun bs => .raw (code :: hb ++ bs)) r

/-- **One step of `parseVariant`**: read the header byte, classify, run the leafOf. -/
theorem parseVariant_step (env : Env) (fuel limit : Nat) (flt : Flt) (hasDst : Bool) (r : R) :
    parseVariant env (fuel+1) limit flt hasDst r =
      match r.read with
      | (none, r) => (.incomplete, .null, r, false)
      | (some code, r) => leafOf env fuel limit flt hasDst code r (classify code r) := by
  rw [parseVariant_succ]
  generalize r.read = rd
  obtain ⟨_ | code, r0⟩ := rd
  · rfl
  simp only [dispatch_eq]
  cases classify code r0 <;> rfl

/-! ## one step of `readObject` -/

/-- the length of a map key: `none` = not a string (InvalidInput), `some none` = size bytes missing -/
def keyLenOf_d3 (code : Byte) (r : R) : Option (Option Nat) × R :=
  let c := code.toNat
  if c / 32 == 5 then (some (some (c % 32)), r)
  else if 0xd9 ≤ c && c ≤ 0xdb then
    match r.readBytes (2^(c - 0xd9)) with
    | (some bs, r) => (some (some (beNat bs)), r)
    | (none, r) => (some none, r)
  else (none, r)

set_option maxRecDepth 8000 in
theorem readObject_step (env : Env) (fuel limit : Nat) (flt : Flt) (hasObj : Bool) (n : Nat) (r : R)
    (ms : List (List Byte × Val)) :
    readObject env (fuel+1) limit flt hasObj n r ms =
      if n == 0 then (.ok, ms, r) else
      match r.read with
      | (none, r) => (.incomplete, ms, r)
      | (some code, r) =>
        match keyLenOf_d3 code r with
        | (none, r) => (.invalid, ms, r)
        | (some none, r) => (.incomplete, ms, r)
        | (some (some len), r) =>
          if len > env.maxStrLen then (.noMemory, ms, r) else
          match r.readBytes len with
          | (none, r) => (.incomplete, ms, r)
          | (some key, r) =>
            match parseVariant env fuel limit (flt.subKey key) (hasObj && (flt.subKey key).allow) r with
            | (.ok, v, r, _) =>
              readObject env fuel limit flt hasObj (n - 1) r
                (if hasObj && (flt.subKey key).allow then ms ++ [(key, v)] else ms)
            | (e, v, r, _) => (e, (if hasObj && (flt.subKey key).allow then ms ++ [(key, v)] else ms), r) := by
  simp only [readObject, keyLenOf_d3]
  rfl

end MD
