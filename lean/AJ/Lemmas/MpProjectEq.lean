/- A boolean equality test on documents, sound for `=`; lets `decide +kernel` check concrete results of the
   deserializer models against explicit documents (`JD.Val` has no `DecidableEq` instance). -/
import AJ.Model.JD
namespace JD

mutual
def Val.eqb : Val → Val → Bool
  | .null, .null => true
  | .bool a, .bool b => a == b
  | .num a, .num b => a == b
  | .str a, .str b => a == b
  | .raw a, .raw b => a == b
  | .arr a, .arr b => Val.eqbList a b
  | .obj a, .obj b => Val.eqbMembers a b
  | _, _ => false
def Val.eqbList : List Val → List Val → Bool
  | [], [] => true
  | x :: xs, y :: ys => Val.eqb x y && Val.eqbList xs ys
  | _, _ => false
def Val.eqbMembers : List (List Byte × Val) → List (List Byte × Val) → Bool
  | [], [] => true
  | (k, x) :: xs, (l, y) :: ys => k == l && Val.eqb x y && Val.eqbMembers xs ys
  | _, _ => false
end

mutual
theorem Val.eqb_sound : ∀ a b, Val.eqb a b = true → a = b
  | .null, b, h => by cases b <;> first | rfl | (simp only [Val.eqb] at h; cases h)
  | .bool a, b, h => by
    cases b <;> simp only [Val.eqb] at h <;> first | cases h | (rw [eq_of_beq h])
  | .num a, b, h => by
    cases b <;> simp only [Val.eqb] at h <;> first | cases h | (rw [eq_of_beq h])
  | .str a, b, h => by
    cases b <;> simp only [Val.eqb] at h <;> first | cases h | (rw [eq_of_beq h])
  | .raw a, b, h => by
    cases b <;> simp only [Val.eqb] at h <;> first | cases h | (rw [eq_of_beq h])
  | .arr a, b, h => by
    cases b <;> simp only [Val.eqb] at h <;> first | cases h | (rw [Val.eqbList_sound _ _ h])
  | .obj a, b, h => by
    cases b <;> simp only [Val.eqb] at h <;> first | cases h | (rw [Val.eqbMembers_sound _ _ h])
theorem Val.eqbList_sound : ∀ a b, Val.eqbList a b = true → a = b
  | [], [], _ => rfl
  | [], _ :: _, h => by simp only [Val.eqbList] at h; cases h
  | _ :: _, [], h => by simp only [Val.eqbList] at h; cases h
  | x :: xs, y :: ys, h => by
    simp only [Val.eqbList, Bool.and_eq_true] at h
    rw [Val.eqb_sound x y h.1, Val.eqbList_sound xs ys h.2]
theorem Val.eqbMembers_sound : ∀ a b, Val.eqbMembers a b = true → a = b
  | [], [], _ => rfl
  | [], _ :: _, h => by simp only [Val.eqbMembers] at h; cases h
  | _ :: _, [], h => by simp only [Val.eqbMembers] at h; cases h
  | (k, x) :: xs, (l, y) :: ys, h => by
    simp only [Val.eqbMembers, Bool.and_eq_true] at h
    rw [eq_of_beq h.1.1, Val.eqb_sound x y h.1.2, Val.eqbMembers_sound xs ys h.2]
end

/-- a deserializer result equals an explicit triple when the three components test equal -/
theorem result_eq {r : Code × Val × Nat} {e : Code} {v : Val} {n : Nat}
    (h : (decide (r.1 = e) && Val.eqb r.2.1 v && decide (r.2.2 = n)) = true) : r = (e, v, n) := by
  obtain ⟨e', v', n'⟩ := r
  simp only [Bool.and_eq_true, decide_eq_true_eq] at h
  rw [h.1.1, Val.eqb_sound _ _ h.1.2, h.2]

end JD
