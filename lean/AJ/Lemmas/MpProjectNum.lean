/- Configuration-dependent post-processing of numbers commutes with the projection.
   The MessagePack model stores every number as read; the configurations of the library then rewrite number
   leaves only (`MD.narrowDoubles` for ARDUINOJSON_USE_DOUBLE=0; an integer that does not fit the configured
   integer type is stored as `null`). Any such leaf-wise rewriting `g : Num → Val` into scalars commutes with
   `Spec.Filter.project`, so "filtering = projecting" transfers to every such configuration. -/
import AJ.Model.MD
import AJ.Spec.Filter
import AJ.Lemmas.ProjectAlg
set_option linter.unusedSimpArgs false
namespace MD
open JD Spec.Filter

mutual
/-- rewrite every number leaf with `g` -/
def mapNums (g : Num → Val) : Val → Val
  | .num n => g n
  | .arr xs => .arr (mapNumsL g xs)
  | .obj ms => .obj (mapNumsM g ms)
  | .null => .null
  | .bool b => .bool b
  | .str s => .str s
  | .raw s => .raw s
def mapNumsL (g : Num → Val) : List Val → List Val
  | [] => []
  | x :: r => mapNums g x :: mapNumsL g r
def mapNumsM (g : Num → Val) : List (List Byte × Val) → List (List Byte × Val)
  | [] => []
  | (k, x) :: r => (k, mapNums g x) :: mapNumsM g r
end

/-- `g` sends numbers to scalars (numbers, `null`, ...), never to containers -/
def ScalarMap (g : Num → Val) : Prop := ∀ n, (g n).isArr = false ∧ (g n).isObj = false

mutual
theorem project_mapNums {g : Num → Val} (hg : ScalarMap g) :
    ∀ (f : Flt) (v : Val), project f (mapNums g v) = mapNums g (project f v)
  | f, .num n => by
    simp only [mapNums, project]
    rw [project_scalar f (g n) (hg n).1 (hg n).2]
    cases f.allowValue <;> simp only [Bool.false_eq_true, if_true, if_false, mapNums]
  | f, .arr xs => by
    simp only [mapNums, project]
    cases f.allowArray <;> simp only [Bool.false_eq_true, if_true, if_false, mapNums, projectElems_mapNums hg]
  | f, .obj ms => by
    simp only [mapNums, project]
    cases f.allowObject <;> simp only [Bool.false_eq_true, if_true, if_false, mapNums, projectMembers_mapNums hg]
  | f, .null => by simp only [mapNums, project]
  | f, .bool b => by
    simp only [mapNums, project]; cases f.allowValue <;> simp only [Bool.false_eq_true, if_true, if_false, mapNums]
  | f, .str s => by
    simp only [mapNums, project]; cases f.allowValue <;> simp only [Bool.false_eq_true, if_true, if_false, mapNums]
  | f, .raw s => by
    simp only [mapNums, project]; cases f.allowValue <;> simp only [Bool.false_eq_true, if_true, if_false, mapNums]
theorem projectElems_mapNums {g : Num → Val} (hg : ScalarMap g) :
    ∀ (ef : Flt) (xs : List Val), projectElems ef (mapNumsL g xs) = mapNumsL g (projectElems ef xs)
  | ef, [] => by simp only [mapNumsL, projectElems]
  | ef, x :: xs => by
    simp only [mapNumsL, projectElems]
    cases ef.allow <;>
      simp only [Bool.false_eq_true, if_true, if_false, mapNumsL, project_mapNums hg, projectElems_mapNums hg]
theorem projectMembers_mapNums {g : Num → Val} (hg : ScalarMap g) :
    ∀ (f : Flt) (ms : List (List Byte × Val)), projectMembers f (mapNumsM g ms) = mapNumsM g (projectMembers f ms)
  | f, [] => by simp only [mapNumsM, projectMembers]
  | f, (k, x) :: ms => by
    simp only [mapNumsM, projectMembers]
    cases (f.subKey k).allow <;>
      simp only [Bool.false_eq_true, if_true, if_false, mapNumsM, project_mapNums hg, projectMembers_mapNums hg]
end

/-! ## the two rewritings of the library -/

/-- ARDUINOJSON_USE_DOUBLE=0 on one number -/
def narrowNum : Num → Val
  | .f64 b => .num (.f32 (cvt SF.b64 SF.b32 b))
  | n => .num n

theorem narrowNum_scalar : ScalarMap narrowNum := by
  intro n; cases n <;> exact ⟨rfl, rfl⟩

mutual
theorem narrowDoubles_eq : ∀ v, narrowDoubles v = mapNums narrowNum v
  | .num n => by cases n <;> simp only [narrowDoubles, mapNums, narrowNum]
  | .arr xs => by simp only [narrowDoubles, mapNums, narrowList_eq]
  | .obj ms => by simp only [narrowDoubles, mapNums, narrowMembers_eq]
  | .null => by simp only [narrowDoubles, mapNums]
  | .bool b => by simp only [narrowDoubles, mapNums]
  | .str s => by simp only [narrowDoubles, mapNums]
  | .raw s => by simp only [narrowDoubles, mapNums]
theorem narrowList_eq : ∀ xs, narrowDoubles.narrowList xs = mapNumsL narrowNum xs
  | [] => by simp only [narrowDoubles.narrowList, mapNumsL]
  | x :: xs => by simp only [narrowDoubles.narrowList, mapNumsL, narrowDoubles_eq, narrowList_eq]
theorem narrowMembers_eq : ∀ ms, narrowDoubles.narrowMembers ms = mapNumsM narrowNum ms
  | [] => by simp only [narrowDoubles.narrowMembers, mapNumsM]
  | (k, x) :: ms => by simp only [narrowDoubles.narrowMembers, mapNumsM, narrowDoubles_eq, narrowMembers_eq]
end

/-- narrowing the stored doubles commutes with the projection -/
theorem project_narrowDoubles (f : Flt) (v : Val) : project f (narrowDoubles v) = narrowDoubles (project f v) := by
  rw [narrowDoubles_eq, narrowDoubles_eq, project_mapNums narrowNum_scalar]

/-- an integer type `[lo, hi]`: integers outside become `null` (floats are untouched) -/
def clampInt (lo hi : Int) : Num → Val
  | .uint n => if lo ≤ (n : Int) ∧ (n : Int) ≤ hi then .num (.uint n) else .null
  | .sint n => if lo ≤ n ∧ n ≤ hi then .num (.sint n) else .null
  | n => .num n

theorem clampInt_scalar (lo hi : Int) : ScalarMap (clampInt lo hi) := by
  intro n
  cases n <;> simp only [clampInt] <;> first | exact ⟨rfl, rfl⟩ | (split <;> exact ⟨rfl, rfl⟩)

theorem project_clampInt (lo hi : Int) (f : Flt) (v : Val) :
    project f (mapNums (clampInt lo hi) v) = mapNums (clampInt lo hi) (project f v) :=
  project_mapNums (clampInt_scalar lo hi) f v

end MD
