/- MessagePack: whenever the unfiltered deserializer succeeds from a reader state, the filtered deserializer
   (any filter, destination present or not) succeeds from that state, ends in the same reader state, and has
   built the projection of the unfiltered value (nothing when there is no destination).
   Induction on the fuel over the mutual block `parseVariant / readArray / readObject`, leaf by leaf
   (`MD.parseVariant_step`). -/
import AJ.Lemmas.MpProject
set_option linter.unusedSimpArgs false
namespace MD
open JD Spec.Filter

/-- what a destination receives: the projection when there is one, nothing otherwise -/
def projDst (flt : Flt) (hasDst : Bool) (v : Val) : Val := if hasDst then project flt v else .null

theorem projDst_true (flt : Flt) (v : Val) : projDst flt true v = project flt v := rfl
theorem projDst_false (flt : Flt) (v : Val) : projDst flt false v = .null := rfl

theorem projDst_scalar (flt : Flt) (hasDst : Bool) (v : Val) (h1 : v.isArr = false) (h2 : v.isObj = false) :
    projDst flt hasDst v = if hasDst && flt.allowValue then v else .null := by
  unfold projDst
  rw [project_scalar flt v h1 h2]
  cases hasDst <;> cases flt.allowValue <;> rfl

theorem projDst_null (flt : Flt) (hasDst : Bool) : projDst flt hasDst .null = .null := by
  unfold projDst; rw [project_null]; cases hasDst <;> rfl

/-! ## the reader: skipping takes what reading takes -/

theorem skip_of_read {r : R} {n : Nat} {bs : List Byte} {r' : R} (h : r.readBytes n = (some bs, r')) :
    r.skipBytes n = (true, r') := by
  unfold R.readBytes at h
  unfold R.skipBytes
  by_cases hc : r.unread.length ≥ n
  · rw [if_pos hc] at h ⊢
    cases h; rfl
  · rw [if_neg hc] at h
    cases h

/-! ## scalar leaves -/

theorem leafFixed_sim {w : Nat} {mk : List Byte → Val} {r : R} {v : Val} {r1 : R} {fnd : Bool}
    (h : leafFixed true w mk r = (.ok, v, r1, fnd)) :
    fnd = true ∧ (∃ bs, v = mk bs) ∧ ∀ aV, leafFixed aV w mk r = (.ok, if aV then v else .null, r1, true) := by
  unfold leafFixed at h
  rw [if_pos rfl] at h
  generalize hrd : r.readBytes w = rd at h
  obtain ⟨_ | bs, r2⟩ := rd
  · cases h
  · cases h
    refine ⟨rfl, ⟨bs, rfl⟩, ?_⟩
    intro aV
    cases aV
    · unfold leafFixed; rw [if_neg (by decide), skip_of_read hrd]; rfl
    · unfold leafFixed; rw [if_pos rfl, hrd]; rfl

theorem leafSized_sim {tooBig : Prop} [Decidable tooBig] {w : Nat} {mk : List Byte → Val} {r : R} {v : Val} {r1 : R}
    {fnd : Bool} (h : leafSized true tooBig w mk r = (.ok, v, r1, fnd)) :
    fnd = true ∧ (∃ bs, v = mk bs) ∧ ∀ aV, leafSized aV tooBig w mk r = (.ok, if aV then v else .null, r1, true) := by
  unfold leafSized at h
  rw [if_pos rfl] at h
  by_cases hb : tooBig
  · rw [if_pos hb] at h; cases h
  rw [if_neg hb] at h
  generalize hrd : r.readBytes w = rd at h
  obtain ⟨_ | bs, r2⟩ := rd
  · cases h
  · cases h
    refine ⟨rfl, ⟨bs, rfl⟩, ?_⟩
    intro aV
    cases aV
    · unfold leafSized; rw [if_neg (by decide), skip_of_read hrd]; rfl
    · unfold leafSized; rw [if_pos rfl, if_neg hb, hrd]; rfl

theorem readInteger_scalar (bs : List Byte) (s : Bool) :
    (readInteger bs s).isArr = false ∧ (readInteger bs s).isObj = false := by
  unfold readInteger
  cases s <;> exact ⟨rfl, rfl⟩

/-- the shape of the conclusion for a scalar leafOf -/
theorem scalar_goal {flt : Flt} {hasDst : Bool} {v : Val} {r1 : R} {out : VOut}
    (h1 : v.isArr = false) (h2 : v.isObj = false)
    (h : out = (.ok, if hasDst && flt.allowValue then v else .null, r1, true)) :
    out = (.ok, projDst flt hasDst v, r1, true) := by
  rw [projDst_scalar flt hasDst v h1 h2]; exact h

/-! ## the simulation -/

/-- the three statements, for one amount of fuel -/
def SimV_d5 (env : Env) (fuel : Nat) : Prop :=
  ∀ limit r v r1 fnd, parseVariant env fuel limit .all true r = (.ok, v, r1, fnd) →
    fnd = true ∧ ∀ flt hasDst, parseVariant env fuel limit flt hasDst r = (.ok, projDst flt hasDst v, r1, true)

def SimA (env : Env) (fuel : Nat) : Prop :=
  ∀ limit n r acc vs r1, readArray env fuel limit .all true n r acc = (.ok, vs, r1) →
    ∃ xs, vs = acc.reverse ++ xs ∧ ∀ ef hasArr acc',
      readArray env fuel limit ef hasArr n r acc' =
        (.ok, acc'.reverse ++ (if hasArr then projectElems ef xs else []), r1)

def SimO (env : Env) (fuel : Nat) : Prop :=
  ∀ limit n r ms out r1, readObject env fuel limit .all true n r ms = (.ok, out, r1) →
    ∃ xs, out = ms ++ xs ∧ ∀ flt hasObj ms',
      readObject env fuel limit flt hasObj n r ms' =
        (.ok, ms' ++ (if hasObj then projectMembers flt xs else []), r1)

theorem leafArr_sim {env : Env} {fuel : Nat} (ihA : SimA env fuel) {limit size : Nat} {r : R} {v : Val} {r1 : R}
    {fnd : Bool} (h : leafArr env fuel limit .all true size r = (.ok, v, r1, fnd)) :
    fnd = true ∧ ∀ flt hasDst, leafArr env fuel limit flt hasDst size r = (.ok, projDst flt hasDst v, r1, true) := by
  cases limit with
  | zero => cases h
  | succ l =>
    simp only [leafArr, Flt.allowArray, Flt.subIdx, Bool.and_self, if_true] at h
    generalize hra : readArray env fuel l .all true size r [] = ra at h
    obtain ⟨e, vs, r2⟩ := ra
    cases h
    obtain ⟨xs, hxs, hall⟩ := ihA _ _ _ _ _ _ hra
    simp only [List.reverse_nil, List.nil_append] at hxs
    subst hxs
    refine ⟨rfl, ?_⟩
    intro flt hasDst
    simp only [leafArr]
    rw [hall, hall]
    cases hasDst <;> cases hA : flt.allowArray <;>
      simp only [projDst, project, hA, Bool.and_self, Bool.and_true, Bool.and_false, Bool.false_and, Bool.true_and,
        Bool.false_eq_true, if_true, if_false, finV, List.reverse_nil, List.nil_append]

theorem leafMap_sim {env : Env} {fuel : Nat} (ihO : SimO env fuel) {limit size : Nat} {r : R} {v : Val} {r1 : R}
    {fnd : Bool} (h : leafMap env fuel limit .all true size r = (.ok, v, r1, fnd)) :
    fnd = true ∧ ∀ flt hasDst, leafMap env fuel limit flt hasDst size r = (.ok, projDst flt hasDst v, r1, true) := by
  cases limit with
  | zero => cases h
  | succ l =>
    simp only [leafMap, Flt.allowObject, Bool.and_self, if_true] at h
    generalize hra : readObject env fuel l .all true size r [] = ra at h
    obtain ⟨e, ms, r2⟩ := ra
    cases h
    obtain ⟨xs, hxs, hall⟩ := ihO _ _ _ _ _ _ hra
    simp only [List.nil_append] at hxs
    subst hxs
    refine ⟨rfl, ?_⟩
    intro flt hasDst
    simp only [leafMap]
    rw [hall, hall]
    cases hasDst <;> cases hO : flt.allowObject <;>
      simp only [projDst, project, hO, Bool.and_self, Bool.and_true, Bool.and_false, Bool.false_and, Bool.true_and,
        Bool.false_eq_true, if_true, if_false, finV, List.nil_append]

theorem simV_zero (env : Env) : SimV_d5 env 0 := by
  intro limit r v r1 fnd h
  simp only [parseVariant] at h
  cases h

theorem simA_zero (env : Env) : SimA env 0 := by
  intro limit n r acc vs r1 h
  simp only [readArray] at h
  cases h

theorem simO_zero (env : Env) : SimO env 0 := by
  intro limit n r ms out r1 h
  simp only [readObject] at h
  cases h

theorem simV_succ {env : Env} {fuel : Nat} (ihA : SimA env fuel) (ihO : SimO env fuel) : SimV_d5 env (fuel+1) := by
  intro limit r v r1 fnd h
  rw [parseVariant_step] at h
  have hstep := fun flt hasDst => parseVariant_step env fuel limit flt hasDst r
  generalize r.read = rd at h hstep
  obtain ⟨_ | code, r0⟩ := rd
  · cases h
  simp only [] at h hstep
  generalize classify code r0 = tok at h hstep
  cases tok with
  | int w c =>
    simp only [leafOf, Flt.allowValue, Bool.and_self] at h
    obtain ⟨hf, ⟨bs, hv⟩, hall⟩ := leafFixed_sim h
    refine ⟨hf, fun flt hasDst => ?_⟩
    rw [hstep]
    simp only [leafOf]
    exact scalar_goal (hv ▸ (readInteger_scalar _ _).1) (hv ▸ (readInteger_scalar _ _).2) (hall _)
  | nil =>
    cases h
    refine ⟨rfl, fun flt hasDst => ?_⟩
    rw [hstep, projDst_null]; rfl
  | invalid => cases h
  | bool c =>
    simp only [leafOf, Flt.allowValue, Bool.and_self, if_true, finV] at h
    cases h
    refine ⟨rfl, fun flt hasDst => ?_⟩
    rw [hstep]
    exact scalar_goal rfl rfl rfl
  | f32 =>
    simp only [leafOf, Flt.allowValue, Bool.and_self] at h
    obtain ⟨hf, ⟨bs, hv⟩, hall⟩ := leafFixed_sim h
    refine ⟨hf, fun flt hasDst => ?_⟩
    rw [hstep]
    simp only [leafOf]
    exact scalar_goal (hv ▸ rfl) (hv ▸ rfl) (hall _)
  | f64 =>
    simp only [leafOf, Flt.allowValue, Bool.and_self] at h
    obtain ⟨hf, ⟨bs, hv⟩, hall⟩ := leafFixed_sim h
    refine ⟨hf, fun flt hasDst => ?_⟩
    rw [hstep]
    simp only [leafOf]
    exact scalar_goal (hv ▸ rfl) (hv ▸ rfl) (hall _)
  | fix c =>
    simp only [leafOf, Flt.allowValue, Bool.and_self, if_true, finV] at h
    cases h
    refine ⟨rfl, fun flt hasDst => ?_⟩
    rw [hstep]
    exact scalar_goal rfl rfl rfl
  | inc r2 => cases h
  | arr size r2 =>
    obtain ⟨hf, hall⟩ := leafArr_sim ihA (show leafArr env fuel limit .all true size r2 = _ from h)
    refine ⟨hf, fun flt hasDst => ?_⟩
    rw [hstep]; exact hall flt hasDst
  | map size r2 =>
    obtain ⟨hf, hall⟩ := leafMap_sim ihO (show leafMap env fuel limit .all true size r2 = _ from h)
    refine ⟨hf, fun flt hasDst => ?_⟩
    rw [hstep]; exact hall flt hasDst
  | str size r2 =>
    simp only [leafOf, Flt.allowValue, Bool.and_self] at h
    obtain ⟨hf, ⟨bs, hv⟩, hall⟩ := leafSized_sim h
    refine ⟨hf, fun flt hasDst => ?_⟩
    rw [hstep]
    simp only [leafOf]
    exact scalar_goal (hv ▸ rfl) (hv ▸ rfl) (hall _)
  | bin sb ie hb size r2 =>
    simp only [leafOf, Flt.allowValue, Bool.and_self] at h
    obtain ⟨hf, ⟨bs, hv⟩, hall⟩ := leafSized_sim h
    refine ⟨hf, fun flt hasDst => ?_⟩
    rw [hstep]
    simp only [leafOf]
    exact scalar_goal (hv ▸ rfl) (hv ▸ rfl) (hall _)

theorem simA_succ {env : Env} {fuel : Nat} (ihV : SimV_d5 env fuel) (ihA : SimA env fuel) : SimA env (fuel+1) := by
  intro limit n r acc vs r1 h
  simp only [readArray, Flt.allow, Bool.and_self, if_true] at h
  by_cases hn : (n == 0) = true
  · rw [if_pos hn] at h
    cases h
    refine ⟨[], (List.append_nil _).symm, ?_⟩
    intro ef hasArr acc'
    simp only [readArray, hn, if_true, projectElems, ite_self, List.append_nil]
  · rw [if_neg hn] at h
    generalize hpv : parseVariant env fuel limit .all true r = pv at h
    obtain ⟨e, v, r2, f2⟩ := pv
    cases e <;> simp only [] at h <;> try (cases h; done)
    obtain ⟨-, hV⟩ := ihV _ _ _ _ _ hpv
    obtain ⟨xs, hxs, hall⟩ := ihA _ _ _ _ _ _ h
    refine ⟨v :: xs, by rw [hxs, List.reverse_cons, List.append_assoc]; rfl, ?_⟩
    intro ef hasArr acc'
    simp only [readArray, hn, Bool.false_eq_true, if_false]
    rw [hV ef (hasArr && ef.allow)]
    simp only []
    rw [hall]
    cases hasArr <;> cases hA : ef.allow <;>
      simp only [projDst, projectElems, hA, Bool.and_self, Bool.and_true, Bool.and_false, Bool.false_and, Bool.true_and,
        Bool.false_eq_true, if_true, if_false, List.reverse_cons, List.append_assoc, List.cons_append, List.nil_append]

theorem simO_succ {env : Env} {fuel : Nat} (ihV : SimV_d5 env fuel) (ihO : SimO env fuel) : SimO env (fuel+1) := by
  intro limit n r ms out r1 h
  have hstep := fun flt hasObj ms' => readObject_step env fuel limit flt hasObj n r ms'
  rw [readObject_step] at h
  by_cases hn : (n == 0) = true
  · rw [if_pos hn] at h
    cases h
    refine ⟨[], (List.append_nil _).symm, ?_⟩
    intro flt hasObj ms'
    rw [hstep, if_pos hn]
    simp only [projectMembers, ite_self, List.append_nil]
  · rw [if_neg hn] at h
    simp only [if_neg hn] at hstep
    generalize r.read = rd at h hstep
    obtain ⟨_ | code, r0⟩ := rd
    · cases h
    simp only [] at h hstep
    generalize keyLenOf_d3 code r0 = kl at h hstep
    obtain ⟨_ | _ | len, r2⟩ := kl
    · cases h
    · cases h
    simp only [] at h hstep
    by_cases hbig : len > env.maxStrLen
    · rw [if_pos hbig] at h; cases h
    rw [if_neg hbig] at h
    simp only [if_neg hbig] at hstep
    generalize r2.readBytes len = rk at h hstep
    obtain ⟨_ | key, r3⟩ := rk
    · cases h
    simp only [Flt.subKey, Flt.allow, Bool.and_self, if_true] at h
    simp only [] at hstep
    generalize hpv : parseVariant env fuel limit .all true r3 = pv at h
    obtain ⟨e, v, r4, f4⟩ := pv
    cases e <;> simp only [] at h <;> try (cases h; done)
    obtain ⟨-, hV⟩ := ihV _ _ _ _ _ hpv
    obtain ⟨xs, hxs, hall⟩ := ihO _ _ _ _ _ _ h
    refine ⟨(key, v) :: xs, by rw [hxs, List.append_assoc]; rfl, ?_⟩
    intro flt hasObj ms'
    rw [hstep, hV (flt.subKey key) (hasObj && (flt.subKey key).allow)]
    simp only []
    rw [hall]
    cases hasObj <;> cases hA : (flt.subKey key).allow <;>
      simp only [projDst, projectMembers, hA, Bool.and_self, Bool.and_true, Bool.and_false, Bool.false_and,
        Bool.true_and, Bool.false_eq_true, if_true, if_false, List.append_assoc, List.cons_append, List.nil_append]

/-- **The simulation**, all three routines, every amount of fuel. -/
theorem sim_all_mp (env : Env) : ∀ fuel, SimV_d5 env fuel ∧ SimA env fuel ∧ SimO env fuel := by
  intro fuel
  induction fuel with
  | zero => exact ⟨simV_zero env, simA_zero env, simO_zero env⟩
  | succ k ih =>
    obtain ⟨ihV, ihA, ihO⟩ := ih
    exact ⟨simV_succ ihA ihO, simA_succ ihV ihA, simO_succ ihV ihO⟩

end MD
