/- Lemmas for the MessagePack round trip (C07/C09/C16): big-endian codec, bounded reader on `a ++ b`,
   one lemma per first-byte class of `MD.parseVariant` (filter `.all`, destination present). -/
import AJ.Model.MD
namespace MD
open JD SF

/-! ## small Bool/decide helpers used with `simp (disch := omega)` -/
theorem dT {p : Prop} [Decidable p] (h : p) : decide p = true := decide_eq_true h
theorem dF {p : Prop} [Decidable p] (h : ¬ p) : decide p = false := decide_eq_false h
theorem bF {a b : Nat} (h : a ≠ b) : (a == b) = false := by simp [h]
theorem bT {a b : Nat} (h : a = b) : (a == b) = true := by simp [h]

/-- evaluate the conditions of the `if` ladder of `parseVariant`, side goals by `omega` -/
macro "cond_simp" : tactic =>
  `(tactic| simp (disch := omega) only [dT, dF, bF, bT, if_pos, if_neg, Bool.and_false, Bool.false_and,
      Bool.or_false, Bool.false_or, Bool.or_true, Bool.true_or, Bool.true_and, Bool.and_true,
      Flt.allowValue, Flt.allowArray, Flt.allowObject, Flt.subIdx, Flt.allow, Flt.subKey,
      Bool.false_eq_true, eq_self, reduceIte, gt_iff_lt, ge_iff_le])

/-! ## big-endian -/
theorem beN_length (k n : Nat) : (beN k n).length = k := by simp [beN]

theorem r2 : List.range 2 = [0,1] := by decide
theorem r4 : List.range 4 = [0,1,2,3] := by decide
theorem r8 : List.range 8 = [0,1,2,3,4,5,6,7] := by decide

theorem beNat_beN1 (n : Nat) (h : n < 256) : beNat (beN 1 n) = n := by
  simp [beN, beNat]; omega
theorem beNat_beN2 (n : Nat) (h : n < 65536) : beNat (beN 2 n) = n := by
  simp [beN, beNat, r2]; omega
theorem beNat_beN4 (n : Nat) (h : n < 4294967296) : beNat (beN 4 n) = n := by
  simp [beN, beNat, r4]; omega
theorem beNat_beN8 (n : Nat) (h : n < 18446744073709551616) : beNat (beN 8 n) = n := by
  simp [beN, beNat, r8]; omega

/-! ## reader -/
theorem readBytes_app (a b : List Byte) (p k : Nat) (h : a.length = k) :
    R.readBytes ⟨a ++ b, p⟩ k = (some a, ⟨b, p + k⟩) := by
  subst h
  simp [R.readBytes]

theorem read_cons (c : Byte) (l : List Byte) (p : Nat) : R.read ⟨c :: l, p⟩ = (some c, ⟨l, p + 1⟩) := rfl

/-! ## `readInteger` on the serializer's payloads -/
theorem readInteger_u1 (n : Nat) (h : n < 256) : readInteger (beN 1 n) false = .num (.uint n) := by
  simp only [readInteger, beNat_beN1 n h]; rfl
theorem readInteger_u2 (n : Nat) (h : n < 65536) : readInteger (beN 2 n) false = .num (.uint n) := by
  simp only [readInteger, beNat_beN2 n h]; rfl
theorem readInteger_u4 (n : Nat) (h : n < 4294967296) : readInteger (beN 4 n) false = .num (.uint n) := by
  simp only [readInteger, beNat_beN4 n h]; rfl
theorem readInteger_u8 (n : Nat) (h : n < 18446744073709551616) : readInteger (beN 8 n) false = .num (.uint n) := by
  simp only [readInteger, beNat_beN8 n h]; rfl

theorem readInteger_s1 (v : Int) (h1 : -0x80 ≤ v) (h2 : v < 0) :
    readInteger (beN 1 (v + 256).toNat) true = .num (.sint v) := by
  simp only [readInteger, beNat_beN1 (v + 256).toNat (by omega), beN_length, Nat.reduceMul, Nat.reduceSub, Nat.reducePow, reduceIte, Int.ofNat_eq_natCast]
  congr 2
  split <;> omega
theorem readInteger_s2 (v : Int) (h1 : -0x8000 ≤ v) (h2 : v < 0) :
    readInteger (beN 2 (v + 65536).toNat) true = .num (.sint v) := by
  simp only [readInteger, beNat_beN2 (v + 65536).toNat (by omega), beN_length, Nat.reduceMul, Nat.reduceSub, Nat.reducePow, reduceIte, Int.ofNat_eq_natCast]
  congr 2
  split <;> omega
theorem readInteger_s4 (v : Int) (h1 : -0x80000000 ≤ v) (h2 : v < 0) :
    readInteger (beN 4 (v + 2^32).toNat) true = .num (.sint v) := by
  simp only [readInteger, beNat_beN4 (v + 2^32).toNat (by omega), beN_length, Nat.reduceMul, Nat.reduceSub, Nat.reducePow, reduceIte, Int.ofNat_eq_natCast]
  congr 2
  split <;> omega
theorem readInteger_s8 (v : Int) (h1 : -0x8000000000000000 ≤ v) (h2 : v < 0) :
    readInteger (beN 8 (v + 2^64).toNat) true = .num (.sint v) := by
  simp only [readInteger, beNat_beN8 (v + 2^64).toNat (by omega), beN_length, Nat.reduceMul, Nat.reduceSub, Nat.reducePow, reduceIte, Int.ofNat_eq_natCast]
  congr 2
  split <;> omega

/-! ## `parseVariant`, one lemma per class of first byte (filter `.all`, destination present) -/
section cases
variable (env : Env) (fuel limit : Nat) (rest : List Byte) (p : Nat)

set_option maxRecDepth 8000 in
theorem pv_posfix (c : Byte) (h : c.toNat ≤ 0x7f) :
    parseVariant env (fuel+1) limit .all true ⟨c :: rest, p⟩ = (.ok, .num (.sint c.toNat), ⟨rest, p+1⟩, true) := by
  rw [parseVariant]
  simp only [R.read]
  generalize c.toNat = n at *
  cond_simp

set_option maxRecDepth 8000 in
theorem pv_negfix (c : Byte) (h : 0xe0 ≤ c.toNat) :
    parseVariant env (fuel+1) limit .all true ⟨c :: rest, p⟩ = (.ok, .num (.sint ((c.toNat : Int) - 256)), ⟨rest, p+1⟩, true) := by
  rw [parseVariant]
  simp only [R.read]
  have : c.toNat < 256 := c.toNat_lt
  generalize c.toNat = n at *
  cond_simp

set_option maxRecDepth 8000 in
theorem pv_null :
    parseVariant env (fuel+1) limit .all true ⟨0xC0 :: rest, p⟩ = (.ok, .null, ⟨rest, p+1⟩, true) := by
  rw [parseVariant]
  simp [R.read]

set_option maxRecDepth 8000 in
theorem pv_bool (b : Bool) :
    parseVariant env (fuel+1) limit .all true ⟨(if b then 0xC3 else 0xC2) :: rest, p⟩ = (.ok, .bool b, ⟨rest, p+1⟩, true) := by
  rw [parseVariant]
  cases b <;> simp [R.read, Flt.allowValue]

set_option maxRecDepth 8000 in
theorem pv_int (code : Byte) (c : Nat) (hc : code.toNat = c) (sg : Bool) (bs : List Byte) (h1 : 0xcc ≤ c) (h2 : c ≤ 0xd3)
    (hs : sg = decide (c ≥ 0xd0)) (hl : bs.length = 2^((c - 0xcc) % 4)) :
    parseVariant env (fuel+1) limit .all true ⟨code :: (bs ++ rest), p⟩
      = (.ok, readInteger bs sg, ⟨rest, p + 1 + bs.length⟩, true) := by
  rw [parseVariant]
  simp only [R.read]
  subst hs
  rw [hc, readBytes_app bs rest (p+1) _ hl]
  cond_simp
  simp only [hl]

set_option maxRecDepth 8000 in
theorem pv_f32 (bs : List Byte) (hl : bs.length = 4) :
    parseVariant env (fuel+1) limit .all true ⟨0xCA :: (bs ++ rest), p⟩
      = (.ok, .num (.f32 (beNat bs)), ⟨rest, p + 5⟩, true) := by
  rw [parseVariant]
  simp only [R.read]
  rw [readBytes_app bs rest (p+1) _ hl]
  simp [Flt.allowValue]

set_option maxRecDepth 8000 in
theorem pv_f64 (bs : List Byte) (hl : bs.length = 8) :
    parseVariant env (fuel+1) limit .all true ⟨0xCB :: (bs ++ rest), p⟩
      = (.ok, .num (storeDouble (beNat bs)), ⟨rest, p + 9⟩, true) := by
  rw [parseVariant]
  simp only [R.read]
  rw [readBytes_app bs rest (p+1) _ hl]
  simp [Flt.allowValue]

end cases

section cases2
variable (env : Env) (fuel limit : Nat) (rest : List Byte) (p : Nat)

macro "pv_start" : tactic => `(tactic| (rw [parseVariant]; simp only [R.read]))

set_option maxRecDepth 8000 in
theorem pv_fixstr (c : Byte) (s : List Byte) (hc : c.toNat = 0xa0 + s.length) (hk : s.length < 32)
    (hm : s.length ≤ env.maxStrLen) :
    parseVariant env (fuel+1) limit .all true ⟨c :: (s ++ rest), p⟩ = (.ok, .str s, ⟨rest, p + 1 + s.length⟩, true) := by
  pv_start
  generalize c.toNat = n at *
  have e1 : n % 32 = s.length := by omega
  cond_simp
  simp only [e1]
  rw [readBytes_app s rest (p+1) _ rfl]

/-- str 8 / 16 / 32 -/
macro "pv_sized_str" lit:term "," w:term : tactic =>
  `(tactic| (
    pv_start
    generalize hc : ($lit : UInt8).toNat = n
    have hn' : n = $w := by rw [← hc]; rfl
    cond_simp))

set_option maxRecDepth 8000 in
theorem pv_str8 (hb s : List Byte) (hl : hb.length = 1) (hn : beNat hb = s.length) (hm : s.length ≤ env.maxStrLen) :
    parseVariant env (fuel+1) limit .all true ⟨0xD9 :: (hb ++ (s ++ rest)), p⟩
      = (.ok, .str s, ⟨rest, p + 2 + s.length⟩, true) := by
  pv_start
  generalize hc : (0xD9 : UInt8).toNat = n
  have hn' : n = 217 := by rw [← hc]; rfl
  cond_simp
  rw [readBytes_app hb _ (p+1) _ hl]
  simp only [hn]
  cond_simp
  rw [readBytes_app s rest _ _ rfl]

set_option maxRecDepth 8000 in
theorem pv_str16 (hb s : List Byte) (hl : hb.length = 2) (hn : beNat hb = s.length) (hm : s.length ≤ env.maxStrLen) :
    parseVariant env (fuel+1) limit .all true ⟨0xDA :: (hb ++ (s ++ rest)), p⟩
      = (.ok, .str s, ⟨rest, p + 3 + s.length⟩, true) := by
  pv_start
  generalize hc : (0xDA : UInt8).toNat = n
  have hn' : n = 218 := by rw [← hc]; rfl
  cond_simp
  rw [readBytes_app hb _ (p+1) _ hl]
  simp only [hn]
  cond_simp
  rw [readBytes_app s rest _ _ rfl]

set_option maxRecDepth 8000 in
theorem pv_str32 (hb s : List Byte) (hl : hb.length = 4) (hn : beNat hb = s.length) (hm : s.length ≤ env.maxStrLen) :
    parseVariant env (fuel+1) limit .all true ⟨0xDB :: (hb ++ (s ++ rest)), p⟩
      = (.ok, .str s, ⟨rest, p + 5 + s.length⟩, true) := by
  pv_start
  generalize hc : (0xDB : UInt8).toNat = n
  have hn' : n = 219 := by rw [← hc]; rfl
  cond_simp
  rw [readBytes_app hb _ (p+1) _ hl]
  simp only [hn]
  cond_simp
  rw [readBytes_app s rest _ _ rfl]

/-! arrays: the header dispatches to `readArray` -/
def arrResult (q : Code × List Val × R) : Code × Val × R × Bool := (q.1, .arr q.2.1, q.2.2, true)
def objResult (q : Code × List (List Byte × Val) × R) : Code × Val × R × Bool := (q.1, .obj q.2.1, q.2.2, true)

set_option maxRecDepth 8000 in
theorem pv_fixarr (c : Byte) (k : Nat) (t : List Byte) (hc : c.toNat = 0x90 + k) (hk : k < 16) :
    parseVariant env (fuel+1) (limit+1) .all true ⟨c :: t, p⟩
      = arrResult (readArray env fuel limit .all true k ⟨t, p+1⟩ []) := by
  pv_start
  generalize c.toNat = n at *
  have e1 : n % 16 = k := by omega
  cond_simp
  simp only [e1, arrResult]

set_option maxRecDepth 8000 in
theorem pv_arr16 (hb t : List Byte) (k : Nat) (hl : hb.length = 2) (hn : beNat hb = k) :
    parseVariant env (fuel+1) (limit+1) .all true ⟨0xDC :: (hb ++ t), p⟩
      = arrResult (readArray env fuel limit .all true k ⟨t, p+3⟩ []) := by
  pv_start
  generalize hc : (0xDC : UInt8).toNat = n
  have hn' : n = 220 := by rw [← hc]; rfl
  cond_simp
  rw [readBytes_app hb _ (p+1) _ hl]
  simp only [hn, arrResult]

set_option maxRecDepth 8000 in
theorem pv_arr32 (hb t : List Byte) (k : Nat) (hl : hb.length = 4) (hn : beNat hb = k) :
    parseVariant env (fuel+1) (limit+1) .all true ⟨0xDD :: (hb ++ t), p⟩
      = arrResult (readArray env fuel limit .all true k ⟨t, p+5⟩ []) := by
  pv_start
  generalize hc : (0xDD : UInt8).toNat = n
  have hn' : n = 221 := by rw [← hc]; rfl
  cond_simp
  rw [readBytes_app hb _ (p+1) _ hl]
  simp only [hn, arrResult]

set_option maxRecDepth 8000 in
theorem pv_fixmap (c : Byte) (k : Nat) (t : List Byte) (hc : c.toNat = 0x80 + k) (hk : k < 16) :
    parseVariant env (fuel+1) (limit+1) .all true ⟨c :: t, p⟩
      = objResult (readObject env fuel limit .all true k ⟨t, p+1⟩ []) := by
  pv_start
  generalize c.toNat = n at *
  have e1 : n % 16 = k := by omega
  cond_simp
  simp only [e1, objResult]

set_option maxRecDepth 8000 in
theorem pv_map16 (hb t : List Byte) (k : Nat) (hl : hb.length = 2) (hn : beNat hb = k) :
    parseVariant env (fuel+1) (limit+1) .all true ⟨0xDE :: (hb ++ t), p⟩
      = objResult (readObject env fuel limit .all true k ⟨t, p+3⟩ []) := by
  pv_start
  generalize hc : (0xDE : UInt8).toNat = n
  have hn' : n = 222 := by rw [← hc]; rfl
  cond_simp
  rw [readBytes_app hb _ (p+1) _ hl]
  simp only [hn, objResult]

set_option maxRecDepth 8000 in
theorem pv_map32 (hb t : List Byte) (k : Nat) (hl : hb.length = 4) (hn : beNat hb = k) :
    parseVariant env (fuel+1) (limit+1) .all true ⟨0xDF :: (hb ++ t), p⟩
      = objResult (readObject env fuel limit .all true k ⟨t, p+5⟩ []) := by
  pv_start
  generalize hc : (0xDF : UInt8).toNat = n
  have hn' : n = 223 := by rw [← hc]; rfl
  cond_simp
  rw [readBytes_app hb _ (p+1) _ hl]
  simp only [hn, objResult]

end cases2

section cases3
variable (env : Env) (fuel limit : Nat) (rest : List Byte) (p : Nat)

/-- what the reader makes of an integer written by `encInt`/`encUInt` -/
def normInt (k : Int) : Num := if k > 0x7f then .uint k.toNat else .sint k

theorem ofNat_toNat (n : Nat) (h : n < 256) : (UInt8.ofNat n).toNat = n :=
  UInt8.toNat_ofNat_of_lt' (by simp [UInt8.size]; omega)

theorem normInt_small (n : Nat) (h : n ≤ 0x7f) : normInt (n : Int) = .sint n := by
  unfold normInt; rw [if_neg (by omega)]
theorem normInt_big (n : Nat) (h : ¬ n ≤ 0x7f) : normInt (n : Int) = .uint n := by
  unfold normInt; rw [if_pos (by omega)]; simp

theorem pv_encUInt (n : Nat) (h : n < 2^64) :
    parseVariant env (fuel+1) limit .all true ⟨encUInt n ++ rest, p⟩
      = (.ok, .num (normInt n), ⟨rest, p + (encUInt n).length⟩, true) := by
  unfold encUInt
  split
  · have hc : (UInt8.ofNat n).toNat = n := ofNat_toNat n (by omega)
    rw [List.cons_append, List.nil_append,
      pv_posfix env fuel limit rest p (UInt8.ofNat n) (by omega), hc, normInt_small n (by omega)]
    rfl
  · rw [normInt_big n (by omega)]
    split
    · rw [List.cons_append,
        pv_int env fuel limit rest p 0xCC 204 rfl false (beN 1 n) (by omega) (by omega) (by decide) (by simp [beN_length]),
        readInteger_u1 n (by omega)]
      simp [beN_length]
    · split
      · rw [List.cons_append,
          pv_int env fuel limit rest p 0xCD 205 rfl false (beN 2 n) (by omega) (by omega) (by decide) (by simp [beN_length]),
          readInteger_u2 n (by omega)]
        simp [beN_length]
      · split
        · rw [List.cons_append,
            pv_int env fuel limit rest p 0xCE 206 rfl false (beN 4 n) (by omega) (by omega) (by decide) (by simp [beN_length]),
            readInteger_u4 n (by omega)]
          simp [beN_length]
        · rw [List.cons_append,
            pv_int env fuel limit rest p 0xCF 207 rfl false (beN 8 n) (by omega) (by omega) (by decide) (by simp [beN_length]),
            readInteger_u8 n (by omega)]
          simp [beN_length]

theorem beN1_eq (n : Nat) : beN 1 n = [UInt8.ofNat (n % 256)] := by simp [beN]

theorem pv_encInt (v : Int) (h1 : -2^63 ≤ v) (h2 : v < 2^64) :
    parseVariant env (fuel+1) limit .all true ⟨encInt v ++ rest, p⟩
      = (.ok, .num (normInt v), ⟨rest, p + (encInt v).length⟩, true) := by
  unfold encInt
  split
  · have := pv_encUInt env fuel limit rest p v.toNat (by omega)
    rw [this, show ((v.toNat : Nat) : Int) = v by omega]
  · have hn : normInt v = .sint v := by unfold normInt; rw [if_neg (by omega)]
    rw [hn]
    split
    · rw [beN1_eq, show [UInt8.ofNat ((v + 256).toNat % 256)] ++ rest = UInt8.ofNat ((v + 256).toNat % 256) :: rest from rfl]
      have hc := ofNat_toNat ((v + 256).toNat % 256) (by omega)
      by_cases h0 : v = 0
      · rw [pv_posfix env fuel limit rest p _ (by rw [hc]; omega), hc]
        subst h0; rfl
      · rw [pv_negfix env fuel limit rest p _ (by rw [hc]; omega), hc]
        simp only [List.length_singleton]
        congr 4
        omega
    · split
      · rw [List.cons_append,
          pv_int env fuel limit rest p 0xD0 208 rfl true (beN 1 _) (by omega) (by omega) (by decide) (by simp [beN_length]),
          readInteger_s1 v (by omega) (by omega)]
        simp [beN_length]
      · split
        · rw [List.cons_append,
            pv_int env fuel limit rest p 0xD1 209 rfl true (beN 2 _) (by omega) (by omega) (by decide) (by simp [beN_length]),
            readInteger_s2 v (by omega) (by omega)]
          simp [beN_length]
        · split
          · rw [List.cons_append,
              pv_int env fuel limit rest p 0xD2 210 rfl true (beN 4 _) (by omega) (by omega) (by decide) (by simp [beN_length]),
              readInteger_s4 v (by omega) (by omega)]
            simp [beN_length]
          · rw [List.cons_append,
              pv_int env fuel limit rest p 0xD3 211 rfl true (beN 8 _) (by omega) (by omega) (by decide) (by simp [beN_length]),
              readInteger_s8 v (by omega) (by omega)]
            simp [beN_length]

theorem pv_str (s : List Byte) (hm : s.length ≤ env.maxStrLen) (h32 : s.length < 2^32) :
    parseVariant env (fuel+1) limit .all true ⟨(strHdr s.length ++ s) ++ rest, p⟩
      = (.ok, .str s, ⟨rest, p + (strHdr s.length ++ s).length⟩, true) := by
  unfold strHdr
  split
  · rw [show ([UInt8.ofNat (0xA0 + s.length)] ++ s) ++ rest = UInt8.ofNat (0xA0 + s.length) :: (s ++ rest) from rfl,
      pv_fixstr env fuel limit rest p _ s (by rw [ofNat_toNat _ (by omega)]) (by omega) hm]
    simp; omega
  · split
    · rw [show ((0xD9 :: beN 1 s.length) ++ s) ++ rest = 0xD9 :: (beN 1 s.length ++ (s ++ rest)) by simp,
        pv_str8 env fuel limit rest p _ s (beN_length _ _) (beNat_beN1 _ (by omega)) hm]
      simp [beN_length]; omega
    · split
      · rw [show ((0xDA :: beN 2 s.length) ++ s) ++ rest = 0xDA :: (beN 2 s.length ++ (s ++ rest)) by simp,
          pv_str16 env fuel limit rest p _ s (beN_length _ _) (beNat_beN2 _ (by omega)) hm]
        simp [beN_length]; omega
      · rw [show ((0xDB :: beN 4 s.length) ++ s) ++ rest = 0xDB :: (beN 4 s.length ++ (s ++ rest)) by simp,
          pv_str32 env fuel limit rest p _ s (beN_length _ _) (beNat_beN4 _ (by omega)) hm]
        simp [beN_length]; omega

theorem pv_arr (k : Nat) (t : List Byte) (h32 : k < 2^32) :
    parseVariant env (fuel+1) (limit+1) .all true ⟨arrHdr k ++ t, p⟩
      = arrResult (readArray env fuel limit .all true k ⟨t, p + (arrHdr k).length⟩ []) := by
  unfold arrHdr
  split
  · rw [show [UInt8.ofNat (0x90 + k)] ++ t = UInt8.ofNat (0x90 + k) :: t from rfl,
      pv_fixarr env fuel limit p _ k t (by rw [ofNat_toNat _ (by omega)]) (by omega)]
    rfl
  · split
    · rw [show (0xDC :: beN 2 k) ++ t = 0xDC :: (beN 2 k ++ t) from rfl,
        pv_arr16 env fuel limit p _ t k (beN_length _ _) (beNat_beN2 _ (by omega))]
      simp [beN_length]
    · rw [show (0xDD :: beN 4 k) ++ t = 0xDD :: (beN 4 k ++ t) from rfl,
        pv_arr32 env fuel limit p _ t k (beN_length _ _) (beNat_beN4 _ (by omega))]
      simp [beN_length]

theorem pv_map (k : Nat) (t : List Byte) (h32 : k < 2^32) :
    parseVariant env (fuel+1) (limit+1) .all true ⟨mapHdr k ++ t, p⟩
      = objResult (readObject env fuel limit .all true k ⟨t, p + (mapHdr k).length⟩ []) := by
  unfold mapHdr
  split
  · rw [show [UInt8.ofNat (0x80 + k)] ++ t = UInt8.ofNat (0x80 + k) :: t from rfl,
      pv_fixmap env fuel limit p _ k t (by rw [ofNat_toNat _ (by omega)]) (by omega)]
    rfl
  · split
    · rw [show (0xDE :: beN 2 k) ++ t = 0xDE :: (beN 2 k ++ t) from rfl,
        pv_map16 env fuel limit p _ t k (beN_length _ _) (beNat_beN2 _ (by omega))]
      simp [beN_length]
    · rw [show (0xDF :: beN 4 k) ++ t = 0xDF :: (beN 4 k ++ t) from rfl,
        pv_map32 env fuel limit p _ t k (beN_length _ _) (beNat_beN4 _ (by omega))]
      simp [beN_length]

/-! ## steps of `readArray` / `readObject` -/
theorem ra_zero (r : R) (acc : List Val) :
    readArray env (fuel+1) limit .all true 0 r acc = (.ok, acc.reverse, r) := by
  rw [readArray]; simp

theorem ra_succ (n : Nat) (r r' : R) (acc : List Val) (v : Val) (b : Bool)
    (h : parseVariant env fuel limit .all true r = (.ok, v, r', b)) :
    readArray env (fuel+1) limit .all true (n+1) r acc = readArray env fuel limit .all true n r' (v :: acc) := by
  rw [readArray]; simp [h, Flt.allow]

theorem ro_zero (r : R) (ms : List (List Byte × Val)) :
    readObject env (fuel+1) limit .all true 0 r ms = (.ok, ms, r) := by
  rw [readObject]; simp

end cases3

section cases4
variable (env : Env) (fuel limit : Nat) (p : Nat)

set_option maxRecDepth 8000 in
theorem ro_key_fix (n : Nat) (c : Byte) (k t : List Byte) (ms : List (List Byte × Val)) (v : Val) (r' : R) (b : Bool)
    (hc : c.toNat = 0xa0 + k.length) (hk : k.length < 32) (hm : k.length ≤ env.maxStrLen)
    (h : parseVariant env fuel limit .all true ⟨t, p + 1 + k.length⟩ = (.ok, v, r', b)) :
    readObject env (fuel+1) limit .all true (n+1) ⟨c :: (k ++ t), p⟩ ms
      = readObject env fuel limit .all true n r' (ms ++ [(k, v)]) := by
  rw [readObject]
  simp only [R.read]
  generalize c.toNat = m at *
  have e1 : m % 32 = k.length := by omega
  cond_simp
  simp only [e1]
  rw [readBytes_app k t (p+1) _ rfl]
  simp only [h, Nat.add_sub_cancel]

set_option maxRecDepth 8000 in
theorem ro_key_sized (n : Nat) (code : Byte) (c j : Nat) (hcode : code.toNat = c) (hj : c = 0xd9 + j) (hj3 : j < 3)
    (hb k t : List Byte) (ms : List (List Byte × Val)) (v : Val) (r' : R) (b : Bool)
    (hl : hb.length = 2^j) (hn : beNat hb = k.length) (hm : k.length ≤ env.maxStrLen)
    (h : parseVariant env fuel limit .all true ⟨t, p + 1 + 2^j + k.length⟩ = (.ok, v, r', b)) :
    readObject env (fuel+1) limit .all true (n+1) ⟨code :: (hb ++ (k ++ t)), p⟩ ms
      = readObject env fuel limit .all true n r' (ms ++ [(k, v)]) := by
  rw [readObject]
  simp only [R.read]
  rw [hcode]
  have e1 : c - 0xd9 = j := by omega
  cond_simp
  simp only [e1]
  rw [readBytes_app hb _ (p+1) _ hl]
  simp only [hn]
  cond_simp
  rw [readBytes_app k t _ _ rfl]
  simp only [h, Nat.add_sub_cancel]


theorem ro_succ (n : Nat) (k t : List Byte) (ms : List (List Byte × Val)) (v : Val) (r' : R) (b : Bool)
    (hm : k.length ≤ env.maxStrLen) (h32 : k.length < 2^32)
    (h : parseVariant env fuel limit .all true ⟨t, p + (strHdr k.length ++ k).length⟩ = (.ok, v, r', b)) :
    readObject env (fuel+1) limit .all true (n+1) ⟨(strHdr k.length ++ k) ++ t, p⟩ ms
      = readObject env fuel limit .all true n r' (ms ++ [(k, v)]) := by
  rcases Nat.lt_or_ge k.length 0x20 with h1 | h1
  · have e : strHdr k.length = [UInt8.ofNat (0xA0 + k.length)] := by unfold strHdr; rw [if_pos h1]
    rw [e] at h ⊢
    have hp : p + ([UInt8.ofNat (0xA0 + k.length)] ++ k).length = p + 1 + k.length := by simp; omega
    rw [hp] at h
    rw [List.cons_append, List.nil_append, List.cons_append]
    exact ro_key_fix env fuel limit p n _ k t ms v r' b (by rw [ofNat_toNat _ (by omega)]) h1 hm h
  · rcases Nat.lt_or_ge k.length 0x100 with h2 | h2
    · have e : strHdr k.length = 0xD9 :: beN 1 k.length := by
        unfold strHdr; rw [if_neg (by omega), if_pos h2]
      rw [e] at h ⊢
      have hp : p + (0xD9 :: beN 1 k.length ++ k).length = p + 1 + 2^0 + k.length := by simp [beN_length]; omega
      rw [hp] at h
      rw [List.cons_append, List.cons_append, List.append_assoc]
      exact ro_key_sized env fuel limit p n 0xD9 217 0 rfl rfl (by omega) _ k t ms v r' b (beN_length _ _)
        (beNat_beN1 _ (by omega)) hm h
    · rcases Nat.lt_or_ge k.length 0x10000 with h3 | h3
      · have e : strHdr k.length = 0xDA :: beN 2 k.length := by
          unfold strHdr; rw [if_neg (by omega), if_neg (by omega), if_pos h3]
        rw [e] at h ⊢
        have hp : p + (0xDA :: beN 2 k.length ++ k).length = p + 1 + 2^1 + k.length := by simp [beN_length]; omega
        rw [hp] at h
        rw [List.cons_append, List.cons_append, List.append_assoc]
        exact ro_key_sized env fuel limit p n 0xDA 218 1 rfl rfl (by omega) _ k t ms v r' b (beN_length _ _)
          (beNat_beN2 _ (by omega)) hm h
      · have e : strHdr k.length = 0xDB :: beN 4 k.length := by
          unfold strHdr; rw [if_neg (by omega), if_neg (by omega), if_neg (by omega)]
        rw [e] at h ⊢
        have hp : p + (0xDB :: beN 4 k.length ++ k).length = p + 1 + 2^2 + k.length := by simp [beN_length]; omega
        rw [hp] at h
        rw [List.cons_append, List.cons_append, List.append_assoc]
        exact ro_key_sized env fuel limit p n 0xDB 219 2 rfl rfl (by omega) _ k t ms v r' b (beN_length _ _)
          (beNat_beN4 _ (by omega)) hm h

end cases4

/-! ## softfloat facts -/
theorem pow_bound_lo (m M e E : Nat) (he : e ≤ E) (h : m ≤ M * 2^(E-e)) : m * 2^e ≤ M * 2^E := by
  have : 2^E = 2^(E-e) * 2^e := by rw [← Nat.pow_add]; congr 1; omega
  rw [this, ← Nat.mul_assoc]
  exact Nat.mul_le_mul_right _ h
theorem pow_bound_hi (m M e E : Nat) (he : E ≤ e) (h : m * 2^(e-E) ≤ M) : m * 2^e ≤ M * 2^E := by
  have : 2^e = 2^(e-E) * 2^E := by rw [← Nat.pow_add]; congr 1; omega
  rw [this, ← Nat.mul_assoc]
  exact Nat.mul_le_mul_right _ h

theorem decode_b32_m_lt' (b : Nat) (neg : Bool) (m : Nat) (e : Int) : decode b32 b = .fin neg m e → m < 2^24 := by
  simp only [decode, b32, Fmt.emax, Fmt.signBit, Fmt.bias]
  intro h
  by_cases h1 : (b / 2 ^ 23 % 2 ^ 8 == 2 ^ 8 - 1) = true
  · simp only [h1, reduceIte] at h
    by_cases h2 : (b % 2 ^ 23 == 0) = true
    · simp only [h2, reduceIte] at h; cases h
    · simp only [h2] at h; cases h
  · simp only [h1] at h
    by_cases h3 : (b / 2 ^ 23 % 2 ^ 8 == 0) = true
    · simp only [h3, reduceIte] at h; injection h with _ hm _; omega
    · simp only [h3] at h; injection h with _ hm _; omega
theorem decode_b32_m_lt {b : Nat} {neg : Bool} {m : Nat} {e : Int} (hd : decode b32 b = .fin neg m e) : m < 2^24 :=
  decode_b32_m_lt' b neg m e hd

theorem le_fin_fin (f : Fmt) (a b : Nat) (na nb : Bool) (ma mb : Nat) (ea eb : Int)
    (ha : decode f a = .fin na ma ea) (hb : decode f b = .fin nb mb eb) (h : le f a b = true) :
    (if na then -1 else 1) * ((ma * 2^((ea - min eb ea).toNat) : Nat) : Int)
      ≤ (if nb then -1 else 1) * ((mb * 2^((eb - min eb ea).toNat) : Nat) : Int) := by
  unfold le at h
  rw [ha, hb] at h
  simp only at h
  unfold lt at h
  rw [hb, ha] at h
  simp only at h
  simpa using h

theorem le_fin_fin_pos (f : Fmt) (a b : Nat) (ma mb : Nat) (ea eb : Int)
    (ha : decode f a = .fin false ma ea) (hb : decode f b = .fin false mb eb) (h : le f a b = true) :
    ma * 2^((ea - min eb ea).toNat) ≤ mb * 2^((eb - min eb ea).toNat) := by
  have := le_fin_fin f a b false false ma mb ea eb ha hb h
  generalize ma * 2^((ea - min eb ea).toNat) = X at this ⊢
  generalize mb * 2^((eb - min eb ea).toNat) = Y at this ⊢
  simp at this
  omega

theorem le_fin_fin_neg (f : Fmt) (a b : Nat) (ma mb : Nat) (ea eb : Int)
    (ha : decode f a = .fin true ma ea) (hb : decode f b = .fin true mb eb) (h : le f a b = true) :
    mb * 2^((eb - min eb ea).toNat) ≤ ma * 2^((ea - min eb ea).toNat) := by
  have := le_fin_fin f a b true true ma mb ea eb ha hb h
  generalize ma * 2^((ea - min eb ea).toNat) = X at this ⊢
  generalize mb * 2^((eb - min eb ea).toNat) = Y at this ⊢
  simp at this
  omega


/-! ## `cvt b64 b32` stays within 32 bits -/
theorem rneShift_le (n k : Nat) : rneShift n k ≤ n / 2^k + 1 := by
  unfold rneShift
  split
  · rename_i h; subst h; simp
  · simp only
    repeat' split
    all_goals omega

def rawOf (m : Nat) (e e' : Int) : Nat :=
  if e' ≥ e then rneShift m (e' - e).toNat else m * 2^((e - e').toNat)
def ePrime (m : Nat) (e : Int) : Int := max (e + ((Nat.log2 m + 1 : Nat) : Int) - 24) (-149)

theorem roundPos_b32_eq (neg : Bool) (m : Nat) (e : Int) : roundPos b32 neg m e =
    (let s := if neg then 2^31 else 0
     if m = 0 then s else
     let (mr, e') := if rawOf m e (ePrime m e) ≥ 2^24 then (rawOf m e (ePrime m e) / 2, ePrime m e + 1)
                     else (rawOf m e (ePrime m e), ePrime m e)
     if mr < 2^23 then s + mr else
       let ex : Int := e' + 127 + 23
       if ex ≥ 255 then s + 255 * 2^23 else s + ex.toNat * 2^23 + (mr - 2^23)) := rfl

theorem rawOf_le (m : Nat) (e e' : Int) (len : Nat) (hlt : m < 2^len) (he : e + (len : Int) - 24 ≤ e') :
    rawOf m e e' ≤ 2^24 := by
  unfold rawOf
  split
  · generalize hk : (e' - e).toNat = k
    have hlk : len ≤ k + 24 := by omega
    have h1 : m < 2^k * 2^24 := by
      rw [← Nat.pow_add]
      exact Nat.lt_of_lt_of_le hlt (Nat.pow_le_pow_right (by omega) hlk)
    have h2 : m / 2^k < 2^24 := Nat.div_lt_of_lt_mul h1
    have := rneShift_le m k
    omega
  · generalize hj : (e - e').toNat = j
    have hlj : len + j ≤ 24 := by omega
    have h1 : m * 2^j < 2^len * 2^j := Nat.mul_lt_mul_of_pos_right hlt (Nat.two_pow_pos j)
    rw [← Nat.pow_add] at h1
    have h2 : 2^(len + j) ≤ 2^24 := Nat.pow_le_pow_right (by omega) hlj
    omega

theorem roundPos_b32_lt (neg : Bool) (m : Nat) (e : Int) : roundPos b32 neg m e < 2^32 := by
  rw [roundPos_b32_eq]
  have hraw : rawOf m e (ePrime m e) ≤ 2^24 :=
    rawOf_le m e (ePrime m e) (Nat.log2 m + 1) Nat.lt_log2_self (by unfold ePrime; omega)
  generalize rawOf m e (ePrime m e) = raw at *
  generalize ePrime m e = e' at *
  have hs : (if neg = true then 2^31 else 0) ≤ 2^31 := by split <;> omega
  generalize (if neg = true then 2^31 else 0) = s at *
  simp only []
  by_cases hm : m = 0
  · simp only [hm, reduceIte]; omega
  · simp only [hm, reduceIte]
    by_cases hc : raw ≥ 2^24
    · simp only [if_pos hc]
      repeat' split
      all_goals omega
    · simp only [if_neg hc]
      repeat' split
      all_goals omega

theorem cvt_b32_lt (b : Nat) : cvt b64 b32 b < 2^32 := by
  unfold cvt
  split
  · decide
  · rename_i n _; cases n <;> decide
  · exact roundPos_b32_lt _ _ _


end MD
