/- Helper lemmas for C08: the byte-level pieces of the MessagePack serializer model (`MD.encUInt`, `MD.encInt`,
   `MD.strHdr`, `MD.arrHdr`, `MD.mapHdr`, `MD.encF32`, `MD.encF64`) are read back by the independent
   specification decoder `MSpec.decode`. -/
import AJ.Model.MD
import AJ.Spec.MSpec
namespace MsgPack
open MSpec MD

/-! ## big-endian -/
theorem be_beN1 (n : Nat) (h : n < 256) : be (beN 1 n) = n := by simp [beN, be]; omega
theorem be_beN2 (n : Nat) (h : n < 65536) : be (beN 2 n) = n := by simp [beN, be, List.range_succ]; omega
theorem be_beN4 (n : Nat) (h : n < 4294967296) : be (beN 4 n) = n := by simp [beN, be, List.range_succ]; omega
theorem be_beN8 (n : Nat) (h : n < 18446744073709551616) : be (beN 8 n) = n := by
  simp [beN, be, List.range_succ]; omega
theorem beN1_eq (n : Nat) : beN 1 n = [UInt8.ofNat (n % 256)] := by simp [beN]
theorem toNat_ofNat_lt (n : Nat) (h : n < 256) : (UInt8.ofNat n).toNat = n := by simp; omega
theorem beN_length (k n : Nat) : (beN k n).length = k := by simp [beN]

theorem take?_append (n : Nat) (l r : List UInt8) (h : l.length = n) : take? n (l ++ r) = some (l, r) := by
  subst h; simp [take?]

theorem take?_beN (k n : Nat) (r : List UInt8) : take? k (beN k n ++ r) = some (beN k n, r) :=
  take?_append _ _ _ (beN_length k n)

theorem signed1 (v : Int) (h1 : -128 ≤ v) (h2 : v < 0) : signed 1 (v + 256).toNat = v := by
  simp [signed]; omega
theorem signed2 (v : Int) (h1 : -32768 ≤ v) (h2 : v < 0) : signed 2 (v + 65536).toNat = v := by
  simp [signed]; omega
theorem signed4 (v : Int) (h1 : -2147483648 ≤ v) (h2 : v < 0) : signed 4 (v + 2^32).toNat = v := by
  simp [signed]; omega
theorem signed8 (v : Int) (h1 : -9223372036854775808 ≤ v) (h2 : v < 0) : signed 8 (v + 2^64).toNat = v := by
  simp [signed]; omega

/-! ## one step of the specification decoder -/
theorem decode_step (f : Nat) (c : UInt8) (r : List UInt8) :
  decode (f+1) (c :: r) =
    (let c := c.toNat
    if c ≤ 0x7f then some (.int c, r)
    else if c ≤ 0x8f then decodeMap f (c - 0x80) r []
    else if c ≤ 0x9f then decodeArr f (c - 0x90) r []
    else if c ≤ 0xbf then (take? (c - 0xa0) r).map (fun (s, r) => (.str s, r))
    else if c == 0xc0 then some (.nil, r)
    else if c == 0xc1 then none
    else if c == 0xc2 then some (.bool false, r)
    else if c == 0xc3 then some (.bool true, r)
    else if c == 0xc4 || c == 0xc5 || c == 0xc6 then
      let w := 2^(c - 0xc4)
      (take? w r).bind (fun (l, r) => (take? (be l) r).map (fun (s, r) => (.bin s, r)))
    else if c == 0xc7 || c == 0xc8 || c == 0xc9 then
      let w := 2^(c - 0xc7)
      (take? w r).bind (fun (l, r) => (take? 1 r).bind (fun (t, r) => (take? (be l) r).map (fun (s, r) => (.ext (be t) s, r))))
    else if c == 0xca then (take? 4 r).map (fun (b, r) => (.f32 (be b), r))
    else if c == 0xcb then (take? 8 r).map (fun (b, r) => (.f64 (be b), r))
    else if 0xcc ≤ c && c ≤ 0xcf then let w := 2^(c - 0xcc); (take? w r).map (fun (b, r) => (.int (be b), r))
    else if 0xd0 ≤ c && c ≤ 0xd3 then let w := 2^(c - 0xd0); (take? w r).map (fun (b, r) => (.int (signed w (be b)), r))
    else if 0xd4 ≤ c && c ≤ 0xd8 then
      let n := 2^(c - 0xd4)
      (take? 1 r).bind (fun (t, r) => (take? n r).map (fun (s, r) => (.ext (be t) s, r)))
    else if c == 0xd9 || c == 0xda || c == 0xdb then
      let w := 2^(c - 0xd9)
      (take? w r).bind (fun (l, r) => (take? (be l) r).map (fun (s, r) => (.str s, r)))
    else if c == 0xdc || c == 0xdd then let w := 2 * 2^(c - 0xdc); (take? w r).bind (fun (l, r) => decodeArr f (be l) r [])
    else if c == 0xde || c == 0xdf then let w := 2 * 2^(c - 0xde); (take? w r).bind (fun (l, r) => decodeMap f (be l) r [])
    else some (.int (Int.ofNat c - 256), r)) := by
  rw [decode]

/-- resolve the `if` ladder of `decode_step` once the range of the header byte is known -/
macro "ladder" : tactic =>
  `(tactic| (simp only [beq_iff_eq, Bool.or_eq_true, Bool.and_eq_true, decide_eq_true_eq]
             repeat (first | rw [if_neg (by omega)] | rw [if_pos (by omega)])))

theorem decode_fixint (f : Nat) (c : UInt8) (r : List UInt8) (h : c.toNat ≤ 0x7f) :
    decode (f+1) (c :: r) = some (.int c.toNat, r) := by
  rw [decode_step]; simp only [if_pos h]
theorem decode_negfix (f : Nat) (c : UInt8) (r : List UInt8) (h : 0xe0 ≤ c.toNat) :
    decode (f+1) (c :: r) = some (.int (Int.ofNat c.toNat - 256), r) := by
  rw [decode_step]; ladder
theorem decode_fixmap (f : Nat) (c : UInt8) (r : List UInt8) (h1 : 0x80 ≤ c.toNat) (h2 : c.toNat ≤ 0x8f) :
    decode (f+1) (c :: r) = decodeMap f (c.toNat - 0x80) r [] := by
  rw [decode_step]; ladder
theorem decode_fixarr (f : Nat) (c : UInt8) (r : List UInt8) (h1 : 0x90 ≤ c.toNat) (h2 : c.toNat ≤ 0x9f) :
    decode (f+1) (c :: r) = decodeArr f (c.toNat - 0x90) r [] := by
  rw [decode_step]; ladder
theorem decode_fixstr (f : Nat) (c : UInt8) (r : List UInt8) (h1 : 0xa0 ≤ c.toNat) (h2 : c.toNat ≤ 0xbf) :
    decode (f+1) (c :: r) = (take? (c.toNat - 0xa0) r).map (fun (s, r) => (.str s, r)) := by
  rw [decode_step]; ladder

theorem decode_c0 (f : Nat) (r : List UInt8) : decode (f+1) (0xc0 :: r) = some (.nil, r) := by
  rw [decode_step]; rfl
theorem decode_c2 (f : Nat) (r : List UInt8) : decode (f+1) (0xc2 :: r) = some (.bool false, r) := by
  rw [decode_step]; rfl
theorem decode_c3 (f : Nat) (r : List UInt8) : decode (f+1) (0xc3 :: r) = some (.bool true, r) := by
  rw [decode_step]; rfl
theorem decode_ca (f : Nat) (r : List UInt8) :
    decode (f+1) (0xca :: r) = (take? 4 r).map (fun (b, r) => (.f32 (be b), r)) := by
  rw [decode_step]; rfl
theorem decode_cb (f : Nat) (r : List UInt8) :
    decode (f+1) (0xcb :: r) = (take? 8 r).map (fun (b, r) => (.f64 (be b), r)) := by
  rw [decode_step]; rfl
theorem decode_cc (f : Nat) (r : List UInt8) :
    decode (f+1) (0xcc :: r) = (take? 1 r).map (fun (b, r) => (.int (be b), r)) := by
  rw [decode_step]; rfl
theorem decode_cd (f : Nat) (r : List UInt8) :
    decode (f+1) (0xcd :: r) = (take? 2 r).map (fun (b, r) => (.int (be b), r)) := by
  rw [decode_step]; rfl
theorem decode_ce (f : Nat) (r : List UInt8) :
    decode (f+1) (0xce :: r) = (take? 4 r).map (fun (b, r) => (.int (be b), r)) := by
  rw [decode_step]; rfl
theorem decode_cf (f : Nat) (r : List UInt8) :
    decode (f+1) (0xcf :: r) = (take? 8 r).map (fun (b, r) => (.int (be b), r)) := by
  rw [decode_step]; rfl
theorem decode_d0 (f : Nat) (r : List UInt8) :
    decode (f+1) (0xd0 :: r) = (take? 1 r).map (fun (b, r) => (.int (signed 1 (be b)), r)) := by
  rw [decode_step]; rfl
theorem decode_d1 (f : Nat) (r : List UInt8) :
    decode (f+1) (0xd1 :: r) = (take? 2 r).map (fun (b, r) => (.int (signed 2 (be b)), r)) := by
  rw [decode_step]; rfl
theorem decode_d2 (f : Nat) (r : List UInt8) :
    decode (f+1) (0xd2 :: r) = (take? 4 r).map (fun (b, r) => (.int (signed 4 (be b)), r)) := by
  rw [decode_step]; rfl
theorem decode_d3 (f : Nat) (r : List UInt8) :
    decode (f+1) (0xd3 :: r) = (take? 8 r).map (fun (b, r) => (.int (signed 8 (be b)), r)) := by
  rw [decode_step]; rfl
theorem decode_d9 (f : Nat) (r : List UInt8) :
    decode (f+1) (0xd9 :: r) =
      (take? 1 r).bind (fun (l, r) => (take? (be l) r).map (fun (s, r) => (.str s, r))) := by
  rw [decode_step]; rfl
theorem decode_da (f : Nat) (r : List UInt8) :
    decode (f+1) (0xda :: r) =
      (take? 2 r).bind (fun (l, r) => (take? (be l) r).map (fun (s, r) => (.str s, r))) := by
  rw [decode_step]; rfl
theorem decode_db (f : Nat) (r : List UInt8) :
    decode (f+1) (0xdb :: r) =
      (take? 4 r).bind (fun (l, r) => (take? (be l) r).map (fun (s, r) => (.str s, r))) := by
  rw [decode_step]; rfl
theorem decode_dc (f : Nat) (r : List UInt8) :
    decode (f+1) (0xdc :: r) = (take? 2 r).bind (fun (l, r) => decodeArr f (be l) r []) := by
  rw [decode_step]; rfl
theorem decode_dd (f : Nat) (r : List UInt8) :
    decode (f+1) (0xdd :: r) = (take? 4 r).bind (fun (l, r) => decodeArr f (be l) r []) := by
  rw [decode_step]; rfl
theorem decode_de (f : Nat) (r : List UInt8) :
    decode (f+1) (0xde :: r) = (take? 2 r).bind (fun (l, r) => decodeMap f (be l) r []) := by
  rw [decode_step]; rfl
theorem decode_df (f : Nat) (r : List UInt8) :
    decode (f+1) (0xdf :: r) = (take? 4 r).bind (fun (l, r) => decodeMap f (be l) r []) := by
  rw [decode_step]; rfl

/-! ## integers -/
theorem decode_encUInt (f n : Nat) (h : n < 2^64) (rest : List UInt8) :
    decode (f+1) (encUInt n ++ rest) = some (.int n, rest) := by
  unfold encUInt
  split
  · have e : (UInt8.ofNat n).toNat = n := toNat_ofNat_lt _ (by omega)
    rw [List.singleton_append, decode_fixint _ _ _ (by rw [e]; omega), e]
  · split
    · rw [List.cons_append, decode_cc, take?_beN]; simp only [Option.map_some]; rw [be_beN1 n (by omega)]
    · split
      · rw [List.cons_append, decode_cd, take?_beN]; simp only [Option.map_some]; rw [be_beN2 n (by omega)]
      · split
        · rw [List.cons_append, decode_ce, take?_beN]; simp only [Option.map_some]; rw [be_beN4 n (by omega)]
        · rw [List.cons_append, decode_cf, take?_beN]; simp only [Option.map_some]; rw [be_beN8 n (by omega)]

theorem decode_encInt (f : Nat) (v : Int) (h1 : -2^63 ≤ v) (h2 : v < 2^63) (rest : List UInt8) :
    decode (f+1) (encInt v ++ rest) = some (.int v, rest) := by
  unfold encInt
  split
  · rw [decode_encUInt _ _ (by omega)]
    congr 3; omega
  · split
    · rw [beN1_eq, List.singleton_append]
      by_cases hz : v = 0
      · subst hz; rw [decode_fixint _ _ _ (by decide)]; rfl
      · have e : (UInt8.ofNat ((v + 256).toNat % 256)).toNat = (v + 256).toNat := by
          rw [toNat_ofNat_lt _ (by omega)]; omega
        rw [decode_negfix _ _ _ (by rw [e]; omega), e]
        congr 3; simp only [Int.ofNat_eq_natCast]; omega
    · split
      · rw [List.cons_append, decode_d0, take?_beN]
        simp only [Option.map_some]; rw [be_beN1 _ (by omega), signed1 v (by omega) (by omega)]
      · split
        · rw [List.cons_append, decode_d1, take?_beN]
          simp only [Option.map_some]; rw [be_beN2 _ (by omega), signed2 v (by omega) (by omega)]
        · split
          · rw [List.cons_append, decode_d2, take?_beN]
            simp only [Option.map_some]; rw [be_beN4 _ (by omega), signed4 v (by omega) (by omega)]
          · rw [List.cons_append, decode_d3, take?_beN]
            simp only [Option.map_some]; rw [be_beN8 _ (by omega), signed8 v (by omega) (by omega)]

/-! ## string / array / map headers -/
theorem decode_str (f : Nat) (s : List UInt8) (h : s.length < 2^32) (rest : List UInt8) :
    decode (f+1) (strHdr s.length ++ s ++ rest) = some (.str s, rest) := by
  unfold strHdr
  split
  · have e : (UInt8.ofNat (0xA0 + s.length)).toNat = 0xA0 + s.length := toNat_ofNat_lt _ (by omega)
    rw [List.singleton_append, List.cons_append,
      decode_fixstr _ _ _ (by rw [e]; omega) (by rw [e]; omega), e,
      take?_append _ s rest (by omega)]; rfl
  · split
    · rw [List.append_assoc, List.cons_append, decode_d9, take?_beN]
      simp only [Option.bind_some]
      rw [be_beN1 _ (by omega), take?_append _ s rest rfl]; rfl
    · split
      · rw [List.append_assoc, List.cons_append, decode_da, take?_beN]
        simp only [Option.bind_some]
        rw [be_beN2 _ (by omega), take?_append _ s rest rfl]; rfl
      · rw [List.append_assoc, List.cons_append, decode_db, take?_beN]
        simp only [Option.bind_some]
        rw [be_beN4 _ (by omega), take?_append _ s rest rfl]; rfl

theorem decode_arrHdr (f n : Nat) (h : n < 2^32) (body : List UInt8) :
    decode (f+1) (arrHdr n ++ body) = decodeArr f n body [] := by
  unfold arrHdr
  split
  · have e : (UInt8.ofNat (0x90 + n)).toNat = 0x90 + n := toNat_ofNat_lt _ (by omega)
    rw [List.singleton_append, decode_fixarr _ _ _ (by rw [e]; omega) (by rw [e]; omega), e,
      Nat.add_sub_cancel_left]
  · split
    · rw [List.cons_append, decode_dc, take?_beN]
      simp only [Option.bind_some]; rw [be_beN2 _ (by omega)]
    · rw [List.cons_append, decode_dd, take?_beN]
      simp only [Option.bind_some]; rw [be_beN4 _ (by omega)]

theorem decode_mapHdr (f n : Nat) (h : n < 2^32) (body : List UInt8) :
    decode (f+1) (mapHdr n ++ body) = decodeMap f n body [] := by
  unfold mapHdr
  split
  · have e : (UInt8.ofNat (0x80 + n)).toNat = 0x80 + n := toNat_ofNat_lt _ (by omega)
    rw [List.singleton_append, decode_fixmap _ _ _ (by rw [e]; omega) (by rw [e]; omega), e,
      Nat.add_sub_cancel_left]
  · split
    · rw [List.cons_append, decode_de, take?_beN]
      simp only [Option.bind_some]; rw [be_beN2 _ (by omega)]
    · rw [List.cons_append, decode_df, take?_beN]
      simp only [Option.bind_some]; rw [be_beN4 _ (by omega)]


/-! ## softfloat facts needed for the float32/float64 encoders -/
section floats
open SF

theorem rneShift_le (n k : Nat) : rneShift n k ≤ n / 2^k + 1 := by
  by_cases hk : k = 0
  · subst hk; simp [rneShift]
  · simp only [rneShift, if_neg hk]
    repeat' split
    all_goals omega

theorem mr_le (m : Nat) (e e' : Int) (t : Nat)
    (he' : e + ((Nat.log2 m + 1 : Nat) : Int) - ((t : Int) + 1) ≤ e') :
    (if e' ≥ e then rneShift m (e' - e).toNat else m * 2^((e - e').toNat)) ≤ 2^(t+1) := by
  have hlt : m < 2^(Nat.log2 m + 1) := Nat.lt_log2_self
  split
  · have h1 : 2^(Nat.log2 m + 1) ≤ 2^((e' - e).toNat) * 2^(t+1) := by
      rw [← Nat.pow_add]; exact Nat.pow_le_pow_right (by decide) (by omega)
    have h2 : m / 2^((e' - e).toNat) < 2^(t+1) := Nat.div_lt_of_lt_mul (Nat.lt_of_lt_of_le hlt h1)
    have h3 := rneShift_le m (e' - e).toNat
    omega
  · have h1 : m * 2^((e - e').toNat) < 2^(Nat.log2 m + 1) * 2^((e - e').toNat) :=
      Nat.mul_lt_mul_of_pos_right hlt (Nat.two_pow_pos _)
    have h2 : 2^(Nat.log2 m + 1) * 2^((e - e').toNat) ≤ 2^(t+1) := by
      rw [← Nat.pow_add]; exact Nat.pow_le_pow_right (by decide) (by omega)
    omega

theorem roundPos32_lt (neg : Bool) (m : Nat) (e : Int) : roundPos b32 neg m e < 2^32 := by
  have hs : (if neg = true then (2147483648 : Nat) else 0) ≤ 2147483648 := by split <;> omega
  dsimp only [roundPos, b32, Fmt.signBit, Fmt.bias, Fmt.emax, infBits]
  split
  · simp only [Nat.reducePow, Nat.reduceAdd]; omega
  · have hmr := mr_le m e (max (e + ((Nat.log2 m + 1 : Nat) : Int) - ((23 : Nat) + 1)) (1 - ((2^(8-1) - 1 : Nat) : Int) - (23 : Nat))) 23 (by omega)
    generalize max (e + ((Nat.log2 m + 1 : Nat) : Int) - ((23 : Nat) + 1)) (1 - ((2^(8-1) - 1 : Nat) : Int) - (23 : Nat)) = E at hmr ⊢
    generalize (if E ≥ e then rneShift m (E - e).toNat else m * 2^((e - E).toNat)) = mr at hmr ⊢
    simp only [Nat.reducePow, Nat.reduceAdd, Nat.reduceSub, Nat.reduceMul] at hmr ⊢
    by_cases hge : mr ≥ 16777216
    · simp only [if_pos hge]
      repeat' split
      all_goals omega
    · simp only [if_neg hge]
      repeat' split
      all_goals omega

theorem infBits32_lt (n : Bool) : infBits b32 n < 2^32 := by cases n <;> decide

theorem cvt32_lt (bits : Nat) : JD.cvt b64 b32 bits < 2^32 := by
  unfold JD.cvt
  split
  · decide
  · exact infBits32_lt _
  · exact roundPos32_lt _ _ _

theorem decode_fin_lt (f : Fmt) (bits : Nat) (neg : Bool) (m : Nat) (e : Int)
    (h : SF.decode f bits = .fin neg m e) : m < 2^(f.mbits+1) := by
  have hp : 0 < 2^f.mbits := Nat.two_pow_pos _
  have hmod : bits % 2^f.mbits < 2^f.mbits := Nat.mod_lt _ hp
  have hs : 2^(f.mbits+1) = 2 * 2^f.mbits := by rw [Nat.pow_succ, Nat.mul_comm]
  simp only [SF.decode] at h
  split at h
  · split at h <;> cases h
  · split at h
    · injection h with _ hm _; omega
    · injection h with _ hm _; omega

theorem decode32_fin (bits : Nat) (neg : Bool) (m : Nat) (e : Int)
    (h : SF.decode b32 bits = .fin neg m e) : m < 2^24 := decode_fin_lt b32 bits neg m e h

theorem dec_lo : SF.decode b32 0xDF000000 = .fin true 8388608 40 := by decide +kernel
theorem dec_hi : SF.decode b32 0x5EFFFFFF = .fin false 16777215 39 := by decide +kernel

theorem ge_lo_iff (bits : Nat) (neg : Bool) (m : Nat) (e : Int) (h : SF.decode b32 bits = .fin neg m e) :
    ge b32 bits 0xDF000000 = true ↔
      ¬ ((if neg then -1 else 1) * ((m * 2^((e - min e 40).toNat) : Nat) : Int)
          < (-1) * ((8388608 * 2^((40 - min e 40).toNat) : Nat) : Int)) := by
  simp [ge, le, lt, h, dec_lo]

theorem le_hi_iff (bits : Nat) (neg : Bool) (m : Nat) (e : Int) (h : SF.decode b32 bits = .fin neg m e) :
    le b32 bits 0x5EFFFFFF = true ↔
      ¬ ((1 : Int) * ((16777215 * 2^((39 - min 39 e).toNat) : Nat) : Int)
          < (if neg then -1 else 1) * ((m * 2^((e - min 39 e).toNat) : Nat) : Int)) := by
  simp [le, lt, h, dec_hi]

/-- magnitude (truncated) of a finite value m * 2^e -/
def magOf (m : Nat) (e : Int) : Nat := if e ≥ 0 then m * 2^e.toNat else m / 2^((-e).toNat)

theorem lo_nat (bits : Nat) (m : Nat) (e : Int) (h : SF.decode b32 bits = .fin true m e)
    (hlo : ge b32 bits 0xDF000000 = true) (he : 40 ≤ e) : m * 2^((e - 40).toNat) ≤ 8388608 := by
  have h1 := (ge_lo_iff bits true m e h).1 hlo
  have e1 : min e 40 = 40 := by omega
  simp only [e1, Int.sub_self, Int.toNat_zero, Nat.pow_zero, Nat.mul_one, ↓reduceIte] at h1
  generalize m * 2^((e - 40).toNat) = X at h1 ⊢
  omega

theorem hi_nat (bits : Nat) (m : Nat) (e : Int) (h : SF.decode b32 bits = .fin false m e)
    (hhi : le b32 bits 0x5EFFFFFF = true) (he : 39 ≤ e) : m * 2^((e - 39).toNat) ≤ 16777215 := by
  have h1 := (le_hi_iff bits false m e h).1 hhi
  have e1 : min 39 e = 39 := by omega
  simp only [e1, Int.sub_self, Int.toNat_zero, Nat.pow_zero, Nat.mul_one, Bool.false_eq_true, ↓reduceIte] at h1
  generalize m * 2^((e - 39).toNat) = X at h1 ⊢
  omega

theorem mag_small (m : Nat) (e : Int) (hm : m < 2^24) (he : e < 40) : magOf m e < 2^63 := by
  unfold magOf
  split
  · have h1 : 2^e.toNat ≤ 2^39 := Nat.pow_le_pow_right (by decide) (by omega)
    have h2 : m * 2^e.toNat ≤ m * 2^39 := Nat.mul_le_mul_left _ h1
    omega
  · have : m / 2^((-e).toNat) ≤ m := Nat.div_le_self _ _
    omega

theorem mag_split (m : Nat) (e : Int) (c : Nat) (he : (c : Int) ≤ e) :
    magOf m e = m * 2^((e - c).toNat) * 2^c := by
  unfold magOf
  rw [if_pos (by omega), Nat.mul_assoc, ← Nat.pow_add]
  congr 2; omega

theorem shortcut_range (bits : Nat) (neg : Bool) (m : Nat) (e : Int) (h : SF.decode b32 bits = .fin neg m e)
    (hlo : ge b32 bits 0xDF000000 = true) (hhi : le b32 bits 0x5EFFFFFF = true) :
    -2^63 ≤ (if neg then -(magOf m e : Int) else (magOf m e : Int)) ∧
      (if neg then -(magOf m e : Int) else (magOf m e : Int)) < 2^63 := by
  have hm := decode32_fin bits neg m e h
  cases neg with
  | true =>
    simp only [↓reduceIte]
    by_cases he : 40 ≤ e
    · have h1 := lo_nat bits m e h hlo he
      have h2 := mag_split m e 40 he
      generalize m * 2^((e - (40:Nat)).toNat) = X at h1 h2
      omega
    · have := mag_small m e hm (by omega); omega
  | false =>
    simp only [Bool.false_eq_true, ↓reduceIte]
    by_cases he : 39 ≤ e
    · have h1 := hi_nat bits m e h hhi he
      have h2 := mag_split m e 39 he
      generalize m * 2^((e - (39:Nat)).toNat) = X at h1 h2
      omega
    · have := mag_small m e hm (by omega); omega

/-- the MessagePack value written for a binary32 bit pattern: the integer of the same value when the serializer
    takes its integer shortcut, the bit-identical float32 otherwise -/
def f32MV (bits : Nat) : MV :=
  match SF.decode b32 bits with
  | .fin neg m e =>
    if (ge b32 bits 0xDF000000 && le b32 bits 0x5EFFFFFF) && (e ≥ 0 || m % 2^((-e).toNat) == 0) then
      .int (if neg then -(magOf m e : Int) else (magOf m e : Int))
    else .f32 bits
  | _ => .f32 bits

theorem decode_f32raw (f bits : Nat) (h : bits < 2^32) (rest : List UInt8) :
    MSpec.decode (f+1) ((0xCA :: beN 4 bits) ++ rest) = some (.f32 bits, rest) := by
  rw [List.cons_append, decode_ca, take?_beN]; simp only [Option.map_some]; rw [be_beN4 _ (by omega)]

theorem decode_f64raw (f bits : Nat) (h : bits < 2^64) (rest : List UInt8) :
    MSpec.decode (f+1) ((0xCB :: beN 8 bits) ++ rest) = some (.f64 bits, rest) := by
  rw [List.cons_append, decode_cb, take?_beN]; simp only [Option.map_some]; rw [be_beN8 _ (by omega)]

theorem decode_encF32 (f bits : Nat) (h : bits < 2^32) (rest : List UInt8) :
    MSpec.decode (f+1) (encF32 bits ++ rest) = some (f32MV bits, rest) := by
  cases hd : SF.decode b32 bits with
  | nan => simp only [encF32, f32MV, hd]; exact decode_f32raw f bits h rest
  | inf n => simp only [encF32, f32MV, hd]; exact decode_f32raw f bits h rest
  | fin neg m e =>
    simp only [encF32, f32MV, hd, magOf]
    split
    · rename_i hc
      simp only [Bool.and_eq_true] at hc
      have hr := shortcut_range bits neg m e hd hc.1.1 hc.1.2
      simp only [magOf] at hr
      exact decode_encInt f _ hr.1 hr.2 rest
    · exact decode_f32raw f bits h rest

/-! ### binary32 → binary64 is exact -/
theorem decode32_fin_range (bits : Nat) (neg : Bool) (m : Nat) (e : Int)
    (h : SF.decode b32 bits = .fin neg m e) : -149 ≤ e ∧ e ≤ 104 := by
  dsimp only [SF.decode, b32, Fmt.emax, Fmt.bias, Fmt.signBit] at h
  simp only [Nat.reducePow, Nat.reduceAdd, Nat.reduceSub] at h
  split at h
  · split at h <;> cases h
  · rename_i h1
    split at h
    · injection h with _ _ he; omega
    · rename_i h2
      simp only [beq_iff_eq] at h1 h2
      injection h with _ _ he; omega

theorem decode64_normal (neg : Bool) (ex X : Nat) (h1 : 0 < ex) (h2 : ex < 2047)
    (h3 : 4503599627370496 ≤ X) (h4 : X < 9007199254740992) :
    SF.decode b64 ((if neg then 9223372036854775808 else 0) + ex * 4503599627370496 + (X - 4503599627370496))
      = .fin neg X ((ex : Int) - 1023 - 52) := by
  dsimp only [SF.decode, b64, Fmt.emax, Fmt.bias, Fmt.signBit]
  simp only [Nat.reducePow, Nat.reduceAdd, Nat.reduceSub]
  generalize hb : (if neg = true then 9223372036854775808 else 0) + ex * 4503599627370496 + (X - 4503599627370496) = b
  have hs : (if neg = true then (9223372036854775808 : Nat) else 0) = 0 ∨
            (if neg = true then (9223372036854775808 : Nat) else 0) = 9223372036854775808 := by
    cases neg <;> simp
  have e1 : b / 4503599627370496 % 2048 = ex := by omega
  have e2 : b % 4503599627370496 + 4503599627370496 = X := by omega
  have e3 : (b / 9223372036854775808 % 2 == 1) = neg := by
    cases neg
    · simp at hb ⊢; omega
    · simp at hb ⊢; omega
  rw [e1, e2, e3]
  rw [if_neg (by simp; omega), if_neg (by simp; omega)]
  rfl

theorem log2_bounds (m : Nat) (hm0 : m ≠ 0) (hm : m < 2^24) :
    Nat.log2 m + 1 ≤ 24 ∧ 2^(Nat.log2 m) ≤ m ∧ m < 2^(Nat.log2 m + 1) :=
  ⟨by have := (Nat.log2_lt hm0).2 hm; omega, Nat.log2_self_le hm0, Nat.lt_log2_self⟩

theorem widen_mr (m : Nat) (hm0 : m ≠ 0) (hm : m < 2^24) :
    4503599627370496 ≤ m * 2^(53 - (Nat.log2 m + 1)) ∧ m * 2^(53 - (Nat.log2 m + 1)) < 9007199254740992 := by
  obtain ⟨hL, hlo, hhi⟩ := log2_bounds m hm0 hm
  have a : 2^(Nat.log2 m) * 2^(53 - (Nat.log2 m + 1)) = 4503599627370496 := by
    rw [← Nat.pow_add]; have : Nat.log2 m + (53 - (Nat.log2 m + 1)) = 52 := by omega
    rw [this]
  have b : 2^(Nat.log2 m + 1) * 2^(53 - (Nat.log2 m + 1)) = 9007199254740992 := by
    rw [← Nat.pow_add]; have : Nat.log2 m + 1 + (53 - (Nat.log2 m + 1)) = 53 := by omega
    rw [this]
  have c := Nat.mul_le_mul_right (2^(53 - (Nat.log2 m + 1))) hlo
  have d := Nat.mul_lt_mul_of_pos_right hhi (Nat.two_pow_pos (53 - (Nat.log2 m + 1)))
  omega

theorem roundPos64_small (neg : Bool) (m : Nat) (e : Int) (hm0 : m ≠ 0) (hm : m < 2^24)
    (he1 : -149 ≤ e) (he2 : e ≤ 104) :
    roundPos b64 neg m e =
      (if neg then 9223372036854775808 else 0)
        + (e + ((Nat.log2 m + 1 : Nat) : Int) + 1022).toNat * 4503599627370496
        + (m * 2^(53 - (Nat.log2 m + 1)) - 4503599627370496) := by
  obtain ⟨hL, _, _⟩ := log2_bounds m hm0 hm
  obtain ⟨hx1, hx2⟩ := widen_mr m hm0 hm
  dsimp only [roundPos, b64, Fmt.signBit, Fmt.bias, Fmt.emax, infBits]
  rw [if_neg hm0]
  generalize hE : max (e + ((Nat.log2 m + 1 : Nat) : Int) - ((52 : Nat) + 1)) (1 - ((2^(11-1) - 1 : Nat) : Int) - (52 : Nat)) = E
  have hE' : E = e + ((Nat.log2 m + 1 : Nat) : Int) - 53 := by
    simp only [Nat.reducePow, Nat.reduceSub] at hE; omega
  have hd : (e - E).toNat = 53 - (Nat.log2 m + 1) := by omega
  rw [if_neg (by omega : ¬ E ≥ e), hd]
  generalize m * 2^(53 - (Nat.log2 m + 1)) = X at hx1 hx2 ⊢
  simp only [Nat.reducePow, Nat.reduceAdd, Nat.reduceSub, Nat.reduceMul]
  simp only [if_neg (by omega : ¬ X ≥ 9007199254740992)]
  rw [if_neg (by omega : ¬ X < 4503599627370496)]
  rw [if_neg (by omega)]
  have : (E + ((1023 : Nat) : Int) + ((52 : Nat) : Int)).toNat = (e + ((Nat.log2 m + 1 : Nat) : Int) + 1022).toNat := by omega
  rw [this]

/-- binary32 → binary64 is exact: the double has the same sign and the same value `m * 2^e`
    (mantissa scaled by `2^j`, exponent lowered by `j`) -/
theorem widen_exact (f : Nat) (neg : Bool) (m : Nat) (e : Int) (h : SF.decode b32 f = .fin neg m e) (hm0 : m ≠ 0) :
    SF.decode b64 (JD.cvt b32 b64 f)
      = .fin neg (m * 2^(53 - (Nat.log2 m + 1))) (e - ((53 - (Nat.log2 m + 1) : Nat) : Int)) := by
  have hm := decode32_fin f neg m e h
  obtain ⟨he1, he2⟩ := decode32_fin_range f neg m e h
  obtain ⟨hL, _, _⟩ := log2_bounds m hm0 hm
  obtain ⟨hx1, hx2⟩ := widen_mr m hm0 hm
  unfold JD.cvt; rw [h]; simp only []
  rw [roundPos64_small neg m e hm0 hm he1 he2]
  rw [decode64_normal neg _ _ (by omega) (by omega) hx1 hx2]
  congr 1; omega

/-- ±0 widens to ±0 -/
theorem widen_zero (f : Nat) (neg : Bool) (e : Int) (h : SF.decode b32 f = .fin neg 0 e) :
    SF.decode b64 (JD.cvt b32 b64 f) = .fin neg 0 (-1074) := by
  have hz : roundPos b64 neg 0 e = if neg then b64.signBit else 0 := by simp [roundPos]
  unfold JD.cvt; rw [h]; simp only []
  rw [hz]
  cases neg <;> decide +kernel

theorem decode64_nanBits : SF.decode b64 (nanBits b64) = .nan := by decide +kernel
theorem decode64_infBits (n : Bool) : SF.decode b64 (infBits b64 n) = .inf n := by cases n <;> decide +kernel

/-- `MD.encF64` narrows to float32 exactly when this holds (the `same` flag of the model) -/
def narrows (bits : Nat) : Bool :=
  match SF.decode b64 bits with
  | .nan => false
  | _ => JD.cvt b32 b64 (JD.cvt b64 b32 bits) == bits ||
      (match SF.decode b64 bits, SF.decode b32 (JD.cvt b64 b32 bits) with
        | .fin _ 0 _, .fin _ 0 _ => true | _, _ => false)

theorem encF64_eq (bits : Nat) :
    encF64 bits = if narrows bits then encF32 (JD.cvt b64 b32 bits) else 0xCB :: beN 8 bits := rfl

/-- the MessagePack value written for a binary64 bit pattern -/
def f64MV (bits : Nat) : MV :=
  if narrows bits then f32MV (JD.cvt b64 b32 bits) else .f64 bits

theorem narrows_spec (bits : Nat) (hn : narrows bits = true) :
    SF.decode b64 bits ≠ .nan ∧
      (JD.cvt b32 b64 (JD.cvt b64 b32 bits) = bits ∨
        ∃ n e n' e', SF.decode b64 bits = .fin n 0 e ∧ SF.decode b32 (JD.cvt b64 b32 bits) = .fin n' 0 e') := by
  refine ⟨?_, ?_⟩
  · intro h; simp [narrows, h] at hn
  · unfold narrows at hn
    split at hn
    · cases hn
    · simp only [Bool.or_eq_true, beq_iff_eq] at hn
      rcases hn with h | h
      · exact Or.inl h
      · right
        split at h
        · rename_i n e n' e' h1 h2; exact ⟨n, e, n', e', h1, h2⟩
        · cases h

theorem decode_encF64 (f bits : Nat) (h : bits < 2^64) (rest : List UInt8) :
    MSpec.decode (f+1) (encF64 bits ++ rest) = some (f64MV bits, rest) := by
  rw [encF64_eq]; unfold f64MV
  split
  · exact decode_encF32 f _ (cvt32_lt bits) rest
  · exact decode_f64raw f bits h rest

theorem cvt_nan (src dst : Fmt) (x : Nat) (h : SF.decode src x = .nan) : JD.cvt src dst x = nanBits dst := by
  unfold JD.cvt; rw [h]
theorem cvt_inf (src dst : Fmt) (x : Nat) (n : Bool) (h : SF.decode src x = .inf n) :
    JD.cvt src dst x = infBits dst n := by
  unfold JD.cvt; rw [h]

end floats

/-! ## lengths (shortest header) -/
theorem strHdr_length (n : Nat) :
    (strHdr n).length = if n < 32 then 1 else if n < 256 then 2 else if n < 65536 then 3 else 5 := by
  unfold strHdr; repeat' split
  all_goals simp [beN_length]
theorem arrHdr_length (n : Nat) :
    (arrHdr n).length = if n < 16 then 1 else if n < 65536 then 3 else 5 := by
  unfold arrHdr; repeat' split
  all_goals simp [beN_length]
theorem mapHdr_length (n : Nat) :
    (mapHdr n).length = if n < 16 then 1 else if n < 65536 then 3 else 5 := by
  unfold mapHdr; repeat' split
  all_goals simp [beN_length]
theorem encUInt_length (n : Nat) :
    (encUInt n).length =
      if n ≤ 127 then 1 else if n ≤ 255 then 2 else if n ≤ 65535 then 3 else if n ≤ 4294967295 then 5 else 9 := by
  unfold encUInt; repeat' split
  all_goals simp [beN_length]
theorem encInt_length (v : Int) :
    (encInt v).length =
      if v > 0 then (encUInt v.toNat).length
      else if v ≥ -32 then 1 else if v ≥ -128 then 2 else if v ≥ -32768 then 3
      else if v ≥ -2147483648 then 5 else 9 := by
  unfold encInt; repeat' split
  all_goals simp [beN_length]

theorem strHdr_pos (n : Nat) : 1 ≤ (strHdr n).length := by
  rw [strHdr_length]; repeat' split
  all_goals omega
theorem arrHdr_pos (n : Nat) : 1 ≤ (arrHdr n).length := by
  rw [arrHdr_length]; repeat' split
  all_goals omega
theorem mapHdr_pos (n : Nat) : 1 ≤ (mapHdr n).length := by
  rw [mapHdr_length]; repeat' split
  all_goals omega
theorem encUInt_pos (n : Nat) : 1 ≤ (encUInt n).length := by
  rw [encUInt_length]; repeat' split
  all_goals omega
theorem encInt_pos (v : Int) : 1 ≤ (encInt v).length := by
  rw [encInt_length]; repeat' split
  all_goals first | omega | exact encUInt_pos _
theorem encF32_pos (bits : Nat) : 1 ≤ (encF32 bits).length := by
  unfold encF32
  split
  · simp only []
    split
    · exact encInt_pos _
    · simp
  · simp
theorem encF64_pos (bits : Nat) : 1 ≤ (encF64 bits).length := by
  rw [encF64_eq]; split
  · exact encF32_pos _
  · simp

end MsgPack
