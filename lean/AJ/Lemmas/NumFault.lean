/- `parseNumber` never reports `.fault`: the powers-of-ten tables (9 / 9 / 6 / 6 entries) are long enough for every
   exponent that reaches `makeFloat`. -/
import AJ.Model.JD
namespace JD
open SF

theorem makeFloat_go_isSome (f : Fmt) (tbl : List Nat) (n : Nat) (hn : n ≤ tbl.length) :
    ∀ fuel acc e idx, e < 2 ^ (n - idx) → (makeFloat.go f tbl fuel acc e idx).isSome = true := by
  intro fuel
  induction fuel with
  | zero => intro acc e idx _; simp [makeFloat.go]
  | succ k ih =>
    intro acc e idx h
    simp only [makeFloat.go]
    split
    · rfl
    · rename_i he
      have hpos : 0 < n - idx := by
        rcases Nat.eq_zero_or_pos (n - idx) with h0 | h0
        · rw [h0] at h; simp at h; omega
        · exact h0
      have hlt : e / 2 < 2 ^ (n - (idx + 1)) := by
        have : n - idx = (n - (idx + 1)) + 1 := by omega
        rw [this, Nat.pow_succ] at h
        omega
      split
      · have hidx : idx < tbl.length := by omega
        split
        · rename_i hnone
          rw [List.getElem?_eq_none_iff] at hnone
          omega
        · exact ih _ _ _ hlt
      · exact ih _ _ _ hlt

theorem makeFloat_isSome (f : Fmt) (tp tn : List Nat) (n : Nat) (hp : n ≤ tp.length) (hq : n ≤ tn.length)
    (m : Nat) (e : Int) (he : e.natAbs < 2 ^ n) : (makeFloat f tp tn m e).isSome = true := by
  unfold makeFloat
  simp only
  split
  · exact makeFloat_go_isSome f tp n hp 64 m _ 0 (by simpa using he)
  · exact makeFloat_go_isSome f tn n hq 64 m _ 0 (by simpa using he)

theorem makeFloat64_ne_none (m : Nat) (e : Int) (h1 : ¬ e > (Gen.exponent_max64 : Int))
    (h2 : ¬ e < -((Gen.exponent_max64 : Int) + 17)) : makeFloat b64 pos64 neg64 m e ≠ none := by
  have := makeFloat_isSome b64 pos64 neg64 9 (by decide) (by decide) m e (by
    simp only [Gen.exponent_max64] at h1 h2; omega)
  intro h; rw [h] at this; simp at this

theorem makeFloat32_ne_none (m : Nat) (e : Int) (h1 : ¬ e > (Gen.exponent_max32 : Int))
    (h2 : ¬ e < -(Gen.exponent_max32 : Int)) : makeFloat b32 pos32 neg32 m e ≠ none := by
  have := makeFloat_isSome b32 pos32 neg32 6 (by decide) (by decide) m e (by
    simp only [Gen.exponent_max32] at h1 h2; omega)
  intro h; rw [h] at this; simp at this

def viaD (neg : Bool) (mant : Nat) (e : Int) : PNum :=
  match makeFloat b64 pos64 neg64 (ofNat b64 mant) e with
  | none => .fault
  | some r => .f64 (negBits b64 neg r)

theorem viaD_ne_fault (neg : Bool) (mant : Nat) (e : Int) (h1 : ¬ e > (Gen.exponent_max64 : Int))
    (h2 : ¬ e < -((Gen.exponent_max64 : Int) + 17)) : viaD neg mant e ≠ .fault := by
  unfold viaD
  have := makeFloat64_ne_none (ofNat b64 mant) e h1 h2
  split
  · contradiction
  · simp

theorem tail_ne_fault (neg : Bool) (mant : Nat) (e : Int) (h1 : ¬ e > (Gen.exponent_max64 : Int))
    (h2 : ¬ e < -((Gen.exponent_max64 : Int) + 17)) :
    (if (decide (e < -(Gen.exponent_max32 : Int)) || decide (e > (Gen.exponent_max32 : Int)) ||
          decide (mant > Gen.mantissa_max32)) = true then viaD neg mant e
     else match makeFloat b32 pos32 neg32 (ofNat b32 mant) e with
      | none => PNum.fault
      | some r => if isInf b32 r = true then viaD neg mant e else PNum.f32 (negBits b32 neg r)) ≠ PNum.fault := by
  have hv := viaD_ne_fault neg mant e h1 h2
  split
  · exact hv
  · rename_i hd
    have hd' : ¬ e > (Gen.exponent_max32 : Int) ∧ ¬ e < -(Gen.exponent_max32 : Int) := by
      simp only [Bool.or_eq_true, decide_eq_true_eq, not_or] at hd
      omega
    have := makeFloat32_ne_none (ofNat b32 mant) e hd'.1 hd'.2
    split
    · contradiction
    · split
      · exact hv
      · simp
theorem ite_ne {c : Prop} [Decidable c] {a b x : PNum} (ha : a ≠ x) (hb : ¬ c → b ≠ x) : (if c then a else b) ≠ x := by
  split
  · exact ha
  · exact hb ‹_›

set_option maxRecDepth 8000 in
theorem parseNumber_ne_fault (cfg : Cfg) (s : List Byte) : parseNumber cfg s ≠ .fault := by
  unfold parseNumber
  split
  rename_i neg s1 _
  extract_lets c0 maxU mmax emax
  clear_value c0 maxU mmax
  refine ite_ne PNum.noConfusion fun _ => ite_ne PNum.noConfusion fun _ => ite_ne PNum.noConfusion fun _ => ?_
  split
  rename_i mant s2 _
  refine ite_ne PNum.noConfusion fun _ => ite_ne PNum.noConfusion fun _ => ?_
  split
  rename_i mant2 off _
  split
  rename_i s3 off2 _
  split
  rename_i s4 mant3 off3 _
  split
  rename_i s5 e _
  extract_lets e2
  refine ite_ne PNum.noConfusion fun _ => ite_ne PNum.noConfusion fun _ => ite_ne PNum.noConfusion fun h1 => ite_ne PNum.noConfusion fun h2 => ?_
  exact tail_ne_fault neg mant3 e2 h1 h2
end JD
