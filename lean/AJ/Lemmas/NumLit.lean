/- `parseNumber` on the number literals of RFC 8259: it never rejects one (`.invalid`) and never leaves its
   power-of-ten tables (`.fault`); on integer literals inside the 64-bit ranges it returns the exact integer.
   The function is cut into stages (`core`, `stage1`, `stage2`, `stage3`, `Digits.finish`) that are definitionally
   the body of `JD.parseNumber`. -/
import AJ.Spec.Json
import AJ.Lemmas.Digits
set_option linter.unusedSimpArgs false
namespace JD
open SF Digits Spec.Json

/-! ## `parseNumber` by stages -/

/-- from the exponent on -/
def stage3 (neg : Bool) (s : List Byte) (mant : Nat) (off : Int) : PNum :=
  let (s, e) : List Byte × Int :=
    match s with
    | c :: r =>
      if c == 0x65 || c == 0x45 then
        let (negE, r) := match r with
          | 0x2D :: r' => (true, r')
          | 0x2B :: r' => (false, r')
          | _ => (false, r)
        let (r', e) := expDigits r 0
        (r', if negE then -(e : Int) else (e : Int))
      else (s, 0)
    | [] => ([], 0)
  finish neg s mant (e + off)

/-- from the decimal point on -/
def stage2 (neg : Bool) (s : List Byte) (mant : Nat) (off : Int) : PNum :=
  let (s, mant, off) := match s with
    | 0x2E :: r => fracDigits Gen.mantissa_max64 r mant off
    | _ => (s, mant, off)
  stage3 neg s mant off

/-- after the leading digits were accumulated -/
def stage1 (neg : Bool) (mant : Nat) (s : List Byte) : PNum :=
  if s.isEmpty && !neg then .uint mant else
  if s.isEmpty && neg && mant ≤ 2^63 then .sint (-(mant : Int)) else
  let (mant, off) := reduceMant Gen.mantissa_max64 32 mant 0
  let (s, off) := skipDigitsCount s off
  stage2 neg s mant off

/-- after the sign -/
def core (cfg : Cfg) (neg : Bool) (s : List Byte) : PNum :=
  let c0 := s.headD 0
  if cfg.nan && (c0 == 0x6E || c0 == 0x4E) then .f64 (nanBits b64) else
  if cfg.inf && (c0 == 0x69 || c0 == 0x49) then .f64 (infBits b64 neg) else
  if !(isDigit c0) && c0 != 0x2E then .invalid else
  let (mant, s) := takeDigitsMant (2^64 - 1) 0 s
  stage1 neg mant s

theorem parseNumber_minus (cfg : Cfg) (r : List Byte) : parseNumber cfg (0x2D :: r) = core cfg true r := rfl

theorem parseNumber_digit (cfg : Cfg) (d : Byte) (r : List Byte) (h1 : d ≠ 0x2D) (h2 : d ≠ 0x2B) :
    parseNumber cfg (d :: r) = core cfg false (d :: r) := by
  unfold parseNumber
  split
  rename_i neg' s' heq
  split at heq
  · rename_i r' h; exact absurd (List.cons.inj h).1 h1
  · rename_i r' h; exact absurd (List.cons.inj h).1 h2
  · cases heq; rfl

/-! ## The digit loops stop exactly at the first non-digit -/

/-- the text does not start with a digit -/
def Stop (tail : List Byte) : Prop := ∀ c r, tail = c :: r → isDigit c = false

theorem stop_nil : Stop [] := by intro c r h; cases h
theorem stop_cons {c : Byte} (h : isDigit c = false) (r : List Byte) : Stop (c :: r) := by
  intro x y hxy; rw [← (List.cons.inj hxy).1]; exact h

theorem takeDigitsMant_stop (maxU : Nat) {tail : List Byte} (ht : Stop tail) (ds : List Byte) (hd : AllDigits ds) :
    ∀ acc, ∃ m ds', AllDigits ds' ∧ takeDigitsMant maxU acc (ds ++ tail) = (m, ds' ++ tail) := by
  induction ds with
  | nil =>
    intro acc
    refine ⟨acc, [], AllDigits_nil, ?_⟩
    cases tail with
    | nil => rfl
    | cons c r => simp only [List.nil_append, takeDigitsMant, ht c r rfl, Bool.false_eq_true, ↓reduceIte]
  | cons d ds ih =>
    intro acc
    rw [AllDigits_cons] at hd
    simp only [List.cons_append, takeDigitsMant, isDigit_of_range hd.1, ↓reduceIte]
    split
    · exact ⟨acc, d :: ds, AllDigits_cons.mpr hd, rfl⟩
    · split
      · exact ⟨acc, d :: ds, AllDigits_cons.mpr hd, rfl⟩
      · exact ih hd.2 _

theorem skipDigitsCount_stop {tail : List Byte} (ht : Stop tail) (ds : List Byte) (hd : AllDigits ds) :
    ∀ off, ∃ off', skipDigitsCount (ds ++ tail) off = (tail, off') := by
  induction ds with
  | nil =>
    intro off
    refine ⟨off, ?_⟩
    cases tail with
    | nil => rfl
    | cons c r => simp only [List.nil_append, skipDigitsCount, ht c r rfl, Bool.false_eq_true, ↓reduceIte]
  | cons d ds ih =>
    intro off
    rw [AllDigits_cons] at hd
    simp only [List.cons_append, skipDigitsCount, isDigit_of_range hd.1, ↓reduceIte]
    exact ih hd.2 _

theorem fracDigits_stop (mmax : Nat) {tail : List Byte} (ht : Stop tail) (ds : List Byte) (hd : AllDigits ds) :
    ∀ m off, ∃ m' off', fracDigits mmax (ds ++ tail) m off = (tail, m', off') := by
  induction ds with
  | nil =>
    intro m off
    refine ⟨m, off, ?_⟩
    cases tail with
    | nil => rfl
    | cons c r => simp only [List.nil_append, fracDigits, ht c r rfl, Bool.false_eq_true, ↓reduceIte]
  | cons d ds ih =>
    intro m off
    rw [AllDigits_cons] at hd
    simp only [List.cons_append, fracDigits, isDigit_of_range hd.1, ↓reduceIte]
    split
    · exact ih hd.2 _ _
    · exact ih hd.2 _ _

theorem expDigits_all (ds : List Byte) (hd : AllDigits ds) : ∀ e, ∃ e', expDigits ds e = ([], e') := by
  induction ds with
  | nil => intro e; exact ⟨e, rfl⟩
  | cons d ds ih =>
    intro e
    rw [AllDigits_cons] at hd
    simp only [expDigits, isDigit_of_range hd.1, ↓reduceIte]
    exact ih hd.2 _

/-! ## The power-of-ten tables are long enough -/

theorem makeFloat_go_some (f : Fmt) (tbl : List Nat) :
    ∀ (fuel acc e idx : Nat), idx ≤ tbl.length → e < 2 ^ (tbl.length - idx) → makeFloat.go f tbl fuel acc e idx ≠ none := by
  intro fuel
  induction fuel with
  | zero => intro acc e idx _ _; simp [makeFloat.go]
  | succ n ih =>
    intro acc e idx hi he
    unfold makeFloat.go
    by_cases h0 : e = 0
    · simp [h0]
    · have hk : tbl.length - idx ≠ 0 := by
        intro hk; rw [hk] at he; simp at he; exact h0 he
      have hlt : idx < tbl.length := by omega
      have hhalf : e / 2 < 2 ^ (tbl.length - (idx + 1)) := by
        have : tbl.length - idx = (tbl.length - (idx + 1)) + 1 := by omega
        rw [this, Nat.pow_succ] at he
        omega
      simp only [h0, ↓reduceIte]
      split
      · have hget : tbl[idx]? = some tbl[idx] := List.getElem?_eq_getElem hlt
        rw [hget]
        exact ih _ _ _ (by omega) hhalf
      · exact ih _ _ _ (by omega) hhalf

theorem makeFloat_some (f : Fmt) (tp tn : List Nat) (m : Nat) (e : Int)
    (hp : e.natAbs < 2 ^ tp.length) (hn : e.natAbs < 2 ^ tn.length) : makeFloat f tp tn m e ≠ none := by
  unfold makeFloat
  simp only
  split
  · exact makeFloat_go_some f tp 64 m e.natAbs 0 (by omega) (by simpa using hp)
  · exact makeFloat_go_some f tn 64 m e.natAbs 0 (by omega) (by simpa using hn)

/-- neither rejected nor faulted -/
def Good (r : PNum) : Prop := r ≠ .invalid ∧ r ≠ .fault

theorem finish_good (neg : Bool) (mant : Nat) (e : Int) : Good (finish neg [] mant e) := by
  have l1 : pos64.length = 9 := rfl
  have l2 : neg64.length = 9 := rfl
  have l3 : pos32.length = 6 := rfl
  have l4 : neg32.length = 6 := rfl
  have x1 : (Gen.exponent_max64 : Int) = 308 := rfl
  have x2 : (Gen.exponent_max32 : Int) = 38 := rfl
  unfold finish
  simp only [List.isEmpty_nil, Bool.not_true, Bool.false_eq_true, ↓reduceIte]
  split
  · exact ⟨(fun h => nomatch h), (fun h => nomatch h)⟩
  split
  · exact ⟨(fun h => nomatch h), (fun h => nomatch h)⟩
  split
  · exact ⟨(fun h => nomatch h), (fun h => nomatch h)⟩
  rename_i _ hhi hlo
  rw [x1] at hhi hlo
  have h64 : makeFloat b64 pos64 neg64 (ofNat b64 mant) e ≠ none :=
    makeFloat_some _ _ _ _ _ (by rw [l1]; omega) (by rw [l2]; omega)
  have via : Good (match makeFloat b64 pos64 neg64 (ofNat b64 mant) e with
      | none => PNum.fault
      | some r => PNum.f64 (negBits b64 neg r)) := by
    cases hm : makeFloat b64 pos64 neg64 (ofNat b64 mant) e with
    | none => exact absurd hm h64
    | some r => exact ⟨(fun h => nomatch h), (fun h => nomatch h)⟩
  split
  · exact via
  · rename_i hd
    simp only [x2, Bool.or_eq_true, decide_eq_true_eq, not_or, Int.not_lt, Nat.not_lt] at hd
    have h32 : makeFloat b32 pos32 neg32 (ofNat b32 mant) e ≠ none :=
      makeFloat_some _ _ _ _ _ (by rw [l3]; omega) (by rw [l4]; omega)
    cases hm : makeFloat b32 pos32 neg32 (ofNat b32 mant) e with
    | none => exact absurd hm h32
    | some r =>
      simp only
      split
      · exact via
      · exact ⟨(fun h => nomatch h), (fun h => nomatch h)⟩

/-! ## The stages on the parts of a literal -/

theorem allDigits_of {ds : List Byte} (h : ∀ c ∈ ds, 0x30 ≤ c ∧ c ≤ 0x39) : AllDigits ds := h

theorem digits1_head {ds : List Byte} (h : Digits1 ds) : ∃ d r, ds = d :: r ∧ (0x30 ≤ d ∧ d ≤ 0x39) := by
  cases ds with
  | nil => exact absurd rfl h.1
  | cons d r => exact ⟨d, r, rfl, h.2 d (List.mem_cons_self ..)⟩

theorem isDigit_e : isDigit 0x65 = false ∧ isDigit 0x45 = false ∧ isDigit 0x2E = false := by decide

theorem expPart_stop {e : List Byte} (h : ExpPart e) : Stop e := by
  rcases h with rfl | ⟨c, sg, ds, hc, _, _, rfl⟩
  · exact stop_nil
  · rcases hc with rfl | rfl
    · exact stop_cons isDigit_e.1 _
    · exact stop_cons isDigit_e.2.1 _

theorem stage3_exp (neg : Bool) (mant : Nat) (off : Int) {e : List Byte} (h : ExpPart e) :
    ∃ e', stage3 neg e mant off = finish neg [] mant e' := by
  rcases h with rfl | ⟨c, sg, ds, hc, hsg, hds, rfl⟩
  · exact ⟨0 + off, rfl⟩
  · have hc' : (c == 0x65 || c == 0x45) = true := by rcases hc with rfl | rfl <;> decide
    obtain ⟨d, r, rfl, hd⟩ := digits1_head hds
    obtain ⟨e', he'⟩ := expDigits_all (d :: r) hds.2 0
    rcases hsg with rfl | rfl | rfl
    · -- no sign: the first digit is neither '-' nor '+'
      have n1 : d ≠ 0x2D := by rintro rfl; exact absurd hd (by decide)
      have n2 : d ≠ 0x2B := by rintro rfl; exact absurd hd (by decide)
      refine ⟨(e' : Int) + off, ?_⟩
      simp only [stage3, List.nil_append, hc', ↓reduceIte]
      split
      · rename_i r' h; exact absurd (List.cons.inj h).1 n1
      · rename_i r' h; exact absurd (List.cons.inj h).1 n2
      · simp only [he', Bool.false_eq_true, ↓reduceIte]
    · refine ⟨(e' : Int) + off, ?_⟩
      simp only [stage3, List.cons_append, List.nil_append, hc', ↓reduceIte, he', Bool.false_eq_true]
    · refine ⟨-(e' : Int) + off, ?_⟩
      simp only [stage3, List.cons_append, List.nil_append, hc', ↓reduceIte, he']

theorem expPart_not_dot {r : List Byte} (h : ExpPart (0x2E :: r)) : False := by
  rcases h with h | ⟨c, sg, ds, hc, _, _, h⟩
  · cases h
  · have := (List.cons.inj h).1
    rcases hc with rfl | rfl <;> exact absurd this (by decide)

theorem stage2_frac (neg : Bool) (mant : Nat) (off : Int) {f e : List Byte} (hf : FracPart f) (he : ExpPart e) :
    ∃ m' e', stage2 neg (f ++ e) mant off = finish neg [] m' e' := by
  rcases hf with rfl | ⟨ds, hds, rfl⟩
  · obtain ⟨e', h3⟩ := stage3_exp neg mant off he
    refine ⟨mant, e', ?_⟩
    rw [← h3, List.nil_append]
    unfold stage2
    split
    rename_i heq
    split at heq
    · exact (expPart_not_dot he).elim
    · cases heq; rfl
  · obtain ⟨m', off', hF⟩ := fracDigits_stop Gen.mantissa_max64 (expPart_stop he) ds hds.2 mant off
    obtain ⟨e', h3⟩ := stage3_exp neg m' off' he
    refine ⟨m', e', ?_⟩
    rw [← h3]
    simp only [stage2, List.cons_append, hF]

theorem tail_stop {f e : List Byte} (hf : FracPart f) (he : ExpPart e) : Stop (f ++ e) := by
  rcases hf with rfl | ⟨ds, _, rfl⟩
  · simpa using expPart_stop he
  · exact stop_cons isDigit_e.2.2 _

theorem stage1_good (neg : Bool) (mant : Nat) {ds' f e : List Byte} (hd : AllDigits ds') (hf : FracPart f)
    (he : ExpPart e) : Good (stage1 neg mant (ds' ++ (f ++ e))) := by
  unfold stage1
  split
  · exact ⟨(fun h => nomatch h), (fun h => nomatch h)⟩
  split
  · exact ⟨(fun h => nomatch h), (fun h => nomatch h)⟩
  generalize reduceMant Gen.mantissa_max64 32 mant 0 = q
  obtain ⟨m1, off1⟩ := q
  simp only
  obtain ⟨off2, hS⟩ := skipDigitsCount_stop (tail_stop hf he) ds' hd off1
  rw [hS]
  simp only
  obtain ⟨m', e', h2⟩ := stage2_frac neg m1 off2 hf he
  rw [h2]
  exact finish_good neg m' e'

theorem core_good (cfg : Cfg) (neg : Bool) {d : Byte} {ipr f e : List Byte} (hd : AllDigits (d :: ipr))
    (hf : FracPart f) (he : ExpPart e) : Good (core cfg neg ((d :: ipr) ++ (f ++ e))) := by
  have hc := (AllDigits_cons.mp hd).1
  obtain ⟨m, ds', hd', hT⟩ := takeDigitsMant_stop (2 ^ 64 - 1) (tail_stop hf he) (d :: ipr) hd 0
  unfold core
  simp only [List.cons_append, List.headD_cons,
    digit_ne hc 110 (by decide), digit_ne hc 78 (by decide), digit_ne hc 105 (by decide), digit_ne hc 73 (by decide),
    isDigit_of_range hc, Bool.or_self, Bool.and_false, Bool.false_eq_true, ↓reduceIte, Bool.not_true, Bool.false_and]
  rw [List.cons_append] at hT
  rw [hT]
  exact stage1_good neg m hd' hf he

theorem intPart_digits {ip : List Byte} (h : IntPart ip) : ∃ d ipr, ip = d :: ipr ∧ AllDigits (d :: ipr) := by
  rcases h with rfl | ⟨⟨hne, hd⟩, _⟩
  · exact ⟨0x30, [], rfl, by intro c hc; simp at hc; subst hc; decide⟩
  · cases ip with
    | nil => exact absurd rfl hne
    | cons d ipr => exact ⟨d, ipr, rfl, hd⟩

/-- a number literal of the RFC is neither rejected by `parseNumber` nor makes it leave its tables -/
theorem numLit_good (cfg : Cfg) {lit : List Byte} (h : NumLit lit) : Good (parseNumber cfg lit) := by
  obtain ⟨_, sg, ip, f, e, hsg, hip, hf, he, rfl⟩ := h
  obtain ⟨d, ipr, rfl, hd⟩ := intPart_digits hip
  have hc := (AllDigits_cons.mp hd).1
  rcases hsg with rfl | rfl
  · have n1 : d ≠ 0x2D := by rintro rfl; exact absurd hc (by decide)
    have n2 : d ≠ 0x2B := by rintro rfl; exact absurd hc (by decide)
    have e1 : [] ++ (d :: ipr) ++ f ++ e = d :: (ipr ++ (f ++ e)) := by simp
    rw [e1, parseNumber_digit cfg d _ n1 n2]
    exact core_good cfg false hd hf he
  · have e1 : [0x2D] ++ (d :: ipr) ++ f ++ e = 0x2D :: ((d :: ipr) ++ (f ++ e)) := by simp
    rw [e1, parseNumber_minus]
    exact core_good cfg true hd hf he

/-! ## Integer literals; the document value of a literal -/

theorem decVal_eq (ds : List Byte) : Spec.Json.decVal ds = Digits.decVal ds := (Digits.decVal_eq_foldl ds).symm

theorem allDigits_iff (ds : List Byte) : allDigits ds = true → AllDigits ds := by
  intro h c hc
  exact range_of_isDigit (List.all_eq_true.mp h c hc)

/-- outcome of `parseNumeric` as a function of what `parseNumber` returns -/
def pnumResult : PNum → Code × Val
  | .uint n => (.ok, .num (.uint n))
  | .sint n => (.ok, .num (.sint n))
  | .f32 b => (.ok, .num (.f32 b))
  | .f64 b => (.ok, .num (storeDouble b))
  | .invalid => (.invalid, .null)
  | .fault => (.fuel, .null)

theorem floatVal_eq (cfg : Cfg) (lit : List Byte) : floatVal cfg lit = (pnumResult (parseNumber cfg lit)).2 := by
  unfold floatVal
  cases parseNumber cfg lit <;> rfl

/-- the specification's value of a literal is what `parseNumber` computes, integers included -/
theorem numVal_eq (cfg : Cfg) {lit : List Byte} (h : NumLit lit) :
    numVal cfg lit = (pnumResult (parseNumber cfg lit)).2 := by
  obtain ⟨_, sg, ip, f, e, hsg, hip, hf, he, rfl⟩ := h
  obtain ⟨d, ipr, rfl, hd⟩ := intPart_digits hip
  have hc := (AllDigits_cons.mp hd).1
  rcases hsg with rfl | rfl
  · have n1 : d ≠ 0x2D := by rintro rfl; exact absurd hc (by decide)
    have e1 : [] ++ (d :: ipr) ++ f ++ e = d :: (ipr ++ (f ++ e)) := by simp
    rw [e1]
    unfold numVal
    split
    · rename_i ds h; exact absurd (List.cons.inj h).1 n1
    · split
      · rename_i hcond
        rw [parse_unsigned cfg _ (allDigits_iff _ hcond.1) (by simp) (by rw [← decVal_eq]; exact hcond.2), ← decVal_eq]
        rfl
      · exact floatVal_eq cfg _
  · have e1 : [0x2D] ++ (d :: ipr) ++ f ++ e = 0x2D :: ((d :: ipr) ++ (f ++ e)) := by simp
    rw [e1]
    show (if allDigits ((d :: ipr) ++ (f ++ e)) ∧ Spec.Json.decVal ((d :: ipr) ++ (f ++ e)) ≤ 2 ^ 63 then _ else _) = _
    split
    · rename_i hcond
      rw [parse_minus cfg _ (allDigits_iff _ hcond.1) (by simp) (by rw [← decVal_eq]; exact hcond.2), ← decVal_eq]
      rfl
    · exact floatVal_eq cfg _

/-- a number literal of the RFC parses, and to the value the specification assigns to it -/
theorem numLit_ok (cfg : Cfg) {lit : List Byte} (h : NumLit lit) :
    ∃ n, numVal cfg lit = .num n ∧ pnumResult (parseNumber cfg lit) = (.ok, .num n) := by
  have hv := numVal_eq cfg h
  obtain ⟨g1, g2⟩ := numLit_good cfg h
  rw [hv]
  cases hr : parseNumber cfg lit with
  | invalid => exact absurd hr g1
  | fault => exact absurd hr g2
  | uint n => exact ⟨_, rfl, rfl⟩
  | sint n => exact ⟨_, rfl, rfl⟩
  | f32 b => exact ⟨_, rfl, rfl⟩
  | f64 b => exact ⟨_, rfl, rfl⟩

end JD
