/- Invariant of the slot-pool allocator model `PL` (MemoryPoolList) and its preservation by every routine.
   Used by AJ/Props/C19.lean (properties C19, C06, C05). -/
import AJ.Model.PL
namespace PL

/-! ## Geometry -/

/-- Side condition on the configuration: a pool has at least one slot and the inline pool table has at least
    one entry. Nothing is assumed about `idBytes`, nor that `poolCap` divides the id range. -/
structure GeoOK (g : Geo) : Prop where
  pool_pos : 1 ≤ g.poolCap
  init_pos : 1 ≤ g.initPools

theorem Geo.width_pos (g : Geo) : 0 < 2 ^ (8 * g.idBytes) := Nat.pow_pos (by decide)

theorem Geo.nullSlot_lt (g : Geo) : g.nullSlot < 2 ^ (8 * g.idBytes) := by
  have := g.width_pos; unfold Geo.nullSlot; omega

theorem Geo.maxPools_lt (g : Geo) : g.maxPools < 2 ^ (8 * g.idBytes) :=
  Nat.mod_lt _ g.width_pos

theorem Geo.maxPools_le (g : Geo) : g.maxPools ≤ g.nullSlot / g.poolCap + 1 :=
  Nat.mod_le _ _

theorem Geo.wrap_of_lt (g : Geo) {n : Nat} (h : n < 2 ^ (8 * g.idBytes)) : g.wrap n = n :=
  Nat.mod_eq_of_lt h

theorem Geo.wrap_of_le_null (g : Geo) {n : Nat} (h : n ≤ g.nullSlot) : g.wrap n = n :=
  g.wrap_of_lt (Nat.lt_of_le_of_lt h g.nullSlot_lt)

/-- a pool that is not the last possible one fits entirely below `nullSlot` -/
theorem Geo.inner_pool_fits (g : Geo) {i : Nat} (h : i + 1 < g.maxPools) :
    i * g.poolCap + g.poolCap ≤ g.nullSlot := by
  have h1 : i + 1 ≤ g.nullSlot / g.poolCap := by have := g.maxPools_le; omega
  have h2 : (i + 1) * g.poolCap ≤ g.nullSlot / g.poolCap * g.poolCap := Nat.mul_le_mul_right _ h1
  have h3 : g.nullSlot / g.poolCap * g.poolCap ≤ g.nullSlot := Nat.div_mul_le_self _ _
  have h4 : (i + 1) * g.poolCap = i * g.poolCap + g.poolCap := Nat.succ_mul _ _
  omega

/-- capacity given to the pool that reaches `maxPools` (rule of `addPool` after the repair) -/
def Geo.lastCap (g : Geo) : Nat := g.nullSlot - (g.maxPools - 1) * g.poolCap

/-- the last possible pool has at most `poolCap` slots and ends exactly at or before `nullSlot` -/
theorem Geo.last_pool_fits (g : Geo) (ok : GeoOK g) {i : Nat} (h : i + 1 = g.maxPools) :
    g.lastCap ≤ g.poolCap ∧ i * g.poolCap + g.lastCap ≤ g.nullSlot := by
  have hW := g.width_pos
  have hq : g.nullSlot / g.poolCap ≤ g.nullSlot := Nat.div_le_self _ _
  have hn : g.nullSlot + 1 = 2 ^ (8 * g.idBytes) := by unfold Geo.nullSlot; omega
  have hM : g.maxPools = g.nullSlot / g.poolCap + 1 := by
    unfold Geo.maxPools
    rcases Nat.lt_or_ge (g.nullSlot / g.poolCap + 1) (2 ^ (8 * g.idBytes)) with h1 | h1
    · exact Nat.mod_eq_of_lt h1
    · have h2 : g.nullSlot / g.poolCap + 1 = 2 ^ (8 * g.idBytes) := by omega
      have h3 : g.maxPools = 0 := by unfold Geo.maxPools; rw [h2]; exact Nat.mod_self _
      omega
  have hi : g.maxPools - 1 = g.nullSlot / g.poolCap := by omega
  have h3 : g.poolCap * (g.nullSlot / g.poolCap) + g.nullSlot % g.poolCap = g.nullSlot := Nat.div_add_mod _ _
  have h4 : g.poolCap * (g.nullSlot / g.poolCap) = g.nullSlot / g.poolCap * g.poolCap := Nat.mul_comm _ _
  have h5 : g.nullSlot % g.poolCap < g.poolCap := Nat.mod_lt _ ok.pool_pos
  have h6 : i = g.nullSlot / g.poolCap := by omega
  unfold Geo.lastCap
  rw [hi, h6]
  omega

/-! ## Pool lists -/

/-- ghost set: ids handed out from the pools so far (`i·poolCap + j` with `j < usage` of pool `i`) -/
def allocP (c : Nat) (ps : List Pool) (x : Nat) : Prop :=
  ∃ i p, ps[i]? = some p ∧ i * c ≤ x ∧ x < i * c + p.usage

/-- every pool: `usage ≤ cap ≤ poolCap`, and the whole pool lies below `n` (= `nullSlot`) -/
def PoolsOK (c n : Nat) (ps : List Pool) : Prop :=
  ∀ i p, ps[i]? = some p → p.usage ≤ p.cap ∧ p.cap ≤ c ∧ i * c + p.cap ≤ n

theorem getElem?_snoc {α} (ps : List α) (p q : α) (i : Nat) :
    (ps ++ [p])[i]? = some q ↔ ps[i]? = some q ∨ (i = ps.length ∧ q = p) := by
  by_cases h : i < ps.length
  · rw [List.getElem?_append_left h]
    constructor
    · exact Or.inl
    · rintro (h' | ⟨h', _⟩)
      · exact h'
      · omega
  · rw [List.getElem?_append_right (by omega)]
    have hn : ps[i]? = none := List.getElem?_eq_none (by omega)
    rw [hn]
    by_cases h2 : i = ps.length
    · subst h2; simp [eq_comm]
    · have : i - ps.length ≠ 0 := by omega
      cases hk : i - ps.length with
      | zero => omega
      | succ k => simp [h2]

theorem allocP_nil (c x : Nat) : ¬ allocP c [] x := by
  rintro ⟨i, p, h, _⟩; simp at h

theorem allocP_snoc (c : Nat) (ps : List Pool) (p : Pool) (x : Nat) :
    allocP c (ps ++ [p]) x ↔ allocP c ps x ∨ (ps.length * c ≤ x ∧ x < ps.length * c + p.usage) := by
  constructor
  · rintro ⟨i, q, h, h1, h2⟩
    rcases (getElem?_snoc ps p q i).1 h with h | ⟨rfl, rfl⟩
    · exact Or.inl ⟨i, q, h, h1, h2⟩
    · exact Or.inr ⟨h1, h2⟩
  · rintro (⟨i, q, h, h1, h2⟩ | ⟨h1, h2⟩)
    · exact ⟨i, q, (getElem?_snoc ps p q i).2 (Or.inl h), h1, h2⟩
    · exact ⟨ps.length, p, (getElem?_snoc ps p p _).2 (Or.inr ⟨rfl, rfl⟩), h1, h2⟩

theorem PoolsOK_nil (c n : Nat) : PoolsOK c n [] := by
  intro i p h; simp at h

theorem PoolsOK_snoc (c n : Nat) (ps : List Pool) (p : Pool) :
    PoolsOK c n (ps ++ [p]) ↔
      PoolsOK c n ps ∧ (p.usage ≤ p.cap ∧ p.cap ≤ c ∧ ps.length * c + p.cap ≤ n) := by
  constructor
  · intro h
    exact ⟨fun i q hq => h i q ((getElem?_snoc ps p q i).2 (Or.inl hq)),
           h ps.length p ((getElem?_snoc ps p p _).2 (Or.inr ⟨rfl, rfl⟩))⟩
  · rintro ⟨h1, h2⟩ i q hq
    rcases (getElem?_snoc ps p q i).1 hq with hq | ⟨rfl, rfl⟩
    · exact h1 i q hq
    · exact h2

/-- ids handed out lie below the start of the next pool -/
theorem allocP_lt_len {c n : Nat} {ps : List Pool} (ok : PoolsOK c n ps) {x : Nat} (h : allocP c ps x) :
    x < ps.length * c := by
  obtain ⟨i, p, hp, _, h2⟩ := h
  have hi : i < ps.length := by
    rcases Nat.lt_or_ge i ps.length with h | h
    · exact h
    · rw [List.getElem?_eq_none h] at hp; cases hp
  obtain ⟨a, b, _⟩ := ok i p hp
  have h3 : (i + 1) * c ≤ ps.length * c := Nat.mul_le_mul_right _ hi
  have h4 : (i + 1) * c = i * c + c := Nat.succ_mul _ _
  omega

/-- ids handed out are below `n` -/
theorem allocP_lt_null {c n : Nat} {ps : List Pool} (ok : PoolsOK c n ps) {x : Nat} (h : allocP c ps x) :
    x < n := by
  obtain ⟨i, p, hp, _, h2⟩ := h
  obtain ⟨a, b, d⟩ := ok i p hp
  omega

/-! ## States -/

/-- ghost set of ids handed out from the pools of `s` -/
def allocated (g : Geo) (s : St) (x : Nat) : Prop := allocP g.poolCap s.pools x

/-- live slots: handed out and not in the free list -/
def live (g : Geo) (s : St) (x : Nat) : Prop := allocated g s x ∧ x ∉ s.free

structure Inv (g : Geo) (s : St) : Prop where
  /-- never more pools than `maxPools` -/
  len_max : s.pools.length ≤ g.maxPools
  /-- the pools fit in the pool table -/
  len_tab : s.pools.length ≤ s.tableCap
  tab_pos : 1 ≤ s.tableCap
  tab_bound : s.tableCap ≤ max g.initPools g.maxPools
  /-- the inline table has `initPools` entries -/
  inline_cap : s.tableHeap = false → s.tableCap = g.initPools
  heap_len : s.tableHeap = true → 1 ≤ s.pools.length
  /-- `usage ≤ cap ≤ poolCap` and pool `i` ends at or before `nullSlot` -/
  pools_ok : PoolsOK g.poolCap g.nullSlot s.pools
  /-- every pool but the last is full -/
  full_init : ∀ q ∈ s.pools.dropLast, q.usage = q.cap
  /-- a pool whose block could not be allocated has capacity 0 -/
  noblock : ∀ q ∈ s.pools, q.hasBlock = false → q.cap = 0
  /-- every id in the free list was handed out before -/
  free_alloc : ∀ x ∈ s.free, allocated g s x
  free_nodup : s.free.Nodup

/-- the failure oracle: does allocator call number `n` fail? (`failAt`: listed positions; `failFrom k`: every call
    from position `k` on) — the expression used by `St.alloc` / `St.realloc` -/
def St.failsAt (s : St) (n : Nat) : Bool :=
  s.failAt.contains n || (match s.failFrom with | some k => n ≥ k | none => false)

/-! ### the allocator oracle only touches `calls` and `log` -/
section oracle
variable (s : St) (n : Nat) (b : Bool)
theorem alloc_fst : (s.alloc n).1 = !s.failsAt (s.calls + 1) := rfl
theorem realloc_fst : (s.realloc n b).1 = !(b && s.failsAt (s.calls + 1)) := rfl
@[simp] theorem alloc_failFrom : (s.alloc n).2.failFrom = s.failFrom := rfl
@[simp] theorem realloc_failFrom : (s.realloc n b).2.failFrom = s.failFrom := rfl
@[simp] theorem dealloc_failFrom : s.dealloc.failFrom = s.failFrom := rfl
@[simp] theorem alloc_pools : (s.alloc n).2.pools = s.pools := rfl
@[simp] theorem alloc_free : (s.alloc n).2.free = s.free := rfl
@[simp] theorem alloc_tableCap : (s.alloc n).2.tableCap = s.tableCap := rfl
@[simp] theorem alloc_tableHeap : (s.alloc n).2.tableHeap = s.tableHeap := rfl
@[simp] theorem alloc_failAt : (s.alloc n).2.failAt = s.failAt := rfl
@[simp] theorem alloc_calls : (s.alloc n).2.calls = s.calls + 1 := rfl
@[simp] theorem realloc_pools : (s.realloc n b).2.pools = s.pools := rfl
@[simp] theorem realloc_free : (s.realloc n b).2.free = s.free := rfl
@[simp] theorem realloc_tableCap : (s.realloc n b).2.tableCap = s.tableCap := rfl
@[simp] theorem realloc_tableHeap : (s.realloc n b).2.tableHeap = s.tableHeap := rfl
@[simp] theorem realloc_failAt : (s.realloc n b).2.failAt = s.failAt := rfl
@[simp] theorem realloc_calls : (s.realloc n b).2.calls = s.calls + 1 := rfl
@[simp] theorem dealloc_pools : s.dealloc.pools = s.pools := rfl
@[simp] theorem dealloc_free : s.dealloc.free = s.free := rfl
@[simp] theorem dealloc_tableCap : s.dealloc.tableCap = s.tableCap := rfl
@[simp] theorem dealloc_tableHeap : s.dealloc.tableHeap = s.tableHeap := rfl
@[simp] theorem dealloc_failAt : s.dealloc.failAt = s.failAt := rfl
@[simp] theorem dealloc_calls : s.dealloc.calls = s.calls := rfl
@[simp] theorem dealloc_log : s.dealloc.log = "D" :: s.log := rfl
end oracle

/-! ### allocFromLastPool -/

theorem pools_eq_snoc {s : St} {p : Pool} (h : s.pools.getLast? = some p) :
    s.pools = s.pools.dropLast ++ [p] :=
  by
  obtain ⟨ys, hy⟩ := List.getLast?_eq_some_iff.1 h
  rw [hy, List.dropLast_concat]

theorem allocFromLastPool_some {g : Geo} {s s' : St} {id : Nat}
    (h : allocFromLastPool g s = (some id, s')) :
    ∃ ps p, s.pools = ps ++ [p] ∧ p.hasBlock = true ∧ p.usage < p.cap ∧
      id = g.wrap (ps.length * g.poolCap + p.usage) ∧
      s' = { s with pools := ps ++ [{ p with usage := p.usage + 1 }] } := by
  unfold allocFromLastPool at h
  split at h
  · cases h
  · rename_i p hp
    have hs := pools_eq_snoc hp
    split at h
    · cases h
    · split at h
      · cases h
      · rename_i hb hu
        refine ⟨s.pools.dropLast, p, hs, by simpa using hb, by simpa using hu, ?_, ?_⟩
        · simp only [Prod.mk.injEq, Option.some.injEq] at h
          rw [← h.1, List.length_dropLast]
        · simp only [Prod.mk.injEq] at h
          exact h.2.symm

theorem allocFromLastPool_none {g : Geo} {s s' : St}
    (h : allocFromLastPool g s = (none, s')) :
    s' = s ∧ (s.pools = [] ∨ ∃ ps p, s.pools = ps ++ [p] ∧ (p.hasBlock = false ∨ p.cap ≤ p.usage)) := by
  unfold allocFromLastPool at h
  split at h
  · rename_i hp
    simp only [Prod.mk.injEq, true_and] at h
    exact ⟨h.symm, Or.inl (by simpa using hp)⟩
  · rename_i p hp
    have hs := pools_eq_snoc hp
    split at h
    · rename_i hb
      simp only [Prod.mk.injEq, true_and] at h
      exact ⟨h.symm, Or.inr ⟨_, p, hs, Or.inl (by simpa using hb)⟩⟩
    · split at h
      · rename_i hu
        simp only [Prod.mk.injEq, true_and] at h
        exact ⟨h.symm, Or.inr ⟨_, p, hs, Or.inr (by simpa using hu)⟩⟩
      · simp at h

/-- a successful `allocFromLastPool`: the id is the next unused one of the last pool, un-wrapped, below NULL, fresh -/
theorem allocFromLastPool_ok {g : Geo} {s s' : St} {id : Nat} (hI : Inv g s)
    (h : allocFromLastPool g s = (some id, s')) :
    id < g.nullSlot ∧ ¬ allocated g s id ∧ (∀ x, allocated g s' x ↔ allocated g s x ∨ x = id) ∧
      Inv g s' ∧ s'.free = s.free ∧ s'.calls = s.calls ∧ s'.log = s.log ∧ s'.failAt = s.failAt ∧
      (∃ ps p, s.pools = ps ++ [p] ∧ id = ps.length * g.poolCap + p.usage) := by
  obtain ⟨ps, p, hs, hb, hu, hid, rfl⟩ := h |> allocFromLastPool_some
  obtain ⟨pools, tableCap, tableHeap, free, calls, failAt, log⟩ := s
  simp only at hs; subst hs
  have hok := (PoolsOK_snoc _ _ ps p).1 hI.pools_ok
  obtain ⟨okps, hp1, hp2, hp3⟩ := hok
  have hid' : id = ps.length * g.poolCap + p.usage := by
    rw [hid]; exact g.wrap_of_le_null (by omega)
  have hnot : ¬ allocP g.poolCap (ps ++ [p]) id := by
    rw [allocP_snoc]
    rintro (h1 | h1)
    · have := allocP_lt_len okps h1; omega
    · omega
  have hall : ∀ x, allocP g.poolCap (ps ++ [{ p with usage := p.usage + 1 }]) x ↔
      allocP g.poolCap (ps ++ [p]) x ∨ x = id := by
    intro x; rw [allocP_snoc, allocP_snoc]; simp only
    constructor
    · rintro (h1 | h1)
      · exact Or.inl (Or.inl h1)
      · by_cases hx : x = id
        · exact Or.inr hx
        · exact Or.inl (Or.inr (by omega))
    · rintro ((h1 | h1) | h1)
      · exact Or.inl h1
      · exact Or.inr (by omega)
      · exact Or.inr (by omega)
  refine ⟨by omega, hnot, hall, ?_, rfl, rfl, rfl, rfl, ⟨ps, p, rfl, hid'⟩⟩
  constructor
  · have := hI.len_max; simpa using this
  · have := hI.len_tab; simpa using this
  · exact hI.tab_pos
  · exact hI.tab_bound
  · exact hI.inline_cap
  · have := hI.heap_len; simp
  · show PoolsOK _ _ (ps ++ [_])
    rw [PoolsOK_snoc]; exact ⟨okps, by simp only; omega, hp2, hp3⟩
  · have := hI.full_init; simpa using this
  · intro q hq hqb
    simp only [List.mem_append, List.mem_singleton] at hq
    rcases hq with hq | rfl
    · exact hI.noblock q (by simp [hq]) hqb
    · simp only at hqb; rw [hb] at hqb; cases hqb
  · intro x hx
    exact (hall x).2 (Or.inl (hI.free_alloc x hx))
  · exact hI.free_nodup

/-! ### increaseCapacity -/

theorem mod_double_ne {t W : Nat} (ht : t < W) (h : (t * 2) % W = t) : t = 0 := by
  by_cases h1 : t * 2 < W
  · rw [Nat.mod_eq_of_lt h1] at h; omega
  · rw [Nat.mod_eq_sub_mod (by omega), Nat.mod_eq_of_lt (by omega)] at h; omega

theorem increaseCapacity_spec {g : Geo} {s s' : St} {ok : Bool} (h : increaseCapacity g s = (ok, s')) :
    s'.pools = s.pools ∧ s'.free = s.free ∧ s'.failAt = s.failAt ∧
    (ok = false → s'.tableCap = s.tableCap ∧ s'.tableHeap = s.tableHeap) ∧
    (ok = true → s'.tableHeap = true ∧ s'.tableCap ≤ g.maxPools ∧ (1 ≤ s.tableCap → s.tableCap < s'.tableCap)) := by
  unfold increaseCapacity at h
  split at h
  · cases h; simp
  · rename_i hlt
    simp only at h
    generalize hnc : (if (decide (g.wrap (s.tableCap * 2) > g.maxPools) ||
        decide (g.wrap (s.tableCap * 2) < s.tableCap)) = true then g.maxPools
        else g.wrap (s.tableCap * 2)) = nc at h
    have hnc1 : nc ≤ g.maxPools ∧ (1 ≤ s.tableCap → s.tableCap < nc) := by
      rw [← hnc]
      split
      · omega
      · rename_i hc
        simp only [Bool.or_eq_true, decide_eq_true_eq, not_or, Nat.not_lt] at hc
        refine ⟨by omega, fun hpos => ?_⟩
        have hne : g.wrap (s.tableCap * 2) ≠ s.tableCap := by
          intro he
          have := mod_double_ne (Nat.lt_trans (Nat.lt_of_not_ge hlt) g.maxPools_lt) he
          omega
        omega
    obtain ⟨hncA, hncB⟩ := hnc1
    split at h <;> split at h <;> cases h <;> simp [hncA] <;> rename_i hh _ <;>
      first | exact hncB | exact ⟨by simpa using hh, hncB⟩

/-! ### addPool -/

theorem Inv.congr {g : Geo} {s s' : St} (hI : Inv g s) (h1 : s'.pools = s.pools) (h2 : s'.tableCap = s.tableCap)
    (h3 : s'.tableHeap = s.tableHeap) (h4 : s'.free = s.free) : Inv g s' := by
  obtain ⟨a1, a2, a3, a4, a5, a6, a7, a8, a9, a10, a11⟩ := hI
  constructor <;> simp only [allocated, h1, h2, h3, h4] <;> assumption

theorem addPool_table {g : Geo} {s s1 : St} {ok1 : Bool} (hI : Inv g s)
    (hr : (if (s.pools.length == s.tableCap) = true then increaseCapacity g s else (true, s)) = (ok1, s1)) :
    s1.pools = s.pools ∧ s1.free = s.free ∧ s1.failAt = s.failAt ∧
    (ok1 = false → s1.tableCap = s.tableCap ∧ s1.tableHeap = s.tableHeap) ∧
    (ok1 = true → s.pools.length < s1.tableCap ∧ s1.tableCap ≤ max g.initPools g.maxPools ∧
      (s1.tableHeap = false → s1.tableCap = g.initPools)) := by
  split at hr
  · rename_i he
    have he' : s.pools.length = s.tableCap := by simpa using he
    obtain ⟨a, b, c, d, e⟩ := increaseCapacity_spec hr
    refine ⟨a, b, c, d, fun hk => ?_⟩
    obtain ⟨e1, e2, e3⟩ := e hk
    have := e3 hI.tab_pos
    refine ⟨by omega, by omega, fun hf => ?_⟩
    rw [e1] at hf; cases hf
  · rename_i he
    have he' : s.pools.length ≠ s.tableCap := by simpa using he
    cases hr
    have := hI.len_tab
    refine ⟨rfl, rfl, rfl, fun h => Bool.noConfusion h, fun _ => ⟨by omega, hI.tab_bound, hI.inline_cap⟩⟩

theorem addPool_ok {g : Geo} {s s' : St} {ok : Bool} (gok : GeoOK g) (hI : Inv g s)
    (hfull : ∀ q ∈ s.pools, q.usage = q.cap) (h : addPool g s = (ok, s')) :
    Inv g s' ∧ s'.free = s.free ∧ s'.failAt = s.failAt ∧
    (ok = false → s'.pools = s.pools) ∧ (ok = true → ∃ p, s'.pools = s.pools ++ [p] ∧ p.usage = 0) := by
  unfold addPool at h
  split at h
  · cases h; exact ⟨hI, rfl, rfl, fun _ => rfl, fun h => by cases h⟩
  · rename_i hlt
    simp only at h
    generalize hr : (if (s.pools.length == s.tableCap) = true then increaseCapacity g s else (true, s)) = r at h
    obtain ⟨ok1, s1⟩ := r
    obtain ⟨t1, t2, t3, t4, t5⟩ := addPool_table hI hr
    simp only at h
    split at h
    · rename_i hk
      have hk' : ok1 = false := by simpa using hk
      cases h
      obtain ⟨t41, t42⟩ := t4 hk'
      refine ⟨?_, t2, t3, fun _ => t1, fun h => by cases h⟩
      exact hI.congr t1 t41 t42 t2
    · rename_i hk
      have hk' : ok1 = true := by simpa using hk
      obtain ⟨t51, t52, t53⟩ := t5 hk'
      have hw : g.wrap (s1.pools.length + 1) = s.pools.length + 1 := by
        rw [t1]; exact g.wrap_of_lt (by have := g.maxPools_lt; omega)
      rw [hw] at h
      generalize hcap : (if (s.pools.length + 1 == g.maxPools) = true then g.nullSlot - (g.maxPools - 1) * g.poolCap
        else g.poolCap) = cap at h
      have hcap1 : cap ≤ g.poolCap ∧ s.pools.length * g.poolCap + cap ≤ g.nullSlot := by
        rw [← hcap]
        split
        · rename_i he
          exact g.last_pool_fits gok (by simpa using he)
        · rename_i he
          have he' : s.pools.length + 1 ≠ g.maxPools := by simpa using he
          exact ⟨Nat.le_refl _, g.inner_pool_fits (by omega)⟩
      obtain ⟨hcapA, hcapB⟩ := hcap1
      simp only [alloc_pools, alloc_free, alloc_tableCap, alloc_tableHeap, alloc_failAt, alloc_calls] at h
      generalize (s1.alloc (cap * g.slotSize)).fst = got at h
      generalize (s1.alloc (cap * g.slotSize)).snd.log = lg at h
      cases h
      rw [t1, t2, t3]
      refine ⟨?_, rfl, rfl, fun h => Bool.noConfusion h, fun _ => ⟨_, rfl, rfl⟩⟩
      have hnp : (if got = true then cap else 0) ≤ cap := by split <;> omega
      constructor
      · simp only [List.length_append, List.length_singleton]; omega
      · simp only [List.length_append, List.length_singleton]; omega
      · simp only; omega
      · exact t52
      · exact t53
      · simp
      · show PoolsOK _ _ (s.pools ++ [_])
        rw [PoolsOK_snoc]
        exact ⟨hI.pools_ok, Nat.zero_le _, by simp only; omega, by simp only; omega⟩
      · simp only [List.dropLast_concat]; exact hfull
      · intro q hq hqb
        simp only [List.mem_append, List.mem_singleton] at hq
        rcases hq with hq | rfl
        · exact hI.noblock q hq hqb
        · simp only at hqb; simp [hqb]
      · intro x hx
        show allocP _ (s.pools ++ [_]) x
        rw [allocP_snoc]; exact Or.inl (hI.free_alloc x hx)
      · exact hI.free_nodup

/-! ### allocSlot -/

theorem allocP_snoc_zero (c : Nat) (ps : List Pool) (p : Pool) (hp : p.usage = 0) (x : Nat) :
    allocP c (ps ++ [p]) x ↔ allocP c ps x := by
  rw [allocP_snoc, hp]
  constructor
  · rintro (h | h)
    · exact h
    · omega
  · exact Or.inl

/-- when the last pool cannot serve, every pool is full -/
theorem all_full_of_none {g : Geo} {s s1 : St} (hI : Inv g s)
    (h : (if s.pools.isEmpty then (none, s) else allocFromLastPool g s) = (none, s1)) :
    ∀ q ∈ s.pools, q.usage = q.cap := by
  split at h
  · rename_i he
    have : s.pools = [] := by simpa using he
    intro q hq; rw [this] at hq; cases hq
  · obtain ⟨_, hn | ⟨ps, p, hs, hp⟩⟩ := allocFromLastPool_none h
    · intro q hq; rw [hn] at hq; cases hq
    · intro q hq
      have hfi := hI.full_init
      rw [hs] at hq hfi
      simp only [List.dropLast_concat] at hfi
      simp only [List.mem_append, List.mem_singleton] at hq
      rcases hq with hq | rfl
      · exact hfi q hq
      · have hle := ((PoolsOK_snoc _ _ ps q).1 (hs ▸ hI.pools_ok)).2.1
        rcases hp with hp | hp
        · have := hI.noblock q (by rw [hs]; simp) hp
          omega
        · omega

theorem allocSlot_nil {g : Geo} {s s' : St} {res : Option Nat} (gok : GeoOK g) (hI : Inv g s)
    (hf : s.free = []) (h : allocSlot g s = (res, s')) :
    Inv g s' ∧ s'.free = [] ∧ s'.failAt = s.failAt ∧
    match res with
    | none => ∀ x, allocated g s' x ↔ allocated g s x
    | some id => id < g.nullSlot ∧ ¬ allocated g s id ∧ ∀ x, allocated g s' x ↔ allocated g s x ∨ x = id := by
  unfold allocSlot at h
  rw [hf] at h
  simp only at h
  generalize hr1 : (if s.pools.isEmpty then (none, s) else allocFromLastPool g s) = r1 at h
  obtain ⟨r, s1⟩ := r1
  simp only at h
  split at h
  · rename_i id
    cases h
    split at hr1
    · cases hr1
    · obtain ⟨a, b, c, d, e, _, _, f, _⟩ := allocFromLastPool_ok hI hr1
      exact ⟨d, by rw [e, hf], f, a, b, c⟩
  · have hfull := all_full_of_none hI hr1
    generalize hr2 : addPool g s = r2 at h
    obtain ⟨ok, s2⟩ := r2
    obtain ⟨a, b, c, d, e⟩ := addPool_ok gok hI hfull hr2
    have hal : ∀ x, allocated g s2 x ↔ allocated g s x := by
      intro x
      cases ok
      · unfold allocated; rw [d rfl]
      · obtain ⟨p, hp, hu⟩ := e rfl
        unfold allocated; rw [hp]; exact allocP_snoc_zero _ _ _ hu x
    simp only at h
    split at h
    · cases h
      exact ⟨a, by rw [b, hf], c, hal⟩
    · cases res with
      | none =>
        obtain ⟨rfl, _⟩ := allocFromLastPool_none h
        exact ⟨a, by rw [b, hf], c, hal⟩
      | some id =>
        obtain ⟨a', b', c', d', e', _, _, f', _⟩ := allocFromLastPool_ok a h
        refine ⟨d', by rw [e', b, hf], by rw [f', c], a', ?_, ?_⟩
        · rw [← hal]; exact b'
        · intro x; rw [c', hal]

/-! ### free list, freeSlot, shrink -/

theorem allocSlot_cons {g : Geo} {s : St} {id : Nat} {rest : List Nat} (hf : s.free = id :: rest) :
    allocSlot g s = (some id, { s with free := rest }) := by
  unfold allocSlot; rw [hf]

theorem allocSlot_cons_ok {g : Geo} {s : St} {id : Nat} {rest : List Nat} (hI : Inv g s) (hf : s.free = id :: rest) :
    id < g.nullSlot ∧ ¬ live g s id ∧ (∀ x, live g { s with free := rest } x ↔ live g s x ∨ x = id) ∧
      Inv g { s with free := rest } := by
  have hal := hI.free_alloc
  have hnd := hI.free_nodup
  rw [hf] at hal hnd
  have hida : allocated g s id := hal id (by simp)
  obtain ⟨hnotin, hnd'⟩ := List.nodup_cons.1 hnd
  refine ⟨allocP_lt_null hI.pools_ok hida, ?_, ?_, ?_⟩
  · intro h; exact h.2 (by rw [hf]; simp)
  · intro x
    unfold live
    show allocated g s x ∧ x ∉ rest ↔ _
    rw [hf]
    constructor
    · rintro ⟨h1, h2⟩
      by_cases hx : x = id
      · exact Or.inr hx
      · exact Or.inl ⟨h1, by simp [hx, h2]⟩
    · rintro (⟨h1, h2⟩ | rfl)
      · exact ⟨h1, fun h => h2 (List.mem_cons_of_mem _ h)⟩
      · exact ⟨hida, hnotin⟩
  · obtain ⟨a1, a2, a3, a4, a5, a6, a7, a8, a9, a10, a11⟩ := hI
    exact ⟨a1, a2, a3, a4, a5, a6, a7, a8, a9, fun x hx => hal x (List.mem_cons_of_mem _ hx), hnd'⟩

theorem freeSlot_ok {g : Geo} {s : St} {id : Nat} (hI : Inv g s) (hl : live g s id) :
    Inv g (freeSlot s id) ∧ (∀ x, live g (freeSlot s id) x ↔ live g s x ∧ x ≠ id) := by
  constructor
  · obtain ⟨a1, a2, a3, a4, a5, a6, a7, a8, a9, a10, a11⟩ := hI
    refine ⟨a1, a2, a3, a4, a5, a6, a7, a8, a9, ?_, ?_⟩
    · intro x hx
      rcases List.mem_cons.1 hx with rfl | hx
      · exact hl.1
      · exact a10 x hx
    · exact List.nodup_cons.2 ⟨hl.2, a11⟩
  · intro x
    unfold live freeSlot
    show allocated g s x ∧ x ∉ id :: s.free ↔ _
    simp only [List.mem_cons, not_or]
    constructor
    · rintro ⟨a, b, c⟩; exact ⟨⟨a, c⟩, b⟩
    · rintro ⟨⟨a, c⟩, b⟩; exact ⟨a, b, c⟩

def shrinkLast (g : Geo) (s : St) : St :=
  match s.pools.getLast? with
  | none => s
  | some p =>
    let (_, s) := s.realloc (p.usage * g.slotSize) false
    { s with pools := s.pools.dropLast ++ [{ p with cap := p.usage, hasBlock := true }] }

def shrinkTable (g : Geo) (s : St) : St :=
  if s.tableHeap && s.pools.length != s.tableCap then
    let (_, s) := s.realloc (s.pools.length * g.poolSize) false
    { s with tableCap := s.pools.length }
  else s

theorem shrink_eq (g : Geo) (s : St) : shrink g s = shrinkTable g (shrinkLast g s) := rfl

theorem shrinkLast_ok {g : Geo} {s : St} (hI : Inv g s) :
    Inv g (shrinkLast g s) ∧ (shrinkLast g s).free = s.free ∧ (shrinkLast g s).failAt = s.failAt ∧
      (∀ x, allocated g (shrinkLast g s) x ↔ allocated g s x) := by
  unfold shrinkLast
  split
  · exact ⟨hI, rfl, rfl, fun _ => Iff.rfl⟩
  · rename_i p hp
    have hs := pools_eq_snoc hp
    have hal : ∀ x, allocP g.poolCap (s.pools.dropLast ++ [{ p with cap := p.usage, hasBlock := true }]) x ↔
        allocated g s x := by
      intro x; unfold allocated; rw [allocP_snoc]; conv => rhs; rw [hs, allocP_snoc]
    refine ⟨?_, rfl, rfl, hal⟩
    simp only [realloc_pools, realloc_free, realloc_tableCap, realloc_tableHeap, realloc_failAt]
    revert hal hs
    generalize s.pools.dropLast = ps
    intro hs hal
    obtain ⟨a1, a2, a3, a4, a5, a6, a7, a8, a9, a10, a11⟩ := hI
    rw [hs] at a1 a2 a6 a7 a8 a9
    obtain ⟨okps, hp1, hp2, hp3⟩ := (PoolsOK_snoc _ _ ps p).1 a7
    constructor
    · simpa using a1
    · simpa using a2
    · exact a3
    · exact a4
    · exact a5
    · simp
    · show PoolsOK _ _ (ps ++ [_])
      rw [PoolsOK_snoc]; exact ⟨okps, Nat.le_refl _, by simp only; omega, by simp only; omega⟩
    · simpa using a8
    · intro q hq hqb
      simp only [List.mem_append, List.mem_singleton] at hq
      rcases hq with hq | rfl
      · exact a9 q (by simp [hq]) hqb
      · cases hqb
    · intro x hx; exact (hal x).2 (a10 x hx)
    · exact a11

theorem shrinkTable_ok {g : Geo} {s : St} (hI : Inv g s) :
    Inv g (shrinkTable g s) ∧ (shrinkTable g s).free = s.free ∧ (shrinkTable g s).failAt = s.failAt ∧
      (shrinkTable g s).pools = s.pools := by
  unfold shrinkTable
  split
  · rename_i hc
    simp only [Bool.and_eq_true, bne_iff_ne, ne_eq] at hc
    refine ⟨?_, rfl, rfl, rfl⟩
    simp only [realloc_pools, realloc_free, realloc_tableHeap, realloc_failAt]
    obtain ⟨a1, a2, a3, a4, a5, a6, a7, a8, a9, a10, a11⟩ := hI
    have := a6 hc.1
    exact ⟨a1, Nat.le_refl _, this, by show s.pools.length ≤ _; omega,
      fun h => by rw [hc.1] at h; exact Bool.noConfusion h, a6, a7, a8, a9, a10, a11⟩
  · exact ⟨hI, rfl, rfl, rfl⟩

theorem shrink_ok {g : Geo} {s : St} (hI : Inv g s) :
    Inv g (shrink g s) ∧ (∀ x, live g (shrink g s) x ↔ live g s x) ∧ (shrink g s).free = s.free ∧
      (shrink g s).failAt = s.failAt := by
  rw [shrink_eq]
  obtain ⟨a, b, c, d⟩ := shrinkLast_ok (g := g) hI
  obtain ⟨a', b', c', d'⟩ := shrinkTable_ok (g := g) a
  refine ⟨a', ?_, by rw [b', b], by rw [c', c]⟩
  intro x
  unfold live
  rw [b', b, ← d x]
  unfold allocated
  rw [d']

/-! ### clear, init -/

def clearStep (s : St) (p : Pool) : St := if p.hasBlock then s.dealloc else s

theorem clear_fold (ps : List Pool) (s : St) :
    (ps.foldl clearStep s).pools = s.pools ∧ (ps.foldl clearStep s).free = s.free ∧
    (ps.foldl clearStep s).tableCap = s.tableCap ∧ (ps.foldl clearStep s).tableHeap = s.tableHeap ∧
    (ps.foldl clearStep s).calls = s.calls ∧ (ps.foldl clearStep s).failAt = s.failAt ∧
    (ps.foldl clearStep s).log = List.replicate (ps.countP (·.hasBlock)) "D" ++ s.log := by
  induction ps generalizing s with
  | nil => simp
  | cons p ps ih =>
    rw [List.foldl_cons]
    obtain ⟨a, b, c, d, e, f, h⟩ := ih (clearStep s p)
    rw [a, b, c, d, e, f, h]
    unfold clearStep
    cases hb : p.hasBlock
    · simp [hb]
    · simp only [hb, ↓reduceIte, dealloc_pools, dealloc_free, dealloc_tableCap, dealloc_tableHeap, dealloc_calls,
        dealloc_failAt, dealloc_log, List.countP_cons_of_pos, true_and]
      rw [List.replicate_succ', List.append_assoc]; rfl

theorem clear_fold_failFrom (ps : List Pool) (s : St) : (ps.foldl clearStep s).failFrom = s.failFrom := by
  induction ps generalizing s with
  | nil => rfl
  | cons p ps ih =>
    rw [List.foldl_cons, ih]
    unfold clearStep
    split <;> rfl

/-- number of blocks owned by the pool list: one per pool with a block, one for a heap-allocated pool table -/
def blocks (s : St) : Nat := s.pools.countP (·.hasBlock) + (if s.tableHeap then 1 else 0)

theorem clear_spec (g : Geo) (s : St) :
    (clear g s).pools = [] ∧ (clear g s).free = [] ∧ (clear g s).tableHeap = false ∧
    (clear g s).tableCap = (if s.tableHeap then g.initPools else s.tableCap) ∧
    (clear g s).calls = s.calls ∧ (clear g s).failAt = s.failAt ∧
    (clear g s).log = List.replicate (blocks s) "D" ++ s.log := by
  obtain ⟨a, b, c, d, e, f, h⟩ := clear_fold s.pools s
  have hc : clear g s =
      (let s1 := s.pools.foldl clearStep s
       let s2 := { s1 with pools := [], free := [] }
       if s2.tableHeap then { (s2.dealloc) with tableHeap := false, tableCap := g.initPools } else s2) := rfl
  rw [hc]
  simp only
  unfold blocks
  cases hh : s.tableHeap
  · simp [d, hh, c, e, f, h]
  · simp only [d, hh, ↓reduceIte, true_and, dealloc_calls, dealloc_failAt, dealloc_log, e, f, h]
    exact ⟨rfl, rfl, rfl⟩

theorem clear_failFrom (g : Geo) (s : St) : (clear g s).failFrom = s.failFrom := by
  have h := clear_fold_failFrom s.pools s
  have hc : clear g s =
      (let s1 := s.pools.foldl clearStep s
       let s2 := { s1 with pools := [], free := [] }
       if s2.tableHeap then { (s2.dealloc) with tableHeap := false, tableCap := g.initPools } else s2) := rfl
  rw [hc]
  simp only
  split <;> exact h

theorem init_inv {g : Geo} (gok : GeoOK g) (f : List Nat) (k : Option Nat := none) :
    Inv g { init g with failAt := f, failFrom := k } := by
  refine ⟨Nat.zero_le _, Nat.zero_le _, gok.init_pos, Nat.le_max_left _ _, fun _ => rfl,
    fun h => Bool.noConfusion h, PoolsOK_nil _ _, ?_, ?_, ?_, List.nodup_nil⟩
  · intro q hq; cases hq
  · intro q hq; cases hq
  · intro x hx; cases hx

theorem clear_inv {g : Geo} (gok : GeoOK g) {s : St} (hI : Inv g s) : Inv g (clear g s) := by
  obtain ⟨a, b, c, d, _⟩ := clear_spec g s
  refine ⟨by rw [a]; exact Nat.zero_le _, by rw [a]; exact Nat.zero_le _, ?_, ?_, ?_,
    fun h => by rw [c] at h; exact Bool.noConfusion h, by rw [a]; exact PoolsOK_nil _ _, ?_, ?_, ?_,
    by rw [b]; exact List.nodup_nil⟩
  · rw [d]; split
    · exact gok.init_pos
    · exact hI.tab_pos
  · rw [d]; split
    · exact Nat.le_max_left _ _
    · exact hI.tab_bound
  · intro _; rw [d]; split
    · rfl
    · rename_i hh; exact hI.inline_cap (by simpa using hh)
  · rw [a]; intro q hq; cases hq
  · rw [a]; intro q hq; cases hq
  · rw [b]; intro x hx; cases hx

theorem clear_live (g : Geo) (s : St) (x : Nat) : ¬ live g (clear g s) x := by
  rintro ⟨h, _⟩
  unfold allocated at h
  rw [(clear_spec g s).1] at h
  exact allocP_nil _ _ h

/-! ### counting: the handed-out and the live ids as lists -/

/-- the ids handed out from pool list `ps` whose first pool has index `i`, as a list -/
def allocFrom (c : Nat) : Nat → List Pool → List Nat
  | _, [] => []
  | i, p :: ps => List.range' (i * c) p.usage ++ allocFrom c (i + 1) ps

theorem mem_allocFrom (c : Nat) (ps : List Pool) (i x : Nat) :
    x ∈ allocFrom c i ps ↔ ∃ k p, ps[k]? = some p ∧ (i + k) * c ≤ x ∧ x < (i + k) * c + p.usage := by
  induction ps generalizing i with
  | nil => simp [allocFrom]
  | cons q ps ih =>
    simp only [allocFrom, List.mem_append, List.mem_range'_1, ih]
    constructor
    · rintro (h | ⟨k, p, hk, h1, h2⟩)
      · exact ⟨0, q, rfl, by simpa using h.1, by simpa using h.2⟩
      · refine ⟨k + 1, p, by simpa using hk, ?_, ?_⟩
        · rw [show i + (k + 1) = i + 1 + k by omega]; exact h1
        · rw [show i + (k + 1) = i + 1 + k by omega]; exact h2
    · rintro ⟨k, p, hk, h1, h2⟩
      cases k with
      | zero =>
        simp only [List.getElem?_cons_zero, Option.some.injEq] at hk
        subst hk
        exact Or.inl ⟨by simpa using h1, by simpa using h2⟩
      | succ k =>
        refine Or.inr ⟨k, p, by simpa using hk, ?_, ?_⟩
        · rw [show i + 1 + k = i + (k + 1) by omega]; exact h1
        · rw [show i + 1 + k = i + (k + 1) by omega]; exact h2

theorem mem_allocFrom_zero (c : Nat) (ps : List Pool) (x : Nat) : x ∈ allocFrom c 0 ps ↔ allocP c ps x := by
  rw [mem_allocFrom]; unfold allocP; simp only [Nat.zero_add]

theorem allocFrom_ge {c : Nat} {ps : List Pool} {i x : Nat} (h : x ∈ allocFrom c i ps) : i * c ≤ x := by
  obtain ⟨k, p, _, h1, _⟩ := (mem_allocFrom c ps i x).1 h
  have : i * c ≤ (i + k) * c := Nat.mul_le_mul_right _ (by omega)
  omega

theorem nodup_allocFrom {c : Nat} {ps : List Pool} (h : ∀ p ∈ ps, p.usage ≤ c) (i : Nat) :
    (allocFrom c i ps).Nodup := by
  induction ps generalizing i with
  | nil => exact List.nodup_nil
  | cons q ps ih =>
    simp only [allocFrom]
    rw [List.nodup_append]
    refine ⟨List.nodup_range', ih (fun p hp => h p (List.mem_cons_of_mem _ hp)) _, ?_⟩
    intro a ha b hb
    have h1 := (List.mem_range'_1.1 ha).2
    have h2 := allocFrom_ge hb
    have h3 := h q (by simp)
    have h4 : (i + 1) * c = i * c + c := Nat.succ_mul _ _
    omega

theorem length_allocFrom (c : Nat) (ps : List Pool) (i a : Nat) :
    ps.foldl (fun a p => a + p.usage) a = a + (allocFrom c i ps).length := by
  induction ps generalizing i a with
  | nil => simp [allocFrom]
  | cons q ps ih =>
    rw [List.foldl_cons, ih (i + 1)]
    simp only [allocFrom, List.length_append, List.length_range']
    omega

/-- the ids of a non-empty pool list that ends at or before `n` number at most `n − i·c` -/
theorem allocFrom_length_le {c n : Nat} {ps : List Pool} {i : Nat}
    (h : ∀ k p, ps[k]? = some p → p.usage ≤ c ∧ (i + k) * c + p.usage ≤ n) (hne : ps ≠ []) :
    i * c + (allocFrom c i ps).length ≤ n := by
  induction ps generalizing i with
  | nil => exact absurd rfl hne
  | cons q ps ih =>
    simp only [allocFrom, List.length_append, List.length_range']
    have h0 := h 0 q rfl
    by_cases hps : ps = []
    · subst hps; simp only [allocFrom, List.length_nil]; simpa using h0.2
    · have := ih (i := i + 1) (fun k p hk => by
        have := h (k + 1) p (by simpa using hk)
        rw [show i + (k + 1) = i + 1 + k by omega] at this; exact this) hps
      have h4 : (i + 1) * c = i * c + c := Nat.succ_mul _ _
      omega

def allocatedIds (g : Geo) (s : St) : List Nat := allocFrom g.poolCap 0 s.pools

/-- the live slots as a list -/
def liveIds (g : Geo) (s : St) : List Nat := (allocatedIds g s).filter (fun x => decide (x ∉ s.free))

theorem mem_allocatedIds (g : Geo) (s : St) (x : Nat) : x ∈ allocatedIds g s ↔ allocated g s x :=
  mem_allocFrom_zero _ _ _

theorem mem_liveIds (g : Geo) (s : St) (x : Nat) : x ∈ liveIds g s ↔ live g s x := by
  unfold liveIds live
  rw [List.mem_filter, mem_allocatedIds]
  simp

theorem length_allocatedIds (g : Geo) (s : St) : (allocatedIds g s).length = usage s := by
  unfold usage allocatedIds
  rw [length_allocFrom g.poolCap s.pools 0 0]; omega

theorem Inv.usage_le {g : Geo} {s : St} (hI : Inv g s) : usage s ≤ g.nullSlot := by
  rw [← length_allocatedIds g s]
  unfold allocatedIds
  by_cases hne : s.pools = []
  · rw [hne]; simp [allocFrom]
  · have := allocFrom_length_le (c := g.poolCap) (n := g.nullSlot) (ps := s.pools) (i := 0)
      (fun k p hk => by
        obtain ⟨a, b, c⟩ := hI.pools_ok k p hk
        rw [Nat.zero_add]; omega) hne
    omega

theorem Inv.allocatedIds_nodup {g : Geo} {s : St} (hI : Inv g s) : (allocatedIds g s).Nodup := by
  apply nodup_allocFrom
  intro p hp
  obtain ⟨k, hk⟩ := List.getElem?_of_mem hp
  obtain ⟨a, b, _⟩ := hI.pools_ok k p hk
  omega

theorem Inv.liveIds_nodup {g : Geo} {s : St} (hI : Inv g s) : (liveIds g s).Nodup :=
  hI.allocatedIds_nodup.filter _

theorem Inv.liveIds_length_le {g : Geo} {s : St} (hI : Inv g s) : (liveIds g s).length ≤ g.nullSlot :=
  Nat.le_trans (List.length_filter_le _ _) (by rw [length_allocatedIds]; exact hI.usage_le)

theorem length_filter_ne {l : List Nat} {a : Nat} (hn : l.Nodup) (ha : a ∈ l) :
    (l.filter (fun x => decide (x ≠ a))).length + 1 = l.length := by
  induction l with
  | nil => cases ha
  | cons b l ih =>
    obtain ⟨hb, hn'⟩ := List.nodup_cons.1 hn
    by_cases hba : b = a
    · subst hba
      have : l.filter (fun x => decide (x ≠ b)) = l := by
        rw [List.filter_eq_self]
        intro x hx; simp only [ne_eq, decide_eq_true_eq]; intro h; subst h; exact hb hx
      rw [List.filter_cons_of_neg (by simp), this, List.length_cons]
    · have ha' : a ∈ l := by
        rcases List.mem_cons.1 ha with h | h
        · exact absurd h.symm hba
        · exact h
      have := ih hn' ha'
      simp only [ne_eq, hba, not_false_eq_true, decide_true, List.filter_cons_of_pos, List.length_cons]
      simpa using this

theorem length_filter_notin {l f : List Nat} (hl : l.Nodup) (hf : f.Nodup) (hsub : ∀ x ∈ f, x ∈ l) :
    (l.filter (fun x => decide (x ∉ f))).length + f.length = l.length := by
  induction f with
  | nil => simp
  | cons a f ih =>
    obtain ⟨haf, hf'⟩ := List.nodup_cons.1 hf
    have ih' := ih hf' (fun x hx => hsub x (List.mem_cons_of_mem _ hx))
    have hmem : a ∈ l.filter (fun x => decide (x ∉ f)) := by
      rw [List.mem_filter]; exact ⟨hsub a (by simp), by simpa using haf⟩
    have := length_filter_ne (hl.filter _) hmem
    rw [List.filter_filter] at this
    have he : l.filter (fun x => decide (x ∉ a :: f)) =
        l.filter (fun x => decide (x ≠ a) && decide (x ∉ f)) := by
      congr 1; funext x; simp [List.mem_cons, not_or]
    rw [he, List.length_cons]
    omega

/-- live slots = handed out − free list, as a number -/
theorem Inv.liveIds_length {g : Geo} {s : St} (hI : Inv g s) :
    (liveIds g s).length + s.free.length = usage s := by
  rw [← length_allocatedIds g s]
  exact length_filter_notin hI.allocatedIds_nodup hI.free_nodup
    (fun x hx => (mem_allocatedIds g s x).2 (hI.free_alloc x hx))

end PL
