/- The projection of members commutes with the "last value wins, first position kept" merge of repeated keys,
   in the vocabulary of the completeness proof (`foldMembers`, `Spec.Json.lastWins`). -/
import AJ.Lemmas.ProjectAlg
import AJ.Lemmas.JsonComplete
set_option linter.unusedSimpArgs false
namespace JD
open Spec.Filter

/-- the members kept by the filter, merged, are the merged members, filtered -/
theorem projectMembers_foldMembers (f : Flt) (ms acc : List (List Byte × Val)) :
    projectMembers f (foldMembers acc ms) = foldMembers (projectMembers f acc) (projectMembers f ms) :=
  projectMembers_foldl f ms acc

theorem projectMembers_lastWins (f : Flt) (ms : List (List Byte × Val)) :
    projectMembers f (Spec.Json.lastWins ms) = Spec.Json.lastWins (projectMembers f ms) := by
  rw [lastWins_eq, lastWins_eq, projectMembers_foldMembers]
  rfl

end JD
