/- Algebra of the projection `Spec.Filter.project`: the `filterMap` presentations, and how the projection of
   members commutes with `setMember` (the "last value wins, first position kept" merge of repeated keys). -/
import AJ.Spec.Filter
import AJ.Lemmas.FilterId
set_option linter.unusedSimpArgs false
namespace JD
open Spec.Filter

/-! ## `filterMap` presentations (the form of the property text) -/

theorem projectElems_eq (ef : Flt) (xs : List Val) :
    projectElems ef xs = xs.filterMap (fun x => if ef.allow then some (project ef x) else none) := by
  induction xs with
  | nil => simp only [projectElems, List.filterMap_nil]
  | cons x xs ih =>
    cases h : ef.allow
    · simp only [projectElems, h, Bool.false_eq_true, ↓reduceIte, List.filterMap_cons, ih]
    · simp only [projectElems, h, ↓reduceIte, List.filterMap_cons, ih]

theorem projectMembers_eq (f : Flt) (ms : List (List Byte × Val)) :
    projectMembers f ms =
      ms.filterMap (fun kv => if (f.subKey kv.1).allow then some (kv.1, project (f.subKey kv.1) kv.2) else none) := by
  induction ms with
  | nil => simp only [projectMembers, List.filterMap_nil]
  | cons kv ms ih =>
    obtain ⟨k, x⟩ := kv
    cases h : (f.subKey k).allow
    · simp only [projectMembers, h, Bool.false_eq_true, ↓reduceIte, List.filterMap_cons, ih]
    · simp only [projectMembers, h, ↓reduceIte, List.filterMap_cons, ih]

theorem project_arr (f : Flt) (xs : List Val) :
    project f (.arr xs) =
      if f.allowArray then .arr (xs.filterMap (fun x => if f.subIdx.allow then some (project f.subIdx x) else none))
      else .null := by
  simp only [project, projectElems_eq]

theorem project_obj (f : Flt) (ms : List (List Byte × Val)) :
    project f (.obj ms) =
      if f.allowObject then
        .obj (ms.filterMap (fun kv => if (f.subKey kv.1).allow then some (kv.1, project (f.subKey kv.1) kv.2) else none))
      else .null := by
  simp only [project, projectMembers_eq]

/-- scalars and strings: kept iff the filter accepts values (`null` stays `null` either way) -/
theorem project_scalar (f : Flt) (v : Val) (h1 : v.isArr = false) (h2 : v.isObj = false) :
    project f v = if f.allowValue then v else .null := by
  cases v with
  | arr xs => exact Bool.noConfusion h1
  | obj ms => exact Bool.noConfusion h2
  | null => simp only [project, ite_self]
  | _ => simp only [project]

theorem project_null (f : Flt) : project f .null = .null := by simp only [project]

theorem projectElems_append (ef : Flt) (xs ys : List Val) :
    projectElems ef (xs ++ ys) = projectElems ef xs ++ projectElems ef ys := by
  simp only [projectElems_eq, List.filterMap_append]

/-! ## repeated keys: projecting commutes with merging -/

theorem projectMembers_setMember (f : Flt) (ms : List (List Byte × Val)) (k : List Byte) (v : Val) :
    projectMembers f (setMember ms k v) =
      if (f.subKey k).allow then setMember (projectMembers f ms) k (project (f.subKey k) v)
      else projectMembers f ms := by
  induction ms with
  | nil =>
    cases h : (f.subKey k).allow
    · simp only [setMember, projectMembers, h, Bool.false_eq_true, ↓reduceIte]
    · simp only [setMember, projectMembers, h, ↓reduceIte]
  | cons kv ms ih =>
    obtain ⟨k', v'⟩ := kv
    by_cases hk : k' = k
    · subst hk
      cases h : (f.subKey k').allow
      · simp only [setMember, projectMembers, h, beq_self_eq_true, Bool.false_eq_true, ↓reduceIte]
      · simp only [setMember, projectMembers, h, beq_self_eq_true, ↓reduceIte]
    · have hb : (k' == k) = false := by simpa using hk
      cases h : (f.subKey k).allow <;> cases h' : (f.subKey k').allow <;>
        simp only [setMember, projectMembers, h, h', hb, ih, Bool.false_eq_true, ↓reduceIte]

/-- the same on a fold, as `parseMembers` / `fparseMembers` accumulate -/
theorem projectMembers_foldl (f : Flt) (ms acc : List (List Byte × Val)) :
    projectMembers f (ms.foldl (fun a kv => setMember a kv.1 kv.2) acc) =
      (projectMembers f ms).foldl (fun a kv => setMember a kv.1 kv.2) (projectMembers f acc) := by
  induction ms generalizing acc with
  | nil => simp only [List.foldl_nil, projectMembers]
  | cons kv ms ih =>
    obtain ⟨k, v⟩ := kv
    rw [List.foldl_cons, ih, projectMembers_setMember]
    cases h : (f.subKey k).allow
    · simp only [projectMembers, h, Bool.false_eq_true, ↓reduceIte]
    · simp only [projectMembers, h, ↓reduceIte, List.foldl_cons]

end JD
