/- Towards C11 at full strength: for EVERY input on which the unfiltered JSON deserializer succeeds (library
   dialect included: single quotes, unquoted keys, comments, NaN/Infinity, `decodeUnicode = false`, trailing
   bytes after the document), the filtered one succeeds, returns the projection and ends in the same state.
   By induction on the fuel, with the remaining-input measure `rem` of AJ/Lemmas/Fuel.lean. -/
import AJ.Lemmas.ProjectAlg
import AJ.Lemmas.FuelF
import AJ.Lemmas.Latch
import AJ.Lemmas.Bits
set_option linter.unusedSimpArgs false
namespace JD
open Spec.Filter

/-! ## `skipSpaces`: what it stops on, idempotence, independence of the fuel -/

theorem cur_snd_cur (s : St) : (cur s).2.l.cur = (cur s).1 := by
  cases h : s.l.loaded
  · cases h2 : s.l.unread with
    | nil => rw [cur_nil h h2]; rfl
    | cons c rest => rw [cur_cons h h2]; rfl
  · rw [cur_loaded h]

theorem setFound_eq' {X : St} (h : X.found = true) : { X with found := true } = X := by
  cases X; simp only at *; simp [h]

theorem cur_snd_loaded_d2 (s : St) : (cur s).2.l.loaded = true := by
  cases h : s.l.loaded
  · cases h2 : s.l.unread with
    | nil => rw [cur_nil h h2]; rfl
    | cons c rest => rw [cur_cons h h2]; rfl
  · rw [cur_loaded h]; exact h

/-- a state on which `skipSpaces` has stopped with `Ok`: a token byte is latched -/
def Settled (cfg : Cfg) (Y : St) : Prop :=
  Y.l.loaded = true ∧ Y.found = true ∧ (Y.l.cur == 0) = false ∧ isWs Y.l.cur = false ∧
    (cfg.comments && Y.l.cur == 0x2F) = false

theorem Settled.cur {cfg Y} (h : Settled cfg Y) : cur Y = (Y.l.cur, Y) := cur_loaded h.1

theorem skipSpaces_of_settled {cfg Y} (h : Settled cfg Y) (n : Nat) : skipSpaces cfg (n + 1) Y = (.ok, Y) := by
  simp only [skipSpaces, h.cur, h.2.2.1, h.2.2.2.1, h.2.2.2.2, Bool.false_eq_true, ↓reduceIte]
  exact congrArg (Prod.mk Code.ok) (setFound_eq' h.2.1)

theorem skipSpaces_settled {cfg} : ∀ F s Y, skipSpaces cfg F s = (.ok, Y) → Settled cfg Y := by
  intro F
  induction F with
  | zero => intro s Y h; simp only [skipSpaces] at h; cases h
  | succ n ih =>
    intro s Y h
    simp only [skipSpaces] at h
    split at h
    · split at h <;> cases h
    · rename_i h0
      split at h
      · exact ih _ _ h
      · rename_i hw
        split at h
        · split at h
          · split at h
            · exact ih _ _ h
            · rename_i hne; exact (hne _ h).elim
          · split at h
            · split at h
              · exact ih _ _ h
              · rename_i hne; exact (hne _ h).elim
            · cases h
        · rename_i hc
          cases h
          refine ⟨cur_snd_loaded_d2 s, rfl, ?_, ?_, ?_⟩
          · show ((cur s).2.l.cur == 0) = false
            rw [cur_snd_cur]; simpa using h0
          · show isWs (cur s).2.l.cur = false
            rw [cur_snd_cur]; simpa using hw
          · show (cfg.comments && (cur s).2.l.cur == 0x2F) = false
            rw [cur_snd_cur]; simpa using hc

theorem skipBlock_fuel : ∀ F F' w s k, rem s ≤ k → k + 1 ≤ F → k + 1 ≤ F' → skipBlock F w s = skipBlock F' w s := by
  intro F
  induction F with
  | zero => intro F' w s k _ hF; omega
  | succ n ih =>
    intro F' w s k h hF hF'
    obtain ⟨m, rfl⟩ : ∃ m, F' = m + 1 := ⟨F' - 1, by omega⟩
    simp only [skipBlock]
    split
    · rfl
    · rename_i hc
      obtain ⟨hk, h1⟩ := step h (nz_of_not hc)
      split
      · rfl
      · exact ih m _ _ (k - 1) h1 (by omega) (by omega)

theorem skipLine_fuel : ∀ F F' s k, rem (mv s) ≤ k → k + 1 ≤ F → k + 1 ≤ F' → skipLine F s = skipLine F' s := by
  intro F
  induction F with
  | zero => intro F' s k _ hF; omega
  | succ n ih =>
    intro F' s k h hF hF'
    obtain ⟨m, rfl⟩ : ∃ m, F' = m + 1 := ⟨F' - 1, by omega⟩
    simp only [skipLine]
    split
    · rfl
    · rename_i hc
      obtain ⟨hk, h1⟩ := step h (nz_of_not hc)
      split
      · rfl
      · exact ih m _ (k - 1) h1 (by omega) (by omega)

theorem skipSpaces_fuel {cfg} : ∀ F F' s k, rem s ≤ k → k + 1 ≤ F → k + 1 ≤ F' →
    skipSpaces cfg F s = skipSpaces cfg F' s := by
  intro F
  induction F with
  | zero => intro F' s k _ hF; omega
  | succ n ih =>
    intro F' s k h hF hF'
    obtain ⟨m, rfl⟩ : ∃ m, F' = m + 1 := ⟨F' - 1, by omega⟩
    simp only [skipSpaces]
    split
    · rfl
    · rename_i hc
      obtain ⟨hk, h1⟩ := step h (nz_of_not hc)
      split
      · exact ih m _ (k - 1) h1 (by omega) (by omega)
      · split
        · have h2 := look h1
          split
          · rename_i hd
            obtain ⟨hk2, h3⟩ := step h1 (nz_of_beq hd (by decide))
            have hb := skipBlock_ok n false _ _ h3 (by omega)
            rw [skipBlock_fuel n m false _ (k - 1 - 1) h3 (by omega) (by omega)] at hb ⊢
            split
            · rename_i heq; rw [heq] at hb
              exact ih m _ (k - 1 - 1) hb.1 (by omega) (by omega)
            · rfl
          · split
            · rename_i hd
              obtain ⟨hk2, h3⟩ := step h1 (nz_of_beq hd (by decide))
              have hb := skipLine_ok n _ _ h3 (by omega)
              rw [skipLine_fuel n m _ (k - 1 - 1) h3 (by omega) (by omega)] at hb ⊢
              split
              · rename_i heq; rw [heq] at hb
                exact ih m _ (k - 1 - 1) hb.1 (by omega) (by omega)
              · rfl
            · rfl
        · rfl

/-! ## leaves: keys, numbers, strings -/

theorem skipUnquoted_parse : ∀ n acc s, skipUnquoted n s = (parseUnquoted n acc s).2 := by
  intro n
  induction n with
  | zero => intro acc s; rfl
  | succ n ih =>
    intro acc s
    simp only [skipUnquoted, parseUnquoted]
    split
    · exact ih _ _
    · rfl

theorem inNumber_zero' (cfg : Cfg) : inNumber cfg 0 = false := by
  unfold inNumber
  generalize (cfg.nan || cfg.inf) = b
  cases b <;> decide

theorem inNumber_delims' (cfg : Cfg) :
    inNumber cfg 0x2C = false ∧ inNumber cfg 0x5D = false ∧ inNumber cfg 0x7D = false := by
  unfold inNumber
  generalize (cfg.nan || cfg.inf) = b
  cases b <;> decide

/-- a byte that can be in a number is a token byte, and not a structural one -/
theorem inNumber_facts (cfg : Cfg) (c : Byte) (h : inNumber cfg c = true) :
    (c == 0) = false ∧ isWs c = false ∧ (c == 0x2F) = false ∧ (c == 0x5D) = false ∧ (c == 0x2C) = false ∧
    (c == 0x7D) = false := by
  have key : ∀ c : UInt8, ((!((0x30 ≤ c && c ≤ 0x39) || c == 0x2B || c == 0x2D || c == 0x2E ||
      ((0x41 ≤ c && c ≤ 0x5A) || (0x61 ≤ c && c ≤ 0x7A)))) ||
      (c != 0 && !isWs c && c != 0x2F && c != 0x5D && c != 0x2C && c != 0x7D)) = true := by
    apply Bits.all_bytes; decide +kernel
  have hk := key c
  have hs : ((0x30 ≤ c && c ≤ 0x39) || c == 0x2B || c == 0x2D || c == 0x2E ||
      ((0x41 ≤ c && c ≤ 0x5A) || (0x61 ≤ c && c ≤ 0x7A))) = true := by
    unfold inNumber at h
    generalize (cfg.nan || cfg.inf) = b at h
    cases b
    · simp only [Bool.false_eq_true, ↓reduceIte, Bool.or_eq_true] at h
      rcases h with h | h
      · simp only [Bool.or_eq_true]; left; exact h
      · rcases h with h | h
        · have : c = 0x65 := by simpa using h
          subst this; decide
        · have : c = 0x45 := by simpa using h
          subst this; decide
    · simpa using h
  rw [hs] at hk
  simp only [Bool.not_true, Bool.false_or, Bool.and_eq_true, bne_iff_ne, ne_eq, Bool.not_eq_true'] at hk
  obtain ⟨⟨⟨⟨⟨a1, a2⟩, a3⟩, a4⟩, a5⟩, a6⟩ := hk
  refine ⟨?_, a2, ?_, ?_, ?_, ?_⟩ <;> simpa

/-- `skipNumeric` ends where `scanNumber` ends, provided the scanner stopped on a delimiter (and not on its
    63-byte limit) -/
theorem skipNumeric_scan {cfg : Cfg} : ∀ n acc s F k, rem s ≤ k → k + 1 ≤ F →
    inNumber cfg (cur (scanNumber cfg n acc s).2).1 = false → skipNumeric cfg F s = (scanNumber cfg n acc s).2 := by
  intro n
  induction n with
  | zero =>
    intro acc s F k h hF hd
    obtain ⟨m, rfl⟩ : ∃ m, F = m + 1 := ⟨F - 1, by omega⟩
    simp only [scanNumber] at hd ⊢
    rw [cur_cur] at hd
    simp only [skipNumeric, hd, Bool.false_eq_true, ↓reduceIte]
  | succ n ih =>
    intro acc s F k h hF hd
    obtain ⟨m, rfl⟩ : ∃ m, F = m + 1 := ⟨F - 1, by omega⟩
    simp only [scanNumber] at hd ⊢
    simp only [skipNumeric]
    cases hc : inNumber cfg (cur s).1
    · simp only [Bool.false_eq_true, ↓reduceIte]
    · simp only [hc, ↓reduceIte] at hd ⊢
      have hnz : (cur s).1 ≠ 0 := by
        intro h0; rw [h0, inNumber_zero'] at hc; cases hc
      obtain ⟨hk, h1⟩ := step h hnz
      exact ih _ _ m (k - 1) h1 (by omega) hd

theorem parseNumeric_ok_form {cfg : Cfg} {s : St} {v : Val} {s1 : St} (h : parseNumeric cfg s = (.ok, v, s1)) :
    (∃ n, v = .num n) ∧ s1 = (scanNumber cfg 63 [] s).2 := by
  have e : Gen.number_buffer - 1 = 63 := rfl
  simp only [parseNumeric, e] at h
  generalize scanNumber cfg 63 [] s = q at h
  obtain ⟨buf, X⟩ := q
  simp only at h
  split at h <;> first | (cases h; exact ⟨⟨_, rfl⟩, rfl⟩) | (cases h; done)

/-- the closing quotes of the library: no hexadecimal digit, not the backslash, not `u` -/
def StopOk (stop : Byte) : Prop := decodeHex stop > 0x0F ∧ stop ≠ 0x5C ∧ stop ≠ 0x75

theorem stopOk_of_quote {c : Byte} (h : (c == 0x22 || c == 0x27) = true) : StopOk c := by
  simp only [Bool.or_eq_true, beq_iff_eq] at h
  rcases h with rfl | rfl <;> exact ⟨by decide, by decide, by decide⟩

theorem hex_byte_plain {stop c : Byte} (hs : StopOk stop) (hv : ¬ decodeHex c > 0x0F) :
    (c == stop) = false ∧ (c == 0x5C) = false := by
  refine ⟨?_, ?_⟩
  · cases h : c == stop
    · rfl
    · have : c = stop := by simpa using h
      rw [this] at hv; exact absurd hs.1 hv
  · cases h : c == 0x5C
    · rfl
    · have : c = 0x5C := by simpa using h
      rw [this] at hv; exact absurd (by decide : decodeHex 0x5C > 0x0F) hv

/-- hexadecimal digits are ordinary bytes for `skipQuoted` -/
theorem skipQuoted_hex {stop : Byte} (hs : StopOk stop) : ∀ m a t cu s3 G, parseHex4 m a t = (.ok, cu, s3) →
    skipQuoted stop (G + m) t = skipQuoted stop G s3 ∧ rem s3 + m ≤ rem t := by
  intro m
  induction m with
  | zero => intro a t cu s3 G h; simp only [parseHex4] at h; cases h; exact ⟨rfl, Nat.le_refl _⟩
  | succ m ih =>
    intro a t cu s3 G h
    simp only [parseHex4] at h
    split at h
    · cases h
    · rename_i h0
      split at h
      · cases h
      · rename_i hv
        obtain ⟨e1, e2⟩ := hex_byte_plain hs hv
        obtain ⟨i1, i2⟩ := ih _ _ _ _ G h
        have hr := rem_mv_cur t (nz_of_not h0)
        refine ⟨?_, by omega⟩
        have : G + (m + 1) = (G + m) + 1 := by omega
        rw [this]
        simp only [skipQuoted, e1, h0, e2, Bool.false_eq_true, ↓reduceIte]
        exact i1

/-- **strings**: whenever `parseQuoted` succeeds, `skipQuoted` (with fuel for the remaining input) succeeds and
    ends in the same state — escapes, `\uXXXX` with or without decoding, surrogates, either quote -/
theorem skipQuoted_of_parse {cfg : Cfg} {stop : Byte} (hs : StopOk stop) :
    ∀ n m, m ≤ n → ∀ acc hi s r s1 F, parseQuoted cfg stop m acc hi s = (.ok, r, s1) → rem s + 1 ≤ F →
      skipQuoted stop F s = (.ok, s1) := by
  intro n
  induction n with
  | zero =>
    intro m hm acc hi s r s1 F h
    have : m = 0 := by omega
    subst this; simp only [parseQuoted] at h; cases h
  | succ n ih =>
    intro m hm acc hi s r s1 F h hF
    cases m with
    | zero => simp only [parseQuoted] at h; cases h
    | succ m =>
      obtain ⟨G, rfl⟩ : ∃ G, F = G + 1 := ⟨F - 1, by omega⟩
      simp only [parseQuoted] at h
      simp only [skipQuoted]
      split at h
      · rename_i hc
        split at h
        · cases h
        · cases h; simp only [hc, ↓reduceIte]
      · rename_i hc
        split at h
        · cases h
        · rename_i h0
          have r1 := rem_mv_cur s (nz_of_not h0)
          split at h
          · rename_i hb
            split at h
            · cases h
            · rename_i hd0
              have r2 := rem_mv_cur (mv (cur s).2) (nz_of_not hd0)
              have hdn : ((cur (mv (cur s).2)).1 != 0) = true := by
                simp only [bne_iff_ne, ne_eq]; exact nz_of_not hd0
              simp only [hc, h0, hb, hdn, ↓reduceIte]
              split at h
              · rename_i hu
                split at h
                · split at h
                  · rename_i cu s3 heq
                    obtain ⟨G', rfl⟩ : ∃ G', G = G' + 4 := by
                      have := (skipQuoted_hex hs 4 0 _ cu s3 0 heq).2
                      exact ⟨G - 4, by omega⟩
                    obtain ⟨i1, i2⟩ := skipQuoted_hex hs 4 0 _ cu s3 G' heq
                    rw [i1]
                    split at h
                    · exact ih m (by omega) _ _ _ _ _ _ h (by omega)
                    · split at h
                      · exact ih m (by omega) _ _ _ _ _ _ h (by omega)
                      · exact ih m (by omega) _ _ _ _ _ _ h (by omega)
                  · rename_i hne
                    simp only [Prod.mk.injEq] at h
                    exact absurd h.1 (by assumption)
                · cases m with
                  | zero => simp only [parseQuoted] at h; cases h
                  | succ m' =>
                    have hd75 : (cur (mv (cur s).2)).1 = 0x75 := by simpa using hu
                    have k1 : ((0x75 : Byte) == stop) = false := by
                      cases hq : (0x75 : Byte) == stop
                      · rfl
                      · exact absurd (by simpa using hq : (0x75 : Byte) = stop).symm hs.2.2
                    have k2 : ((0x75 : Byte) == 0) = false := by decide
                    have k3 : ((0x75 : Byte) == 0x5C) = false := by decide
                    simp only [parseQuoted, cur_cur, hd75, k1, k2, k3, Bool.false_eq_true, ↓reduceIte] at h
                    exact ih m' (by omega) _ _ _ _ _ _ h (by omega)
              · split at h
                · cases h
                · exact ih m (by omega) _ _ _ _ _ _ h (by omega)
          · rename_i hb
            simp only [hc, h0, hb, ↓reduceIte]
            exact ih m (by omega) _ _ _ _ _ _ h (by omega)

/-! ## the simulation, by induction on the fuel -/

/-- after a number the parser has latched the byte that follows; it must be a delimiter (it always is when the
    surrounding routine goes on successfully) -/
def NumOk (cfg : Cfg) (v : Val) (s1 : St) : Prop := isNumberVal v = true → inNumber cfg (cur s1).1 = false

theorem delim_after {cfg : Cfg} {F : Nat} {s' s'' : St} (h : skipSpaces cfg (F + 1) s' = (.ok, s''))
    (hd : inNumber cfg (cur s'').1 = false) : inNumber cfg (cur s').1 = false := by
  cases hc : inNumber cfg (cur s').1
  · rfl
  · exfalso
    obtain ⟨e0, e1, e2, _⟩ := inNumber_facts cfg _ hc
    simp only [skipSpaces, e0, e1, e2, Bool.and_false, Bool.false_eq_true, ↓reduceIte] at h
    cases h
    have hl : cur ({ (cur s').2 with found := true } : St) = ((cur s').2.l.cur, { (cur s').2 with found := true }) :=
      cur_loaded (cur_snd_loaded_d2 s')
    rw [hl, cur_snd_cur, hc] at hd
    cases hd

abbrev fold (ms kvs : List (List Byte × Val)) : List (List Byte × Val) :=
  kvs.foldl (fun a kv => setMember a kv.1 kv.2) ms

def VS (cfg : Cfg) (f : Nat) : Prop :=
  ∀ L s v s1 k, parseVariant cfg f L s = (.ok, v, s1) → rem s ≤ k → 2 * k + 1 ≤ f → NumOk cfg v s1 →
    skipVariant cfg f L s = (.ok, s1) ∧ ∀ flt, fparseVariant cfg f L flt s = (.ok, project flt v, s1)
def ES (cfg : Cfg) (f : Nat) : Prop :=
  ∀ L s acc v s1 k, parseElems cfg f L s acc = (.ok, v, s1) → rem s ≤ k → 2 * k + 2 ≤ f →
    ∃ xs, v = .arr (acc.reverse ++ xs) ∧ skipElems cfg f L s = (.ok, s1) ∧
      ∀ ef acc', fparseElems cfg f L ef s acc' = (.ok, .arr (acc'.reverse ++ projectElems ef xs), s1)
def MS (cfg : Cfg) (f : Nat) : Prop :=
  ∀ L s ms v s1 k, parseMembers cfg f L s ms = (.ok, v, s1) → rem s ≤ k → 2 * k + 2 ≤ f →
    ∃ kvs, v = .obj (fold ms kvs) ∧ skipMembers cfg f L s = (.ok, s1) ∧
      ∀ flt ms', fparseMembers cfg f L flt s ms' = (.ok, .obj (fold ms' (projectMembers flt kvs)), s1)

theorem parseVariant_rem {cfg : Cfg} {f L s v s1 k} (h : parseVariant cfg f L s = (.ok, v, s1)) (hr : rem s ≤ k)
    (hf : 2 * k + 1 ≤ f) : rem s1 ≤ k := by
  have := ((fuel_mutual (cfg := cfg) f).1 L s k hr hf).1
  rw [h] at this; exact this

theorem skipSpaces_rem {cfg : Cfg} {f s s1 k} (h : skipSpaces cfg f s = (.ok, s1)) (hr : rem s ≤ k)
    (hf : k + 1 ≤ f) : rem s1 ≤ k := by
  have := (skipSpaces_ok (cfg := cfg) f s k hr hf).1
  rw [h] at this; exact this

theorem step_E {cfg : Cfg} (f : Nat) (ihV : VS cfg f) (ihE : ES cfg f) : ES cfg (f + 1) := by
  intro L s acc v s1 k h hr hf
  simp only [parseElems] at h
  split at h
  · rename_i v0 s' heqV
    have r1 := parseVariant_rem heqV hr (by omega)
    split at h
    · rename_i s'' heqS
      have r2 := skipSpaces_rem heqS r1 (by omega)
      split at h
      · rename_i hc
        cases h
        have hc' : (cur s'').1 = 0x5D := by simpa using hc
        have nok : NumOk cfg v0 s' := fun _ => delim_after heqS (by rw [hc']; exact (inNumber_delims' cfg).2.1)
        obtain ⟨hsk, hfp⟩ := ihV L s v0 s' k heqV hr (by omega) nok
        refine ⟨[v0], by simp, ?_, ?_⟩
        · simp only [skipElems, hsk, heqS, hc, ↓reduceIte]
        · intro ef acc'
          cases ha : ef.allow
          · simp only [fparseElems, ha, hsk, heqS, hc, ↓reduceIte, Bool.false_eq_true, projectElems, List.append_nil]
          · simp only [fparseElems, ha, hfp ef, heqS, hc, ↓reduceIte, projectElems, List.reverse_cons, List.append_assoc,
              List.singleton_append]
      · rename_i hc
        split at h
        · rename_i hc2
          have hc' : (cur s'').1 = 0x2C := by simpa using hc2
          have nok : NumOk cfg v0 s' := fun _ => delim_after heqS (by rw [hc']; exact (inNumber_delims' cfg).1)
          obtain ⟨hsk, hfp⟩ := ihV L s v0 s' k heqV hr (by omega) nok
          obtain ⟨hk1, r3⟩ := step r2 (nz_of_beq hc2 (by decide))
          obtain ⟨xs, hv, hskE, hfpE⟩ := ihE L _ (v0 :: acc) v s1 (k - 1) h r3 (by omega)
          refine ⟨v0 :: xs, by rw [hv]; simp, ?_, ?_⟩
          · simp only [skipElems, hsk, heqS, hc, hc2, ↓reduceIte, Bool.false_eq_true, hskE]
          · intro ef acc'
            cases ha : ef.allow
            · simp only [fparseElems, ha, hsk, heqS, hc, hc2, ↓reduceIte, Bool.false_eq_true, projectElems, hfpE]
            · simp only [fparseElems, ha, hfp ef, heqS, hc, hc2, ↓reduceIte, Bool.false_eq_true, projectElems, hfpE,
                List.reverse_cons, List.append_assoc, List.singleton_append]
        · cases h
    · simp only [Prod.mk.injEq] at h; exact absurd h.1 (by assumption)
  · simp only [Prod.mk.injEq] at h; exact absurd h.1 (by assumption)

set_option maxRecDepth 8000 in
theorem step_M {cfg : Cfg} (f : Nat) (ihV : VS cfg f) (ihM : MS cfg f) : MS cfg (f + 1) := by
  intro L s ms v s1 k h hr hf
  simp only [parseMembers] at h
  split at h
  · rename_i key q heqK
    -- the key: skipped like it is parsed
    have hkS : (if ((cur s).1 == 0x22 || (cur s).1 == 0x27) = true then skipQuoted (cur s).1 (f + 1) (mv (cur s).2)
        else (Code.ok, skipUnquoted (f + 1) (cur s).2)) = (Code.ok, q) ∧ rem q ≤ k := by
      by_cases hq : ((cur s).1 == 0x22 || (cur s).1 == 0x27) = true
      · rw [if_pos hq] at heqK ⊢
        have r0 : rem (mv (cur s).2) ≤ k := skip (look hr)
        refine ⟨skipQuoted_of_parse (stopOk_of_quote hq) (f + 1) (f + 1) (Nat.le_refl _) _ _ _ _ _ _ heqK (by omega), ?_⟩
        have := (parseQuoted_ok (cfg := cfg) (stop := (cur s).1) (f + 1) [] 0 _ k r0 (by omega)).1
        rw [heqK] at this; exact this
      · rw [if_neg hq] at heqK ⊢
        by_cases hu : inUnquoted (cur s).1 = true
        · rw [if_pos hu] at heqK
          simp only [Prod.mk.injEq, true_and] at heqK
          rw [← heqK.2.2]
          exact ⟨by rw [skipUnquoted_parse (f + 1) [] (cur s).2], parseUnquoted_rem _ _ _ _ (look hr)⟩
        · rw [if_neg hu] at heqK; cases heqK
    obtain ⟨hkS, rq⟩ := hkS
    split at h
    · rename_i q2 heqS1
      have rq2 := skipSpaces_rem heqS1 rq (by omega)
      split at h
      · cases h
      · rename_i hcol
        have hcol' : ((cur q2).1 != 58) = false := by simpa using hcol
        have hcnz : (cur q2).1 ≠ 0 := by
          intro h0; rw [h0] at hcol'; exact absurd hcol' (by decide)
        obtain ⟨hk1, r3⟩ := step rq2 hcnz
        split at h
        · rename_i v0 s' heqV
          have r4 := parseVariant_rem heqV r3 (by omega)
          split at h
          · rename_i s'' heqS2
            have r5 := skipSpaces_rem heqS2 r4 (by omega)
            split at h
            · rename_i hc
              cases h
              have hc' : (cur s'').1 = 0x7D := by simpa using hc
              have nok : NumOk cfg v0 s' := fun _ => delim_after heqS2 (by rw [hc']; exact (inNumber_delims' cfg).2.2)
              obtain ⟨hsk, hfp⟩ := ihV L _ v0 s' (k - 1) heqV r3 (by omega) nok
              refine ⟨[(key, v0)], rfl, ?_, ?_⟩
              · simp (config := { decide := true }) only [skipMembers, hkS, heqS1, hcol', hsk, heqS2, hc, ↓reduceIte,
                  Bool.false_eq_true]
              · intro flt ms'
                cases ha : (flt.subKey key).allow
                · simp only [fparseMembers, heqK, heqS1, hcol', ha, hsk, heqS2, hc, ↓reduceIte, Bool.false_eq_true,
                    projectMembers, fold, List.foldl_nil]
                · simp only [fparseMembers, heqK, heqS1, hcol', ha, hfp, heqS2, hc, ↓reduceIte, Bool.false_eq_true,
                    projectMembers, fold, List.foldl_nil, List.foldl_cons]
            · rename_i hc
              split at h
              · rename_i hc2
                have hc' : (cur s'').1 = 0x2C := by simpa using hc2
                have nok : NumOk cfg v0 s' := fun _ => delim_after heqS2 (by rw [hc']; exact (inNumber_delims' cfg).1)
                obtain ⟨hsk, hfp⟩ := ihV L _ v0 s' (k - 1) heqV r3 (by omega) nok
                split at h
                · rename_i s3 heqS3
                  have r6 := skipSpaces_rem heqS3 (skip (look r5)) (by omega)
                  obtain ⟨kvs, hv, hskM, hfpM⟩ := ihM L s3 _ v s1 (k - 1) h r6 (by omega)
                  refine ⟨(key, v0) :: kvs, by rw [hv]; rfl, ?_, ?_⟩
                  · simp (config := { decide := true }) only [skipMembers, hkS, heqS1, hcol', hsk, heqS2, hc, hc2, heqS3,
                      hskM, ↓reduceIte, Bool.false_eq_true]
                  · intro flt ms'
                    cases ha : (flt.subKey key).allow
                    · simp only [fparseMembers, heqK, heqS1, hcol', ha, hsk, heqS2, hc, hc2, heqS3, hfpM, ↓reduceIte,
                        Bool.false_eq_true, projectMembers, fold]
                    · simp only [fparseMembers, heqK, heqS1, hcol', ha, hfp, heqS2, hc, hc2, heqS3, hfpM, ↓reduceIte,
                        Bool.false_eq_true, projectMembers, fold, List.foldl_cons]
                · simp only [Prod.mk.injEq] at h; exact absurd h.1 (by assumption)
              · cases h
          · simp only [Prod.mk.injEq] at h; exact absurd h.1 (by assumption)
        · simp only [Prod.mk.injEq] at h; exact absurd h.1 (by assumption)
    · simp only [Prod.mk.injEq] at h; exact absurd h.1 (by assumption)
  · simp only [Prod.mk.injEq] at h; exact absurd h.1 (by assumption)

theorem skipElems_absorb {cfg : Cfg} {g l : Nat} {s Y : St} (hS : skipSpaces cfg (g + 1) s = (.ok, Y))
    (hY : Settled cfg Y) : skipElems cfg (g + 2) l s = skipElems cfg (g + 2) l Y := by
  have : skipVariant cfg (g + 1) l s = skipVariant cfg (g + 1) l Y := by
    simp only [skipVariant, hS, skipSpaces_of_settled hY g]
  simp only [skipElems, this]

set_option maxRecDepth 8000 in
theorem step_V {cfg : Cfg} (f : Nat) (ihE : ES cfg f) (ihM : MS cfg f) : VS cfg (f + 1) := by
  intro L s v s1 k h hr hf nok
  simp only [parseVariant] at h
  split at h
  · rename_i X heqS
    have hX := skipSpaces_settled _ _ _ heqS
    have rX := skipSpaces_rem heqS hr (by omega)
    have hXnz : (cur X).1 ≠ 0 := by rw [hX.cur]; simpa using hX.2.2.1
    obtain ⟨hk1, rmX⟩ := step rX hXnz
    simp only [hX.cur] at rmX
    simp only [hX.cur] at h
    by_cases c1 : (X.l.cur == 0x5B) = true
    · simp only [c1, if_true] at h
      cases L with
      | zero => simp only at h; cases h
      | succ l =>
        simp only at h
        split at h
        · rename_i Y heqY
          have hY := skipSpaces_settled _ _ _ heqY
          have rY := skipSpaces_rem heqY rmX (by omega)
          simp only [hY.cur] at h
          have hsv : skipVariant cfg (f + 1) (l + 1) s = skipElems cfg f l (mv X) := by
            simp only [skipVariant, heqS, hX.cur, c1, if_true]
          have hYnz : (cur Y).1 ≠ 0 := by rw [hY.cur]; simpa using hY.2.2.1
          obtain ⟨hk2, _⟩ := step rY hYnz
          obtain ⟨g, rfl⟩ : ∃ g, f = g + 2 := ⟨f - 2, by omega⟩
          have hS1 : skipSpaces cfg (g + 1) (mv X) = (.ok, Y) := by
            rw [skipSpaces_fuel (g + 1) (g + 2 + 1) (mv X) (k - 1) rmX (by omega) (by omega)]; exact heqY
          split at h
          · rename_i hd
            cases h
            have e : Y.l.cur = 0x5D := by simpa using hd
            have hv1 : skipVariant cfg (g + 1) l (mv X) = (.ok, Y) := by
              simp (config := { decide := true }) only [skipVariant, hS1, hY.cur, e, skipNumeric, inNumber_delims' cfg,
                ↓reduceIte, Bool.false_eq_true, Bool.or_self]
            have hse : skipElems cfg (g + 2) l (mv X) = (.ok, mv Y) := by
              simp only [skipElems, hv1, skipSpaces_of_settled hY (g + 1), hY.cur, hd, ↓reduceIte]
            refine ⟨by rw [hsv, hse], ?_⟩
            intro flt
            cases hA : flt.allowArray
            · simp only [fparseVariant, heqS, hX.cur, c1, hA, hse, ↓reduceIte, Bool.false_eq_true, project]
            · simp only [fparseVariant, heqS, hX.cur, c1, hA, heqY, hY.cur, hd, ↓reduceIte, project, projectElems]
          · rename_i hd
            obtain ⟨xs, hv, hskE, hfpE⟩ := ihE l Y [] v s1 (k - 1) h rY (by omega)
            have hse : skipElems cfg (g + 2) l (mv X) = (.ok, s1) := by
              rw [skipElems_absorb hS1 hY]; exact hskE
            simp only [List.reverse_nil, List.nil_append] at hv
            subst hv
            refine ⟨by rw [hsv, hse], ?_⟩
            intro flt
            cases hA : flt.allowArray
            · simp only [fparseVariant, heqS, hX.cur, c1, hA, hse, ↓reduceIte, Bool.false_eq_true, project]
            · simp only [fparseVariant, heqS, hX.cur, c1, hA, heqY, hY.cur, hd, hfpE, ↓reduceIte, Bool.false_eq_true, project,
                List.reverse_nil, List.nil_append]
        · simp only [Prod.mk.injEq] at h; exact absurd h.1 (by assumption)
    simp only [c1, Bool.false_eq_true, if_false] at h
    by_cases c2 : (X.l.cur == 0x7B) = true
    · simp only [c2, if_true] at h
      cases L with
      | zero => simp only at h; cases h
      | succ l =>
        simp only at h
        split at h
        · rename_i Y heqY
          have hY := skipSpaces_settled _ _ _ heqY
          have rY := skipSpaces_rem heqY rmX (by omega)
          simp only [hY.cur] at h
          split at h
          · rename_i hd
            cases h
            refine ⟨by simp only [skipVariant, heqS, hX.cur, c1, c2, heqY, hY.cur, hd, ↓reduceIte, Bool.false_eq_true], ?_⟩
            intro flt
            cases hO : flt.allowObject
            · simp only [fparseVariant, heqS, hX.cur, c1, c2, hO, heqY, hY.cur, hd, ↓reduceIte, Bool.false_eq_true, project]
            · simp only [fparseVariant, heqS, hX.cur, c1, c2, hO, heqY, hY.cur, hd, ↓reduceIte, Bool.false_eq_true, project,
                projectMembers]
          · rename_i hd
            obtain ⟨kvs, hv, hskM, hfpM⟩ := ihM l Y [] v s1 (k - 1) h rY (by omega)
            subst hv
            refine ⟨by simp only [skipVariant, heqS, hX.cur, c1, c2, heqY, hY.cur, hd, hskM, ↓reduceIte, Bool.false_eq_true], ?_⟩
            intro flt
            cases hO : flt.allowObject
            · simp only [fparseVariant, heqS, hX.cur, c1, c2, hO, heqY, hY.cur, hd, hskM, ↓reduceIte, Bool.false_eq_true,
                project]
            · simp only [fparseVariant, heqS, hX.cur, c1, c2, hO, heqY, hY.cur, hd, hfpM, ↓reduceIte, Bool.false_eq_true,
                project, fold, projectMembers_foldl, projectMembers]
        · simp only [Prod.mk.injEq] at h; exact absurd h.1 (by assumption)
    simp only [c2, Bool.false_eq_true, if_false] at h
    by_cases c3 : (X.l.cur == 0x22 || X.l.cur == 0x27) = true
    · simp only [c3, if_true] at h
      split at h
      · rename_i str s' heqQ
        cases h
        have hsq := skipQuoted_of_parse (stopOk_of_quote c3) (f + 1) (f + 1) (Nat.le_refl _) _ _ _ _ _ (f + 1) heqQ (by omega)
        refine ⟨by simp only [skipVariant, heqS, hX.cur, c1, c2, c3, hsq, ↓reduceIte, Bool.false_eq_true], ?_⟩
        intro flt
        cases hV : flt.allowValue
        · simp only [fparseVariant, heqS, hX.cur, c1, c2, c3, hV, hsq, ↓reduceIte, Bool.false_eq_true, project]
        · simp only [fparseVariant, heqS, hX.cur, c1, c2, c3, hV, heqQ, ↓reduceIte, Bool.false_eq_true, project]
      · simp only [Prod.mk.injEq] at h; exact absurd h.1 (by assumption)
    simp only [c3, Bool.false_eq_true, if_false] at h
    by_cases c4 : (X.l.cur == 0x74) = true
    · simp only [c4, if_true] at h
      generalize hkw : skipKeyword _ X = r at h
      obtain ⟨e, s'⟩ := r
      simp only [Prod.mk.injEq] at h
      obtain ⟨rfl, rfl, rfl⟩ := h
      refine ⟨by simp only [skipVariant, heqS, hX.cur, c1, c2, c3, c4, hkw, ↓reduceIte, Bool.false_eq_true], ?_⟩
      intro flt
      simp only [fparseVariant, heqS, hX.cur, c1, c2, c3, c4, hkw, ↓reduceIte, Bool.false_eq_true, project]
    simp only [c4, Bool.false_eq_true, if_false] at h
    by_cases c5 : (X.l.cur == 0x66) = true
    · simp only [c5, if_true] at h
      generalize hkw : skipKeyword _ X = r at h
      obtain ⟨e, s'⟩ := r
      simp only [Prod.mk.injEq] at h
      obtain ⟨rfl, rfl, rfl⟩ := h
      refine ⟨by simp only [skipVariant, heqS, hX.cur, c1, c2, c3, c4, c5, hkw, ↓reduceIte, Bool.false_eq_true], ?_⟩
      intro flt
      simp only [fparseVariant, heqS, hX.cur, c1, c2, c3, c4, c5, hkw, ↓reduceIte, Bool.false_eq_true, project]
    simp only [c5, Bool.false_eq_true, if_false] at h
    by_cases c6 : (X.l.cur == 0x6E) = true
    · simp only [c6, if_true] at h
      generalize hkw : skipKeyword _ X = r at h
      obtain ⟨e, s'⟩ := r
      simp only [Prod.mk.injEq] at h
      obtain ⟨rfl, rfl, rfl⟩ := h
      refine ⟨by simp only [skipVariant, heqS, hX.cur, c1, c2, c3, c4, c5, c6, hkw, ↓reduceIte, Bool.false_eq_true], ?_⟩
      intro flt
      simp only [fparseVariant, heqS, hX.cur, c1, c2, c3, c4, c5, c6, hkw, ↓reduceIte, Bool.false_eq_true, project]
    simp only [c6, Bool.false_eq_true, if_false] at h
    obtain ⟨⟨n, rfl⟩, hs1⟩ := parseNumeric_ok_form h
    have hsn : skipNumeric cfg (f + 1) X = s1 := by
      rw [hs1]
      exact skipNumeric_scan 63 [] X (f + 1) k rX (by omega) (by rw [← hs1]; exact nok rfl)
    refine ⟨by simp only [skipVariant, heqS, hX.cur, c1, c2, c3, c4, c5, c6, hsn, ↓reduceIte, Bool.false_eq_true], ?_⟩
    intro flt
    cases hV : flt.allowValue
    · simp only [fparseVariant, heqS, hX.cur, c1, c2, c3, c4, c5, c6, hV, hsn, ↓reduceIte, Bool.false_eq_true, project]
    · simp only [fparseVariant, heqS, hX.cur, c1, c2, c3, c4, c5, c6, hV, h, ↓reduceIte, Bool.false_eq_true, project]
  · simp only [Prod.mk.injEq] at h; exact absurd h.1 (by assumption)

/-- **the simulation**: a successful unfiltered parse is simulated, state included, by the skipping routine and
    by the filtered parser under every filter (which returns the projection) -/
theorem sim_all {cfg : Cfg} : ∀ f, VS cfg f ∧ ES cfg f ∧ MS cfg f := by
  intro f
  induction f with
  | zero =>
    refine ⟨?_, ?_, ?_⟩
    · intro L s v s1 k h; simp only [parseVariant] at h; cases h
    · intro L s acc v s1 k h; simp only [parseElems] at h; cases h
    · intro L s ms v s1 k h; simp only [parseMembers] at h; cases h
  | succ f ih =>
    obtain ⟨ihV, ihE, ihM⟩ := ih
    exact ⟨step_V f ihE ihM, step_E f ihV ihE, step_M f ihV ihM⟩

theorem scanNumber_loaded {cfg : Cfg} : ∀ n acc s, (scanNumber cfg n acc s).2.l.loaded = true := by
  intro n
  induction n with
  | zero => intro acc s; simp only [scanNumber]; exact cur_snd_loaded_d2 s
  | succ n ih =>
    intro acc s
    simp only [scanNumber]
    split
    · exact ih _ _
    · exact cur_snd_loaded_d2 s

set_option maxRecDepth 8000 in
/-- a successful parse that yields a number ends with the look-ahead byte latched -/
theorem parseVariant_num_loaded {cfg : Cfg} {fuel L : Nat} {s : St} {v : Val} {s1 : St}
    (h : parseVariant cfg fuel L s = (.ok, v, s1)) (hn : isNumberVal v = true) : s1.l.loaded = true := by
  cases fuel with
  | zero => simp only [parseVariant] at h; cases h
  | succ f =>
    have hA : v.isArr = false := by cases v <;> first | rfl | exact Bool.noConfusion hn
    have hO : v.isObj = false := by cases v <;> first | rfl | exact Bool.noConfusion hn
    have hv : (parseVariant cfg (f + 1) L s).2.1 = v := by rw [h]
    simp only [parseVariant] at h hv
    generalize skipSpaces cfg (f + 1) s = r at h hv
    obtain ⟨e, X⟩ := r
    cases e <;> simp only at h hv <;> try (cases h; done)
    by_cases c1 : ((cur X).1 == 0x5B) = true
    · exfalso
      simp only [c1, if_true] at hv
      rw [← hv] at hA
      repeat' (split at hA)
      all_goals first
        | exact Bool.noConfusion hA
        | exact absurd hA (by rw [parseElems_isArr]; decide)
    simp only [c1, Bool.false_eq_true, if_false] at h hv
    by_cases c2 : ((cur X).1 == 0x7B) = true
    · exfalso
      simp only [c2, if_true] at hv
      rw [← hv] at hO
      repeat' (split at hO)
      all_goals first
        | exact Bool.noConfusion hO
        | exact absurd hO (by rw [parseMembers_isObj]; decide)
    simp only [c2, Bool.false_eq_true, if_false] at h
    split at h
    · split at h
      · cases h; exact Bool.noConfusion hn
      · simp only [Prod.mk.injEq] at h; exact absurd h.1 (by assumption)
    · split at h
      · generalize skipKeyword _ (cur X).2 = r at h
        simp only [Prod.mk.injEq] at h; rw [← h.2.1] at hn; exact Bool.noConfusion hn
      · split at h
        · generalize skipKeyword _ (cur X).2 = r at h
          simp only [Prod.mk.injEq] at h; rw [← h.2.1] at hn; exact Bool.noConfusion hn
        · split at h
          · generalize skipKeyword _ (cur X).2 = r at h
            simp only [Prod.mk.injEq] at h; rw [← h.2.1] at hn; exact Bool.noConfusion hn
          · rw [(parseNumeric_ok_form h).2]; exact scanNumber_loaded _ _ _

theorem isNumberVal_project (flt : Flt) (v : Val) (h : isNumberVal (project flt v) = true) : isNumberVal v = true := by
  cases v with
  | num n => rfl
  | arr xs => simp only [project] at h; split at h <;> exact Bool.noConfusion h
  | obj ms => simp only [project] at h; split at h <;> exact Bool.noConfusion h
  | null => simp only [project] at h; exact Bool.noConfusion h
  | _ => simp only [project] at h; split at h <;> exact Bool.noConfusion h

theorem rem_init (input : List Byte) : rem ({ l := { unread := input } } : St) = input.length := by
  simp [rem]

/-- `frun` on every input accepted by `run` -/
theorem frun_of_run (cfg : Cfg) (L : Nat) (flt : Flt) (input : List Byte) (h : (run cfg L input).1 = .ok) :
    frun cfg L flt input = (.ok, project flt (run cfg L input).2.1, (run cfg L input).2.2) := by
  have hrun : run cfg L input =
      (match parseVariant cfg (2 * input.length + 4) L { l := { unread := input } } with
       | (.ok, v, s) =>
         if s.l.cur != 0 && !isWs s.l.cur && isNumberVal v then (.invalid, v, s.l.pos) else (.ok, v, s.l.pos)
       | (e, v, s) => (e, v, s.l.pos)) := rfl
  have hfrun : frun cfg L flt input =
      (match fparseVariant cfg (2 * input.length + 4) L flt { l := { unread := input } } with
       | (.ok, v, s) =>
         if s.l.cur != 0 && !isWs s.l.cur && isNumberVal v then (.invalid, v, s.l.pos) else (.ok, v, s.l.pos)
       | (e, v, s) => (e, v, s.l.pos)) := rfl
  rw [hrun] at h ⊢
  generalize hp : parseVariant cfg (2 * input.length + 4) L { l := { unread := input } } = r at h ⊢
  obtain ⟨e, v, s1⟩ := r
  cases e <;> simp only at h ⊢ <;> try (cases h; done)
  by_cases hc : (s1.l.cur != 0 && !isWs s1.l.cur && isNumberVal v) = true
  · rw [if_pos hc] at h; cases h
  · rw [if_neg hc]
    have nok : NumOk cfg v s1 := by
      intro hn
      have hl := parseVariant_num_loaded hp hn
      rw [cur_loaded hl]
      simp only [hn, Bool.and_true, Bool.and_eq_true, bne_iff_ne, ne_eq, Bool.not_eq_true', not_and, Bool.not_eq_false] at hc
      by_cases h0 : s1.l.cur = 0
      · rw [h0]; exact inNumber_zero' cfg
      · have hw := hc h0
        cases hi : inNumber cfg s1.l.cur
        · rfl
        · rw [(inNumber_facts cfg _ hi).2.1] at hw; cases hw
    obtain ⟨_, hfp⟩ := (sim_all (cfg := cfg) (2 * input.length + 4)).1 L _ v s1 input.length hp
      (by rw [rem_init]; exact Nat.le_refl _) (by omega) nok
    rw [hfrun, hfp flt]
    have hc' : ¬ (s1.l.cur != 0 && !isWs s1.l.cur && isNumberVal (project flt v)) = true := by
      intro hq
      apply hc
      simp only [Bool.and_eq_true] at hq ⊢
      exact ⟨hq.1, isNumberVal_project flt v hq.2⟩
    simp only [hc', ↓reduceIte, Bool.false_eq_true]

end JD
