/- When the filter does not accept the kind of the value that comes next, the filtered parser IS the skipping
   routine (same code, same state) and produces `null`. Holds for every input, well-formed or not. -/
import AJ.Lemmas.FilterId
set_option linter.unusedSimpArgs false
namespace JD

/-- what `fparseVariant` returns when it skips -/
def skipped (r : Code × St) : Code × Val × St := (r.1, .null, r.2)

set_option maxRecDepth 8000 in
/-- an array under a filter that accepts no array -/
theorem fparseVariant_arr_skip {cfg : Cfg} (fuel limit : Nat) (flt : Flt) (s : St)
    (hA : flt.allowArray = false) (h : (parseVariant cfg fuel limit s).2.1.isArr = true) :
    fparseVariant cfg fuel limit flt s = skipped (skipVariant cfg fuel limit s) := by
  cases fuel with
  | zero => simp only [fparseVariant, skipVariant, skipped]
  | succ n =>
    simp only [parseVariant] at h
    simp only [fparseVariant, skipVariant, hA, skipped]
    generalize skipSpaces cfg (n+1) s = r at h ⊢
    obtain ⟨e, s1⟩ := r
    cases e <;> simp only at h ⊢
    by_cases hc : ((cur s1).1 == 0x5B) = true
    · simp only [hc, if_true, Bool.false_eq_true, if_false]
      cases limit <;> rfl
    · exfalso
      simp only [hc, Bool.false_eq_true, if_false] at h
      repeat' (split at h)
      all_goals first
        | exact Bool.noConfusion h
        | exact absurd h (by rw [isObj_not_isArr _ (parseMembers_isObj _ _ _ _)]; decide)
        | exact absurd h (by rw [(parseNumeric_scalar _).1]; decide)

set_option maxRecDepth 8000 in
/-- an object under a filter that accepts no object -/
theorem fparseVariant_obj_skip {cfg : Cfg} (fuel limit : Nat) (flt : Flt) (s : St)
    (hO : flt.allowObject = false) (h : (parseVariant cfg fuel limit s).2.1.isObj = true) :
    fparseVariant cfg fuel limit flt s = skipped (skipVariant cfg fuel limit s) := by
  cases fuel with
  | zero => simp only [fparseVariant, skipVariant, skipped]
  | succ n =>
    simp only [parseVariant] at h
    simp only [fparseVariant, skipVariant, hO, skipped]
    generalize skipSpaces cfg (n+1) s = r at h ⊢
    obtain ⟨e, s1⟩ := r
    cases e <;> simp only at h ⊢
    by_cases hc : ((cur s1).1 == 0x5B) = true
    · exfalso
      simp only [hc, if_true] at h
      repeat' (split at h)
      all_goals first
        | exact Bool.noConfusion h
        | exact absurd h (by rw [isArr_not_isObj _ (parseElems_isArr _ _ _ _)]; decide)
    · simp only [hc, Bool.false_eq_true, if_false] at h ⊢
      by_cases hd : ((cur s1).1 == 0x7B) = true
      · simp only [hd, if_true]
        cases limit with
        | zero => rfl
        | succ l =>
          simp only
          generalize skipSpaces cfg (n+1) (mv (cur s1).2) = r2
          obtain ⟨e2, s2⟩ := r2
          cases e2 <;> simp only
          split <;> rfl
      · exfalso
        simp only [hd, Bool.false_eq_true, if_false] at h
        repeat' (split at h)
        all_goals first
          | exact Bool.noConfusion h
          | exact absurd h (by rw [(parseNumeric_scalar _).2]; decide)

set_option maxRecDepth 8000 in
/-- a scalar or a string under a filter that accepts no value -/
theorem fparseVariant_scalar_skip {cfg : Cfg} (fuel limit : Nat) (flt : Flt) (s : St)
    (hV : flt.allowValue = false)
    (h1 : (parseVariant cfg fuel limit s).2.1.isArr = false) (h2 : (parseVariant cfg fuel limit s).2.1.isObj = false) :
    fparseVariant cfg fuel limit flt s = skipped (skipVariant cfg fuel limit s) := by
  cases fuel with
  | zero => simp only [fparseVariant, skipVariant, skipped]
  | succ n =>
    simp only [parseVariant] at h1 h2
    simp only [fparseVariant, skipVariant, hV, skipped]
    generalize skipSpaces cfg (n+1) s = r at h1 h2 ⊢
    obtain ⟨e, s1⟩ := r
    cases e <;> simp only at h1 h2 ⊢
    by_cases hc : ((cur s1).1 == 0x5B) = true
    · exfalso
      simp only [hc, if_true] at h1
      repeat' (split at h1)
      all_goals first
        | exact Bool.noConfusion h1
        | exact absurd h1 (by rw [parseElems_isArr]; decide)
    · simp only [hc, Bool.false_eq_true, if_false] at h2 ⊢
      by_cases hd : ((cur s1).1 == 0x7B) = true
      · exfalso
        simp only [hd, if_true] at h2
        repeat' (split at h2)
        all_goals first
          | exact Bool.noConfusion h2
          | exact absurd h2 (by rw [parseMembers_isObj]; decide)
      · simp only [hd, Bool.false_eq_true, if_false]
        repeat' split
        all_goals rfl

end JD
