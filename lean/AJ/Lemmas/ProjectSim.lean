/- The filtered JSON parser on a text of the RFC 8259 grammar: it returns `Ok`, the projection of the denoted
   document onto the filter, and ends in the position where the unfiltered parser ends — for EVERY filter.
   Generalisation of `complete_value` (AJ/Lemmas/JsonComplete.lean) by recursion on derivations: at each value
   either the filter accepts its kind and `fparse*` proceeds like `parse*` with the sub-filters, or it does not,
   `fparseVariant` is the skipping routine (AJ/Lemmas/ProjectDrop.lean) and the skip simulation
   (AJ/Lemmas/ProjectSkip.lean) applies. -/
import AJ.Lemmas.Project
import AJ.Lemmas.ProjectSkip
import AJ.Lemmas.ProjectDrop
set_option linter.unusedSimpArgs false
namespace JD
open Spec.Json Spec.Filter

/-- leading white space is skipped by the filtered value parser and by the skipper themselves -/
theorem fparse_skip (cfg : Cfg) {c : Byte} {r w : List Byte} {s : St} {p : Nat} {f : Bool}
    (hc : Tok c) (hw : Ws w) (h : Pos s (w ++ c :: r) p f) :
    ∃ X, Seen X (c :: r) (p + w.length) true ∧ (∀ n, w.length < n → skipSpaces cfg n s = (.ok, X)) ∧
      (∀ n L ef acc, w.length + 1 < n → fparseElems cfg n L ef X acc = fparseElems cfg n L ef s acc) := by
  obtain ⟨X, hS, hX⟩ := skipSpaces_ws cfg hc w hw s p f h
  have hpv : ∀ n L flt, w.length < n → fparseVariant cfg n L flt X = fparseVariant cfg n L flt s := by
    intro n L flt hn
    obtain ⟨m, rfl⟩ : ∃ m, n = m + 1 := ⟨n - 1, by omega⟩
    simp only [fparseVariant, hX (m + 1) hn, skipSpaces_seen cfg hc hS m]
  have hsv : ∀ n L, w.length < n → skipVariant cfg n L X = skipVariant cfg n L s := by
    intro n L hn
    obtain ⟨m, rfl⟩ : ∃ m, n = m + 1 := ⟨n - 1, by omega⟩
    simp only [skipVariant, hX (m + 1) hn, skipSpaces_seen cfg hc hS m]
  refine ⟨X, hS, hX, ?_⟩
  intro n L ef acc hn
  obtain ⟨m, rfl⟩ : ∃ m, n = m + 1 := ⟨n - 1, by omega⟩
  simp only [fparseElems, hpv m L ef (by omega), hsv m L (by omega)]

/-- a value whose kind the filter does not accept: skipped, `null` -/
theorem fdrop_value {cfg : Cfg} (hu : cfg.decodeUnicode = true) {L : Nat} {t : List Byte} {v : Val}
    (h : Value cfg L t v) (flt : Flt)
    (hA : v.isArr = true → flt.allowArray = false) (hO : v.isObj = true → flt.allowObject = false)
    (hV : v.isArr = false → v.isObj = false → flt.allowValue = false)
    (fuel : Nat) (w rest : List Byte) (s : St) (p : Nat) (f : Bool)
    (hw : Ws w) (hs : Pos s (w ++ (t ++ rest)) p f) (hf : w.length + t.length + 1 ≤ fuel)
    (hd : NumLit t → Delim cfg rest) :
    ∃ s', fparseVariant cfg fuel L flt s = (.ok, .null, s') ∧
      Post s' rest (p + w.length + t.length) (isNumberVal v) := by
  obtain ⟨s1, hp, _⟩ := complete_value hu h fuel w rest s p f hw hs hf hd
  obtain ⟨s', hsk, hpost⟩ := skip_value h fuel w rest s p f hw hs hf hd
  have hv : (parseVariant cfg fuel L s).2.1 = v := by rw [hp]
  refine ⟨s', ?_, hpost⟩
  cases ha : v.isArr with
  | true => rw [fparseVariant_arr_skip fuel L flt s (hA ha) (by rw [hv]; exact ha), hsk]; rfl
  | false =>
    cases ho : v.isObj with
    | true => rw [fparseVariant_obj_skip fuel L flt s (hO ho) (by rw [hv]; exact ho), hsk]; rfl
    | false =>
      rw [fparseVariant_scalar_skip fuel L flt s (hV ha ho) (by rw [hv]; exact ha) (by rw [hv]; exact ho), hsk]; rfl

/-- a scalar or a string: kept as it is, or skipped -/
theorem fscalar_value {cfg : Cfg} (hu : cfg.decodeUnicode = true) {L : Nat} {t : List Byte} {v : Val}
    (h : Value cfg L t v) (h1 : v.isArr = false) (h2 : v.isObj = false) (flt : Flt)
    (fuel : Nat) (w rest : List Byte) (s : St) (p : Nat) (f : Bool)
    (hw : Ws w) (hs : Pos s (w ++ (t ++ rest)) p f) (hf : w.length + t.length + 1 ≤ fuel)
    (hd : NumLit t → Delim cfg rest) :
    ∃ s', fparseVariant cfg fuel L flt s = (.ok, project flt v, s') ∧
      Post s' rest (p + w.length + t.length) (isNumberVal v) := by
  cases hV : flt.allowValue with
  | true =>
    obtain ⟨s1, hp, hpost⟩ := complete_value hu h fuel w rest s p f hw hs hf hd
    have hv : (parseVariant cfg fuel L s).2.1 = v := by rw [hp]
    refine ⟨s1, ?_, hpost⟩
    rw [fparseVariant_scalar_keep fuel L flt s hV (by rw [hv]; exact h1) (by rw [hv]; exact h2), hp,
      project_scalar flt v h1 h2, hV, if_pos rfl]
  | false =>
    obtain ⟨s', hp, hpost⟩ := fdrop_value hu h flt (fun a => by rw [h1] at a; cases a) (fun a => by rw [h2] at a; cases a)
      (fun _ _ => hV) fuel w rest s p f hw hs hf hd
    refine ⟨s', ?_, hpost⟩
    rw [hp, project_scalar flt v h1 h2, hV]; rfl

theorem isNumberVal_project_le (flt : Flt) (v : Val) (h : isNumberVal (project flt v) = true) : isNumberVal v = true := by
  cases v with
  | num n => rfl
  | arr xs => simp only [project] at h; split at h <;> exact Bool.noConfusion h
  | obj ms => simp only [project] at h; split at h <;> exact Bool.noConfusion h
  | null => simp only [project] at h; exact Bool.noConfusion h
  | _ => simp only [project] at h; split at h <;> exact Bool.noConfusion h

/-! ## The filtered parser computes the projection, by recursion on derivations -/
mutual
theorem fcomplete_value {cfg : Cfg} (hu : cfg.decodeUnicode = true) {L : Nat} {t : List Byte} {v : Val}
    (h : Value cfg L t v) :
    ∀ (flt : Flt) (fuel : Nat) (w rest : List Byte) (s : St) (p : Nat) (f : Bool),
      Ws w → Pos s (w ++ (t ++ rest)) p f → w.length + t.length + 1 ≤ fuel → (NumLit t → Delim cfg rest) →
      ∃ s', fparseVariant cfg fuel L flt s = (.ok, project flt v, s') ∧
        Post s' rest (p + w.length + t.length) (isNumberVal v) := by
  intro flt fuel w rest s p f hw hs hf hd
  cases h with
  | null => exact fscalar_value hu (Value.null L) rfl rfl flt fuel w rest s p f hw hs hf hd
  | «true» => exact fscalar_value hu (Value.true L) rfl rfl flt fuel w rest s p f hw hs hf hd
  | «false» => exact fscalar_value hu (Value.false L) rfl rfl flt fuel w rest s p f hw hs hf hd
  | num _ _ hn =>
    obtain ⟨_, _, _, h3⟩ := pv_num cfg (L := L) (fuel := fuel) hn (hd hn) hw hs (by omega)
    have h1 : (numVal cfg t).isArr = false := by
      cases hv : numVal cfg t <;> first | rfl | (rw [hv] at h3; exact Bool.noConfusion h3)
    have h2 : (numVal cfg t).isObj = false := by
      cases hv : numVal cfg t <;> first | rfl | (rw [hv] at h3; exact Bool.noConfusion h3)
    exact fscalar_value hu (Value.num L t hn) h1 h2 flt fuel w rest s p f hw hs hf hd
  | str _ body sv hb hl => exact fscalar_value hu (Value.str L body sv hb hl) rfl rfl flt fuel w rest s p f hw hs hf hd
  | arrEmpty l w1 hw1 =>
    cases hA : flt.allowArray with
    | false =>
      obtain ⟨s', hp, hpost⟩ := fdrop_value hu (Value.arrEmpty l w1 hw1) flt (fun _ => hA) (fun a => Bool.noConfusion a)
        (fun a _ => Bool.noConfusion a) fuel w rest s p f hw hs hf hd
      exact ⟨s', by rw [hp]; simp only [project, hA, Bool.false_eq_true, ↓reduceIte], hpost⟩
    | true =>
      obtain ⟨n, rfl⟩ : ∃ n, fuel = n + 1 := ⟨fuel - 1, by omega⟩
      obtain ⟨X, hS, hX⟩ := skipSpaces_ws cfg (r := w1 ++ 0x5D :: rest) (by decide : Tok 0x5B) w hw s p f (by simpa using hs)
      obtain ⟨Y, hSY, hY⟩ := skipSpaces_ws cfg (r := rest) (by decide : Tok 0x5D) w1 hw1 (mv X) _ true hS.mv.pos
      refine ⟨mv Y, ?_, ?_⟩
      · simp only [fparseVariant, hX (n + 1) (by omega), hS.cur_cons, beq_self_eq_true, ↓reduceIte, hA,
          hY (n + 1) (by simp at hf; omega), hSY.cur_cons, project, projectElems]
      · have : p + w.length + 1 + w1.length + 1 = p + w.length + (0x5B :: w1 ++ [0x5D]).length := by simp; omega
        simp only [Post, isNumberVal, Bool.false_eq_true, ↓reduceIte]
        rw [← this]; exact hSY.mv
  | arr l body xs he =>
    cases hA : flt.allowArray with
    | false =>
      obtain ⟨s', hp, hpost⟩ := fdrop_value hu (Value.arr l body xs he) flt (fun _ => hA) (fun a => Bool.noConfusion a)
        (fun a _ => Bool.noConfusion a) fuel w rest s p f hw hs hf hd
      exact ⟨s', by rw [hp]; simp only [project, hA, Bool.false_eq_true, ↓reduceIte], hpost⟩
    | true =>
      obtain ⟨n, rfl⟩ : ∃ n, fuel = n + 1 := ⟨fuel - 1, by omega⟩
      obtain ⟨X, hS, hX⟩ := skipSpaces_ws cfg (r := body ++ 0x5D :: rest) (by decide : Tok 0x5B) w hw s p f (by simpa using hs)
      obtain ⟨w1, c1, r1, rfl, hw1, tok1, hc1⟩ := elements_head he
      have hlen : w1.length + 1 + r1.length + 2 ≤ n := by simp at hf; omega
      obtain ⟨Y, hSY, hY, hPE⟩ := fparse_skip cfg (r := r1 ++ 0x5D :: rest) tok1 hw1 (s := mv X)
        (by simpa using hS.mv.pos)
      obtain ⟨s', h1, h2⟩ := fcomplete_elems hu he flt.subIdx n rest (mv X) _ true [] (by simpa using hS.mv.pos)
        (by simp; omega)
      have e1 : (c1 == 0x5D) = false := by simpa using hc1
      refine ⟨s', ?_, ?_⟩
      · simp only [fparseVariant, hX (n + 1) (by omega), hS.cur_cons, beq_self_eq_true, ↓reduceIte, hA,
          hY (n + 1) (by omega), hSY.cur_cons, e1, Bool.false_eq_true, hPE n l flt.subIdx [] (by omega), h1, List.reverse_nil,
          List.nil_append, project]
      · have : p + w.length + 1 + (w1 ++ c1 :: r1).length + 1 = p + w.length + (0x5B :: (w1 ++ c1 :: r1) ++ [0x5D]).length := by
          simp; omega
        simp only [Post, isNumberVal, Bool.false_eq_true, ↓reduceIte]
        rw [← this]; exact h2
  | objEmpty l w1 hw1 =>
    cases hO : flt.allowObject with
    | false =>
      obtain ⟨s', hp, hpost⟩ := fdrop_value hu (Value.objEmpty l w1 hw1) flt (fun a => Bool.noConfusion a) (fun _ => hO)
        (fun _ a => Bool.noConfusion a) fuel w rest s p f hw hs hf hd
      exact ⟨s', by rw [hp]; simp only [project, hO, Bool.false_eq_true, ↓reduceIte], hpost⟩
    | true =>
      obtain ⟨n, rfl⟩ : ∃ n, fuel = n + 1 := ⟨fuel - 1, by omega⟩
      obtain ⟨X, hS, hX⟩ := skipSpaces_ws cfg (r := w1 ++ 0x7D :: rest) (by decide : Tok 0x7B) w hw s p f (by simpa using hs)
      obtain ⟨Y, hSY, hY⟩ := skipSpaces_ws cfg (r := rest) (by decide : Tok 0x7D) w1 hw1 (mv X) _ true hS.mv.pos
      have k1 : ((0x7B : UInt8) == 0x5B) = false := by decide
      refine ⟨mv Y, ?_, ?_⟩
      · simp only [fparseVariant, hX (n + 1) (by omega), hS.cur_cons, k1, beq_self_eq_true, ↓reduceIte, Bool.false_eq_true,
          hO, hY (n + 1) (by simp at hf; omega), hSY.cur_cons, project, projectMembers]
      · have : p + w.length + 1 + w1.length + 1 = p + w.length + (0x7B :: w1 ++ [0x7D]).length := by simp; omega
        simp only [Post, isNumberVal, Bool.false_eq_true, ↓reduceIte]
        rw [← this]; exact hSY.mv
  | obj l body ms hm =>
    cases hO : flt.allowObject with
    | false =>
      obtain ⟨s', hp, hpost⟩ := fdrop_value hu (Value.obj l body ms hm) flt (fun a => Bool.noConfusion a) (fun _ => hO)
        (fun _ a => Bool.noConfusion a) fuel w rest s p f hw hs hf hd
      exact ⟨s', by rw [hp]; simp only [project, hO, Bool.false_eq_true, ↓reduceIte], hpost⟩
    | true =>
      obtain ⟨n, rfl⟩ : ∃ n, fuel = n + 1 := ⟨fuel - 1, by omega⟩
      obtain ⟨X, hS, hX⟩ := skipSpaces_ws cfg (r := body ++ 0x7D :: rest) (by decide : Tok 0x7B) w hw s p f (by simpa using hs)
      obtain ⟨Y, s', hY, hcY, h1, h2⟩ := fcomplete_members hu hm flt n rest (mv X) _ true [] (by simpa using hS.mv.pos)
        (by simp at hf; omega)
      have k1 : ((0x7B : UInt8) == 0x5B) = false := by decide
      have k2 : ((0x22 : UInt8) == 0x7D) = false := by decide
      refine ⟨s', ?_, ?_⟩
      · simp only [fparseVariant, hX (n + 1) (by omega), hS.cur_cons, k1, beq_self_eq_true, ↓reduceIte, Bool.false_eq_true,
          hO, hY, hcY, k2, h1, project, lastWins_eq, projectMembers_foldMembers, projectMembers]
      · have : p + w.length + 1 + body.length + 1 = p + w.length + (0x7B :: body ++ [0x7D]).length := by simp; omega
        simp only [Post, isNumberVal, Bool.false_eq_true, ↓reduceIte]
        rw [← this]; exact h2
theorem fcomplete_elems {cfg : Cfg} (hu : cfg.decodeUnicode = true) {L : Nat} {body : List Byte} {xs : List Val}
    (h : Elements cfg L body xs) :
    ∀ (ef : Flt) (fuel : Nat) (rest : List Byte) (s : St) (p : Nat) (f : Bool) (acc : List Val),
      Pos s (body ++ 0x5D :: rest) p f → body.length + 2 ≤ fuel →
      ∃ s', fparseElems cfg fuel L ef s acc = (.ok, .arr (acc.reverse ++ projectElems ef xs), s') ∧
        At s' rest (p + body.length + 1) true := by
  intro ef fuel rest s p f acc hs hf
  obtain ⟨n, rfl⟩ : ∃ n, fuel = n + 1 := ⟨fuel - 1, by omega⟩
  obtain ⟨d0, d1, _⟩ := inNumber_delims cfg
  cases h with
  | one _ w1 t v w2 hw1 hv hw2 =>
    have hpos : p + w1.length + t.length + w2.length + 1 = p + (w1 ++ t ++ w2).length + 1 := by simp; omega
    cases ha : ef.allow with
    | true =>
      obtain ⟨s1, h1, hpost⟩ := fcomplete_value hu hv ef n w1 (w2 ++ 0x5D :: rest) s p f hw1 (by simpa using hs)
        (by simp at hf; omega) (fun _ => delim_ws cfg hw2 d1 rest)
      obtain ⟨X, hS, hX⟩ := skipSpaces_ws cfg (r := rest) (by decide : Tok 0x5D) w2 hw2 s1 _ true hpost.pos
      refine ⟨mv X, ?_, by rw [← hpos]; exact hS.mv⟩
      simp only [fparseElems, ha, h1, hX (n + 1) (by simp at hf; omega), hS.cur_cons, beq_self_eq_true, ↓reduceIte,
        List.reverse_cons, List.append_assoc, List.singleton_append, projectElems]
    | false =>
      obtain ⟨s1, h1, hpost⟩ := skip_value hv n w1 (w2 ++ 0x5D :: rest) s p f hw1 (by simpa using hs)
        (by simp at hf; omega) (fun _ => delim_ws cfg hw2 d1 rest)
      obtain ⟨X, hS, hX⟩ := skipSpaces_ws cfg (r := rest) (by decide : Tok 0x5D) w2 hw2 s1 _ true hpost.pos
      refine ⟨mv X, ?_, by rw [← hpos]; exact hS.mv⟩
      simp only [fparseElems, ha, h1, hX (n + 1) (by simp at hf; omega), hS.cur_cons, beq_self_eq_true, ↓reduceIte,
        Bool.false_eq_true, List.append_nil, projectElems]
  | cons _ w1 t v w2 more vs hw1 hv hw2 hr =>
    have hpos : p + w1.length + t.length + w2.length + 1 + more.length + 1 =
        p + (w1 ++ t ++ w2 ++ 0x2C :: more).length + 1 := by simp; omega
    have k1 : ((0x2C : UInt8) == 0x5D) = false := by decide
    cases ha : ef.allow with
    | true =>
      obtain ⟨s1, h1, hpost⟩ := fcomplete_value hu hv ef n w1 (w2 ++ 0x2C :: (more ++ 0x5D :: rest)) s p f hw1
        (by simpa using hs) (by simp at hf; omega) (fun _ => delim_ws cfg hw2 d0 _)
      obtain ⟨X, hS, hX⟩ := skipSpaces_ws cfg (r := more ++ 0x5D :: rest) (by decide : Tok 0x2C) w2 hw2 s1 _ true hpost.pos
      obtain ⟨s', h2, h3⟩ := fcomplete_elems hu hr ef n rest (mv X) _ true (project ef v :: acc) hS.mv.pos
        (by simp at hf; omega)
      refine ⟨s', ?_, by rw [← hpos]; exact h3⟩
      simp only [fparseElems, ha, h1, hX (n + 1) (by simp at hf; omega), hS.cur_cons, k1, beq_self_eq_true, ↓reduceIte,
        Bool.false_eq_true, h2, List.reverse_cons, List.append_assoc, List.singleton_append, projectElems]
    | false =>
      obtain ⟨s1, h1, hpost⟩ := skip_value hv n w1 (w2 ++ 0x2C :: (more ++ 0x5D :: rest)) s p f hw1
        (by simpa using hs) (by simp at hf; omega) (fun _ => delim_ws cfg hw2 d0 _)
      obtain ⟨X, hS, hX⟩ := skipSpaces_ws cfg (r := more ++ 0x5D :: rest) (by decide : Tok 0x2C) w2 hw2 s1 _ true hpost.pos
      obtain ⟨s', h2, h3⟩ := fcomplete_elems hu hr ef n rest (mv X) _ true acc hS.mv.pos (by simp at hf; omega)
      refine ⟨s', ?_, by rw [← hpos]; exact h3⟩
      simp only [fparseElems, ha, h1, hX (n + 1) (by simp at hf; omega), hS.cur_cons, k1, beq_self_eq_true, ↓reduceIte,
        Bool.false_eq_true, h2, projectElems]
theorem fcomplete_members {cfg : Cfg} (hu : cfg.decodeUnicode = true) {L : Nat} {body : List Byte}
    {ms : List (List Byte × Val)} (h : Members cfg L body ms) :
    ∀ (flt : Flt) (fuel : Nat) (rest : List Byte) (s : St) (p : Nat) (f : Bool) (acc : List (List Byte × Val)),
      Pos s (body ++ 0x7D :: rest) p f → body.length + 2 ≤ fuel →
      ∃ X s', skipSpaces cfg (fuel + 1) s = (.ok, X) ∧ cur X = (0x22, X) ∧
        fparseMembers cfg fuel L flt X acc = (.ok, .obj (foldMembers acc (projectMembers flt ms)), s') ∧
        At s' rest (p + body.length + 1) true := by
  intro flt fuel rest s p f acc hs hf
  obtain ⟨n, rfl⟩ : ∃ n, fuel = n + 1 := ⟨fuel - 1, by omega⟩
  obtain ⟨d0, _, d2, _⟩ := inNumber_delims cfg
  have q1 : ((0x22 : UInt8) == 0x22 || (0x22 : UInt8) == 0x27) = true := by decide
  cases h with
  | one _ w1 kb k w2 w3 t v w4 hw1 hkb hkl hw2 hw3 hv hw4 =>
    have hpos : p + w1.length + 1 + kb.length + 1 + w2.length + 1 + w3.length + t.length + w4.length + 1 =
        p + (w1 ++ 0x22 :: kb ++ 0x22 :: w2 ++ 0x3A :: w3 ++ t ++ w4).length + 1 := by simp; omega
    obtain ⟨X, hS, hX⟩ := skipSpaces_ws cfg (r := kb ++ 0x22 :: (w2 ++ 0x3A :: (w3 ++ (t ++ (w4 ++ 0x7D :: rest)))))
      (by decide : Tok 0x22) w1 hw1 s p f (by simpa using hs)
    obtain ⟨q, hq, hk⟩ := C17.body_decodes_gen (cfg := cfg) (stop := 0x22) (by decide) hu hkb (n + 1) [] 0 (mv X) _ _ true
      (by simp at hf; omega) (by simpa using hkl) hS.mv
    obtain ⟨Y, hSY, hY⟩ := skipSpaces_ws cfg (r := w3 ++ (t ++ (w4 ++ 0x7D :: rest))) (by decide : Tok 0x3A) w2 hw2 q _ true hq.pos
    cases ha : (flt.subKey k).allow with
    | true =>
      obtain ⟨s1, h1, hpost⟩ := fcomplete_value hu hv (flt.subKey k) n w3 (w4 ++ 0x7D :: rest) (mv Y) _ true hw3 hSY.mv.pos
        (by simp at hf; omega) (fun _ => delim_ws cfg hw4 d2 rest)
      obtain ⟨Z, hSZ, hZ⟩ := skipSpaces_ws cfg (r := rest) (by decide : Tok 0x7D) w4 hw4 s1 _ true hpost.pos
      refine ⟨X, mv Z, hX (n + 2) (by simp at hf; omega), hS.cur_cons, ?_, by rw [← hpos]; exact hSZ.mv⟩
      simp only [fparseMembers, hS.cur_cons, q1, Bool.true_or, ↓reduceIte, hk, hY (n + 1) (by simp at hf; omega), hSY.cur_cons,
        bne_self_eq_false, Bool.false_eq_true, ha, h1, hZ (n + 1) (by simp at hf; omega), hSZ.cur_cons, beq_self_eq_true,
        List.reverse_nil, List.nil_append, foldMembers, List.foldl_cons, List.foldl_nil, projectMembers]
    | false =>
      obtain ⟨s1, h1, hpost⟩ := skip_value hv n w3 (w4 ++ 0x7D :: rest) (mv Y) _ true hw3 hSY.mv.pos
        (by simp at hf; omega) (fun _ => delim_ws cfg hw4 d2 rest)
      obtain ⟨Z, hSZ, hZ⟩ := skipSpaces_ws cfg (r := rest) (by decide : Tok 0x7D) w4 hw4 s1 _ true hpost.pos
      refine ⟨X, mv Z, hX (n + 2) (by simp at hf; omega), hS.cur_cons, ?_, by rw [← hpos]; exact hSZ.mv⟩
      simp only [fparseMembers, hS.cur_cons, q1, Bool.true_or, ↓reduceIte, hk, hY (n + 1) (by simp at hf; omega), hSY.cur_cons,
        bne_self_eq_false, Bool.false_eq_true, ha, h1, hZ (n + 1) (by simp at hf; omega), hSZ.cur_cons, beq_self_eq_true,
        List.reverse_nil, List.nil_append, foldMembers, List.foldl_nil, projectMembers]
  | cons _ w1 kb k w2 w3 t v w4 more ms' hw1 hkb hkl hw2 hw3 hv hw4 hr =>
    have hpos : p + w1.length + 1 + kb.length + 1 + w2.length + 1 + w3.length + t.length + w4.length + 1 + more.length + 1 =
        p + (w1 ++ 0x22 :: kb ++ 0x22 :: w2 ++ 0x3A :: w3 ++ t ++ w4 ++ 0x2C :: more).length + 1 := by simp; omega
    have k1 : ((0x2C : UInt8) == 0x7D) = false := by decide
    obtain ⟨X, hS, hX⟩ := skipSpaces_ws cfg
      (r := kb ++ 0x22 :: (w2 ++ 0x3A :: (w3 ++ (t ++ (w4 ++ 0x2C :: (more ++ 0x7D :: rest))))))
      (by decide : Tok 0x22) w1 hw1 s p f (by simpa using hs)
    obtain ⟨q, hq, hk⟩ := C17.body_decodes_gen (cfg := cfg) (stop := 0x22) (by decide) hu hkb (n + 1) [] 0 (mv X) _ _ true
      (by simp at hf; omega) (by simpa using hkl) hS.mv
    obtain ⟨Y, hSY, hY⟩ := skipSpaces_ws cfg (r := w3 ++ (t ++ (w4 ++ 0x2C :: (more ++ 0x7D :: rest))))
      (by decide : Tok 0x3A) w2 hw2 q _ true hq.pos
    cases ha : (flt.subKey k).allow with
    | true =>
      obtain ⟨s1, h1, hpost⟩ := fcomplete_value hu hv (flt.subKey k) n w3 (w4 ++ 0x2C :: (more ++ 0x7D :: rest)) (mv Y) _ true
        hw3 hSY.mv.pos (by simp at hf; omega) (fun _ => delim_ws cfg hw4 d0 _)
      obtain ⟨Z, hSZ, hZ⟩ := skipSpaces_ws cfg (r := more ++ 0x7D :: rest) (by decide : Tok 0x2C) w4 hw4 s1 _ true hpost.pos
      obtain ⟨X2, s', hX2, hcX2, h2, h3⟩ := fcomplete_members hu hr flt n rest (mv Z) _ true
        (setMember acc k (project (flt.subKey k) v)) hSZ.mv.pos (by simp at hf; omega)
      refine ⟨X, s', hX (n + 2) (by simp at hf; omega), hS.cur_cons, ?_, by rw [← hpos]; exact h3⟩
      simp only [fparseMembers, hS.cur_cons, q1, Bool.true_or, ↓reduceIte, hk, hY (n + 1) (by simp at hf; omega), hSY.cur_cons,
        bne_self_eq_false, Bool.false_eq_true, ha, h1, hZ (n + 1) (by simp at hf; omega), hSZ.cur_cons, k1, beq_self_eq_true,
        hX2, h2, List.reverse_nil, List.nil_append, foldMembers, List.foldl_cons, projectMembers]
    | false =>
      obtain ⟨s1, h1, hpost⟩ := skip_value hv n w3 (w4 ++ 0x2C :: (more ++ 0x7D :: rest)) (mv Y) _ true
        hw3 hSY.mv.pos (by simp at hf; omega) (fun _ => delim_ws cfg hw4 d0 _)
      obtain ⟨Z, hSZ, hZ⟩ := skipSpaces_ws cfg (r := more ++ 0x7D :: rest) (by decide : Tok 0x2C) w4 hw4 s1 _ true hpost.pos
      obtain ⟨X2, s', hX2, hcX2, h2, h3⟩ := fcomplete_members hu hr flt n rest (mv Z) _ true acc hSZ.mv.pos
        (by simp at hf; omega)
      refine ⟨X, s', hX (n + 2) (by simp at hf; omega), hS.cur_cons, ?_, by rw [← hpos]; exact h3⟩
      simp only [fparseMembers, hS.cur_cons, q1, Bool.true_or, ↓reduceIte, hk, hY (n + 1) (by simp at hf; omega), hSY.cur_cons,
        bne_self_eq_false, Bool.false_eq_true, ha, h1, hZ (n + 1) (by simp at hf; omega), hSZ.cur_cons, k1, beq_self_eq_true,
        hX2, h2, List.reverse_nil, List.nil_append, foldMembers, projectMembers]
end

end JD
