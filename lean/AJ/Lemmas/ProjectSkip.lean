/- The skipping routines of the filtered JSON deserializer (`skipVariant`, `skipElems`, `skipMembers`,
   `skipQuoted`, `skipNumeric`) consume, on a text of the RFC 8259 grammar `Spec.Json.Value`, exactly what the
   parsing routines consume: same bytes taken, same latch afterwards (after a number the latch holds the
   look-ahead byte in both). Mirror of `complete_value` in AJ/Lemmas/JsonComplete.lean. -/
import AJ.Lemmas.JsonComplete
set_option linter.unusedSimpArgs false
namespace JD
open Spec.Json

/-! ## numbers -/

/-- `skipNumeric` stops on the delimiter that follows the literal and leaves it latched — like `scanNumber` -/
theorem skipNumeric_lit (cfg : Cfg) {rest : List Byte} (hd : Delim cfg rest) (lit : List Byte)
    (hl : ∀ c ∈ lit, inNumber cfg c = true) :
    ∀ (n : Nat) (s : St) (p : Nat) (f : Bool), Pos s (lit ++ rest) p f → lit.length < n →
      Seen (skipNumeric cfg n s) rest (p + lit.length) f := by
  induction lit with
  | nil =>
    intro n s p f h hn
    obtain ⟨m, rfl⟩ : ∃ m, n = m + 1 := ⟨n - 1, by simp at hn; omega⟩
    have h' : Pos s rest p f := by simpa using h
    cases rest with
    | nil =>
      obtain ⟨X, hX, hS⟩ := Pos.cur_nil h'
      simp only [skipNumeric, hX, inNumber_zero, Bool.false_eq_true, ↓reduceIte]
      simpa using hS
    | cons c r =>
      obtain ⟨X, hX, hS⟩ := Pos.cur_cons h'
      simp only [skipNumeric, hX, hd c r rfl, Bool.false_eq_true, ↓reduceIte]
      simpa using hS
  | cons a lit ih =>
    intro n s p f h hn
    obtain ⟨m, rfl⟩ : ∃ m, n = m + 1 := ⟨n - 1, by simp at hn; omega⟩
    obtain ⟨X, hX, hS⟩ := Pos.cur_cons (by simpa using h)
    have := ih (fun c hc => hl c (List.mem_cons_of_mem _ hc)) m (mv X) (p + 1) f hS.mv.pos (by simp at hn; omega)
    simp only [skipNumeric, hX, hl a (List.mem_cons_self ..), ↓reduceIte]
    have e : p + 1 + lit.length = p + (a :: lit).length := by simp; omega
    rw [← e]; exact this

/-! ## strings -/

theorem sq_stop {stop : Byte} {n : Nat} {s : St} {rest : List Byte} {p : Nat} {f : Bool}
    (h : At s (stop :: rest) p f) : skipQuoted stop (n + 1) s = (.ok, adv s stop rest) := by
  simp only [skipQuoted, h.cur, mv_ld, beq_self_eq_true, ↓reduceIte]

theorem sq_plain {stop : Byte} {n : Nat} {s : St} {c : Byte} {rest : List Byte} {p : Nat} {f : Bool}
    (h : At s (c :: rest) p f) (hs : c ≠ stop) (h0 : c ≠ 0) (hb : c ≠ 0x5C) :
    skipQuoted stop (n + 1) s = skipQuoted stop n (adv s c rest) := by
  have e1 : (c == stop) = false := by simpa using hs
  have e2 : (c == 0) = false := by simpa using h0
  have e3 : (c == 0x5C) = false := by simpa using hb
  simp only [skipQuoted, h.cur, mv_ld, e1, e2, e3, Bool.false_eq_true, ↓reduceIte]

theorem sq_esc {stop : Byte} {n : Nat} {s : St} {d : Byte} {rest : List Byte} {p : Nat} {f : Bool}
    (h : At s (0x5C :: d :: rest) p f) (hs : stop ≠ 0x5C) (h0 : d ≠ 0) :
    skipQuoted stop (n + 1) s = skipQuoted stop n (adv (adv s 0x5C (d :: rest)) d rest) := by
  have e1 : ((0x5C : Byte) == stop) = false := by simpa using (fun h => hs h.symm)
  have e2 : (d != 0) = true := by simpa using h0
  have l1 : ((0x5C : Byte) == 0) = false := by decide
  have hc : cur (adv s 0x5C (d :: rest)) = (d, ld (adv s 0x5C (d :: rest)) d rest) := cur_cons rfl rfl
  simp only [skipQuoted, h.cur, mv_ld, e1, l1, hc, e2, beq_self_eq_true, Bool.false_eq_true, ↓reduceIte]

theorem hex_plain {stop : Byte} (hx : Spec.hexVal stop = none) {c : Byte} {d : Nat} (h : Spec.hexVal c = some d) :
    c ≠ stop ∧ c ≠ 0 ∧ c ≠ 0x5C := by
  refine ⟨?_, ?_, ?_⟩
  · intro e; rw [e, hx] at h; cases h
  · intro e; rw [e, (by decide : Spec.hexVal 0 = none)] at h; cases h
  · intro e; rw [e, (by decide : Spec.hexVal 0x5C = none)] at h; cases h

/-- `\uXXXX` is skipped as an escaped `u` followed by four ordinary bytes -/
theorem sq_u {stop : Byte} (hs : stop ≠ 0x5C) (hx : Spec.hexVal stop = none) {n : Nat} {s : St} {a b c d : Byte}
    {da db dc dd : Nat} {rest : List Byte} {p : Nat} {f : Bool}
    (h : At s (0x5C :: 0x75 :: a :: b :: c :: d :: rest) p f)
    (ha : Spec.hexVal a = some da) (hb : Spec.hexVal b = some db) (hc : Spec.hexVal c = some dc)
    (hd : Spec.hexVal d = some dd) :
    ∃ s', At s' rest (p + 6) f ∧ skipQuoted stop (n + 5) s = skipQuoted stop n s' := by
  obtain ⟨a1, a2, a3⟩ := hex_plain hx ha
  obtain ⟨b1, b2, b3⟩ := hex_plain hx hb
  obtain ⟨c1, c2, c3⟩ := hex_plain hx hc
  obtain ⟨d1, d2, d3⟩ := hex_plain hx hd
  have g1 := h.adv.adv
  have g2 := g1.adv
  have g3 := g2.adv
  have g4 := g3.adv
  refine ⟨_, g4.adv, ?_⟩
  rw [sq_esc (n := n + 4) h hs (by decide), sq_plain (n := n + 3) g1 a1 a2 a3, sq_plain (n := n + 2) g2 b1 b2 b3,
    sq_plain (n := n + 1) g3 c1 c2 c3, sq_plain (n := n) g4 d1 d2 d3]

/-- `skipQuoted` over a well-formed string body followed by the closing quote: ends just behind the quote,
    like `parseQuoted` (`C17.body_decodes_gen`) -/
theorem skipQuoted_body {stop : Byte} (hs : stop ≠ 0x5C) (hx : Spec.hexVal stop = none) {t v : List Byte}
    (hb : Body stop t v) :
    ∀ (fuel : Nat) (q : St) (rest : List Byte) (p : Nat) (f : Bool),
      t.length < fuel → At q (t ++ stop :: rest) p f →
      ∃ q', At q' rest (p + t.length + 1) f ∧ skipQuoted stop fuel q = (.ok, q') := by
  induction hb with
  | nil =>
    intro fuel q rest p f hf h
    obtain ⟨n, rfl⟩ : ∃ n, fuel = n + 1 := ⟨fuel - 1, by simp at hf; omega⟩
    have h' : At q (stop :: rest) p f := by simpa using h
    exact ⟨_, by simpa using h'.adv, sq_stop h'⟩
  | plain c t v h1 h2 h3 _ ih =>
    intro fuel q rest p f hf h
    obtain ⟨n, rfl⟩ : ∃ n, fuel = n + 1 := ⟨fuel - 1, by simp at hf; omega⟩
    have h' : At q (c :: (t ++ stop :: rest)) p f := by simpa using h
    obtain ⟨q', hq', he'⟩ := ih n _ rest _ f (by simp at hf; omega) h'.adv
    refine ⟨q', ?_, by rw [sq_plain h' h2 (ne_zero_of_ge_space h1) h3, he']⟩
    have : p + 1 + t.length + 1 = p + (c :: t).length + 1 := by simp; omega
    rw [← this]; exact hq'
  | esc l x t v hm _ ih =>
    intro fuel q rest p f hf h
    obtain ⟨n, rfl⟩ : ∃ n, fuel = n + 1 := ⟨fuel - 1, by simp at hf; omega⟩
    obtain ⟨f1, _, _, _⟩ := rfcEscapes_facts hm
    have h' : At q (0x5C :: l :: (t ++ stop :: rest)) p f := by simpa using h
    obtain ⟨q', hq', he'⟩ := ih n _ rest _ f (by simp at hf; omega) h'.adv.adv
    refine ⟨q', ?_, by rw [sq_esc h' hs f1, he']⟩
    have : p + 1 + 1 + t.length + 1 = p + (0x5C :: l :: t).length + 1 := by simp; omega
    rw [← this]; exact hq'
  | bmp h1 h2 h3 h4 d1 d2 d3 d4 t v e1 e2 e3 e4 _ _ ih =>
    intro fuel q rest p f hf h
    obtain ⟨n, rfl⟩ : ∃ n, fuel = n + 5 := ⟨fuel - 5, by simp at hf; omega⟩
    have h' : At q (0x5C :: 0x75 :: h1 :: h2 :: h3 :: h4 :: (t ++ stop :: rest)) p f := by simpa using h
    obtain ⟨q1, hq1, he1⟩ := sq_u (n := n) hs hx h' e1 e2 e3 e4
    obtain ⟨q', hq', he'⟩ := ih n q1 rest _ f (by simp at hf; omega) hq1
    refine ⟨q', ?_, by rw [he1, he']⟩
    have : p + 6 + t.length + 1 = p + (0x5C :: 0x75 :: h1 :: h2 :: h3 :: h4 :: t).length + 1 := by simp; omega
    rw [← this]; exact hq'
  | pair a1 a2 a3 a4 b1 b2 b3 b4 x1 x2 x3 x4 y1 y2 y3 y4 hiu lou t v ea1 ea2 ea3 ea4 eb1 eb2 eb3 eb4 _ _ _ _ _ ih =>
    intro fuel q rest p f hf h
    obtain ⟨n, rfl⟩ : ∃ n, fuel = n + 5 + 5 := ⟨fuel - 10, by simp at hf; omega⟩
    have h' : At q (0x5C :: 0x75 :: a1 :: a2 :: a3 :: a4 :: 0x5C :: 0x75 :: b1 :: b2 :: b3 :: b4 ::
        (t ++ stop :: rest)) p f := by simpa using h
    obtain ⟨q1, hq1, he1⟩ := sq_u (n := n + 5) hs hx h' ea1 ea2 ea3 ea4
    obtain ⟨q2, hq2, he2⟩ := sq_u (n := n) hs hx hq1 eb1 eb2 eb3 eb4
    obtain ⟨q', hq', he'⟩ := ih n q2 rest _ f (by simp at hf; omega) hq2
    refine ⟨q', ?_, by rw [he1, he2, he']⟩
    have : p + 6 + 6 + t.length + 1 =
        p + (0x5C :: 0x75 :: a1 :: a2 :: a3 :: a4 :: 0x5C :: 0x75 :: b1 :: b2 :: b3 :: b4 :: t).length + 1 := by
      simp; omega
    rw [← this]; exact hq'

/-! ## scalars through `skipVariant` -/

theorem sv_null (cfg : Cfg) {fuel L : Nat} {w rest : List Byte} {s : St} {p : Nat} {f : Bool}
    (hw : Ws w) (h : Pos s (w ++ ([0x6E, 0x75, 0x6C, 0x6C] ++ rest)) p f) (hf : w.length < fuel) :
    ∃ s', skipVariant cfg fuel L s = (.ok, s') ∧ At s' rest (p + w.length + 4) true := by
  obtain ⟨n, rfl⟩ : ∃ n, fuel = n + 1 := ⟨fuel - 1, by omega⟩
  have tok : Tok 0x6E := by decide
  obtain ⟨X, hS, hX⟩ := skipSpaces_ws cfg (r := 0x75 :: 0x6C :: 0x6C :: rest) tok w hw s p f (by simpa using h)
  obtain ⟨s', h1, h2⟩ := skipKeyword_ok [0x6E, 0x75, 0x6C, 0x6C] (by decide) X rest (p + w.length) true
    (by simpa using hS.pos) (by simp)
  refine ⟨s', ?_, by simpa using h2⟩
  simp (config := { decide := true }) only [skipVariant, hX (n + 1) hf, hS.cur_cons, kw_null, h1, ↓reduceIte,
    Bool.false_eq_true, Bool.or_self]

theorem sv_true (cfg : Cfg) {fuel L : Nat} {w rest : List Byte} {s : St} {p : Nat} {f : Bool}
    (hw : Ws w) (h : Pos s (w ++ ([0x74, 0x72, 0x75, 0x65] ++ rest)) p f) (hf : w.length < fuel) :
    ∃ s', skipVariant cfg fuel L s = (.ok, s') ∧ At s' rest (p + w.length + 4) true := by
  obtain ⟨n, rfl⟩ : ∃ n, fuel = n + 1 := ⟨fuel - 1, by omega⟩
  have tok : Tok 0x74 := by decide
  obtain ⟨X, hS, hX⟩ := skipSpaces_ws cfg (r := 0x72 :: 0x75 :: 0x65 :: rest) tok w hw s p f (by simpa using h)
  obtain ⟨s', h1, h2⟩ := skipKeyword_ok [0x74, 0x72, 0x75, 0x65] (by decide) X rest (p + w.length) true
    (by simpa using hS.pos) (by simp)
  refine ⟨s', ?_, by simpa using h2⟩
  simp (config := { decide := true }) only [skipVariant, hX (n + 1) hf, hS.cur_cons, kw_true, h1, ↓reduceIte,
    Bool.false_eq_true, Bool.or_self]

theorem sv_false (cfg : Cfg) {fuel L : Nat} {w rest : List Byte} {s : St} {p : Nat} {f : Bool}
    (hw : Ws w) (h : Pos s (w ++ ([0x66, 0x61, 0x6C, 0x73, 0x65] ++ rest)) p f) (hf : w.length < fuel) :
    ∃ s', skipVariant cfg fuel L s = (.ok, s') ∧ At s' rest (p + w.length + 5) true := by
  obtain ⟨n, rfl⟩ : ∃ n, fuel = n + 1 := ⟨fuel - 1, by omega⟩
  have tok : Tok 0x66 := by decide
  obtain ⟨X, hS, hX⟩ := skipSpaces_ws cfg (r := 0x61 :: 0x6C :: 0x73 :: 0x65 :: rest) tok w hw s p f (by simpa using h)
  obtain ⟨s', h1, h2⟩ := skipKeyword_ok [0x66, 0x61, 0x6C, 0x73, 0x65] (by decide) X rest (p + w.length) true
    (by simpa using hS.pos) (by simp)
  refine ⟨s', ?_, by simpa using h2⟩
  simp (config := { decide := true }) only [skipVariant, hX (n + 1) hf, hS.cur_cons, kw_false, h1, ↓reduceIte,
    Bool.false_eq_true, Bool.or_self]

theorem sv_str (cfg : Cfg) {fuel L : Nat} {w body sv rest : List Byte} {s : St}
    {p : Nat} {f : Bool} (hb : Body 0x22 body sv)
    (hw : Ws w) (h : Pos s (w ++ ((0x22 :: body ++ [0x22]) ++ rest)) p f) (hf : w.length + body.length < fuel) :
    ∃ s', skipVariant cfg fuel L s = (.ok, s') ∧ At s' rest (p + w.length + (body.length + 2)) true := by
  obtain ⟨n, rfl⟩ : ∃ n, fuel = n + 1 := ⟨fuel - 1, by omega⟩
  have tok : Tok 0x22 := by decide
  obtain ⟨X, hS, hX⟩ := skipSpaces_ws cfg (r := body ++ 0x22 :: rest) tok w hw s p f (by simpa using h)
  obtain ⟨q', hq', he⟩ := skipQuoted_body (stop := 0x22) (by decide) (by decide) hb (n + 1) (mv X) rest
    (p + w.length + 1) true (by omega) hS.mv
  refine ⟨q', ?_, ?_⟩
  · simp (config := { decide := true }) only [skipVariant, hX (n + 1) (by omega), hS.cur_cons, he, ↓reduceIte,
      Bool.false_eq_true, Bool.or_self, Bool.or_false, Bool.true_or]
  · have : p + w.length + 1 + body.length + 1 = p + w.length + (body.length + 2) := by omega
    rw [← this]; exact hq'

theorem sv_num (cfg : Cfg) {fuel L : Nat} {w lit rest : List Byte} {s : St} {p : Nat} {f : Bool}
    (hn : NumLit lit) (hd : Delim cfg rest) (hw : Ws w) (h : Pos s (w ++ (lit ++ rest)) p f)
    (hf : w.length + lit.length < fuel) :
    ∃ s', skipVariant cfg fuel L s = (.ok, s') ∧ Seen s' rest (p + w.length + lit.length) true := by
  obtain ⟨n, rfl⟩ : ∃ n, fuel = n + 1 := ⟨fuel - 1, by omega⟩
  have hchars := numLit_chars hn
  obtain ⟨c, cs, rfl, hc⟩ := numLit_head hn
  obtain ⟨tok, k1, k2, k3, k4, k5, k6, k7, _, _⟩ := numStart_facts hc
  obtain ⟨X, hS, hX⟩ := skipSpaces_ws cfg (r := cs ++ rest) tok w hw s p f (by simpa using h)
  have hY := skipNumeric_lit cfg hd (c :: cs) (fun x hx => inNumber_numCh cfg (hchars x hx)) (n + 1) X
    (p + w.length) true (by simpa using hS.pos) (by omega)
  refine ⟨_, ?_, hY⟩
  simp only [skipVariant, hX (n + 1) (by omega), hS.cur_cons, k1, k2, k3, k4, k5, k6, k7, Bool.or_self, Bool.false_eq_true,
    ↓reduceIte]

/-- `]` right after `[` (white space in between): `skipElems` sees the bracket as an empty "number" -/
theorem skipElems_empty (cfg : Cfg) {L : Nat} {w rest : List Byte} {s : St} {p : Nat} {f : Bool}
    (hw : Ws w) (h : Pos s (w ++ 0x5D :: rest) p f) {n : Nat} (hn : w.length + 2 ≤ n) :
    ∃ s', skipElems cfg n L s = (.ok, s') ∧ At s' rest (p + w.length + 1) true := by
  obtain ⟨m, rfl⟩ : ∃ m, n = m + 2 := ⟨n - 2, by omega⟩
  have tok : Tok 0x5D := by decide
  obtain ⟨Y, hS, hY⟩ := skipSpaces_ws cfg (r := rest) tok w hw s p f h
  obtain ⟨_, _, d2, _⟩ := inNumber_delims cfg
  refine ⟨mv Y, ?_, hS.mv⟩
  have hsv : skipVariant cfg (m + 1) L Y = (.ok, Y) := by
    simp (config := { decide := true }) only [skipVariant, skipSpaces_seen cfg tok hS m, hS.cur_cons, skipNumeric,
      inNumber_delims cfg, ↓reduceIte, Bool.false_eq_true, Bool.or_self]
  have hsv' : skipVariant cfg (m + 1) L s = (.ok, Y) := by
    rw [← hsv]
    simp only [skipVariant, hY (m + 1) (by omega), skipSpaces_seen cfg tok hS m]
  simp only [skipElems, hsv', skipSpaces_seen cfg tok hS (m + 1), hS.cur_cons, beq_self_eq_true, ↓reduceIte]

/-! ## The simulation, by recursion on derivations

Same fuel as `complete_value`: `skipVariant` needs one unit more than the number of bytes it reads,
`skipElems` / `skipMembers` two more than the bytes up to the closing bracket. The conclusions are those of
`complete_value` / `complete_elems` / `complete_members` with the value forgotten: `Post` (resp. `At`) fixes
every component of the latch that the parser can observe. -/
mutual
theorem skip_value {cfg : Cfg} {L : Nat} {t : List Byte} {v : Val} (h : Value cfg L t v) :
    ∀ (fuel : Nat) (w rest : List Byte) (s : St) (p : Nat) (f : Bool),
      Ws w → Pos s (w ++ (t ++ rest)) p f → w.length + t.length + 1 ≤ fuel → (NumLit t → Delim cfg rest) →
      ∃ s', skipVariant cfg fuel L s = (.ok, s') ∧ Post s' rest (p + w.length + t.length) (isNumberVal v) := by
  intro fuel w rest s p f hw hs hf hd
  cases h with
  | null =>
    obtain ⟨s', h1, h2⟩ := sv_null cfg (L := L) (fuel := fuel) hw hs (by omega)
    exact ⟨s', h1, by simpa [Post, isNumberVal] using h2⟩
  | «true» =>
    obtain ⟨s', h1, h2⟩ := sv_true cfg (L := L) (fuel := fuel) hw hs (by omega)
    exact ⟨s', h1, by simpa [Post, isNumberVal] using h2⟩
  | «false» =>
    obtain ⟨s', h1, h2⟩ := sv_false cfg (L := L) (fuel := fuel) hw hs (by omega)
    exact ⟨s', h1, by simpa [Post, isNumberVal] using h2⟩
  | num _ _ hn =>
    obtain ⟨_, _, _, h3⟩ := pv_num cfg (L := L) (fuel := fuel) hn (hd hn) hw hs (by omega)
    obtain ⟨s', h1, h2⟩ := sv_num cfg (L := L) (fuel := fuel) hn (hd hn) hw hs (by omega)
    exact ⟨s', h1, by simpa [Post, h3] using h2⟩
  | str _ body sv hb hl =>
    obtain ⟨s', h1, h2⟩ := sv_str cfg (L := L) (fuel := fuel) hb hw hs (by simp at hf; omega)
    exact ⟨s', h1, by simpa [Post, isNumberVal] using h2⟩
  | arrEmpty l w1 hw1 =>
    obtain ⟨n, rfl⟩ : ∃ n, fuel = n + 1 := ⟨fuel - 1, by omega⟩
    obtain ⟨X, hS, hX⟩ := skipSpaces_ws cfg (r := w1 ++ 0x5D :: rest) (by decide : Tok 0x5B) w hw s p f (by simpa using hs)
    obtain ⟨s', h1, h2⟩ := skipElems_empty cfg (L := l) (rest := rest) hw1 hS.mv.pos (n := n) (by simp at hf; omega)
    refine ⟨s', ?_, ?_⟩
    · simp only [skipVariant, hX (n + 1) (by omega), hS.cur_cons, beq_self_eq_true, ↓reduceIte, h1]
    · have : p + w.length + 1 + w1.length + 1 = p + w.length + (0x5B :: w1 ++ [0x5D]).length := by simp; omega
      simp only [Post, isNumberVal, Bool.false_eq_true, ↓reduceIte]
      rw [← this]; exact h2
  | arr l body xs he =>
    obtain ⟨n, rfl⟩ : ∃ n, fuel = n + 1 := ⟨fuel - 1, by omega⟩
    obtain ⟨X, hS, hX⟩ := skipSpaces_ws cfg (r := body ++ 0x5D :: rest) (by decide : Tok 0x5B) w hw s p f (by simpa using hs)
    obtain ⟨s', h1, h2⟩ := skip_elems he n rest (mv X) _ true (by simpa using hS.mv.pos) (by simp at hf; omega)
    refine ⟨s', ?_, ?_⟩
    · simp only [skipVariant, hX (n + 1) (by omega), hS.cur_cons, beq_self_eq_true, ↓reduceIte, h1]
    · have : p + w.length + 1 + body.length + 1 = p + w.length + (0x5B :: body ++ [0x5D]).length := by simp; omega
      simp only [Post, isNumberVal, Bool.false_eq_true, ↓reduceIte]
      rw [← this]; exact h2
  | objEmpty l w1 hw1 =>
    obtain ⟨n, rfl⟩ : ∃ n, fuel = n + 1 := ⟨fuel - 1, by omega⟩
    obtain ⟨X, hS, hX⟩ := skipSpaces_ws cfg (r := w1 ++ 0x7D :: rest) (by decide : Tok 0x7B) w hw s p f (by simpa using hs)
    obtain ⟨Y, hSY, hY⟩ := skipSpaces_ws cfg (r := rest) (by decide : Tok 0x7D) w1 hw1 (mv X) _ true hS.mv.pos
    have k1 : ((0x7B : UInt8) == 0x5B) = false := by decide
    refine ⟨mv Y, ?_, ?_⟩
    · simp only [skipVariant, hX (n + 1) (by omega), hS.cur_cons, k1, beq_self_eq_true, ↓reduceIte, Bool.false_eq_true,
        hY (n + 1) (by simp at hf; omega), hSY.cur_cons]
    · have : p + w.length + 1 + w1.length + 1 = p + w.length + (0x7B :: w1 ++ [0x7D]).length := by simp; omega
      simp only [Post, isNumberVal, Bool.false_eq_true, ↓reduceIte]
      rw [← this]; exact hSY.mv
  | obj l body ms hm =>
    obtain ⟨n, rfl⟩ : ∃ n, fuel = n + 1 := ⟨fuel - 1, by omega⟩
    obtain ⟨X, hS, hX⟩ := skipSpaces_ws cfg (r := body ++ 0x7D :: rest) (by decide : Tok 0x7B) w hw s p f (by simpa using hs)
    obtain ⟨Y, s', hY, hcY, h1, h2⟩ := skip_members hm n rest (mv X) _ true (by simpa using hS.mv.pos)
      (by simp at hf; omega)
    have k1 : ((0x7B : UInt8) == 0x5B) = false := by decide
    have k2 : ((0x22 : UInt8) == 0x7D) = false := by decide
    refine ⟨s', ?_, ?_⟩
    · simp only [skipVariant, hX (n + 1) (by omega), hS.cur_cons, k1, beq_self_eq_true, ↓reduceIte, Bool.false_eq_true,
        hY, hcY, k2, h1]
    · have : p + w.length + 1 + body.length + 1 = p + w.length + (0x7B :: body ++ [0x7D]).length := by simp; omega
      simp only [Post, isNumberVal, Bool.false_eq_true, ↓reduceIte]
      rw [← this]; exact h2
theorem skip_elems {cfg : Cfg} {L : Nat} {body : List Byte} {xs : List Val} (h : Elements cfg L body xs) :
    ∀ (fuel : Nat) (rest : List Byte) (s : St) (p : Nat) (f : Bool),
      Pos s (body ++ 0x5D :: rest) p f → body.length + 2 ≤ fuel →
      ∃ s', skipElems cfg fuel L s = (.ok, s') ∧ At s' rest (p + body.length + 1) true := by
  intro fuel rest s p f hs hf
  obtain ⟨n, rfl⟩ : ∃ n, fuel = n + 1 := ⟨fuel - 1, by omega⟩
  obtain ⟨d0, d1, _⟩ := inNumber_delims cfg
  cases h with
  | one _ w1 t v w2 hw1 hv hw2 =>
    obtain ⟨s1, h1, hpost⟩ := skip_value hv n w1 (w2 ++ 0x5D :: rest) s p f hw1 (by simpa using hs)
      (by simp at hf; omega) (fun _ => delim_ws cfg hw2 d1 rest)
    obtain ⟨X, hS, hX⟩ := skipSpaces_ws cfg (r := rest) (by decide : Tok 0x5D) w2 hw2 s1 _ true hpost.pos
    refine ⟨mv X, ?_, ?_⟩
    · simp only [skipElems, h1, hX (n + 1) (by simp at hf; omega), hS.cur_cons, beq_self_eq_true, ↓reduceIte]
    · have : p + w1.length + t.length + w2.length + 1 = p + (w1 ++ t ++ w2).length + 1 := by simp; omega
      rw [← this]; exact hS.mv
  | cons _ w1 t v w2 more vs hw1 hv hw2 hr =>
    obtain ⟨s1, h1, hpost⟩ := skip_value hv n w1 (w2 ++ 0x2C :: (more ++ 0x5D :: rest)) s p f hw1
      (by simpa using hs) (by simp at hf; omega) (fun _ => delim_ws cfg hw2 d0 _)
    obtain ⟨X, hS, hX⟩ := skipSpaces_ws cfg (r := more ++ 0x5D :: rest) (by decide : Tok 0x2C) w2 hw2 s1 _ true hpost.pos
    obtain ⟨s', h2, h3⟩ := skip_elems hr n rest (mv X) _ true hS.mv.pos (by simp at hf; omega)
    have k1 : ((0x2C : UInt8) == 0x5D) = false := by decide
    refine ⟨s', ?_, ?_⟩
    · simp only [skipElems, h1, hX (n + 1) (by simp at hf; omega), hS.cur_cons, k1, beq_self_eq_true, ↓reduceIte,
        Bool.false_eq_true, h2]
    · have : p + w1.length + t.length + w2.length + 1 + more.length + 1 =
          p + (w1 ++ t ++ w2 ++ 0x2C :: more).length + 1 := by simp; omega
      rw [← this]; exact h3
theorem skip_members {cfg : Cfg} {L : Nat} {body : List Byte}
    {ms : List (List Byte × Val)} (h : Members cfg L body ms) :
    ∀ (fuel : Nat) (rest : List Byte) (s : St) (p : Nat) (f : Bool),
      Pos s (body ++ 0x7D :: rest) p f → body.length + 2 ≤ fuel →
      ∃ X s', skipSpaces cfg (fuel + 1) s = (.ok, X) ∧ cur X = (0x22, X) ∧
        skipMembers cfg fuel L X = (.ok, s') ∧ At s' rest (p + body.length + 1) true := by
  intro fuel rest s p f hs hf
  obtain ⟨n, rfl⟩ : ∃ n, fuel = n + 1 := ⟨fuel - 1, by omega⟩
  obtain ⟨d0, _, d2, _⟩ := inNumber_delims cfg
  have q1 : ((0x22 : UInt8) == 0x22 || (0x22 : UInt8) == 0x27) = true := by decide
  have q2 : (Code.ok != Code.ok) = false := by decide
  cases h with
  | one _ w1 kb k w2 w3 t v w4 hw1 hkb hkl hw2 hw3 hv hw4 =>
    obtain ⟨X, hS, hX⟩ := skipSpaces_ws cfg (r := kb ++ 0x22 :: (w2 ++ 0x3A :: (w3 ++ (t ++ (w4 ++ 0x7D :: rest)))))
      (by decide : Tok 0x22) w1 hw1 s p f (by simpa using hs)
    obtain ⟨q, hq, hk⟩ := skipQuoted_body (stop := 0x22) (by decide) (by decide) hkb (n + 1) (mv X) _ _ true
      (by simp at hf; omega) hS.mv
    obtain ⟨Y, hSY, hY⟩ := skipSpaces_ws cfg (r := w3 ++ (t ++ (w4 ++ 0x7D :: rest))) (by decide : Tok 0x3A) w2 hw2 q _ true hq.pos
    obtain ⟨s1, h1, hpost⟩ := skip_value hv n w3 (w4 ++ 0x7D :: rest) (mv Y) _ true hw3 hSY.mv.pos
      (by simp at hf; omega) (fun _ => delim_ws cfg hw4 d2 rest)
    obtain ⟨Z, hSZ, hZ⟩ := skipSpaces_ws cfg (r := rest) (by decide : Tok 0x7D) w4 hw4 s1 _ true hpost.pos
    refine ⟨X, mv Z, hX (n + 2) (by simp at hf; omega), hS.cur_cons, ?_, ?_⟩
    · simp only [skipMembers, hS.cur_cons, q1, q2, Bool.true_or, ↓reduceIte, hk, hY (n + 1) (by simp at hf; omega), hSY.cur_cons,
        bne_self_eq_false, Bool.false_eq_true, h1, hZ (n + 1) (by simp at hf; omega), hSZ.cur_cons, beq_self_eq_true]
    · have : p + w1.length + 1 + kb.length + 1 + w2.length + 1 + w3.length + t.length + w4.length + 1 =
          p + (w1 ++ 0x22 :: kb ++ 0x22 :: w2 ++ 0x3A :: w3 ++ t ++ w4).length + 1 := by simp; omega
      rw [← this]; exact hSZ.mv
  | cons _ w1 kb k w2 w3 t v w4 more ms' hw1 hkb hkl hw2 hw3 hv hw4 hr =>
    obtain ⟨X, hS, hX⟩ := skipSpaces_ws cfg
      (r := kb ++ 0x22 :: (w2 ++ 0x3A :: (w3 ++ (t ++ (w4 ++ 0x2C :: (more ++ 0x7D :: rest))))))
      (by decide : Tok 0x22) w1 hw1 s p f (by simpa using hs)
    obtain ⟨q, hq, hk⟩ := skipQuoted_body (stop := 0x22) (by decide) (by decide) hkb (n + 1) (mv X) _ _ true
      (by simp at hf; omega) hS.mv
    obtain ⟨Y, hSY, hY⟩ := skipSpaces_ws cfg (r := w3 ++ (t ++ (w4 ++ 0x2C :: (more ++ 0x7D :: rest))))
      (by decide : Tok 0x3A) w2 hw2 q _ true hq.pos
    obtain ⟨s1, h1, hpost⟩ := skip_value hv n w3 (w4 ++ 0x2C :: (more ++ 0x7D :: rest)) (mv Y) _ true hw3
      hSY.mv.pos (by simp at hf; omega) (fun _ => delim_ws cfg hw4 d0 _)
    obtain ⟨Z, hSZ, hZ⟩ := skipSpaces_ws cfg (r := more ++ 0x7D :: rest) (by decide : Tok 0x2C) w4 hw4 s1 _ true hpost.pos
    obtain ⟨X2, s', hX2, hcX2, h2, h3⟩ := skip_members hr n rest (mv Z) _ true hSZ.mv.pos (by simp at hf; omega)
    have k1 : ((0x2C : UInt8) == 0x7D) = false := by decide
    refine ⟨X, s', hX (n + 2) (by simp at hf; omega), hS.cur_cons, ?_, ?_⟩
    · simp only [skipMembers, hS.cur_cons, q1, q2, Bool.true_or, ↓reduceIte, hk, hY (n + 1) (by simp at hf; omega), hSY.cur_cons,
        bne_self_eq_false, Bool.false_eq_true, h1, hZ (n + 1) (by simp at hf; omega), hSZ.cur_cons, k1, beq_self_eq_true,
        hX2, h2]
    · have : p + w1.length + 1 + kb.length + 1 + w2.length + 1 + w3.length + t.length + w4.length + 1 + more.length + 1 =
          p + (w1 ++ 0x22 :: kb ++ 0x22 :: w2 ++ 0x3A :: w3 ++ t ++ w4 ++ 0x2C :: more).length + 1 := by simp; omega
      rw [← this]; exact h3
end

end JD
