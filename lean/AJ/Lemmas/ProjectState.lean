/- The stale `cur` byte of the latch after a successful routine: whenever a container / string routine of the
   JSON deserializer returns `Ok`, it has just consumed its closing delimiter, which is therefore what the
   (unloaded) latch still holds. Holds for every input. Used to show that skipping and parsing a value end in
   literally the same state. -/
import AJ.Lemmas.ProjectSkip
set_option linter.unusedSimpArgs false
namespace JD

/-- the latch after `current(); move()`: unloaded, still holding the byte -/
def Closed (s : St) (c : Byte) : Prop := s.l.loaded = false ∧ s.l.cur = c

theorem cur_snd_cur (s : St) : (cur s).2.l.cur = (cur s).1 := by
  cases h : s.l.loaded
  · cases h2 : s.l.unread with
    | nil => rw [cur_nil h h2]; rfl
    | cons c rest => rw [cur_cons h h2]; rfl
  · rw [cur_loaded h]

theorem closed_mv_cur (s : St) (c : Byte) (h : ((cur s).1 == c) = true) : Closed (mv (cur s).2) c :=
  ⟨rfl, by rw [← eq_of_beq h]; exact cur_snd_cur s⟩

theorem parseQuoted_closed {cfg : Cfg} {stop : Byte} : ∀ fuel acc hi s r s',
    parseQuoted cfg stop fuel acc hi s = (.ok, r, s') → Closed s' stop := by
  intro fuel
  induction fuel with
  | zero => intro acc hi s r s' h; simp only [parseQuoted] at h; cases h
  | succ n ih =>
    intro acc hi s r s' h
    simp only [parseQuoted] at h
    split at h
    · rename_i hc
      split at h
      · cases h
      · cases h; exact closed_mv_cur s stop hc
    · split at h
      · cases h
      · split at h
        · split at h
          · cases h
          · split at h
            · split at h
              · split at h
                · split at h
                  · exact ih _ _ _ _ _ h
                  · split at h
                    · exact ih _ _ _ _ _ h
                    · exact ih _ _ _ _ _ h
                · rename_i hne _
                  exact absurd (congrArg Prod.fst h) hne
              · exact ih _ _ _ _ _ h
            · split at h
              · cases h
              · exact ih _ _ _ _ _ h
        · exact ih _ _ _ _ _ h

theorem skipQuoted_closed {stop : Byte} : ∀ fuel s s', skipQuoted stop fuel s = (.ok, s') → Closed s' stop := by
  intro fuel
  induction fuel with
  | zero => intro s s' h; simp only [skipQuoted] at h; cases h
  | succ n ih =>
    intro s s' h
    simp only [skipQuoted] at h
    split at h
    · rename_i hc; cases h; exact closed_mv_cur s stop hc
    · split at h
      · cases h
      · split at h
        · split at h
          · exact ih _ _ h
          · exact ih _ _ h
        · exact ih _ _ h

theorem parseElems_closed {cfg : Cfg} : ∀ fuel limit s acc v s',
    parseElems cfg fuel limit s acc = (.ok, v, s') → Closed s' 0x5D := by
  intro fuel
  induction fuel with
  | zero => intro limit s acc v s' h; simp only [parseElems] at h; cases h
  | succ n ih =>
    intro limit s acc v s' h
    simp only [parseElems] at h
    repeat' split at h
    all_goals first
      | exact ih _ _ _ _ _ h
      | (cases h; exact closed_mv_cur _ _ ‹_›)
      | (cases h; done)
      | (simp only [Prod.mk.injEq] at h; exact absurd h.1 (by assumption))
      | (rename_i hne; exact (hne _ h).elim)
      | (rename_i hne _; exact (hne _ h).elim)
      | (rename_i hne _ _; exact (hne _ h).elim)
      | (simp_all; done)

theorem skipElems_closed {cfg : Cfg} : ∀ fuel limit s s',
    skipElems cfg fuel limit s = (.ok, s') → Closed s' 0x5D := by
  intro fuel
  induction fuel with
  | zero => intro limit s s' h; simp only [skipElems] at h; cases h
  | succ n ih =>
    intro limit s s' h
    simp only [skipElems] at h
    repeat' split at h
    all_goals first
      | exact ih _ _ _ h
      | (cases h; exact closed_mv_cur _ _ ‹_›)
      | (cases h; done)
      | (simp only [Prod.mk.injEq] at h; exact absurd h.1 (by assumption))
      | (rename_i hne; exact (hne _ h).elim)
      | (rename_i hne _; exact (hne _ h).elim)
      | (rename_i hne _ _; exact (hne _ h).elim)
      | (simp_all; done)

theorem parseMembers_closed {cfg : Cfg} : ∀ fuel limit s ms v s',
    parseMembers cfg fuel limit s ms = (.ok, v, s') → Closed s' 0x7D := by
  intro fuel
  induction fuel with
  | zero => intro limit s ms v s' h; simp only [parseMembers] at h; cases h
  | succ n ih =>
    intro limit s ms v s' h
    simp only [parseMembers] at h
    repeat' split at h
    all_goals first
      | exact ih _ _ _ _ _ h
      | (cases h; exact closed_mv_cur _ _ ‹_›)
      | (cases h; done)
      | (simp only [Prod.mk.injEq] at h; exact absurd h.1 (by assumption))
      | (rename_i hne; exact (hne _ h).elim)
      | (rename_i hne _; exact (hne _ h).elim)
      | (rename_i hne _ _; exact (hne _ h).elim)
      | (simp_all; done)

theorem skipMembers_closed {cfg : Cfg} : ∀ fuel limit s s',
    skipMembers cfg fuel limit s = (.ok, s') → Closed s' 0x7D := by
  intro fuel
  induction fuel with
  | zero => intro limit s s' h; simp only [skipMembers] at h; cases h
  | succ n ih =>
    intro limit s s' h
    simp only [skipMembers] at h
    repeat' split at h
    all_goals first
      | exact ih _ _ _ h
      | (cases h; exact closed_mv_cur _ _ ‹_›)
      | (cases h; done)
      | (simp only [Prod.mk.injEq] at h; exact absurd h.1 (by assumption))
      | (rename_i hne; exact (hne _ h).elim)
      | (rename_i hne _; exact (hne _ h).elim)
      | (rename_i hne _ _; exact (hne _ h).elim)
      | (simp_all; done)

theorem parseNumeric_ok_num {cfg : Cfg} {s : St} {v : Val} {s' : St} (h : parseNumeric cfg s = (.ok, v, s')) :
    isNumberVal v = true := by
  simp only [parseNumeric] at h
  split at h <;> first | (cases h; rfl) | (cases h; done)

set_option maxRecDepth 8000 in
/-- a value that is not a number, parsed and skipped from the same state: the same stale byte is left in the latch -/
theorem parse_skip_cur {cfg : Cfg} (fuel L : Nat) (s : St) (v : Val) (s1 s2 : St)
    (h1 : parseVariant cfg fuel L s = (.ok, v, s1)) (h2 : skipVariant cfg fuel L s = (.ok, s2))
    (hn : isNumberVal v = false) : s1.l.cur = s2.l.cur := by
  cases fuel with
  | zero => simp only [parseVariant] at h1; cases h1
  | succ n =>
    simp only [parseVariant] at h1
    simp only [skipVariant] at h2
    generalize skipSpaces cfg (n+1) s = r at h1 h2
    obtain ⟨e, X⟩ := r
    cases e <;> simp only at h1 h2 <;> try (cases h1; done)
    by_cases c1 : ((cur X).1 == 0x5B) = true
    · simp only [c1, if_true] at h1 h2
      cases L with
      | zero => simp only at h1; cases h1
      | succ l =>
        simp only at h1 h2
        have e2 := (skipElems_closed _ _ _ _ h2).2
        split at h1
        · split at h1
          · cases h1; rw [e2]; exact (closed_mv_cur _ _ ‹_›).2
          · rw [e2]; exact (parseElems_closed _ _ _ _ _ _ h1).2
        · simp only [Prod.mk.injEq] at h1; exact absurd h1.1 (by assumption)
    simp only [c1, Bool.false_eq_true, if_false] at h1 h2
    by_cases c2 : ((cur X).1 == 0x7B) = true
    · simp only [c2, if_true] at h1 h2
      cases L with
      | zero => simp only at h1; cases h1
      | succ l =>
        simp only at h1 h2
        generalize skipSpaces cfg (n+1) (mv (cur X).2) = r2 at h1 h2
        obtain ⟨e2, Y⟩ := r2
        cases e2 <;> simp only at h1 h2 <;> try (cases h1; done)
        split at h1
        · rename_i hd
          simp only [hd, if_true] at h2
          cases h1; cases h2; rfl
        · rename_i hd
          simp only [hd, if_false] at h2
          rw [(parseMembers_closed _ _ _ _ _ _ h1).2, (skipMembers_closed _ _ _ _ h2).2]
    simp only [c2, Bool.false_eq_true, if_false] at h1 h2
    by_cases c3 : ((cur X).1 == 0x22 || (cur X).1 == 0x27) = true
    · simp only [c3, if_true] at h1 h2
      split at h1
      · rename_i heq
        cases h1
        rw [(parseQuoted_closed _ _ _ _ _ _ heq).2, (skipQuoted_closed _ _ _ h2).2]
      · simp only [Prod.mk.injEq] at h1; exact absurd h1.1 (by assumption)
    simp only [c3, Bool.false_eq_true, if_false] at h1 h2
    by_cases c4 : ((cur X).1 == 0x74) = true
    · simp only [c4, if_true] at h1 h2
      rw [h2] at h1; cases h1; rfl
    simp only [c4, Bool.false_eq_true, if_false] at h1 h2
    by_cases c5 : ((cur X).1 == 0x66) = true
    · simp only [c5, if_true] at h1 h2
      rw [h2] at h1; cases h1; rfl
    simp only [c5, Bool.false_eq_true, if_false] at h1 h2
    by_cases c6 : ((cur X).1 == 0x6E) = true
    · simp only [c6, if_true] at h1 h2
      rw [h2] at h1; cases h1; rfl
    simp only [c6, Bool.false_eq_true, if_false] at h1 h2
    rw [parseNumeric_ok_num h1] at hn; cases hn

theorem St.ext' {a b : St} (h1 : a.l.loaded = b.l.loaded) (h2 : a.l.unread = b.l.unread) (h3 : a.l.pos = b.l.pos)
    (h4 : a.found = b.found) (h5 : a.l.cur = b.l.cur) : a = b := by
  obtain ⟨⟨u, c, ld, p⟩, f⟩ := a
  obtain ⟨⟨u', c', ld', p'⟩, f'⟩ := b
  simp only at h1 h2 h3 h4 h5
  subst h1 h2 h3 h4 h5
  rfl

/-- **Skipping = parsing, on the state.** On a value of the RFC grammar the skipping routine ends in literally the
    same state as the parsing routine (after a number: with the same look-ahead byte latched). -/
theorem skip_same_state {cfg : Cfg} (hu : cfg.decodeUnicode = true) {L : Nat} {t : List Byte} {v : Val}
    (h : Spec.Json.Value cfg L t v) (fuel : Nat) (w rest : List Byte) (s : St) (p : Nat) (f : Bool)
    (hw : Spec.Json.Ws w) (hs : Pos s (w ++ (t ++ rest)) p f) (hfuel : w.length + t.length + 1 ≤ fuel)
    (hd : Spec.Json.NumLit t → Delim cfg rest) :
    ∃ s', parseVariant cfg fuel L s = (.ok, v, s') ∧ skipVariant cfg fuel L s = (.ok, s') ∧
      Post s' rest (p + w.length + t.length) (isNumberVal v) := by
  obtain ⟨s1, h1, p1⟩ := complete_value hu h fuel w rest s p f hw hs hfuel hd
  obtain ⟨s2, h2, p2⟩ := skip_value h fuel w rest s p f hw hs hfuel hd
  have : s2 = s1 := by
    have q1 := p1
    have q2 := p2
    unfold Post at q1 q2
    cases hn : isNumberVal v
    · simp only [hn, Bool.false_eq_true, ↓reduceIte] at q1 q2
      exact St.ext' (by rw [q1.1, q2.1]) (by rw [q1.2.1, q2.2.1]) (by rw [q1.2.2.1, q2.2.2.1]) (by rw [q1.2.2.2, q2.2.2.2])
        (parse_skip_cur fuel L s v s1 s2 h1 h2 hn).symm
    · simp only [hn, ↓reduceIte] at q1 q2
      obtain ⟨a1, a2, a3, a4, a5⟩ := q1.fields
      obtain ⟨b1, b2, b3, b4, b5⟩ := q2.fields
      exact St.ext' (by rw [a1, b1]) (by rw [a3, b3]) (by rw [a4, b4]) (by rw [a5, b5]) (by rw [a2, b2])
  subst this
  exact ⟨s2, h1, h2, p1⟩

end JD
